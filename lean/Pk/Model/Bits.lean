/-
  Pk.Model.Bits — executable transliteration of the three bitmask containers of
  /repo/internal/tools/bitmask:

    connectedBitmask.go  ->  Conn  (sorted list of closed runs [lo,hi])
    longBitmask.go       ->  Long  (list of 64-bit words)
    shortBitmask.go      ->  Short (non-empty linked list of 64-bit words)

  Core Lean only (this file is linked into the `pkmodel` executable).
  Mutation through a pointer receiver becomes a returned value; Go loops become
  structural or well-founded recursion.  Bit positions are `Nat` (the Go code uses
  `uint`; positions stay far below 2^63 — stated in DESIGN.md §5 C17 Limits).
-/
namespace Pk.Bits

/-! ## ConnectedBitmask -/

structure Run where
  lo : Nat
  hi : Nat
deriving DecidableEq, Repr, Inhabited

abbrev Conn := List Run

namespace Conn

def make (lo hi : Nat) : Conn := [⟨lo, hi⟩]

/-- `IsSet` -/
def isSet : Conn → Nat → Bool
  | [], _ => false
  | e :: es, b => if b < e.lo then false else if b ≤ e.hi then true else isSet es b

/-- `OnesCount` -/
def onesCount : Conn → Nat
  | [] => 0
  | e :: es => (1 + e.hi - e.lo) + onesCount es

/-- `Len` -/
def len (c : Conn) : Nat :=
  match c.getLast? with
  | some e => e.hi + 1
  | none => 0

/-- `IsZero` -/
def isZero (c : Conn) : Bool := c.isEmpty

/-- `Set` -/
def set : Conn → Nat → Conn
  | [], b => [⟨b, b⟩]
  | e :: es, b =>
    if b < e.lo then
      if b + 1 = e.lo then ⟨e.lo - 1, e.hi⟩ :: es else ⟨b, b⟩ :: e :: es
    else if b ≤ e.hi then e :: es
    else if b = e.hi + 1 then
      match es with
      | [] => [⟨e.lo, e.hi + 1⟩]
      | e2 :: es' =>
        if b + 1 = e2.lo then ⟨e.lo, e2.hi⟩ :: es' else ⟨e.lo, e.hi + 1⟩ :: e2 :: es'
    else e :: set es b

/-- `Unset` -/
def unset : Conn → Nat → Conn
  | [], _ => []
  | e :: es, b =>
    if b < e.lo then e :: es
    else if b = e.lo ∨ b = e.hi then
      if e.lo = e.hi then es
      else if b = e.lo then ⟨e.lo + 1, e.hi⟩ :: es
      else ⟨e.lo, e.hi - 1⟩ :: es
    else if b < e.hi then ⟨e.lo, b - 1⟩ :: ⟨b + 1, e.hi⟩ :: es
    else e :: unset es b

/-- `Flip` -/
def flip (c : Conn) (b : Nat) : Conn := if c.isSet b then c.unset b else c.set b

/-- `Equal` : entry-wise comparison of the run lists. -/
def equal (a b : Conn) : Bool := decide (a = b)

/-- `OrCopy`. `cur = none`: top of the outer loop (both operands non-empty, else the rests are
    appended); `cur = some n`: inside the inner `for`, absorbing following runs of either operand
    that touch or overlap `n`. -/
def orGo (cur : Option Run) (as bs : Conn) : Conn :=
  match cur, as, bs with
  | none, [], bs => bs
  | none, a :: as', [] => a :: as'
  | none, a :: as', b :: bs' =>
    if a.hi < b.lo then orGo (some a) as' (b :: bs')
    else if b.hi < a.lo then orGo (some b) (a :: as') bs'
    else orGo (some ⟨if b.lo < a.lo then b.lo else a.lo, if b.hi > a.hi then b.hi else a.hi⟩) as' bs'
  | some n, a :: as', bs =>
    if n.hi + 1 ≥ a.lo then orGo (some ⟨n.lo, if n.hi < a.hi then a.hi else n.hi⟩) as' bs
    else match bs with
      | b :: bs' =>
        if n.hi + 1 ≥ b.lo then orGo (some ⟨n.lo, if n.hi < b.hi then b.hi else n.hi⟩) (a :: as') bs'
        else n :: orGo none (a :: as') (b :: bs')
      | [] => n :: orGo none (a :: as') []
  | some n, [], b :: bs' =>
    if n.hi + 1 ≥ b.lo then orGo (some ⟨n.lo, if n.hi < b.hi then b.hi else n.hi⟩) [] bs'
    else n :: orGo none [] (b :: bs')
  | some n, [], [] => [n]
termination_by 2 * (as.length + bs.length) + (if cur.isSome then 1 else 0)
decreasing_by all_goals (simp; try omega)

def or (as bs : Conn) : Conn := orGo none as bs

/-- `AndCopy` -/
def and (as bs : Conn) : Conn :=
  match as, bs with
  | [], _ => []
  | _, [] => []
  | a :: as', b :: bs' =>
    if a.hi < b.lo then and as' (b :: bs')
    else if b.hi < a.lo then and (a :: as') bs'
    else
      let n : Run := ⟨if a.lo < b.lo then b.lo else a.lo, if a.hi > b.hi then b.hi else a.hi⟩
      if n.hi = a.hi then
        if n.hi = b.hi then n :: and as' bs' else n :: and as' (b :: bs')
      else
        if n.hi = b.hi then n :: and (a :: as') bs'
        else [n]  -- unreachable (n.hi is one of the two); the Go loop would spin, see `and_stuck_unreachable`
termination_by as.length + bs.length

/-- the two nested loops of `XorCopy` as one recursion: the heads of the two lists are the
    current (possibly trimmed) runs `a`, `b` of the Go code.  (On a `break` the Go code re-reads
    the untrimmed entry; for sorted disjoint operands a trimmed run is never the one re-read, so
    the two coincide — the tie checks exactly this on every run.) -/
def xorGo (as bs : Conn) : Conn :=
  match as, bs with
  | [], bs => bs
  | a :: as', [] => a :: as'
  | a :: as', b :: bs' =>
    if a.hi < b.lo then a :: xorGo as' (b :: bs')
    else if b.hi < a.lo then b :: xorGo (a :: as') bs'
    else
      let pre : Conn :=
        if a.lo ≠ b.lo then
          (if a.lo < b.lo then [⟨a.lo, b.lo - 1⟩] else [⟨b.lo, a.lo - 1⟩])
        else []
      if a.hi = b.hi then pre ++ xorGo as' bs'
      else if b.hi < a.hi then pre ++ xorGo (⟨b.hi + 1, a.hi⟩ :: as') bs'
      else pre ++ xorGo as' (⟨a.hi + 1, b.hi⟩ :: bs')
termination_by as.length + bs.length
decreasing_by all_goals (simp; try omega)

/-- `appendMerged` applied along the emitted run sequence: a run is merged into the previous
    one when they touch. -/
def mergeTouching : Conn → Conn
  | [] => []
  | [e] => [e]
  | e :: e2 :: es =>
    if e.hi + 1 = e2.lo then mergeTouching (⟨e.lo, e2.hi⟩ :: es) else e :: mergeTouching (e2 :: es)
termination_by c => c.length

/-- `XorCopy` (every append goes through `appendMerged`). -/
def xor (as bs : Conn) : Conn := mergeTouching (xorGo as bs)

/-- inner `for bIdx < len(other)` of `SubCopy` for one (trimmed) run `a`; returns emitted runs
    and the remaining `bs` (the Go `bIdx` persists across outer iterations). -/
def subInner (a : Run) (bs : Conn) : Conn × Conn :=
  match bs with
  | [] => ([a], [])
  | b :: bs' =>
    if b.hi < a.lo then subInner a bs'
    else if a.hi < b.lo then ([a], b :: bs')
    else
      let pre : Conn := if a.lo < b.lo then [⟨a.lo, b.lo - 1⟩] else []
      if a.hi ≤ b.hi then (pre, b :: bs')
      else
        let r := subInner ⟨b.hi + 1, a.hi⟩ bs'
        (pre ++ r.1, r.2)

/-- `SubCopy` -/
def sub : Conn → Conn → Conn
  | [], _ => []
  | a :: as', bs =>
    let r := subInner a bs
    r.1 ++ sub as' r.2

/-- `Copy` -/
def copy (c : Conn) : Conn := c

/-- the reverse loop of `Inject`, on the reversed run list (back first): stop at the first run
    entirely below `bit`; shift runs at/above `bit` up, widen the run that contains it. -/
def injectRev : List Run → Nat → List Run
  | [], _ => []
  | e :: rest, bit =>
    if bit > e.hi then e :: rest
    else (if bit ≤ e.lo then ⟨e.lo + 1, e.hi + 1⟩ else ⟨e.lo, e.hi + 1⟩) :: injectRev rest bit

def injectShift (c : Conn) (bit : Nat) : Conn := (injectRev c.reverse bit).reverse

/-- `Inject` -/
def inject (c : Conn) (bit : Nat) (v : Bool) : Conn :=
  let s := injectShift c bit
  if v then set s bit else unset s bit

/-- one step of the reverse loop of `Extract`, processing the list from the back.
    `go rev acc` where `rev` is the reversed prefix still to visit and `acc` the already
    processed suffix (in forward order). Returns (result list, returned bit). -/
def extractGo : List Run → Conn → Nat → Conn × Bool
  | [], acc, _ => (acc, false)
  | e :: rev, acc, bit =>
    if e.hi < bit then ((e :: rev).reverse ++ acc, false)
    else if e.lo = bit ∧ e.hi = bit then (rev.reverse ++ acc, true)   -- {bit,bit}: removed
    else
      let e1 : Run := ⟨e.lo, e.hi - 1⟩
      if e1.lo ≤ bit then (rev.reverse ++ e1 :: acc, true)
      else
        let e2 : Run := ⟨e1.lo - 1, e1.hi⟩
        if bit = e2.lo then
          match rev with
          | [] => (e2 :: acc, false)
          | p :: rev' =>
            if p.hi + 1 ≠ e2.lo then ((p :: rev').reverse ++ e2 :: acc, false)
            else (rev'.reverse ++ ⟨p.lo, e2.hi⟩ :: acc, false)
        else extractGo rev (e2 :: acc) bit

/-- `Extract` -/
def extract (c : Conn) (bit : Nat) : Conn × Bool := extractGo c.reverse [] bit

end Conn

/-! ## LongBitmask -/

abbrev W := BitVec 64
abbrev Long := List W

namespace Long

def word (l : Long) (i : Nat) : W := l.getD i 0#64

/-- `IsSet` -/
def isSet (l : Long) (bit : Nat) : Bool :=
  if bit / 64 < l.length then (word l (bit / 64)).getLsbD (bit % 64) else false

def popcount (w : W) : Nat := (List.range 64).countP (fun i => w.getLsbD i)

/-- `bits.Len64` -/
def len64 (w : W) : Nat := Nat.log2 w.toNat + (if w = 0#64 then 0 else 1)

/-- `OnesCount` -/
def onesCount (l : Long) : Nat := (l.map popcount).sum

/-- `Len`: scans from the back for the last non-zero word. -/
def lenAux : List W → Nat → Nat
  | [], _ => 0
  | w :: ws, idx =>
    let r := lenAux ws (idx + 1)
    if r ≠ 0 then r else if w ≠ 0#64 then idx * 64 + len64 w else 0
def len (l : Long) : Nat := lenAux l 0

/-- `IsZero` -/
def isZero (l : Long) : Bool := l.all (· == 0#64)

def grow (l : Long) (idx : Nat) : Long :=
  if idx ≥ l.length then l ++ List.replicate (idx + 1 - l.length) 0#64 else l

def bitW (lbit : Nat) : W := 1#64 <<< lbit

/-- `Set` -/
def set (l : Long) (bit : Nat) : Long :=
  let l := grow l (bit / 64)
  List.set l (bit / 64) (word l (bit / 64) ||| bitW (bit % 64))

/-- `Unset` -/
def unset (l : Long) (bit : Nat) : Long :=
  if bit / 64 ≥ l.length then l
  else List.set l (bit / 64) (word l (bit / 64) &&& ~~~ bitW (bit % 64))

/-- `Flip` -/
def flip (l : Long) (bit : Nat) : Long :=
  let l := grow l (bit / 64)
  List.set l (bit / 64) (word l (bit / 64) ^^^ bitW (bit % 64))

/-- `Equal` -/
def equal : Long → Long → Bool
  | [], bs => bs.all (· == 0#64)
  | as, [] => as.all (· == 0#64)
  | a :: as, b :: bs => a == b && equal as bs

/-- `Or` -/
def or : Long → Long → Long
  | [], bs => bs
  | as, [] => as
  | a :: as, b :: bs => (a ||| b) :: or as bs

/-- `And` (result is truncated to the shorter operand *only if* the receiver is longer). -/
def and : Long → Long → Long
  | [], _ => []
  | _, [] => []
  | a :: as, b :: bs => (a &&& b) :: and as bs

/-- `Xor` -/
def xor : Long → Long → Long
  | [], bs => bs
  | as, [] => as
  | a :: as, b :: bs => (a ^^^ b) :: xor as bs

/-- `Sub` -/
def sub : Long → Long → Long
  | [], _ => []
  | as, [] => as
  | a :: as, b :: bs => (a &&& ~~~ b) :: sub as bs

/-- `Shrink` -/
def shrink (l : Long) : Long := (l.reverse.dropWhile (· == 0#64)).reverse

/-- `TrailingZerosFrom` / `Next`: least set bit ≥ `bit`, as `Next` reports it. -/
def nextAux (l : Long) (bit : Nat) : Nat → Option Nat
  | 0 => none
  | fuel + 1 => if isSet l bit then some bit else nextAux l (bit + 1) fuel
def next (l : Long) (bit : Nat) : Option Nat :=
  if bit / 64 ≥ l.length then none else nextAux l bit (l.length * 64 - bit)

/-- the word update of `Inject`. -/
def injectWord (m : W) (bit : Nat) (v : Bool) : W :=
  let low := (1#64 <<< bit) - 1#64
  let r := (m &&& low) ||| ((m &&& ~~~ low) <<< 1)
  if v then r ||| (1#64 <<< bit) else r

/-- `Inject` on the suffix of words starting at the word that contains the bit. -/
def injectWords : List W → Nat → Bool → List W
  | [], _, v => if v then [1#64] else []      -- `Set(idx*64+64)` one past the end
  | m :: ms, bit, v =>
    let carry := m.getLsbD 63
    injectWord m bit v :: injectWords ms 0 carry

/-- `Inject` -/
def inject (l : Long) (bit : Nat) (v : Bool) : Long :=
  if bit / 64 ≥ l.length then (if v then set l bit else l)
  else l.take (bit / 64) ++ injectWords (l.drop (bit / 64)) (bit % 64) v

end Long

/-! ## ShortBitmask -/

inductive Short where
  | last (m : W)
  | cons (m : W) (next : Short)
deriving Repr, Inhabited, DecidableEq

namespace Short

def make (m : W) : Short := .last m

def words : Short → List W
  | .last m => [m]
  | .cons m n => m :: words n

def ofWords : W → List W → Short
  | m, [] => .last m
  | m, m2 :: ms => .cons m (ofWords m2 ms)

def head : Short → W
  | .last m => m
  | .cons m _ => m

/-- `IsSet` -/
def isSet : Short → Nat → Bool
  | .last m, bit => if bit < 64 then m.getLsbD bit else false
  | .cons m n, bit => if bit < 64 then m.getLsbD bit else isSet n (bit - 64)

/-- `OnesCount` -/
def onesCount : Short → Nat
  | .last m => Long.popcount m
  | .cons m n => Long.popcount m + onesCount n

/-- `Len` -/
def len : Short → Nat
  | .last m => Long.len64 m
  | .cons m n => let l := len n; if l ≠ 0 then l + 64 else Long.len64 m

/-- `IsZero` -/
def isZero : Short → Bool
  | .last m => m == 0#64
  | .cons m n => m == 0#64 && isZero n

/-- `Set`/`Unset`/`Flip`/`Inject(…, true)` on a fresh all-zero chain hanging off the last word. -/
def freshModify (f : W → W → W) (bit : Nat) : Short :=
  if bit < 64 then .last (f 0#64 (Long.bitW bit)) else .cons 0#64 (freshModify f (bit - 64))
termination_by bit

/-- shared shape of `Set`/`Unset`/`Flip` (all three extend the chain while walking). -/
def modify (f : W → W → W) : Short → Nat → Short
  | .last m, bit =>
    if bit < 64 then .last (f m (Long.bitW bit)) else .cons m (freshModify f (bit - 64))
  | .cons m n, bit =>
    if bit < 64 then .cons (f m (Long.bitW bit)) n else .cons m (modify f n (bit - 64))

def set (s : Short) (bit : Nat) : Short := modify (fun m b => m ||| b) s bit
def unset (s : Short) (bit : Nat) : Short := modify (fun m b => m &&& ~~~ b) s bit
def flip (s : Short) (bit : Nat) : Short := modify (fun m b => m ^^^ b) s bit

/-- `Equal` -/
def equal : Short → Short → Bool
  | .last a, .last b => a == b
  | .last a, .cons b bn => a == b && isZero bn
  | .cons a an, .last b => a == b && isZero an
  | .cons a an, .cons b bn => a == b && equal an bn

/-- `Or` / `Xor` share the walk: extend the receiver while the operand has more words. -/
def zipExtend (f : W → W → W) : Short → Short → Short
  | .last a, .last b => .last (f a b)
  | .cons a an, .last b => .cons (f a b) an
  | .last a, .cons b bn => .cons (f a b) (zipExtend f (.last 0#64) bn)
  | .cons a an, .cons b bn => .cons (f a b) (zipExtend f an bn)

def or (a b : Short) : Short := zipExtend (fun x y => x ||| y) a b
def xor (a b : Short) : Short := zipExtend (fun x y => x ^^^ y) a b

/-- `And`: walks while both have a successor, then cuts the receiver. -/
def and : Short → Short → Short
  | .cons a an, .cons b bn => .cons (a &&& b) (and an bn)
  | .cons a _, .last b => .last (a &&& b)
  | .last a, .cons b _ => .last (a &&& b)
  | .last a, .last b => .last (a &&& b)

/-- `Sub` -/
def sub : Short → Short → Short
  | .cons a an, .cons b bn => .cons (a &&& ~~~ b) (sub an bn)
  | .cons a an, .last b => .cons (a &&& ~~~ b) an
  | .last a, .cons b _ => .last (a &&& ~~~ b)
  | .last a, .last b => .last (a &&& ~~~ b)

/-- `Shrink`: drop trailing zero words after the head (the head always stays). -/
def shrink (s : Short) : Short :=
  match words s with
  | [] => s
  | m :: ms => ofWords m ((ms.reverse.dropWhile (· == 0#64)).reverse)

/-- `Inject` -/
def inject : Short → Nat → Bool → Short
  | .last m, bit, v =>
    if bit ≥ 64 then
      if !v then .last m else .cons m (freshModify (fun m b => m ||| b) (bit - 64))
    else
      let carry := m.getLsbD 63
      let m' := Long.injectWord m bit v
      if carry then .cons m' (.last 1#64) else .last m'
  | .cons m n, bit, v =>
    if bit ≥ 64 then .cons m (inject n (bit - 64) v)
    else
      let carry := m.getLsbD 63
      .cons (Long.injectWord m bit v) (inject n 0 carry)

def extractWord (m : W) (bit : Nat) : W :=
  let low := (1#64 <<< bit) - 1#64
  (m &&& low) ||| ((m >>> 1) &&& ~~~ low)

/-- `Extract` -/
def extract : Short → Nat → Short × Bool
  | .last m, bit =>
    if bit ≥ 64 then (.last m, false)
    else (.last (extractWord m bit), m.getLsbD bit)
  | .cons m n, bit =>
    if bit ≥ 64 then
      let r := extract n (bit - 64)
      (.cons m r.1, r.2)
    else
      let res := m.getLsbD bit
      let m' := extractWord m bit
      let r := extract n 0
      (.cons (if r.2 then m' ||| (1#64 <<< 63) else m') r.1, res)

def copy (s : Short) : Short := s

end Short

end Pk.Bits
