/-
  Model of the index file writer and reader of spq/pkappa2 (core Lean only):
  internal/index/{format,writer,reader}.go.

  Transliteration rules: Go loops become structural (or fuelled) recursion, mutation becomes a
  returned value, `uintN(x)` becomes `x % 2^N`, Go `map`s with insertion-ordered ids become lists.
  Panics and I/O errors are explicit outcomes (`Fail.panic`, `Fail.err`).
  Not modelled: I/O-error undo paths of `AddStream` (cannot be driven), capacity limits above
  2^32 records.  `sort.Slice` is modelled by a stable merge sort; ties are canonicalised by the tie.
-/
import Pk.Model.Bytes

namespace Pk.Index
open Pk Pk.Bytes

/-! ## format.go -/

structure HGEntry where
  start : Nat   -- u32: number of hosts of the same family in earlier groups
  count : Nat   -- u16: host count - 1
  flags : Nat   -- u16: bit 0 = IPv6
  deriving Repr, DecidableEq, Inhabited

structure ImportRec where
  filename : Nat  -- u64 offset into the file-name section
  offset : Nat    -- u64 PacketIndexOffset
  deriving Repr, DecidableEq, Inhabited

structure PacketRec where
  rel : Nat    -- u32 RelPacketTimeMS (microseconds since the first packet, mod 2^32)
  imp : Nat    -- u32 ImportID
  idx : Nat    -- u32 PacketIndex (low 32 bits)
  size : Nat   -- u16 DataSize
  skip : Nat   -- u8  SkipPacketsForData
  flags : Nat  -- u8  bit0 = has next, bit1 = server->client
  deriving Repr, DecidableEq, Inhabited

structure StreamRec where
  id : Nat
  first : Nat      -- u64 FirstPacketTimeNS relative to the file's reference second
  last : Nat
  dataStart : Nat
  cb : Nat
  sb : Nat
  pstart : Nat     -- u32 PacketInfoStart
  flags : Nat      -- u16
  hg : Nat         -- u16 host group
  ch : Nat         -- u16 client host index
  sh : Nat
  cp : Nat
  sp : Nat
  deriving Repr, DecidableEq, Inhabited

def HGEntry.enc (e : HGEntry) : Bytes := le 4 e.start ++ le 2 e.count ++ le 2 e.flags
def ImportRec.enc (e : ImportRec) : Bytes := le 8 e.filename ++ le 8 e.offset
def PacketRec.enc (p : PacketRec) : Bytes :=
  le 4 p.rel ++ le 4 p.imp ++ le 4 p.idx ++ le 2 p.size ++ le 1 p.skip ++ le 1 p.flags
def StreamRec.enc (s : StreamRec) : Bytes :=
  le 8 s.id ++ le 8 s.first ++ le 8 s.last ++ le 8 s.dataStart ++ le 8 s.cb ++ le 8 s.sb ++
  le 4 s.pstart ++ le 2 s.flags ++ le 2 s.hg ++ le 2 s.ch ++ le 2 s.sh ++ le 2 s.cp ++ le 2 s.sp

/-- field `k` bytes wide at offset `o` -/
def fld (b : Bytes) (o k : Nat) : Nat := val ((b.drop o).take k)

def HGEntry.dec (b : Bytes) : HGEntry := { start := fld b 0 4, count := fld b 4 2, flags := fld b 6 2 }
def ImportRec.dec (b : Bytes) : ImportRec := { filename := fld b 0 8, offset := fld b 8 8 }
def PacketRec.dec (b : Bytes) : PacketRec :=
  { rel := fld b 0 4, imp := fld b 4 4, idx := fld b 8 4, size := fld b 12 2, skip := fld b 14 1, flags := fld b 15 1 }
def StreamRec.dec (b : Bytes) : StreamRec :=
  { id := fld b 0 8, first := fld b 8 8, last := fld b 16 8, dataStart := fld b 24 8, cb := fld b 32 8, sb := fld b 40 8,
    pstart := fld b 48 4, flags := fld b 52 2, hg := fld b 54 2, ch := fld b 56 2, sh := fld b 58 2, cp := fld b 60 2,
    sp := fld b 62 2 }

def HGEntry.WF (e : HGEntry) : Prop := e.start < 2 ^ 32 ∧ e.count < 2 ^ 16 ∧ e.flags < 2 ^ 16
def ImportRec.WF (e : ImportRec) : Prop := e.filename < 2 ^ 64 ∧ e.offset < 2 ^ 64
def PacketRec.WF (p : PacketRec) : Prop :=
  p.rel < 2 ^ 32 ∧ p.imp < 2 ^ 32 ∧ p.idx < 2 ^ 32 ∧ p.size < 2 ^ 16 ∧ p.skip < 2 ^ 8 ∧ p.flags < 2 ^ 8
def StreamRec.WF (s : StreamRec) : Prop :=
  s.id < 2 ^ 64 ∧ s.first < 2 ^ 64 ∧ s.last < 2 ^ 64 ∧ s.dataStart < 2 ^ 64 ∧ s.cb < 2 ^ 64 ∧ s.sb < 2 ^ 64 ∧
  s.pstart < 2 ^ 32 ∧ s.flags < 2 ^ 16 ∧ s.hg < 2 ^ 16 ∧ s.ch < 2 ^ 16 ∧ s.sh < 2 ^ 16 ∧ s.cp < 2 ^ 16 ∧ s.sp < 2 ^ 16

def magic : Bytes := "pkappa2index".toUTF8.toList ++ [0, 0, 0, 2]

/-- section ids of format.go, in header order -/
inductive Sec | data | packets | v6 | v4 | hostGroups | imports | importNames | streams | byId | bySrc | byFt | byLt
  deriving DecidableEq, Repr

def headerSize : Nat := 16 + 8 + 16 * 12

/-- the sections of a file as record lists -/
structure FileModel where
  ref : Nat                      -- header.FirstPacketTime (unix seconds)
  data : Bytes
  importNames : Bytes
  imports : List ImportRec
  packets : List PacketRec
  v4 : Bytes
  v6 : Bytes
  hostGroups : List HGEntry
  streams : List StreamRec
  lkId : List Nat
  lkSrc : List Nat
  lkFt : List Nat
  lkLt : List Nat
  deriving Repr, DecidableEq, Inhabited

/-- section bodies in the order `Finalize` writes them, with their section id position in the header -/
def FileModel.bodies (f : FileModel) : List (Nat × Bytes) :=
  [ (0, f.data),
    (6, f.importNames),
    (5, (f.imports.map ImportRec.enc).flatten),
    (1, (f.packets.map PacketRec.enc).flatten),
    (3, f.v4),
    (2, f.v6),
    (4, (f.hostGroups.map HGEntry.enc).flatten),
    (7, (f.streams.map StreamRec.enc).flatten),
    (8, (f.lkId.map (le 4)).flatten),
    (9, (f.lkSrc.map (le 4)).flatten),
    (10, (f.lkFt.map (le 4)).flatten),
    (11, (f.lkLt.map (le 4)).flatten) ]

/-- (section id, begin, end) of every section in write order, and the final file size.
    `setSectionBegin`, body, `setSectionEnd`, `pad(8)` for each. -/
def layoutFrom : Nat → List (Nat × Nat) → List (Nat × Nat × Nat) × Nat
  | pos, [] => ([], pos)
  | pos, (sid, len) :: rest =>
    let e := pos + len
    let (l, sz) := layoutFrom (e + padLen 8 e) rest
    ((sid, pos, e) :: l, sz)

def FileModel.layout (f : FileModel) : List (Nat × Nat × Nat) × Nat :=
  layoutFrom headerSize (f.bodies.map fun (sid, b) => (sid, b.length))

/-- header section table in section-id order -/
def FileModel.secs (f : FileModel) : List (Nat × Nat) :=
  let l := f.layout.1
  (List.range 12).map fun sid => match l.find? (fun e => e.1 == sid) with
    | some (_, b, e) => (b, e)
    | none => (0, 0)

def bodyBytesFrom : Nat → List (Nat × Bytes) → Bytes
  | _, [] => []
  | pos, (_, b) :: rest =>
    let e := pos + b.length
    b ++ zeros (padLen 8 e) ++ bodyBytesFrom (e + padLen 8 e) rest

def FileModel.header (f : FileModel) : Bytes :=
  magic ++ le 8 f.ref ++ (f.secs.map fun (b, e) => le 8 b ++ le 8 e).flatten

/-- the bytes of the file -/
def FileModel.serialize (f : FileModel) : Bytes := f.header ++ bodyBytesFrom headerSize f.bodies

/-! ## writer.go -/

inductive Fail | err | panic
  deriving DecidableEq, Repr

structure HostGroup where
  hosts : Bytes := []
  hostSize : Nat := 0
  deriving Repr, DecidableEq, Inhabited

/-- writer.go 53–57: `for pos := 0; pos < len(g.hosts); pos += g.hostSize { if bytes.Equal(g.hosts[pos:][:g.hostSize], host) … }`
    (`host.length = hostSize` at the only call site). `i` counts the hosts passed. -/
def findHostAux (hostSize : Nat) (host : Bytes) : Nat → Bytes → Nat → Option Nat
  | 0, _, _ => none
  | _, [], _ => none
  | fuel + 1, b :: l, i =>
    if host.isPrefixOf (b :: l) then some i
    else findHostAux hostSize host fuel ((b :: l).drop hostSize) (i + 1)

/-- fuel = number of bytes: the loop advances by `hostSize ≥ 1` bytes per step (with `hostSize = 0` the Go loop
    would not terminate; `add` never gets there because an empty host only meets empty tables) -/
def findHost (hostSize : Nat) (host : Bytes) (l : Bytes) (i : Nat) : Option Nat :=
  if hostSize = 0 then none else findHostAux hostSize host l.length l i

/-- `hostGroup.add`: `none` = `ok == false`; otherwise the new group, the host index and `added`. -/
def HostGroup.add (g : HostGroup) (host : Bytes) : Option (HostGroup × Nat × Bool) :=
  let n := g.hosts.length
  if n = 0 then some ({ hosts := host, hostSize := host.length }, 0, true)
  else if g.hostSize ≠ host.length then none
  else match findHost g.hostSize host g.hosts 0 with
    | some i => some (g, i % 65536, false)
    | none =>
      if n ≥ 65535 then none
      else some ({ g with hosts := g.hosts ++ host }, ((n + host.length) / g.hostSize - 1) % 65536, true)

/-- `hostGroup.popN` -/
def HostGroup.popN (g : HostGroup) (n : Nat) : HostGroup :=
  { g with hosts := g.hosts.take (g.hosts.length - n * g.hostSize) }

def HostGroup.pop (g : HostGroup) : HostGroup := g.popN 1

/-- writer.go 208–238: place client and server address in the first group that takes both.
    Returns the groups, the group index and the two host indexes.
    `none`: client and server address of different length (the Go loop then appends 65 536 empty
    groups and refuses the stream) — excluded by well-formedness, never generated. -/
def placeHosts : List HostGroup → Bytes → Bytes → Option (List HostGroup × Nat × Nat × Nat)
  | [], c, s =>
    -- `w.hostGroups = append(w.hostGroups, hostGroup{})`
    match (({} : HostGroup).add c) with
    | none => none
    | some (g1, cid, _) =>
      match g1.add s with
      | none => none
      | some (g2, sid, _) => some ([g2], 0, cid, sid)
  | g :: gs, c, s =>
    match g.add c with
    | none => (placeHosts gs c s).map fun (gs', gid, ci, si) => (g :: gs', gid + 1, ci, si)
    | some (g1, cid, added) =>
      match g1.add s with
      | none =>
        let g2 := if added then g1.pop else g1
        (placeHosts gs c s).map fun (gs', gid, ci, si) => (g2 :: gs', gid + 1, ci, si)
      | some (g2, sid, _) => some (g2 :: gs, 0, cid, sid)

/-! ### input of `AddStream` (streams.Stream as far as the writer reads it) -/

structure SrcRef where
  file : Bytes
  index : Nat    -- uint64 packet index inside the capture
  deriving Repr, DecidableEq, Inhabited

structure PacketIn where
  ts : Int               -- unix nanoseconds
  dir : Nat              -- 0 client->server, 1 server->client
  refs : List SrcRef     -- AncillaryData order; the writer walks it backwards
  deriving Repr, DecidableEq, Inhabited

structure ChunkIn where
  pos : Nat              -- StreamData.PacketIndex
  bytes : Bytes
  deriving Repr, DecidableEq, Inhabited

structure StreamIn where
  id : Nat
  client : Bytes
  server : Bytes
  cport : Nat
  sport : Nat
  flags : Nat
  packets : List PacketIn
  data : List ChunkIn
  deriving Repr, DecidableEq, Inhabited

/-- `pcapmetadata.AllFromPacketMetadata`: last ancillary entry first -/
def PacketIn.pmds (p : PacketIn) : List SrcRef := p.refs.reverse

abbrev ImportKey := Bytes × Nat   -- (file name, index &^ 0xffffffff)

def SrcRef.key (r : SrcRef) : ImportKey := (r.file, r.index / 2 ^ 32 * 2 ^ 32)

structure Writer where
  hostGroups : List HostGroup := []
  imports : List ImportKey := []        -- position = import id (Go: map value = insertion ordinal)
  packets : List PacketRec := []
  streams : List StreamRec := []
  blobs : List Bytes := []              -- what has been written to the data section, per stream
  dataLen : Nat := 0                    -- file position - Sections[data].Begin
  ref : Nat := 0                        -- header.FirstPacketTime
  deriving Repr, DecidableEq, Inhabited

def u64 (x : Int) : Nat := (x % (2 ^ 64 : Int)).toNat
def u32 (x : Int) : Nat := (x % (2 ^ 32 : Int)).toNat
/-- reinterpretation of a uint64 as int64 (`time.Duration(x)`) -/
def i64 (x : Nat) : Int := if x % 2 ^ 64 < 2 ^ 63 then (x % 2 ^ 64 : Nat) else (x % 2 ^ 64 : Nat) - (2 ^ 64 : Int)

def add64 (a b : Nat) : Nat := (a + b) % 2 ^ 64
def sub64 (a b : Nat) : Nat := (a + 2 ^ 64 - b % 2 ^ 64) % 2 ^ 64
def mul64 (a b : Nat) : Nat := (a * b) % 2 ^ 64

/-- `uint64(t.Unix())` of a time given in unix nanoseconds -/
def unixSec (ts : Int) : Nat := u64 (ts / 1000000000)

def addImports (imports : List ImportKey) : List SrcRef → List ImportKey
  | [] => imports
  | r :: rs => addImports (if imports.contains r.key then imports else imports ++ [r.key]) rs

/-- writer.go 301–331: a chunk larger than 65 535 bytes is spread over several records of the same packet -/
def splitAux : Nat → Nat → List Nat
  | 0, n => [n]
  | fuel + 1, n => if n ≤ 65535 then [n] else 65535 :: splitAux fuel (n - 65535)

def splitSizes (n : Nat) : List Nat := splitAux n n

/-- data size recorded for packet `pIndex`: `packetToData` is a Go map, the last chunk of a packet wins -/
def chunkSize (data : List ChunkIn) (pIndex : Nat) : Nat :=
  match data.reverse.find? (fun d => d.pos == pIndex) with
  | some d => d.bytes.length
  | none => 0

/-- records of one packet (all its source references), SkipPacketsForData still 0xff -/
def packetRecords (imports : List ImportKey) (ts0 : Int) (dataSize : Nat) (p : PacketIn) : List PacketRec :=
  let flags := 1 + (if p.dir = 0 then 0 else 2)
  let rel := u32 ((p.ts - ts0).tdiv 1000)
  (p.pmds.map fun r =>
    (splitSizes dataSize).map fun sz =>
      ({ imp := imports.idxOf r.key, idx := r.index % 2 ^ 32, rel := rel, size := sz, skip := 255, flags := flags } : PacketRec)).flatten

def allRecords (imports : List ImportKey) (ts0 : Int) (data : List ChunkIn) : Nat → List PacketIn → List PacketRec
  | _, [] => []
  | pIndex, p :: ps => packetRecords imports ts0 (chunkSize data pIndex) p ++ allRecords imports ts0 data (pIndex + 1) ps

/-- writer.go 316–339 as a function of the finished record list: the skip counter of a record is the
    number of records strictly between it and the next record with data (or the last record),
    saturated at 255; the last record keeps 0xff. Returns the records and the distance of the head. -/
def setSkips : List PacketRec → List PacketRec × Nat
  | [] => ([], 0)
  | [p] => ([p], 0)
  | p :: q :: rest =>
    let (qs, dq) := setSkips (q :: rest)
    let d := if q.size ≠ 0 then 0 else if rest.isEmpty then 0 else dq + 1
    ({ p with skip := if d < 255 then d else 255 } :: qs, d)

/-- `w.packets[len(w.packets)-1].Flags -= flagsPacketHasNext` -/
def clearLastHasNext : List PacketRec → List PacketRec
  | [] => []
  | [p] => [{ p with flags := (p.flags + 256 - 1) % 256 }]
  | p :: ps => p :: clearLastHasNext ps

def dirOf (packets : List PacketIn) (pos : Nat) : Option Nat := (packets[pos]?).map (·.dir)

/-- maximal runs of consecutive chunks with the same direction: (direction, total size) -/
def segRuns : List (Nat × Nat) → List (Nat × Nat)
  | [] => []
  | (d, n) :: rest =>
    match segRuns rest with
    | (d', n') :: rs => if d = d' then (d, n + n') :: rs else (d, n) :: (d', n') :: rs
    | [] => [(d, n)]

/-- writer.go 363–397 -/
def segBytes : Nat → List (Nat × Nat) → Bytes
  | _, [] => []
  | want, (d, n) :: rs => (if d ≠ want then [0] else []) ++ encVarint n ++ segBytes (1 - d) rs

/-- (direction, bytes) of every chunk; `none` if a chunk refers to a packet that does not exist
    (Go: index out of range) -/
def chunkDirs (packets : List PacketIn) : List ChunkIn → Option (List (Nat × Bytes))
  | [] => some []
  | d :: ds => match dirOf packets d.pos, chunkDirs packets ds with
    | some dir, some r => some ((dir, d.bytes) :: r)
    | _, _ => none

def dirBytes (want : Nat) (cs : List (Nat × Bytes)) : Bytes :=
  (cs.filter (fun c => c.1 == want)).map (·.2) |>.flatten

def protoFlags (flags : Nat) : Nat := if flags / 2 % 2 = 0 then 1 else 2

/-- writer.go 163–176: the reference second of the file is the smallest first-packet second seen so far;
    when it moves down, the relative times of the streams already added move up. -/
def Writer.rebase (w : Writer) (firstSec : Nat) : Nat × List StreamRec :=
  if w.packets.length = 0 then (firstSec, w.streams)
  else if w.ref > firstSec then
    let diff := u64 (((w.ref : Int) - firstSec) * 1000000000)
    (firstSec, w.streams.map fun r => { r with first := add64 r.first diff, last := add64 r.last diff })
  else (w.ref, w.streams)

/-- payload of a stream as it goes into the data section: client bytes, server bytes, segmentation -/
def streamBlob (cds : List (Nat × Bytes)) : Bytes :=
  dirBytes 0 cds ++ dirBytes 1 cds ++ segBytes 0 (segRuns (cds.map fun c => (c.1, c.2.length)))

/-- the stream record of writer.go 179–193, 234–236, 274, 358–360 -/
def mkStreamRec (w : Writer) (s : StreamIn) (ref : Nat) (p0 pl : PacketIn) (gid cid sid : Nat) (cds : List (Nat × Bytes)) : StreamRec :=
  { id := s.id, cp := s.cport, sp := s.sport, pstart := w.packets.length % 2 ^ 32,
    first := u64 (p0.ts - (ref : Int) * 1000000000), last := u64 (pl.ts - (ref : Int) * 1000000000),
    flags := protoFlags s.flags, hg := gid % 65536, ch := cid, sh := sid,
    dataStart := w.dataLen, cb := (dirBytes 0 cds).length, sb := (dirBytes 1 cds).length }

/-- `Writer.AddStream`. `Except.error .panic` = the Go code panics (no packets, no source reference,
    chunk beyond the packet list). The boolean is the `ok` result. -/
def Writer.addStream (w : Writer) (s : StreamIn) : Except Fail (Writer × Bool) :=
  if w.streams.length > 0xffffffff ∨ w.packets.length > 0xffffffff then .ok (w, false) else
  match s.packets.head?, s.packets.getLast? with
  | some p0, some pl =>
    let (ref, streams) := w.rebase (unixSec p0.ts)
    match placeHosts w.hostGroups s.client s.server with
    | none => .ok (w, false)
    | some (hgs, gid, cid, sid) =>
      let imports := addImports w.imports (s.packets.map PacketIn.pmds).flatten
      let recs := allRecords imports p0.ts s.data 0 s.packets
      match chunkDirs s.packets s.data with
      | none => .error .panic
      | some cds =>
        if recs.isEmpty then .error .panic else
        let recs := clearLastHasNext (setSkips recs).1
        let blob := streamBlob cds
        .ok ({ hostGroups := hgs, imports := imports, packets := w.packets ++ recs,
               streams := streams ++ [mkStreamRec w s ref p0 pl gid cid sid cds],
               blobs := w.blobs ++ [blob], dataLen := w.dataLen + blob.length, ref := ref }, true)
  | _, _ => .error .panic

/-! ### Finalize -/

/-- file-name section: every distinct name once, NUL terminated; offsets by name.
    (Go iterates a map here, so the order of the names in the real file is arbitrary; the tie compares
    resolved names.) -/
def nameTableGo (blob : Bytes) (offs : List (Bytes × Nat)) : List ImportKey → Bytes × List (Bytes × Nat)
  | [] => (blob, offs)
  | (fn, _) :: rest =>
    if offs.any (fun e => e.1 == fn) then nameTableGo blob offs rest
    else nameTableGo (blob ++ fn ++ [0]) (offs ++ [(fn, blob.length)]) rest

def nameTable (ks : List ImportKey) : Bytes × List (Bytes × Nat) := nameTableGo [] [] ks

def hostEntries : List HostGroup → Nat → Nat → List HGEntry
  | [], _, _ => []
  | g :: gs, v4off, v6off =>
    let n := g.hosts.length / g.hostSize
    if g.hostSize = 16 then
      { start := v6off % 2 ^ 32, count := (n + 65536 - 1) % 65536, flags := 1 } :: hostEntries gs v4off (v6off + n)
    else
      { start := v4off % 2 ^ 32, count := (n + 65536 - 1) % 65536, flags := 0 } :: hostEntries gs (v4off + n) v6off

/-- sort key of the by-first-packet-source lookup: (import id, low index, file name, offset) -/
structure SrcKey where
  imp : Nat
  idx : Nat
  file : Bytes
  off : Nat
  deriving Repr, DecidableEq, Inhabited

/-- writer.go 572–582 -/
def lessSrc (a b : SrcKey) : Bool :=
  if a.imp = b.imp then a.idx < b.idx
  else if a.file ≠ b.file then Bytes.lt a.file b.file
  else (a.off + a.idx) % 2 ^ 64 < (b.off + b.idx) % 2 ^ 64

def srcKey (imports : List ImportKey) (packets : List PacketRec) (s : StreamRec) : SrcKey :=
  let p := packets.getD s.pstart default
  let im := imports.getD p.imp default
  { imp := p.imp, idx := p.idx, file := im.1, off := im.2 }

/-- `sort.Slice(l, less)` over stream indexes, as a stable merge sort on (index, key) pairs -/
def sortedIndexes {κ : Type} (keys : List κ) (less : κ → κ → Bool) : List Nat :=
  ((List.range keys.length).zip keys |>.mergeSort (fun a b => !(less b.2 a.2))).map (·.1)

def Writer.finalize (w : Writer) : FileModel :=
  let (names, offs) := nameTable w.imports
  let nameOff (fn : Bytes) : Nat := match offs.find? (fun e => e.1 == fn) with | some e => e.2 | none => 0
  { ref := w.ref
    data := w.blobs.flatten
    importNames := names
    imports := w.imports.map fun (fn, off) => { filename := nameOff fn, offset := off }
    packets := w.packets
    v4 := ((w.hostGroups.filter (·.hostSize == 4)).map (·.hosts)).flatten
    v6 := ((w.hostGroups.filter (·.hostSize == 16)).map (·.hosts)).flatten
    hostGroups := hostEntries w.hostGroups 0 0
    streams := w.streams
    lkId := sortedIndexes (w.streams.map (·.id)) (fun a b => a < b)
    lkSrc := sortedIndexes (w.streams.map (srcKey w.imports w.packets)) lessSrc
    lkFt := sortedIndexes (w.streams.map (·.first)) (fun a b => a < b)
    lkLt := sortedIndexes (w.streams.map (·.last)) (fun a b => a < b) }

/-! ## reader.go -/

structure RHostGroup where
  hosts : Bytes
  hostSize : Nat
  hostCount : Nat
  deriving Repr, DecidableEq, Inhabited

def RHostGroup.get (g : RHostGroup) (id : Nat) : Bytes := (g.hosts.drop (g.hostSize * id)).take g.hostSize

structure Reader where
  f : FileModel
  imports : List (Bytes × Nat)       -- (file name, packetIndexOffset)
  hostGroups : List RHostGroup
  idMin : Nat
  idMax : Nat
  deriving Repr, DecidableEq, Inhabited

/-- reader.go 184–191 -/
def readImports (names : Bytes) (es : List ImportRec) : List (Bytes × Nat) :=
  es.map fun ie => ((names.drop ie.filename).takeWhile (· ≠ 0), ie.offset)

/-- reader.go 206–224. `hosts[hg.Start:][:hostSize*hostCount]` panics when out of range. -/
def readHostGroups (v4 v6 : Bytes) : List HGEntry → Except Fail (List RHostGroup)
  | [] => .ok []
  | hg :: rest =>
    let (hosts, hostSize) := if hg.flags % 2 = 0 then (v4, 4) else (v6, 16)
    let hostCount := hg.count + 1
    let start := hg.start * hostSize   -- `Start` counts hosts
    if start + hostSize * hostCount > hosts.length then .error .panic else
    match readHostGroups v4 v6 rest with
    | .error e => .error e
    | .ok gs => .ok ({ hosts := (hosts.drop start).take (hostSize * hostCount), hostSize, hostCount } :: gs)

def minList : List Nat → Nat → Nat
  | [], m => m
  | x :: xs, m => minList xs (if m > x then x else m)
def maxList : List Nat → Nat → Nat
  | [], m => m
  | x :: xs, m => maxList xs (if m < x then x else m)

/-- `NewReader` on a file with the given sections -/
def newReader (f : FileModel) : Except Fail Reader :=
  match readHostGroups f.v4 f.v6 f.hostGroups with
  | .error e => .error e
  | .ok hgs =>
    -- minStream / maxStream read lookup entry 0 / n-1: EOF on a file without streams
    if f.streams.isEmpty ∨ f.lkFt.isEmpty ∨ f.lkLt.isEmpty then .error .err else
    .ok { f, imports := readImports f.importNames f.imports, hostGroups := hgs,
          idMin := minList (f.streams.map (·.id)) (2 ^ 64 - 1), idMax := maxList (f.streams.map (·.id)) 0 }

/-- `containedStreamIds[id]`: the last stream record with that id -/
def idIndex (streams : List StreamRec) (id : Nat) : Option Nat :=
  let rec go : List StreamRec → Nat → Option Nat → Option Nat
    | [], _, acc => acc
    | s :: ss, i, acc => go ss (i + 1) (if s.id = id then some i else acc)
  go streams 0 none

/-- `StreamByID`: index and record -/
def Reader.streamByID (r : Reader) (id : Nat) : Option (Nat × StreamRec) :=
  if id < r.idMin ∨ id > r.idMax then none else
  match idIndex r.f.streams id with
  | none => none
  | some i => (r.f.streams[i]?).map fun s => (i, s)

/-- `sort.Search(n, f)` -/
def sortSearch (f : Nat → Bool) (i j : Nat) : Nat :=
  if h : i < j then
    let m := (i + j) / 2
    if !f m then sortSearch f (m + 1) j else sortSearch f i m
  else i
termination_by j - i
decreasing_by all_goals omega

def Reader.firstSource (r : Reader) (s : StreamRec) : Bytes × Nat :=
  let p := r.f.packets.getD s.pstart default
  let im := r.imports.getD p.imp default
  (im.1, (im.2 + p.idx) % 2 ^ 64)

/-- `StreamByFirstPacketSource` -/
def Reader.streamBySource (r : Reader) (file : Bytes) (index : Nat) : Option (Nat × StreamRec) :=
  let n := r.f.streams.length
  let pred (i : Nat) : Bool :=
    let (fn, idx) := r.firstSource (r.f.streams.getD (r.f.lkSrc.getD i 0) default)
    if fn ≠ file then !(Bytes.lt fn file) else index ≤ idx
  let i := sortSearch pred 0 n
  if i ≥ n then none else
  let si := r.f.lkSrc.getD i 0
  let s := r.f.streams.getD si default
  let (fn, idx) := r.firstSource s
  if fn ≠ file ∨ idx ≠ index then none else some (si, s)

def Reader.firstPacket (r : Reader) (s : StreamRec) : Int := (r.f.ref : Int) * 1000000000 + i64 s.first
def Reader.lastPacket (r : Reader) (s : StreamRec) : Int := (r.f.ref : Int) * 1000000000 + i64 s.last

def Reader.hosts (r : Reader) (s : StreamRec) : Except Fail (Bytes × Bytes) :=
  match r.hostGroups[s.hg]? with
  | none => .error .panic
  | some g =>
    if g.hostSize * s.ch + g.hostSize > g.hosts.length ∨ g.hostSize * s.sh + g.hostSize > g.hosts.length then .error .panic
    else .ok (g.get s.ch, g.get s.sh)

def protoName (flags : Nat) : String :=
  match flags % 4 with
  | 0 => "Other" | 1 => "TCP" | 2 => "UDP" | _ => "SCTP"

structure PacketOut where
  file : Bytes
  index : Nat
  dir : Nat
  ts : Int
  deriving Repr, DecidableEq, Inhabited

def wrapNs : Int := 4294967296000   -- time.Microsecond << 32

/-- `Stream.Packets` (reader.go 435–469) over the records from `PacketInfoStart` on -/
def packetsWalk (imports : List (Bytes × Nat)) : Int → Option (Nat × Nat) → Nat → List PacketRec → Except Fail (List PacketOut)
  | _, _, _, [] => .error .err            -- read past the packet section
  | refTime, last, lastRel, p :: ps =>
    let isNew := last ≠ some (p.imp, p.idx)
    match (if isNew then imports[p.imp]? else some default) with
    | none => .error .panic
    | some im =>
      let refTime' := if isNew ∧ p.rel < lastRel then refTime + wrapNs else refTime
      let lastRel' := if isNew then p.rel else lastRel
      let out := if isNew then
          [({ file := im.1, index := (im.2 + p.idx) % 2 ^ 64, dir := if p.flags / 2 % 2 = 0 then 0 else 1,
              ts := refTime' + (p.rel : Int) * 1000 } : PacketOut)] else []
      if p.flags % 2 = 0 then .ok out
      else match packetsWalk imports refTime' (some (p.imp, p.idx)) lastRel' ps with
        | .error e => .error e
        | .ok r => .ok (out ++ r)

def Reader.packets (r : Reader) (s : StreamRec) : Except Fail (List PacketOut) :=
  packetsWalk r.imports (r.firstPacket s) none 0 (r.f.packets.drop s.pstart)

structure DataOut where
  dir : Nat
  content : Bytes
  ts : Int
  deriving Repr, DecidableEq, Inhabited

structure DWalk where
  refTime : Int
  expectWraps : Int
  lastRel : Nat
  prevTs : Int
  prevDir : Nat
  pt0 : List (Int × Nat)   -- packetTimes[0], newest first
  pt1 : List (Int × Nat)

def chunkSplitNs : Int := 50000000

/-- first loop of `Stream.Data` (reader.go 486–517): walk the packet records following the skip
    counters, group payload sizes per direction into chunks closer than 50 ms. -/
def dataWalk : Nat → DWalk → List PacketRec → Except Fail DWalk
  | 0, _, _ => .error .err
  | _, _, [] => .error .err
  | fuel + 1, st, p :: ps =>
    let st :=
      if st.expectWraps ≠ 0 then
        let st := if p.rel < st.lastRel then { st with refTime := st.refTime + wrapNs, expectWraps := st.expectWraps - 1 } else st
        { st with lastRel := p.rel }
      else st
    let st :=
      if p.size ≠ 0 then
        let ts := st.refTime + (p.rel : Int) * 1000
        let dir := p.flags / 2 % 2
        let ci := if dir = 0 then st.pt0 else st.pt1
        let ci' := match ci with
          | (t, sz) :: rest => if dir = st.prevDir ∧ ts - st.prevTs < chunkSplitNs then (t, sz + p.size) :: rest else (ts, p.size) :: ci
          | [] => [(ts, p.size)]
        let st := if dir = 0 then { st with pt0 := ci' } else { st with pt1 := ci' }
        { st with prevTs := ts, prevDir := dir }
      else st
    if p.flags % 2 = 0 then .ok st
    else if p.skip ≠ 0 ∧ st.expectWraps = 0 then
      if ps.length < p.skip then .error .err else dataWalk fuel st (ps.drop p.skip)
    else dataWalk fuel st ps

/-- inner loop of reader.go 552–576 for one segmentation run of `sz` bytes in one direction:
    cut it along the packet-time chunks. Returns the chunks, the rest of the content and of the
    packet-time list. -/
def consume (dir : Nat) : Nat → Bytes → List (Int × Nat) → Except Fail (List DataOut × Bytes × List (Int × Nat))
  | _, _, [] => .error .panic                 -- `&packetTimes[dir][0]` on an empty slice
  | sz, content, (ts, psz) :: rest =>
    let cur := if sz > psz then psz else sz
    if cur > content.length then .error .panic else
    let chunk : DataOut := { dir, content := content.take cur, ts }
    let content' := content.drop cur
    if sz - cur = 0 then .ok ([chunk], content', if psz - cur = 0 then rest else (ts, psz - cur) :: rest)
    else match consume dir (sz - cur) content' rest with
      | .error e => .error e
      | .ok (cs, c, r) => .ok (chunk :: cs, c, r)

/-- second loop of `Stream.Data` (reader.go 532–577) -/
def dataRuns : Nat → Nat → Bytes → Bytes → Bytes → List (Int × Nat) → List (Int × Nat) → Except Fail (List DataOut)
  | 0, _, _, _, _, _, _ => .error .err
  | fuel + 1, dir, c0, c1, seg, pt0, pt1 =>
    if c0.length = 0 ∧ c1.length = 0 then .ok [] else
    match decVarint seg with
    | none => .error .err
    | some (sz, seg') =>
      if sz = 0 then dataRuns fuel (1 - dir) c0 c1 seg' pt0 pt1 else
      match consume dir sz (if dir = 0 then c0 else c1) (if dir = 0 then pt0 else pt1) with
      | .error e => .error e
      | .ok (cs, c, pt) =>
        let r := if dir = 0 then dataRuns fuel 1 c c1 seg' pt pt1 else dataRuns fuel 0 c0 c seg' pt0 pt
        match r with
        | .error e => .error e
        | .ok more => .ok (cs ++ more)

def Reader.data (r : Reader) (s : StreamRec) : Except Fail (List DataOut) :=
  let recs := r.f.packets.drop s.pstart
  let expectWraps : Int := (i64 (sub64 s.last s.first) + 1000).tdiv wrapNs
  match dataWalk (recs.length + 1)
      { refTime := r.firstPacket s, expectWraps, lastRel := 0, prevTs := 0, prevDir := 0, pt0 := [], pt1 := [] } recs with
  | .error e => .error e
  | .ok st =>
    let d := r.f.data.drop s.dataStart
    if d.length < s.cb + s.sb then .error .err else
    let c0 := d.take s.cb
    let c1 := (d.drop s.cb).take s.sb
    let seg := d.drop (s.cb + s.sb)
    dataRuns (seg.length + 1) 0 c0 c1 seg st.pt0.reverse st.pt1.reverse

end Pk.Index
