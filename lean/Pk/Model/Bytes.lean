/-
  Byte-level codecs shared by the index-file and cache-file models (core Lean only).

  * little-endian fixed-width integers as written by `encoding/binary` (`binary.Write(…,
    binary.LittleEndian, …)` of the fixed structs of internal/index/format.go)
  * 8-byte padding (`Writer.pad`)
  * the segmentation varint of writer.go 384–395 / reader.go 538–548 (most significant group
    first, 0x80 on every byte but the last)
  * FNV-1a (only used by the drivers to print digests of large sections)
-/
namespace Pk

abbrev Bytes := List UInt8

namespace Bytes

/-- `k` little-endian bytes of `n` (truncating, like a Go conversion to a `k`-byte unsigned). -/
def le : Nat → Nat → Bytes
  | 0, _ => []
  | k + 1, n => UInt8.ofNat (n % 256) :: le k (n / 256)

/-- value of a little-endian byte string -/
def val : Bytes → Nat
  | [] => 0
  | b :: bs => b.toNat + 256 * val bs

/-- number of zero bytes `Writer.pad(n)` emits at file position `pos` -/
def padLen (n pos : Nat) : Nat := (n - pos % n) % n

def zeros (n : Nat) : Bytes := List.replicate n 0

/-- writer.go 384–395: the digits are produced from the least significant group backwards into a
    10-byte buffer; `flag` is 0 for the first produced (= last emitted) byte and 0x80 afterwards. -/
def encVarintAux (sz flag : Nat) (acc : Bytes) : Bytes :=
  let acc' := UInt8.ofNat (sz % 128 + flag) :: acc
  if h : sz / 128 = 0 then acc' else encVarintAux (sz / 128) 128 acc'
termination_by sz
decreasing_by omega

def encVarint (sz : Nat) : Bytes := encVarintAux sz 0 []

/-- reader.go 538–548 (`sz <<= 7; sz |= b & 0x7f; if b < 0x80 break`), `sz` is a uint64.
    Returns the value and the remaining bytes; `none` = ran out of bytes (EOF). -/
def decVarintAux (acc : Nat) : Bytes → Option (Nat × Bytes)
  | [] => none
  | b :: bs =>
    let acc' := acc * 128 % 2 ^ 64 + b.toNat % 128
    if b.toNat < 128 then some (acc', bs) else decVarintAux acc' bs

def decVarint (bs : Bytes) : Option (Nat × Bytes) := decVarintAux 0 bs

/-- lexicographic byte order = Go's `<` on strings -/
def lt : Bytes → Bytes → Bool
  | [], [] => false
  | [], _ :: _ => true
  | _ :: _, [] => false
  | a :: as, b :: bs => if a.toNat < b.toNat then true else if b.toNat < a.toNat then false else lt as bs

def fnvInit : UInt64 := 0xcbf29ce484222325

def fnv (h : UInt64) (bs : Bytes) : UInt64 :=
  bs.foldl (fun h b => (h ^^^ b.toUInt64) * 0x100000001b3) h

end Bytes
end Pk
