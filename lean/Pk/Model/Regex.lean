/-
  Regex AST over bytes, its language (empty-width assertions evaluated in context) and the
  length range `lenRange` (assertions erased — this is what regexAnalysis.go computes, it walks
  over `InstEmptyWidth` like over a `Nop`).  Core Lean only.

  Bytes are `Nat` (no theorem needs the bound < 256 except "a non-empty class has a member").
  The third-party engine (rsc.io/binaryregexp) is not modelled; `Matches` is the textbook
  semantics of the syntax the generator renders, tied to the engine only differentially
  (the Go oracle validates sampled words with the real matcher).
-/
namespace Pk.Regex

abbrev Byte := Nat

/-- `\w` of RE2: [0-9A-Za-z_] -/
def isWord (b : Byte) : Bool :=
  (48 ≤ b && b ≤ 57) || (65 ≤ b && b ≤ 90) || (97 ≤ b && b ≤ 122) || b == 95

def isWordOpt : Option Byte → Bool
  | none => false
  | some b => isWord b

def isNLOrNone : Option Byte → Bool
  | none => true
  | some b => b == 10

inductive Assertion where
  | beginLine | endLine | beginText | endText | wordBoundary | noWordBoundary
  deriving DecidableEq, Repr

/-- does the assertion hold between left context `pre` and right context `post`?
    (`syntax.EmptyOpContext`) -/
def Assertion.holds (a : Assertion) (pre post : List Byte) : Bool :=
  match a with
  | .beginText => pre.isEmpty
  | .endText => post.isEmpty
  | .beginLine => isNLOrNone pre.getLast?
  | .endLine => isNLOrNone post.head?
  | .wordBoundary => isWordOpt pre.getLast? != isWordOpt post.head?
  | .noWordBoundary => isWordOpt pre.getLast? == isWordOpt post.head?

/-- a set of bytes: inclusive ranges, possibly complemented -/
def inRanges (rs : List (Byte × Byte)) (b : Byte) : Bool :=
  rs.any fun r => r.1 ≤ b && b ≤ r.2

def atomMatch (rs : List (Byte × Byte)) (neg : Bool) (b : Byte) : Bool :=
  inRanges rs b != neg

inductive Regex where
  | eps
  | atom (rs : List (Byte × Byte)) (neg : Bool)
  | assert (a : Assertion)
  | cat (r s : Regex)
  | alt (r s : Regex)
  /-- `r{min,max}`; `max = none` is unbounded.  `r* = rep r 0 none`, `r+ = rep r 1 none`,
      `r? = rep r 0 (some 1)`.  Greedy / non-greedy does not change the language. -/
  | rep (r : Regex) (min : Nat) (max : Option Nat)
  deriving Repr

open Regex

/-- may another iteration be started? -/
def moreAllowed : Option Nat → Bool
  | none => true
  | some n => n != 0

def decMax : Option Nat → Option Nat
  | none => none
  | some n => some (n - 1)

/-- `Matches r pre w post`: `r` matches exactly `w` when `w` stands between `pre` and `post`. -/
inductive Matches : Regex → List Byte → List Byte → List Byte → Prop where
  | eps (pre post) : Matches eps pre [] post
  | atom (rs neg b pre post) : atomMatch rs neg b = true → Matches (atom rs neg) pre [b] post
  | assert (a pre post) : a.holds pre post = true → Matches (assert a) pre [] post
  | cat (r s pre u v post) : Matches r pre u (v ++ post) → Matches s (pre ++ u) v post →
      Matches (cat r s) pre (u ++ v) post
  | altL (r s pre w post) : Matches r pre w post → Matches (alt r s) pre w post
  | altR (r s pre w post) : Matches s pre w post → Matches (alt r s) pre w post
  | repStop (r mx pre post) : Matches (rep r 0 mx) pre [] post
  | repStep (r mn mx pre u v post) : moreAllowed mx = true → Matches r pre u (v ++ post) →
      Matches (rep r (mn - 1) (decMax mx)) (pre ++ u) v post →
      Matches (rep r mn mx) pre (u ++ v) post

/-- the language of `r` as a set of (context, word, context) triples -/
def Lang (r : Regex) (pre w post : List Byte) : Prop := Matches r pre w post

/-! ### length range (assertions erased) -/

def addHi : Option Nat → Option Nat → Option Nat
  | some a, some b => some (a + b)
  | _, _ => none

def maxHi : Option Nat → Option Nat → Option Nat
  | some a, some b => some (Nat.max a b)
  | _, _ => none

/-- `n` iterations of a body whose maximal length is `h` -/
def mulHi (n : Nat) : Option Nat → Option Nat
  | some h => some (n * h)
  | none => if n = 0 then some 0 else none

/-- unboundedly many iterations -/
def starHi : Option Nat → Option Nat
  | some 0 => some 0
  | _ => none

/-- (minimal length, maximal length or `none` = unbounded) of the strings matched by `r`,
    ignoring empty-width assertions -/
def lenRange : Regex → Nat × Option Nat
  | eps => (0, some 0)
  | atom _ _ => (1, some 1)
  | assert _ => (0, some 0)
  | cat r s => ((lenRange r).1 + (lenRange s).1, addHi (lenRange r).2 (lenRange s).2)
  | alt r s => (Nat.min (lenRange r).1 (lenRange s).1, maxHi (lenRange r).2 (lenRange s).2)
  | rep r mn mx =>
    (mn * (lenRange r).1,
     match mx with
     | some n => mulHi n (lenRange r).2
     | none => starHi (lenRange r).2)

/-! ### side conditions used by `lenRange_attained` and by the AST-level tie -/

def assertFree : Regex → Bool
  | eps => true
  | atom _ _ => true
  | assert _ => false
  | cat r s => assertFree r && assertFree s
  | alt r s => assertFree r && assertFree s
  | rep r _ _ => assertFree r

/-- first byte (< 256) matched by an atom, if any -/
def atomWitness (rs : List (Byte × Byte)) (neg : Bool) : Option Byte :=
  (List.range 256).find? (atomMatch rs neg)

/-- every class has a member and every counted repetition has min ≤ max -/
def wellFormed : Regex → Bool
  | eps => true
  | atom rs neg => (atomWitness rs neg).isSome
  | assert _ => true
  | cat r s => wellFormed r && wellFormed s
  | alt r s => wellFormed r && wellFormed s
  | rep r mn mx => wellFormed r && (match mx with | some n => decide (mn ≤ n) | none => true)

/-- no unbounded loop over a body that can only match the empty string (for those the real code
    answers "unbounded" or 0 depending on what `Simplify` does with the loop) -/
def noEmptyLoop : Regex → Bool
  | eps => true
  | atom _ _ => true
  | assert _ => true
  | cat r s => noEmptyLoop r && noEmptyLoop s
  | alt r s => noEmptyLoop r && noEmptyLoop s
  | rep r _ mx => noEmptyLoop r && (match mx with
      | some _ => true
      | none => (lenRange r).2 != some 0)

/-- regexes for which the AST-level tie `real lengths = lenRange` is claimed -/
def regular (r : Regex) : Bool := wellFormed r && noEmptyLoop r

end Pk.Regex
