/-
  `rsc.io/binaryregexp/syntax.Prog` instructions, NFA acceptance, and the program walks of
  internal/tools/regexAnalysis/regexAnalysis.go transliterated (core Lean only):

    * `suffixEval` / `suffixWalk`  — `ConstantSuffix` (recursive closure `evaluate`, with its `seen` list)
    * `minBfs` / `minWalk`         — `AcceptedLength`, MinLength: breadth-first search (repaired code)
    * `maxGo` / `maxWalk`          — `AcceptedLength`, MaxLength: memoised walk with `cache` and `seen`
    * `oldGo` / `oldWalk`          — the memoised (min,max) walk as it was BEFORE the repair
                                     (kept for `finding_F23`: its memo is context dependent)

  Loops become fuelled recursion (`none` = fuel exhausted or an index out of range, where Go would
  hang / panic); mutation of `cache`, `visited`, `*s` becomes a returned value.  Go `uint` is modelled
  by `Nat` with the explicit saturation the code performs (`inc`, `satAdd`).
-/
import Pk.Model.Regex

namespace Pk.RegexProg
open Pk.Regex

inductive Op where
  | alt | altMatch | capture | emptyWidth | match_ | fail | nop | rune | rune1 | runeAny | runeAnyNotNL
  deriving DecidableEq, Repr

/-- numeric value of `syntax.InstOp` -/
def Op.ofNat? : Nat → Option Op
  | 0 => some .alt | 1 => some .altMatch | 2 => some .capture | 3 => some .emptyWidth
  | 4 => some .match_ | 5 => some .fail | 6 => some .nop | 7 => some .rune | 8 => some .rune1
  | 9 => some .runeAny | 10 => some .runeAnyNotNL | _ => none

structure Inst where
  op : Op
  out : Nat
  arg : Nat
  rune : List Nat
  deriving Repr

structure Prog where
  inst : Array Inst
  start : Nat

def Op.isRune : Op → Bool
  | .rune | .rune1 | .runeAny | .runeAnyNotNL => true
  | _ => false

def Op.isPass : Op → Bool
  | .nop | .emptyWidth | .capture => true
  | _ => false

def Op.isAlt : Op → Bool
  | .alt | .altMatch => true
  | _ => false

/-- `syntax.FoldCase` -/
def foldCaseFlag : Nat := 1

/-- the test `len(i.Rune) == 1 && i.Rune[0] <= 0xFF && syntax.Flags(i.Arg)&syntax.FoldCase == 0` -/
def Inst.literal? (i : Inst) : Option Byte :=
  match i.rune with
  | [r] => if r ≤ 255 ∧ i.arg &&& foldCaseFlag = 0 then some r else none
  | _ => none

/-! ### acceptance (for the statement of `suffixWalk_sound`) -/

def swapCase (b : Byte) : Byte :=
  if 97 ≤ b ∧ b ≤ 122 then b - 32 else if 65 ≤ b ∧ b ≤ 90 then b + 32 else b

def inPairs : List Nat → Byte → Bool
  | lo :: hi :: rest, b => (lo ≤ b && b ≤ hi) || inPairs rest b
  | _, _ => false

/-- `Inst.MatchRune` restricted to bytes (folding: ASCII letters only, which is all the generator uses) -/
def Inst.matchByte (i : Inst) (b : Byte) : Bool :=
  match i.op with
  | .runeAny => true
  | .runeAnyNotNL => b != 10
  | .rune1 | .rune =>
    match i.rune with
    | [r] => b == r || (i.arg &&& foldCaseFlag != 0 && swapCase b == r)
    | rs => inPairs rs b
  | _ => false

def emptyOps : List (Nat × Assertion) :=
  [(1, .beginLine), (2, .endLine), (4, .beginText), (8, .endText), (16, .wordBoundary), (32, .noWordBoundary)]

/-- all assertions named in the `EmptyOp` bit set hold -/
def emptyHolds (arg : Nat) (pre post : List Byte) : Bool :=
  emptyOps.all fun (bit, a) => arg &&& bit == 0 || a.holds pre post

/-- `Accepts p pc pre w post`: started at `pc` with `pre` already consumed, the program can consume
    exactly `w` and reach a match instruction, `post` being the rest of the text. -/
inductive Accepts (p : Prog) : Nat → List Byte → List Byte → List Byte → Prop where
  | match_ (pc i pre post) : p.inst[pc]? = some i → i.op = .match_ → Accepts p pc pre [] post
  | rune (pc i b pre w post) : p.inst[pc]? = some i → i.op.isRune = true → i.matchByte b = true →
      Accepts p i.out (pre ++ [b]) w post → Accepts p pc pre (b :: w) post
  | pass (pc i pre w post) : p.inst[pc]? = some i → (i.op = .nop ∨ i.op = .capture) →
      Accepts p i.out pre w post → Accepts p pc pre w post
  | empty (pc i pre w post) : p.inst[pc]? = some i → i.op = .emptyWidth →
      emptyHolds i.arg pre (w ++ post) = true → Accepts p i.out pre w post → Accepts p pc pre w post
  | altOut (pc i pre w post) : p.inst[pc]? = some i → i.op.isAlt = true →
      Accepts p i.out pre w post → Accepts p pc pre w post
  | altArg (pc i pre w post) : p.inst[pc]? = some i → i.op.isAlt = true →
      Accepts p i.arg pre w post → Accepts p pc pre w post

/-- what the suffix walk assumes about rune instructions: "any byte" instructions carry no
    single-rune list (true for every compiled program: they carry the range pairs) -/
def Inst.wf (i : Inst) : Bool :=
  match i.op with
  | .runeAny | .runeAnyNotNL => i.rune.length != 1
  | _ => true

def Prog.wf (p : Prog) : Bool := p.inst.toList.all Inst.wf

/-! ### ConstantSuffix -/

/-- longest common suffix, computed on the reversed lists -/
def commonPrefix : List Byte → List Byte → List Byte
  | a :: as, b :: bs => if a = b then a :: commonPrefix as bs else []
  | _, _ => []

def commonSuffix (a b : List Byte) : List Byte :=
  (commonPrefix a.reverse b.reverse).reverse

/-- `evaluate(s, pos, seen)` of `ConstantSuffix`; the fuel bounds the length of one path. -/
def suffixEval (p : Prog) : Nat → List Byte → Nat → List Nat → Option (List Byte)
  | 0, _, _, _ => none
  | fuel + 1, s, pos, seen =>
    match p.inst[pos]? with
    | none => none
    | some i =>
      if i.op.isRune then
        suffixEval p fuel (match i.literal? with | some b => s ++ [b] | none => []) i.out seen
      else if i.op.isPass then
        suffixEval p fuel s i.out seen
      else if i.op.isAlt then
        if seen.contains pos then some []
        else
          let seen' := seen ++ [pos]
          match suffixEval p fuel s i.out seen' with
          | none => none
          | some s2 =>
            match suffixEval p fuel s i.arg seen' with
            | none => none
            | some s1 => some (commonSuffix s1 s2)
      else if i.op = .match_ then some s
      else some []   -- InstFail

def Prog.fuel (p : Prog) : Nat := (p.inst.size + 2) * (p.inst.size + 2)

def suffixWalk (p : Prog) : Option (List Byte) := suffixEval p p.fuel [] p.start []

/-! ### AcceptedLength -/

def MAXU : Nat := 2 ^ 64 - 1

/-- `inc := func(v *uint) { if *v != math.MaxUint { (*v)++ } }` -/
def inc (v : Nat) : Nat := if v ≠ MAXU then v + 1 else v

/-- the saturating `add` closure:
    `c := ((a >> 1) + (b >> 1) + (a & b & 1)) >> (bits.UintSize - 1); if c != 0 { return MaxUint }; return a + b` -/
def satAdd (a b : Nat) : Nat :=
  if ((a >>> 1) + (b >>> 1) + (a &&& b &&& 1)) >>> 63 ≠ 0 then MAXU else a + b

/-- MinLength (repaired code): breadth-first search, one level per consumed byte.
    `level` is the Go slice used as a stack (head = last element), `next` collects the next level. -/
def minBfs (p : Prog) : Nat → Nat → List Nat → Array Bool → List Nat → Option Nat
  | 0, _, _, _, _ => none
  | _ + 1, _, [], _, [] => some MAXU
  | fuel + 1, n, [], vis, next => minBfs p fuel (n + 1) next vis []
  | fuel + 1, n, pos :: level, vis, next =>
    match vis[pos]?, p.inst[pos]? with
    | some true, _ => minBfs p fuel n level vis next
    | some false, some i =>
      let vis := vis.setIfInBounds pos true
      if i.op.isRune then minBfs p fuel n level vis (i.out :: next)
      else if i.op.isPass then minBfs p fuel n (i.out :: level) vis next
      else if i.op.isAlt then minBfs p fuel n (i.arg :: i.out :: level) vis next
      else if i.op = .match_ then some n
      else minBfs p fuel n level vis next   -- InstFail
    | _, _ => none

def minWalk (p : Prog) : Option Nat :=
  minBfs p (4 * p.inst.size + 8) 0 [p.start] (Array.replicate p.inst.size false) []

abbrev Cache (α : Type) := Array (Option α)

/-- MaxLength: `evaluate(entry, seen)` with the `cache` map threaded through.
    `maxGo fuel cache entry pos r seen` is the `for` loop of one `evaluate(entry, …)` call standing at
    `pos` with `r` accumulated. -/
def maxGo (p : Prog) : Nat → Cache Nat → Nat → Nat → Nat → List Nat → Option (Nat × Cache Nat)
  | 0, _, _, _, _, _ => none
  | fuel + 1, c, entry, pos, r, seen =>
    match p.inst[pos]? with
    | none => none
    | some i =>
      if i.op.isRune then maxGo p fuel c entry i.out (inc r) seen
      else if i.op.isPass then maxGo p fuel c entry i.out r seen
      else if i.op.isAlt then
        if seen.contains pos then some (MAXU, c.setIfInBounds entry (some MAXU))
        else
          let seen' := seen ++ [pos]
          let sub (c : Cache Nat) (e : Nat) : Option (Nat × Cache Nat) :=
            match c[e]? with
            | some (some v) => some (v, c)
            | some none => maxGo p fuel c e e 0 seen'
            | none => none
          match sub c i.out with
          | none => none
          | some (r1, c1) =>
            match sub c1 i.arg with
            | none => none
            | some (r2, c2) =>
              let r' := satAdd r (Nat.max r1 r2)
              some (r', c2.setIfInBounds entry (some r'))
      else if i.op = .match_ then some (r, c.setIfInBounds entry (some r))
      else some (MAXU, c.setIfInBounds entry (some MAXU))   -- InstFail

def maxWalk (p : Prog) : Option Nat :=
  (maxGo p p.fuel (Array.replicate p.inst.size none) p.start p.start 0 []).map (·.1)

/-- `AcceptedLength` of the repaired code -/
def lenWalk (p : Prog) : Option (Nat × Nat) :=
  match minWalk p, maxWalk p with
  | some mn, some mx => some (mn, mx)
  | _, _ => none

/-! ### the walk before the repair (one memo for both bounds) -/

def oldGo (p : Prog) : Nat → Cache (Nat × Nat) → Nat → Nat → Nat × Nat → List Nat →
    Option ((Nat × Nat) × Cache (Nat × Nat))
  | 0, _, _, _, _, _ => none
  | fuel + 1, c, entry, pos, r, seen =>
    match p.inst[pos]? with
    | none => none
    | some i =>
      if i.op.isRune then oldGo p fuel c entry i.out (inc r.1, inc r.2) seen
      else if i.op.isPass then oldGo p fuel c entry i.out r seen
      else if i.op.isAlt then
        if seen.contains pos then some ((MAXU, MAXU), c.setIfInBounds entry (some (MAXU, MAXU)))
        else
          let seen' := seen ++ [pos]
          let sub (c : Cache (Nat × Nat)) (e : Nat) : Option ((Nat × Nat) × Cache (Nat × Nat)) :=
            match c[e]? with
            | some (some v) => some (v, c)
            | some none => oldGo p fuel c e e (0, 0) seen'
            | none => none
          match sub c i.out with
          | none => none
          | some (r1, c1) =>
            match sub c1 i.arg with
            | none => none
            | some (r2, c2) =>
              let r' := (satAdd r.1 (Nat.min r1.1 r2.1), satAdd r.2 (Nat.max r1.2 r2.2))
              some (r', c2.setIfInBounds entry (some r'))
      else if i.op = .match_ then some (r, c.setIfInBounds entry (some r))
      else some ((MAXU, MAXU), c.setIfInBounds entry (some (MAXU, MAXU)))

def oldWalk (p : Prog) : Option (Nat × Nat) :=
  (oldGo p p.fuel (Array.replicate p.inst.size none) p.start p.start (0, 0) []).map (·.1)

end Pk.RegexProg
