/-
  Model of the converter cache file: `internal/index/converters/cachefile.go`
  (record codec, load scan of `NewCacheFile`, `setData` incl. the compaction rule, `data`,
  `DataForSearch`, `InvalidateChangedStreams`, `truncateFile`, `Reset`), as of the tree that contains
  the four `fix:` commits for F10, F11, F12 and F23.  Core Lean only.

  Conventions of the transliteration
  * a file / a byte slice is a `List Nat` (every element < 256 in files the code writes);
    `bufio` readers become "remaining input", an `io.EOF`/`io.ErrUnexpectedEOF` becomes `none`;
  * Go loops become structural recursion over a fuel argument that is at least the input length
    (every iteration consumes a byte), so fuel never runs out before the input does;
  * the byte counters the Go code threads through (`bytes`, `n`, `streamSize`) are *computed* as
    length differences of the remaining input, which is what they count;
  * `uint64`/`int64` wrap-around is explicit where the code converts (`% 2^64`, `toI64`), other integer
    overflow (sizes ≥ 2^63, times further than 292 years apart) is outside the model;
  * the Go map `streamInfos` is an association list (lookups only; the strict tie sorts it by id);
    the Go map of content types is an association list in first-appearance order (Go's order is
    random; readers do not depend on it, the tie compares such files by a commutative checksum).
-/
namespace Pk.CacheFile

/-! ## varint (`readVarInt` / `writeVarInt`): big-endian base 128, flag 0x80 on all but the last byte -/

/-- the bytes before the last one, most significant first; `acc` is what has been placed already -/
def varintHi : Nat → Nat → List Nat → List Nat
  | 0, _, acc => acc
  | fuel + 1, n, acc => if n = 0 then acc else varintHi fuel (n / 128) ((n % 128 + 128) :: acc)

/-- `writeVarInt`: `buf` is filled from the back (`byte(number)|0x80`, `number >>= 7`), the last byte
    loses its flag.  The buffer has 10 bytes: 10 rounds. -/
def writeVarInt (n : Nat) : List Nat := varintHi 10 (n / 128) [n % 128]

def readVarIntAux : List Nat → Nat → Option (Nat × List Nat)
  | [], _ => none
  | b :: bs, result =>
    let result := (result * 128 + b % 128) % 2 ^ 64      -- result <<= 7; result |= b & 0x7f   (uint64)
    if b < 128 then some (result, bs) else readVarIntAux bs result

/-- `readVarInt`: value and remaining input (`none`: input ended inside the number) -/
def readVarInt (bs : List Nat) : Option (Nat × List Nat) := readVarIntAux bs 0

/-! ## varbytes (`readVarBytes` / `writeVarBytes`): a byte string as little-endian 7-bit groups -/

/-- inner `for` of `writeVarBytes`: emit 7-bit groups until at most 7 bits are buffered -/
def vbEmit : Nat → Nat → Nat → List Nat × Nat × Nat
  | 0, buf, filled => ([], buf, filled)
  | fuel + 1, buf, filled =>
    let o := 128 + buf % 128                 -- 0x80 | (buf & 0x7f)
    let buf := buf / 128
    let filled := filled - 7
    if filled ≤ 7 then ([o], buf, filled)
    else
      let r := vbEmit fuel buf filled
      (o :: r.1, r.2.1, r.2.2)

def writeVarBytesAux : List Nat → Nat → Nat → List Nat
  | [], buf, filled => if filled ≠ 0 then [buf % 256] else []
  | b :: bs, buf, filled =>
    let buf := (buf ||| (b <<< filled)) % 65536      -- uint16
    let r := vbEmit 3 buf (filled + 8)
    r.1 ++ writeVarBytesAux bs r.2.1 r.2.2

def writeVarBytes (data : List Nat) : List Nat :=
  if data = [] then [0] else writeVarBytesAux data 0 0

def readVarBytesAux : List Nat → Nat → Nat → Option (List Nat × List Nat)
  | [], _, _ => none
  | b :: bs, buf, filled =>
    let buf := (buf ||| ((b % 128) <<< filled)) % 65536
    let filled := filled + 7
    if filled ≥ 8 then
      if b < 128 then some ([buf % 256], bs)
      else (readVarBytesAux bs (buf / 256) (filled - 8)).map fun r => (buf % 256 :: r.1, r.2)
    else
      if b < 128 then some ([], bs) else readVarBytesAux bs buf filled

def readVarBytes (bs : List Nat) : Option (List Nat × List Nat) := readVarBytesAux bs 0 0

/-! ## strings (`readString` / `writeString`) -/

def writeString (s : List Nat) : List Nat := writeVarInt s.length ++ s

def readString (bs : List Nat) : Option (List Nat × List Nat) :=
  match readVarInt bs with
  | none => none
  | some (len, rest) => if rest.length < len then none else some (rest.take len, rest.drop len)

/-! ## chunks -/

/-- `index.Data`: `dir = false` client→server, `true` server→client; `time` in ns relative to a fixed
    base; `ctype = []` is "no content type" -/
structure Chunk where
  dir : Bool
  content : List Nat
  time : Int
  ctype : List Nat
deriving DecidableEq, Repr, Inhabited

def toU64 (i : Int) : Nat := (i % 2 ^ 64).toNat
def toI64 (n : Nat) : Int := if n ≥ 2 ^ 63 then (n : Int) - 2 ^ 64 else n
def wrapI64 (i : Int) : Int := (i + 2 ^ 63) % 2 ^ 64 - 2 ^ 63

/-! ## writing a record (`setData`, after the stream header) -/

/-- F23 fix: chunks without content are left out -/
def dropEmpty (cs : List Chunk) : List Chunk := cs.filter fun c => c.content ≠ []

/-- chunk sizes; a zero is written whenever the direction is not the expected one; `[0,0]` ends the list -/
def encodeSizes : List Chunk → Bool → List Nat
  | [], _ => [0, 0]
  | c :: cs, want =>
    (if c.dir != want then [0] else []) ++ writeVarInt c.content.length ++ encodeSizes cs (!c.dir)

def dataOf (cs : List Chunk) (d : Bool) : List Nat :=
  (cs.filter fun c => c.dir == d).flatMap fun c => c.content

/-- relative times in whole µs; the running time advances by what was stored (F12 fix) -/
def encodeTimes : List Chunk → Int → List Nat
  | [], _ => []
  | c :: cs, last =>
    let relMicros := (c.time - last).tdiv 1000
    writeVarInt (toU64 relMicros) ++ encodeTimes cs (last + relMicros * 1000)

/-- `bm` grown to cover bit `i`, bit `i` set -/
def setBit (bm : List Nat) (i : Nat) : List Nat :=
  let bm := bm ++ List.replicate (i / 8 + 1 - bm.length) 0
  bm.modify (i / 8) fun b => (b ||| (1 <<< (i % 8))) % 256

def addCt : List (List Nat × List Nat) → List Nat → Nat → List (List Nat × List Nat)
  | [], ct, i => [(ct, setBit [] i)]
  | (k, bm) :: rest, ct, i => if k = ct then (k, setBit bm i) :: rest else (k, bm) :: addCt rest ct i

def collectCts : List Chunk → Nat → List (List Nat × List Nat) → List (List Nat × List Nat)
  | [], _, m => m
  | c :: cs, i, m => collectCts cs (i + 1) (if c.ctype = [] then m else addCt m c.ctype i)

def encodeCts (m : List (List Nat × List Nat)) : List Nat :=
  (m.flatMap fun e => writeVarBytes e.2 ++ writeString e.1) ++ [0]

/-- everything `setData` writes after the 8-byte stream header, for an already filtered chunk list -/
def encodeBody (cs : List Chunk) (t0 : Int) : List Nat :=
  encodeSizes cs false ++ (dataOf cs false ++ (dataOf cs true ++ (encodeTimes cs t0
    ++ encodeCts (collectCts cs 0 []))))

def encodeRecord (cs : List Chunk) (t0 : Int) : List Nat := encodeBody (dropEmpty cs) t0

/-! ## reading a record (`data`) -/

/-- size loop of `data`: entries (direction, size) until a zero follows a zero -/
def readSizes : Nat → List Nat → Bool → Bool → Option (List (Bool × Nat) × List Nat)
  | 0, _, _, _ => none
  | fuel + 1, bs, prevZero, dir =>
    match readVarInt bs with
    | none => none
    | some (sz, rest) =>
      if sz = 0 ∧ prevZero then some ([], rest)
      else (readSizes fuel rest (sz == 0) (!dir)).map fun r => ((dir, sz) :: r.1, r.2)

def sumDir (ds : List (Bool × Nat)) (d : Bool) : Nat :=
  (ds.filter fun e => e.1 == d).foldl (fun a e => a + e.2) 0

/-- "split data into chunks and read times" -/
def splitChunks : List (Bool × Nat) → List Nat → List Nat → List Nat → Int → Option (List Chunk × List Nat)
  | [], _, _, rest, _ => some ([], rest)
  | (d, sz) :: ds, cd, sd, rest, last =>
    if sz = 0 then splitChunks ds cd sd rest last
    else
      match readVarInt rest with
      | none => none
      | some (rel, rest') =>
        let last' := last + wrapI64 (toI64 rel * 1000)   -- time.Duration(relMS) * time.Microsecond
        let c : Chunk := { dir := d, content := (if d then sd else cd).take sz, time := last', ctype := [] }
        (splitChunks ds (if d then cd else cd.drop sz) (if d then sd.drop sz else sd) rest' last').map
          fun r => (c :: r.1, r.2)

/-- bits of one mask byte: `for b != 0 { if b&1 != 0 {...}; bit++; b >>= 1 }` -/
def applyBits : Nat → Nat → Nat → List Nat → List Chunk → Option (List Chunk)
  | 0, _, _, _, data => some data
  | fuel + 1, b, bit, ct, data =>
    if b = 0 then some data
    else if b % 2 = 1 then
      if bit ≥ data.length then none     -- "content type bitmask out of range"
      else applyBits fuel (b / 2) (bit + 1) ct (data.modify bit fun c => { c with ctype := ct })
    else applyBits fuel (b / 2) (bit + 1) ct data

def applyMask : List Nat → Nat → List Nat → List Chunk → Option (List Chunk)
  | [], _, _, data => some data
  | b :: bs, i, ct, data =>
    match applyBits 8 b (i * 8) ct data with
    | none => none
    | some data => applyMask bs (i + 1) ct data

def readCts : Nat → List Nat → List Chunk → Option (List Chunk × List Nat)
  | 0, _, _ => none
  | fuel + 1, bs, data =>
    match readVarBytes bs with
    | none => none
    | some (mask, rest) =>
      if mask = [] then some (data, rest)
      else
        match readString rest with
        | none => none
        | some (ct, rest') =>
          match applyMask mask 0 ct data with
          | none => none
          | some data => readCts fuel rest' data

structure ReadResult where
  chunks : List Chunk
  clientBytes : Nat
  serverBytes : Nat
deriving DecidableEq, Repr

/-- `data()` on the section of the file that the offset table points at -/
def decodeRecord (sec : List Nat) (t0 : Int) : Option ReadResult :=
  match readSizes (sec.length + 1) sec false false with
  | none => none
  | some (ds0, rest) =>
    let ds := ds0.dropLast                      -- "remove the last zero size chunk"
    let cb := sumDir ds0 false
    let sb := sumDir ds0 true
    if rest.length < cb then none else
    let cd := rest.take cb
    let rest := rest.drop cb
    if rest.length < sb then none else
    let sd := rest.take sb
    let rest := rest.drop sb
    match splitChunks ds cd sd rest t0 with
    | none => none
    | some (chunks, rest) =>
      match readCts (rest.length + 1) rest chunks with
      | none => none
      | some (chunks, _) => some { chunks, clientBytes := cb, serverBytes := sb }

/-! ## `DataForSearch` -/

/-- size loop of `DataForSearch`: running totals per direction, one entry per non-empty chunk -/
def readSizesSearch : Nat → List Nat → Bool → Bool → Nat × Nat → Option (List (Nat × Nat) × List Nat)
  | 0, _, _, _, _ => none
  | fuel + 1, bs, prevZero, dir, last =>
    match readVarInt bs with
    | none => none
    | some (sz, rest) =>
      if sz = 0 then
        if prevZero then some ([], rest) else readSizesSearch fuel rest true (!dir) last
      else
        let new := if dir then (last.1, last.2 + sz) else (last.1 + sz, last.2)
        (readSizesSearch fuel rest false (!dir) new).map fun r => (new :: r.1, r.2)

structure SearchResult where
  client : List Nat
  server : List Nat
  sizes : List (Nat × Nat)
deriving DecidableEq, Repr

def decodeSearch (sec : List Nat) : Option SearchResult :=
  match readSizesSearch (sec.length + 1) sec false false (0, 0) with
  | none => none
  | some (szs, rest) =>
    let tot := (szs.getLast?).getD (0, 0)
    if rest.length < tot.1 then none else
    let cd := rest.take tot.1
    let rest := rest.drop tot.1
    if rest.length < tot.2 then none else
    some { client := cd, server := rest.take tot.2, sizes := (0, 0) :: szs }

/-! ## `skipStream`: the length of a record body, by parsing it -/

def skipSizes : Nat → List Nat → Nat → Nat → Nat → Option (Nat × Nat × List Nat)
  | 0, _, _, _, _ => none
  | fuel + 1, bs, nZeros, dataSize, count =>
    if nZeros ≥ 2 then some (dataSize, count, bs)
    else
      match readVarInt bs with
      | none => none
      | some (sz, rest) =>
        if sz ≠ 0 then skipSizes fuel rest 0 (dataSize + sz) (count + 1)
        else skipSizes fuel rest (nZeros + 1) dataSize count

def skipVarInts : Nat → List Nat → Option (List Nat)
  | 0, bs => some bs
  | n + 1, bs =>
    match readVarInt bs with
    | none => none
    | some (_, rest) => skipVarInts n rest

def skipCts : Nat → List Nat → Option (List Nat)
  | 0, _ => none
  | fuel + 1, bs =>
    match readVarBytes bs with
    | none => none
    | some (mask, rest) =>
      if mask = [] then some rest
      else
        match readString rest with
        | none => none
        | some (_, rest') => skipCts fuel rest'

/-- remaining input after one record body (`none`: the input ends inside the record) -/
def skipStream (bs : List Nat) : Option (List Nat) :=
  match skipSizes (bs.length + 2) bs 0 0 0 with
  | none => none
  | some (dataSize, count, rest) =>
    if rest.length < dataSize then none else
    match skipVarInts count (rest.drop dataSize) with
    | none => none
    | some rest => skipCts (rest.length + 1) rest

/-! ## the file -/

structure Info where
  offset : Nat
  size : Nat
deriving DecidableEq, Repr, Inhabited

structure St where
  bytes : List Nat
  infos : List (Nat × Info)
  fileSize : Nat
  freeSize : Nat
  freeStart : Nat
deriving Repr, Inhabited

def lookup (m : List (Nat × Info)) (id : Nat) : Option Info := (m.find? fun e => e.1 == id).map (·.2)
def erase (m : List (Nat × Info)) (id : Nat) : List (Nat × Info) := m.filter fun e => e.1 != id
def insert (m : List (Nat × Info)) (id : Nat) (i : Info) : List (Nat × Info) := (id, i) :: erase m id

def streamHeaderSize : Nat := 8
def cacheFileHeaderSize : Nat := 8
def cleanupMinFreeSize : Nat := 16 * 1024 * 1024
def invalidStreamID : Nat := 2 ^ 64 - 1

/-- "P2CC", version 1 (little endian) -/
def headerBytes : List Nat := [0x50, 0x32, 0x43, 0x43, 1, 0, 0, 0]

def le64 (n : Nat) : List Nat :=
  [n % 256, n / 256 % 256, n / 256 ^ 2 % 256, n / 256 ^ 3 % 256, n / 256 ^ 4 % 256, n / 256 ^ 5 % 256,
   n / 256 ^ 6 % 256, n / 256 ^ 7 % 256]

def readLe64 (bs : List Nat) : Nat :=
  (bs.take 8).foldr (fun b acc => b + 256 * acc) 0

/-- `Reset` -/
def reset : St := { bytes := headerBytes, infos := [], fileSize := 8, freeSize := 0, freeStart := 8 }

/-- `file.WriteAt(new, off)` inside the file -/
def patch (bs : List Nat) (off : Nat) (new : List Nat) : List Nat :=
  bs.take off ++ (new ++ bs.drop (off + new.length))

/-- `freeStream` (F11 fix): mark the record as deleted in the file, account its space as free -/
def freeStream (st : St) (info : Info) : St :=
  { st with
    bytes := patch st.bytes (info.offset - streamHeaderSize) (le64 invalidStreamID)
    freeSize := st.freeSize + info.size + streamHeaderSize
    freeStart := if st.freeStart > info.offset - streamHeaderSize then info.offset - streamHeaderSize
                 else st.freeStart }

/-- loop of `truncateFile` over the bytes from `freeStart` to `fileSize`:
    returns the offset table, the new file size and the bytes written from `freeStart` on -/
def compactLoop : Nat → List Nat → Nat → List (Nat × Info) → Nat → Option (List (Nat × Info) × Nat × List Nat)
  | 0, _, _, _, _ => none
  | fuel + 1, bs, oldOff, infos, newSize =>
    if bs = [] then some (infos, newSize, [])
    else if bs.length < 8 then none
    else
      let id := readLe64 bs
      let body := bs.drop 8
      let oldOff := oldOff + streamHeaderSize
      match lookup infos id with
      | some info =>
        if info.offset = oldOff then
          if body.length < info.size then none else
          (compactLoop fuel (body.drop info.size) (oldOff + info.size)
              (insert infos id { info with offset := newSize + streamHeaderSize })
              (newSize + streamHeaderSize + info.size)).map
            fun r => (r.1, r.2.1, bs.take 8 ++ (body.take info.size ++ r.2.2))
        else
          match skipStream body with
          | none => none
          | some rest => compactLoop fuel rest (oldOff + (body.length - rest.length)) infos newSize
      | none =>
        match skipStream body with
        | none => none
        | some rest => compactLoop fuel rest (oldOff + (body.length - rest.length)) infos newSize

/-- `truncateFile` (`none`: it returned an error) -/
def truncateFile (st : St) : Option St :=
  let region := (st.bytes.drop st.freeStart).take (st.fileSize - st.freeStart)
  match compactLoop (region.length + 1) region st.freeStart st.infos st.freeStart with
  | none => none
  | some (infos, newSize, out) =>
    some { bytes := st.bytes.take st.freeStart ++ out      -- written in place from freeStart, then Truncate(newSize)
           infos := infos, fileSize := newSize, freeSize := 0, freeStart := newSize }

/-- `setData` (`none`: it returned an error, which needs a failing `truncateFile`) -/
def setData (st : St) (id : Nat) (t0 : Int) (chunks : List Chunk) : Option St :=
  let st? := if st.freeSize ≥ cleanupMinFreeSize ∧ st.freeSize ≥ st.fileSize / 2 then truncateFile st else some st
  match st? with
  | none => none
  | some st =>
    let record := encodeRecord chunks t0
    let size := record.length
    let old := lookup st.infos id
    let st' : St :=
      { bytes := st.bytes ++ (le64 id ++ record)
        infos := insert st.infos id { offset := st.fileSize + streamHeaderSize, size := size }
        fileSize := st.fileSize + streamHeaderSize + size
        freeSize := st.freeSize
        freeStart := if st.freeStart = st.fileSize then st.freeStart + streamHeaderSize + size else st.freeStart }
    match old with
    | none => some st'
    | some o => some (freeStream st' o)

/-- `InvalidateChangedStreams` for one id of the mask; returns whether it was cached -/
def invalidateOne (st : St) (id : Nat) : St × Bool :=
  match lookup st.infos id with
  | none => (st, false)
  | some info => ({ freeStream st info with infos := erase st.infos id }, true)

/-- `InvalidateChangedStreams`: ids in ascending order (iteration over the bitmask) -/
def invalidate : St → List Nat → St × List Nat
  | st, [] => (st, [])
  | st, id :: ids =>
    let r := invalidateOne st id
    let r2 := invalidate r.1 ids
    (r2.1, if r.2 then id :: r2.2 else r2.2)

def section_ (st : St) (info : Info) : List Nat := (st.bytes.drop info.offset).take info.size

/-- `data(streamID, firstPacketTime)`: `none` = error, `some none` = not cached -/
def data (st : St) (id : Nat) (t0 : Int) : Option (Option ReadResult) :=
  match lookup st.infos id with
  | none => some none
  | some info => (decodeRecord (section_ st info) t0).map some

def dataForSearch (st : St) (id : Nat) : Option (Option SearchResult) :=
  match lookup st.infos id with
  | none => some none
  | some info => (decodeSearch (section_ st info)).map some

def contains (st : St) (id : Nat) : Bool := (lookup st.infos id).isSome
def streamCount (st : St) : Nat := st.infos.length

/-! ## `NewCacheFile`: load scan -/

structure Scan where
  infos : List (Nat × Info)
  fileSize : Nat
  freeSize : Nat
  freeStart : Nat
  partialRecord : Bool
deriving Repr

def scanLoop : Nat → List Nat → Scan → Scan
  | 0, _, s => s
  | fuel + 1, bs, s =>
    if bs = [] then s                                            -- io.EOF
    else if bs.length < 8 then { s with partialRecord := true }  -- io.ErrUnexpectedEOF (F10 fix)
    else
      let id := readLe64 bs
      let body := bs.drop 8
      match skipStream body with
      | none => { s with partialRecord := true }                 -- F10 fix
      | some rest =>
        let size := body.length - rest.length
        if id = invalidStreamID then                             -- F11 fix
          scanLoop fuel rest
            { s with freeStart := if s.freeSize = 0 ∨ s.freeStart > s.fileSize then s.fileSize else s.freeStart
                     freeSize := s.freeSize + streamHeaderSize + size
                     fileSize := s.fileSize + streamHeaderSize + size }
        else
          let s1 : Scan :=
            match lookup s.infos id with
            | some info =>
              { s with freeStart := if s.freeSize = 0 ∨ s.freeStart > info.offset - streamHeaderSize
                                    then info.offset - streamHeaderSize else s.freeStart
                       freeSize := s.freeSize + streamHeaderSize + info.size }
            | none => s
          scanLoop fuel rest
            { s1 with infos := insert s1.infos id { offset := s.fileSize + streamHeaderSize, size := size }
                      fileSize := s.fileSize + streamHeaderSize + size }

/-- `NewCacheFile` on a file with the given content (`none`: it returned an error) -/
def openFile (file : List Nat) : Option St :=
  if file.length < 8 then some reset                             -- EOF / partial header: Reset
  else if file.take 8 ≠ headerBytes then some reset              -- wrong magic or version: Reset
  else
    let s := scanLoop (file.length + 1) (file.drop 8)
      { infos := [], fileSize := 8, freeSize := 0, freeStart := 8, partialRecord := false }
    let bytes := if s.partialRecord then file.take s.fileSize else file
    if s.freeSize = 0 then
      some { bytes := bytes, infos := s.infos, fileSize := s.fileSize, freeSize := 0, freeStart := s.fileSize }
    else
      truncateFile { bytes := bytes, infos := s.infos, fileSize := s.fileSize, freeSize := s.freeSize,
                     freeStart := s.freeStart }

/-! ## operations of the tie / of the refinement theorems -/

inductive Op where
  | store (id : Nat) (t0 : Int) (chunks : List Chunk)
  | invalidate (ids : List Nat)
  | reset
  | reopen
  | reopenTruncated (keep : Nat)
deriving Repr

/-- one operation; `none` = the code returned an error -/
def step (st : St) : Op → Option St
  | .store id t0 cs => setData st id t0 cs
  | .invalidate ids => some (invalidate st ids).1
  | .reset => some reset
  | .reopen => openFile st.bytes
  | .reopenTruncated keep => openFile (st.bytes.take keep)

def run : St → List Op → Option St
  | st, [] => some st
  | st, op :: ops => match step st op with
    | none => none
    | some st' => run st' ops

end Pk.CacheFile
