/-
  Payload filter model (property C04) — core Lean only.

  Transliterates, from internal/index/search_data.go:
    * `progressVariant.find` (as repaired by fix F7): minimum length check, literal prefix skip, last-suffix cut,
      fixed-length sliding window, as a function of the facts (prefix, suffix, minLen, maxLen) and
      an ABSTRACT matcher (the regular expression engine is third-party; `Matcher` is what
      `Regexp.FindSubmatchIndex` returns for the bytes it is given: start and end of the leftmost match)
    * the offset update after a match and the chunk-boundary rule (815–827): `advance`
    * the progress of one condition (a THEN chain) on one data source (756–831, per condition)
    * success/fail accounting over the data sources and the final decision (833–974, without
      sub-query variants)
  What is NOT modelled: sub-query variants and precondition states, variables bound by captures, the
  regex-major evaluation order with `recheckRegexes` (expression sharing): the model evaluates every
  condition on its own, element by element, and never retries a failed element.
-/
namespace Pk.DataSearch

abbrev Bytes := List Nat

/-- `Regexp.FindSubmatchIndex(b)[0:2]` -/
abbrev Matcher := Bytes → Option (Nat × Nat)

/-- facts `finalize` derives from an expression (LiteralPrefix, ConstantSuffix, AcceptedLength) -/
structure Facts where
  pre : Bytes
  suf : Bytes
  minLen : Nat
  maxLen : Nat
  /-- `contextSensitive`: the expression contains an empty-width assertion (^ $ \A \z \b \B); the real code
      then derives no prefix, no suffix and the lengths 0..MaxUint (fix F7), and `find` does not discard
      the buffer after a miss -/
  ctx : Bool := false
deriving Repr, DecidableEq, Inhabited

/-- `bytes.HasPrefix` -/
def hasPrefix : Bytes → Bytes → Bool
  | _, [] => true
  | [], _ :: _ => false
  | a :: as, b :: bs => a == b && hasPrefix as bs

/-- `bytes.Index(hay, needle)` for a non-empty needle -/
def indexOf (hay needle : Bytes) : Option Nat :=
  match hay with
  | [] => if needle.isEmpty then some 0 else none
  | _ :: rest =>
    if hasPrefix hay needle then some 0
    else match indexOf rest needle with
      | some i => some (i + 1)
      | none => none

/-- `bytes.LastIndex(hay, needle)` for a non-empty needle -/
def lastIndexOf (hay needle : Bytes) : Option Nat :=
  match hay with
  | [] => if needle.isEmpty then some 0 else none
  | _ :: rest =>
    match lastIndexOf rest needle with
    | some i => some (i + 1)
    | none => if hasPrefix hay needle then some 0 else none

/-- result of `find`: the submatch indexes relative to the (skipped) buffer, and the new stream offset -/
structure Found where
  res : Option (Nat × Nat)
  off : Nat
deriving Repr, DecidableEq, Inhabited

/-- the fixed-length sliding window loop (551–568). `buffer` is already cut behind the last suffix. -/
def window (m : Matcher) (f : Facts) (total : Nat) : Nat → Bytes → Nat → Found
  | 0, _, off => ⟨none, off⟩
  | fuel + 1, buffer, off =>
    match indexOf (buffer.drop (f.minLen - f.suf.length)) f.suf with
    | none => ⟨none, total⟩
    | some pos =>
      let off := off + pos
      let buffer := buffer.drop pos
      match m (buffer.take f.minLen) with
      | some r => ⟨some r, off⟩
      | none => window m f total fuel (buffer.drop 1) (off + 1)

/-- `progressVariant.find(buffers, dir)`: `buf = buffers[dir]`, `off = p.streamOffset[dir]` -/
def find (m : Matcher) (f : Facts) (buf : Bytes) (off : Nat) : Found :=
  let buffer := buf.drop off
  if buffer.length < f.minLen then ⟨none, off⟩ else
  -- literal prefix skip
  let afterPrefix : Option (Bytes × Nat) :=
    if f.pre.isEmpty then some (buffer, off) else
    match indexOf buffer f.pre with
    | none => none
    | some pos => some (buffer.drop pos, off + pos)
  match afterPrefix with
  | none => ⟨none, buf.length⟩
  | some (buffer, off) =>
  if buffer.length < f.minLen then ⟨none, off⟩ else
  -- cut behind the last occurrence of the suffix
  let afterSuffix : Option Bytes :=
    if f.suf.isEmpty then some buffer else
    match lastIndexOf buffer f.suf with
    | none => none
    | some pos => some (buffer.take (pos + f.suf.length))
  match afterSuffix with
  | none => ⟨none, buf.length⟩
  | some buffer =>
  if buffer.length < f.minLen then ⟨none, off⟩ else
  if f.minLen == f.maxLen && f.pre.isEmpty && !f.suf.isEmpty then
    window m f buf.length (buffer.length + 1) buffer off
  else
    match m buffer with
    | some r => ⟨some r, off⟩
    | none => ⟨none, if f.ctx then off else buf.length⟩

/-- the facts the repaired code uses for an expression with empty-width assertions: no shortcut at all -/
def Facts.noShortcuts : Facts := { pre := [], suf := [], minLen := 0, maxLen := 2 ^ 64 - 1, ctx := true }

/-- a context-free leftmost-first matcher, given by its ANCHORED candidates: `cands u` lists, in priority
    order, the lengths `n` such that the expression matches the first `n` bytes of `u`.  This is what a
    regular expression without empty-width assertions is: whether and with which priority a path matches
    depends only on the bytes it consumes. -/
def matcherOf (cands : Bytes → List Nat) : Matcher
  | [] => (cands []).head?.map (fun n => (0, n))
  | a :: rest =>
    match (cands (a :: rest)).head? with
    | some n => some (0, n)
    | none => (matcherOf cands rest).map (fun r => (r.1 + 1, r.2 + 1))

/-- `bytes.HasSuffix` -/
def hasSuffix (b suf : Bytes) : Bool := hasPrefix b.reverse suf.reverse

/-- the unoptimised scan the property compares with: the matcher on the rest of the buffer -/
def plainFind (m : Matcher) (buf : Bytes) (off : Nat) : Found :=
  match m (buf.drop off) with
  | some r => ⟨some r, off⟩
  | none => ⟨none, buf.length⟩

/-! ### offsets and the chunk-boundary rule -/

/-- cumulative chunk sizes `bufferLengths`: entry i = (client bytes, server bytes) in chunks 1..i; entry 0 = (0,0) -/
abbrev ChunkSizes := List (Nat × Nat)

def sel (d : Nat) (p : Nat × Nat) : Nat := if d = 0 then p.1 else p.2
def upd (d : Nat) (p : Nat × Nat) (v : Nat) : Nat × Nat := if d = 0 then (v, p.2) else (p.1, v)

/-- the loop `for i := len-1; ; i-- { if bufferLengths[i-1][dir] < offset { return bufferLengths[i][other] } }` -/
def boundary (bl : ChunkSizes) (dir offset : Nat) : Nat → Option Nat
  | 0 => none
  | i + 1 =>
    match bl[i]?, bl[i + 1]? with
    | some prev, some cur => if sel dir prev < offset then some (sel (1 - dir) cur) else boundary bl dir offset i
    | _, _ => boundary bl dir offset i

/-- offsets after a match ending at `e` (relative to the current offset of `dir`): 815–827 -/
def advance (bl : ChunkSizes) (dir : Nat) (offs : Nat × Nat) (e : Nat) : Nat × Nat :=
  if e = 0 then offs else
  let o := sel dir offs + e
  let offs := upd dir offs o
  match boundary bl dir o (bl.length - 1) with
  | some v => upd (1 - dir) offs v
  | none => offs

/-! ### one condition on one data source -/

structure Elem where
  dir : Nat
  m : Matcher
  facts : Facts

structure Source where
  client : Bytes
  server : Bytes
  sizes : ChunkSizes

def Source.buf (s : Source) (d : Nat) : Bytes := if d = 0 then s.client else s.server

/-- number of elements of the chain that match one after the other (`nSuccessful`), with the scan `fnd` -/
def progressWith (fnd : Matcher → Facts → Bytes → Nat → Found) (s : Source) : List Elem → Nat × Nat → Nat
  | [], _ => 0
  | e :: rest, offs =>
    let r := fnd e.m e.facts (s.buf e.dir) (sel e.dir offs)
    match r.res with
    | none => 0
    | some (_, en) =>
      let offs := upd e.dir offs r.off
      1 + progressWith fnd s rest (advance s.sizes e.dir offs en)

/-- the engine: shortcut scan -/
def progress (s : Source) (els : List Elem) : Nat := progressWith find s els (0, 0)
/-- the spec: plain scan -/
def plainProgress (s : Source) (els : List Elem) : Nat := progressWith (fun m _ b o => plainFind m b o) s els (0, 0)

/-! ### accounting over data sources, decision -/

structure Cond where
  els : List Elem
  inverted : Bool

/-- 853: does the condition fail on a source where `n` elements matched -/
def failsOn (c : Cond) (n : Nat) : Bool :=
  let un := c.els.length - n
  decide (2 ≤ un) || ((un != 0) != c.inverted)

/-- 878–906 for one condition, given the progress on every evaluated source -/
def condDecision (c : Cond) (ns : List Nat) : Bool :=
  let fails := (ns.filter (failsOn c)).length
  let succ := ns.length - fails
  if succ = 0 then false
  else if fails = 0 then true
  else !c.inverted

/-- the data filter of one query part: all its conditions on the evaluated data sources -/
def filterWith (prog : Source → List Elem → Nat) (conds : List Cond) (srcs : List Source) : Bool :=
  -- no evaluated source: only negated single-element conditions hold (a negated chain `a > !b` needs `a`)
  if srcs.isEmpty then conds.all (fun c => c.inverted && decide (c.els.length ≤ 1))
  else conds.all (fun c => condDecision c (srcs.map (fun s => prog s c.els)))

def filter (conds : List Cond) (srcs : List Source) : Bool := filterWith progress conds srcs
def plainFilter (conds : List Cond) (srcs : List Source) : Bool := filterWith plainProgress conds srcs

/-- a stream is selected iff some query part accepts it -/
def selected (parts : List (List Cond)) (srcs : List Source) : Bool := parts.any (fun p => filter p srcs)
def plainSelected (parts : List (List Cond)) (srcs : List Source) : Bool := parts.any (fun p => plainFilter p srcs)

end Pk.DataSearch
