/-
  Access model for property C20 (no data races on shared service state).   Core Lean only.

  Two layers.

  (1) The *access table* (regenerated from the Go source by harness/cmd/c20extract into
      Pk/Gen/Access.lean): one `Row` per (field, context, read|write, guaranteed lockset).  `field`
      and lock ids are indexes into the name lists of the generated file.  `disciplineHolds` is the
      ownership discipline of the service: every pair of rows of one field of which at least one
      writes must be ordered for a structural reason
        * both run on the same goroutine (the service loop, or `New` before it returns),
        * both run in a background job of which only one instance exists at a time,
        * one of them runs in `New` before the goroutines of the other context are started,
        * both hold one common mutex, at least one of them exclusively,
      or be listed in the exception list (the recorded findings).

  (2) The *abstract execution model*: a history is a list of events, newest first; events are field
      accesses, mutex acquire/release, goroutine start, and send/receive of a closure posted to the
      service loop.  `HB` is the happens-before order of the Go memory model restricted to these
      events (program order ∪ goroutine start ∪ send→receive ∪ unlock→lock).  `Exec tbl h` says the
      history respects mutex semantics and that every access is an instance of a table row whose
      guaranteed locks are really held; `Threads h` says how goroutines and contexts relate (who may
      start whom, and when).  Pk/Props/C20.lean proves: discipline ⇒ no race in any such history.

  Contexts (what the extractor infers by a call graph over direct calls and func literals):
    pre        `manager.New` before its first `go` statement (the struct literal and the watchers' setup)
    init       `manager.New` after that, up to the start of the service loop
    loop       bodies of closures sent to `mgr.jobs` and what only they call
    jobImport / jobMerge / jobTag / jobConvert   the four background jobs (before they post their completion)
    watcher    goroutines started by `New` before the service loop exists (fsnotify watchers, their timers)
    worker     every other `go` statement (ticker, pcap-over-ip readers, event delivery, converter
               processes, conversions inside the converter job)
    api        callers of the exported API (HTTP handlers): they only post closures, but may use what a
               view holds (converter caches) on their own goroutine
-/
namespace Pk.Access

inductive Ctx where
  | pre | init | loop | jobImport | jobMerge | jobTag | jobConvert | watcher | worker | api
  deriving DecidableEq, Repr, Inhabited

inductive Mode where
  | r | w
  deriving DecidableEq, Repr, Inhabited

/-- one aggregated line of the access table -/
structure Row where
  field : Nat
  ctx : Ctx
  write : Bool
  /-- locks guaranteed to be held at every access aggregated into this row (mode = at least) -/
  locks : List (Nat × Mode)
  deriving DecidableEq, Repr, Inhabited

abbrev Table := List Row
/-- exception list: (field, context, context), unordered -/
abbrev Exceptions := List (Nat × Ctx × Ctx)

namespace Ctx
/-- contexts that run on the goroutine calling `New` -/
def main : Ctx → Bool
  | pre => true | init => true | _ => false
/-- background jobs of which at most one instance runs at a time (the next one is started by the
    service loop only after it received the completion of the previous one) -/
def serial : Ctx → Bool
  | jobImport => true | jobMerge => true | jobTag => true | jobConvert => true | _ => false
def name : Ctx → String
  | pre => "pre" | init => "init" | loop => "loop" | jobImport => "job:import" | jobMerge => "job:merge"
  | jobTag => "job:tag" | jobConvert => "job:convert" | watcher => "watcher" | worker => "worker" | api => "api"
def all : List Ctx := [pre, init, loop, jobImport, jobMerge, jobTag, jobConvert, watcher, worker, api]
def ofName? (s : String) : Option Ctx := all.find? (fun c => c.name == s)
end Ctx

/-! ### the discipline (executable, decided by the kernel over the regenerated table) -/

/-- both accesses run on one goroutine -/
def sameThread (c1 c2 : Ctx) : Bool :=
  (c1.main && c2.main) || (c1 == .loop && c2 == .loop)

/-- both accesses run in the same kind of single-instance background job -/
def serialSame (c1 c2 : Ctx) : Bool := c1 == c2 && c1.serial

/-- an access in context `c1` (a phase of `New`) precedes the start of every goroutine of context `c2` -/
def birthOrdered (c1 c2 : Ctx) : Bool :=
  (c1 == .pre && !c2.main) || (c1 == .init && !c2.main && c2 != .watcher)

/-- one mutex is guaranteed on both sides, on at least one side exclusively -/
def commonLock (l1 l2 : List (Nat × Mode)) : Bool :=
  l1.any fun a => l2.any fun b => a.1 == b.1 && (a.2 == .w || b.2 == .w)

def conflict (r1 r2 : Row) : Bool := r1.field == r2.field && (r1.write || r2.write)

def safePair (r1 r2 : Row) : Bool :=
  sameThread r1.ctx r2.ctx || serialSame r1.ctx r2.ctx ||
  birthOrdered r1.ctx r2.ctx || birthOrdered r2.ctx r1.ctx || commonLock r1.locks r2.locks

def excusedBy (exc : Exceptions) (f : Nat) (c1 c2 : Ctx) : Bool :=
  exc.any fun e => e.1 == f && ((e.2.1 == c1 && e.2.2 == c2) || (e.2.1 == c2 && e.2.2 == c1))

def pairOK (exc : Exceptions) (r1 r2 : Row) : Bool :=
  !conflict r1 r2 || safePair r1 r2 || excusedBy exc r1.field r1.ctx r2.ctx

def disciplineHolds (tbl : Table) (exc : Exceptions) : Bool :=
  tbl.all fun r1 => tbl.all fun r2 => pairOK exc r1 r2

/-- the offending pairs (diagnostics for the check; `disciplineHolds = (unsafePairs = [])`) -/
def unsafePairs (tbl : Table) (exc : Exceptions) : List (Row × Row) :=
  tbl.flatMap fun r1 => (tbl.filter fun r2 => !pairOK exc r1 r2).map fun r2 => (r1, r2)

/-- exceptions that excuse nothing any more (a recorded finding that the code no longer has) -/
def staleExceptions (tbl : Table) (exc : Exceptions) : Exceptions :=
  exc.filter fun e => !(tbl.any fun r1 => tbl.any fun r2 =>
    conflict r1 r2 && !safePair r1 r2 && r1.field == e.1 &&
      ((e.2.1 == r1.ctx && e.2.2 == r2.ctx) || (e.2.1 == r2.ctx && e.2.2 == r1.ctx)))

/-! #### the per-field classification of DESIGN §5 (each implies the pairwise discipline) -/

def rowsOf (tbl : Table) (f : Nat) : Table := tbl.filter fun r => r.field == f

/-- every access from the service loop or from `New` -/
def loopOwned (tbl : Table) (f : Nat) : Bool :=
  (rowsOf tbl f).all fun r => r.ctx.main || r.ctx == .loop

/-- written only in `New` before any goroutine exists -/
def writtenBeforeStart (tbl : Table) (f : Nat) : Bool :=
  (rowsOf tbl f).all fun r => !r.write || r.ctx == .pre

/-- all accesses guarantee the mutex `l`, all writes exclusively -/
def guardedBy (tbl : Table) (f l : Nat) : Bool :=
  (rowsOf tbl f).all fun r => r.locks.any fun a => a.1 == l && (a.2 == .w || !r.write)

/-! ### abstract executions -/

inductive Kind where
  | acc (field : Nat) (write : Bool)
  | acq (lock : Nat) (m : Mode)
  | rel (lock : Nat) (m : Mode)
  | spawn (child : Nat)
  | send (msg : Nat)
  | recv (msg : Nat)
  deriving DecidableEq, Repr, Inhabited

structure Event where
  /-- time stamp = position in the history -/
  t : Nat
  /-- goroutine; 0 is the goroutine that runs `New` (up to the start of the service loop) -/
  g : Nat
  /-- context of the code the goroutine executes -/
  ctx : Ctx
  kind : Kind
  deriving DecidableEq, Repr, Inhabited

/-- a history, newest event first -/
abbrev History := List Event

/-- mode in which goroutine `g` holds mutex `l` after the history `h` -/
def holds : History → Nat → Nat → Option Mode
  | [], _, _ => none
  | e :: h, g, l =>
    if e.g = g then
      match e.kind with
      | .acq l' m => if l' = l then some m else holds h g l
      | .rel l' _ => if l' = l then none else holds h g l
      | _ => holds h g l
    else holds h g l

/-- held mode `have` is at least the guaranteed mode `need` -/
def modeGe : Option Mode → Mode → Bool
  | some .w, _ => true
  | some .r, .r => true
  | _, _ => false

/-- mutex semantics for the event `e` appended to `h`: no re-entrant acquire; an exclusive acquire
    needs the mutex free, a shared acquire needs it free of exclusive holders; a release matches -/
def lockOK (h : History) (e : Event) : Prop :=
  match e.kind with
  | .acq l m => holds h e.g l = none ∧
      ∀ g' m', g' ≠ e.g → holds h g' l = some m' → m = .r ∧ m' = .r
  | .rel l m => holds h e.g l = some m
  | _ => True

/-- an access is an instance of a table row (same field, context, direction) whose guaranteed locks
    are held in at least the guaranteed mode -/
def accOK (tbl : Table) (h : History) (e : Event) : Prop :=
  match e.kind with
  | .acc f w => ∃ r ∈ tbl, r.field = f ∧ r.ctx = e.ctx ∧ r.write = w ∧
      ∀ lm ∈ r.locks, modeGe (holds h e.g lm.1) lm.2 = true
  | _ => True

/-- `h` is an execution of a program described by `tbl` -/
def Exec (tbl : Table) : History → Prop
  | [] => True
  | e :: h => Exec tbl h ∧ e.t = h.length ∧ lockOK h e ∧ accOK tbl h e

/-- happens-before of the Go memory model on the events of `h` -/
inductive HB (h : History) : Event → Event → Prop where
  | po {a b} : a ∈ h → b ∈ h → a.t < b.t → a.g = b.g → HB h a b
  | start {a b c} : a ∈ h → b ∈ h → a.t < b.t → a.kind = .spawn c → b.g = c → HB h a b
  | msg {a b m} : a ∈ h → b ∈ h → a.t < b.t → a.kind = .send m → b.kind = .recv m → HB h a b
  | lock {a b l m1 m2} : a ∈ h → b ∈ h → a.t < b.t → a.kind = .rel l m1 → b.kind = .acq l m2 →
      (m1 = .w ∨ m2 = .w) → HB h a b
  | trans {a b c} : HB h a b → HB h b c → HB h a c

def conflictE (a b : Event) : Prop :=
  ∃ f w1 w2, a.kind = .acc f w1 ∧ b.kind = .acc f w2 ∧ (w1 = true ∨ w2 = true)

/-- a data race: two conflicting accesses not ordered by happens-before -/
def Race (h : History) (a b : Event) : Prop :=
  a ∈ h ∧ b ∈ h ∧ a.t < b.t ∧ conflictE a b ∧ ¬ HB h a b

def RaceFree (h : History) : Prop := ∀ a b, ¬ Race h a b

/-- how goroutines and contexts relate in the service (facts about `go` statements; see the header) -/
structure Threads (h : History) : Prop where
  /-- goroutine 0 is exactly the code of `New` -/
  main_ctx : ∀ e ∈ h, (e.g = 0 ↔ e.ctx.main = true)
  /-- a goroutine other than 0 never changes its context -/
  ctx_const : ∀ a ∈ h, ∀ b ∈ h, a.g = b.g → a.g ≠ 0 → a.ctx = b.ctx
  /-- `New` runs its `pre` part before its `init` part -/
  pre_first : ∀ a ∈ h, ∀ b ∈ h, a.ctx = .pre → b.ctx = .init → a.t < b.t
  /-- nothing is started in the `pre` part -/
  no_spawn_pre : ∀ s ∈ h, ∀ c, s.kind = .spawn c → s.ctx ≠ .pre
  /-- every other goroutine is started by an event of the history before its first event -/
  born : ∀ b ∈ h, b.g ≠ 0 → ∃ s ∈ h, s.kind = .spawn b.g ∧ s.t < b.t ∧ s.g ≠ b.g
  /-- the only goroutines `New` starts before it has finished initialising are watchers -/
  init_done : ∀ s ∈ h, ∀ b ∈ h, s.kind = .spawn b.g → s.g = 0 → b.ctx ≠ .watcher →
      ∀ a ∈ h, a.g = 0 → a.t ≤ s.t
  /-- watchers only start watchers (their timers) -/
  watcher_children : ∀ s ∈ h, ∀ b ∈ h, s.kind = .spawn b.g → s.ctx = .watcher → b.ctx = .watcher
  /-- there is one service loop -/
  one_loop : ∀ a ∈ h, ∀ b ∈ h, a.ctx = .loop → b.ctx = .loop → a.g = b.g
  /-- single-instance jobs: two instances of one kind are ordered (the second is started by the loop
      after it received the completion of the first) -/
  serial_jobs : ∀ a ∈ h, ∀ b ∈ h, a.ctx.serial = true → a.ctx = b.ctx → a.g ≠ b.g → a.t < b.t → HB h a b

/-- the race is on an excepted (field, context, context) triple -/
def excusedE (exc : Exceptions) (a b : Event) : Prop :=
  ∃ f w, a.kind = .acc f w ∧ excusedBy exc f a.ctx b.ctx = true

end Pk.Access
