/-
  Query model, part 2: simplification (`clean*`, `Conditions.clean`, `Conditions.and`,
  `ConditionsSet.Clean`, `cleanSimpleIDFilter`) of internal/query/conditions.go:1018-1776.

  Transliteration notes
  * `sort.Slice` → stable insertion sort `isort`.  Every comparator of the Go code is total on all
    fields except `cleanDataConditions` (ignores `Inverted`); there a tie is either a contradiction
    or a duplicate, so the order of ties is unobservable.
  * in-place loops with index adjustments (`i--` after removal) → structural recursion over the list
    (documented at each function).
  * uint16 flag values are `Nat` < 2^16.  `cleanFlagConditions` enumerates all 65536 values of the
    forbidden bitmap; the model enumerates only the sub-masks of the union `U` of the masks of a
    group (the bitmap depends on `v &&& U` only).  This is the single place where the model is an
    optimisation rather than a transliteration; it is covered by the correspondence check.
  * Go `int` is `Int` (no overflow; the generator keeps numbers below 2^40).
  * the model follows the tree with the `fix:` commits applied (F2 `j++` in the common-factor loop,
    F3 negated proper prefix is a contradiction, F50 converter name is part of a data element).
-/
import Pk.Model.Query.Ast

namespace Pk.Query

/-! ### generic helpers -/

/-- insert `x` before the first element that is not smaller than `x` (stable w.r.t. `foldr`). -/
def insertBy {α : Type} (lt : α → α → Bool) (x : α) : List α → List α
  | [] => [x]
  | y :: ys => if lt y x then y :: insertBy lt x ys else x :: y :: ys

def isort {α : Type} (lt : α → α → Bool) (l : List α) : List α :=
  l.foldr (insertBy lt) []

/-- lexicographic comparison with a per-element three-way comparison; a proper prefix is smaller
    (this is `bytes.Compare` for byte lists). -/
def lexCmp {α : Type} (cmp : α → α → Ordering) : List α → List α → Ordering
  | [], [] => .eq
  | [], _ :: _ => .lt
  | _ :: _, [] => .gt
  | a :: as, b :: bs =>
    match cmp a b with
    | .eq => lexCmp cmp as bs
    | o => o

def cmpString (a b : String) : Ordering :=
  if a < b then .lt else if a = b then .eq else .gt
def cmpBool (a b : Bool) : Ordering :=   -- false < true
  if a = b then .eq else if b then .lt else .gt

def iabs (x : Int) : Nat := x.natAbs

/-! ### tags (cleanTagConditions) -/

/-- the Go map `m[key]` with insertion/update, as an association list -/
def tagMerge : List TagC → TagC → Option (List TagC)
  | [], lc => some [lc]
  | e :: es, lc =>
    if e.sq = lc.sq ∧ e.name = lc.name then
      let a := e.acc &&& lc.acc
      if a = 0 then none else some ({ e with acc := a } :: es)
    else (tagMerge es lc).map (e :: ·)

def tagFold : List TagC → List TagC → Option (List TagC)
  | m, [] => some m
  | m, lc :: rest =>
    if lc.acc = 0 then none else
    match tagMerge m lc with
    | none => none
    | some m' => tagFold m' rest

def tagLt (a b : TagC) : Bool :=
  if a.sq ≠ b.sq then a.sq < b.sq else a.name < b.name

/-- `none` = impossible -/
def cleanTag (lcs : List TagC) : Option (List TagC) :=
  (tagFold [] lcs).map (isort tagLt)

/-! ### flags (cleanFlagConditions) -/

/-- `sort.Strings` followed by the removal of adjacent equal pairs.  The Go loop
    (`i -= 2` after a removal) panics with index -1 when a pair is removed in front of a
    remaining element; the parser only produces lists of ≤ 2 distinct names, where it is the
    identity after sorting.  Model: cancel pairs left to right. -/
def cancelPairs : List String → List String
  | a :: b :: rest => if a = b then cancelPairs rest else a :: cancelPairs (b :: rest)
  | l => l

/-- site predicate: the Go loop would index `SubQueries[-1]` -/
def flagDedupPanics (sqs : List String) : Bool :=
  let s := isort (fun a b => decide (a < b)) sqs
  s.length ≥ 3 ∧ cancelPairs s ≠ s ∧ cancelPairs s ≠ []

/-- all sub-masks of the bits `bs` (given most significant first), in descending order -/
def subMasksOfBits : List Nat → List Nat
  | [] => [0]
  | b :: bs => (subMasksOfBits bs).map (· + 2 ^ b) ++ subMasksOfBits bs

def bitsDesc (mask : Nat) : List Nat :=
  ((List.range 16).reverse).filter (fun b => mask.testBit b)

/-- `for v := mask; ; v = (v-1) & mask { …; if v == 0 { break } }` -/
def subMasksDesc (mask : Nat) : List Nat := subMasksOfBits (bitsDesc mask)

structure FlagInfo where
  sqs : List String
  conds : List FlagC      -- the conditions whose forbidden bitmaps were or-ed into this info
  deriving Repr

def FlagInfo.forbidden (i : FlagInfo) (v : Nat) : Bool :=
  i.conds.any (fun fc => v &&& fc.mask = fc.value)

def flagInfoAdd : List FlagInfo → List String → FlagC → List FlagInfo
  | [], sqs, fc => [{ sqs := sqs, conds := [fc] }]
  | i :: is, sqs, fc =>
    if i.sqs = sqs then { i with conds := i.conds ++ [fc] } :: is
    else i :: flagInfoAdd is sqs fc

/-- first loop of cleanFlagConditions; `none` = impossible -/
def flagCollect : List FlagInfo → List FlagC → Option (List FlagInfo)
  | infos, [] => some infos
  | infos, fc :: rest =>
    let sqs := cancelPairs (isort (fun a b => decide (a < b)) fc.sqs)
    if sqs = [] then
      if fc.value &&& fc.mask = 0 then none else flagCollect infos rest
    else flagCollect (flagInfoAdd infos sqs fc) rest

def FlagInfo.union (i : FlagInfo) : Nat :=
  i.conds.foldl (fun u fc => u ||| (fc.mask % 65536)) 0

/-- bit `b` is relevant when flipping it changes the forbidden bitmap somewhere -/
def FlagInfo.relevant (i : FlagInfo) (b : Nat) : Bool :=
  (subMasksDesc i.union).any (fun v => i.forbidden v != i.forbidden (v ^^^ 2 ^ b))

def FlagInfo.mask (i : FlagInfo) : Nat :=
  ((List.range 16).filter (fun b => i.union.testBit b && i.relevant b)).foldl (fun m b => m ||| 2 ^ b) 0

def flagLt (a b : FlagC) : Bool :=
  if a.sqs.length ≠ b.sqs.length then a.sqs.length < b.sqs.length else
  match lexCmp cmpString a.sqs b.sqs with
  | .lt => true
  | .gt => false
  | .eq => if a.mask ≠ b.mask then a.mask < b.mask else a.value < b.value

def flagEmit : List FlagInfo → Option (List FlagC)
  | [] => some []
  | i :: is =>
    let mask := i.mask
    if mask = 0 then
      if i.forbidden 0 then none else flagEmit is
    else
      (flagEmit is).map (fun tl =>
        ((subMasksDesc mask).filter i.forbidden).map (fun v => ({ sqs := i.sqs, value := v, mask := mask } : FlagC)) ++ tl)

def cleanFlag (fcs : List FlagC) : Option (List FlagC) :=
  match flagCollect [] fcs with
  | none => none
  | some infos => (flagEmit infos).map (isort flagLt)

/-! ### hosts (cleanHostConditions) -/

def hcsLess (a b : HostSrc) : Bool :=
  if a.sq ≠ b.sq then a.sq < b.sq
  else if a.server ≠ b.server then !a.server
  else false

def cmpHostSrc (a b : HostSrc) : Ordering :=
  if hcsLess a b then .lt else if hcsLess b a then .gt else .eq

/-- `for j := 1; j < len(s); j++ { if s[j-1] == s[j] { s = append(s[:j-1], s[j+1:]...) } }` -/
def hostSrcLoop : Nat → Nat → List HostSrc → List HostSrc
  | 0, _, s => s
  | fuel + 1, j, s =>
    if j < s.length then
      if s[j - 1]! = s[j]! then hostSrcLoop fuel (j + 1) (s.take (j - 1) ++ s.drop (j + 1))
      else hostSrcLoop fuel (j + 1) s
    else s

def andBytes : List Nat → List Nat → List Nat
  | a :: as, m :: ms => (a &&& m) :: andBytes as ms
  | _, _ => []

/-- per-condition part: sorted/cancelled sources, masked host -/
def hostNorm (h : HostC) : HostC :=
  let srcs := isort hcsLess h.srcs
  let srcs := hostSrcLoop srcs.length 1 srcs
  let host := if h.host.length = 4 then andBytes h.host h.m4
              else if h.host.length = 16 then andBytes h.host h.m6 else h.host
  { h with srcs := srcs, host := host }

/-- the `zeroHost` flag (only computed for 4/16 byte hosts, true otherwise) -/
def hostZero (h : HostC) : Bool :=
  if h.host.length = 4 ∨ h.host.length = 16 then h.host.all (· = 0) else true

/-- first loop; `none` = impossible -/
def hostFirst : List HostC → Option (List HostC)
  | [] => some []
  | h :: rest =>
    let h' := hostNorm h
    if h'.srcs ≠ [] then (hostFirst rest).map (h' :: ·)
    else if hostZero h' = h'.inv then none
    else hostFirst rest

def cmpBytes : List Nat → List Nat → Ordering := lexCmp (fun a b => compare a b)

def hostLt (a b : HostC) : Bool :=
  if a.srcs.length ≠ b.srcs.length then a.srcs.length < b.srcs.length else
  match lexCmp cmpHostSrc a.srcs b.srcs with
  | .lt => true
  | .gt => false
  | .eq =>
    match cmpBytes a.host b.host with
    | .lt => true
    | .gt => false
    | .eq =>
      match cmpBytes a.m4 b.m4 with
      | .lt => true
      | .gt => false
      | .eq =>
        match cmpBytes a.m6 b.m6 with
        | .lt => true
        | .gt => false
        | .eq => b.inv && !a.inv

def hostSameKey (a b : HostC) : Bool :=
  a.srcs.length = b.srcs.length ∧ lexCmp cmpHostSrc a.srcs b.srcs = .eq ∧
    a.host = b.host ∧ a.m4 = b.m4 ∧ a.m6 = b.m6

/-- adjacent duplicate removal of the sorted list: on equal keys either a contradiction
    (`Invert` differs) or the second is dropped and the first is compared with the next. -/
def hostDedup : HostC → List HostC → Option (List HostC)
  | a, [] => some [a]
  | a, b :: rest =>
    if hostSameKey a b then
      if a.inv ≠ b.inv then none else hostDedup a rest
    else (hostDedup b rest).map (a :: ·)

def cleanHost (hcs : List HostC) : Option (List HostC) :=
  match hostFirst hcs with
  | none => none
  | some l =>
    match isort hostLt l with
    | [] => some []
    | a :: rest => hostDedup a rest

/-! ### numbers (cleanNumberConditions) -/

def numSumLt (a b : NumSummand) : Bool :=
  if a.sq ≠ b.sq then a.sq < b.sq else a.ty < b.ty

/-- the merge loop `for j := 1; j < len; { … }`: `a` is `Summands[j-1]`, the list is `Summands[j:]` -/
def numMerge : NumSummand → List NumSummand → List NumSummand
  | a, [] => [a]
  | a, b :: rest =>
    if a.sq = b.sq ∧ a.ty = b.ty then numMerge { a with factor := a.factor + b.factor } rest
    else if a.factor = 0 then numMerge b rest
    else a :: numMerge b rest

/-- `for cf--; cf > 1; cf-- { if old%cf == 0 && f%cf == 0 { break } }` started with `cf = d + 1` -/
def searchDown (old f : Nat) : Nat → Nat
  | 0 => 0
  | 1 => 1
  | d + 2 => if old % (d + 2) = 0 ∧ f % (d + 2) = 0 then d + 2 else searchDown old f (d + 1)

/-- one step of the common-factor loop for the summand factor `f` (absolute value) -/
def cfStep (cf f : Nat) : Nat :=
  if f % cf = 0 then cf
  else if cf % f = 0 then f
  else searchDown cf f (cf - 1)

/-- `for j := 1; commonFactor != 1 && j < len(nc.Summands); j++` (with the `fix:` increment) -/
def cfLoop : Nat → List NumSummand → Nat
  | cf, [] => cf
  | cf, s :: rest => if cf = 1 then 1 else cfLoop (cfStep cf (iabs s.factor)) rest

/-- site predicate: `f % commonFactor` with `commonFactor == 0` (integer divide by zero) -/
def numDivZeroSite (sum : List NumSummand) : Bool :=
  match sum with
  | [] => false
  | s :: _ => s.factor = 0

/-- per-condition normalisation; `none` = condition without summands (handled by the caller) -/
def numNorm (nc : NumC) : NumC :=
  match isort numSumLt nc.sum with
  | [] => { nc with sum := [] }
  | a :: rest =>
    let sum := numMerge a rest
    match sum with
    | [] => { nc with sum := [] }
    | s0 :: more =>
      -- Go panics here ("integer divide by zero" in `f % commonFactor`) when the first summand has
      -- factor 0 (site predicate `numDivZeroSite`); the model keeps the merged condition, which has
      -- the same meaning, and `clean_total` (Props/C14) shows the site is unreachable from the parser.
      if s0.factor = 0 then { sum := sum, n := nc.n } else
      let cf := cfLoop (iabs s0.factor) more
      if cf = 1 then { sum := sum, n := nc.n }
      else
        let f := iabs nc.n
        let cf := if f % cf ≠ 0 then searchDown cf f (cf - 1) else cf
        { sum := sum.map (fun s => { s with factor := s.factor.tdiv cf }), n := nc.n.tdiv cf }

/-- first loop; `none` = impossible -/
def numFirst : List NumC → Option (List NumC)
  | [] => some []
  | nc :: rest =>
    let nc' := numNorm nc
    if nc'.sum = [] then
      if nc'.n < 0 then none else numFirst rest
    else (numFirst rest).map (nc' :: ·)

def cmpNumSummand (a b : NumSummand) : Ordering :=
  if a.sq ≠ b.sq then cmpString a.sq b.sq
  else if a.ty ≠ b.ty then compare a.ty b.ty
  else compare a.factor b.factor

def numLt (a b : NumC) : Bool :=
  if a.sum.length ≠ b.sum.length then a.sum.length < b.sum.length else
  match lexCmp cmpNumSummand a.sum b.sum with
  | .lt => true
  | .gt => false
  | .eq => a.n < b.n

/-- drop the later of two neighbours with identical summands -/
def numDedup : NumC → List NumC → List NumC
  | a, [] => [a]
  | a, b :: rest =>
    if a.sum = b.sum then numDedup a rest else a :: numDedup b rest

def numAllPositive (nc : NumC) : Bool := nc.n ≥ 0 ∧ nc.sum.all (fun s => ¬ s.factor < 0)
def numAllNegative (nc : NumC) : Bool := nc.n < 0 ∧ nc.sum.all (fun s => ¬ s.factor > 0)

def numSigns : List NumC → Option (List NumC)
  | [] => some []
  | nc :: rest =>
    if numAllPositive nc then numSigns rest
    else if numAllNegative nc then none
    else (numSigns rest).map (nc :: ·)

def cleanNumber (ncs : List NumC) : Option (List NumC) :=
  match numFirst ncs with
  | none => none
  | some l =>
    match isort numLt l with
    | [] => some []
    | a :: rest => numSigns (numDedup a rest)

/-! ### times (cleanTimeConditions) -/

def timeSumLt (a b : TimeSummand) : Bool :=
  if a.sq ≠ b.sq then a.sq < b.sq
  else if a.f ≠ b.f then a.f < b.f
  else a.l < b.l

def timeMerge : TimeSummand → List TimeSummand → List TimeSummand
  | a, [] => [a]
  | a, b :: rest =>
    if a.sq = b.sq then timeMerge { a with f := a.f + b.f, l := a.l + b.l } rest
    else if a.f = 0 ∧ a.l = 0 then timeMerge b rest
    else a :: timeMerge b rest

def dropLastZero (l : List TimeSummand) : List TimeSummand :=
  match l.getLast? with
  | some s => if s.f = 0 ∧ s.l = 0 then l.dropLast else l
  | none => l

def timeNorm (tc : TimeC) : TimeC :=
  match isort timeSumLt tc.sum with
  | [] => { tc with sum := [] }
  | a :: rest => { tc with sum := dropLastZero (timeMerge a rest) }

/-- first loop; `none` = impossible -/
def timeFirst : List TimeC → Option (List TimeC)
  | [] => some []
  | tc :: rest =>
    let tc' := timeNorm tc
    match tc'.sum with
    | [] => if tc'.dur < 0 then none else timeFirst rest
    | [s] =>
      if s.f + s.l ≠ 0 then (timeFirst rest).map (tc' :: ·)
      else if s.f > 0 then
        if tc'.dur < 0 then none else (timeFirst rest).map (tc' :: ·)
      else
        if tc'.dur ≥ 0 then timeFirst rest else (timeFirst rest).map (tc' :: ·)
    | _ => (timeFirst rest).map (tc' :: ·)

def cmpTimeSummand (a b : TimeSummand) : Ordering :=
  if a.sq ≠ b.sq then cmpString a.sq b.sq
  else if a.f ≠ b.f then compare a.f b.f
  else compare a.l b.l

def timeLt (a b : TimeC) : Bool :=
  if a.sum.length ≠ b.sum.length then a.sum.length < b.sum.length else
  match lexCmp cmpTimeSummand a.sum b.sum with
  | .lt => true
  | .gt => false
  | .eq => if a.rtf ≠ b.rtf then a.rtf < b.rtf else a.dur < b.dur

def timeDedup : TimeC → List TimeC → List TimeC
  | a, [] => [a]
  | a, b :: rest =>
    if a.sum = b.sum ∧ a.rtf = b.rtf then timeDedup a rest else a :: timeDedup b rest

def cleanTime (tcs : List TimeC) : Option (List TimeC) :=
  match timeFirst tcs with
  | none => none
  | some l =>
    match isort timeLt l with
    | [] => some []
    | a :: rest => some (timeDedup a rest)

/-! ### data chains (cleanDataConditions) -/

def cmpDataVar (a b : DataVar) : Ordering :=
  if a.pos ≠ b.pos then compare a.pos b.pos
  else if a.sq ≠ b.sq then cmpString a.sq b.sq
  else cmpString a.name b.name

/-- comparison of the variable lists: common prefix element-wise, then by length -/
def cmpDataEl (a b : DataEl) : Ordering :=
  if a.sq ≠ b.sq then cmpString a.sq b.sq
  else if a.flags ≠ b.flags then compare a.flags b.flags
  else if a.regex ≠ b.regex then cmpString a.regex b.regex
  else if a.conv ≠ b.conv then cmpString a.conv b.conv
  else lexCmp cmpDataVar a.vars b.vars

def dataLt (a b : DataC) : Bool :=
  match lexCmp cmpDataEl a.els b.els with
  | .lt => true
  | _ => false

/-- `a.els` and `b.els` agree on their common length -/
def dataCompat : List DataEl → List DataEl → Bool
  | a :: as, b :: bs => cmpDataEl a b = .eq && dataCompat as bs
  | _, _ => true

/-- adjacent pass over the sorted list: when the earlier chain `a` agrees with `b` on their common
    length, `a` is dropped (it is implied by `b`) unless they contradict each other: same length
    with different `Inverted`, or (fix F3) `a` is a negated proper prefix of `b`. -/
def dataDedup : DataC → List DataC → Option (List DataC)
  | a, [] => some [a]
  | a, b :: rest =>
    if dataCompat a.els b.els then
      if a.els.length = b.els.length ∧ a.inv ≠ b.inv then none
      else if a.inv ∧ a.els.length < b.els.length then none
      else dataDedup b rest
    else (dataDedup b rest).map (a :: ·)

def cleanData (dcs : List DataC) : Option (List DataC) :=
  match isort dataLt dcs with
  | [] => some []
  | a :: rest => dataDedup a rest

/-! ### Conditions.clean / Conditions.and / ConditionsSet.Clean -/

def Cond.tag? : Cond → Option TagC | .tag c => some c | _ => none
def Cond.flag? : Cond → Option FlagC | .flag c => some c | _ => none
def Cond.host? : Cond → Option HostC | .host c => some c | _ => none
def Cond.time? : Cond → Option TimeC | .time c => some c | _ => none
def Cond.num? : Cond → Option NumC | .num c => some c | _ => none
def Cond.data? : Cond → Option DataC | .data c => some c | _ => none

def impossibleConj : Conj := [Cond.impossible]

def Conj.clean (c : Conj) : Conj :=
  if c.any (· = Cond.impossible) then impossibleConj else
  match cleanTag (c.filterMap Cond.tag?), cleanFlag (c.filterMap Cond.flag?),
        cleanHost (c.filterMap Cond.host?), cleanNumber (c.filterMap Cond.num?),
        cleanTime (c.filterMap Cond.time?), cleanData (c.filterMap Cond.data?) with
  | some lcs, some fcs, some hcs, some ncs, some tcs, some dcs =>
    lcs.map Cond.tag ++ fcs.map Cond.flag ++ hcs.map Cond.host ++ ncs.map Cond.num ++
      tcs.map Cond.time ++ dcs.map Cond.data
  | _, _, _, _, _, _ => impossibleConj

def Conj.isImpossible (c : Conj) : Bool := c = impossibleConj

def CSet.isImpossible (c : CSet) : Bool :=
  match c with
  | [x] => Conj.isImpossible x
  | _ => false

def Conj.and (a b : Conj) : Conj := Conj.clean (a ++ b)

/-! simple-ID fast path -/

def maxUint : Nat := 2 ^ 64 - 1

/-- `extractSimpleIDFilter` on the conditions of a conjunct: (min, max) accumulators -/
def extractLoop : List Cond → Nat → Nat → Option (Nat × Nat)
  | [], mn, mx => some (mn, mx)
  | .num nc :: rest, mn, mx =>
    match nc.sum with
    | [s] =>
      if s.ty ≠ NumType.id ∨ s.sq ≠ "" then none
      else if s.factor = 1 then
        let mn' := if nc.n ≤ 0 ∧ mn < (-nc.n).toNat then (-nc.n).toNat else mn
        extractLoop rest mn' mx
      else if s.factor = -1 then
        if nc.n < 0 then none
        else extractLoop rest mn (if mx > nc.n.toNat then nc.n.toNat else mx)
      else none
    | _ => none
  | _ :: _, _, _ => none

def Conj.extractSimpleID (c : Conj) : Option (Nat × Nat) :=
  if c = [] then none else extractLoop c 0 maxUint

/-- ids of the conjuncts when every conjunct is `id:n` -/
def simpleIDs : CSet → Option (List Nat)
  | [] => some []
  | cc :: rest =>
    match Conj.extractSimpleID (Conj.clean cc) with
    | some (mn, mx) => if mn ≠ mx then none else (simpleIDs rest).map (mn :: ·)
    | none => none

/-- sorted distinct ids → maximal runs of consecutive ids -/
def idRuns : Nat → Nat → List Nat → List (Nat × Nat)
  | lo, hi, [] => [(lo, hi)]
  | lo, hi, x :: rest => if x = hi + 1 then idRuns lo (x) rest else (lo, hi) :: idRuns x x rest

def dedupSorted : List Nat → List Nat
  | a :: b :: rest => if a = b then dedupSorted (b :: rest) else a :: dedupSorted (b :: rest)
  | l => l

def idRangeConj (lo hi : Nat) : Conj :=
  [ .num { sum := [{ sq := "", factor := 1, ty := NumType.id }], n := -(lo : Int) },
    .num { sum := [{ sq := "", factor := -1, ty := NumType.id }], n := (hi : Int) } ]

def CSet.cleanSimpleID (c : CSet) : Option CSet :=
  if c = [] then none else
  match simpleIDs c with
  | none => none
  | some ids =>
    match dedupSorted (isort (fun a b => decide (a < b)) ids) with
    | [] => some []
    | x :: rest => some ((idRuns x x rest).map (fun r => idRangeConj r.1 r.2))

/-- position of the absorption decision for a new conjunct `cc` against the kept list -/
def absorb (cc : Conj) : List Conj → Option (List Conj)
  | [] => none                                   -- not absorbed: caller appends
  | cc2 :: rest =>
    if cc2 = cc then some (cc2 :: rest)
    else
      let anded := Conj.clean (Conj.and cc cc2)
      if anded = cc then some (cc2 :: rest)      -- cc implies cc2: drop cc
      else if anded = cc2 then some (cc :: rest) -- cc2 implies cc: replace
      else (absorb cc rest).map (cc2 :: ·)

def cleanLoop : List Conj → List Conj → List Conj
  | new, [] => new
  | new, cc :: rest =>
    let cc := Conj.clean cc
    if Conj.isImpossible cc then cleanLoop new rest
    else match absorb cc new with
      | some new' => cleanLoop new' rest
      | none => cleanLoop (new ++ [cc]) rest

def CSet.Clean (c : CSet) : CSet :=
  match CSet.cleanSimpleID c with
  | some r => r
  | none =>
    let new := cleanLoop [] c
    if new = [] ∧ c ≠ [] then [impossibleConj] else new

end Pk.Query
