/-
  Query model, part 3: NOT / AND / OR / THEN on condition sets
  (internal/query/conditions.go:438-533, 895-996).

  Go slices are modelled as `GSet = Option CSet` where the nil slice is `none`: the translation
  layer distinguishes "no condition" (nil) from a condition set.  `append(append(nil, a...), b...)`
  is nil exactly when both operands are empty.

  The model follows the tree with the `fix:` commit for F4 applied:
    * `ImpossibleCondition.invert()` is the true set `{{}}`,
    * the negation of the empty conjunct (true) is `{{impossible}}`.
-/
import Pk.Model.Query.Clean

namespace Pk.Query

/-! ### invert of single conditions -/

def allAcc : Nat := accFailing ||| accMatching ||| accUncertainFailing ||| accUncertainMatching

/-- `for v := Value & Mask; ; { v--; v &= Mask; if v == Value&Mask {return}; append }`:
    the sub-masks of `mask` in cyclically descending order starting below `value & mask`. -/
def flagInvertValues (value mask : Nat) : List Nat :=
  let v0 := value &&& mask
  let subs := subMasksDesc mask
  subs.filter (· < v0) ++ subs.filter (· > v0)

/-- literal transliteration of the loop above on uint16 with fuel (used for `flagMask_terminates`);
    `none` = fuel exhausted -/
def flagInvertLoop (value mask : Nat) : Nat → Nat → List Nat → Option (List Nat)
  | 0, _, _ => none
  | fuel + 1, v, acc =>
    let v1 := ((v + 65535) % 65536) &&& mask
    if v1 = value &&& mask then some acc else flagInvertLoop value mask fuel v1 (acc ++ [v1])

def Cond.invert : Cond → CSet
  | .tag c => [[.tag { c with acc := c.acc ^^^ allAcc }]]
  | .flag c => [(flagInvertValues c.value c.mask).map (fun v => Cond.flag { c with value := v })]
  | .host c => [[.host { c with inv := !c.inv }]]
  | .time c => [[.time { sum := c.sum.map (fun s => { s with f := -s.f, l := -s.l }),
                         dur := -c.dur - 1, rtf := -c.rtf }]]
  | .num c => [[.num { sum := c.sum.map (fun s => { s with factor := -s.factor }), n := -c.n - 1 }]]
  | .data c =>
    (List.range c.els.length).map (fun i =>
      [Cond.data { els := c.els.take (i + 1), inv := if i + 1 = c.els.length then !c.inv else true }])
  | .impossible => [[]]

/-! ### set level -/

def GSet.Or (a b : GSet) : GSet :=
  let l := a.items ++ b.items
  if l = [] then none else some l

/-- `res := ConditionsSet{}; for c1, c2: res = res.Or({c1.and(c2)})` -/
def CSet.andPairs (a b : CSet) : CSet :=
  a.flatMap (fun c1 => b.map (fun c2 => Conj.and c1 c2))

def GSet.And (a b : GSet) : GSet :=
  if a.items = [] then b
  else if b.items = [] then a
  else some (CSet.andPairs a.items b.items)

/-- `Conditions.invert`: !(a & b & c) = !a | !b | !c; the empty conjunct (true) inverts to false -/
def Conj.invert (c : Conj) : GSet :=
  if c = [] then some [impossibleConj]
  else c.foldl (fun res x => GSet.Or res (some (Cond.invert x))) none

/-- `ConditionsSet.invert`: !(a | b | c) = !a & !b & !c -/
def CSet.invert (c : CSet) : GSet :=
  c.foldl (fun conds cc => GSet.And conds (Conj.invert cc)) (some [])

/-! ### THEN -/

/-- `Conditions.then` -/
def Conj.seq (a b : Conj) : Conj :=
  let res := a.filter (fun c => (Cond.data? c).isNone) ++ b.filter (fun c => (Cond.data? c).isNone)
  let adcs := a.filterMap Cond.data?
  let bdcs := b.filterMap Cond.data?
  if adcs = [] ∨ bdcs = [] then res ++ adcs.map Cond.data ++ bdcs.map Cond.data
  else
    res ++ adcs.flatMap (fun adc =>
      let l := if adc.inv then adc.els.length - 1 else adc.els.length
      (if adc.inv then [Cond.data adc] else []) ++
        bdcs.map (fun bdc => Cond.data { els := adc.els.take l ++ bdc.els, inv := bdc.inv }))

def GSet.seq (a b : GSet) : GSet :=
  if a.items = [] then b
  else if b.items = [] then a
  else
    let l := a.items.flatMap (fun c1 => b.items.map (fun c2 => Conj.seq c1 c2))
    if l = [] then none else some l

end Pk.Query
