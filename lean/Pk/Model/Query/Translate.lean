/-
  Query model, part 4: term translation and the recursive `QueryConditions` of the grammar AST
  (internal/query/conditions.go:535-893, 1778-1860) and the tail of `query.Parse`
  (internal/query/parser.go:268-290).

  The reference time (`time.Now()` in `Parse`) is a parameter `ref` (ns since the Unix epoch);
  `pc.timezone` is assumed to be UTC (the check runs the harness with TZ=UTC).
-/
import Pk.Model.Query.Algebra

namespace Pk.Query

/-! ### helpers -/

def countMinus (ops : String) : Nat := (ops.toList.filter (· = '-')).length

/-- `1 - 2*(strings.Count(ops, "-") % 2)` -/
def opsFactor (ops : String) : Int := 1 - 2 * ((countMinus ops % 2 : Nat) : Int)

/-- `*s = l[len-1]; l = l[:len-1]` -/
def swapRemove {α : Type} (l : List α) (i : Nat) : List α :=
  match l.getLast? with
  | none => l
  | some x => (l.set i x).dropLast

/-- the "subtract the filter's own variable" loops (conditions.go:702-720 and 801-826):
    ```
    for i, sc := 0, len(l); i <= sc; i++ {
      if i == len(l) { l = append(l, fresh) }
      s := &l[i]
      if isOwn(s) { dec(s); sc-- }
      if isZero(s) { *s = l[len(l)-1]; l = l[:len(l)-1]; i--; sc-- }
    }
    ```
    `none` = fuel exhausted (never happens with fuel 2·len+3, see `ownLoop_terminates`). -/
def ownLoop {σ : Type} (isOwn : σ → Bool) (dec : σ → σ) (isZero : σ → Bool) (fresh : σ) :
    Nat → Nat → Int → List σ → Option (List σ)
  | 0, _, _, _ => none
  | fuel + 1, i, sc, l =>
    if (i : Int) > sc then some l else
    let l := if i = l.length then l ++ [fresh] else l
    match l[i]? with
    | none => some l          -- index out of range: unreachable (i ≤ len after the append)
    | some s =>
      let own := isOwn s
      let s := if own then dec s else s
      let sc := if own then sc - 1 else sc
      let l := l.set i s
      if isZero s then ownLoop isOwn dec isZero fresh fuel i (sc - 1) (swapRemove l i)
      else ownLoop isOwn dec isZero fresh fuel (i + 1) sc l

def runOwnLoop {σ : Type} (isOwn : σ → Bool) (dec : σ → σ) (isZero : σ → Bool) (fresh : σ)
    (l : List σ) : Outcome (List σ) :=
  match ownLoop isOwn dec isZero fresh (2 * l.length + 3) 0 l.length l with
  | some r => .ok r
  | none => .diverged "own-variable loop"

/-! ### tag / service / mark / generated -/

def trTags (t : Term) (names : List String) : CSet :=
  names.map (fun v => [Cond.tag { sq := t.sq, name := t.key ++ "/" ++ v.trimAscii.copy,
                                   acc := accMatching ||| accUncertainMatching }])

/-! ### protocol -/

def protoValue (tok : String) : Option Nat :=
  match tok.toLower with
  | "tcp" => some 1
  | "udp" => some 2
  | "sctp" => some 3
  | "other" => some 0
  | _ => none

def trProtos (t : Term) : List ProtoEntry → Outcome CSet
  | [] => .ok []
  | .var v :: rest =>
    if v.name ≠ "protocol" then .err "protocol filter can only contain protocol variables" else
    match trProtos t rest with
    | .ok tl =>
      if v.sub ≠ t.sq then
        .ok (Cond.invert (.flag { sqs := [t.sq, v.sub], value := 0, mask := 3 }) ++ tl)
      else .ok ([] :: tl)       -- a stream's protocol equals itself: always-true alternative (fix F52)
    | o => o
  | .token tok :: rest =>
    match protoValue tok with
    | none => .err "unknown protocol"
    | some f =>
      match trProtos t rest with
      | .ok tl => .ok (Cond.invert (.flag { sqs := [t.sq], value := f, mask := 3 }) ++ tl)
      | o => o

/-! ### hosts -/

def toggleRange (bits : List Bool) (lo hi : Nat) : List Bool :=
  bits.zipIdx.map (fun (b, i) => if lo ≤ i ∧ i < hi then !b else b)

def packByte (bs : List Bool) : Nat := bs.foldl (fun acc b => 2 * acc + (if b then 1 else 0)) 0

def packBytes : Nat → List Bool → List Nat
  | 0, _ => []
  | n + 1, bs => packByte (bs.take 8) :: packBytes n (bs.drop 8)

/-- maskParser.Capture: returns (V4 bits, V6 bits) or an error -/
def maskFold : List Int → List Bool → List Bool → Outcome (List Bool × List Bool)
  | [], v4, v6 => .ok (v4, v6)
  | n :: rest, v4, v6 =>
    if n > 32767 ∨ n < -32768 then .err "mask out of range"
    else if n > 0 then
      if n > 128 then .err "bad host mask"
      else maskFold rest (toggleRange v4 0 (min n.toNat 32)) (toggleRange v6 0 n.toNat)
    else if n < 0 then
      if n < -128 then .err "bad host mask"
      else
        let v6' := toggleRange v6 (n + 128).toNat 128
        let v4' := if n ≥ -32 then toggleRange v4 (n + 32).toNat 32 else v4
        maskFold rest v4' v6'
    else maskFold rest v4 v6

def hostMasks : Option (List Int) → Outcome (List Nat × List Nat)
  | none => .ok (List.replicate 4 255, List.replicate 16 255)
  | some ms =>
    match maskFold ms (List.replicate 32 false) (List.replicate 128 false) with
    | .ok (v4, v6) => .ok (packBytes 4 v4, packBytes 16 v6)
    | .err m => .err m
    | .panic s => .panic s
    | .diverged s => .diverged s

/-- hostParser.Capture: net.ParseIP + To4 -/
def normHost (h : List Nat) : List Nat :=
  if h.length = 16 ∧ (h.take 10).all (· = 0) ∧ h[10]! = 255 ∧ h[11]! = 255 then h.drop 12 else h

/-- all masks are parsed (and may fail) before translation starts: participle runs `Capture`
    while building the AST -/
def checkHostEntries : List HostEntry → Outcome Unit
  | [] => .ok ()
  | e :: rest =>
    match hostMasks e.masks with
    | .ok _ => checkHostEntries rest
    | .err m => .err m
    | .panic s => .panic s
    | .diverged s => .diverged s

def trHostEntry (t : Term) (server : Bool) (e : HostEntry) : Outcome Conj :=
  match hostMasks e.masks with
  | .ok (m4, m6) =>
    match e.var with
    | none =>
      .ok [Cond.host { srcs := [{ sq := t.sq, server := server }], host := normHost e.host,
                       m4 := m4, m6 := m6, inv := false }]
    | some v =>
      if v.name = "chost" then
        .ok [Cond.host { srcs := [{ sq := t.sq, server := server }, { sq := v.sub, server := false }],
                         host := [], m4 := m4, m6 := m6, inv := false }]
      else if v.name = "shost" then
        .ok [Cond.host { srcs := [{ sq := t.sq, server := server }, { sq := v.sub, server := true }],
                         host := [], m4 := m4, m6 := m6, inv := false }]
      else .err "unsupported variable type in host filter"
  | .err m => .err m
  | .panic s => .panic s
  | .diverged s => .diverged s

def mapOutcome {α β : Type} (f : α → Outcome β) : List α → Outcome (List β)
  | [] => .ok []
  | x :: xs =>
    match f x with
    | .ok y =>
      match mapOutcome f xs with
      | .ok ys => .ok (y :: ys)
      | .err m => .err m
      | .panic s => .panic s
      | .diverged s => .diverged s
    | .err m => .err m
    | .panic s => .panic s
    | .diverged s => .diverged s

def hostTypes (key : String) : List Bool :=
  if key = "chost" then [false] else if key = "shost" then [true] else [false, true]

def trHosts (t : Term) (l : List HostEntry) : Outcome CSet :=
  match checkHostEntries l with
  | .ok _ =>
    match mapOutcome (fun server => mapOutcome (trHostEntry t server) l) (hostTypes t.key) with
    | .ok ll => .ok ll.flatten
    | .err m => .err m
    | .panic s => .panic s
    | .diverged s => .diverged s
  | .err m => .err m
  | .panic s => .panic s
  | .diverged s => .diverged s

/-! ### numbers -/

def numVarType (name : String) : Option NumType :=
  if name = "id" then some NumType.id
  else if name = "cport" then some NumType.cport
  else if name = "sport" then some NumType.sport
  else if name = "cbytes" then some NumType.cbytes
  else if name = "sbytes" then some NumType.sbytes
  else none

/-- add `factor` to the summand (sub, ty), appending a fresh one when absent (conditions.go:660-673) -/
def numAddVar : List NumSummand → String → NumType → Int → List NumSummand
  | [], sub, ty, f => [{ sq := sub, factor := f, ty := ty }]
  | s :: rest, sub, ty, f =>
    if s.sq ≠ sub ∨ s.ty ≠ ty then s :: numAddVar rest sub ty f
    else { s with factor := s.factor + f } :: rest

def numParts : List NumPart → NumC → Outcome NumC
  | [], nc => .ok nc
  | .num ops n :: rest, nc => numParts rest { nc with n := nc.n + opsFactor ops * (n : Int) }
  | .var ops v :: rest, nc =>
    match numVarType v.name with
    | none => .err "only id, [cs]port, [cs]bytes variables supported"
    | some ty => numParts rest { nc with sum := numAddVar nc.sum v.sub ty (opsFactor ops) }

def numKeyTypes (key : String) : List NumType :=
  if key = "id" then [NumType.id]
  else if key = "cport" then [NumType.cport]
  else if key = "sport" then [NumType.sport]
  else if key = "port" then [NumType.cport, NumType.sport]
  else if key = "cbytes" then [NumType.cbytes]
  else if key = "sbytes" then [NumType.sbytes]
  else [NumType.cbytes, NumType.sbytes]

def numOwn (t : Term) (ty : NumType) (nc : NumC) : Outcome NumC :=
  match runOwnLoop (fun (s : NumSummand) => decide (s.sq = t.sq ∧ s.ty = ty))
      (fun s => { s with factor := s.factor - 1 }) (fun s => decide (s.factor = 0))
      { sq := t.sq, factor := 0, ty := ty } nc.sum with
  | .ok sum => .ok { nc with sum := sum }
  | .err m => .err m
  | .panic s => .panic s
  | .diverged s => .diverged s

def NumC.neg (nc : NumC) : NumC :=
  { sum := nc.sum.map (fun s => { s with factor := s.factor * -1 }), n := nc.n * -1 }

/-- the two bounds (lower, upper) of one list entry and their `empty` flags -/
def numBounds (ranges : List (List NumPart)) : Outcome (NumC × NumC × Bool × Bool) :=
  match ranges with
  | [] => .ok ({ sum := [], n := 0 }, { sum := [], n := 0 }, false, false)
  | [r] =>
    match numParts r { sum := [], n := 0 } with
    | .ok nc => .ok (nc, nc, r.isEmpty, r.isEmpty)
    | .err m => .err m
    | .panic s => .panic s
    | .diverged s => .diverged s
  | [r0, r1] =>
    match numParts r0 { sum := [], n := 0 } with
    | .ok nc0 =>
      match numParts r1 { sum := [], n := 0 } with
      | .ok nc1 => .ok (nc0, nc1, r0.isEmpty, r1.isEmpty)
      | .err m => .err m
      | .panic s => .panic s
      | .diverged s => .diverged s
    | .err m => .err m
    | .panic s => .panic s
    | .diverged s => .diverged s
  | _ => .panic "ncs[ir] index out of range"

def numEntryFor (t : Term) (b : NumC × NumC × Bool × Bool) (ty : NumType) : Outcome Conj :=
  match numOwn t ty b.1 with
  | .ok lo =>
    match numOwn t ty b.2.1 with
    | .ok hi =>
      .ok ((if b.2.2.1 then [] else [Cond.num lo.neg]) ++ (if b.2.2.2 then [] else [Cond.num hi]))
    | .err m => .err m
    | .panic s => .panic s
    | .diverged s => .diverged s
  | .err m => .err m
  | .panic s => .panic s
  | .diverged s => .diverged s

def trNumEntry (t : Term) (ranges : List (List NumPart)) : Outcome CSet :=
  match numBounds ranges with
  | .ok b => mapOutcome (numEntryFor t b) (numKeyTypes t.key)
  | .err m => .err m
  | .panic s => .panic s
  | .diverged s => .diverged s

def trNums (t : Term) (l : List (List (List NumPart))) : Outcome CSet :=
  match mapOutcome (trNumEntry t) l with
  | .ok ll => .ok ll.flatten
  | .err m => .err m
  | .panic s => .panic s
  | .diverged s => .diverged s

/-! ### times -/

/-- days since 1970-01-01 of a proleptic Gregorian civil date -/
def daysFromCivil (y m d : Nat) : Int :=
  let y' : Int := if m ≤ 2 then (y : Int) - 1 else y
  let era : Int := (if y' ≥ 0 then y' else y' - 399) / 400
  let yoe : Int := y' - era * 400
  let mp : Int := ((m : Int) + 9) % 12
  let doy : Int := (153 * mp + 2) / 5 + (d : Int) - 1
  let doe : Int := yoe * 365 + yoe / 4 - yoe / 100 + doy
  era * 146097 + doe - 719468

def civilNs (c : Civil) : Int :=
  (((daysFromCivil c.y c.mo c.d * 24 + c.h) * 60 + c.mi) * 60 + c.s) * 1000000000

def timeAddVar : List TimeSummand → String → String → Int → Outcome (List TimeSummand)
  | [], sub, name, f =>
    if name = "ftime" then .ok [{ sq := sub, f := f, l := 0 }]
    else if name = "ltime" then .ok [{ sq := sub, f := 0, l := f }]
    else .err "only [fl]time variables supported"
  | s :: rest, sub, name, f =>
    if s.sq ≠ sub then
      match timeAddVar rest sub name f with
      | .ok r => .ok (s :: r)
      | o => o
    else if name = "ftime" then .ok ({ s with f := s.f + f } :: rest)
    else if name = "ltime" then .ok ({ s with l := s.l + f } :: rest)
    else .err "only [fl]time variables supported"

def timeParts (ref : Int) : List TimePart → TimeC → Outcome TimeC
  | [], tc => .ok tc
  | .dur ops ns :: rest, tc => timeParts ref rest { tc with dur := tc.dur + opsFactor ops * ns }
  | .abs ops c :: rest, tc =>
    timeParts ref rest { tc with dur := tc.dur + opsFactor ops * (civilNs c - ref),
                                 rtf := tc.rtf - opsFactor ops }
  | .var ops v :: rest, tc =>
    match timeAddVar tc.sum v.sub v.name (opsFactor ops) with
    | .ok sum => timeParts ref rest { tc with sum := sum }
    | .err m => .err m
    | .panic s => .panic s
    | .diverged s => .diverged s

/-- bounds of one list entry; with a single range the upper bound copies Duration and Summands of
    the lower bound (and, since the `fix:` for F51, its ReferenceTimeFactor) -/
def timeBounds (ref : Int) (ranges : List (List TimePart)) : Outcome (TimeC × TimeC × Bool × Bool) :=
  let z : TimeC := { sum := [], dur := 0, rtf := 0 }
  match ranges with
  | [] => .ok (z, z, false, false)
  | [r] =>
    match timeParts ref r z with
    | .ok tc => .ok (tc, tc, r.isEmpty, r.isEmpty)
    | .err m => .err m
    | .panic s => .panic s
    | .diverged s => .diverged s
  | [r0, r1] =>
    match timeParts ref r0 z with
    | .ok tc0 =>
      match timeParts ref r1 z with
      | .ok tc1 => .ok (tc0, tc1, r0.isEmpty, r1.isEmpty)
      | .err m => .err m
      | .panic s => .panic s
      | .diverged s => .diverged s
    | .err m => .err m
    | .panic s => .panic s
    | .diverged s => .diverged s
  | _ => .panic "tcs[ir] index out of range"

def timeOwn (t : Term) (tci : Nat) (tc : TimeC) : Outcome TimeC :=
  let dec : TimeSummand → TimeSummand := fun s =>
    if t.key = "ftime" then { s with f := s.f - 1 }
    else if t.key = "ltime" then { s with l := s.l - 1 }
    else { s with f := s.f - (tci : Int), l := s.l - (1 - (tci : Int)) }
  match runOwnLoop (fun (s : TimeSummand) => decide (s.sq = t.sq)) dec
      (fun s => decide (s.f = 0 ∧ s.l = 0)) { sq := t.sq, f := 0, l := 0 } tc.sum with
  | .ok sum => .ok { tc with sum := sum }
  | .err m => .err m
  | .panic s => .panic s
  | .diverged s => .diverged s

def TimeC.neg (tc : TimeC) : TimeC :=
  { sum := tc.sum.map (fun s => { s with f := s.f * -1, l := s.l * -1 }),
    dur := tc.dur * -1, rtf := tc.rtf * -1 }

def trTimeEntry (t : Term) (ref : Int) (ranges : List (List TimePart)) : Outcome Conj :=
  match timeBounds ref ranges with
  | .ok b =>
    match timeOwn t 0 b.1 with
    | .ok lo =>
      match timeOwn t 1 b.2.1 with
      | .ok hi =>
        .ok ((if b.2.2.1 then [] else [Cond.time lo.neg]) ++ (if b.2.2.2 then [] else [Cond.time hi]))
      | .err m => .err m
      | .panic s => .panic s
      | .diverged s => .diverged s
    | .err m => .err m
    | .panic s => .panic s
    | .diverged s => .diverged s
  | .err m => .err m
  | .panic s => .panic s
  | .diverged s => .diverged s

def trTimes (t : Term) (ref : Int) (l : List (List (List TimePart))) : Outcome CSet :=
  mapOutcome (trTimeEntry t ref) l

/-! ### data -/

def dataFlags (key : String) : List Nat :=
  if key = "cdata" then [0] else if key = "sdata" then [1] else [0, 1]

def trData (t : Term) (content : String) (vars : List DataVar) : CSet :=
  (dataFlags t.key).map (fun f =>
    [Cond.data { els := [{ sq := t.sq, regex := content, vars := vars, flags := f, conv := t.conv }],
                 inv := false }])

/-! ### queryTerm.QueryConditions -/

def nilIfEmpty (l : CSet) : GSet := if l = [] then none else some l

def liftSet : Outcome CSet → Outcome GSet
  | .ok l => .ok (nilIfEmpty l)
  | .err m => .err m
  | .panic s => .panic s
  | .diverged s => .diverged s

def trTerm (ref : Int) (t : Term) : Outcome GSet :=
  if t.conv ≠ "" ∧ t.key ≠ "data" ∧ t.key ≠ "cdata" ∧ t.key ≠ "sdata" then
    .err "converter not allowed"
  else
    match t.value with
    | .tags names => .ok (nilIfEmpty (trTags t names))
    | .protos l => liftSet (trProtos t l)
    | .hosts l => liftSet (trHosts t l)
    | .nums l => liftSet (trNums t l)
    | .times l => liftSet (trTimes t ref l)
    | .data content vars => .ok (nilIfEmpty (trData t content vars))
    | .other => .ok none

/-! ### the recursive translation -/

mutual
  def translate (ref : Int) : Expr → Outcome GSet
    | .term t => trTerm ref t
    | .aux => .ok none
    | .not e =>
      match translate ref e with
      | .ok (some cs) => .ok (CSet.invert cs)
      | o => o
    | .grp e => translate ref e
    | .and es => translateList ref GSet.And es none
    | .or es => translateList ref GSet.Or es none
    | .seq es => translateList ref GSet.seq es none
  /-- `conds := nil; for a in list { cond := …; if cond != nil { conds = conds.op(cond) } }` -/
  def translateList (ref : Int) (op : GSet → GSet → GSet) : List Expr → GSet → Outcome GSet
    | [], acc => .ok acc
    | e :: rest, acc =>
      match translate ref e with
      | .ok (some cs) => translateList ref op rest (op acc (some cs))
      | .ok none => translateList ref op rest acc
      | .err m => .err m
      | .panic s => .panic s
      | .diverged s => .diverged s
end

/-! ### tail of query.Parse -/

/-- result of `Parse`: `Query.Conditions` (nil = matches nothing) -/
inductive Parsed where
  | nothing                 -- Conditions == nil
  | set (cs : CSet)
  deriving Repr

def finish : GSet → Parsed
  | none => .set [[]]
  | some cs =>
    let c := CSet.Clean cs
    if CSet.isImpossible c then .nothing
    else if c = [] then .set [[]]
    else .set c

def parse (ref : Int) (e : Expr) : Outcome Parsed :=
  match translate ref e with
  | .ok g => .ok (finish g)
  | .err m => .err m
  | .panic s => .panic s
  | .diverged s => .diverged s

end Pk.Query
