/-
  Query model, part 5: semantics.

  * `Stream` / `Env`: what the engine can observe of a stream (internal/index/search.go:141-742,
    documented meaning of every condition type in conditions.go:60-108), `Env` maps a sub-query
    name to the stream bound to it (`""` = the stream under test);
  * `evalCond / evalConj / evalSet / evalParsed`: meaning of normalised conditions;
  * `evalTerm / evalExpr`: meaning of the *surface* expression, written from the help text
    (web/src/components/Home.vue): AND/OR/NOT are Boolean, a term denotes the disjunction over its
    value list (and over client/server for the `port`/`host`/`bytes`/`data` shorthands), a range is
    a pair of optional bounds.  `evalExpr` does not mention conjuncts, DNF or inversion of
    conditions: it is the independent side of `normalise_sound`.
-/
import Pk.Model.Query.Translate

namespace Pk.Query

structure Stream where
  id : Nat
  cport : Nat
  sport : Nat
  cbytes : Nat
  sbytes : Nat
  chost : List Nat
  shost : List Nat
  flags : Nat
  ftime : Int            -- ns relative to the query's reference time
  ltime : Int
  tagMatch : String → Bool
  tagUncertain : String → Bool
  /-- deterministic payload oracle: leftmost-first match of an element from a position -/
  step : DataEl → Nat → Option Nat

abbrev Env := String → Stream

/-! ### conditions -/

def tagBit (m u : Bool) : Nat :=
  if u then (if m then accUncertainMatching else accUncertainFailing)
  else (if m then accMatching else accFailing)

def evalTag (c : TagC) (ρ : Env) : Bool :=
  (c.acc &&& tagBit ((ρ c.sq).tagMatch c.name) ((ρ c.sq).tagUncertain c.name)) != 0

def xorFlags (ρ : Env) (sqs : List String) : Nat :=
  sqs.foldl (fun x s => x ^^^ (ρ s).flags) 0

def evalFlag (c : FlagC) (ρ : Env) : Bool :=
  ((xorFlags ρ c.sqs ^^^ c.value) &&& c.mask) != 0

def srcHost (ρ : Env) (s : HostSrc) : List Nat :=
  if s.server then (ρ s.sq).shost else (ρ s.sq).chost

def xorBytes : List Nat → List Nat → List Nat
  | a :: as, b :: bs => (a ^^^ b) :: xorBytes as bs
  | _, _ => []

/-- operands of a host comparison: the constant (when present) and the addressed stream hosts -/
def hostOperands (c : HostC) (ρ : Env) : List (List Nat) :=
  (if c.host = [] then [] else [c.host]) ++ c.srcs.map (srcHost ρ)

/-- address families must agree (otherwise `Invert` decides, search.go:343-347, 376-380); then the
    masked xor of all operands is zero (xor `Invert`) -/
def evalHost (c : HostC) (ρ : Env) : Bool :=
  match hostOperands c ρ with
  | [] => !c.inv
  | h0 :: rest =>
    if rest.all (fun h => h.length = h0.length) then
      let x := rest.foldl xorBytes h0
      let m := if h0.length = 16 then c.m6 else c.m4
      ((andBytes x m).all (· = 0)) != c.inv
    else c.inv

def numVar (s : Stream) (ty : NumType) : Int :=
  if ty = NumType.id then s.id
  else if ty = NumType.cbytes then s.cbytes
  else if ty = NumType.sbytes then s.sbytes
  else if ty = NumType.cport then s.cport
  else if ty = NumType.sport then s.sport
  else 0

def numSumVal (ρ : Env) (sum : List NumSummand) : Int :=
  (sum.map (fun s => s.factor * numVar (ρ s.sq) s.ty)).sum

def evalNum (c : NumC) (ρ : Env) : Bool := decide (c.n + numSumVal ρ c.sum ≥ 0)

def timeSumVal (ρ : Env) (sum : List TimeSummand) : Int :=
  (sum.map (fun s => s.f * (ρ s.sq).ftime + s.l * (ρ s.sq).ltime)).sum

def evalTime (c : TimeC) (ρ : Env) : Bool := decide (c.dur + timeSumVal ρ c.sum ≥ 0)

/-- `e1 > e2 > … > en` from position `p`; with `inv` the last element must *fail* after the others
    succeeded -/
def chain (ρ : Env) (inv : Bool) : List DataEl → Nat → Bool
  | [], _ => !inv
  | [e], p => ((ρ e.sq).step e p).isSome != inv
  | e :: es, p =>
    match (ρ e.sq).step e p with
    | none => false
    | some p' => chain ρ inv es p'

def evalData (c : DataC) (ρ : Env) : Bool := chain ρ c.inv c.els 0

def evalCond (c : Cond) (ρ : Env) : Bool :=
  match c with
  | .tag c => evalTag c ρ
  | .flag c => evalFlag c ρ
  | .host c => evalHost c ρ
  | .time c => evalTime c ρ
  | .num c => evalNum c ρ
  | .data c => evalData c ρ
  | .impossible => false

def evalConj (c : Conj) (ρ : Env) : Bool := c.all (fun x => evalCond x ρ)
def evalSet (cs : CSet) (ρ : Env) : Bool := cs.any (fun c => evalConj c ρ)

/-- the set-level value of a translation result: nil ("no condition") is true -/
def evalGSet (g : GSet) (ρ : Env) : Bool :=
  match g with
  | none => true
  | some cs => evalSet cs ρ

def evalParsed (p : Parsed) (ρ : Env) : Bool :=
  match p with
  | .nothing => false
  | .set cs => evalSet cs ρ

/-- environments the engine can produce: first packet not after last packet; both hosts of a
    stream in the same family (4 or 16 bytes) -/
def Env.WF (ρ : Env) : Prop :=
  ∀ sq, (ρ sq).ftime ≤ (ρ sq).ltime ∧ (ρ sq).chost.length = (ρ sq).shost.length ∧
    ((ρ sq).chost.length = 4 ∨ (ρ sq).chost.length = 16)

/-! ### surface expressions -/

def evalTagTerm (t : Term) (names : List String) (ρ : Env) : Bool :=
  names.any (fun v => (ρ t.sq).tagMatch (t.key ++ "/" ++ v.trimAscii.copy))

def evalProto (t : Term) (ρ : Env) : ProtoEntry → Bool
  | .token tok =>
    match protoValue tok with
    | some f => ((ρ t.sq).flags &&& 3) = f
    | none => false
  | .var v => ((ρ t.sq).flags &&& 3) = ((ρ v.sub).flags &&& 3)

def maskedEq (a b m : List Nat) : Bool :=
  a.length = b.length ∧ (andBytes (xorBytes a b) m).all (· = 0)

def evalHostEntry (t : Term) (server : Bool) (ρ : Env) (e : HostEntry) : Bool :=
  match hostMasks e.masks with
  | .ok (m4, m6) =>
    let mine := srcHost ρ { sq := t.sq, server := server }
    let other := match e.var with
      | none => normHost e.host
      | some v => srcHost ρ { sq := v.sub, server := decide (v.name = "shost") }
    maskedEq mine other (if mine.length = 16 then m6 else m4)
  | _ => false

def numPartVal (ρ : Env) : NumPart → Int
  | .num ops n => opsFactor ops * (n : Int)
  | .var ops v =>
    match numVarType v.name with
    | some ty => opsFactor ops * numVar (ρ v.sub) ty
    | none => 0

def numPartsVal (ρ : Env) (ps : List NumPart) : Int := (ps.map (numPartVal ρ)).sum

/-- `lo:hi`, either side may be empty (open); a single value is `v:v` -/
def inRange (x : Int) (lo hi : Option Int) : Bool :=
  (match lo with | some l => decide (l ≤ x) | none => true) &&
  (match hi with | some h => decide (x ≤ h) | none => true)

def optVal {α : Type} (val : List α → Int) (ps : List α) : Option Int :=
  if ps.isEmpty then none else some (val ps)

def evalNumEntry (t : Term) (ρ : Env) (ty : NumType) (ranges : List (List NumPart)) : Bool :=
  match ranges with
  | [r] => inRange (numVar (ρ t.sq) ty) (optVal (numPartsVal ρ) r) (optVal (numPartsVal ρ) r)
  | [r0, r1] => inRange (numVar (ρ t.sq) ty) (optVal (numPartsVal ρ) r0) (optVal (numPartsVal ρ) r1)
  | _ => false

def timePartVal (ref : Int) (ρ : Env) : TimePart → Int
  | .dur ops ns => opsFactor ops * ns
  | .abs ops c => opsFactor ops * (civilNs c - ref)
  | .var ops v =>
    if v.name = "ftime" then opsFactor ops * (ρ v.sub).ftime
    else if v.name = "ltime" then opsFactor ops * (ρ v.sub).ltime
    else 0

def timePartsVal (ref : Int) (ρ : Env) (ps : List TimePart) : Int := (ps.map (timePartVal ref ρ)).sum

/-- `ftime`/`ltime`: that packet time lies in the range; `time`: the stream's life span
    [ftime, ltime] meets the range (last packet not before the lower, first not after the upper bound) -/
def evalTimeEntry (t : Term) (ref : Int) (ρ : Env) (ranges : List (List TimePart)) : Bool :=
  let s := ρ t.sq
  let go := fun (lo hi : Option Int) =>
    if t.key = "ftime" then inRange s.ftime lo hi
    else if t.key = "ltime" then inRange s.ltime lo hi
    else inRange s.ltime lo none && inRange s.ftime none hi
  match ranges with
  | [r] => go (optVal (timePartsVal ref ρ) r) (optVal (timePartsVal ref ρ) r)
  | [r0, r1] => go (optVal (timePartsVal ref ρ) r0) (optVal (timePartsVal ref ρ) r1)
  | _ => false

def evalTerm (ref : Int) (t : Term) (ρ : Env) : Bool :=
  match t.value with
  | .tags names => evalTagTerm t names ρ
  | .protos l => l.any (evalProto t ρ)
  | .hosts l => (hostTypes t.key).any (fun server => l.any (evalHostEntry t server ρ))
  | .nums l => l.any (fun ranges => (numKeyTypes t.key).any (fun ty => evalNumEntry t ρ ty ranges))
  | .times l => l.any (evalTimeEntry t ref ρ)
  | .data content vars =>
    (dataFlags t.key).any (fun f =>
      ((ρ t.sq).step { sq := t.sq, regex := content, vars := vars, flags := f, conv := t.conv } 0).isSome)
  | .other => true

/-- Boolean meaning of a surface expression.  `seq` (THEN) is given its AND meaning here, which is
    its meaning exactly when at most one operand contains payload filters (`ThenTrivial`); the
    sequencing meaning is `evalSeq` in Pk/Props/C03.lean. -/
def evalExpr (ref : Int) (ρ : Env) : Expr → Bool
  | .term t => evalTerm ref t ρ
  | .aux => true
  | .not e => !evalExpr ref ρ e
  | .grp e => evalExpr ref ρ e
  | .and es => evalExprAll ref ρ es
  | .or es => evalExprAny ref ρ es
  | .seq es => evalExprAll ref ρ es
where
  evalExprAll (ref : Int) (ρ : Env) : List Expr → Bool
    | [] => true
    | e :: es => evalExpr ref ρ e && evalExprAll ref ρ es
  evalExprAny (ref : Int) (ρ : Env) : List Expr → Bool
    | [] => false
    | e :: es => evalExpr ref ρ e || evalExprAny ref ρ es

end Pk.Query
