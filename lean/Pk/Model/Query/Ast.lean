/-
  Query model, part 1: data types.

  * condition types of internal/query/conditions.go (TagCondition … ImpossibleCondition,
    Conditions, ConditionsSet) as plain inductive data;
  * the grammar AST of internal/query/parser.go (queryOrCondition / queryAndCondition /
    queryThenCondition / queryCondition / queryTerm) with *already lexed* value structures of
    internal/query/valueparser.go (participle's lexing/PEG layer is not modelled);
  * `Outcome`: the explicit result type of the parser model (ok | err | panic site | diverged site).

  Core Lean only (linked into `pkmodel`).
-/
namespace Pk.Query

/-! ### conditions -/

/-- NumberConditionSummandType: 0 id, 1 cbytes, 2 sbytes, 3 cport, 4 sport (iota order of the Go constants) -/
abbrev NumType := Nat
def NumType.id : NumType := 0
def NumType.cbytes : NumType := 1
def NumType.sbytes : NumType := 2
def NumType.cport : NumType := 3
def NumType.sport : NumType := 4

structure HostSrc where
  sq : String
  server : Bool          -- HostConditionSourceType: false client, true server
  deriving DecidableEq, Repr, Inhabited

structure TimeSummand where
  sq : String
  f : Int                -- FTimeFactor
  l : Int                -- LTimeFactor
  deriving DecidableEq, Repr, Inhabited

structure NumSummand where
  sq : String
  factor : Int
  ty : NumType
  deriving DecidableEq, Repr, Inhabited

structure DataVar where
  pos : Nat
  sq : String
  name : String
  deriving DecidableEq, Repr, Inhabited

structure DataEl where
  sq : String
  regex : String
  vars : List DataVar
  flags : Nat            -- bit 0: 0 client→server (cdata), 1 server→client (sdata)
  conv : String
  deriving DecidableEq, Repr, Inhabited

/-- TagConditionAccept bits -/
def accMatching : Nat := 1
def accFailing : Nat := 2
def accUncertainMatching : Nat := 4
def accUncertainFailing : Nat := 8

structure TagC where
  sq : String
  name : String
  acc : Nat
  deriving DecidableEq, Repr, Inhabited

/-- fulfilled when (xor of the flags of `sqs` ^ value) & mask ≠ 0 -/
structure FlagC where
  sqs : List String
  value : Nat
  mask : Nat
  deriving DecidableEq, Repr, Inhabited

structure HostC where
  srcs : List HostSrc
  host : List Nat        -- 0, 4 or 16 bytes
  m4 : List Nat
  m6 : List Nat
  inv : Bool
  deriving DecidableEq, Repr, Inhabited

/-- fulfilled when dur + Σ f·ftime + l·ltime ≥ 0 (times relative to the reference time) -/
structure TimeC where
  sum : List TimeSummand
  dur : Int
  rtf : Int              -- ReferenceTimeFactor
  deriving DecidableEq, Repr, Inhabited

/-- fulfilled when n + Σ factor·var ≥ 0 -/
structure NumC where
  sum : List NumSummand
  n : Int
  deriving DecidableEq, Repr, Inhabited

structure DataC where
  els : List DataEl
  inv : Bool
  deriving DecidableEq, Repr, Inhabited

inductive Cond where
  | tag (c : TagC)
  | flag (c : FlagC)
  | host (c : HostC)
  | time (c : TimeC)
  | num (c : NumC)
  | data (c : DataC)
  | impossible
  deriving DecidableEq, Repr, Inhabited

/-- Go `Conditions` (a conjunction) -/
abbrev Conj := List Cond
/-- Go `ConditionsSet` (a disjunction of conjunctions), without the nil/non-nil distinction -/
abbrev CSet := List Conj
/-- Go `ConditionsSet` as a slice value: `none` = nil slice, `some l` = non-nil slice with items `l`.
    (`some []` is the empty non-nil slice `ConditionsSet{}`.) -/
abbrev GSet := Option CSet

def GSet.items : GSet → CSet
  | none => []
  | some l => l

/-! ### lexed values (valueparser.go) -/

structure Var where
  sub : String
  name : String
  deriving DecidableEq, Repr, Inhabited

inductive NumPart where
  | num (ops : String) (n : Nat)
  | var (ops : String) (v : Var)
  deriving DecidableEq, Repr, Inhabited

/-- absolute time literal `YYYY-MM-DD HHMM[SS]` (civil fields as lexed) -/
structure Civil where
  y : Nat
  mo : Nat
  d : Nat
  h : Nat
  mi : Nat
  s : Nat
  deriving DecidableEq, Repr, Inhabited

inductive TimePart where
  | dur (ops : String) (ns : Int)
  | abs (ops : String) (t : Civil)
  | var (ops : String) (v : Var)
  deriving DecidableEq, Repr, Inhabited

inductive ProtoEntry where
  | token (t : String)
  | var (v : Var)
  deriving DecidableEq, Repr, Inhabited

structure HostEntry where
  var : Option Var          -- exactly one of var / host is set
  host : List Nat           -- 16 bytes as produced by net.ParseIP (4 bytes accepted too); [] when var
  masks : Option (List Int) -- the `/n` suffixes, `none` when absent
  deriving DecidableEq, Repr, Inhabited

inductive TermValue where
  | tags (names : List String)                 -- after strings.Split(value, ",") (untrimmed)
  | protos (l : List ProtoEntry)
  | hosts (l : List HostEntry)
  | nums (l : List (List (List NumPart)))      -- list of entries, each 1 or 2 ranges, each a part list
  | times (l : List (List (List TimePart)))
  | data (content : String) (vars : List DataVar)
  | other                                       -- sort / limit / group terms: contribute no condition
  deriving Repr, Inhabited

structure Term where
  sq : String
  key : String
  conv : String
  value : TermValue
  deriving Repr, Inhabited

/-- grammar AST (parser.go): `or`/`and`/`then` are the three list levels, `not`/`grp`/`term`/`aux`
    the alternatives of queryCondition (`aux` = sort/limit/group term). -/
inductive Expr where
  | term (t : Term)
  | aux
  | not (e : Expr)
  | grp (e : Expr)
  | and (es : List Expr)
  | or (es : List Expr)
  | seq (es : List Expr)          -- THEN
  deriving Repr, Inhabited

/-! ### outcome of a parser-model run -/

inductive Outcome (α : Type) where
  | ok (a : α)
  | err (msg : String)
  | panic (site : String)
  | diverged (site : String)
  deriving Repr, Inhabited

namespace Outcome
def bind {α β : Type} (x : Outcome α) (f : α → Outcome β) : Outcome β :=
  match x with
  | ok a => f a
  | err m => err m
  | panic s => panic s
  | diverged s => diverged s
instance : Monad Outcome where
  pure := ok
  bind := bind
def isOkOrErr {α : Type} : Outcome α → Bool
  | ok _ => true
  | err _ => true
  | _ => false
end Outcome

end Pk.Query
