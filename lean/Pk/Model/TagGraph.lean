/-
  TagGraph — self-contained model of the tag management API of
  internal/index/manager/manager.go (property C11):

    AddTag, DelTag, UpdateTag{query, color, name, converters, mark add, mark del},
    inheritTagUncertainty, startTaggingJobIfNeeded (its dereferences only),
    the start-up validation of tags in New, makeTagInfo/ListTags.

  Transliteration rules
  * `mgr.tags` (a Go map of pointers) is an association list `List (Name × Tag)`; lookups are
    `tget`, stores are `tset`, `delete` is `tdel`.  Map iteration order is the list order (the code's
    results do not depend on it where they are observed).
  * `query.Parse(def)`, `Conditions.Features()` and `Conditions.StreamIDs(n)` are NOT modelled:
    their results are an input of every op (`Facts`), supplied by the harness from the real parser.
  * a dereference of `mgr.tags[x]` for a missing `x` is `Outcome.panic site`;
    a `for len(resolved) != len(tags)` walk that can not finish is `Outcome.diverged site`
    (fuel = |tags|+1 rounds; a round without progress repeats for ever in the code).
  * bitmasks are sorted duplicate-free `List Nat`.
  * the background tagging job is represented only by `settle` (what the service has computed once
    `Status().TaggingJobRunning = false` and all `UncertainCount = 0`): for a definition that is a
    plain id filter the job's result is `StreamIDs`, for anything else the match set is outside this
    model (`known := false`).
  Core Lean only (linked into `pkmodel`).
-/
namespace Pk.TagGraph

abbrev Name := String

/-! ### finite sets of stream ids -/

def insertNat (x : Nat) : List Nat → List Nat
  | [] => [x]
  | y :: ys => if x < y then x :: y :: ys else if x = y then y :: ys else y :: insertNat x ys

def unionNat (a b : List Nat) : List Nat := b.foldl (fun acc x => insertNat x acc) a
def diffNat (a b : List Nat) : List Nat := a.filter (fun x => !b.contains x)
def interNat (a b : List Nat) : List Nat := a.filter (fun x => b.contains x)
def normNat (a : List Nat) : List Nat := unionNat [] a

/-! ### inputs -/

/-- what `query.Parse(def)`, `.Conditions.Features()`, `.Grouping` and `.Conditions.StreamIDs(next)`
    answered for a definition (computed by the harness with the real code) -/
structure Facts where
  parseErr : Bool := false
  grouping : Bool := false
  mainTags : List Name := []
  subTags : List Name := []
  mainFeat : Nat := 0
  subFeat : Nat := 0
  idsOk : Bool := false
  ids : List Nat := []
  deriving Repr, DecidableEq, Inhabited

def featID : Nat := 1
def featTimeRelative : Nat := 32
def featData : Nat := 128

def Facts.relTime (p : Facts) : Bool := (p.mainFeat ||| p.subFeat) &&& featTimeRelative != 0
def Facts.refs (p : Facts) : List Name := p.mainTags ++ p.subTags

structure Tag where
  definition : String := ""
  mainTags : List Name := []
  subTags : List Name := []
  mainFeat : Nat := 0
  subFeat : Nat := 0
  /-- abstraction of `TagDetails.Conditions`: `StreamIDs(next)` if it is a plain id filter -/
  cond : Option (List Nat) := none
  matched : List Nat := []
  /-- model bookkeeping: `false` once `matched` depends on query evaluation (outside this model) -/
  known : Bool := true
  uncertain : List Nat := []
  color : String := ""
  converters : List Name := []
  referencedBy : List Name := []
  deriving Repr, DecidableEq, Inhabited

/-- `tag.referencedTags()` (a set in the code; duplicates are harmless here) -/
def Tag.refs (t : Tag) : List Name := t.mainTags ++ t.subTags

abbrev TagMap := List (Name × Tag)

structure State where
  tags : TagMap := []
  nextStreamID : Nat := 0
  /-- names of the converters known to the manager (fixed during a run) -/
  convs : List Name := []
  deriving Repr, DecidableEq, Inhabited

inductive Outcome where
  | ok
  | err
  | panic (site : String)
  | diverged (site : String)
  deriving Repr, DecidableEq, Inhabited

/-! ### the tag table -/

def tget : TagMap → Name → Option Tag
  | [], _ => none
  | (k, v) :: m, n => if k = n then some v else tget m n

def tset : TagMap → Name → Tag → TagMap
  | [], n, t => [(n, t)]
  | (k, v) :: m, n, t => if k = n then (k, t) :: m else (k, v) :: tset m n t

def tdel : TagMap → Name → TagMap
  | [], _ => []
  | (k, v) :: m, n => if k = n then tdel m n else (k, v) :: tdel m n

def tkeys (m : TagMap) : List Name := m.map (·.1)

def thas (m : TagMap) (n : Name) : Bool := (tget m n).isSome

/-- `t := mgr.tags[n]; f(t)` for an existing `n` (no effect otherwise) -/
def tmod (m : TagMap) (n : Name) (f : Tag → Tag) : TagMap :=
  match tget m n with
  | some t => tset m n (f t)
  | none => m

def addRef (x : Name) (l : List Name) : List Name := if l.contains x then l else l ++ [x]
def delRef (x : Name) (l : List Name) : List Name := l.filter (· != x)

def State.allStreams (st : State) : List Nat := List.range st.nextStreamID

/-! ### names -/

def cutSlash (s : String) : Option (String × String) :=
  match s.splitOn "/" with
  | [] => none
  | [_] => none
  | typ :: rest => some (typ, "/".intercalate rest)

/-- `parseTagName` -/
def parseTagName (full : String) : String × String × Bool :=
  match cutSlash full with
  | none => ("", "", false)
  | some (typ, sub) =>
    let isMark := typ == "mark" || typ == "generated"
    if typ != "tag" && typ != "service" && !isMark then ("", "", false) else (typ, sub, isMark)

def markPrefix (n : Name) : Bool := n.startsWith "mark/" || n.startsWith "generated/"

/-! ### dependency-ordered elimination
   (control skeleton of `inheritTagUncertainty`, of the start-up cycle check in `New`, and of the
    cycle check of `UpdateTag`) -/

/-- one pass over `names`; `res` holds the resolved names, most recent first -/
def elimRound (refs : Name → List Name) : List Name → List Name → List Name
  | [], res => res
  | n :: ns, res =>
    if res.contains n then elimRound refs ns res
    else if (refs n).all (fun r => res.contains r) then elimRound refs ns (n :: res)
    else elimRound refs ns res

/-- repeat passes until every name is resolved; `none` when the fuel runs out -/
def elim (refs : Name → List Name) (names : List Name) : Nat → List Name → Option (List Name)
  | fuel, res =>
    if names.all (fun n => res.contains n) then some res
    else match fuel with
      | 0 => none
      | f + 1 => elim refs names f (elimRound refs names res)

def refsOf (m : TagMap) (n : Name) : List Name :=
  match tget m n with
  | some t => t.refs
  | none => []

/-- resolution order of the whole table (oldest first), `none` = the walk never finishes -/
def resolveOrder (m : TagMap) : Option (List Name) :=
  (elim (refsOf m) (tkeys m) ((tkeys m).length + 1) []).map List.reverse

/-! ### inheritTagUncertainty -/

def uncertainOf (m : TagMap) (n : Name) : List Nat :=
  match tget m n with
  | some t => t.uncertain
  | none => []

/-- body of the walk for one resolved tag -/
def inheritOne (all : List Nat) (m : TagMap) (n : Name) : TagMap :=
  tmod m n fun ti =>
    if ti.mainTags.isEmpty && ti.subTags.isEmpty then ti
    else if ti.subTags.any (fun r => !(uncertainOf m r).isEmpty) then { ti with uncertain := all }
    else { ti with uncertain := ti.mainTags.foldl (fun acc r => unionNat acc (uncertainOf m r)) ti.uncertain }

def inheritApply (all : List Nat) (m : TagMap) (order : List Name) : TagMap :=
  order.foldl (inheritOne all) m

/-- `mgr.inheritTagUncertainty()`; `none` = diverged -/
def inherit (st : State) : Option State :=
  match resolveOrder st.tags with
  | none => none
  | some order => some { st with tags := inheritApply st.allStreams st.tags order }

/-! ### startTaggingJobIfNeeded: only its dereferences of `mgr.tags[tn]` matter here -/

def tagJobPanics (m : TagMap) : Bool :=
  (tkeys m).any fun n =>
    match tget m n with
    | some t => !t.uncertain.isEmpty && t.refs.any (fun r => !thas m r)
    | none => false

/-! ### AddTag -/

def mkTag (color definition : String) (p : Facts) : Tag :=
  { definition := definition, mainTags := p.mainTags, subTags := p.subTags,
    mainFeat := p.mainFeat, subFeat := p.subFeat,
    cond := if p.idsOk then some p.ids else none, color := color }

def addReferrer (name : Name) (m : TagMap) (rs : List Name) : TagMap :=
  rs.foldl (fun m r => tmod m r fun t => { t with referencedBy := addRef name t.referencedBy }) m
def delReferrer (name : Name) (m : TagMap) (rs : List Name) : TagMap :=
  rs.foldl (fun m r => tmod m r fun t => { t with referencedBy := delRef name t.referencedBy }) m

/-- pre-checks of a definition shared by AddTag and UpdateTag(query), done outside the service loop -/
def defRejected (name : Name) (p : Facts) (needIds : Bool) : Bool :=
  p.parseErr || p.relTime || p.grouping || p.refs.contains name || (needIds && !p.idsOk)

def addTag (st : State) (name color definition : String) (p : Facts) : Outcome × State :=
  let (typ, sub, isMark) := parseTagName name
  if typ == "" || sub == "" then (.err, st) else
  if defRejected name p isMark then (.err, st) else
  if thas st.tags name then (.err, st) else
  if p.refs.any (fun r => !thas st.tags r) then (.err, st) else
  let nt := mkTag color definition p
  let nt := if isMark then { nt with matched := p.ids } else { nt with uncertain := st.allStreams }
  let m := tset st.tags name nt
  if !isMark && tagJobPanics m then (.panic "startTaggingJobIfNeeded", st) else
  (.ok, { st with tags := addReferrer name m p.refs })

/-! ### DelTag -/

def delTag (st : State) (name : Name) : Outcome × State :=
  match tget st.tags name with
  | none => (.err, st)
  | some t =>
    if !t.referencedBy.isEmpty then (.err, st) else
    let m := tdel st.tags name
    if t.refs.any (fun r => !thas m r) then (.panic "DelTag.referencedTags", st) else
    (.ok, { st with tags := delReferrer name m t.refs })

/-! ### UpdateTag -/

/-- an operation that sets nothing (`color ""`, `name ""`, empty id list) -/
def updNothing (st : State) (name : Name) : Outcome × State :=
  if thas st.tags name then (.ok, st) else (.err, st)

def updColor (st : State) (name color : String) : Outcome × State :=
  if color == "" then updNothing st name else
  match tget st.tags name with
  | none => (.err, st)
  | some t => (.ok, { st with tags := tset st.tags name { t with color := color } })

/-- does replacing the references of `name` by `rs` leave the table eliminable (no cycle, nothing missing)? -/
def eliminable (m : TagMap) (name : Name) (rs : List Name) : Bool :=
  let refs := fun n => if n = name then rs else refsOf m n
  (elim refs (tkeys m) ((tkeys m).length + 1) []).isSome

/-- the tag's query is "too complex" for a converter (`attachConverterToTag`) -/
def Tag.complex (t : Tag) : Bool :=
  t.mainFeat &&& featData != 0 || t.subFeat &&& featData != 0 || !t.mainTags.isEmpty || !t.subTags.isEmpty

def updQuery (st : State) (name definition : String) (p : Facts) : Outcome × State :=
  if defRejected name p (markPrefix name) then (.err, st) else
  match tget st.tags name with
  | none => (.err, st)
  | some t =>
    -- validation (the same as AddTag, plus the cycle check)
    if p.refs.any (fun r => !thas st.tags r) then (.err, st) else
    if !eliminable st.tags name p.refs then (.err, st) else
    -- a tag with converters attached keeps a query converters can be attached to
    if !t.converters.isEmpty && (mkTag t.color definition p).complex then (.err, st) else
    let nt := { mkTag t.color definition p with
                converters := t.converters, referencedBy := t.referencedBy, uncertain := st.allStreams }
    let onlyBefore := t.refs.filter (fun r => !p.refs.contains r)
    let onlyAfter := p.refs.filter (fun r => !t.refs.contains r)
    if onlyBefore.any (fun r => !thas st.tags r) then (.panic "UpdateTag.onlyBefore", st) else
    let m := delReferrer name st.tags onlyBefore
    if onlyAfter.any (fun r => !thas m r) then (.panic "UpdateTag.onlyAfter", st) else
    let m := addReferrer name m onlyAfter
    let m := tset m name nt
    match inherit { st with tags := m } with
    | none => (.diverged "inheritTagUncertainty", st)
    | some st' =>
      if tagJobPanics st'.tags then (.panic "startTaggingJobIfNeeded", st) else (.ok, st')

def updName (st : State) (name newName : String) : Outcome × State :=
  if newName == "" then updNothing st name else
  match tget st.tags name with
  | none => (.err, st)
  | some t =>
    let (oldTyp, _, _) := parseTagName name
    let (newTyp, newSub, _) := parseTagName newName
    if newTyp != oldTyp then (.err, st) else
    if newSub == "" then (.err, st) else
    if thas st.tags newName then (.err, st) else
    if !t.referencedBy.isEmpty then (.err, st) else
    let m := tset (tdel st.tags name) newName t
    if t.refs.any (fun r => !thas m r) then (.panic "UpdateTag.rename", st) else
    let m := t.refs.foldl (fun m r => tmod m r fun rt =>
      { rt with referencedBy := addRef newName (delRef name rt.referencedBy) }) m
    (.ok, { st with tags := m })

def updConverters (st : State) (name : Name) (names : List Name) : Outcome × State :=
  match tget st.tags name with
  | none => (.err, st)
  | some t =>
    -- validation before anything is changed
    let fresh := names.filter (fun c => !t.converters.contains c)
    if fresh.any (fun c => !st.convs.contains c) then (.err, st) else
    if !fresh.isEmpty && t.complex then (.err, st) else
    -- detach deselected converters, attach new ones in the order given
    let kept := t.converters.filter (fun c => names.contains c)
    let cs := fresh.foldl (fun acc c => if acc.contains c then acc else acc ++ [c]) kept
    (.ok, { st with tags := tset st.tags name { t with converters := cs } })

def joinIds (ids : List Nat) : String := ",".intercalate (ids.map toString)

/-- `maxUsedStreamID` of UpdateTag: one more than the largest id named, 0 for none -/
def maxUsed (ids : List Nat) : Nat := ids.foldl (fun m s => if m ≤ s then s + 1 else m) 0

/-- `^id:\d+(,\d+)*$` on the characters after `id:` -/
def digitsCsv : List Char → Bool → Bool
  | [], saw => saw
  | c :: cs, saw =>
    if c.isDigit then digitsCsv cs true else if c == ',' && saw then digitsCsv cs false else false

def plainIdList (s : String) : Bool := s.startsWith "id:" && digitsCsv (s.toList.drop 3) false

def markAddApply (t : Tag) (ids : List Nat) : Tag :=
  let added := (ids.foldl (fun (acc : List Nat × List Nat) s =>
      if acc.1.contains s then acc else (insertNat s acc.1, acc.2 ++ [s])) (t.matched, [])).2
  let t1 := { t with matched := unionNat t.matched added, uncertain := unionNat t.uncertain added }
  if added.isEmpty then t1 else
  { t1 with
    cond := t.cond.map (fun c => unionNat c added),
    definition := if t.definition == "id:-1" then "id:" ++ joinIds added
                  else if plainIdList t.definition then t.definition ++ "," ++ joinIds added
                  else "(" ++ t.definition ++ ") or id:" ++ joinIds added }

def markDelApply (t : Tag) (ids : List Nat) : Tag :=
  let removed := normNat (ids.filter (fun s => t.matched.contains s))
  let ms := diffNat t.matched removed
  { t with matched := ms, uncertain := unionNat t.uncertain removed,
           cond := some ms,
           definition := if ms.isEmpty then "id:-1" else "id:" ++ joinIds ms }

/-- mark add (`add = true`) / mark tdel of a non-empty id list -/
def updMark (st : State) (name : Name) (add : Bool) (ids : List Nat) : Outcome × State :=
  if ids.isEmpty then updNothing st name else
  if !markPrefix name then (.err, st) else
  match tget st.tags name with
  | none => (.err, st)
  | some t =>
    if maxUsed ids > st.nextStreamID then (.err, st) else
    let nt :=
      if t.known then (if add then markAddApply t ids else markDelApply t ids)
      else { t with definition := "<unknown>", cond := none }
    -- `newTag.Uncertain` = old pending set ∪ changed ids while `inheritTagUncertainty` runs, then
    -- `mgr.tags[name].Uncertain = prevUncertain`: the mark's own pending set is put back as it was
    match inherit { st with tags := tset st.tags name nt } with
    | none => (.diverged "inheritTagUncertainty", st)
    | some st' =>
      let m := tmod st'.tags name fun x => { x with uncertain := t.uncertain }
      if tagJobPanics m then (.panic "startTaggingJobIfNeeded", st) else (.ok, { st' with tags := m })

/-! ### the API as one step function -/

inductive Op where
  | add (name color definition : String) (p : Facts)
  | del (name : Name)
  | color (name color : String)
  | query (name definition : String) (p : Facts)
  | rename (name newName : String)
  | converters (name : Name) (names : List Name)
  | markAdd (name : Name) (ids : List Nat)
  | markDel (name : Name) (ids : List Nat)
  deriving Repr, Inhabited

def step (st : State) : Op → Outcome × State
  | .add n c d p => addTag st n c d p
  | .del n => delTag st n
  | .color n c => updColor st n c
  | .query n d p => updQuery st n d p
  | .rename n n' => updName st n n'
  | .converters n cs => updConverters st n cs
  | .markAdd n ids => updMark st n true ids
  | .markDel n ids => updMark st n false ids

def run (st : State) (ops : List Op) : State := ops.foldl (fun s o => (step s o).2) st

/-! ### what the tagging jobs leave behind once the service is quiet -/

def settleTag (t : Tag) : Tag :=
  if t.uncertain.isEmpty then t else
  match t.cond with
  | some ids =>
    { t with matched := unionNat (diffNat t.matched t.uncertain) (interNat ids t.uncertain), uncertain := [] }
  | none => { t with known := false, uncertain := [] }

def settle (st : State) : State := { st with tags := st.tags.map fun (n, t) => (n, settleTag t) }

/-! ### start-up validation of a state file's tags (`New`) -/

structure Saved where
  name : Name
  definition : String
  color : String
  facts : Facts
  deriving Repr, Inhabited

def loadTag (all : List Nat) (s : Saved) : Tag :=
  let t := mkTag s.color s.definition s.facts
  if markPrefix s.name then { t with matched := s.facts.ids } else { t with uncertain := all }

/-- the tag part of `New`: `none` = the state file is rejected -/
def loadTags (next : Nat) (convs : List Name) (saved : List Saved) : Option State :=
  let all := List.range next
  let build := saved.foldl (fun (acc : Option TagMap) s =>
    match acc with
    | none => none
    | some m =>
      if s.facts.parseErr then none
      else if thas m s.name then none
      else if markPrefix s.name && !s.facts.idsOk then none
      else some (tset m s.name (loadTag all s))) (some [])
  match build with
  | none => none
  | some m =>
    if m.any (fun (n, t) => t.refs.contains n || t.refs.any (fun r => !thas m r)) then none else
    let m := m.foldl (fun acc (n, t) => addReferrer n acc t.refs) m
    if (elim (refsOf m) (tkeys m) ((tkeys m).length + 1) []).isNone then none else
    some { tags := m, nextStreamID := next, convs := convs }

/-! ### ListTags -/

structure TagInfo where
  name : Name
  definition : String
  color : String
  matchingCount : Nat
  uncertainCount : Nat
  referenced : Bool
  converters : List Name
  deriving Repr, DecidableEq

def makeTagInfo (name : Name) (t : Tag) : TagInfo :=
  { name := name,
    definition := if (parseTagName name).2.2 then "..." else t.definition,
    color := t.color,
    matchingCount := (diffNat t.matched t.uncertain).length,
    uncertainCount := t.uncertain.length,
    referenced := !t.referencedBy.isEmpty,
    converters := t.converters }

def insertByName (x : TagInfo) : List TagInfo → List TagInfo
  | [] => [x]
  | y :: ys => if x.name < y.name then x :: y :: ys else y :: insertByName x ys

def listTags (st : State) : List TagInfo :=
  (st.tags.map fun (n, t) => makeTagInfo n t).foldl (fun acc x => insertByName x acc) []

end Pk.TagGraph
