/-
  Pk.Model.Recover — what `manager.New` reads back from the data directory, and the file-operation
  sequences by which the service writes it (property C12).  Core Lean only.

  * index files: `index.Writer.Finalize` writes the header with the magic last, so a file is either
    complete or unreadable; `New` skips unreadable files and stacks the others in NAME order
    (names are creation times, `tools.MakeFilename`).
  * state files: `saveState` creates a NEW file, writes and closes it, and only then removes the
    previous one; `New` takes the parsable file with the latest `Saved` stamp (later file in name
    order wins a tie: `if s.Saved.Before(stateTimestamp) continue`).
-/
namespace Pk.Recover

structure TagRec where
  name : String
  defn : String
  color : String
  convs : List String
deriving Repr, BEq, DecidableEq, Inhabited

structure StateFile where
  name : Nat            -- position in name order (creation time)
  saved : Nat           -- the `Saved` stamp
  parsable : Bool       -- false: cut short inside the write
  tags : List TagRec
deriving Repr, Inhabited, DecidableEq

structure IndexFile where
  name : Nat
  complete : Bool
  ids : List Nat
deriving Repr, Inhabited, DecidableEq

structure Disk where
  idx : List IndexFile        -- in name order
  states : List StateFile     -- in name order
deriving Repr, Inhabited, DecidableEq

/-- the loop over `stateFilenames` in `New` -/
def pickState : List StateFile → Option StateFile → Option StateFile
  | [], best => best
  | f :: fs, best =>
    if !f.parsable then pickState fs best
    else match best with
      | none => pickState fs (some f)
      | some b => if f.saved < b.saved then pickState fs best else pickState fs (some f)

def recoverTags (d : Disk) : List TagRec := ((pickState d.states none).map (·.tags)).getD []

/-- the loop over `indexFileNames` in `New` -/
def recoverIdx (d : Disk) : List Nat := (d.idx.filter (·.complete)).map (·.name)

/-! ### the file operations of `saveState` and the disks a crash can leave behind -/

inductive FileOp where
  | createPartial (f : StateFile)   -- os.Create + a prefix of the encoded state (not parsable)
  | complete (name : Nat)           -- the rest of the write + Close
  | remove (name : Nat)             -- os.Remove(old state file)
deriving Repr

def applyOp (ss : List StateFile) : FileOp → List StateFile
  | .createPartial f => ss ++ [{ f with parsable := false }]
  | .complete n => ss.map fun f => if f.name = n then { f with parsable := true } else f
  | .remove n => ss.filter (·.name ≠ n)

/-- `saveState`: write the new file completely, then remove the previous one -/
def saveOps (new : StateFile) (old : Option Nat) : List FileOp :=
  [.createPartial new, .complete new.name] ++ (match old with | some o => [.remove o] | none => [])

end Pk.Recover
