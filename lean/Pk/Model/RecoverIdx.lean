/-
  Pk.Model.RecoverIdx — the stream level of what `manager.New` reads back from the index files of the
  data directory, and the file-operation sequences of an import job and of a merge job (property C12,
  "every stream of a completed import is visible under its old id with its newest data after a restart
  from any crash point of an import or a merge").  Core Lean only.

  * a disk is a list of index files `{ name, complete, ids }` (`Pk.Recover.IndexFile`): `name` is the
    creation-time ordinal of the file (`tools.MakeFilename`), `complete` says whether the header with
    the magic was written (`index.Writer.Finalize` writes it LAST), `ids` are the stream ids stored in
    the file;
  * `New` skips the unreadable files and stacks the complete ones in NAME order (`stack`);
  * an id is resolved to the NEWEST complete file containing it (`visibleIn`): a newer file's version
    of a stream shadows the older ones;
  * the next stream id is 1 + the largest id of ALL complete files (`nextID`);
  * file operations: `create` (file exists with a zero header: incomplete), `finish` (header written),
    `delete`; an import job writes one new file, `index.Merge` writes all merged files completely
    before the manager removes the inputs.
-/
import Pk.Model.Recover

namespace Pk.Recover

/-! ### what `New` serves -/

def insertByName (f : IndexFile) : List IndexFile → List IndexFile
  | [] => [f]
  | g :: gs => if f.name ≤ g.name then f :: g :: gs else g :: insertByName f gs

def sortByName : List IndexFile → List IndexFile
  | [] => []
  | f :: fs => insertByName f (sortByName fs)

/-- the complete files in name order, oldest first: the index stack of the restarted manager -/
def stack (d : List IndexFile) : List IndexFile := sortByName (d.filter (·.complete))

/-- the file is readable and holds (a version of) stream `id` -/
def serves (f : IndexFile) (id : Nat) : Bool := f.complete && f.ids.contains id

/-- the name of the NEWEST complete file holding `id` (maximum name; no sorting needed) -/
def visibleIn : List IndexFile → Nat → Option Nat
  | [], _ => none
  | f :: fs, id =>
    if serves f id then
      match visibleIn fs id with
      | none => some f.name
      | some n => some (max f.name n)
    else visibleIn fs id

/-- the same through the stack: the last file of the stack that holds `id` (how the service resolves
    an id; proved equal to `visibleIn` for disks with unique names) -/
def visibleInStack (d : List IndexFile) (id : Nat) : Option Nat :=
  ((stack d).reverse.find? (fun f => f.ids.contains id)).map (·.name)

/-- the abstract version of stream `id` that a restart serves; `ver file id` = the version of the
    stream stored in that file -/
def visibleVer (d : List IndexFile) (ver : Nat → Nat → Nat) (id : Nat) : Option Nat :=
  (visibleIn d id).map (fun f => ver f id)

/-- 1 + the largest element, 0 for the empty list -/
def idsNext : List Nat → Nat
  | [] => 0
  | i :: is => max (i + 1) (idsNext is)

/-- `New`: the next stream id is the maximum over ALL complete files -/
def nextID : List IndexFile → Nat
  | [] => 0
  | f :: fs => if f.complete then max (idsNext f.ids) (nextID fs) else nextID fs

/-! ### executable view for a driver -/

def insertNat (x : Nat) : List Nat → List Nat
  | [] => [x]
  | y :: ys => if x < y then x :: y :: ys else if x = y then y :: ys else y :: insertNat x ys

/-- sorted, duplicate-free -/
def sortDedup : List Nat → List Nat
  | [] => []
  | x :: xs => insertNat x (sortDedup xs)

/-- all ids of the complete files, sorted, without duplicates -/
def allIds (d : List IndexFile) : List Nat :=
  sortDedup ((d.filter (·.complete)).flatMap (·.ids))

/-- id ↦ serving file, sorted by id -/
def recoverView (d : List IndexFile) : List (Nat × Nat) :=
  (allIds d).filterMap (fun id => (visibleIn d id).map (fun n => (id, n)))

/-! ### file operations and the job sequences -/

inductive IdxOp where
  | create (name : Nat) (ids : List Nat)   -- os.Create + data sections, header still zero
  | finish (name : Nat)                    -- Finalize: header written
  | delete (name : Nat)                    -- os.Remove
deriving Repr, DecidableEq

def applyIdxOp (d : List IndexFile) : IdxOp → List IndexFile
  | .create n ids => d ++ [{ name := n, complete := false, ids := ids }]
  | .finish n => d.map fun f => if f.name = n then { f with complete := true } else f
  | .delete n => d.filter (fun f => f.name ≠ n)

def applyOps (d : List IndexFile) (ops : List IdxOp) : List IndexFile := ops.foldl applyIdxOp d

/-- one import job = one new index file -/
def importOps (name : Nat) (ids : List Nat) : List IdxOp := [.create name ids, .finish name]

/-- the write phase of a merge: every output created and finished, one after the other -/
def writeOps : List (Nat × List Nat) → List IdxOp
  | [] => []
  | o :: os => .create o.1 o.2 :: .finish o.1 :: writeOps os

/-- the release phase of a merge: the inputs are removed -/
def deleteOps (inputs : List Nat) : List IdxOp := inputs.map .delete

/-- `index.Merge` writes all merged files completely before the manager removes the inputs;
    `inputs` = names of the merged files, `outputs` = (name, ids) of the files written -/
def mergeOps (inputs : List Nat) (outputs : List (Nat × List Nat)) : List IdxOp :=
  writeOps outputs ++ deleteOps inputs

/-- the complete file written for output `o` -/
def mkOut (o : Nat × List Nat) : IndexFile := { name := o.1, complete := true, ids := o.2 }

/-- the name of the NEWEST merge input holding `id` -/
def newestInput (d : List IndexFile) (inputs : List Nat) (id : Nat) : Option Nat :=
  visibleIn (d.filter (fun f => inputs.contains f.name)) id

/-- the harness' crash emulation: the header of file `name` is zeroed -/
def cutFile (name : Nat) (d : List IndexFile) : List IndexFile :=
  d.map fun f => if f.name = name then { f with complete := false } else f

/-- the most recently written index file of an operation sequence (last `create`/`finish`) -/
def lastWritten : List IdxOp → Option Nat
  | [] => none
  | op :: ops =>
    match lastWritten ops with
    | some n => some n
    | none => match op with
      | .create n _ => some n
      | .finish n => some n
      | .delete _ => none

/-- the file under construction: the most recently written file, as long as nothing was deleted
    since (a merge that has begun to remove its inputs has handed its outputs over) -/
def underConstruction (ops : List IdxOp) : Option Nat :=
  match ops.getLast? with
  | some (.create n _) => some n
  | some (.finish n) => some n
  | _ => none

def cutOpt (n : Option Nat) (d : List IndexFile) : List IndexFile :=
  match n with
  | some n => cutFile n d
  | none => d

/-! ### jobs and histories -/

inductive Job where
  | imp (name : Nat) (ids : List Nat)
  | merge (inputs : List Nat) (outputs : List (Nat × List Nat))
deriving Repr, DecidableEq

def Job.ops : Job → List IdxOp
  | .imp n ids => importOps n ids
  | .merge ins outs => mergeOps ins outs

/-- the disk after all the jobs of a history ran to completion -/
def runJobs (d : List IndexFile) (js : List Job) : List IndexFile :=
  js.foldl (fun d j => applyOps d j.ops) d

end Pk.Recover
