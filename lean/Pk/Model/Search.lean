/-
  Search engine model (property C02) — core Lean only.

  Transliterates, from internal/index/search.go:
    * the sort comparators `sorterFunctions` and their composition `sortingLess`   (812–953)
    * the result accumulator `filterAndAddToResult` of `searchStreams`             (1131–1389)
      restricted to the main query without grouping: limit pre-checks, sorted insertion by binary
      search (`sort.Search`), replacement of the last slot, the dropped counter
    * the scan loops of `searchStreams` (file order without early exit / sorted lookup with early
      exit)                                                                           (1412–1536)
    * the superseding filter of `buildSearchObjects` (122–132) and the newest-first iteration over
      index files and the final paging of `SearchStreams` (1072–1126)
  and states the SPEC of a search result as an executable checker `validPage`.

  What is abstracted: the per-condition filters and the lookup intersection are a predicate
  `q : Rec → Bool` evaluated on every stored stream version (the harness computes it with the plain
  semantics of the query); a lookup can only remove streams for which `q` is false.

  The early exit of the sorted scan is modelled as it is in the repaired code (fix F21): the scan stops
  only at a stream that is strictly worse than the last kept one on the PRIMARY key, the key the lookup
  section is ordered by.  `stepFullKey`/`scanFullKey` keep the rule of the unrepaired code (stop at the
  first stream that does not beat the last kept one under the FULL key list) for `finding_F21`.
-/
namespace Pk.Search

/-- what the sort comparators look at (times as absolute values, hosts as address bytes) -/
structure Rec where
  id : Nat
  ftime : Nat
  ltime : Nat
  cbytes : Nat
  sbytes : Nat
  cport : Nat
  sport : Nat
  chost : List Nat
  shost : List Nat
deriving Repr, DecidableEq, Inhabited

inductive Field where
  | id | cbytes | sbytes | ftime | ltime | chost | shost | cport | sport
deriving Repr, DecidableEq, Inhabited

structure SortKey where
  field : Field
  desc : Bool
deriving Repr, DecidableEq, Inhabited

/-- `bytes.Compare(a, b) < 0` -/
def bytesLt : List Nat → List Nat → Bool
  | [], [] => false
  | [], _ :: _ => true
  | _ :: _, [] => false
  | a :: as, b :: bs => if a < b then true else if b < a then false else bytesLt as bs

/-- `sorterFunctions[key](a, b)` -/
def fieldLt (f : Field) (a b : Rec) : Bool :=
  match f with
  | .id => a.id < b.id
  | .cbytes => a.cbytes < b.cbytes
  | .sbytes => a.sbytes < b.sbytes
  | .ftime => a.ftime < b.ftime
  | .ltime => a.ltime < b.ltime
  | .chost => bytesLt a.chost b.chost
  | .shost => bytesLt a.shost b.shost
  | .cport => a.cport < b.cport
  | .sport => a.sport < b.sport

def keyLt (k : SortKey) (a b : Rec) : Bool :=
  if k.desc then fieldLt k.field b a else fieldLt k.field a b

/-- `sortingLess` for a key list -/
def less : List SortKey → Rec → Rec → Bool
  | [], _, _ => false
  | k :: ks, a, b => if keyLt k a b then true else if keyLt k b a then false else less ks a b

/-- default search order is `-ftime` -/
def effKeys (keys : List SortKey) : List SortKey :=
  if keys.isEmpty then [⟨.ftime, true⟩] else keys

/-- comparator of the first key only: the order of the lookup section used by the sorted scan -/
def primLess (keys : List SortKey) : Rec → Rec → Bool := less (keys.take 1)

/-! ### SPEC: what a search result has to be -/

/-- no element strictly below an earlier one -/
def sortedBy (lt : Rec → Rec → Bool) : List Rec → Bool
  | [] => true
  | a :: rest => rest.all (fun b => !lt b a) && sortedBy lt rest

def findRec (ms : List Rec) (id : Nat) : Option Rec := ms.find? (fun r => r.id == id)

def nodupIds : List Nat → Bool
  | [] => true
  | a :: rest => !rest.contains a && nodupIds rest

/-- the page of a sorted arrangement: `limit = 0` means no limit -/
def pageOf (limit skip : Nat) (arr : List Rec) : List Rec :=
  if limit = 0 then arr.drop skip else (arr.drop skip).take limit

def moreOf (limit skip n : Nat) : Bool := limit != 0 && decide (skip + limit < n)

/--
  Executable checker.  `ms`: the matches (visible streams satisfying the query, distinct ids) with their
  sort-relevant data; `res`: returned stream ids in order; `more`: returned flag.

  res has no duplicates, every element is a match, res is sorted, it has the length of the page
  `[skip, skip+limit)`, and it can be completed to a sorted arrangement of all matches: the matches
  outside res that must precede the page's last element (strictly below it) fit in front of the page
  (at most `skip`, none strictly above the first element), those that must follow its first element
  (strictly above it) fit behind it; `more` iff more than skip+limit matches exist.
-/
def validPage (ms : List Rec) (keys : List SortKey) (limit skip : Nat) (res : List Nat) (more : Bool) : Bool :=
  let lt := less keys
  let n := ms.length
  let want := if limit = 0 then n - skip else min limit (n - skip)
  match res.mapM (findRec ms) with
  | none => false
  | some rs =>
    nodupIds res && sortedBy lt rs && decide (rs.length = want) && (more == moreOf limit skip n) &&
    (match rs.head?, rs.getLast? with
     | some first, some last =>
       let rest := ms.filter (fun m => !res.contains m.id)
       let before := rest.filter (fun m => lt m last)      -- cannot stand behind the page
       let after := rest.filter (fun m => lt first m)      -- cannot stand in front of the page
       before.all (fun m => !lt first m) && after.all (fun m => !lt m last) &&
       decide (before.length ≤ skip) && decide (after.length ≤ n - skip - rs.length)
     | _, _ => true)

/-! ### ENGINE: result accumulator -/

/-- `sort.Search(n, f)`: smallest index in `[0,n)` at which `f` holds (binary search; `n` if none). -/
def sortSearchAux (f : Nat → Bool) : Nat → Nat → Nat → Nat
  | 0, i, _ => i
  | fuel + 1, i, j =>
    if i < j then
      let h := (i + j) / 2
      if !f h then sortSearchAux f fuel (h + 1) j else sortSearchAux f fuel i h
    else i

def sortSearch (n : Nat) (f : Nat → Bool) : Nat := sortSearchAux f (n + 1) 0 n

/-- `result.streams` (without the free slot) and `result.resultDropped` -/
structure Acc where
  streams : List Rec := []
  dropped : Nat := 0
deriving Repr, DecidableEq, Inhabited

/-- place `s` into the free slot at the end and move it to its sorted position (1277–1297) -/
def insertSorted (lt : Rec → Rec → Bool) (s : Rec) (l : List Rec) : List Rec :=
  let pos := sortSearch l.length (fun i => match l[i]? with | some x => lt s x | none => true)
  l.take pos ++ s :: l.drop pos

/--
  One call of `filterAndAddToResult` for the stream `s`; `m` says whether some query part matches it
  (the filters are only evaluated after the limit pre-check).  Returns the new accumulator and the
  value handed back to the scan loop ("limit reached, the scan may stop").
  `stopLt last s` is the early-exit test.
-/
def step (lt stopLt : Rec → Rec → Bool) (limit : Nat) (a : Acc) (s : Rec) (m : Bool) : Acc × Bool :=
  let limitReached := a.dropped != 0 && limit != 0 && decide (limit ≤ a.streams.length)
  match a.streams[limit - 1]? with
  | some last =>
    if limitReached && !lt s last then (a, stopLt last s)
    else if !m then (a, false)
    else if limit == 0 || decide (a.streams.length < limit) then
      ({ a with streams := insertSorted lt s a.streams }, false)
    else if lt s last then
      ({ streams := insertSorted lt s a.streams.dropLast, dropped := a.dropped + 1 }, false)
    else ({ a with dropped := a.dropped + 1 }, stopLt last s)
  | none =>
    -- fewer than `limit` entries (or limit = 0 and the list is empty): nothing to compare with
    if !m then (a, false)
    else ({ a with streams := insertSorted lt s a.streams }, false)

/-- scan of one index file: `evs` are the streams in scan order with their match flag;
    `sorted` = the sorting lookup is used, so the loop honours the stop signal -/
def scan (lt stopLt : Rec → Rec → Bool) (limit : Nat) (sorted : Bool) (a : Acc) : List (Rec × Bool) → Acc
  | [] => a
  | (s, m) :: rest =>
    let r := step lt stopLt limit a s m
    if sorted && r.2 then r.1 else scan lt stopLt limit sorted r.1 rest

/-! ### shadowing and the whole search -/

/-- the superseding filter: no newer index file contains the stream's id -/
def notSuperseded (newer : List (List (Rec × Bool))) (s : Rec) : Bool :=
  newer.all (fun f => f.all (fun e => e.1.id != s.id))

/-- newest-first iteration over the index files; `newer` = files already searched -/
def searchFiles (lt stopLt : Rec → Rec → Bool) (limit : Nat) (sorted : Bool) :
    List (List (Rec × Bool)) → List (List (Rec × Bool)) → Acc → Acc
  | _, [], a => a
  | newer, f :: older, a =>
    let evs := f.map (fun e => (e.1, e.2 && notSuperseded newer e.1))
    searchFiles lt stopLt limit sorted (newer ++ [f]) older (scan lt stopLt limit sorted a evs)

/-- `SearchStreams` for the main query: files newest first, each in scan order with the truth value of
    the query on every stored version.  Returns (ids of the page, more flag). -/
def search (keys : List SortKey) (limit skip : Nat) (sorted : Bool) (files : List (List (Rec × Bool))) :
    List Nat × Bool :=
  let ks := effKeys keys
  let lt := less ks
  let total := limit + skip
  let a := searchFiles lt (primLess ks) total (sorted && total != 0) [] files {}
  if a.streams.length ≤ skip then ([], false)
  else ((a.streams.drop skip).map (·.id), a.dropped != 0)

/-- the rule of the unrepaired code: stop as soon as a stream does not beat the last kept one under the
    full key list -/
def searchFullKeyExit (keys : List SortKey) (limit skip : Nat) (sorted : Bool) (files : List (List (Rec × Bool))) :
    List Nat × Bool :=
  let ks := effKeys keys
  let lt := less ks
  let total := limit + skip
  let a := searchFiles lt (fun _ _ => true) total (sorted && total != 0) [] files {}
  if a.streams.length ≤ skip then ([], false)
  else ((a.streams.drop skip).map (·.id), a.dropped != 0)

/-- the visible streams: the newest stored version of every id (files newest first) -/
def visible : List (List (Rec × Bool)) → List (List (Rec × Bool)) → List (Rec × Bool)
  | _, [] => []
  | newer, f :: older => f.filter (fun e => notSuperseded newer e.1) ++ visible (newer ++ [f]) older

/-- all scan events of a stack with the superseding filter applied to the match flag -/
def flagged : List (List (Rec × Bool)) → List (List (Rec × Bool)) → List (Rec × Bool)
  | _, [] => []
  | newer, f :: older =>
    f.map (fun e => (e.1, e.2 && notSuperseded newer e.1)) ++ flagged (newer ++ [f]) older

/-- the match set the spec talks about -/
def matchesOf (files : List (List (Rec × Bool))) : List Rec :=
  ((visible [] files).filter (·.2)).map (·.1)

end Pk.Search

namespace Pk.Search

/-! ### per-condition filters that are simple enough to transliterate completely -/

/-- `TagCondition` filter of `buildSearchObjects` (149–193): the special cases of the switch on
    `cc.Accept` and the generic default.  Accept bits: 1 matching, 2 failing, 4 uncertain+matching,
    8 uncertain+failing. -/
def tagAccept (accept : Nat) (uncertain matching : Bool) : Bool :=
  if accept = 0 then false
  else if accept = 15 then true
  else if accept = 12 then uncertain
  else if accept = 3 then !uncertain
  else if accept = 5 then matching
  else if accept = 10 then !matching
  else
    let a := if uncertain then accept &&& 12 else accept &&& 3
    let a := if matching then a &&& 5 else a &&& 10
    a != 0

/-- what the accept mask means: the bit of the stream's (uncertain, matching) state is set -/
def tagAcceptSpec (accept : Nat) (uncertain matching : Bool) : Bool :=
  let bit := match uncertain, matching with
    | false, true => 1 | false, false => 2 | true, true => 4 | true, false => 8
  accept &&& bit != 0

/-- `Conditions.inlineTagFilter` (internal/query/conditions.go) seen from one stream, for ONE tag filter with accept
    mask `accept` on a tag that has undecided streams (`tagHasUndecided`): a mask that accepts both or neither of
    the undecided states is kept; a mask with exactly one undecided bit is replaced by two alternatives — the
    decided part of the mask (`accept &&& 3`), or "undecided (mask 12) and the tag's definition holds" (the
    definition negated when the mask accepts undecided-failing only). `recorded` is the answer stored for the
    stream, `defTruth` what the tag's definition says about it now. -/
def inlinedAccept (tagHasUndecided : Bool) (accept : Nat) (uncertain recorded defTruth : Bool) : Bool :=
  let unc := accept &&& 12
  if !tagHasUndecided || unc = 0 || unc = 12 then tagAccept accept uncertain recorded
  else
    tagAccept (accept &&& 3) uncertain recorded ||
      (tagAccept 12 uncertain recorded && (if unc = 8 then !defTruth else defTruth))

/-- `TimeCondition` filter for the main query (616–623), everything in ns as integers:
    `d = Duration + (f+l)*(r.ReferenceTime - refTime) + f*FirstPacketTimeNS + l*LastPacketTimeNS ≥ 0` -/
def timeFilter (duration f l refTime fileRef firstNS lastNS : Int) : Bool :=
  decide (0 ≤ duration + (f + l) * (fileRef - refTime) + f * firstNS + l * lastNS)

/-- the parser's encoding of an absolute lower bound `ftime:A:` parsed at reference time `ref`
    (conditions.go 768, 828): `Duration = -(A - ref)`, ftime factor +1 -/
def lowerBoundDuration (A ref : Int) : Int := -(A - ref)
/-- … and of an absolute upper bound `ftime::B`: `Duration = B - ref`, ftime factor -1 -/
def upperBoundDuration (B ref : Int) : Int := B - ref

/-- `NumberCondition` filter without sub-queries (485–493): `Number + Σ factor·value ≥ 0` -/
def numberFilter (number : Int) (terms : List (Int × Int)) : Bool :=
  decide (0 ≤ number + (terms.map (fun t => t.1 * t.2)).foldl (· + ·) 0)

/-- `FlagCondition` filter with one sub-query (221–225) -/
def flagFilter (flags mask value : Nat) : Bool := flags &&& mask != value

end Pk.Search
