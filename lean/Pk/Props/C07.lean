/-
  C07 — merging index files is invisible.

  Property theorems over the model of `Writer.AddIndex` / `index.Merge` (Pk/Model/Merge.lean), tied to
  internal/index/{writer,merger}.go by `./check C07` on the repaired code (F9: `popN` popped bytes;
  F23: `AddIndex` shared the reader's host table with the writer group — both fixed in the repository,
  witnesses in corpus/C07).

  Proved here: the wrap-around lemma of the reference-second re-basing (BitVec 64 and for the model's
  uint64 arithmetic), the host-table invariant across `AddIndex`, the skip-if-present rule, and
  newest-wins for ids, ports, protocol, byte counts and absolute first/last times.
  The full statement `MergeViewEq` below (host *addresses*, source packets and payload bytes of a copied
  stream are unchanged too) is decided in Pk/Props/C07Full.lean: FALSE for arbitrary `Reader` values
  (`merge_view_eq_counterexample`), PROVED as `merge_view_eq'` for well-formed readers (`Reader.WF`, which
  every reader of a file written by a reachable writer satisfies: `reachable_reader_wf`, `merged_wf`) whose
  merge output stays below the format's capacities (`Reader.Fits`).
-/
import Pk.Model.Merge
import Pk.Proofs.MergeHosts
import Pk.Proofs.MergeStreams
import Pk.Proofs.MergeStreams2
import Pk.Proofs.IndexFormatHostsRoundtrip

namespace Pk.Props.C07
open Pk Pk.Bytes Pk.Index

/-! ## time re-basing -/

/-- `rebase_abs_time`: moving the reference second from `old` to `new` and adding `(old - new)·10^9` to a
    relative time leaves `ref·10^9 + rel` unchanged modulo 2^64, even when `old < new` and the
    intermediate difference underflows. -/
theorem rebase_abs_time (old new rel : BitVec 64) :
    new * 1000000000#64 + (rel + (old - new) * 1000000000#64) = old * 1000000000#64 + rel := by
  bv_omega

/-- the same for the uint64 arithmetic of the model (`sub64`, `mul64`, `add64` of writer.go 840–855) -/
theorem rebase_abs_time_model (ref newRef t : Nat) :
    abs64 newRef (add64 t (mul64 (sub64 ref newRef) 1000000000)) = abs64 ref t :=
  rebase_abs_nat ref newRef t

/-- `abs64` is the absolute time itself when nothing overflows (all times of this century do not) -/
theorem abs64_exact (ref t : Nat) (h : ref * 1000000000 + t < 2 ^ 64) : abs64 ref t = ref * 1000000000 + t := by
  unfold abs64; exact Nat.mod_eq_of_lt h

/-! ## host tables -/

/-- `AddIndex` of every input in order, whatever it answers -/
def mergeOne' : List Reader → Writer → Option Writer
  | [], w => some w
  | r :: rs, w => match w.addIndex r with
    | .ok (w', _) => mergeOne' rs w'
    | .error _ => none


/-- `hostTable_aligned` across `AddIndex` (every path: hosts added to an existing group, a group that fails
    half way and is popped back, a new group taken over from the reader, the "no new streams" undo). -/
theorem hostTable_aligned_addIndex (w w' : Writer) (r : Reader) (ok : Bool) (hr : r.HostsInv)
    (hw : GroupsInv w.hostGroups) (h : w.addIndex r = .ok (w', ok)) : GroupsInv w'.hostGroups :=
  addIndex_inv w w' r ok hr hw h

/-- a reader opened on a file the writer produced satisfies the reader-side invariant `AddIndex` relies on
    (so `hostTable_aligned_addIndex` applies to every merge input that is itself a written or merged file) -/
theorem written_reader_hostsInv (w : Writer) (r : Reader) (hw : GroupsInv w.hostGroups)
    (hb4 : (v4of w.hostGroups).length < 2 ^ 32) (hb6 : (v6of w.hostGroups).length < 2 ^ 32)
    (hr : newReader w.finalize = .ok r) : r.HostsInv := by
  obtain ⟨_, _, _, hrg, _⟩ := newReader_ok _ r hr
  rw [hostgroups_decode' w hw hb4 hb6] at hrg
  have hgroups : r.hostGroups = w.hostGroups.map HostGroup.toReader := by
    injection hrg with h; exact h.symm
  intro g hg
  rw [hgroups] at hg
  obtain ⟨g0, hg0, rfl⟩ := List.mem_map.mp hg
  exact toReader_inv g0 (hw g0 hg0)

/-- `hostTable_aligned` over any history of a merge writer: a sequence of `AddIndex` calls with inputs that
    satisfy the reader invariant keeps every host group whole (4/16-byte hosts, non-empty, ≤ 65 536 bytes). -/
theorem hostTable_aligned_merge (rs : List Reader) (hrs : ∀ r ∈ rs, r.HostsInv) :
    ∀ (w w' : Writer), GroupsInv w.hostGroups → mergeOne' rs w = some w' → GroupsInv w'.hostGroups := by
  induction rs with
  | nil => intro w w' hw h; simp [mergeOne'] at h; subst h; exact hw
  | cons r rs ih =>
    intro w w' hw h
    simp only [mergeOne'] at h
    split at h
    · rename_i w1 ok h1
      exact ih (fun x hx => hrs x (by simp [hx])) w1 w' (addIndex_inv w w1 r ok (hrs r (by simp)) hw h1) h
    · simp at h

/-- a group that refuses an index half way is exactly what it was before (`popN(nAdded)`) — F9 -/
theorem failed_group_restored (g g' : HostGroup) (k : Nat) (ext : Bytes) (hs : g'.hostSize = g.hostSize)
    (hx : g'.hosts = g.hosts ++ ext) (hl : ext.length = k * g.hostSize) : g'.popN k = g :=
  popN_restore g g' k ext hs hx hl

/-! ## AddIndex -/

/-- `addIndex_preserves_old` (times, ports, protocol, byte counts, table positions): see the file header
    for what is missing to the full statement. -/
theorem addIndex_preserves_old_partial (w w' : Writer) (r : Reader) (ok : Bool) (h : w.addIndex r = .ok (w', ok))
    (j : Nat) (s : StreamRec) (hs : w.streams[j]? = some s) :
    ∃ s', w'.streams[j]? = some s' ∧ SameStatic s s' ∧ s'.pstart = s.pstart ∧ s'.dataStart = s.dataStart ∧
      s'.hg = s.hg ∧ s'.ch = s.ch ∧ s'.sh = s.sh ∧
      abs64 w'.ref s'.first = abs64 w.ref s.first ∧ abs64 w'.ref s'.last = abs64 w.ref s.last :=
  addIndex_preserves_old w w' r ok h j s hs

/-- `addIndex_adds_new` (times, ports, protocol, byte counts) -/
theorem addIndex_adds_new_partial (w w' : Writer) (r : Reader) (ok : Bool) (h : w.addIndex r = .ok (w', ok))
    (s : StreamRec) (hs : s ∈ r.f.streams) (hid : s.id ∉ w.streams.map (·.id)) :
    ∃ s' ∈ w'.streams, SameStatic s s' ∧
      abs64 w'.ref s'.first = abs64 r.f.ref s.first ∧ abs64 w'.ref s'.last = abs64 r.f.ref s.last :=
  addIndex_adds_new w w' r ok h s hs hid

/-- skip-if-present: ids afterwards = ids before, then the ids of the added index that were not present -/
theorem addIndex_skips_present (w w' : Writer) (r : Reader) (ok : Bool) (h : w.addIndex r = .ok (w', ok)) :
    w'.streams.map (·.id) = w.streams.map (·.id) ++
      (r.f.streams.map (·.id)).filter (fun id => !(w.streams.map (·.id)).contains id) :=
  addIndex_ids w w' r ok h

/-! ## Merge -/

/-- `index.Merge` below the capacity limits: every input, newest first, goes into one writer -/
def mergeOne : List Reader → Writer → Option Writer
  | [], w => some w
  | r :: rs, w => match w.addIndex r with
    | .ok (w', true) => mergeOne rs w'
    | _ => none

/-- `mergeOne` is what the model of merger.go does while `AddIndex` accepts -/
theorem mergeWriters_single (rs : List Reader) (w w' : Writer) (h : mergeOne rs w = some w') :
    mergeWriters rs [w] = .ok [w'] := by
  induction rs generalizing w with
  | nil => simp [mergeOne] at h; subst h; rfl
  | cons r rs ih =>
    simp only [mergeOne] at h
    split at h
    · rename_i w1 h1
      simp only [mergeWriters, tryWriters, h1]
      exact ih w1 h
    · simp at h

/-- ids of the merged file: first occurrence in newest-first order -/
def mergedIds : List Reader → List Nat → List Nat
  | [], acc => acc
  | r :: rs, acc => mergedIds rs (acc ++ (r.f.streams.map (·.id)).filter (fun id => !acc.contains id))

theorem merge_ids (rs : List Reader) (w w' : Writer) (h : mergeOne rs w = some w') :
    w'.streams.map (·.id) = mergedIds rs (w.streams.map (·.id)) := by
  induction rs generalizing w with
  | nil => simp [mergeOne] at h; subst h; rfl
  | cons r rs ih =>
    simp only [mergeOne] at h
    split at h
    · rename_i w1 h1
      rw [ih w1 h, addIndex_ids w w1 r true h1]; rfl
    · simp at h

/-- once in the writer, a stream stays through the rest of the merge (static fields, absolute times) -/
theorem merge_keeps (rs : List Reader) (w w' : Writer) (h : mergeOne rs w = some w') (s : StreamRec) (hs : s ∈ w.streams) :
    ∃ s' ∈ w'.streams, SameStatic s s' ∧
      abs64 w'.ref s'.first = abs64 w.ref s.first ∧ abs64 w'.ref s'.last = abs64 w.ref s.last := by
  induction rs generalizing w s with
  | nil => simp [mergeOne] at h; subst h; exact ⟨s, hs, SameStatic.rfl' s, rfl, rfl⟩
  | cons r rs ih =>
    simp only [mergeOne] at h
    split at h
    · rename_i w1 h1
      obtain ⟨j, hj⟩ := List.getElem?_of_mem hs
      obtain ⟨s1, hs1, hst, _, _, _, _, _, hf, hl⟩ := addIndex_preserves_old w w1 r true h1 j s hj
      obtain ⟨s2, hs2, hst2, hf2, hl2⟩ := ih w1 h s1 (List.mem_of_getElem? hs1)
      exact ⟨s2, hs2, SameStatic.trans hst hst2, by rw [hf2, hf], by rw [hl2, hl]⟩
    · simp at h

/-- `merge_newest_wins`: a stream of input `k` (newest first) whose id occurs in no newer input is in the
    merged file — with its ports, protocol, byte counts and absolute first/last time — and (by `merge_ids`)
    nothing else carries that id. Older versions of the id are skipped. -/
theorem merge_newest_wins (rs : List Reader) (w w' : Writer) (h : mergeOne rs w = some w')
    (k : Nat) (r : Reader) (hk : rs[k]? = some r) (s : StreamRec) (hs : s ∈ r.f.streams)
    (hnew : ∀ j r', j < k → rs[j]? = some r' → s.id ∉ r'.f.streams.map (·.id))
    (hw : s.id ∉ w.streams.map (·.id)) :
    ∃ s' ∈ w'.streams, SameStatic s s' ∧
      abs64 w'.ref s'.first = abs64 r.f.ref s.first ∧ abs64 w'.ref s'.last = abs64 r.f.ref s.last := by
  induction rs generalizing w k with
  | nil => simp at hk
  | cons r0 rs ih =>
    simp only [mergeOne] at h
    split at h
    · rename_i w1 h1
      cases k with
      | zero =>
        simp at hk; subst hk
        obtain ⟨s1, hs1, hst, hf, hl⟩ := addIndex_adds_new w w1 r0 true h1 s hs hw
        obtain ⟨s2, hs2, hst2, hf2, hl2⟩ := merge_keeps rs w1 w' h s1 hs1
        exact ⟨s2, hs2, SameStatic.trans hst hst2, by rw [hf2, hf], by rw [hl2, hl]⟩
      | succ k =>
        simp at hk
        have h0 : s.id ∉ r0.f.streams.map (·.id) := hnew 0 r0 (by omega) (by simp)
        have hw1 : s.id ∉ w1.streams.map (·.id) := by
          rw [addIndex_ids w w1 r0 true h1]
          simp only [List.mem_append, List.mem_filter, not_or, not_and]
          exact ⟨hw, fun hm => absurd hm h0⟩
        exact ih w1 h k hk (fun j r' hj hr' => hnew (j + 1) r' (by omega) (by simpa using hr')) hw1
    · simp at h

/-! ## the full statement (decided in Pk/Props/C07Full.lean; also checked by the tie on every run) -/

/-- `merge_view_eq`: replacing any suffix of a stack of index files by its merge changes no stream view
    (absolute times, host addresses, ports, protocol, source packets, payload), for every id. -/
def MergeViewEq : Prop :=
  ∀ (pre suf merged : List Reader), merge suf = .ok merged →
    ∀ id, stackView (pre ++ merged) id = stackView (pre ++ suf) id

/-! ## non-vacuity -/

/-- the re-basing lemma is about genuinely wrapping arithmetic: with `old < new` the intermediate difference
    underflows (here to 2^64 − 10^9·5) and the sum still comes out right -/
example : abs64 105 (add64 7000000000 (mul64 (sub64 100 105) 1000000000)) = abs64 100 7000000000 := by decide
example : sub64 100 105 = 2 ^ 64 - 5 := by decide
example : GroupsInv ([] : List HostGroup) := fun g hg => by simp at hg
example : ({ hosts := [1,2,3,4,5,6,7,8], hostSize := 4 } : HostGroup).Inv :=
  ⟨Or.inl rfl, by decide, by decide, by decide⟩
example : mergeOne [] {} = some {} := rfl

end Pk.Props.C07
