/-
  C11 — Tag management calls are total, atomic and keep the tag graph well-formed.

  Property theorems only (helper lemmas: Pk/Proofs/TagGraph.lean).  Model: Pk/Model/TagGraph.lean,
  a transliteration of AddTag / DelTag / UpdateTag (query, color, name, converters, mark add, mark del),
  inheritTagUncertainty and the dereferences of startTaggingJobIfNeeded in
  internal/index/manager/manager.go, with `panic` (nil dereference of `mgr.tags[x]`) and `diverged`
  (a dependency walk that can not finish) as explicit outcomes.  The results of query.Parse on a
  definition are an arbitrary input (`Facts`) of every call: all theorems hold for every parser.

  Every statement is for all states / names / definitions / id lists / call sequences (no bound).

    graph_init, graph_step, graph_reachable   GraphWF is an invariant of every call sequence
    api_total                                 from a GraphWF state a call answers ok or err (no panic, no divergence)
    api_atomic                                anything but ok leaves the state exactly as it was
    fixpoint_terminates_iff_acyclic           the dependency walk finishes iff the graph is closed and acyclic
    delete_rename_guard                       a referenced tag is neither deleted nor renamed
    referenced_flag_mirror                    ListTags().Referenced ↔ some tag references it
  Proved in Pk/Props/C11More.lean: `mark_add_applies` / `mark_del_applies` (exactly the ids change, the stored
  definition text denotes the new set, referrers become pending, the mark's own pending set is put back),
  the pending-aware invariant `MarkDefInv` for every call sequence, and the start-up validation
  (`loadTags_graph`, `loadTags_rejects_only_bad`, `loadTags_roundtrip`).
-/
import Pk.Model.TagGraph
import Pk.Proofs.TagGraph

namespace Pk.Props.C11
open Pk.TagGraph Pk.Proofs.TagGraph

/-- closed ∧ acyclic (a rank function exists) ∧ `referencedBy` = inverse of `referencedTags` -/
abbrev GraphWF (st : State) : Prop := Pk.Proofs.TagGraph.GraphWF st.tags

macro "leaves" : tactic =>
  `(tactic| repeat' (first | (intro _; rfl) | (intro h; exact absurd rfl h) | split | (dsimp only)))

/-! ### atomicity -/

/-- a call that does not answer `ok` (error, and also the modelled crash/hang sites) leaves every tag unchanged -/
theorem api_atomic (st : State) (op : Op) : (step st op).1 ≠ .ok → (step st op).2 = st := by
  cases op <;> simp only [step]
  · unfold addTag; leaves
  · unfold delTag; leaves
  · unfold updColor updNothing; leaves
  · unfold updQuery; leaves
  · unfold updName updNothing; leaves
  · unfold updConverters; leaves
  · unfold updMark updNothing; leaves
  · unfold updMark updNothing; leaves

theorem api_atomic_err (st : State) (op : Op) (h : (step st op).1 = .err) : (step st op).2 = st :=
  api_atomic st op (by rw [h]; intro h2; cases h2)

/-! ### the invariant and totality, call by call -/

/-- what every call guarantees from a well-formed state -/
def Good (st : State) (r : Outcome × State) : Prop :=
  GraphWF r.2 ∧ (r.1 = .ok ∨ r.1 = .err)

macro "wfleaves" : tactic =>
  `(tactic| repeat' (first | (exact ⟨by assumption, Or.inr rfl⟩) | split | (dsimp only)))

theorem addTag_good (st : State) (n c d : String) (p : Facts) (wf : GraphWF st) :
    Good st (addTag st n c d p) := by
  unfold Good addTag; wfleaves
  all_goals
    have hex : ∀ r ∈ p.refs, (tget st.tags r).isSome := refs_exist_of_not_any _ _ (by assumption)
  all_goals first
    | (refine ⟨?_, Or.inl rfl⟩
       exact wf_add st.tags n _ p.refs wf (none_of_not_has _ _ (by assumption)) rfl rfl
         hex (not_self_of_not_rejected _ _ _ (by assumption)))
    | (exfalso; simp_all; done)
    | (rename_i hpan
       exfalso
       simp only [Bool.and_eq_true] at hpan
       have := tagJobPanics_false_of_closed _
         (closed_tset_new st.tags n { mkTag c d p with uncertain := st.allStreams } wf.closed hex)
       exact absurd hpan.2 (by rw [this]; simp))

theorem delTag_good (st : State) (n : Name) (wf : GraphWF st) : Good st (delTag st n) := by
  unfold Good delTag; wfleaves
  all_goals
    rename_i t ht hrb _
    have hrb' := rb_nil_of_isEmpty t hrb
  · rename_i hpan
    exfalso
    have : (t.refs.any fun r => !thas (tdel st.tags n) r) = false := by
      rw [List.any_eq_false]
      intro r hr
      have hex := wf.closed n t ht r hr
      have hrn : r ≠ n := by
        intro h; subst h
        have := (wf.mirror r t ht r).mpr ⟨t, ht, hr⟩
        rw [hrb'] at this; cases this
      simp [thas, get_del, Ne.symm hrn, hex]
    simp_all
  · exact ⟨wf_del st.tags n t wf ht hrb', Or.inl rfl⟩

theorem updColor_good (st : State) (n c : String) (wf : GraphWF st) : Good st (updColor st n c) := by
  unfold Good updColor updNothing; wfleaves
  · exact ⟨wf, Or.inl rfl⟩
  · rename_i t ht
    refine ⟨?_, Or.inl rfl⟩
    show Pk.Proofs.TagGraph.GraphWF (tset st.tags n _)
    exact GraphWF.congr (fun k => by apply gview_tset_same (ht := ht) <;> rfl) wf

theorem updConverters_good (st : State) (n : Name) (cs : List Name) (wf : GraphWF st) :
    Good st (updConverters st n cs) := by
  unfold Good updConverters; wfleaves
  rename_i t ht _ _
  refine ⟨?_, Or.inl rfl⟩
  show Pk.Proofs.TagGraph.GraphWF (tset st.tags n _)
  exact GraphWF.congr (fun k => by apply gview_tset_same (ht := ht) <;> rfl) wf

theorem updName_good (st : State) (n n' : String) (wf : GraphWF st) : Good st (updName st n n') := by
  unfold Good updName updNothing; wfleaves
  · exact ⟨wf, Or.inl rfl⟩
  all_goals
    rename_i t _ _ _ _ _ _ _ _ _ _ _ _ _ _ _ _
    have ht : tget st.tags n = some t := by assumption
    have hrb' : t.referencedBy = [] := rb_nil_of_isEmpty t (by assumption)
    have hnew : tget st.tags n' = none := none_of_not_has _ _ (by assumption)
  all_goals first
    | exact ⟨wf_rename st.tags n n' t wf ht hnew hrb', Or.inl rfl⟩
    | (rename_i hpan
       exfalso
       have hno : (t.refs.any fun r => !thas (tset (tdel st.tags n) n' t) r) = false := by
         rw [List.any_eq_false]
         intro r hr
         have hex := wf.closed n t ht r hr
         have hrn : r ≠ n := by
           intro h; subst h
           have := (wf.mirror r t ht r).mpr ⟨t, ht, hr⟩
           rw [hrb'] at this; cases this
         have : (tget (tset (tdel st.tags n) n' t) r).isSome := by
           rw [get_set]; split
           · rfl
           · rw [get_del]; simp [Ne.symm hrn, hex]
         simp [thas, this]
       rw [hno] at hpan
       exact absurd hpan (by simp))

theorem updMark_good (st : State) (n : Name) (add : Bool) (ids : List Nat) (wf : GraphWF st) :
    Good st (updMark st n add ids) := by
  unfold Good updMark updNothing
  split
  · split
    · exact ⟨wf, Or.inl rfl⟩
    · exact ⟨wf, Or.inr rfl⟩
  · split
    · exact ⟨wf, Or.inr rfl⟩
    · split
      · exact ⟨wf, Or.inr rfl⟩
      · rename_i t ht
        split
        · exact ⟨wf, Or.inr rfl⟩
        · dsimp only
          -- whatever the new tag is, it keeps references and referrers
          generalize hnt : (if t.known = true then (if add = true then markAddApply t ids else markDelApply t ids)
              else { t with definition := "<unknown>", cond := none }) = nt
          have hg : nt.refs = t.refs ∧ nt.referencedBy = t.referencedBy := by
            subst hnt
            split
            · split
              · exact markAddApply_graph t ids
              · exact markDelApply_graph t ids
            · exact ⟨rfl, rfl⟩
          have hw : Pk.Proofs.TagGraph.GraphWF (tset st.tags n nt) :=
            GraphWF.congr (fun k => gview_tset_same st.tags n t nt ht hg.1 hg.2 k) wf
          obtain ⟨s', hs'⟩ := inherit_isSome { st with tags := tset st.tags n nt } hw
          rw [hs']
          dsimp only
          have hw' : Pk.Proofs.TagGraph.GraphWF (tmod s'.tags n fun x => { x with uncertain := t.uncertain }) := by  -- CHANGED (prevUncertain)
            apply GraphWF.congr _ hw
            intro k
            refine Eq.trans ?_ (gview_inherit _ _ hs' k)
            apply gview_tmod
            intro _
            exact ⟨rfl, rfl⟩
          rw [tagJobPanics_false _ hw']
          exact ⟨hw', Or.inl rfl⟩

theorem updQuery_good (st : State) (n d : String) (p : Facts) (wf : GraphWF st) :
    Good st (updQuery st n d p) := by
  unfold Good updQuery
  split
  · exact ⟨wf, Or.inr rfl⟩
  · rename_i hrej
    split
    · exact ⟨wf, Or.inr rfl⟩
    · rename_i t ht
      split
      · exact ⟨wf, Or.inr rfl⟩
      · rename_i hrefs
        split
        · exact ⟨wf, Or.inr rfl⟩
        · rename_i helim
          have hself := not_self_of_not_rejected _ _ _ hrej
          have hex := refs_exist_of_not_any _ _ hrefs
          have helim' : eliminable st.tags n p.refs = true := by simpa using helim
          obtain ⟨out, hout⟩ := Option.isSome_iff_exists.mp (by unfold eliminable at helim'; exact helim')
          have hw3 := wf_update st.tags n t
            { mkTag t.color d p with converters := t.converters, referencedBy := t.referencedBy, uncertain := st.allStreams }
            p.refs out wf ht rfl rfl hself hout
          by_cases hcx : (!t.converters.isEmpty && (mkTag t.color d p).complex) = true
          · rw [if_pos hcx]; exact ⟨wf, Or.inr rfl⟩
          rw [if_neg hcx]
          dsimp only
          have h1 : ((t.refs.filter fun r => !p.refs.contains r).any fun r => !thas st.tags r) = false := by
            rw [List.any_eq_false]
            intro r hr
            have := wf.closed n t ht r (List.mem_filter.mp hr).1
            simp [thas, this]
          have h2 : ((p.refs.filter fun r => !t.refs.contains r).any fun r =>
              !thas (delReferrer n st.tags (t.refs.filter fun r => !p.refs.contains r)) r) = false := by
            rw [List.any_eq_false]
            intro r hr
            obtain ⟨u, hu⟩ := Option.isSome_iff_exists.mp (hex r (List.mem_filter.mp hr).1)
            obtain ⟨g, hg, _⟩ := get_delReferrer n st.tags (t.refs.filter fun r => !p.refs.contains r) r
            have hs : (tget (delReferrer n st.tags (t.refs.filter fun r => !p.refs.contains r)) r).isSome := by
              rw [hg, hu]; rfl
            show ¬ (!(tget _ r).isSome) = true
            rw [hs]; simp
          rw [h1, h2]
          simp only [Bool.false_eq_true, if_false]
          obtain ⟨s', hs'⟩ := inherit_isSome { st with tags := _ } hw3
          rw [hs']
          dsimp only
          have hw' : Pk.Proofs.TagGraph.GraphWF s'.tags :=
            GraphWF.congr (fun k => gview_inherit _ _ hs' k) hw3
          rw [tagJobPanics_false _ hw']
          exact ⟨hw', Or.inl rfl⟩

theorem step_good (st : State) (op : Op) (wf : GraphWF st) : Good st (step st op) := by
  cases op <;> simp only [step]
  · exact addTag_good _ _ _ _ _ wf
  · exact delTag_good _ _ wf
  · exact updColor_good _ _ _ wf
  · exact updQuery_good _ _ _ _ wf
  · exact updName_good _ _ _ wf
  · exact updConverters_good _ _ _ wf
  · exact updMark_good _ _ _ _ wf
  · exact updMark_good _ _ _ _ wf

/-! ### the property theorems -/

theorem graph_init (next : Nat) (convs : List Name) :
    GraphWF { tags := [], nextStreamID := next, convs := convs } := graphWF_empty

/-- every call (of any kind, with any arguments, accepted or rejected) preserves the invariant -/
theorem graph_step (st : State) (op : Op) (wf : GraphWF st) : GraphWF (step st op).2 :=
  (step_good st op wf).1

/-- hence every state reachable by any call sequence from a fresh manager is well-formed -/
theorem graph_reachable (next : Nat) (convs : List Name) (ops : List Op) :
    GraphWF (run { tags := [], nextStreamID := next, convs := convs } ops) := by
  have : ∀ (ops : List Op) (st : State), GraphWF st → GraphWF (run st ops) := by
    intro ops
    induction ops with
    | nil => intro st h; exact h
    | cons o os ih => intro st h; exact ih _ (graph_step st o h)
  exact this ops _ (graph_init next convs)

/-- from a well-formed state no call crashes (nil dereference) or hangs (walk that never finishes) -/
theorem api_total (st : State) (op : Op) (wf : GraphWF st) :
    (step st op).1 = .ok ∨ (step st op).1 = .err :=
  (step_good st op wf).2

/-- `inheritTagUncertainty` (fuel |tags|+1 rounds) completes iff no reference dangles and a rank function exists -/
theorem fixpoint_terminates_iff_acyclic (m : TagMap) :
    (resolveOrder m).isSome ↔
      ((∀ n t, tget m n = some t → ∀ r ∈ t.refs, (tget m r).isSome) ∧
       (∃ rank : Name → Nat, ∀ n t, tget m n = some t → ∀ r ∈ t.refs, rank r < rank n)) := by
  constructor
  · intro h
    unfold resolveOrder at h
    obtain ⟨out, hout⟩ : ∃ out, elim (refsOf m) (tkeys m) ((tkeys m).length + 1) [] = some out := by
      cases he : elim (refsOf m) (tkeys m) ((tkeys m).length + 1) [] with
      | none => simp [he] at h
      | some out => exact ⟨out, rfl⟩
    obtain ⟨hord, hall, hsub⟩ := elim_some _ _ _ _ _ hout trivial
    have hin : ∀ n t, tget m n = some t → n ∈ out ∧ refsOf m n = t.refs := by
      intro n t ht
      exact ⟨hall n ((mem_keys m n).mpr (by simp [ht])), by simp [refsOf, ht]⟩
    constructor
    · intro n t ht r hr
      obtain ⟨hn, hrf⟩ := hin n t ht
      have := ord_mem _ out hord n r hn (hrf ▸ hr)
      rcases hsub r this with h | h
      · cases h
      · exact (mem_keys m r).mp h
    · refine ⟨rk out, ?_⟩
      intro n t ht r hr
      obtain ⟨hn, hrf⟩ := hin n t ht
      exact ord_rank _ out hord n r hn (hrf ▸ hr)
  · rintro ⟨hcl, rank, hrank⟩
    -- `referencedBy` plays no role for the walk
    unfold resolveOrder
    have hcl' : ∀ n ∈ tkeys m, ∀ r ∈ refsOf m n, r ∈ tkeys m ∧ rank r < rank n := by
      intro n hn r hr
      obtain ⟨t, ht⟩ := Option.isSome_iff_exists.mp ((mem_keys m n).mp hn)
      have hr' : r ∈ t.refs := by simpa [refsOf, ht] using hr
      exact ⟨(mem_keys m r).mpr (hcl n t ht r hr'), hrank n t ht r hr'⟩
    have := elim_isSome (refsOf m) (tkeys m) rank hcl' ((tkeys m).length + 1) []
      (by unfold unres; exact Nat.le_succ_of_le (List.length_filter_le _ _))
    simpa using this

/-- a tag that another tag references can be neither deleted nor renamed: the call is an error and nothing changes -/
theorem delete_rename_guard (st : State) (wf : GraphWF st) (name x : Name) (u : Tag)
    (hu : tget st.tags x = some u) (href : name ∈ u.refs) :
    (step st (.del name) = (.err, st)) ∧ (∀ new, new ≠ "" → step st (.rename name new) = (.err, st)) := by
  obtain ⟨t, ht⟩ := Option.isSome_iff_exists.mp (wf.closed x u hu name href)
  have hrb : x ∈ t.referencedBy := (wf.mirror name t ht x).mpr ⟨u, hu, href⟩
  have hne : (!t.referencedBy.isEmpty) = true := by
    cases hl : t.referencedBy with
    | nil => rw [hl] at hrb; cases hrb
    | cons a l => rfl
  constructor
  · simp only [step, delTag, ht, hne, if_true]
  · intro new hnew
    have hnew' : (new == "") = false := by simpa using hnew
    simp only [step, updName, hnew', ht]
    repeat' split
    all_goals first | rfl | simp_all

/-- `ListTags().Referenced` mirrors the definitions: it is set iff some existing tag references the tag -/
theorem referenced_flag_mirror (st : State) (wf : GraphWF st) (name : Name) (t : Tag)
    (ht : tget st.tags name = some t) :
    (makeTagInfo name t).referenced = true ↔ ∃ x u, tget st.tags x = some u ∧ name ∈ u.refs := by
  have hm := wf.mirror name t ht
  simp only [makeTagInfo]
  cases hl : t.referencedBy with
  | nil =>
    simp only [List.isEmpty_nil, Bool.not_true, Bool.false_eq_true, false_iff]
    rintro ⟨x, u, hu, hx⟩
    have := (hm x).mpr ⟨u, hu, hx⟩
    rw [hl] at this; cases this
  | cons a l =>
    simp only [List.isEmpty_cons, Bool.not_false, true_iff]
    obtain ⟨u, hu, hx⟩ := (hm a).mp (by rw [hl]; exact List.mem_cons_self)
    exact ⟨a, u, hu, hx⟩

/-! ### non-vacuity: the hypotheses are satisfiable and the outcomes occur -/

private def pA : Facts := { mainFeat := 4 }
private def s2 : State :=
  { tags := [("tag/a", { definition := "cport:80", mainFeat := 4, referencedBy := ["tag/b"] }),
             ("tag/b", { definition := "tag:a", mainTags := ["tag/a"], mainFeat := 64 })], nextStreamID := 4 }

/-- a state with a reference: deleting the referenced tag is refused, deleting the referrer is accepted -/
example : (step s2 (.del "tag/a")).1 = .err := by decide
example : (step s2 (.del "tag/b")).1 = .ok := by decide
/-- the modelled crash and hang sites are real outcomes on ill-formed tables (they are what F13 was) -/
example : (step { tags := [("tag/a", { mainTags := ["tag/zz"] })] } (.del "tag/a")).1
    = .panic "DelTag.referencedTags" := by decide
private def cyc : TagMap := [("tag/a", { mainTags := ["tag/b"] }), ("tag/b", { mainTags := ["tag/a"] })]
example : inherit { tags := cyc } = none := by decide
example : inherit s2 ≠ none := by decide

end Pk.Props.C11
