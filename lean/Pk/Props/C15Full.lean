/-
  C15 — the full statements of Pk/Props/C15.lean, proved.
  (`varbytes_roundtrip`, `record_roundtrip`, `cache_refines_map`, `reopen_refines`,
  `truncated_prefix_serves_complete` are `def … : Prop` there.)

  Proof structure (Pk/Proofs/CacheFile*.lean): the bytes of every reachable state are the file header
  followed by a list of records (`layout rs`); `Inv st rs` says so, that the offset table is the table
  of the live records of `rs` (dead records carry the invalid id in their header), that live ids are
  distinct, that every body is skipped exactly by `skipStream`, and that `freeStart` is a record
  boundary.  `store` (with or without compaction), `invalidate`, `reset`, `reopen` keep `Inv` and act
  on the served bodies (`view rs`) like the map operations; a file cut anywhere opens as the records
  that lie completely before the cut.
-/
import Pk.Props.C15
import Pk.Proofs.CacheFileFull

namespace Pk.Props.C15
open Pk.CacheFile Pk.Proofs.CacheFile

theorem varbytes_roundtrip_holds : varbytes_roundtrip := fun data rest h => varbytes_rt data rest h

theorem record_roundtrip_holds : record_roundtrip := fun cs t0 hok ht => record_roundtrip_cts cs t0 hok ht

/-! ### the refinement -/

/-- what `OpOk` says about a stored chunk list -/
def StoreOk (cs : List Chunk) (t0 : Int) : Prop :=
  TimesOk (dropEmpty cs) t0 ∧
    ∀ c ∈ cs, c.content.length < 2 ^ 64 ∧ c.ctype.length < 2 ^ 64 ∧ (∀ b ∈ c.content, b < 256) ∧ ∀ b ∈ c.ctype, b < 256

/-- the record list serves exactly the bodies of the map -/
def Rel (rs : List Rec) (m : Nat → Option (List Chunk × Int)) : Prop :=
  ∀ id, match m id with
    | none => view rs id = none
    | some (cs, t0) => view rs id = some (encodeRecord cs t0) ∧ StoreOk cs t0

theorem step_inv (st : St) (rs : List Rec) (m : Nat → Option (List Chunk × Int)) (hi : Inv st rs) (hr : Rel rs m)
    (op : Op) (hop : OpOk op) :
    ∃ st' rs', step st op = some st' ∧ Inv st' rs' ∧ Rel rs' (specStep m op) := by
  cases op with
  | store x t0 cs =>
    obtain ⟨hx, ht, hcs⟩ := hop
    obtain ⟨st', rs', e, i, v⟩ := setData_inv st rs hi x t0 cs hx (fun c hc => ⟨(hcs c hc).1, (hcs c hc).2.1⟩)
    refine ⟨st', rs', e, i, ?_⟩
    intro id
    simp only [specStep]
    by_cases hid : id = x
    · subst hid
      simp only [if_true]
      exact ⟨by rw [v]; simp, ht, hcs⟩
    · simp only [if_neg hid]
      have := hr id
      rw [v id, if_neg hid]
      exact this
  | invalidate ids =>
    obtain ⟨rs', i, v⟩ := invalidate_inv ids st rs hi
    refine ⟨_, rs', rfl, i, ?_⟩
    intro id
    simp only [specStep]
    by_cases hid : id ∈ ids
    · simp only [if_pos hid]; rw [v, if_pos hid]
    · simp only [if_neg hid]
      have := hr id
      rw [v id, if_neg hid]
      exact this
  | reset => exact ⟨reset, [], rfl, reset_inv, fun id => rfl⟩
  | reopen =>
    obtain ⟨st', rs', e, i, v⟩ := reopen_inv st rs hi
    refine ⟨st', rs', e, i, ?_⟩
    intro id
    have := hr id
    simp only [specStep]
    rw [v id]
    exact this
  | reopenTruncated keep => exact absurd hop id

theorem run_inv : ∀ (ops : List Op) (st : St) (rs : List Rec) (m : Nat → Option (List Chunk × Int)),
    Inv st rs → Rel rs m → (∀ op ∈ ops, OpOk op) →
    ∃ st' rs', run st ops = some st' ∧ Inv st' rs' ∧ Rel rs' (specRun m ops) := by
  intro ops
  induction ops with
  | nil => intro st rs m hi hr _; exact ⟨st, rs, rfl, hi, hr⟩
  | cons op ops ih =>
    intro st rs m hi hr hok
    obtain ⟨st1, rs1, e1, i1, r1⟩ := step_inv st rs m hi hr op (hok op (by simp))
    obtain ⟨st2, rs2, e2, i2, r2⟩ := ih st1 rs1 _ i1 r1 (fun o ho => hok o (by simp [ho]))
    refine ⟨st2, rs2, ?_, i2, r2⟩
    simp only [run, e1, e2]

theorem reachable_inv (ops : List Op) (hok : ∀ op ∈ ops, OpOk op) :
    ∃ st rs, run reset ops = some st ∧ Inv st rs ∧ Rel rs (specRun (fun _ => none) ops) :=
  run_inv ops reset [] _ reset_inv (fun _ => rfl) hok

theorem cache_refines_map_holds : cache_refines_map := by
  intro ops hok
  obtain ⟨st, rs, e, i, r⟩ := reachable_inv ops hok
  refine ⟨st, e, i.size, ?_⟩
  intro id
  have hr := r id
  cases hm : specRun (fun _ => none) ops id with
  | none =>
    rw [hm] at hr
    obtain ⟨c1, c2, c3⟩ := i.contains_eq id hr
    exact ⟨c3 0, c2, c1⟩
  | some p =>
    obtain ⟨cs, t0⟩ := p
    rw [hm] at hr
    obtain ⟨hv, ht, hcs⟩ := hr
    show data st id t0 = _
    rw [i.data_eq id t0, hv]
    simp only [encodeRecord]
    rw [record_roundtrip_cts (dropEmpty cs) t0 ?_ ht]
    · rfl
    · intro c hc
      have hmem := (List.mem_filter.mp hc).1
      have hne := (List.mem_filter.mp hc).2
      exact ⟨⟨by simpa using hne, (hcs c hmem).1⟩, (hcs c hmem).2.1, (hcs c hmem).2.2.2⟩

theorem reopen_refines_holds : reopen_refines := by
  intro ops hok st hrun
  obtain ⟨st0, rs, e, i, _⟩ := reachable_inv ops hok
  rw [hrun] at e
  cases e
  obtain ⟨st', rs', e', i', v⟩ := reopen_inv st rs i
  refine ⟨st', e', ?_⟩
  intro id t0
  rw [i'.data_eq id t0, i.data_eq id t0, v id]

theorem truncated_prefix_serves_complete_holds : truncated_prefix_serves_complete := by
  intro ops hok st hrun keep
  obtain ⟨st0, rs, e, i, _⟩ := reachable_inv ops hok
  rw [hrun] at e
  cases e
  obtain ⟨st', rs', e', i', v⟩ := truncated_inv st rs i keep
  refine ⟨st', e', ?_⟩
  intro id info hl hle t0
  rw [i'.data_eq id t0, i.data_eq id t0, v id info hl hle]

end Pk.Props.C15
