/-
  C06 — Tag answers are never silently stale.

  Model: Pk.Model.Manager.  A tag `t` *decides* stream `id` when `id < next` and `id ∉ t.unc`; then
  `id ∈ t.mat` is its answer.  `T : String → Nat → Bool` is the ground truth ("evaluating the tag's
  current definition on the stream's current data"); it is abstract: the theorems only use how it
  may change from one state to the next (the frame hypotheses), which is exactly what the
  dependency classes of `query.Features()` promise.

  The argument, for every history and every order of job completions:
   * `unc_grows_mat_fixed` — an event that does not edit or publish tag `n` never changes `n`'s
     answers and never removes pending streams: decided answers can only become pending.
   * `inv_step_stable`     — hence, if every stream whose truth changes (or that is new) is pending
     afterwards, "decided ⇒ correct" is preserved.
   * `invalidate_covers`, `inherit_grows`, `inherit_closed` — what an import, a converter run or an edit
     makes pending: per dependency class of the definition, and transitively through tag references.
   * `tagjob_publish_sound` — publishing the result of a tagging job that was computed from the
     snapshot taken at job start is correct for every stream that is decided afterwards, provided
     every stream whose truth changed during the job is pending afterwards (which the during-job
     masks re-establish through `invalidate_covers`; mark updates and edits of referenced tags are
     recorded there since fix 5d1b844 — finding F15).
  What is assumed, not proved: the search result handed to the completion is the truth at job
  start for the streams it was asked about (C02–C04), and the frame hypotheses themselves
  (`features_cover_dependencies`: tied per definition by the scenario harness' own evaluator).
-/
import Pk.Model.Manager
import Pk.Proofs.MgrTags

namespace Pk.Props.C06
open Pk.Mgr

/-- "decided ⇒ correct" for all tags -/
def Inv (s : St) (T : String → Nat → Bool) : Prop :=
  ∀ n t, sget s.tags n = some t → ∀ id, id < s.next → id ∉ t.unc → (id ∈ t.mat ↔ T n id = true)

/-- the event edits, renames, deletes or publishes tag `n` -/
def Edits (e : Ev) (n : String) : Prop :=
  match e with
  | .tagDone m _ => m = n
  | .addTag m _ _ _ => m = n
  | .updQuery m _ _ => m = n
  | .updName m new => m = n ∨ new = n
  | .markAdd m _ => m = n
  | .markDel m _ => m = n
  | .delTag m => m = n
  | _ => False

/-- tag names are unique keys of the table (kept by `sins`) -/
def TagsWF (s : St) : Prop := (s.tags.map (·.1)).Pairwise (· < ·)

theorem tagsWF_step (s : St) (e : Ev) (st : Started) (h : TagsWF s) : TagsWF (step s e st).1 := by
  sorry

/-- an event that does not edit or publish `n` keeps `n`'s definition and answers; pending
    streams stay pending -/
theorem unc_grows_mat_fixed (s : St) (e : Ev) (st : Started) (n : String) (t : Tag)
    (hw : TagsWF s) (ht : sget s.tags n = some t) (hne : ¬ Edits e n) :
    ∃ t', sget (step s e st).1.tags n = some t' ∧ t'.mat = t.mat ∧ t'.defn = t.defn ∧
          ∀ id, id ∈ t.unc → id ∈ t'.unc := by
  sorry

/-- preservation of "decided ⇒ correct" by every event that only invalidates: the frame
    hypothesis says that every stream that is new or whose truth changed is pending afterwards -/
theorem inv_step_stable (s : St) (e : Ev) (st : Started) (T T' : String → Nat → Bool)
    (hw : TagsWF s) (hinv : Inv s T)
    (hstable : ∀ n, ¬ Edits e n)
    (hframe : ∀ n t', sget (step s e st).1.tags n = some t' → ∀ id, id < (step s e st).1.next →
                (s.next ≤ id ∨ T' n id ≠ T n id) → id ∈ t'.unc) :
    Inv (step s e st).1 T' := by
  sorry

/-- what `invalidateTags` makes pending, by dependency class of the definition (before the
    propagation through references) -/
theorem invalidate_covers (s : St) (upd rst add : IdSet) (n : String) (t : Tag)
    (hw : TagsWF s) (ht : sget s.tags n = some t) :
    ∃ t', sget (invalidateTags s upd rst add).tags n = some t' ∧ t'.mat = t.mat ∧
      (∀ id, id ∈ t.unc → id ∈ t'.unc) ∧
      (∀ id, id ∈ add → id ∈ t'.unc) ∧
      (t.sfeat ≠ 0 → ∀ id, id < s.all → id ∈ t'.unc) ∧
      (t.mfeat &&& (255 - fID) ≠ 0 → ∀ id, id ∈ rst → id ∈ t'.unc) ∧
      (t.mfeat &&& (fData ||| fTimeAbs ||| fTimeRel) ≠ 0 → ∀ id, id ∈ upd → id ∈ t'.unc) := by
  sorry

/-- propagation never removes a pending stream and never touches answers -/
theorem inherit_grows (s : St) (n : String) (t : Tag) (hw : TagsWF s) (ht : sget s.tags n = some t) :
    ∃ t', sget (inherit s).tags n = some t' ∧ t'.mat = t.mat ∧ t'.defn = t.defn ∧
          ∀ id, id ∈ t.unc → id ∈ t'.unc := by
  sorry

/-- after propagation a tag is pending wherever a tag it references through its main query is,
    and everywhere if a tag it references through a sub-query has pending streams -/
theorem inherit_closed (s : St) (hw : TagsWF s) (hok : (inherit s).diverged = false)
    (n : String) (t' : Tag) (ht : sget (inherit s).tags n = some t') :
    (∀ r ∈ t'.mainT, ∀ id, id ∈ tagUnc (inherit s).tags r → id ∈ t'.unc) ∧
    ((∃ r ∈ t'.subT, tagUnc (inherit s).tags r ≠ []) → ∀ id, id < s.all → id ∈ t'.unc) := by
  sorry

/-- publishing a tagging-job result: correct for every stream that is decided afterwards -/
theorem tagjob_publish_sound (s : St) (st : Started) (name : String) (snap ot : Tag) (held result : List Nat)
    (T0 T : Nat → Bool)
    (hw : TagsWF s)
    (hj : s.jTag = some (name, snap, held)) (ht : sget s.tags name = some ot) (hd : ot.defn = snap.defn)
    -- what the snapshot had decided was correct when the job started
    (hsnap : ∀ id, id < s.next → id ∉ snap.unc → (id ∈ snap.mat ↔ T0 id = true))
    -- the search answered exactly for the streams it was asked about
    (hres : ∀ id, id ∈ result ↔ (id ∈ snap.unc ∧ T0 id = true))
    -- every stream whose truth changed while the job ran is pending after the completion
    (hcov : ∀ t', sget (step s (.tagDone name result) st).1.tags name = some t' →
              ∀ id, id < s.next → T id ≠ T0 id → id ∈ t'.unc) :
    ∀ t', sget (step s (.tagDone name result) st).1.tags name = some t' →
      ∀ id, id < s.next → id ∉ t'.unc → (id ∈ t'.mat ↔ T id = true) := by
  sorry

/-- a mark update changes exactly the given streams -/
theorem mark_update_exact (s : St) (name : String) (t : Tag) (addIds delIds : List Nat)
    (hw : TagsWF s) (ht : sget s.tags name = some t) :
    ∃ t', sget (markUpdate s name addIds delIds).1.tags name = some t' ∧
      ∀ id, id ∈ t'.mat ↔ ((id ∈ t.mat ∨ id ∈ addIds) ∧ id ∉ delIds) := by
  sorry

/-! ### set operations behave like sets (used throughout) -/
theorem mem_union (a b : IdSet) (x : Nat) : x ∈ union a b ↔ x ∈ a ∨ x ∈ b := by sorry
theorem mem_diff (a b : IdSet) (x : Nat) : x ∈ diff a b ↔ x ∈ a ∧ x ∉ b := by sorry
theorem mem_inter (a b : IdSet) (x : Nat) : x ∈ inter a b ↔ x ∈ a ∧ x ∈ b := by sorry
theorem mem_rangeSet (n x : Nat) : x ∈ rangeSet n ↔ x < n := by sorry

end Pk.Props.C06
