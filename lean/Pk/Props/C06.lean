/-
  C06 — Tag answers are never silently stale.

  Model: Pk.Model.Manager.  A tag `t` *decides* stream `id` when `id < next` and `id ∉ t.unc`; then
  `id ∈ t.mat` is its answer.  `T : String → Nat → Bool` is the ground truth ("evaluating the tag's
  current definition on the stream's current data"); it is abstract: the theorems only use how it
  may change from one state to the next (the frame hypotheses), which is exactly what the
  dependency classes of `query.Features()` promise.

  The argument, for every history and every order of job completions:
   * `unc_grows_mat_fixed` — an event that does not edit or publish tag `n` never changes `n`'s
     answers and never removes pending streams: decided answers can only become pending.
   * `inv_step_stable`     — hence, if every stream whose truth changes (or that is new) is pending
     afterwards, "decided ⇒ correct" is preserved.
   * `invalidate_covers`, `inherit_grows`, `inherit_closed` — what an import, a converter run or an edit
     makes pending: per dependency class of the definition, and transitively through tag references.
   * `tagjob_publish_sound` — publishing the result of a tagging job that was computed from the
     snapshot taken at job start is correct for every stream that is decided afterwards, provided
     every stream whose truth changed during the job is pending afterwards (which the during-job
     masks re-establish through `invalidate_covers`; mark updates and edits of referenced tags are
     recorded there since fix 5d1b844 — finding F15).
  These step theorems are CLOSED over whole histories in Pk/Props/C06Reach.lean (`decided_correct_run`:
  for every history from the initial state "decided ⇒ correct" holds in every state reached), with the
  structural invariants from Pk/Props/MgrReach.lean.  What remains assumed there, as explicit contracts:
  the search result handed to a completion is the truth at job start for the streams it was asked about
  (`ResultOK`; that is C02–C04), how the truth may move per dependency class and along references
  (`TruthStep`; exercised per definition by the scenario harness' own evaluator), and three payload facts
  (`ImportAddsNew`, `EvFeatOK`, `JobTextOK`) — each with a machine-checked counterexample.

  ADDED (proof phase): `inheritTagUncertainty` / `invalidateTags` do not only add pending ids, they
  also *replace* a pending set by `{0..all-1}`.  "Pending never shrinks" therefore needs that
  pending ids are existing stream ids (`UncBounded`, resp. the per-tag / per-argument bounds
  `hb`, `hadd`, `hrst`, `hupd`) and `inv_step_stable` needs `nextStreamID ≤ |allStreams|` (`hna`).
  Each added hypothesis is marked `-- ADDED` with the counterexample to the unguarded statement.
-/
import Pk.Model.Manager
import Pk.Proofs.MgrTags
import Pk.Proofs.MgrTagsInherit
import Pk.Proofs.MgrTagsFrame
import Pk.Proofs.MgrTagsStep

namespace Pk.Props.C06
open Pk.Mgr
open Pk.Proofs

/-- "decided ⇒ correct" for all tags -/
def Inv (s : St) (T : String → Nat → Bool) : Prop :=
  ∀ n t, sget s.tags n = some t → ∀ id, id < s.next → id ∉ t.unc → (id ∈ t.mat ↔ T n id = true)

/-- the event edits, renames, deletes or publishes tag `n` -/
def Edits (e : Ev) (n : String) : Prop :=
  match e with
  | .tagDone m _ => m = n
  | .addTag m _ _ _ => m = n
  | .updQuery m _ _ => m = n
  | .updName m new => m = n ∨ new = n
  | .markAdd m _ => m = n
  | .markDel m _ => m = n
  | .delTag m => m = n
  | _ => False

/-- tag names are unique keys of the table (kept by `sins`) -/
def TagsWF (s : St) : Prop := (s.tags.map (·.1)).Pairwise (· < ·)

-- ADDED: pending sets only mention stream ids below `allStreams`.  `inheritTagUncertainty` and
-- `invalidateTags` *replace* a pending set by `{0..all-1}`; without this bound that replacement
-- can drop a pending id ≥ `all` (counterexamples in the comments of the theorems below).
/-- every pending stream id of every tag is an existing stream id -/
def UncBounded (s : St) : Prop := ∀ n t, sget s.tags n = some t → ∀ id, id ∈ t.unc → id < s.all

private theorem edits_iff (e : Ev) (n : String) : Edits e n ↔ MgrTags.EditsN e n := by
  cases e <;> exact Iff.rfl

/-- what every event does to the tag table (see `MgrTags.step_frame`) -/
private theorem step_frame (s : St) (e : Ev) (st : Started) :
    (TagsWF s → TagsWF (step s e st).1) ∧
    (∀ n, ¬ Edits e n → MgrTags.Keep (step s e st).1.all n s.tags (step s e st).1.tags) ∧
    ((∀ p u c a b d, e ≠ .importDone p u c a b d) → (step s e st).1.all = s.all ∧ (step s e st).1.next = s.next) :=
  ⟨(MgrTags.step_frame s e st).1,
   fun n hn => (MgrTags.step_frame s e st).2.1 n (fun h => hn ((edits_iff e n).mpr h)),
   (MgrTags.step_frame s e st).2.2⟩

theorem tagsWF_step (s : St) (e : Ev) (st : Started) (h : TagsWF s) : TagsWF (step s e st).1 :=
  (step_frame s e st).1 h

/-- an event that does not edit or publish `n` keeps `n`'s definition and answers; pending
    streams stay pending -/
theorem unc_grows_mat_fixed (s : St) (e : Ev) (st : Started) (n : String) (t : Tag)
    (hw : TagsWF s) (ht : sget s.tags n = some t) (hne : ¬ Edits e n)
    -- ADDED: the tag's pending ids are stream ids that exist after the event.  Without it the
    -- statement is false: tags a (unc=[5]) and b (subT=[a], unc=[7]), all=0, jConv=some([],[]),
    -- event convertDone: `inherit` replaces b.unc by rangeSet 0 = [], so 7 is no longer pending.
    (hb : ∀ id, id ∈ t.unc → id < (step s e st).1.all) :
    ∃ t', sget (step s e st).1.tags n = some t' ∧ t'.mat = t.mat ∧ t'.defn = t.defn ∧
          ∀ id, id ∈ t.unc → id ∈ t'.unc := by
  have _ := hw
  obtain ⟨t', h', hr⟩ := ((step_frame s e st).2.1 n hne).1 t ht
  exact ⟨t', h', hr.1, hr.2.1, fun id hid => hr.2.2 id hid (hb id hid)⟩

/-- preservation of "decided ⇒ correct" by every event that only invalidates: the frame
    hypothesis says that every stream that is new or whose truth changed is pending afterwards -/
theorem inv_step_stable (s : St) (e : Ev) (st : Started) (T T' : String → Nat → Bool)
    (hw : TagsWF s) (hinv : Inv s T)
    (hstable : ∀ n, ¬ Edits e n)
    -- ADDED: stream ids in use are existing streams (`nextStreamID ≤ |allStreams|`).  Without it
    -- the statement is false: next=10, all=0, tags a (unc=[5]) and b (subT=[a], unc=[7], mat=[7]),
    -- T b 7 = false, T' = T, jConv=some([],[]), event convertDone: `inherit` sets b.unc := rangeSet 0,
    -- so 7 < next becomes decided with the wrong answer although nothing changed.
    (hna : s.next ≤ s.all)
    (hframe : ∀ n t', sget (step s e st).1.tags n = some t' → ∀ id, id < (step s e st).1.next →
                (s.next ≤ id ∨ T' n id ≠ T n id) → id ∈ t'.unc) :
    Inv (step s e st).1 T' := by
  have _ := hw
  intro n t' h' id hid hnu
  have hk := (step_frame s e st).2.1 n (hstable n)
  have hold : id < s.next := by
    rcases Nat.lt_or_ge id s.next with h | h
    · exact h
    · exact absurd (hframe n t' h' id hid (Or.inl h)) hnu
  have hT : T' n id = T n id := by
    rcases Decidable.em (T' n id = T n id) with h | h
    · exact h
    · exact absurd (hframe n t' h' id hid (Or.inr h)) hnu
  -- the bound under which pending ids are kept covers `id`
  have hbound : id < (step s e st).1.all ∨ (step s e st).1.tags = s.tags := by
    by_cases himp : ∃ p u c a b d, e = .importDone p u c a b d
    · obtain ⟨p, u, c, a, b, d, rfl⟩ := himp
      cases hj : s.jImport with
      | none => right; rw [MgrTags.step_importDone_none _ _ _ _ _ _ _ _ hj]
      | some q =>
        obtain ⟨jnext, held⟩ := q
        obtain ⟨s2, hs, h0, h1⟩ := MgrTags.step_importDone_some s p u c a b d st jnext held hj
        by_cases hc : c = []
        · right; rw [hs.1]; exact (h0 hc).1
        · left
          obtain ⟨s1, _, e2, e3, hf⟩ := h1 hc
          rw [hs.2.2, hf.next, e3] at hid
          rw [hs.2.1, hf.all, e2]; exact hid
    · left
      rw [((step_frame s e st).2.2 (fun p u c a b d h => himp ⟨p, u, c, a, b, d, h⟩)).1]; omega
  cases hsn : sget s.tags n with
  | none => rw [hk.2 hsn] at h'; cases h'
  | some t =>
    have hmat : t'.mat = t.mat ∧ (id ∈ t.unc → id ∈ t'.unc) := by
      rcases hbound with hb | hb
      · obtain ⟨t2, h2, hr⟩ := hk.1 t hsn
        rw [h2] at h'; cases h'
        exact ⟨hr.1, fun h => hr.2.2 id h hb⟩
      · rw [hb, hsn] at h'; cases h'; exact ⟨rfl, fun h => h⟩
    rw [hmat.1, hT]
    exact hinv n t hsn id hold (fun h => hnu (hmat.2 h))

/-- what `invalidateTags` makes pending, by dependency class of the definition (before the
    propagation through references) -/
theorem invalidate_covers (s : St) (upd rst add : IdSet) (n : String) (t : Tag)
    (hw : TagsWF s) (ht : sget s.tags n = some t)
    -- ADDED: all ids involved are existing stream ids.  Without these the statement is false:
    -- one tag d with sfeat=1, unc=[3], all=2: `invalidateTags s [] [] [9]` sets d.unc := [0,1],
    -- losing the pending id 3 (needs hb) and not containing the added id 9 (needs hadd); the same
    -- replacement by `rangeSet all` happens in `inherit` for a tag with a pending sub-query
    -- reference, which is why `rst` and `upd` need the bound as well.
    (hb : ∀ id, id ∈ t.unc → id < s.all) (hadd : ∀ id, id ∈ add → id < s.all)
    (hrst : ∀ id, id ∈ rst → id < s.all) (hupd : ∀ id, id ∈ upd → id < s.all) :
    ∃ t', sget (invalidateTags s upd rst add).tags n = some t' ∧ t'.mat = t.mat ∧
      (∀ id, id ∈ t.unc → id ∈ t'.unc) ∧
      (∀ id, id ∈ add → id ∈ t'.unc) ∧
      (t.sfeat ≠ 0 → ∀ id, id < s.all → id ∈ t'.unc) ∧
      (t.mfeat &&& (255 - fID) ≠ 0 → ∀ id, id ∈ rst → id ∈ t'.unc) ∧
      (t.mfeat &&& (fData ||| fTimeAbs ||| fTimeRel) ≠ 0 → ∀ id, id ∈ upd → id ∈ t'.unc) := by
  have _ := hw
  rw [MgrTags.invalidateTags_eq]
  have hk := MgrTags.inherit_keep
    { s with tags := s.tags.map fun p => (p.1, MgrTags.invF s.all upd rst add p.2) } n
  obtain ⟨t', h', hr⟩ := hk.1 (MgrTags.invF s.all upd rst add t)
    (by simp only [MgrTags.sget_map (fun _ t => MgrTags.invF s.all upd rst add t), ht, Option.map_some])
  have h0 := MgrTags.trel_invF s.all upd rst add t
  refine ⟨t', h', hr.1.trans h0.1, ?_, ?_, ?_, ?_, ?_⟩
  · exact fun id h => hr.2.2 id (h0.2.2 id h (hb id h)) (hb id h)
  · exact fun id h => hr.2.2 id (MgrTags.invF_add t id h (hadd id h)) (hadd id h)
  · exact fun hs id h => hr.2.2 id (MgrTags.invF_sub t hs id h) h
  · exact fun hm id h => hr.2.2 id (MgrTags.invF_rst t hm id h (hrst id h)) (hrst id h)
  · exact fun hm id h => hr.2.2 id (MgrTags.invF_upd t hm id h (hupd id h)) (hupd id h)

/-- propagation never removes a pending stream and never touches answers -/
theorem inherit_grows (s : St) (n : String) (t : Tag) (hw : TagsWF s) (ht : sget s.tags n = some t)
    -- ADDED: the tag's pending ids are existing stream ids.  Without it the statement is false:
    -- tags a (unc=[5]) and b (subT=[a], unc=[7]), all=0: `inherit` sets b.unc := rangeSet 0 = [].
    (hb : ∀ id, id ∈ t.unc → id < s.all) :
    ∃ t', sget (inherit s).tags n = some t' ∧ t'.mat = t.mat ∧ t'.defn = t.defn ∧
          ∀ id, id ∈ t.unc → id ∈ t'.unc := by
  have _ := hw
  obtain ⟨t', h', hr⟩ := (MgrTags.inherit_keep s n).1 t ht
  exact ⟨t', h', hr.1, hr.2.1, fun id h => hr.2.2 id h (hb id h)⟩

/-- after propagation a tag is pending wherever a tag it references through its main query is,
    and everywhere if a tag it references through a sub-query has pending streams -/
theorem inherit_closed (s : St) (hw : TagsWF s)
    -- ADDED: pending ids are existing stream ids.  Without it the statement is false: tags a
    -- (unc=[5]), c (unc=[1]), b (mainT=[a], subT=[c]), all=0: `inherit` sets b.unc := rangeSet 0 = []
    -- while the main-query reference a still has 5 pending; `diverged` stays false.
    (hb : UncBounded s)
    (hok : (inherit s).diverged = false)
    (n : String) (t' : Tag) (ht : sget (inherit s).tags n = some t') :
    (∀ r ∈ t'.mainT, ∀ id, id ∈ tagUnc (inherit s).tags r → id ∈ t'.unc) ∧
    ((∃ r ∈ t'.subT, tagUnc (inherit s).tags r ≠ []) → ∀ id, id < s.all → id ∈ t'.unc) := by
  rw [MgrTags.inherit_diverged] at hok
  simp only [Bool.or_eq_false_iff, Bool.not_eq_false'] at hok
  exact MgrTags.inherit_closed_aux s hw hb hok.2 n t' ht

/-- publishing a tagging-job result: correct for every stream that is decided afterwards -/
theorem tagjob_publish_sound (s : St) (st : Started) (name : String) (snap ot : Tag) (held result : List Nat)
    (T0 T : Nat → Bool)
    (hw : TagsWF s)
    (hj : s.jTag = some (name, snap, held)) (ht : sget s.tags name = some ot) (hd : ot.defn = snap.defn)
    (hg : ot.gen = snap.gen)  -- CHANGED (gen): the tag is still the incarnation the job was started for
    -- what the snapshot had decided was correct when the job started
    (hsnap : ∀ id, id < s.next → id ∉ snap.unc → (id ∈ snap.mat ↔ T0 id = true))
    -- the search answered exactly for the streams it was asked about
    (hres : ∀ id, id ∈ result ↔ (id ∈ snap.unc ∧ T0 id = true))
    -- every stream whose truth changed while the job ran is pending after the completion
    (hcov : ∀ t', sget (step s (.tagDone name result) st).1.tags name = some t' →
              ∀ id, id < s.next → T id ≠ T0 id → id ∈ t'.unc) :
    ∀ t', sget (step s (.tagDone name result) st).1.tags name = some t' →
      ∀ id, id < s.next → id ∉ t'.unc → (id ∈ t'.mat ↔ T id = true) := by
  have _ := hw
  intro t' h' id hid hnu
  have hT : T id = T0 id := by
    rcases Decidable.em (T id = T0 id) with h | h
    · exact h
    · exact absurd (hcov t' h' id hid h) hnu
  rw [MgrTags.step_tagDone_mat s st name snap ot held result hj ht hd hg t' h', hT]
  simp only [MgrTags.mem_union, MgrTags.mem_diff, MgrTags.mem_ofList, hres]
  by_cases hu : id ∈ snap.unc
  · simp [hu]
  · simp [hu, hsnap id hid hu]

/-- a mark update changes exactly the given streams -/
theorem mark_update_exact (s : St) (name : String) (t : Tag) (addIds delIds : List Nat)
    (hw : TagsWF s) (ht : sget s.tags name = some t) :
    ∃ t', sget (markUpdate s name addIds delIds).1.tags name = some t' ∧
      ∀ id, id ∈ t'.mat ↔ ((id ∈ t.mat ∨ id ∈ addIds) ∧ id ∉ delIds) := by
  have _ := hw
  exact MgrTags.markUpdate_mat s name t addIds delIds ht

/-! ### set operations behave like sets (used throughout) -/
theorem mem_union (a b : IdSet) (x : Nat) : x ∈ union a b ↔ x ∈ a ∨ x ∈ b := MgrTags.mem_union a b x
theorem mem_diff (a b : IdSet) (x : Nat) : x ∈ diff a b ↔ x ∈ a ∧ x ∉ b := MgrTags.mem_diff a b x
theorem mem_inter (a b : IdSet) (x : Nat) : x ∈ inter a b ↔ x ∈ a ∧ x ∈ b := MgrTags.mem_inter a b x
theorem mem_rangeSet (n x : Nat) : x ∈ rangeSet n ↔ x < n := MgrTags.mem_rangeSet n x

end Pk.Props.C06
