import Pk.Model.Manager
namespace Pk.Props.C06
open Pk.Mgr
theorem placeholder : (release ({} : St) []).idx = [] := rfl
end Pk.Props.C06
