/-
  C08, chronological arrival — the two full statements of Pk/Props/C08.lean decided.

  (1) As stated, BOTH are false:
      * `batching_irrelevant_chrono_counterexample : ¬ C08.BatchingIrrelevantChrono` — a REAL mechanism,
        the one of finding F34 (which is a chronological history): a segment waits behind a hole when
        a.pcap is imported; a packet of b.pcap, more than the inactivity timeout later, makes the
        reassembler give up the hole (`skipFlush` in `FlushCloseOlderThan`) and deliver the waiting
        bytes to the old stream.  That stream has no packet in b.pcap, so the import of b.pcap does
        not rewrite it: incrementally its `Data` lacks the bytes that the one-shot import has.
        (`C05More.flow_local_false_across_timeout` is the same flush seen from the reassembler.)
      * `no_double_id_chrono_counterexample : ¬ C08.NoDoubleIdChrono` — NOT a mechanism of the code but
        two gaps of the statement: it does not tie the capture names handed to an import (`b.1`) to
        the captures of its packets (`b.2`), and it does not say that a packet is identified by
        (file, index) (`no_double_id_chrono_dup_witness`).  With both repaired no violation is
        known: none among 30000 generated histories (TCP/UDP, ties at the batch boundaries, gaps
        beyond the timeout), and the proof below covers everything except ties against the feed order.

  (2) What is TRUE, for ALL packet contents (no well-formedness of the conversations is needed —
      `C05More.WellFormedWire` is not used) under the decidable hypotheses `ChronoHist`:
        strict   every packet of an earlier batch is fed before every packet of a later batch
                 (`Before` = `comparePackets`: older, or equally old and smaller file name / index
                 — ties broken as `sortPkts` breaks them).  -- ADDED instead of `p.ts ≤ q.ts`: makes the
                 feed of an import the previous feed followed by the new packets (`feed_chrono`);
                 `Before.of_ts_lt`: strictly increasing timestamps suffice
        keys     packets are identified by (file, index)            -- ADDED (dup witness)
        names    the names of an import are the captures of its packets, `fresh`: no capture is
                 imported twice                                       -- ADDED (counterexample)
      * `prefix_extends` (ANY timestamps), `prefix_extends_window`: `reasm (ps ++ qs)` extends `reasm ps`
        stream by stream; inside one window a stream that gets no packet does not change at all;
      * `no_double_id_chrono_strict` (ANY timestamps, flushes included) and its instance
        `no_double_id_chrono_window`: no two visible IDs share a packet;
      * `ids_stable_chrono` (ANY timestamps), `ids_stable_chrono_window`: a visible stream stays
        visible under its ID, as an extension; `visible_ids_chrono`: the visible IDs are `0 .. n-1`,
        ID `k` = `k`-th stream of the reassembler, same packets, its data a prefix of the current data;
      * `batching_irrelevant_chrono_window` (all packets in ONE inactivity window): the visible
        streams are those of the one-shot import — as the permutation of `BatchingIrrelevantChrono`
        and, stronger, as equal lists with equal IDs and equal streams (`…_eq`).  Beyond the window
        the statement is false (F34, above).
      Not covered: ties at a batch boundary that `sortPkts` orders against the arrival order.  The
      repaired full statements are `NoDoubleIdChronoTies`, `BatchingIrrelevantChronoTies` (definitions,
      NOT proved); `no_double_id_chrono_partial`, `batching_irrelevant_chrono_partial` prove them under
      the one extra hypothesis `TiesInFeedOrder` (`chronoHist_iff_ties`); no counterexample is known.
-/
import Pk.Props.C08
import Pk.Proofs.ImportChronoHist

namespace Pk.Props.C08Chrono
open Pk.Import Pk.Props.C08 Pk.Proofs.Import Pk.Proofs.ImportReasm Pk.Proofs.ImportChrono

/-! ### the histories of `C08.NoDoubleIdChrono` / `C08.BatchingIrrelevantChrono` -/

/-- the stack after the incremental imports of `batches` (the fold of the two statements) -/
def incrStack (batches : List (List String × List Pkt)) : List Index :=
  (batches.foldl (fun (acc : List Index × List Pkt) b =>
      (importStep b.1 (sortPkts (acc.2 ++ b.2)) acc.1, acc.2 ++ b.2)) ([], [])).1

/-- the stack after the one-shot import of everything -/
def oneStack (batches : List (List String × List Pkt)) : List Index :=
  importStep (batches.map (·.1)).flatten (sortPkts (batches.foldr (fun b acc => b.2 ++ acc) [])) []

theorem incrStack_eq (bs : List Batch) : incrStack bs = (runHist bs).1 := rfl

theorem sortPkts_of_sorted (l : List Pkt) (h : l.Pairwise (fun a b => pktLe a b = true)) : sortPkts l = l :=
  List.mergeSort_of_pairwise h

/-! ### (1) the statements as written are false -/

/-- the wire of `C08.finding_F34`: handshake, an ACK, and a byte behind a hole -/
def f34w : List Pkt :=
  [tcpPkt "a" 0 1000000 true true false 100 [], tcpPkt "a" 1 1000010 false true true 1000 [],
   tcpPkt "a" 2 1000020 true false true 101 [], tcpPkt "a" 3 1000030 true false true 102 [0x42]]
/-- a packet of the same 4-tuple 399 s later -/
def f34late : Pkt := tcpPkt "b" 0 400000000 true false true 101 [0x41]

/-- COUNTEREXAMPLE (real mechanism, F34): a.pcap then b.pcap, chronological; importing b.pcap makes
    the reassembler give up the hole of the old connection and deliver byte 0x42 to stream 0, which
    is not rewritten because it has no packet in b.pcap.  One-shot: stream 0 carries 0x42. -/
theorem batching_irrelevant_chrono_counterexample : ¬ BatchingIrrelevantChrono := by
  intro H
  have h := H [(["a"], f34w), (["b"], [f34late])] (by decide)
  have e1 : sortPkts ([] ++ f34w) = f34w := sortPkts_of_sorted _ (by decide)
  have e2 : sortPkts (([] ++ f34w) ++ [f34late]) = f34w ++ [f34late] := sortPkts_of_sorted _ (by decide)
  have e3 : sortPkts (f34w ++ ([f34late] ++ [])) = f34w ++ [f34late] := sortPkts_of_sorted _ (by decide)
  simp only [List.foldl_cons, List.foldl_nil, List.foldr_cons, List.foldr_nil, e1, e2, e3] at h
  have v1 : visibleIDs (importStep ["b"] (f34w ++ [f34late]) (importStep ["a"] f34w [])) = List.range 2 :=
    visibleIDs_range _ 2 (by decide) (by decide)
  have v2 : visibleIDs (importStep (List.map (·.1) [(["a"], f34w), (["b"], [f34late])]).flatten (f34w ++ [f34late]) []) = List.range 2 :=
    visibleIDs_range _ 2 (by decide) (by decide)
  unfold visible at h
  rw [v1, v2] at h
  exact absurd h (by decide)

/-- COUNTEREXAMPLE (gap of the statement, not of the code): the second import is told that "a" is
    one of its new captures although it only brings b.pcap; the continued flow then counts as new
    and gets ID 1 while ID 0 stays visible. -/
theorem no_double_id_chrono_counterexample : ¬ NoDoubleIdChrono := by
  intro H
  have h := H [(["a"], [udpPkt "a" 0 1000000 0x41]), (["a", "b"], [udpPkt "b" 0 2000000 0x42])] (by decide) 0 1 (by decide)
  have e1 : sortPkts ([] ++ [udpPkt "a" 0 1000000 0x41]) = [udpPkt "a" 0 1000000 0x41] := sortPkts_of_sorted _ (by decide)
  have e2 : sortPkts (([] ++ [udpPkt "a" 0 1000000 0x41]) ++ [udpPkt "b" 0 2000000 0x42]) =
      [udpPkt "a" 0 1000000 0x41, udpPkt "b" 0 2000000 0x42] := sortPkts_of_sorted _ (by decide)
  simp only [List.foldl_cons, List.foldl_nil, e1, e2] at h
  exact absurd h (by decide)

/-- WITNESS for the hypothesis `keys` (strict order, names and freshness are as required, even the
    packet references (timestamp, file, index) are distinct): two flows start with packets that carry
    the same (file, index).  `StreamByFirstPacketSource` does not look at the timestamp, so when
    b.pcap continues the second flow, the lookup of its first packet answers the ID of the first
    flow: the second flow is written under ID 0 while its old version stays visible under ID 1. -/
theorem no_double_id_chrono_dup_witness :
    let bs : List Batch := [(["a"], [udpPkt "a" 0 1000000 0x41, { udpPkt "a" 0 1000001 0x42 with sport := 2222 }]),
                            (["b"], [{ udpPkt "b" 0 1000002 0x43 with sport := 2222 }])]
    bs.Pairwise (fun bi bj => Before bi.2 bj.2) ∧ (∀ b ∈ bs, ∀ p ∈ b.2, p.file ∈ b.1) ∧
    bs.Pairwise (fun bi bj => ∀ p ∈ bi.2, p.file ∉ bj.1) ∧ ((allPkts bs).map Pkt.ref).Nodup ∧
    ¬ ((allPkts bs).map Pkt.key).Nodup ∧ ¬ NoDoubleIdAt (incrStack bs) 0 1 := by
  intro bs
  refine ⟨by decide, by decide, by decide, by decide, by decide, ?_⟩
  have e1 : sortPkts ([] ++ [udpPkt "a" 0 1000000 0x41, { udpPkt "a" 0 1000001 0x42 with sport := 2222 }]) =
      [udpPkt "a" 0 1000000 0x41, { udpPkt "a" 0 1000001 0x42 with sport := 2222 }] := sortPkts_of_sorted _ (by decide)
  have e2 : sortPkts (([] ++ [udpPkt "a" 0 1000000 0x41, { udpPkt "a" 0 1000001 0x42 with sport := 2222 }]) ++
        [{ udpPkt "b" 0 1000002 0x43 with sport := 2222 }]) =
      [udpPkt "a" 0 1000000 0x41, { udpPkt "a" 0 1000001 0x42 with sport := 2222 }, { udpPkt "b" 0 1000002 0x43 with sport := 2222 }] :=
    sortPkts_of_sorted _ (by decide)
  simp only [bs, incrStack, List.foldl_cons, List.foldl_nil, e1, e2]
  decide

/-! ### (2) the reassembler: feeding more packets extends the streams -/

/-- strictly increasing timestamps across the batches are enough for `Before` -/
theorem Before.of_ts_lt {ps qs : List Pkt} (h : ∀ p ∈ ps, ∀ q ∈ qs, p.ts < q.ts) : Before ps qs := by
  intro p hp q hq
  exact (pktLt_iff p q).mpr (Or.inl (h p hp q hq))

/-- the feed of a chronological import is the previous feed followed by the new packets -/
theorem feed_chrono (ps qs : List Pkt) (hk : ((ps ++ qs).map Pkt.key).Nodup) (hb : Before ps qs) :
    sortPkts (ps ++ qs) = sortPkts ps ++ sortPkts qs := sortPkts_append ps qs hk hb

/-- `prefix_extends`, for ANY packets and ANY timestamps (flushes, time-outs and resets included):
    `reasm (ps ++ qs)` has the streams of `reasm ps` at the same positions, each with the same first
    packet, its old packets and its old data as a prefix, the additional packets being packets of
    `qs`; the additional streams hold packets of `qs` only (so they belong to conversations, or
    to continuations after a time-out, whose first packet is in `qs`) and at least one. -/
theorem prefix_extends (ps qs : List Pkt) :
    (reasm ps).size ≤ (reasm (ps ++ qs)).size ∧
    (∀ (i : Nat) (s : Stream), (reasm ps)[i]? = some s → ∃ s' np nd, (reasm (ps ++ qs))[i]? = some s' ∧
      s'.pkts = s.pkts ++ np ∧ s'.data = s.data ++ nd ∧ s'.pkts.head? = s.pkts.head? ∧ s.pkts ≠ [] ∧
      ∀ x ∈ np, ∃ q ∈ qs, q.ref = x.1) ∧
    (∀ (i : Nat) (s' : Stream), (reasm ps).size ≤ i → (reasm (ps ++ qs))[i]? = some s' →
      s'.pkts ≠ [] ∧ ∀ x ∈ s'.pkts, ∃ q ∈ qs, q.ref = x.1) := by
  have hext := reasm_append_ext ps qs
  refine ⟨hext.size_le, ?_, ?_⟩
  · intro i s hs
    have hi : i < (reasm ps).size := by
      rcases Nat.lt_or_ge i (reasm ps).size with h | h
      · exact h
      · rw [Array.getElem?_eq_none h] at hs; cases hs
    have hi' : i < (reasm (ps ++ qs)).size := Nat.lt_of_lt_of_le hi hext.size_le
    have es : (reasm ps)[i]! = s := by
      have : (reasm ps)[i]? = some (reasm ps)[i]! := by simp [hi]
      rw [this] at hs; exact Option.some.inj hs
    obtain ⟨np, ⟨hp, more, hd⟩, hq⟩ := hext.ext i
    rw [es] at hp hd
    have hne : s.pktsRev ≠ [] := by rw [← es]; exact (reasm_pkts ps).1 i hi
    have hne' : s.pkts ≠ [] := by unfold Stream.pkts; simpa using hne
    refine ⟨(reasm (ps ++ qs))[i]!, np.reverse, more.reverse, by simp [hi'], ?_, ?_, ?_, hne', ?_⟩
    · unfold Stream.pkts; rw [hp, List.reverse_append]
    · unfold Stream.data; rw [hd, List.reverse_append]
    · have : (reasm (ps ++ qs))[i]!.pkts = s.pkts ++ np.reverse := by
        unfold Stream.pkts; rw [hp, List.reverse_append]
      rw [this]
      cases hsp : s.pkts with
      | nil => exact absurd hsp hne'
      | cons x l => rfl
    · intro x hx; exact hq x (List.mem_reverse.mp hx)
  · intro i s' hge hs'
    have hi' : i < (reasm (ps ++ qs)).size := by
      rcases Nat.lt_or_ge i (reasm (ps ++ qs)).size with h | h
      · exact h
      · rw [Array.getElem?_eq_none h] at hs'; cases hs'
    have es : (reasm (ps ++ qs))[i]! = s' := by
      have : (reasm (ps ++ qs))[i]? = some (reasm (ps ++ qs))[i]! := by simp [hi']
      rw [this] at hs'; exact Option.some.inj hs'
    have hne := hext.new i hge hi'
    obtain ⟨np, ⟨hp, _⟩, hq⟩ := hext.ext i
    rw [array_get!_default _ i hge, default_pktsRev, List.append_nil] at hp
    rw [es] at hne hp
    refine ⟨by unfold Stream.pkts; simpa using hne, ?_⟩
    intro x hx
    unfold Stream.pkts at hx
    rw [List.mem_reverse, hp] at hx
    exact hq x hx

/-- `prefix_extends_window`: if moreover all packets lie in one inactivity window, a stream of
    `reasm ps` that gets no packet of `qs` is literally unchanged in `reasm (ps ++ qs)` (data, flags).
    Across the timeout this fails (`batching_irrelevant_chrono_counterexample`). -/
theorem prefix_extends_window (t0 : Nat) (ps qs : List Pkt) (hw : InWindow t0 (ps ++ qs)) (i : Nat) (s s' : Stream)
    (hs : (reasm ps)[i]? = some s) (hs' : (reasm (ps ++ qs))[i]? = some s') (hp : s'.pkts = s.pkts) : s' = s := by
  have hi : i < (reasm ps).size := by
    rcases Nat.lt_or_ge i (reasm ps).size with h | h
    · exact h
    · rw [Array.getElem?_eq_none h] at hs; cases hs
  have hi' : i < (reasm (ps ++ qs)).size := Nat.lt_of_lt_of_le hi (reasm_append_ext ps qs).size_le
  have es : (reasm ps)[i]! = s := by
    have : (reasm ps)[i]? = some (reasm ps)[i]! := by simp [hi]
    rw [this] at hs; exact Option.some.inj hs
  have es' : (reasm (ps ++ qs))[i]! = s' := by
    have : (reasm (ps ++ qs))[i]? = some (reasm (ps ++ qs))[i]! := by simp [hi']
    rw [this] at hs'; exact Option.some.inj hs'
  have := reasm_window_frame t0 ps qs hw i hi (by
    rw [es, es']
    unfold Stream.pkts at hp
    exact List.reverse_inj.mp hp)
  rw [es, es'] at this
  exact this

/-! ### (2) histories -/

/-- the visible IDs are `0 .. n-1` where `n` is the number of streams of the reassembler on the whole
    feed; ID `k` shows the `k`-th stream: its packets, and a prefix of its data -/
theorem visible_ids_chrono (bs : List Batch) (h : ChronoHist bs) :
    visibleIDs (incrStack bs) = List.range (reasm (sortPkts (allPkts bs))).size ∧
    ∀ k : Nat, k < (reasm (sortPkts (allPkts bs))).size → ∃ V nd, visibleStream (incrStack bs) k = some V ∧
      V.pkts = (reasm (sortPkts (allPkts bs)))[k]!.pkts ∧ (reasm (sortPkts (allPkts bs)))[k]!.data = V.data ++ nd := by
  obtain ⟨_, hI⟩ := runHist_inv h
  rw [incrStack_eq]
  refine ⟨visibleIDs_range _ _ (fun ix hm e he => (hI.entries ix hm e he).1) ?_, ?_⟩
  · intro k hk
    obtain ⟨V, hv, _⟩ := hI.vis k hk
    obtain ⟨ix, hm, he⟩ := visibleStream_mem hv
    exact ⟨ix, hm, (k, V), he, rfl⟩
  · intro k hk
    obtain ⟨V, hv, hp, more, hd⟩ := hI.vis k hk
    refine ⟨V, more.reverse, hv, ?_, ?_⟩
    · unfold Stream.pkts; rw [hp]
    · unfold Stream.data; rw [hd, List.reverse_append]

/-- `no_double_id_chrono`, proved for strictly chronological histories with ANY timestamps (gaps
    beyond the inactivity timeout, flushes, resets included): after any number of imports no two
    visible IDs share a packet.  The conclusion is that of `C08.NoDoubleIdChrono`; the hypothesis
    `ChronoHist` replaces `p.ts ≤ q.ts` (see the header for the three ADDED parts). -/
theorem no_double_id_chrono_strict (batches : List (List String × List Pkt))
    (h : ChronoHist batches) : -- ADDED: strict order instead of `p.ts ≤ q.ts`, keys, names, fresh (see header)
    let stack := (batches.foldl (fun (acc : List Index × List Pkt) b =>
        (importStep b.1 (sortPkts (acc.2 ++ b.2)) acc.1, acc.2 ++ b.2)) ([], [])).1
    ∀ i j, i ≠ j → NoDoubleIdAt stack i j := by
  intro stack i j hij
  obtain ⟨_, hI⟩ := runHist_inv h
  have hk : ((sortPkts (allPkts batches)).map Pkt.key).Nodup := sortPkts_keys h.keys
  exact hI.noDouble (reasm_keyDisj _ hk) i j hij

/-- the instance asked for: all packets in one inactivity window -/
theorem no_double_id_chrono_window (batches : List (List String × List Pkt)) (h : ChronoHist batches)
    (t0 : Nat) (_hw : HistWindow t0 batches) :
    ∀ i j, i ≠ j → NoDoubleIdAt (incrStack batches) i j :=
  no_double_id_chrono_strict batches h

theorem allPkts_append (bs : List Batch) (b : Batch) : allPkts (bs ++ [b]) = allPkts bs ++ b.2 := by
  induction bs with
  | nil => simp [allPkts]
  | cons x bs ih => rw [List.cons_append, allPkts_cons, allPkts_cons, ih, List.append_assoc]

/-- a prefix of a chronological history is one, and the last batch satisfies the step hypotheses -/
theorem chronoHist_snoc {bs : List Batch} {b : Batch} (h : ChronoHist (bs ++ [b])) :
    ChronoHist bs ∧ RestHyp (allPkts bs) [b] := by
  obtain ⟨h1, h2, h3, h4⟩ := h
  rw [List.pairwise_append] at h1 h4
  rw [allPkts_append] at h2
  refine ⟨⟨h1.1, ?_, fun b' hb' => h3 b' (List.mem_append_left _ hb'), h4.1⟩, ?_, ?_, ?_, ?_, ?_, ?_⟩
  · rw [List.map_append] at h2; exact (List.nodup_append.mp h2).1
  · intro b' hb'
    rw [List.mem_singleton] at hb'; subst hb'
    intro p hp q hq
    obtain ⟨bi, hbi, hpi⟩ := mem_allPkts.mp hp
    exact h1.2.2 bi hbi b' (List.mem_singleton.mpr rfl) p hpi q hq
  · exact List.pairwise_singleton _ _
  · simpa [allPkts] using h2
  · intro b' hb'
    exact h3 b' (List.mem_append_right _ hb')
  · intro b' hb' p hp
    rw [List.mem_singleton] at hb'; subst hb'
    obtain ⟨bi, hbi, hpi⟩ := mem_allPkts.mp hp
    exact h4.2.2 bi hbi b' (List.mem_singleton.mpr rfl) p hpi
  · exact List.pairwise_singleton _ _

theorem incrStack_snoc (bs : List Batch) (b : Batch) :
    incrStack (bs ++ [b]) = importStep b.1 (sortPkts ((runHist bs).2 ++ b.2)) (incrStack bs) := by
  unfold incrStack
  rw [List.foldl_append]
  rfl

/-- `ids_stable_chrono` (ANY timestamps): a stream that is visible before the import of batch `b` is
    visible after it under the same ID, with its packets and its data extended (by packets of `b`) -/
theorem ids_stable_chrono (bs : List Batch) (b : Batch) (h : ChronoHist (bs ++ [b])) (k : Nat) (V : Stream)
    (hv : visibleStream (incrStack bs) k = some V) :
    ∃ V' np nd, visibleStream (incrStack (bs ++ [b])) k = some V' ∧
      V'.pkts = V.pkts ++ np ∧ V'.data = V.data ++ nd ∧ ∀ x ∈ np, ∃ q ∈ b.2, q.ref = x.1 := by
  obtain ⟨hbs, hrest⟩ := chronoHist_snoc h
  obtain ⟨hacc, hI⟩ := runHist_inv hbs
  obtain ⟨hs, hstep⟩ := hrest.step hI
  rw [incrStack_snoc, hacc, hs, importStep_eq]
  obtain ⟨V', np, nd, h1, h2, h3, h4⟩ := hstep.stable k V hv
  refine ⟨V', np, nd, h1, h2, h3, ?_⟩
  intro x hx
  obtain ⟨q, hq, e⟩ := h4 x hx
  exact ⟨q, mem_sortPkts.mp hq, e⟩

/-- the instance asked for: all packets in one inactivity window -/
theorem ids_stable_chrono_window (bs : List Batch) (b : Batch) (h : ChronoHist (bs ++ [b]))
    (t0 : Nat) (_hw : HistWindow t0 (bs ++ [b])) (k : Nat) (V : Stream)
    (hv : visibleStream (incrStack bs) k = some V) :
    ∃ V' np nd, visibleStream (incrStack (bs ++ [b])) k = some V' ∧
      V'.pkts = V.pkts ++ np ∧ V'.data = V.data ++ nd ∧ ∀ x ∈ np, ∃ q ∈ b.2, q.ref = x.1 :=
  ids_stable_chrono bs b h k V hv

/-- the one-shot import as a history of one batch -/
theorem oneStack_eq (bs : List Batch) :
    oneStack bs = incrStack [((bs.map (·.1)).flatten, allPkts bs)] := rfl

theorem chronoHist_one {bs : List Batch} (h : ChronoHist bs) : ChronoHist [((bs.map (·.1)).flatten, allPkts bs)] := by
  refine ⟨List.pairwise_singleton _ _, by simpa [allPkts] using h.keys, ?_, List.pairwise_singleton _ _⟩
  intro b hb p hp
  rw [List.mem_singleton] at hb; subst hb
  obtain ⟨b', hb', hp'⟩ := mem_allPkts.mp hp
  exact List.mem_flatten.mpr ⟨b'.1, List.mem_map.mpr ⟨b', hb', rfl⟩, h.names b' hb' p hp'⟩

theorem allPkts_one (N : List String) (l : List Pkt) : allPkts [(N, l)] = l := by simp [allPkts]

/-- `batching_irrelevant_chrono_window`, strong form: if all packets lie in one inactivity window,
    the incremental imports and the one-shot import show THE SAME visible streams under THE SAME
    IDs: the streams of the reassembler on the whole feed, numbered in creation order -/
theorem batching_irrelevant_chrono_window_eq (batches : List (List String × List Pkt)) (h : ChronoHist batches)
    (t0 : Nat) (hw : HistWindow t0 batches) :
    visible (incrStack batches) = visible (oneStack batches) ∧
    visible (incrStack batches) =
      (List.range (reasm (sortPkts (allPkts batches))).size).map (fun k => (k, (reasm (sortPkts (allPkts batches)))[k]!)) := by
  have h1 := chronoHist_one h
  have hw1 : HistWindow t0 [((batches.map (·.1)).flatten, allPkts batches)] := by
    unfold HistWindow; rw [allPkts_one]; exact hw
  have a := visible_of_cur (runHist_inv h).2 (runHist_cur h t0 hw)
  have b := visible_of_cur (runHist_inv h1).2 (runHist_cur h1 t0 hw1)
  rw [allPkts_one] at b
  rw [oneStack_eq, incrStack_eq, incrStack_eq, a, b]
  exact ⟨rfl, rfl⟩

/-- `batching_irrelevant_chrono_window`: the conclusion of `C08.BatchingIrrelevantChrono` (visible
    streams of the incremental imports = those of the one-shot import up to renumbering, as a
    permutation of (packets, data) pairs) under `ChronoHist` and the one-window hypothesis -/
theorem batching_irrelevant_chrono_window (batches : List (List String × List Pkt))
    (h : ChronoHist batches) -- ADDED: strict order instead of `p.ts ≤ q.ts`, keys, names, fresh (see header)
    (t0 : Nat) (hw : HistWindow t0 batches) : -- ADDED: one inactivity window (F34 beyond it)
    let incr := (batches.foldl (fun (acc : List Index × List Pkt) b =>
        (importStep b.1 (sortPkts (acc.2 ++ b.2)) acc.1, acc.2 ++ b.2)) ([], [])).1
    let all := batches.foldr (fun b acc => b.2 ++ acc) []
    let one := importStep (batches.map (·.1)).flatten (sortPkts all) []
    ((visible incr).map (fun e => (e.2.pkts, e.2.data))).Perm ((visible one).map (fun e => (e.2.pkts, e.2.data))) := by
  intro incr all one
  have := (batching_irrelevant_chrono_window_eq batches h t0 hw).1
  have e1 : incr = incrStack batches := rfl
  have e2 : one = oneStack batches := rfl
  rw [e1, e2, this]

/-! ### the repaired full statements, and exactly what is missing for them -/

/-- the hypotheses of C08.lean (`p.ts ≤ q.ts`: ties between batches allowed) with the two repairs
    that `no_double_id_chrono_counterexample` / `no_double_id_chrono_dup_witness` call for -/
structure ChronoHistTies (bs : List Batch) : Prop where
  chrono : bs.Pairwise (fun bi bj => ∀ p ∈ bi.2, ∀ q ∈ bj.2, p.ts ≤ q.ts)
  keys : ((allPkts bs).map Pkt.key).Nodup                              -- ADDED: dup witness
  names : ∀ b ∈ bs, ∀ p ∈ b.2, p.file ∈ b.1                            -- ADDED: counterexample
  fresh : bs.Pairwise (fun bi bj => ∀ p ∈ bi.2, p.file ∉ bj.1)        -- ADDED: counterexample

/-- packets of different batches with EQUAL timestamps arrive in the order in which `sortPkts` puts
    them (smaller capture name first) -/
def TiesInFeedOrder (bs : List Batch) : Prop :=
  bs.Pairwise (fun bi bj => ∀ p ∈ bi.2, ∀ q ∈ bj.2, p.ts = q.ts → pktLt p q = true)

/-- `ChronoHist` is `ChronoHistTies` plus `TiesInFeedOrder` -/
theorem chronoHist_iff_ties (bs : List Batch) : ChronoHist bs ↔ ChronoHistTies bs ∧ TiesInFeedOrder bs := by
  have key : ∀ (ps qs : List Pkt), Before ps qs ↔
      ((∀ p ∈ ps, ∀ q ∈ qs, p.ts ≤ q.ts) ∧ (∀ p ∈ ps, ∀ q ∈ qs, p.ts = q.ts → pktLt p q = true)) := by
    intro ps qs
    constructor
    · intro h
      refine ⟨?_, fun p hp q hq _ => h p hp q hq⟩
      intro p hp q hq
      rcases (pktLt_iff p q).mp (h p hp q hq) with h1 | ⟨h1, _⟩
      · exact Nat.le_of_lt h1
      · exact Nat.le_of_eq h1
    · rintro ⟨h1, h2⟩ p hp q hq
      rcases Nat.lt_or_ge p.ts q.ts with h | h
      · exact (pktLt_iff p q).mpr (Or.inl h)
      · exact h2 p hp q hq (Nat.le_antisymm (h1 p hp q hq) h)
  have hpw : bs.Pairwise (fun bi bj => Before bi.2 bj.2) ↔
      bs.Pairwise (fun bi bj => ∀ p ∈ bi.2, ∀ q ∈ bj.2, p.ts ≤ q.ts) ∧ TiesInFeedOrder bs := by
    unfold TiesInFeedOrder
    rw [← List.pairwise_and_iff]
    constructor <;> intro h <;> exact h.imp (fun hab => by first | exact (key _ _).mp hab | exact (key _ _).mpr hab)
  constructor
  · intro h
    obtain ⟨a, b⟩ := hpw.mp h.strict
    exact ⟨⟨a, h.keys, h.names, h.fresh⟩, b⟩
  · rintro ⟨h, ht⟩
    exact ⟨hpw.mpr ⟨h.chrono, ht⟩, h.keys, h.names, h.fresh⟩

/-- FULL STATEMENT, repaired (NOT PROVED for ties; no counterexample among 30000 generated
    histories with ties and gaps): `C08.NoDoubleIdChrono` with names tied to packets, no capture
    imported twice, packets identified by (file, index) -/
def NoDoubleIdChronoTies : Prop :=
  ∀ bs : List Batch, ChronoHistTies bs → ∀ i j, i ≠ j → NoDoubleIdAt (incrStack bs) i j

/-- FULL STATEMENT, repaired (NOT PROVED for ties; no counterexample among the generated histories
    inside one window): `C08.BatchingIrrelevantChrono` with the same repairs and all packets in one
    inactivity window (beyond the window it is false: `batching_irrelevant_chrono_counterexample`) -/
def BatchingIrrelevantChronoTies : Prop :=
  ∀ (bs : List Batch) (t0 : Nat), ChronoHistTies bs → HistWindow t0 bs →
    ((visible (incrStack bs)).map (fun e => (e.2.pkts, e.2.data))).Perm
      ((visible (oneStack bs)).map (fun e => (e.2.pkts, e.2.data)))

/-- PARTIAL: `NoDoubleIdChronoTies` for histories whose ties are in feed order.  MISSING: batches
    that share a timestamp at their boundary while the later batch has the smaller capture name —
    then `sortPkts` feeds new packets BEFORE old ones, the feed is no longer an extension of the
    previous feed, streams may be created in another order and start with a new packet (the import
    then classifies them as `reset`); the proof by extension (`prefix_extends`) does not apply. -/
theorem no_double_id_chrono_partial (bs : List Batch) (h : ChronoHistTies bs) (ht : TiesInFeedOrder bs) :
    ∀ i j, i ≠ j → NoDoubleIdAt (incrStack bs) i j :=
  no_double_id_chrono_strict bs ((chronoHist_iff_ties bs).mpr ⟨h, ht⟩)

/-- PARTIAL: `BatchingIrrelevantChronoTies` for histories whose ties are in feed order (missing: as
    for `no_double_id_chrono_partial`) -/
theorem batching_irrelevant_chrono_partial (bs : List Batch) (t0 : Nat) (h : ChronoHistTies bs)
    (ht : TiesInFeedOrder bs) (hw : HistWindow t0 bs) :
    ((visible (incrStack bs)).map (fun e => (e.2.pkts, e.2.data))).Perm
      ((visible (oneStack bs)).map (fun e => (e.2.pkts, e.2.data))) :=
  batching_irrelevant_chrono_window bs ((chronoHist_iff_ties bs).mpr ⟨h, ht⟩) t0 hw

/-! ### non-vacuity: a two-batch history -/

/-- a.pcap: a TCP handshake, one data segment, and a UDP datagram -/
def exA : List Pkt :=
  [tcpPkt "a" 0 1000000 true true false 100 [], tcpPkt "a" 1 1000010 false true true 1000 [],
   tcpPkt "a" 2 1000020 true false true 101 [1], udpPkt "a" 3 1000030 0x41]
/-- b.pcap: the TCP conversation and the UDP flow go on, a second UDP flow starts -/
def exB : List Pkt :=
  [tcpPkt "b" 0 1000040 true false true 102 [2], udpPkt "b" 1 1000050 0x42,
   { udpPkt "b" 2 1000060 0x43 with sport := 2222 }]
def exHist : List Batch := [(["a"], exA), (["b"], exB)]

/-- the hypotheses are satisfiable (and decidable), also those of the statements of C08.lean -/
example : ChronoHist exHist ∧ HistWindow 1000000 exHist ∧
    exHist.Pairwise (fun bi bj => ∀ p ∈ bi.2, ∀ q ∈ bj.2, p.ts ≤ q.ts) := by decide

example : ChronoHistTies exHist ∧ TiesInFeedOrder exHist := (chronoHist_iff_ties _).mp (by decide)

/-- a tie at the batch boundary in feed order ("a" < "b") is covered -/
example : ChronoHist [(["a"], [udpPkt "a" 0 1000000 0x41]), (["b"], [udpPkt "b" 0 1000000 0x42])] := by decide

/-- … a tie against the feed order is not -/
example : ¬ ChronoHist [(["b"], [udpPkt "b" 0 1000000 0x41]), (["a"], [udpPkt "a" 0 1000000 0x42])] := by decide

theorem exHist_stack : incrStack exHist = importStep ["b"] (exA ++ exB) (importStep ["a"] exA []) := by
  have e1 : sortPkts ([] ++ exA) = exA := sortPkts_of_sorted _ (by decide)
  have e2 : sortPkts (([] ++ exA) ++ exB) = exA ++ exB := sortPkts_of_sorted _ (by decide)
  simp only [exHist, incrStack, List.foldl_cons, List.foldl_nil, e1, e2]

/-- … and the conclusions say something: after a.pcap two streams are visible; after b.pcap three:
    IDs 0 and 1 are the old streams extended (packets and data), ID 2 is the new flow; the one-shot
    import shows the same three streams -/
example :
    ((visibleStream (importStep ["a"] exA []) 0).map (fun s => (s.npkts, s.data))) = some (3, [(2, [1])]) ∧
    ((visibleStream (importStep ["a"] exA []) 1).map (fun s => (s.npkts, s.data))) = some (1, [(0, [0x41])]) ∧
    ((visibleStream (incrStack exHist) 0).map (fun s => (s.npkts, s.data))) = some (4, [(2, [1]), (3, [2])]) ∧
    ((visibleStream (incrStack exHist) 1).map (fun s => (s.npkts, s.data))) = some (2, [(0, [0x41]), (1, [0x42])]) ∧
    ((visibleStream (incrStack exHist) 2).map (fun s => (s.npkts, s.data))) = some (1, [(0, [0x43])]) ∧
    (visibleStream (incrStack exHist) 3).isNone ∧
    NoDoubleIdAt (incrStack exHist) 0 1 ∧ NoDoubleIdAt (incrStack exHist) 0 2 ∧ NoDoubleIdAt (incrStack exHist) 1 2 ∧
    (∀ k ∈ [0, 1, 2], (visibleStream (incrStack exHist) k).map (fun s => (s.pkts, s.data)) =
      (visibleStream (importStep ["a", "b"] (exA ++ exB) []) k).map (fun s => (s.pkts, s.data))) := by
  rw [exHist_stack]
  exact ⟨by decide, by decide, by decide, by decide, by decide, by decide, by decide, by decide, by decide, by decide⟩

end Pk.Props.C08Chrono
