/-
  C03 — query normalisation never changes what a query means.

  Property theorems only (helper lemmas: Pk/Proofs/Query/*.lean).  Model: Pk/Model/Query/*
  (transliteration of internal/query/conditions.go with the `fix:` commits F2, F3, F4, F50, F51,
  F52 applied); semantics: Pk/Model/Query/Sem.lean — `evalCond/evalConj/evalSet/evalParsed` give the
  documented meaning of the normalised conditions on an environment of streams, `evalExpr` the
  Boolean meaning of the surface expression (value lists, ranges, host masks, client/server
  shorthands), written without reference to conjuncts or inversion.

  Quantifiers: every theorem is for ALL condition lists / sets / expressions of the stated shape
  and ALL stream environments `ρ` (`Env.WF ρ`: first packet ≤ last packet, one address family per
  stream — what the engine can produce; `Env.IdOK ρ`: stream ids fit uint64, needed by the
  simple-ID fast path, see `simpleID_needs_idOK`).

  What is proved at full strength
    * per-kind simplification (`clean_*_sound`), for tags, numbers, times, payload chains
      unconditionally; for flags and hosts under the shape invariant `Cond.OK` that the parser
      establishes and every operation preserves (`clean_ok`, `invert_ok`);
    * negation of single conditions (`invert_cond_sound`, flags for every 16-bit mask),
      `chain_negation`;
    * the set-level algebra `or_sound`, `and_sound`, `invert_set_sound`, `Clean_sound`
      (absorption is subsumption, `simpleID_sound`);
    * `normalise_sound`, `impossible_only_if_unsat` for the fragment
        Frag e ∧ TermsOf Term.FragV e :  every nesting of NOT / AND / OR / groups over filters of
        every kind (tag, service, mark, generated, protocol, [cs]host with masks, id/[cs]port/
        [cs]bytes, [fl]?time, [cs]?data[.converter]) with value lists, (open) ranges, arithmetic,
        sub-query prefixes (`@a:id:5`) and variables (`cport:@a:sport@+1:`, `host:@a:chost@/24`,
        `protocol:@a:protocol@`, `ltime:"@ftime@+5m:"`); THEN only with one operand; no
        sort/limit/group terms; payload filters without `@name@` variables inside the regex.
    * `normalise_sound_then_partial`: the same for expressions that contain THEN with several
      operands anywhere (negated sequences, sequences in conjunctions, nested THEN): everything
      around THEN nodes is Boolean, the final `Clean` preserves meaning; the meaning of a THEN node
      itself is *defined* as the sequencing combination (`GSet.seq`, unfolded by `then_sound`) of
      its operands' normal forms (`evalExprT`).
  Not covered by a theorem (tie + oracle only): an independent surface semantics of THEN (the
  oracle of the harness uses textbook-DNF alternatives with search semantics for payload
  matches), sort/limit/group terms, `@name@` variables inside payload regexes.
-/
import Pk.Proofs.Query.Laws
import Pk.Proofs.Query.TermSoundV
import Pk.Proofs.Query.Then

namespace Pk.Props.C03
open Pk.Query

/-! ### per-kind simplification: an equivalent conjunct, or `impossible` only when unsatisfiable
(`optAll ev none = false`) -/

theorem clean_tag_sound (lcs : List TagC) (ρ : Env) :
    optAll (fun c => evalTag c ρ) (cleanTag lcs) = lcs.all (fun c => evalTag c ρ) :=
  cleanTag_sound lcs ρ

/-- flags: forbidden-value bitmaps and relevant-bit inference (`forbidden_ignores_irrelevant_bits`
    is `CleanFlag.*` inside the proof), for conditions on the protocol bits -/
theorem clean_flag_sound (fcs : List FlagC) (ρ : Env) (h : ∀ f ∈ fcs, f.OK) :
    optAll (fun c => evalFlag c ρ) (cleanFlag fcs) = fcs.all (fun c => evalFlag c ρ) :=
  cleanFlag_sound_ok fcs ρ h

theorem clean_host_sound (hcs : List HostC) (ρ : Env) (h : ∀ x ∈ hcs, x.OK) :
    optAll (fun c => evalHost c ρ) (cleanHost hcs) = hcs.all (fun c => evalHost c ρ) :=
  cleanHost_sound_ok hcs ρ h

/-- numbers: summand merge, common factor, duplicate and sign rules (variables are ≥ 0) -/
theorem clean_number_sound (ncs : List NumC) (ρ : Env) :
    optAll (fun c => evalNum c ρ) (cleanNumber ncs) = ncs.all (fun c => evalNum c ρ) :=
  cleanNumber_sound ncs ρ

theorem common_factor_divides (s0 : NumSummand) (more : List NumSummand) :
    ∀ s ∈ s0 :: more, (cfLoop (iabs s0.factor) more : Int) ∣ s.factor :=
  Pk.Query.common_factor_divides s0 more

/-- times: first packet ≤ last packet is what makes the single-summand rule sound -/
theorem clean_time_sound (tcs : List TimeC) (ρ : Env) (hρ : Env.WF ρ) :
    optAll (fun c => evalTime c ρ) (cleanTime tcs) = tcs.all (fun c => evalTime c ρ) :=
  cleanTime_sound tcs ρ hρ

/-- payload chains: prefix elimination (with the F3 and F50 repairs) -/
theorem clean_data_sound (dcs : List DataC) (ρ : Env) :
    optAll (fun c => evalData c ρ) (cleanData dcs) = dcs.all (fun c => evalData c ρ) :=
  cleanData_sound' dcs ρ

/-- `Conditions.clean` -/
theorem clean_conj_sound (c : Conj) (ρ : Env) (ok : Conj.OK c) (hρ : Env.WF ρ) :
    evalConj (Conj.clean c) ρ = evalConj c ρ :=
  conj_clean_sound c ρ ok hρ

theorem clean_ok (c : Conj) (ok : Conj.OK c) : Conj.OK (Conj.clean c) := conj_clean_ok c ok

/-! ### negation -/

/-- ¬(all steps succeed) ↔ some proper prefix succeeds and its next step fails -/
theorem chain_negation (ρ : Env) (inv : Bool) (els : List DataEl) (h : els ≠ []) (p : Nat) :
    (List.range els.length).any (fun i =>
      chain ρ (if i + 1 = els.length then !inv else true) (els.take (i + 1)) p) = !chain ρ inv els p :=
  Pk.Query.chain_negation ρ inv els h p

/-- every kind; flag inversion by sub-mask enumeration for every 16-bit mask -/
theorem invert_cond_sound (c : Cond) (ρ : Env) (hflag : ∀ f, c = .flag f → f.mask < 65536)
    (hdata : ∀ d, c = .data d → d.els ≠ []) : evalSet (Cond.invert c) ρ = !evalCond c ρ :=
  Pk.Query.invert_cond_sound c ρ hflag hdata

theorem invert_ok (c : Cond) (h : c.OK) : CSet.OK (Cond.invert c) := invert_cond_ok c h

/-! ### set-level operators -/

theorem or_sound (a b : GSet) (ρ : Env) :
    evalSet (GSet.Or a b).items ρ = (evalSet a.items ρ || evalSet b.items ρ) :=
  Pk.Query.or_sound a b ρ

theorem and_sound (a b : GSet) (ha : a.items ≠ []) (hb : b.items ≠ []) (oka : CSet.OK a.items)
    (okb : CSet.OK b.items) (ρ : Env) (hρ : Env.WF ρ) :
    evalSet (GSet.And a b).items ρ = (evalSet a.items ρ && evalSet b.items ρ) :=
  Pk.Query.and_sound laws a b ha hb oka okb hρ

/-- the empty conjunct (true) inverts to the impossible condition (fix F4) -/
theorem invert_conj_sound (c : Conj) (ok : Conj.OK c) (ρ : Env) :
    evalSet (Conj.invert c).items ρ = !evalConj c ρ :=
  conj_invert_sound laws c ok ρ

theorem invert_set_sound (cs : CSet) (hne : cs ≠ []) (ok : CSet.OK cs) (ρ : Env) (hρ : Env.WF ρ) :
    evalSet (CSet.invert cs).items ρ = !evalSet cs ρ :=
  Pk.Query.invert_set_sound laws cs hne ok hρ

theorem simpleID_sound (cs : CSet) (ok : CSet.OK cs) (ρ : Env) (hρ : Env.WF ρ) (hid : Env.IdOK ρ)
    (r : CSet) (h : CSet.cleanSimpleID cs = some r) : evalSet r ρ = evalSet cs ρ :=
  Pk.Query.simpleID_sound laws cs ok hρ hid r h

/-- the model's stream ids are unbounded naturals; beyond uint64 the fast path differs -/
theorem simpleID_needs_idOK : ∃ (cs : CSet) (ρ : Env), CSet.OK cs ∧ Env.WF ρ ∧
    evalSet (CSet.Clean cs) ρ = false ∧ evalSet cs ρ = true := Clean_needs_idOK

/-- `ConditionsSet.Clean`: absorption is subsumption -/
theorem Clean_sound (cs : CSet) (ok : CSet.OK cs) (ρ : Env) (hρ : Env.WF ρ) (hid : Env.IdOK ρ) :
    evalSet (CSet.Clean cs) ρ = evalSet cs ρ :=
  Pk.Query.Clean_sound laws cs ok hρ hid

/-! ### the compiler as a whole (fragment, see the header) -/

/-- translation of a single filter of any kind, with variables and sub-queries: lists, ranges,
    host masks, port/bytes/host/time shorthands, the own-variable subtraction loops -/
theorem term_sound (ref : Int) (t : Term) (g : GSet) (ρ : Env) (hf : t.FragV) (hρ : Env.WF ρ)
    (h : trTerm ref t = .ok g) :
    ∃ cs, g = some cs ∧ cs ≠ [] ∧ CSet.OK cs ∧ evalSet cs ρ = evalTerm ref t ρ :=
  trTerm_soundV ref t g ρ hf hρ h

/-- FULL statement (not proved for every expression):
      ∀ ref e p, parse ref e = .ok p → ∀ ρ, Env.WF ρ → Env.IdOK ρ → evalParsed p ρ = evalSurface ref ρ e
    where `evalSurface` also gives THEN its sequencing meaning and covers sub-query variables.
    Proved part: the fragment `Frag e ∧ TermsOf Term.FragV e`. -/
theorem normalise_sound_partial (ref : Int) (e : Expr) (hf : Frag e) (hp : TermsOf Term.FragV e)
    (p : Parsed) (h : parse ref e = .ok p) (ρ : Env) (hρ : Env.WF ρ) (hid : Env.IdOK ρ) :
    evalParsed p ρ = evalExpr ref ρ e :=
  normalise_sound_fragV ref e hf hp p h ρ hρ hid

/-- `Parse` reports "matches nothing" only for unsatisfiable queries (same fragment) -/
theorem impossible_only_if_unsat_partial (ref : Int) (e : Expr) (hf : Frag e)
    (hp : TermsOf Term.FragV e) (h : parse ref e = .ok .nothing) (ρ : Env) (hρ : Env.WF ρ)
    (hid : Env.IdOK ρ) : evalExpr ref ρ e = false :=
  impossible_only_if_unsat_fragV ref e hf hp h ρ hρ hid

/-! ### THEN -/

/-- `Conditions.then`: non-payload conditions are conjoined; every payload chain of the left
    conjunct is continued by every payload chain of the right one (a negated left chain stays and is
    continued from before its negated element) -/
theorem then_sound (a b : Conj) (ρ : Env) : evalConj (Conj.seq a b) ρ =
    (evalConj (a.filter (fun c => (Cond.data? c).isNone)) ρ &&
     evalConj (b.filter (fun c => (Cond.data? c).isNone)) ρ &&
     (if a.filterMap Cond.data? = [] ∨ b.filterMap Cond.data? = [] then
        (a.filterMap Cond.data?).all (evalData · ρ) && (b.filterMap Cond.data?).all (evalData · ρ)
      else (a.filterMap Cond.data?).all (fun adc =>
        (!adc.inv || evalData adc ρ) &&
        (b.filterMap Cond.data?).all (fun bdc => evalData
          { els := adc.els.take (if adc.inv then adc.els.length - 1 else adc.els.length) ++ bdc.els,
            inv := bdc.inv } ρ)))) :=
  Pk.Query.then_sound a b ρ

/-- expressions with THEN nodes of any arity (`FragT`), terms with variables: the normal form means
    `evalExprT` — Boolean around THEN nodes, a THEN node denotes the sequencing combination of its
    operands' normal forms.  (FULL statement would use a surface semantics of THEN that does not
    mention normal forms; see the header.) -/
theorem normalise_sound_then_partial (ref : Int) (e : Expr) (hf : FragT e)
    (hp : TermsOf Term.FragV e) (p : Parsed) (h : parse ref e = .ok p) (ρ : Env) (hρ : Env.WF ρ)
    (hid : Env.IdOK ρ) : evalParsed p ρ = evalExprT ref ρ e :=
  normalise_sound_then ref e hf hp p h ρ hρ hid

theorem impossible_only_if_unsat_then_partial (ref : Int) (e : Expr) (hf : FragT e)
    (hp : TermsOf Term.FragV e) (h : parse ref e = .ok .nothing) (ρ : Env) (hρ : Env.WF ρ)
    (hid : Env.IdOK ρ) : evalExprT ref ρ e = false :=
  impossible_only_if_unsat_then ref e hf hp h ρ hρ hid

/-- on the fragment of `normalise_sound_partial` both meanings coincide -/
theorem evalExprT_conservative (ref : Int) (ρ : Env) (e : Expr) (hf : Frag e) :
    evalExprT ref ρ e = evalExpr ref ρ e := evalExprT_eq_evalExpr ref ρ e hf

/-- for THEN-free expressions `evalExpr` is the plain Boolean combination of the filters -/
theorem then_free_boolean (ref : Int) (ρ : Env) :
    (∀ e, evalExpr ref ρ (.not e) = !evalExpr ref ρ e) ∧
    (∀ e, evalExpr ref ρ (.grp e) = evalExpr ref ρ e) ∧
    (∀ e es, evalExpr ref ρ (.and (e :: es)) = (evalExpr ref ρ e && evalExpr ref ρ (.and es))) ∧
    (∀ e es, evalExpr ref ρ (.or (e :: es)) = (evalExpr ref ρ e || evalExpr ref ρ (.or es))) ∧
    (∀ t, evalExpr ref ρ (.term t) = evalTerm ref t ρ) := by
  refine ⟨fun _ => ?_, fun _ => ?_, fun _ _ => ?_, fun _ _ => ?_, fun _ => ?_⟩ <;>
    simp [evalExpr, evalExpr.evalExprAll, evalExpr.evalExprAny]

/-! ### non-vacuity: the hypotheses are satisfiable and the fragment contains real queries -/

example : Env.WF wfEnv ∧ Env.IdOK wfEnv := wfEnv_idOK

/-- `-(id:1,5:9) or (cport:80 host:10.0.0.0/8)` is in the fragment, parses to a concrete
    5-conjunct normal form, and `normalise_sound_partial` applies to it -/
example : Frag Example.e0 ∧ TermsOf Term.Frag Example.e0 ∧ parse 0 Example.e0 = .ok Example.p0 :=
  ⟨Example.e0_frag, Example.e0_terms, Example.e0_parse⟩

example (ρ : Env) (hρ : Env.WF ρ) (hid : Env.IdOK ρ) :
    evalParsed Example.p0 ρ = evalExpr 0 ρ Example.e0 := Example.e0_sound ρ hρ hid

/-- a filter with a sub-query variable, `cport:@a:sport@+1:`, is in the fragment and translates -/
example : ExampleV.portVar.FragV := ExampleV.portVar_fragV

/-- `-(cdata:x then cdata:y) (cdata:x then cdata:y then sdata:z)` (the shape of finding F3) parses to
    "matches nothing", and it is unsatisfiable; the satisfiable variant
    `-(cdata:x then cdata:y) (cdata:x then sdata:z)` keeps both chains -/
example : parse 0 ExampleT.e2 = .ok .nothing := ExampleT.e2_parse
example : parse 0 ExampleT.e3 = .ok ExampleT.p3 := ExampleT.e3_parse
example (ρ : Env) (hρ : Env.WF ρ) (hid : Env.IdOK ρ) :
    evalParsed ExampleT.p3 ρ = evalExprT 0 ρ ExampleT.e3 := ExampleT.e3_sound ρ hρ hid

end Pk.Props.C03
