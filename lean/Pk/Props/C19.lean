/-
  C19 — file endpoints stay inside the capture directory and never overwrite.

  Property theorems only (helper lemmas: Pk/Proofs/Path.lean, Upload.lean, UploadExcl.lean).
  Nothing here is bounded: paths, directory flags, request parameters, disks, bodies, the number
  of requests and the schedules are arbitrary.

  Three layers:
   (a) path/filepath: `base_fixed_point_is_component`, `pattern_excludes_dots`, `join_child`
       — the path handed to the file system is a direct child of the capture directory;
   (b) the handlers as step machines over a disk model, parameterised by the facts regenerated
       from cmd/pkappa2/main.go: `upload_stays_inside`, `download_reads_only_child`,
       `upload_exclusive`, `upload_at_most_one`;
   (c) the tie of the facts: `gen_routes_as_expected` (by `decide` over lean/Pk/Gen/Routes.lean,
       rewritten from the source on every run of the check).

  Modelled, not verified: path/filepath, chi routing, http.ServeFile and the OS (see Model/Path.lean);
  they are exercised against the model by the correspondence check.

  Correction w.r.t. DESIGN §5: `base n = n` does NOT imply that `n` has no '/': "/" is a fixed
  point of filepath.Base.  The theorem below states the exact set of fixed points; the route
  patterns exclude "/" together with "." and ".." (`pattern_excludes_dots`).
-/
import Pk.Model.Path
import Pk.Model.Upload
import Pk.Proofs.Path
import Pk.Proofs.Upload
import Pk.Proofs.UploadExcl
import Pk.Gen.Routes

namespace Pk.Props.C19
open Pk.Path Pk.Upload

/-! ### (c) regenerated facts -/

/-- what cmd/pkappa2/main.go says on the unchanged tree -/
def Expected.routes : Routes :=
  { uploads := [
    { method := "Post", pattern := "/upload/{filename:.+[.]pcap(ng)?}", paramVar := "filename", paramKey := "filename", guardFirst := true,
      joinArgs := ["*baseDir, *pcapDir", "*baseDir, *pcapDir, filename"],
      events := [
        "filename := chi.URLParam(r, \"filename\")",
        "if filename != filepath.Base(filename) {",
        "http.Error(w, \"…\", http.StatusBadRequest)",
        "return",
        "}",
        "tools.AssertFolderRWXPermissions(\"pcap_dir\", filepath.Join(*baseDir, *pcapDir))",
        "fullFilename := filepath.Join(*baseDir, *pcapDir, filename)",
        "dst, err := os.OpenFile(fullFilename, os.O_CREATE|os.O_EXCL|os.O_WRONLY, 0666)",
        "if err != nil {",
        "http.Error(w, fmt.Sprintf(\"…\", err), http.StatusInternalServerError)",
        "return",
        "}",
        "if _, err := io.Copy(dst, r.Body); err != nil {",
        "http.Error(w, fmt.Sprintf(\"…\", err), http.StatusInternalServerError)",
        "if err := dst.Close(); err != nil {",
        "}",
        "if err := os.Remove(fullFilename); err != nil {",
        "}",
        "return",
        "}",
        "if err := dst.Close(); err != nil {",
        "http.Error(w, fmt.Sprintf(\"…\", err), http.StatusInternalServerError)",
        "if err := os.Remove(fullFilename); err != nil {",
        "}",
        "return",
        "}",
        "mgr.ImportPcaps([]string{filename})",
        "http.Error(w, \"…\", http.StatusOK)"] }],
    downloads := [
    { method := "Get", pattern := "/api/download/pcap/{file:[^/\\\\]+[.]pcap}", paramVar := "filename", paramKey := "file", guardFirst := true,
      joinArgs := ["*baseDir, *pcapDir, filename"],
      events := [
        "filename := chi.URLParam(r, \"file\")",
        "if filename != filepath.Base(filename) {",
        "http.Error(w, \"…\", http.StatusBadRequest)",
        "return",
        "}",
        "fullFilename := filepath.Join(*baseDir, *pcapDir, filename)",
        "http.ServeFile(w, r, fullFilename)"] }],
    openFlags := ["os.O_CREATE", "os.O_EXCL", "os.O_WRONLY"],
    openPerm := "0666",
    mainPath := [
      "chi.URLParam",
      "filepath.Base",
      "tools.AssertFolderRWXPermissions",
      "filepath.Join",
      "filepath.Join",
      "os.OpenFile(fullFilename)",
      "io.Copy",
      "dst.Close",
      "mgr.ImportPcaps([]string{filename})",
      "http.Error(http.StatusOK)"],
    openFailPath := ["http.Error(http.StatusInternalServerError)", "return"],
    copyFailPath := [
      "http.Error(http.StatusInternalServerError)",
      "dst.Close",
      "os.Remove(fullFilename)",
      "return"],
    closeFailPath := [
      "http.Error(http.StatusInternalServerError)",
      "os.Remove(fullFilename)",
      "return"],
    facts := { upGuard := true, upCreate := true, upExcl := true, upTrunc := false,
               upRemoveOnCopyFail := true, upImports := 1, downGuard := true } }

/-- the regenerated tie: the handlers in the source are the handlers the theorems are about -/
theorem gen_routes_as_expected : Pk.Gen.Routes.routes = Expected.routes := by decide

theorem expected_facts : Expected.routes.facts = Facts.expected := by decide

/-- the facts the model is run with in the correspondence check are the expected ones -/
theorem gen_facts_expected : Pk.Gen.Routes.routes.facts = Facts.expected := by
  rw [gen_routes_as_expected]; exact expected_facts

/-! ### (a) path/filepath -/

/-- exact fixed points of `filepath.Base`: "/" and the non-empty strings without separator
    (among them "." and "..") -/
theorem base_fixed_point_is_component (n : P) (h : base n = n) :
    n = ['/'] ∨ (n ≠ [] ∧ '/' ∉ n ∧ (n = ['.'] ∨ n = ['.', '.'] ∨ plain n)) := by
  rcases base_fixed n h with h | ⟨h1, h2⟩
  · exact Or.inl h
  · refine Or.inr ⟨h1, h2, ?_⟩
    by_cases h3 : n = ['.']
    · exact Or.inl h3
    · by_cases h4 : n = ['.', '.']
      · exact Or.inr (Or.inl h4)
      · exact Or.inr (Or.inr ⟨h1, h2, h3, h4⟩)

theorem base_fixed_point_iff (n : P) : base n = n ↔ n = ['/'] ∨ (n ≠ [] ∧ '/' ∉ n) := by
  constructor
  · exact base_fixed n
  · rintro (h | ⟨h1, h2⟩)
    · subst h; decide
    · exact base_of_noslash n h1 h2

/-- a name matching `.+[.]pcap(ng)?` or `[^/\\]+[.]pcap` is none of "", ".", "..", "/" -/
theorem pattern_excludes_dots (n : P) (h : matchUploadRegex n = true ∨ matchDownloadRegex n = true) :
    n ≠ [] ∧ n ≠ ['.'] ∧ n ≠ ['.', '.'] ∧ n ≠ ['/'] := by
  have hl : 6 ≤ n.length := by
    rcases h with h | h
    · exact matchUploadRegex_len n h
    · exact matchDownloadRegex_len n h
  refine ⟨?_, ?_, ?_, ?_⟩ <;> (intro e; subst e; simp at hl)

/-- what passes the route pattern and the `filename != filepath.Base(filename)` guard is a plain name -/
theorem guarded_name_is_plain (n : P) (hm : matchUploadRegex n = true ∨ matchDownloadRegex n = true)
    (hg : base n = n) : plain n := by
  obtain ⟨h1, h2, h3, h4⟩ := pattern_excludes_dots n hm
  rcases base_fixed n hg with h | ⟨_, h⟩
  · exact absurd h h4
  · exact ⟨h1, h, h2, h3⟩

/-- chi's segment matching alone already yields plain names (on unix the guard is a second line of defence) -/
theorem routed_name_is_plain (rp n : P) (h : uploadParam rp = some n ∨ downloadParam rp = some n) : plain n := by
  rcases h with h | h
  · unfold uploadParam at h
    split at h
    · split at h
      · rename_i hc
        injection h with h; subst h
        exact plain_of_len _ hc.1 (matchUploadRegex_len _ hc.2)
      · cases h
    · cases h
  · unfold downloadParam at h
    split at h
    · split at h
      · rename_i hc
        injection h with h; subst h
        exact plain_of_len _ hc.1 (matchDownloadRegex_len _ hc.2)
      · cases h
    · cases h

/-- `filepath.Join(dirs..., n)` of a plain name is the direct child `n` of `filepath.Join(dirs...)` -/
theorem join_child_general (dirs : List P) (n : P) (h : plain n) : join (dirs ++ [n]) = child (join dirs) n :=
  join_append_plain dirs n h

/-- the form used by both handlers: `filepath.Join(*baseDir, *pcapDir, filename)` is the direct child
    `filename` of the capture directory `filepath.Join(*baseDir, *pcapDir)` (what main passes to manager.New) -/
theorem join_child (b p n : P) (h : plain n) : join [b, p, n] = child (join [b, p]) n :=
  join_append_plain [b, p] n h

/-- a direct child never is the directory itself or above it: its last element is the name -/
theorem child_base (d n : P) (h : plain n) : base (child d n) = n := by
  obtain ⟨h1, h2, _, _⟩ := h
  have key : ∀ pre : P, base (pre ++ '/' :: n) = n := by
    intro pre
    have hr : ∀ x ∈ n.reverse, x ≠ '/' := by
      intro x hx e; exact h2 (by simpa [e] using (List.mem_reverse.mp hx))
    have hne : n.reverse ≠ [] := by simpa using h1
    have hd : (n.reverse ++ '/' :: pre.reverse).dropWhile (· = '/') = n.reverse ++ '/' :: pre.reverse := by
      cases hrev : n.reverse with
      | nil => exact absurd hrev hne
      | cons x xs =>
        have : x ≠ '/' := hr x (by simp [hrev])
        simp [this]
    have ht : (n.reverse ++ '/' :: pre.reverse).takeWhile (fun x => !decide (x = '/')) = n.reverse := by
      have : ∀ (l : P), (∀ x ∈ l, x ≠ '/') → (l ++ '/' :: pre.reverse).takeWhile (fun x => !decide (x = '/')) = l := by
        intro l hl
        induction l with
        | nil => simp
        | cons a t ih =>
          have ha : a ≠ '/' := hl a (by simp)
          simp [ha, ih (fun x hx => hl x (List.mem_cons_of_mem _ hx))]
      exact this _ hr
    simp [base, hd, ht, h1]
  unfold child
  split
  · exact base_of_noslash n h1 h2
  · split
    · exact base_of_noslash n h1 h2
    · split
      · exact key []
      · exact key d

/-! ### (b) the handlers -/

/-- **Upload stays inside.**  Any number of upload requests, started with whatever parameter strings
    the router extracted (only the route pattern is assumed), interleaved in any order, with any copy
    failures, on any disk: a path that is not a direct child `captureDir/n` (plain `n`) of the capture
    directory is never created, modified or removed.  Needs only the guard fact. -/
theorem upload_stays_inside (c : Cfg) (hg : c.facts.upGuard = true) (w : World) (reqs : List Req)
    (hstart : ∀ r ∈ reqs, r.pc = .start) (hpat : ∀ r ∈ reqs, matchUploadRegex r.param = true)
    (sched : List Nat) (k : P) (hk : ∀ n, plain n → k ≠ child c.captureDir n) :
    (Sys.run c ⟨w, reqs⟩ sched).world.disk.lookup k = w.disk.lookup k := by
  -- invariant of every request: not yet past the guard, finished, or past the guard with a fixed point
  let Ok (r : Req) : Prop :=
    matchUploadRegex r.param = true ∧ (r.pc = .start ∨ r.pc = .done ∨ base r.param = r.param)
  have stepOk : ∀ (w : World) (r : Req), Ok r →
      (step c w r).1.disk.lookup k = w.disk.lookup k ∧ Ok (step c w r).2 := by
    intro w r ⟨hm, hp⟩
    have inside : base r.param = r.param →
        (step c w r).1.disk.lookup k = w.disk.lookup k ∧ Ok (step c w r).2 := by
      intro hb
      have hpl := guarded_name_is_plain r.param (Or.inl hm) hb
      have hfull : c.full r.param = child c.captureDir r.param := join_child _ _ _ hpl
      refine ⟨step_frame c w r k (by rw [hfull]; exact hk _ hpl), ?_, ?_⟩
      · rw [step_param]; exact hm
      · right; right; rw [step_param]; exact hb
    rcases hp with hp | hp | hp
    · by_cases hb : base r.param = r.param
      · exact inside hb
      · have : step c w r = (w, finish r 400) := by
          have : r.param ≠ base r.param := fun e => hb e.symm
          simp [step, hp, hg, this]
        rw [this]
        exact ⟨rfl, hm, Or.inr (Or.inl rfl)⟩
    · have : step c w r = (w, r) := by simp [step, hp]
      rw [this]; exact ⟨rfl, hm, Or.inr (Or.inl hp)⟩
    · exact inside hp
  have main : ∀ (sched : List Nat) (s : Sys), (∀ r ∈ s.reqs, Ok r) →
      (Sys.run c s sched).world.disk.lookup k = s.world.disk.lookup k := by
    intro sched
    induction sched with
    | nil => intro s _; rfl
    | cons i t ih =>
      intro s hs
      simp only [Sys.run, List.foldl_cons]
      have hstep : (Sys.step c s i).world.disk.lookup k = s.world.disk.lookup k ∧
          ∀ r ∈ (Sys.step c s i).reqs, Ok r := by
        unfold Sys.step
        cases hr : s.reqs[i]? with
        | none => exact ⟨rfl, hs⟩
        | some r =>
          have hm : r ∈ s.reqs := List.mem_of_getElem? hr
          have := stepOk s.world r (hs r hm)
          refine ⟨this.1, ?_⟩
          intro x hx
          rcases mem_setAt _ _ _ _ hx with rfl | hx
          · exact this.2
          · exact hs x hx
      have := ih (Sys.step c s i) hstep.2
      simp only [Sys.run] at this
      rw [this, hstep.1]
  exact main sched ⟨w, reqs⟩ (fun r hr => ⟨hpat r hr, Or.inl (hstart r hr)⟩)

/-- **Download reads only a child.**  The only path the download handler hands to `http.ServeFile`
    is a direct child `captureDir/n` with `n` plain, for every parameter string matching the route
    pattern and every `r.URL.Path`; the handler has no access to the disk other than that read. -/
theorem download_reads_only_child (c : Cfg) (hg : c.facts.downGuard = true) (d : Disk) (urlPath param path : P)
    (res : DownResult) (hpat : matchDownloadRegex param = true)
    (h : download c d urlPath param = (some path, res)) :
    plain param ∧ path = child c.captureDir param := by
  unfold download at h
  by_cases hb : param ≠ base param
  · simp [hg, hb] at h
  · have hb' : base param = param := by
      have := Classical.not_not.mp hb; exact this.symm
    have hpl := guarded_name_is_plain param (Or.inr hpat) hb'
    have hfull : c.full param = child c.captureDir param := join_child _ _ _ hpl
    simp only [hg, Bool.true_and] at h
    have hd : decide (param ≠ base param) = false := decide_eq_false (fun h => h hb'.symm)
    rw [hd] at h
    simp only [Bool.false_eq_true, if_false] at h
    refine ⟨hpl, ?_⟩
    split at h
    · cases h
    · split at h
      · cases h
      · split at h
        · injection h with h1 _; injection h1 with h1; rw [← h1, hfull]
        · split at h <;> (injection h with h1 _; injection h1 with h1; rw [← h1, hfull])

/-- **Sequential upload.**  One upload request run to completion (expected facts), any disk, any
    parameter, with or without a copy failure:
    * it always terminates with a response;
    * a name that is already stored (file or directory) is answered with a failure;
    * success ⇒ the name was absent, now holds exactly the request body, and `ImportPcaps` was called
      exactly once, with that name;
    * failure ⇒ nothing was queued and **no** path of the disk differs from before (a failed copy removes
      precisely the file it created). -/
theorem upload_sequential (c : Cfg) (hf : c.facts = Facts.expected) (w : World) (r : Req) (hs : r.pc = .start) :
    (runReq c w r).2.pc = .done ∧
    (∀ e, w.disk.lookup (c.full r.param) = some e → (runReq c w r).2.code ≠ 200) ∧
    ((runReq c w r).2.code = 200 →
        w.disk.lookup (c.full r.param) = none ∧
        (runReq c w r).1.disk.lookup (c.full r.param) = some (.file ⟨r.body, none, r.id⟩) ∧
        (runReq c w r).1.queue = w.queue ++ [r.param]) ∧
    ((runReq c w r).2.code ≠ 200 →
        (runReq c w r).1.queue = w.queue ∧ ∀ k, (runReq c w r).1.disk.lookup k = w.disk.lookup k) := by
  have hdone : ∀ (w : World) (r : Req), r.pc = .done → step c w r = (w, r) := by
    intro w r h; simp [step, h]
  have rej : ∀ code, code ≠ 200 → step c w r = (w, finish r code) →
      (∀ e, w.disk.lookup (c.full r.param) = some e → True) →
      (runReq c w r) = (w, finish r code) := by
    intro code _ h _
    simp [runReq, h, hdone w (finish r code) rfl]
  by_cases hg : r.param ≠ base r.param
  · have h1 : step c w r = (w, finish r 400) := by simp [step, hs, hf, Facts.expected, hg]
    rw [rej 400 (by decide) h1 (fun _ _ => trivial)]
    simp [finish]
  · by_cases hsys : sysRejects (c.full r.param) = true
    · have h1 : step c w r = (w, finish r 500) := by
        simp only [step, hs, hf, Facts.expected]; simp [hg, hsys]
      rw [rej 500 (by decide) h1 (fun _ _ => trivial)]
      simp [finish]
    · cases hl : w.disk.lookup (c.full r.param) with
      | some e =>
        have h1 : step c w r = (w, finish r 500) := by
          simp only [step, hs, hf, Facts.expected]
          cases e <;> simp [hg, hsys, hl]
        rw [rej 500 (by decide) h1 (fun _ _ => trivial)]
        simp [finish]
      | none =>
        have h1 : step c w r = ({ w with disk := w.disk.insert (c.full r.param) (.file ⟨r.body, some 0, r.id⟩) },
            { r with pc := .opened }) := by
          simp only [step, hs, hf, Facts.expected]; simp [hg, hsys, hl]
        let full := c.full r.param
        let w1 : World := { w with disk := w.disk.insert full (.file ⟨r.body, some 0, r.id⟩) }
        have h1' : step c w r = (w1, { r with pc := .opened }) := h1
        cases hfa : r.failAt with
        | none =>
          let w2 : World := { w1 with disk := w1.disk.insert full (.file ⟨r.body, none, r.id⟩) }
          have h2 : step c w1 { r with pc := .opened } = (w2, { r with pc := .copied }) := by
            simp [step, hfa, w1, w2, full, lookup_insert_self]
          have h3 : step c w2 { r with pc := .copied } = (w2, { r with pc := .closed }) := by
            simp [step]
          have h4 : step c w2 { r with pc := .closed } =
              ({ w2 with queue := w2.queue ++ [r.param] }, { r with pc := .done, code := 200 }) := by
            simp [step, hf, Facts.expected, finish]
          have h5 := hdone { w2 with queue := w2.queue ++ [r.param] } { r with pc := .done, code := 200 } rfl
          have : runReq c w r = ({ w2 with queue := w2.queue ++ [r.param] }, { r with pc := .done, code := 200 }) := by
            simp only [runReq, h1', h2, h3, h4, h5]
          rw [this]
          simp [w2, w1, full, lookup_insert_self]
        | some k =>
          let w2 : World := { w1 with disk := w1.disk.insert full (.file ⟨r.body, some k, r.id⟩) }
          have h2 : step c w1 { r with pc := .opened } = (w2, { r with pc := .copyFailed }) := by
            simp [step, hfa, w1, w2, full, lookup_insert_self]
          have h3 : step c w2 { r with pc := .copyFailed } = (w2, { r with pc := .cfClosed }) := by
            simp [step]
          have h4 : step c w2 { r with pc := .cfClosed } =
              ({ w2 with disk := w2.disk.erase full }, { r with pc := .done, code := 500 }) := by
            simp [step, hf, Facts.expected, finish, w2, full, lookup_insert_self]
          have h5 := hdone { w2 with disk := w2.disk.erase full } { r with pc := .done, code := 500 } rfl
          have : runReq c w r = ({ w2 with disk := w2.disk.erase full }, { r with pc := .done, code := 500 }) := by
            simp only [runReq, h1', h2, h3, h4, h5]
          rw [this]
          refine ⟨rfl, by simp, by simp, fun _ => ⟨rfl, ?_⟩⟩
          intro k'
          simp only [w2, w1]
          by_cases hk : k' = full
          · rw [hk, lookup_erase_self]; exact hl.symm
          · rw [lookup_erase_ne _ _ _ hk, lookup_insert_ne _ _ _ _ hk, lookup_insert_ne _ _ _ _ hk]

/-- outcome of two concurrent uploads of one name, for **every** interleaving of their atomic
    steps and **every** pattern of copy failures: never two successes; a success means the stored
    file is exactly that request's body; if both fail the path holds what it held before (a failed
    copy removed only the file that request had created); `ImportPcaps` was called once per
    success; no other path changed. -/
theorem upload_at_most_one (c : Cfg) (hf : c.facts = Facts.expected) (w0 : World) (n : P)
    (id1 id2 b1 b2 : Nat) (f1 f2 : Option Nat) (hid : id1 ≠ id2) (sched : List Nat) :
    ∃ w a b, Sys.run c ⟨w0, [⟨id1, n, b1, f1, .start, 0⟩, ⟨id2, n, b2, f2, .start, 0⟩]⟩ sched = ⟨w, [a, b]⟩ ∧
      ¬ (a.code = 200 ∧ a.pc = .done ∧ b.code = 200 ∧ b.pc = .done) ∧
      (a.pc = .done → a.code = 200 → w.disk.lookup (c.full n) = some (.file ⟨b1, none, id1⟩)) ∧
      (b.pc = .done → b.code = 200 → w.disk.lookup (c.full n) = some (.file ⟨b2, none, id2⟩)) ∧
      (a.pc = .done → b.pc = .done → a.code ≠ 200 → b.code ≠ 200 →
          w.disk.lookup (c.full n) = w0.disk.lookup (c.full n) ∧ w.queue = w0.queue) ∧
      w.queue = w0.queue ++ List.replicate (succ a + succ b) n ∧
      (∀ k, k ≠ c.full n → w.disk.lookup k = w0.disk.lookup k) := by
  let a0 : Req := ⟨id1, n, b1, f1, .start, 0⟩
  let b0 : Req := ⟨id2, n, b2, f2, .start, 0⟩
  have hi : Inv c w0.disk w0.queue n w0 a0 b0 := by
    refine ⟨rfl, rfl, hid, ⟨?_, ?_, ?_⟩, ⟨?_, ?_, ?_⟩, fun _ _ => rfl, fun _ _ => rfl, by simp [succ, a0, b0]⟩ <;>
      (intro h; simp [holds, complete, a0, b0] at h)
  obtain ⟨w, a, b, hrun, inv, sa, sb, _⟩ := run_two hf sched w0 a0 b0 a0 b0 hi ⟨rfl, rfl, rfl, rfl⟩ ⟨rfl, rfl, rfl, rfl⟩
  refine ⟨w, a, b, hrun, ?_, ?_, ?_, ?_, inv.queue, inv.frame⟩
  · intro ⟨h1, h2, h3, h4⟩
    exact inv.excl ⟨by simp [holds, h1, h2], by simp [holds, h3, h4]⟩
  · intro h1 h2
    have := inv.oa.2.2 (by simp [complete, h1, h2])
    rw [sa.2.1, sa.2.2.1, sa.1] at this; exact this
  · intro h1 h2
    have := inv.ob.2.2 (by simp [complete, h1, h2])
    rw [sb.2.1, sb.2.2.1, sb.1] at this; exact this
  · intro h1 h2 h3 h4
    refine ⟨inv.absent (by simp [holds, h1, h3]) (by simp [holds, h2, h4]), ?_⟩
    have := inv.queue
    simp [succ, h3, h4] at this
    exact this

/-- **Upload exclusive.**  Two concurrent uploads of one name, every interleaving, no copy failure:
    * the name is already stored  ⇒ both fail, the stored entry is untouched, nothing is queued;
    * the name is fresh and acceptable to the guard and the OS ⇒ exactly one succeeds (the other gets
      500), the stored bytes are the winner's body, and `ImportPcaps` was called exactly once, for it. -/
theorem upload_exclusive (c : Cfg) (hf : c.facts = Facts.expected) (w0 : World) (n : P)
    (id1 id2 b1 b2 : Nat) (hid : id1 ≠ id2) (sched : List Nat)
    (hdone : (Sys.run c ⟨w0, [⟨id1, n, b1, none, .start, 0⟩, ⟨id2, n, b2, none, .start, 0⟩]⟩ sched).allDone = true) :
    ∃ w a b, Sys.run c ⟨w0, [⟨id1, n, b1, none, .start, 0⟩, ⟨id2, n, b2, none, .start, 0⟩]⟩ sched = ⟨w, [a, b]⟩ ∧
      (∀ k, k ≠ c.full n → w.disk.lookup k = w0.disk.lookup k) ∧
      (∀ e, w0.disk.lookup (c.full n) = some e →
          a.code ≠ 200 ∧ b.code ≠ 200 ∧ w.disk.lookup (c.full n) = some e ∧ w.queue = w0.queue) ∧
      (w0.disk.lookup (c.full n) = none → n = base n → sysRejects (c.full n) = false →
          ((a.code = 200 ∧ b.code = 500 ∧ w.disk.lookup (c.full n) = some (.file ⟨b1, none, id1⟩)) ∨
           (a.code = 500 ∧ b.code = 200 ∧ w.disk.lookup (c.full n) = some (.file ⟨b2, none, id2⟩))) ∧
          w.queue = w0.queue ++ [n]) := by
  let a0 : Req := ⟨id1, n, b1, none, .start, 0⟩
  let b0 : Req := ⟨id2, n, b2, none, .start, 0⟩
  have hi : Inv c w0.disk w0.queue n w0 a0 b0 := by
    refine ⟨rfl, rfl, hid, ⟨?_, ?_, ?_⟩, ⟨?_, ?_, ?_⟩, fun _ _ => rfl, fun _ _ => rfl, by simp [succ, a0, b0]⟩ <;>
      (intro h; simp [holds, complete, a0, b0] at h)
  obtain ⟨w, a, b, hrun, inv, sa, sb, live⟩ := run_two hf sched w0 a0 b0 a0 b0 hi ⟨rfl, rfl, rfl, rfl⟩ ⟨rfl, rfl, rfl, rfl⟩
  rw [show Sys.run c ⟨w0, [a0, b0]⟩ sched = ⟨w, [a, b]⟩ from hrun] at hdone
  have hda : a.pc = .done := by simp [Sys.allDone] at hdone; exact hdone.1
  have hdb : b.pc = .done := by simp [Sys.allDone] at hdone; exact hdone.2
  refine ⟨w, a, b, hrun, inv.frame, ?_, ?_⟩
  · intro e he
    have na : a.code ≠ 200 := by
      intro h
      have := inv.oa.2.1 (by simp [holds, hda, h])
      rw [inv.pa, he] at this; cases this
    have nb : b.code ≠ 200 := by
      intro h
      have := inv.ob.2.1 (by simp [holds, hdb, h])
      rw [inv.pb, he] at this; cases this
    refine ⟨na, nb, ?_, ?_⟩
    · rw [inv.absent (by simp [holds, hda, na]) (by simp [holds, hdb, nb])]; exact he
    · have := inv.queue
      simp [succ, na, nb] at this
      exact this
  · intro hfresh hguard hsys
    have lv := live ⟨rfl, rfl, ⟨by simp [a0], by simp [a0]⟩, ⟨by simp [b0], by simp [b0]⟩, hguard, hsys, hfresh,
      by simp [a0], by simp [b0]⟩
    have hex := inv.excl
    have fileA : a.code = 200 → w.disk.lookup (c.full n) = some (.file ⟨b1, none, id1⟩) := by
      intro h
      have := inv.oa.2.2 (by simp [complete, hda, h])
      rw [sa.2.1, sa.2.2.1, sa.1] at this; exact this
    have fileB : b.code = 200 → w.disk.lookup (c.full n) = some (.file ⟨b2, none, id2⟩) := by
      intro h
      have := inv.ob.2.2 (by simp [complete, hdb, h])
      rw [sb.2.1, sb.2.2.1, sb.1] at this; exact this
    by_cases ha : a.code = 200
    · have nb : b.code ≠ 200 := fun hb => hex ⟨by simp [holds, hda, ha], by simp [holds, hdb, hb]⟩
      obtain ⟨hb500, _⟩ := lv.lb hdb nb
      refine ⟨Or.inl ⟨ha, hb500, fileA ha⟩, ?_⟩
      have := inv.queue
      simp [succ, hda, ha, nb] at this
      exact this
    · obtain ⟨ha500, hb⟩ := lv.la hda ha
      have hb200 : b.code = 200 := by simpa [holds, hdb] using hb
      refine ⟨Or.inr ⟨ha500, hb200, fileB hb200⟩, ?_⟩
      have := inv.queue
      simp [succ, hdb, ha, hb200] at this
      exact this

/-! ### non-vacuity and sensitivity -/

/-- the hypotheses of `upload_exclusive` are satisfiable and its conclusion is not trivial: a concrete
    run in which the second request wins -/
example :
    let c : Cfg := ⟨Facts.expected, "/data".toList, "pcaps".toList⟩
    let s := Sys.run c ⟨⟨[], []⟩, [⟨1, "a.pcap".toList, 7, none, .start, 0⟩, ⟨2, "a.pcap".toList, 8, none, .start, 0⟩]⟩
      [1, 0, 1, 1, 0, 1]
    s.allDone = true ∧ s.reqs.map (·.code) = [500, 200] ∧
      s.world.disk.lookup "/data/pcaps/a.pcap".toList = some (.file ⟨8, none, 2⟩) ∧
      s.world.queue = ["a.pcap".toList] := by decide

/-- sensitivity: without O_EXCL (O_CREATE|O_TRUNC|O_WRONLY) an upload of a stored name overwrites it —
    the model depends on the regenerated flag fact, so the theorem above is not vacuous in it -/
theorem without_excl_overwrites :
    let c : Cfg := ⟨{ Facts.expected with upExcl := false, upTrunc := true }, "/data".toList, "pcaps".toList⟩
    let w0 : World := ⟨[("/data/pcaps/a.pcap".toList, .file ⟨1, none, 0⟩)], []⟩
    let r := runReq c w0 ⟨5, "a.pcap".toList, 9, none, .start, 0⟩
    r.2.code = 200 ∧ r.1.disk.lookup "/data/pcaps/a.pcap".toList = some (.file ⟨9, none, 0⟩) := by decide

/-- the three dot-ish fixed points of `Base` really pass the guard; it is the route pattern that excludes them -/
example : base ['/'] = ['/'] ∧ base ['.'] = ['.'] ∧ base ['.', '.'] = ['.', '.'] ∧
    join ["/data".toList, "pcaps".toList, ['.', '.']] = "/data".toList := by decide

example : plain "..%2f..%2fetc%2fx.pcap".toList ∧
    join ["/data".toList, "pcaps".toList, "..%2f..%2fx.pcap".toList] = "/data/pcaps/..%2f..%2fx.pcap".toList := by decide

example : uploadParam "/upload/../x.pcap".toList = none ∧ uploadParam "/upload/..pcap".toList = some "..pcap".toList ∧
    downloadParam "/api/download/pcap/a\\b.pcap".toList = none := by decide

end Pk.Props.C19
