/-
  C08 — import result does not depend on how and when captures arrive.

  Property theorems about Pk/Model/Import.lean.  Proved for all inputs: the snapshot choice
  (`snapshot_choice_valid`, `snapshot_choice_latest`), next-ID computation (`next_id_monotone`),
  ID reuse (`ids_stable`) and freshness (`fresh_ids_above`), and their composition `C08_partial`
  (no written stream ever takes an ID that an existing index file uses for a different first
  packet).  The order independence of the *fed sequence* is `C05.feedOrder_sorted` /
  `feedOrder_each_once`.  The full statements `NoDoubleIdChrono` / `BatchingIrrelevantChrono` are
  kept as definitions; they are NOT proved (they need the reassembler laws `ReasmLaws` for whole
  histories) and are checked by the one-shot oracle on generated histories.  For arbitrary arrival
  order the statement is false on the unchanged code: `finding_F31`, `finding_F19`, `finding_F34`
  are machine-checked witnesses (evaluated on the model; the same witnesses are in corpus/C08 and
  are replayed on the real builder by every check run).
-/
import Pk.Model.Import
import Pk.Proofs.Import

namespace Pk.Props.C08
open Pk.Import Pk.Proofs.Import

/-! ### snapshot choice -/

theorem chooseSnapshot_aux (t : Nat) (snaps : List Snapshot) : ∀ (best : Snapshot), best.ts ≤ t →
    let r := snaps.foldl (fun best ss => if best.ts > ss.ts then best else if t < ss.ts then best else ss) best
    r.ts ≤ t ∧ best.ts ≤ r.ts ∧ (∀ s ∈ snaps, s.ts ≤ t → s.ts ≤ r.ts) ∧ (r = best ∨ r ∈ snaps) := by
  induction snaps with
  | nil => intro best h; simp [h]
  | cons s ss ih =>
    intro best h
    simp only [List.foldl_cons]
    by_cases h1 : best.ts > s.ts
    · simp only [h1, if_true]
      obtain ⟨a, b, c, d⟩ := ih best h
      refine ⟨a, b, ?_, ?_⟩
      · intro x hx hxt
        rcases List.mem_cons.mp hx with rfl | hx
        · omega
        · exact c x hx hxt
      · rcases d with d | d
        · exact Or.inl d
        · exact Or.inr (List.mem_cons_of_mem _ d)
    · by_cases h2 : t < s.ts
      · simp only [h1, h2, if_true, if_false]
        obtain ⟨a, b, c, d⟩ := ih best h
        refine ⟨a, b, ?_, ?_⟩
        · intro x hx hxt
          rcases List.mem_cons.mp hx with rfl | hx
          · omega
          · exact c x hx hxt
        · rcases d with d | d
          · exact Or.inl d
          · exact Or.inr (List.mem_cons_of_mem _ d)
      · simp only [h1, h2, if_false]
        obtain ⟨a, b, c, d⟩ := ih s (by omega)
        refine ⟨a, by omega, ?_, ?_⟩
        · intro x hx hxt
          rcases List.mem_cons.mp hx with rfl | hx
          · exact b
          · exact c x hx hxt
        · rcases d with d | d
          · exact Or.inr (by rw [d]; exact List.mem_cons_self ..)
          · exact Or.inr (List.mem_cons_of_mem _ d)

/-- the chosen snapshot is never younger than the oldest new packet (so everything it has
    forgotten is older than every packet that will be fed) -/
theorem snapshot_choice_valid (snaps : List Snapshot) (oldestTs : Nat) :
    (chooseSnapshot snaps oldestTs).ts ≤ oldestTs :=
  (chooseSnapshot_aux oldestTs snaps {} (Nat.zero_le _)).1

/-- and it is the latest such snapshot, and one of the stored ones (or "no snapshot") -/
theorem snapshot_choice_latest (snaps : List Snapshot) (oldestTs : Nat) :
    (∀ s ∈ snaps, s.ts ≤ oldestTs → s.ts ≤ (chooseSnapshot snaps oldestTs).ts) ∧
    (chooseSnapshot snaps oldestTs = {} ∨ chooseSnapshot snaps oldestTs ∈ snaps) :=
  ⟨(chooseSnapshot_aux oldestTs snaps {} (Nat.zero_le _)).2.2.1, (chooseSnapshot_aux oldestTs snaps {} (Nat.zero_le _)).2.2.2⟩

/-- replay under a snapshot never feeds a packet older than the snapshot unless the snapshot
    references it -/
theorem replay_respects_snapshot (best : Snapshot) (info : PcapInfo) (pkts : List Pkt)
    (h : best.ts > info.tmin) :
    ∀ p ∈ replayPkts best info pkts, ¬ (best.ts > p.ts) ∨ p ∈ (best.refsOf info.name).filterMap (fun i => pkts[i]?) := by
  intro p hp
  simp only [replayPkts, h, if_true] at hp
  split at hp
  · rcases List.mem_append.mp hp with hp | hp
    · exact Or.inr hp
    · have := (List.mem_filter.mp hp).2
      left; simpa using this
  · exact Or.inr hp

/-! ### next ID -/

theorem maxID_ge (i : Index) : ∀ e ∈ i.streams, e.1 ≤ i.maxID := by
  unfold Index.maxID
  have aux : ∀ (l : List (Nat × Stream)) (m0 : Nat),
      m0 ≤ l.foldl (fun m e => max m e.1) m0 ∧ ∀ e ∈ l, e.1 ≤ l.foldl (fun m e => max m e.1) m0 := by
    intro l
    induction l with
    | nil => intro m0; simp
    | cons x xs ih =>
      intro m0
      simp only [List.foldl_cons]
      obtain ⟨a, b⟩ := ih (max m0 x.1)
      refine ⟨by omega, ?_⟩
      intro e he
      rcases List.mem_cons.mp he with rfl | he
      · omega
      · exact b e he
  exact (aux i.streams 0).2

theorem nextStreamID_aux (l : List Index) : ∀ (n0 : Nat),
    n0 ≤ l.foldl (fun n i => if n ≤ i.maxID then i.maxID + 1 else n) n0 ∧
    ∀ i ∈ l, i.maxID < l.foldl (fun n i => if n ≤ i.maxID then i.maxID + 1 else n) n0 := by
  induction l with
  | nil => intro n0; simp
  | cons x xs ih =>
    intro n0
    simp only [List.foldl_cons]
    by_cases hc : n0 ≤ x.maxID
    · simp only [hc, if_true]
      obtain ⟨a, b⟩ := ih (x.maxID + 1)
      refine ⟨by omega, ?_⟩
      intro i hi
      rcases List.mem_cons.mp hi with rfl | hi
      · omega
      · exact b i hi
    · simp only [hc, if_false]
      obtain ⟨a, b⟩ := ih n0
      refine ⟨a, ?_⟩
      intro i hi
      rcases List.mem_cons.mp hi with rfl | hi
      · omega
      · exact b i hi

/-- every stored stream ID is below the next ID -/
theorem next_id_above_stored (existing : List Index) :
    ∀ i ∈ existing, ∀ e ∈ i.streams, e.1 < nextStreamID existing := by
  intro i hi e he
  have h1 := maxID_ge i e he
  have h2 := (nextStreamID_aux existing 0).2 i hi
  unfold nextStreamID; omega

theorem assignStep_next (nf : List String) (ex : List Index) (a : Assigned) (s : Stream) :
    a.next ≤ (assignStep nf ex a s).next := by
  unfold assignStep
  split
  · exact Nat.le_refl _
  · split <;> simp
  · split <;> simp

/-- the next ID never decreases: neither inside one import nor from one import to the next -/
theorem next_id_monotone (nf : List String) (ex : List Index) (ss : List Stream) (next : Nat) :
    next ≤ (assignIDs nf ex ss next).next ∧
    (∀ (created : Index), nextStreamID ex ≤ nextStreamID (ex ++ [created])) := by
  constructor
  · unfold assignIDs
    have aux : ∀ (l : List Stream) (a : Assigned), a.next ≤ (l.foldl (assignStep nf ex) a).next := by
      intro l
      induction l with
      | nil => intro a; exact Nat.le_refl _
      | cons x xs ih =>
        intro a
        simp only [List.foldl_cons]
        exact Nat.le_trans (assignStep_next nf ex a x) (ih _)
    exact aux ss { next := next }
  · intro created
    unfold nextStreamID
    rw [List.foldl_append]
    simp only [List.foldl_cons, List.foldl_nil]
    split <;> omega

/-! ### ID reuse -/

theorem classifyWalk_some (nf : List String) (ex : List Index) (ps : List (PRef × Bool)) :
    ∀ (id : Nat) (t : Bool), (classifyWalk nf ex ps (some id) t).1 = some id := by
  induction ps with
  | nil => intro id t; simp [classifyWalk]
  | cons p ps ih =>
    intro id t
    obtain ⟨r, d⟩ := p
    by_cases hn : r.file ∈ nf <;> simp [classifyWalk, hn, ih]

/-- a stream whose first packet was already indexed (it is the first packet of a stream in an
    existing index file) keeps that stream's ID, whatever follows -/
theorem ids_stable (nf : List String) (ex : List Index) (r : PRef) (d : Bool) (rest : List (PRef × Bool))
    (id : Nat) (hold : r.file ∉ nf) (hl : lookupFirst ex r.file r.idx = some id) :
    (classifyWalk nf ex ((r, d) :: rest) none false).1 = some id := by
  simp [classifyWalk, hold, hl, classifyWalk_some]

/-- where the ID of a written stream comes from: the ID passed in, or a first-packet lookup -/
theorem classifyWalk_provenance (nf : List String) (ex : List Index) (ps : List (PRef × Bool)) :
    ∀ (id : Option Nat) (t : Bool),
      (classifyWalk nf ex ps id t).1 = id ∨
      ∃ p ∈ ps, (classifyWalk nf ex ps id t).1 = lookupFirst ex p.1.file p.1.idx := by
  induction ps with
  | nil => intro id t; simp [classifyWalk]
  | cons p ps ih =>
    intro id t
    obtain ⟨r, d⟩ := p
    cases id with
    | some i => left; exact classifyWalk_some nf ex _ i t
    | none =>
      by_cases hn : r.file ∈ nf
      · simp only [classifyWalk, List.contains_eq_mem, hn, decide_true, if_true, Option.isSome_none, Bool.false_eq_true, if_false]
        rcases ih none true with h | ⟨p, hp, h⟩
        · exact Or.inl h
        · exact Or.inr ⟨p, List.mem_cons_of_mem _ hp, h⟩
      · cases t with
        | true =>
          right
          refine ⟨(r, d), List.mem_cons_self .., ?_⟩
          simp [classifyWalk, hn]
        | false =>
          simp only [classifyWalk, List.contains_eq_mem, hn, decide_false, Bool.false_eq_true, if_false, Option.isSome_none]
          cases hl : lookupFirst ex r.file r.idx with
          | none =>
            rcases ih none false with h | ⟨p, hp, h⟩
            · exact Or.inl h
            · exact Or.inr ⟨p, List.mem_cons_of_mem _ hp, h⟩
          | some i =>
            right
            exact ⟨(r, d), List.mem_cons_self .., by rw [classifyWalk_some, hl]⟩

/-- IDs handed out by one import: either found by a first-packet lookup in the existing index
    files, or at least the `next` the import started with -/
theorem fresh_ids_above (nf : List String) (ex : List Index) (ss : List Stream) (next : Nat) :
    ∀ e ∈ (assignIDs nf ex ss next).index,
      (∃ f i, lookupFirst ex f i = some e.1) ∨ next ≤ e.1 := by
  unfold assignIDs
  have aux : ∀ (l : List Stream) (a : Assigned), next ≤ a.next →
      (∀ e ∈ a.index, (∃ f i, lookupFirst ex f i = some e.1) ∨ next ≤ e.1) →
      ∀ e ∈ (l.foldl (assignStep nf ex) a).index, (∃ f i, lookupFirst ex f i = some e.1) ∨ next ≤ e.1 := by
    intro l
    induction l with
    | nil => intro a _ h; exact h
    | cons s l ih =>
      intro a hn h
      simp only [List.foldl_cons]
      apply ih
      · exact Nat.le_trans hn (assignStep_next nf ex a s)
      · have prov := classifyWalk_provenance nf ex s.pkts none false
        unfold assignStep
        split
        · exact h
        · rename_i id cat heq
          have hid : ∃ f i, lookupFirst ex f i = some id := by
            rcases prov with p | ⟨p, _, hp⟩
            · rw [heq] at p; cases p
            · rw [heq] at hp; exact ⟨p.1.file, p.1.idx, hp.symm⟩
          intro e he
          have : e ∈ a.index ++ [(id, s)] := by
            split at he <;> simpa using he
          rcases List.mem_append.mp this with h' | h'
          · exact h e h'
          · simp at h'; subst h'; exact Or.inl hid
        · rename_i cat heq
          intro e he
          have : e ∈ a.index ++ [(a.next, s)] := by
            split at he <;> simpa using he
          rcases List.mem_append.mp this with h' | h'
          · exact h e h'
          · simp at h'; subst h'; exact Or.inr hn
  exact aux ss { next := next } (Nat.le_refl _) (by intro e he; cases he)

/-- C08, the part that holds for every arrival order: a stream written by an import either reuses
    the ID under which an existing index file stores the stream that starts with one of its
    packets, or receives an ID above every stored ID — an import never gives a stream an ID that
    belongs to an unrelated stored stream, and IDs are never handed out twice.
    Missing for the full statement (see `NoDoubleIdChrono`, `BatchingIrrelevantChrono`): that the
    reused ID is the ID of the *same connection* and that no second ID stays visible — true for
    chronological arrival under `ReasmLaws`, false in general (`finding_F31`). -/
theorem C08_partial (nf : List String) (ex : List Index) (ss : List Stream) :
    ∀ e ∈ (assignIDs nf ex ss (nextStreamID ex)).index,
      (∃ f i, lookupFirst ex f i = some e.1) ∨ (∀ i ∈ ex, ∀ x ∈ i.streams, x.1 < e.1) := by
  intro e he
  rcases fresh_ids_above nf ex ss (nextStreamID ex) e he with h | h
  · exact Or.inl h
  · right
    intro i hi x hx
    exact Nat.lt_of_lt_of_le (next_id_above_stored ex i hi x hx) h

/-! ### full statements (not proved) -/

/-- assumptions on the reassembler used by the chronological theorems -/
structure ReasmLaws (R : List Pkt → Array Stream) : Prop where
  /-- streams of a flow depend only on that flow's packets (and the flush times) -/
  flow_local : ∀ (ps : List Pkt) (sameFlow : Pkt → Bool) (i : Nat) (s : Stream), (R ps)[i]? = some s →
    (∀ p ∈ s.pkts, ∃ q ∈ ps, q.ref = p.1 ∧ sameFlow q = true) →
    ∃ j : Nat, ((R (ps.filter sameFlow))[j]?).map (fun (t : Stream) => (t.pkts, t.data)) = some (s.pkts, s.data)
  /-- a completed stream is not changed by later packets -/
  prefix_stable : ∀ (ps qs : List Pkt) (i : Nat) (s : Stream), (R ps)[i]? = some s → s.complete = true →
    ((R (ps ++ qs))[i]?).map (fun (t : Stream) => (t.pkts, t.data)) = some (s.pkts, s.data)

/-- import with the feeding order given (no snapshot): reassemble, assign IDs, stack the new index -/
def importStep (newFiles : List String) (fed : List Pkt) (stack : List Index) : List Index :=
  let a := assignIDs newFiles stack (reasm fed).toList (nextStreamID stack)
  if a.index.isEmpty then stack else stack ++ [{ streams := a.index }]

def sharePacket (s t : Stream) : Bool := s.pkts.any (fun p => t.pkts.any (fun q => p.1 == q.1))

def doubleIdAt (stack : List Index) (i j : Nat) : Bool :=
  match visibleStream stack i, visibleStream stack j with
  | some s, some t => sharePacket s t
  | _, _ => false

/-- no packet is visible under the two IDs `i` and `j` -/
def NoDoubleIdAt (stack : List Index) (i j : Nat) : Prop := doubleIdAt stack i j = false

instance (stack : List Index) (i j : Nat) : Decidable (NoDoubleIdAt stack i j) := by
  unfold NoDoubleIdAt; infer_instance

/-- FULL STATEMENT `no_double_id_chrono` (NOT PROVED): for chronological arrival — every batch is
    not older than everything indexed — no two visible IDs share a packet after any import. -/
def NoDoubleIdChrono : Prop :=
  ∀ (batches : List (List String × List Pkt)),
    batches.Pairwise (fun bi bj => ∀ p ∈ bi.2, ∀ q ∈ bj.2, p.ts ≤ q.ts) →
    let stack := (batches.foldl (fun (acc : List Index × List Pkt) b =>
        (importStep b.1 (sortPkts (acc.2 ++ b.2)) acc.1, acc.2 ++ b.2)) ([], [])).1
    ∀ i j, i ≠ j → NoDoubleIdAt stack i j

/-- FULL STATEMENT `batching_irrelevant_chrono` (NOT PROVED): for chronological arrival any
    partition into batches gives the visible streams of the one-shot import up to renumbering. -/
def BatchingIrrelevantChrono : Prop :=
  ∀ (batches : List (List String × List Pkt)),
    batches.Pairwise (fun bi bj => ∀ p ∈ bi.2, ∀ q ∈ bj.2, p.ts ≤ q.ts) →
    let incr := (batches.foldl (fun (acc : List Index × List Pkt) b =>
        (importStep b.1 (sortPkts (acc.2 ++ b.2)) acc.1, acc.2 ++ b.2)) ([], [])).1
    let all := batches.foldr (fun b acc => b.2 ++ acc) []
    let one := importStep (batches.map (·.1)).flatten (sortPkts all) []
    ((visible incr).map (fun e => (e.2.pkts, e.2.data))).Perm ((visible one).map (fun e => (e.2.pkts, e.2.data)))

/-! ### defects of the unchanged code: machine-checked witnesses -/

def udpPkt (file : String) (idx ts : Nat) (b : UInt8) : Pkt :=
  { ts := ts, file := file, idx := idx, udp := true, src := "c", dst := "s", sport := 1111, dport := 53, payload := [b] }

/-- F31: a.pcap (t = 1 s) and c.pcap (t = 400 s) are imported, then b.pcap (t = 200 s) arrives.
    The flow had been indexed as two streams (idle > 5 min); b bridges the gap: stream 0 becomes
    a,b,c while stream 1 = c stays visible — packet c#0 is visible under two IDs. -/
theorem finding_F31 :
    let a := udpPkt "a" 0 1000000 0x41
    let b := udpPkt "b" 0 200000000 0x42
    let c := udpPkt "c" 0 400000000 0x43
    let stack := importStep ["b"] [a, b, c] (importStep ["c"] [a, c] (importStep ["a"] [a] []))
    ¬ NoDoubleIdAt stack 0 1 := by
  decide

/-- F19: a.pcap and b.pcap are both in the capture directory when the builder starts (both are
    "known"); importing b replays a as an old capture (the feed is a,b), importing a afterwards
    replays b: the flow ends up visible under the IDs 0 and 1. -/
theorem finding_F19 :
    let a := udpPkt "a" 0 1000000 0x41
    let b := udpPkt "b" 0 2000000 0x42
    let stack := importStep ["a"] [a, b] (importStep ["b"] [a, b] [])
    ¬ NoDoubleIdAt stack 0 1 := by
  decide

def tcpPkt (file : String) (idx ts : Nat) (c2s syn ack : Bool) (seq : Nat) (pl : Bytes) : Pkt :=
  { ts := ts, file := file, idx := idx, udp := false,
    src := if c2s then "c" else "s", dst := if c2s then "s" else "c",
    sport := if c2s then 40000 else 80, dport := if c2s then 80 else 40000,
    syn := syn, ack := ack, seq := seq, payload := pl }

/-- F34: byte 0x42 (seq 102) waits behind a hole (seq 101 missing) when a.pcap is imported; a packet
    in b.pcap, more than 5 min later, makes the reassembler give up the hole and deliver 0x42 to the
    old stream — which has no packet in b.pcap and therefore is not rewritten.  One-shot import:
    stream 0 carries 0x42; incremental import: stream 0 carries nothing. -/
theorem finding_F34 :
    let w := [tcpPkt "a" 0 1000000 true true false 100 [], tcpPkt "a" 1 1000010 false true true 1000 [],
              tcpPkt "a" 2 1000020 true false true 101 [], tcpPkt "a" 3 1000030 true false true 102 [0x42]]
    let late := tcpPkt "b" 0 400000000 true false true 101 [0x41]
    let incr := importStep ["b"] (w ++ [late]) (importStep ["a"] w [])
    let one := importStep ["a", "b"] (w ++ [late]) []
    (visibleStream incr 0).map (·.data) ≠ (visibleStream one 0).map (·.data) := by
  decide

/-! ### non-vacuity -/

example : ∃ snaps t, snaps ≠ [] ∧ (chooseSnapshot snaps t).ts ≠ 0 :=
  ⟨[{ ts := 5, chunkCount := 1 }], 7, by simp, by decide⟩

/-- `NoDoubleIdAt` is not vacuous: it holds for two different flows -/
example : NoDoubleIdAt (importStep ["a"] [udpPkt "a" 0 1000000 0x41,
    { udpPkt "a" 1 1000001 0x42 with sport := 2222 }] []) 0 1 := by decide

end Pk.Props.C08
