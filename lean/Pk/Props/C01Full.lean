/-
  C01 — the full statements of Pk/Props/C01.lean (`RoundtripPackets`, `RoundtripPayload`,
  `LookupByFirstPacketExact` are `def … : Prop` there).

  Two of the three are FALSE as written, the third is false for inputs no machine can hold; each is proved here
  in a primed version with one added input well-formedness hypothesis and the conclusion unchanged:

  * `roundtrip_packets' : RoundtripPackets'` and `lookup_by_first_packet_exact' : LookupByFirstPacketExact'`
    add `NamesWF ss` (no capture file name contains a NUL byte): the file-name section is NUL separated, the reader
    cuts a name at its first NUL. `roundtrip_packets_counterexample : ¬ RoundtripPackets` and
    `lookup_by_first_packet_counterexample : ¬ LookupByFirstPacketExact` (one stream, one packet, file name "\0").
  * `roundtrip_payload' : RoundtripPayload'` adds `(s.data.map (·.bytes.length)).sum < 2 ^ 64` per stream: the
    segmentation varint is decoded into a uint64. (A counterexample needs a 2^64-byte chunk; not stated.)

  Helper lemmas: Pk/Proofs/IndexFormatFull*.lean.
-/
import Pk.Props.C01
import Pk.Proofs.IndexFormatFull

namespace Pk.Props.C01
open Pk Pk.Bytes Pk.Index

/-- no source reference of the stream set names a capture file with a NUL byte in its name -/
def NamesWF (ss : List StreamIn) : Prop := ∀ s ∈ ss, ∀ p ∈ s.packets, ∀ ref ∈ p.refs, NoNul ref.file

/-- everything the theorems need about stream `i` of a reopened file (import table aside) -/
theorem stream_facts0 (ss : List StreamIn) (w : Writer) (r : Reader)
    (hw : ({} : Writer).addAll ss = some w) (hr : newReader w.finalize = .ok r)
    (hwf : ∀ s ∈ ss, s.TimeWF) (i : Nat) (s : StreamIn) (hs : ss[i]? = some s) :
    ∃ rec_, r.f.streams[i]? = some rec_ ∧ r.f.packets = w.packets ∧ r.f.data = w.blobs.flatten ∧
      w.imports.Nodup ∧ PktAt w.imports w.packets s rec_ ∧ RecOf r.f.ref s rec_ ∧ BlobAt w.blobs.flatten s rec_ := by
  obtain ⟨hst, hpk, hdata, href⟩ := reader_sections0 w r hr
  have hp := addAll_pkt ss {} w [] ⟨by simp, Zip.nil⟩ hw
  have hm := addAll_meta ss {} w [] ⟨fun _ => rfl, Recs.nil⟩ hwf hw
  have hd := addAll_data ss {} w [] ⟨rfl, Zip.nil⟩ hw
  simp only [List.nil_append] at hp hm hd
  obtain ⟨r1, hr1, hpa, _⟩ := hp.2.get i s hs
  obtain ⟨r2, hr2, hrec⟩ := hm.2.get i s hs
  obtain ⟨r3, hr3, hblob⟩ := hd.2.get i s hs
  rw [hr1] at hr2 hr3
  cases hr2; cases hr3
  exact ⟨r1, by rw [hst]; exact hr1, hpk, hdata, hp.1, hpa, by rw [href]; exact hrec, hblob⟩

/-- … and with the import table, for file names without NUL -/
theorem stream_facts (ss : List StreamIn) (w : Writer) (r : Reader)
    (hw : ({} : Writer).addAll ss = some w) (hr : newReader w.finalize = .ok r)
    (hwf : ∀ s ∈ ss, s.TimeWF) (hn : NamesWF ss) (i : Nat) (s : StreamIn) (hs : ss[i]? = some s) :
    ∃ rec_, r.f.streams[i]? = some rec_ ∧ r.f.packets = w.packets ∧ r.f.data = w.blobs.flatten ∧ r.imports = w.imports ∧
      w.imports.Nodup ∧ PktAt w.imports w.packets s rec_ ∧ RecOf r.f.ref s rec_ ∧ BlobAt w.blobs.flatten s rec_ := by
  have hnames : ∀ k ∈ w.imports, NoNul k.1 :=
    addAll_import_files NoNul ss {} w hn (by intro k hk; simp at hk) hw
  obtain ⟨_, _, _, _, himp⟩ := reader_sections w r hr hnames
  obtain ⟨rec_, h1, h2, h3, h4, h5, h6, h7⟩ := stream_facts0 ss w r hw hr hwf i s hs
  exact ⟨rec_, h1, h2, h3, himp, h4, h5, h6, h7⟩

theorem expectedPackets_eq (s : StreamIn) (p0 : PacketIn) (hp0 : s.packets.head? = some p0) :
    expectedPackets s = (trips s.data 0 s.packets).map (outOf p0.ts) := by
  unfold expectedPackets
  rw [hp0]
  exact expected_eq_trips p0.ts s.data s.packets 0

/-- ADDED: `NamesWF ss` — the file-name section is NUL separated and the reader cuts every name at the first NUL
    (reader.go 184–191), so a capture file name containing a NUL byte does not survive. Real capture file names
    (path components) never contain NUL. Counterexample to the unprimed statement: `roundtrip_packets_counterexample`. -/
def RoundtripPackets' : Prop :=
  ∀ (ss : List StreamIn) (w : Writer) (r : Reader), ({} : Writer).addAll ss = some w → newReader w.finalize = .ok r →
    (∀ s ∈ ss, PacketsWF s) → NamesWF ss → ∀ (i : Nat) (s : StreamIn), ss[i]? = some s →
      ∃ rec_, r.f.streams[i]? = some rec_ ∧ r.packets rec_ = .ok (expectedPackets s)

theorem packets_of_stream (ss : List StreamIn) (w : Writer) (r : Reader)
    (hw : ({} : Writer).addAll ss = some w) (hr : newReader w.finalize = .ok r)
    (hwf : ∀ s ∈ ss, PacketsWF s) (hn : NamesWF ss) (i : Nat) (s : StreamIn) (hs : ss[i]? = some s) :
    ∃ rec_, r.f.streams[i]? = some rec_ ∧ r.packets rec_ = .ok (expectedPackets s) ∧
      w.imports.Nodup ∧ r.f.packets = w.packets ∧ r.imports = w.imports ∧ PktAt w.imports w.packets s rec_ := by
  obtain ⟨rec_, hrec, hpk, _, himp, hnd, hpa, hro, _⟩ :=
    stream_facts ss w r hw hr (fun s hs => (hwf s hs).1) hn i s hs
  refine ⟨rec_, hrec, ?_, hnd, hpk, himp, hpa⟩
  obtain ⟨_, hch, hrefs, hpw⟩ := hwf s (List.mem_of_getElem? hs)
  obtain ⟨_, _, _, _, _, p0, pl, hp0, _, hf, _, hbf, _⟩ := hro
  obtain ⟨hkeys, _, rest, hdrop⟩ := hpa
  have hfirst : r.firstPacket rec_ = p0.ts := by
    unfold Reader.firstPacket; rw [i64_small _ (by omega)]; exact hf
  unfold Reader.packets
  rw [hfirst, himp, hpk, hdrop, expectedPackets_eq s p0 hp0]
  apply packets_walk_stream w.imports s rest p0 hp0 hkeys hrefs
  · intro i p q hp hq
    have := hch i p q hp hq
    rw [hp0] at this
    exact this
  · rw [← expectedPackets_eq s p0 hp0]; exact hpw

theorem roundtrip_packets' : RoundtripPackets' := by
  intro ss w r hw hr hwf hn i s hs
  obtain ⟨rec_, h1, h2, _⟩ := packets_of_stream ss w r hw hr hwf hn i s hs
  exact ⟨rec_, h1, h2⟩

/-! ## lookup by first source packet -/

/-- (file name, packet index) of the first source reference of a stream -/
def firstKey (s : StreamIn) : Option (Bytes × Nat) := (expectedPackets s).head?.map fun p => (p.file, p.index)

/-- ADDED: `NamesWF ss` (see `RoundtripPackets'`): the reader compares the name cut at the first NUL.
    Counterexample to the unprimed statement: `lookup_by_first_packet_counterexample`. -/
def LookupByFirstPacketExact' : Prop :=
  ∀ (ss : List StreamIn) (w : Writer) (r : Reader), ({} : Writer).addAll ss = some w → newReader w.finalize = .ok r →
    (∀ s ∈ ss, PacketsWF s) → NamesWF ss →
    ((ss.map fun s => (expectedPackets s).head?.map fun p => (p.file, p.index)).Pairwise (· ≠ ·)) →
    ∀ (file : Bytes) (index : Nat), index < 2 ^ 64 →
      (r.streamBySource file index).map (·.2.id) =
        (ss.find? fun s => (expectedPackets s).head?.map (fun p => (p.file, p.index)) == some (file, index)).map (·.id)

theorem lookup_by_first_packet_exact' : LookupByFirstPacketExact' := by
  intro ss w r hw hr hwf hn hdist file index _
  have hnames : ∀ k ∈ w.imports, NoNul k.1 :=
    addAll_import_files NoNul ss {} w hn (by intro k hk; simp at hk) hw
  obtain ⟨hst, hpk, _, _, himp⟩ := reader_sections w r hr hnames
  have hfile := (newReader_ok _ r hr).1
  have hlen : w.streams.length = ss.length := by
    have := congrArg List.length (addAll_ids ss {} w hw); simpa using this
  have hg : ∀ x, r.firstSource x = (srcKey w.imports w.packets x).canon := by
    intro x; rw [firstSource_eq, himp, hpk]
  -- per stream: its record, its resolved key
  have hper : ∀ (j : Nat) (s : StreamIn), ss[j]? = some s → ∃ rec_, w.streams[j]? = some rec_ ∧ rec_.id = s.id ∧
      firstKey s = some (r.firstSource rec_) ∧
      (srcKey w.imports w.packets rec_).off + (srcKey w.imports w.packets rec_).idx < 2 ^ 64 := by
    intro j s hs
    obtain ⟨rec_, hrec, _, _, _, _, hpa, hro, _⟩ :=
      stream_facts ss w r hw hr (fun s hs => (hwf s hs).1) hn j s hs
    obtain ⟨_, _, hrefs, _⟩ := hwf s (List.mem_of_getElem? hs)
    obtain ⟨hid, _, _, _, _, p0, pl, hp0, _⟩ := hro
    have hne : s.packets ≠ [] := by intro h; rw [h] at hp0; simp at hp0
    obtain ⟨t0, T, hT, hcanon, hvalid⟩ := srcKey_stream w.imports w.packets s rec_ hpa hne
      (fun p hp => ⟨(hrefs p hp).1, (hrefs p hp).2.2⟩)
    refine ⟨rec_, by rw [← hst]; exact hrec, hid, ?_, hvalid⟩
    rw [hg, hcanon]
    simp [firstKey, expectedPackets_eq s p0 hp0, hT, outOf]
  have hper' : ∀ x ∈ w.streams, (srcKey w.imports w.packets x).off + (srcKey w.imports w.packets x).idx < 2 ^ 64 := by
    intro x hx
    obtain ⟨j, hj, hjx⟩ := List.mem_iff_getElem.mp hx
    have hj' : j < ss.length := by omega
    obtain ⟨rec_, hrec, _, _, hv⟩ := hper j ss[j] (by simp [hj'])
    rw [List.getElem?_eq_getElem hj] at hrec
    injection hrec with hrec
    rw [← hjx, hrec]; exact hv
  have hless : ∀ a ∈ w.streams.map (srcKey w.imports w.packets), ∀ b ∈ w.streams.map (srcKey w.imports w.packets),
      lessSrc a b = lexLt a.canon b.canon := by
    intro a ha b hb
    obtain ⟨x, hx, rfl⟩ := List.mem_map.mp ha
    obtain ⟨y, hy, rfl⟩ := List.mem_map.mp hb
    exact lessSrc_canon _ _ (hper' x hx) (hper' y hy) (srcKey_same _ _ x y)
  obtain ⟨hA, hB, hC⟩ := sortedIndexes_facts (w.streams.map (srcKey w.imports w.packets)) lessSrc SrcKey.canon hless
    (srcKey w.imports w.packets default)
  have hlk : r.f.lkSrc = sortedIndexes (w.streams.map (srcKey w.imports w.packets)) lessSrc := by rw [hfile]; rfl
  rw [← hlk] at hA hB hC
  have hCK : ∀ j, r.firstSource (r.f.streams.getD j default) = (w.streams.map r.firstSource).getD j (r.firstSource default) := by
    intro j; rw [hst]; exact (getD_map' _ _ _ _).symm
  have hC' : (r.f.lkSrc.map (fun j => (w.streams.map r.firstSource).getD j (r.firstSource default))).Pairwise
      (fun a b => lexLe a b = true) := by
    have : (fun j => (w.streams.map r.firstSource).getD j (r.firstSource default)) =
        (fun j => ((w.streams.map (srcKey w.imports w.packets)).getD j (srcKey w.imports w.packets default)).canon) := by
      funext j
      rw [getD_map', getD_map', hg]
    rw [this]; exact hC
  have hsearch := search_sorted (w.streams.map r.firstSource) r.f.lkSrc (r.firstSource default) (file, index) w.streams.length
    (by rw [hlk, sortedIndexes_length]; simp) (by simpa using hA) (by simpa using hB) hC'
  rw [streamBySource_eq]
  simp only [hCK]
  rw [hst]
  generalize sortSearch (fun i => lexLe (file, index) ((w.streams.map r.firstSource).getD (r.f.lkSrc.getD i 0) (r.firstSource default)))
    0 w.streams.length = k at hsearch ⊢
  rcases hsearch with ⟨hk, hsi, hck⟩ | ⟨hbad, hnone⟩
  · have h1 : ¬ (k ≥ w.streams.length) := by omega
    simp only [h1, if_false, hck, ne_eq, not_true_eq_false, Option.map_some]
    have hsi' : r.f.lkSrc.getD k 0 < ss.length := by omega
    obtain ⟨rec_, hrec, hid, hkey, _⟩ := hper (r.f.lkSrc.getD k 0) ss[r.f.lkSrc.getD k 0] (by simp)
    have hgetD : w.streams.getD (r.f.lkSrc.getD k 0) default = rec_ := by
      rw [List.getD_eq_getElem?_getD, hrec]; rfl
    rw [getD_map', hgetD] at hck
    rw [hck] at hkey
    have hfind := find?_unique firstKey ss (r.f.lkSrc.getD k 0) ss[r.f.lkSrc.getD k 0] (some (file, index)) hdist
      (by simp) hkey
    have hfind' : (ss.find? fun s => (expectedPackets s).head?.map (fun p => (p.file, p.index)) == some (file, index)) =
        some ss[r.f.lkSrc.getD k 0] := hfind
    rw [hfind', hgetD]
    simp [hid]
  · have hres : (if k ≥ w.streams.length then none
        else if (w.streams.map r.firstSource).getD (r.f.lkSrc.getD k 0) (r.firstSource default) ≠ (file, index) then none
        else some (r.f.lkSrc.getD k 0, w.streams.getD (r.f.lkSrc.getD k 0) default)) = none := by
      rcases hbad with h | h
      · rw [if_pos h]
      · by_cases hk : k ≥ w.streams.length
        · rw [if_pos hk]
        · rw [if_neg hk, if_pos h]
    rw [hres]
    have hfind : (ss.find? fun s => (expectedPackets s).head?.map (fun p => (p.file, p.index)) == some (file, index)) = none := by
      rw [List.find?_eq_none]
      intro s hs
      obtain ⟨j, hj, hjs⟩ := List.mem_iff_getElem.mp hs
      obtain ⟨rec_, hrec, _, hkey, _⟩ := hper j s (by rw [List.getElem?_eq_getElem hj, hjs])
      have hgetD : w.streams.getD j default = rec_ := by rw [List.getD_eq_getElem?_getD, hrec]; rfl
      have := hnone j (by omega)
      rw [getD_map', hgetD] at this
      have hk' : (expectedPackets s).head?.map (fun p => (p.file, p.index)) = some (r.firstSource rec_) := hkey
      rw [hk']
      simpa using this
    rw [hfind]; rfl

/-! ## payload -/

theorem mergedRuns_eq (l : List (Nat × Nat)) : mergedRuns l = mRuns l := by
  induction l with
  | nil => rfl
  | cons x rest ih =>
    obtain ⟨d, n⟩ := x
    simp only [mergedRuns, mRuns, ih]
    by_cases hn : n = 0
    · simp [hn]
    · simp only [hn, if_false]
      cases mRuns rest with
      | nil => rfl
      | cons y rs => rfl

/-- ADDED: `(s.data.map (·.bytes.length)).sum < 2 ^ 64` for every stream — the reader accumulates the segmentation
    varint in a uint64 (reader.go 538–548, `decVarintAux`), so a run of 2^64 bytes or more is not read back. No real
    stream reaches that size (and Go slices cannot); a concrete counterexample would need 2^64 bytes and is not
    stated. (`NamesWF` is NOT needed here: `Stream.Data` never looks at the import table.) -/
def RoundtripPayload' : Prop :=
  ∀ (ss : List StreamIn) (w : Writer) (r : Reader), ({} : Writer).addAll ss = some w → newReader w.finalize = .ok r →
    (∀ s ∈ ss, PacketsWF s ∧ (s.data.map (·.pos)).Pairwise (· < ·)) →
    (∀ s ∈ ss, (s.data.map (·.bytes.length)).sum < 2 ^ 64) →
    ∀ (i : Nat) (s : StreamIn), ss[i]? = some s →
      ∃ rec_ cds ds, r.f.streams[i]? = some rec_ ∧ chunkDirs s.packets s.data = some cds ∧ r.data rec_ = .ok ds ∧
        ((ds.filter (·.dir == 0)).map (·.content)).flatten = dirBytes 0 cds ∧
        ((ds.filter (·.dir == 1)).map (·.content)).flatten = dirBytes 1 cds ∧
        mergedRuns (ds.map fun d => (d.dir, d.content.length)) = mergedRuns (cds.map fun c => (c.1, c.2.length))

theorem roundtrip_payload' : RoundtripPayload' := by
  intro ss w r hw hr hwf hsz i s hs
  obtain ⟨rec_, hrec, hpk, hdata, _, hpa, hro, hblob⟩ :=
    stream_facts0 ss w r hw hr (fun s hs => (hwf s hs).1.1) i s hs
  have hmem := List.mem_of_getElem? hs
  obtain ⟨⟨_, _, hrefs, _⟩, hpos⟩ := hwf s hmem
  obtain ⟨cds, hcd, _, hb2⟩ := hblob
  obtain ⟨_, _, _, _, ⟨cds', hcd', hcb, hsb⟩, _⟩ := hro
  rw [hcd] at hcd'
  cases hcd'
  obtain ⟨ds, hds, f0, f1, fm⟩ := data_of_stream r w.packets w.blobs.flatten w.imports s rec_ cds hpk hdata hpa hcd hb2 hcb hsb
    (fun p hp => ⟨(hrefs p hp).1, (hrefs p hp).2.1⟩) hpos (hsz s hmem)
  refine ⟨rec_, cds, ds, hrec, hcd, hds, f0, f1, ?_⟩
  rw [mergedRuns_eq, mergedRuns_eq]
  exact fm

/-! ### the unprimed statements fail on a capture file name with a NUL byte -/

/-- a stream whose only packet comes from a capture file named "\0" -/
def cx : StreamIn :=
  { id := 1, client := [10,0,0,2], server := [10,0,0,3], cport := 1, sport := 2, flags := 0,
    packets := [{ ts := 0, dir := 0, refs := [{ file := [0], index := 0 }] }], data := [] }

def cxRec : StreamRec :=
  { id := 1, first := 0, last := 0, dataStart := 0, cb := 0, sb := 0, pstart := 0, flags := 1, hg := 0,
    ch := 0, sh := 1, cp := 1, sp := 2 }

def cxW : Writer :=
  { hostGroups := [{ hosts := [10, 0, 0, 2, 10, 0, 0, 3], hostSize := 4 }],
    imports := [([0], 0)],
    packets := [{ rel := 0, imp := 0, idx := 0, size := 0, skip := 255, flags := 0 }],
    streams := [{ id := 1, first := 0, last := 0, dataStart := 0, cb := 0, sb := 0, pstart := 0, flags := 1, hg := 0,
                  ch := 0, sh := 1, cp := 1, sp := 2 }],
    blobs := [[]], dataLen := 0, ref := 0 }

theorem cx_added : ({} : Writer).addAll [cx] = some cxW := by decide

theorem cx_wf : PacketsWF cx := by
  refine ⟨⟨_, _, rfl, rfl, by decide, by decide, by decide⟩, ?_, ?_, by decide⟩
  · intro i p q hp hq
    cases i <;> simp [cx] at hp hq
  · intro p hp
    simp [cx] at hp
    subst hp
    simp

theorem cx_reopen : ∃ r, newReader cxW.finalize = .ok r :=
  reopen_succeeds [cx] cxW cx_added (by simp) (by intro s hs; simp at hs; subst hs; simp [StreamIn.AddrWF, HostAddr, cx])
    (by decide) (by decide)

theorem roundtrip_packets_counterexample : ¬ RoundtripPackets := by
  intro h
  obtain ⟨r, hr⟩ := cx_reopen
  obtain ⟨rec_, hrec, hp⟩ := h [cx] cxW r cx_added hr (by intro s hs; simp at hs; subst hs; exact cx_wf) 0 cx rfl
  obtain ⟨hf, _, _, _, himp⟩ := newReader_ok _ r hr
  rw [hf] at hrec
  have hrec' : rec_ = cxRec := by
    have : cxW.finalize.streams[0]? = some cxRec := rfl
    rw [this] at hrec; injection hrec with h; exact h.symm
  subst hrec'
  unfold Reader.packets Reader.firstPacket at hp
  rw [himp, hf] at hp
  have e1 : readImports cxW.finalize.importNames cxW.finalize.imports = [([], 0)] := by decide
  have e2 : cxW.finalize.packets = [{ rel := 0, imp := 0, idx := 0, size := 0, skip := 255, flags := 0 }] := rfl
  rw [e1, e2] at hp
  simp [packetsWalk, expectedPackets, cx, cxRec, PacketIn.pmds] at hp

theorem lookup_by_first_packet_counterexample : ¬ LookupByFirstPacketExact := by
  intro h
  obtain ⟨r, hr⟩ := cx_reopen
  have h1 := h [cx] cxW r cx_added hr (by intro s hs; simp at hs; subst hs; exact cx_wf) (by simp) [0] 0 (by decide)
  obtain ⟨_, _, _, _, himp⟩ := newReader_ok _ r hr
  have e1 : readImports cxW.finalize.importNames cxW.finalize.imports = [([], 0)] := by decide
  rw [e1] at himp
  have hfs : ∀ x, (r.firstSource x).1 = [] := by
    intro x
    unfold Reader.firstSource
    rw [himp]
    simp only [List.getD_eq_getElem?_getD]
    cases (r.f.packets[x.pstart]?.getD default).imp with
    | zero => rfl
    | succ n => rfl
  have hrhs : (([cx] : List StreamIn).find? fun s => (expectedPackets s).head?.map (fun p => (p.file, p.index)) == some ([0], 0)).map (·.id)
      = some 1 := by decide
  rw [hrhs, streamBySource_eq] at h1
  split at h1
  · simp at h1
  · split at h1
    · simp at h1
    · rename_i hne
      have := hfs (r.f.streams.getD (r.f.lkSrc.getD (sortSearch (fun i => lexLe ([0], 0) (r.firstSource (r.f.streams.getD (r.f.lkSrc.getD i 0) default))) 0 r.f.streams.length) 0) default)
      simp only [ne_eq, Decidable.not_not] at hne
      rw [hne] at this
      simp at this


end Pk.Props.C01
