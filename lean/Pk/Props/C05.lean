/-
  C05 — indexed payload equals what the endpoints exchanged on the wire.

  Property theorems about Pk/Model/Import.lean (helper lemmas: Pk/Proofs/Import.lean).
  What is the repository's own logic is proved for all inputs: the order in which packets of
  several captures reach the reassemblers (`feedOrder_*`), the UDP flow table (`udp_flow_table_*`),
  the attribution of delivered bytes to packets and directions (`attribution_total`) and the
  selection of the streams that are written (`touched_selection`).  TCP reassembly proper is
  gopacket's: `ReasmRecovers` states what is needed from it, `C05_partial` is the composition under
  that assumption, `reasm_inorder_step_partial` / `reasm_udp_step_partial` prove the reference
  reassembler's single steps, and the correspondence check validates the reference against the real
  reassembler on all generated traffic.  `finding_F32` is the machine-checked witness of a defect
  of the real reassembler that the reference reproduces.
  Pk/Props/C05Reasm.lean adds the RUN-level theorems about the reference reassembler:
  `reasm_inorder_run(_wrap)`, `reasm_retransmit_run`, `reasm_slices_invariant` / `reasm_slices_run` (ANY
  order, duplication and overlapping re-segmentation of slices of the byte string: exactly the bytes are
  delivered, once, in order, attributed to a packet that carried them), `reasm_reorder_run`, and
  `reasm_single_conversation_partial` — an instance of `ReasmRecovers` for a wire holding one conversation
  (handshake + arbitrarily disturbed data in both directions).
  Pk/Props/C05More.lean completes it inside one inactivity window: teardown (`reasm_teardown`,
  `reasm_teardown_frozen`), flow locality for any number of interleaved TCP/UDP conversations
  (`reasm_flow_local`), `reasmRecovers_wellformed` (an instance of `ReasmRecovers` with a concrete `WireTruth`),
  UDP flows across the timeout (`reasm_udp_across_timeout`); flow locality ACROSS the timeout and
  `prefix_stable` are false of the reference (`flow_local_false_across_timeout`, `prefix_stable_false` — the
  mechanism of the known finding F34).
-/
import Pk.Model.Import
import Pk.Proofs.Import

namespace Pk.Props.C05
open Pk.Import Pk.Proofs.Import

/-! ### feeding order -/

/-- packets of the older captures that a FromPcap call replays -/
def replayed (olds : List OldPcap) : List Pkt := olds.flatMap (·.pkts)

/-- every packet (replayed or new) is handed to the reassemblers exactly once, for every cut of the
    traffic into capture files and every choice of captures to replay -/
theorem feedOrder_each_once (olds : List OldPcap) (new : List Pkt) :
    (feedOrder olds new).Perm (new ++ replayed olds) := by
  unfold feedOrder replayed
  have h := feedLoop_perm olds [] (sortPkts new)
  have s := sortPkts_perm new
  simp only [List.nil_append] at h
  exact h.trans (List.Perm.append_right _ s)

/-- the two-pointer merge with lazy loading of older captures feeds packets in
    (timestamp, file, index) order, provided the older captures are visited in the order of their
    first timestamps and none of their packets is older than that timestamp (both are established
    by the builder: `neededSorted`, `infoOf_tmin_le`) -/
theorem feedOrder_sorted (olds : List OldPcap) (new : List Pkt)
    (hs : olds.Pairwise (fun a b => a.tmin ≤ b.tmin))
    (hmin : ∀ pc ∈ olds, ∀ y ∈ pc.pkts, pc.tmin ≤ y.ts) :
    (feedOrder olds new).Pairwise (fun a b => pktLe a b = true) :=
  feedLoop_sorted olds [] (sortPkts new) List.Pairwise.nil (sortPkts_sorted new) hs hmin

/-- `comparePackets` never orders two packets both ways, and leaves only packets with the same
    (timestamp, file, index) unordered: the sorted sequence is unique up to such packets -/
theorem comparePackets_strict_total (a b : Pkt) :
    (pktLt a b = true → pktLt b a = false) ∧
    (pktLt a b = false → pktLt b a = false → a.ts = b.ts ∧ a.file = b.file ∧ a.idx = b.idx) :=
  ⟨pktLt_asymm, pktLt_trichotomy⟩

/-- the order in which the builder visits the older captures -/
theorem neededSorted (l : List PcapInfo) : (sortByTmin l).Pairwise (fun a b => a.tmin ≤ b.tmin) := by
  unfold sortByTmin
  induction l with
  | nil => exact List.Pairwise.nil
  | cons x xs ih =>
    simp only [List.foldr_cons]
    generalize List.foldr insertByTmin [] xs = ys at ih
    induction ys with
    | nil => simp [insertByTmin]
    | cons y ys ih2 =>
      simp only [insertByTmin]
      have hp := List.pairwise_cons.mp ih
      split
      · rename_i hlt
        refine List.pairwise_cons.mpr ⟨?_, ih⟩
        intro z hz
        rcases List.mem_cons.mp hz with rfl | hz
        · omega
        · have := hp.1 z hz; omega
      · rename_i hge
        have ih3 := ih2 hp.2
        refine List.pairwise_cons.mpr ⟨?_, ih3⟩
        intro z hz
        have hmem : ∀ (w : List PcapInfo), z ∈ insertByTmin x w → z = x ∨ z ∈ w := by
          intro w
          induction w with
          | nil => simp [insertByTmin]
          | cons a w ihw =>
            simp only [insertByTmin]
            split
            · intro h; rcases List.mem_cons.mp h with h | h
              · exact Or.inl h
              · exact Or.inr h
            · intro h; rcases List.mem_cons.mp h with h | h
              · exact Or.inr (h ▸ List.mem_cons_self ..)
              · rcases ihw h with h | h
                · exact Or.inl h
                · exact Or.inr (List.mem_cons_of_mem _ h)
        rcases hmem ys hz with rfl | hz
        · omega
        · exact hp.1 z hz

/-! ### UDP flow table -/

/-- a datagram that no open flow accepts opens a new flow — `udpLookup` returns `none` only then -/
theorem udp_flow_table_none (streams : Array Stream) (p : Pkt) (conns : List UdpConn) (i : Nat) :
    udpLookup streams p conns i = none → ∀ c ∈ conns, udpMatch (streams[c.stream]!) p = none := by
  induction conns generalizing i with
  | nil => intro _ c hc; cases hc
  | cons c cs ih =>
    intro h c' hc'
    simp only [udpLookup] at h
    split at h
    · cases h
    · rename_i hm
      rcases List.mem_cons.mp hc' with rfl | hc'
      · exact hm
      · exact ih (i + 1) h c' hc'

/-- otherwise the datagram is attributed to the first open flow (creation order) with the same
    endpoints, in the orientation in which it matches -/
theorem udp_flow_table_some (streams : Array Stream) (p : Pkt) (conns : List UdpConn) (i j : Nat) (d : Bool) :
    udpLookup streams p conns i = some (j, d) →
    ∃ c, conns[j - i]? = some c ∧ i ≤ j ∧ udpMatch (streams[c.stream]!) p = some d ∧
      ∀ k, k < j - i → ∀ c', conns[k]? = some c' → udpMatch (streams[c'.stream]!) p = none := by
  induction conns generalizing i with
  | nil => intro h; simp [udpLookup] at h
  | cons c cs ih =>
    intro h
    simp only [udpLookup] at h
    split at h
    · rename_i d' hm
      cases h
      exact ⟨c, by simp, Nat.le_refl _, hm, by intro k hk; omega⟩
    · rename_i hm
      obtain ⟨c2, h1, h2, h3, h4⟩ := ih (i + 1) h
      refine ⟨c2, ?_, by omega, h3, ?_⟩
      · have : j - i = (j - (i + 1)) + 1 := by omega
        rw [this]; simpa using h1
      · intro k hk c' hc'
        cases k with
        | zero => simp at hc'; cases hc'; exact hm
        | succ k =>
          simp at hc'
          exact h4 k (by omega) c' hc'

/-- orientation: a datagram from the flow's client endpoint to its server endpoint is
    client→server, the reverse is server→client (flows whose two endpoints are equal never match) -/
theorem udp_flow_table_orientation (s : Stream) (p : Pkt)
    (hne : ¬ (s.caddr = s.saddr ∧ s.cport = s.sport)) :
    (s.caddr = p.src ∧ s.cport = p.sport ∧ s.saddr = p.dst ∧ s.sport = p.dport → udpMatch s p = some false) ∧
    (s.caddr = p.dst ∧ s.cport = p.dport ∧ s.saddr = p.src ∧ s.sport = p.sport → udpMatch s p = some true) := by
  constructor
  · rintro ⟨h1, h2, h3, h4⟩
    have : ¬ (p.dst = p.src ∧ p.dport = p.sport) := by
      rintro ⟨a, b⟩; exact hne ⟨by rw [h1, h3, a], by rw [h2, h4, b]⟩
    unfold udpMatch
    simp only [h1, h2, h3, h4]
    by_cases e : p.dst = p.src <;> by_cases f : p.dport = p.sport <;> simp_all
  · rintro ⟨h1, h2, h3, h4⟩
    have : ¬ (p.dst = p.src ∧ p.dport = p.sport) := by
      rintro ⟨a, b⟩; exact hne ⟨by rw [h1, h3, a], by rw [h2, h4, b]⟩
    unfold udpMatch
    simp only [h1, h2, h3, h4]
    by_cases e : p.dst = p.src <;> by_cases f : p.dport = p.sport <;> simp_all

/-! ### attribution of delivered bytes -/

/-- bytes delivered for the packet that was just recorded are attributed to that packet (index =
    number of packets before it), hence to its direction -/
theorem attribution_total (s : Stream) (r : PRef) (d : Bool) (b : Bytes) (h : s.npkts = s.pktsRev.length) :
    ((s.addPkt r d).addData r b).dataRev = (s.npkts, b) :: s.dataRev ∧
    ((s.addPkt r d).addData r b).dirOf s.npkts = d := by
  simp [Stream.addPkt, Stream.addData, findPktIdx, Stream.dirOf]

/-! ### selection of the streams that are written -/

/-- a stream is written iff one of its packets comes from a new capture -/
theorem touched_selection (newFiles : List String) (existing : List Index) (ps : List (PRef × Bool)) :
    ∀ (id : Option Nat) (touched : Bool),
      (classifyWalk newFiles existing ps id touched).2.2 =
        (touched || ps.any (fun p => newFiles.contains p.1.file)) := by
  induction ps with
  | nil => intro id t; simp [classifyWalk]
  | cons p ps ih =>
    intro id t
    obtain ⟨r, d⟩ := p
    cases id with
    | none =>
      by_cases hn : r.file ∈ newFiles
      · simp [classifyWalk, hn, ih]
      · cases t <;> simp [classifyWalk, hn, ih]
    | some i =>
      by_cases hn : r.file ∈ newFiles
      · simp [classifyWalk, hn]
      · simp [classifyWalk, hn, ih]

/-! ### what is assumed about the reassembler, and the composition -/

/-- the reassembler is a function from the fed packet sequence to `streamFactory.Streams` -/
abbrev Reassembler := List Pkt → Array Stream

/-- FULL STATEMENT (`reasm_recovers`): for every set of well-formed conversations, every
    segmentation, bounded reordering / duplication and interleaving, reassembling the wire sequence
    yields one stream per conversation with exactly the exchanged bytes per direction and the same
    order of direction changes.  `Truth` abstracts "stream set matches conversation set". -/
def ReasmRecovers (R : Reassembler) (WellFormedWire : List Pkt → Prop) (Truth : List Pkt → Array Stream → Prop) : Prop :=
  ∀ wire, WellFormedWire wire → Truth wire (R wire)

/-- the streams a one-shot import (fresh builder, no snapshot, no older captures) hands to the
    index writer, with the reassembler as a parameter -/
def oneShotStreams (R : Reassembler) (captures : List (List Pkt)) : Array Stream :=
  R (feedOrder [] (captures.foldr (· ++ ·) []))

/-- C05 under the assumption `ReasmRecovers R`: however the (time-ordered) wire sequence is cut
    into capture files and in whatever order the files are named in the call, the reassembler is
    handed a sorted permutation of the wire, i.e. — when packets are totally ordered by
    (timestamp, file, index) as in `hwire` — the wire sequence itself; so the streams are the
    conversations.  Missing for the full statement: `ReasmRecovers` for gopacket (validated by the
    correspondence check only), incremental imports (C08). -/
theorem C05_partial (R : Reassembler) (WF : List Pkt → Prop) (Truth : List Pkt → Array Stream → Prop)
    (hR : ReasmRecovers R WF Truth) (wire : List Pkt) (captures : List (List Pkt))
    (hcut : (captures.foldr (· ++ ·) []).Perm wire)
    (hwire : wire.Pairwise (fun a b => pktLt a b = true)) (hwf : WF wire) :
    Truth wire (oneShotStreams R captures) := by
  unfold oneShotStreams
  have hp : (feedOrder [] (captures.foldr (· ++ ·) [])).Perm wire := by
    have := feedOrder_each_once [] (captures.foldr (· ++ ·) [])
    simp [replayed] at this
    exact this.trans hcut
  have hs := feedOrder_sorted [] (captures.foldr (· ++ ·) []) List.Pairwise.nil (by intro pc h; cases h)
  -- a list sorted by a strict total order is determined by its elements
  have huniq : ∀ (l1 l2 : List Pkt), l1.Perm l2 → l1.Pairwise (fun a b => pktLe a b = true) →
      l2.Pairwise (fun a b => pktLt a b = true) → l1 = l2 := by
    intro l1
    induction l1 with
    | nil => intro l2 hp _ _; exact (List.Perm.nil_eq hp)
    | cons a l1 ih =>
      intro l2 hp h1 h2
      cases l2 with
      | nil => exact absurd hp.symm (by simp)
      | cons b l2 =>
        have h1' := List.pairwise_cons.mp h1
        have h2' := List.pairwise_cons.mp h2
        have hab : a = b := by
          have ha : a ∈ b :: l2 := hp.mem_iff.mp (List.mem_cons_self ..)
          have hb : b ∈ a :: l1 := hp.mem_iff.mpr (List.mem_cons_self ..)
          rcases List.mem_cons.mp ha with h | ha
          · exact h
          · rcases List.mem_cons.mp hb with h | hb
            · exact h.symm
            · have x1 := h2'.1 a ha          -- b < a
              have x2 := h1'.1 b hb          -- a ≤ b, i.e. ¬ b < a
              unfold pktLe at x2; simp [x1] at x2
        subst hab
        rw [ih l2 (List.Perm.cons_inv hp) h1'.2 h2'.2]
  rw [huniq _ _ hp hs hwire]
  exact hR wire hwf

/-! ### the reference reassembler: single steps (partial `reasm_recovers`) -/

/-- in-order TCP segment on an open half without pending pages: exactly its payload is delivered,
    attributed to the packet, and the expected sequence number advances by its length.
    (`reasm_recovers` for whole conversations under disturbance is NOT proved; it is validated
    differentially.  Missing: induction over segment sequences with the out-of-order queue.) -/
theorem reasm_inorder_step_partial (st : Stream) (h : Half) (p : Pkt) (nx : Nat)
    (hopen : h.closed = false) (hnext : h.nextSeq = some nx) (hq : h.queue = []) (hseq : p.seq = nx)
    (hflags : p.syn = false ∧ p.fin = false ∧ p.rst = false) (hpl : p.payload ≠ []) :
    (assembleHalf st h p).1 = st.addData p.ref p.payload ∧
    (assembleHalf st h p).2.nextSeq = some (seqAdd nx p.payload.length) := by
  obtain ⟨h1, h2, h3⟩ := hflags
  have hd : seqDiff nx nx = 0 := by unfold seqDiff; split <;> (try split) <;> omega
  have hlen : p.payload.length ≠ 0 := by
    intro h0; exact hpl (List.length_eq_zero_iff.mp h0)
  have hpos : 0 < p.payload.length := Nat.pos_of_ne_zero hlen
  simp [assembleHalf, hopen, hnext, hq, hseq, h1, h2, h3, hd, overlapExisting, checkOverlap, overlapWalk,
    sendToConnection, addContiguous, firstNonEmptyRef, hlen, hpos]

/-- a datagram of an open UDP flow: recorded as a packet of that flow in the matched direction and,
    if it carries payload, as one data chunk attributed to it -/
theorem reasm_udp_step_partial (s : Stream) (p : Pkt) (d : Bool) (h : s.npkts = s.pktsRev.length) :
    ((s.addPkt p.ref d).addData p.ref p.payload).dataRev = (s.npkts, p.payload) :: s.dataRev :=
  (attribution_total s p.ref d p.payload h).1

/-! ### defect of the real reassembler reproduced by the reference: machine-checked witness -/

def f32Pkt (i : Nat) (c2s syn ack : Bool) (seq : Nat) (pl : Bytes) : Pkt :=
  { ts := 1000000 + i, file := "a", idx := i, udp := false,
    src := if c2s then "c" else "s", dst := if c2s then "s" else "c",
    sport := if c2s then 40000 else 80, dport := if c2s then 80 else 40000,
    syn := syn, ack := ack, seq := seq, payload := pl }

/-- handshake, the two bytes 0x41 0x42 at sequence number 0xFFFFFFFF (they straddle the 2^32 wrap),
    and a retransmission of that segment -/
def f32Wire : List Pkt :=
  [f32Pkt 0 true true false 0xFFFFFFFE [], f32Pkt 1 false true true 1000 [], f32Pkt 2 true false true 0xFFFFFFFF [],
   f32Pkt 3 true false true 0xFFFFFFFF [0x41, 0x42], f32Pkt 4 true false true 0xFFFFFFFF [0x41, 0x42]]

/-- F32 (gopacket `Sequence.Difference` corrects the wrap with 2^32 - 1): the client sent 0x41 0x42
    once; the reassembled client→server payload is 0x41 0x42 0x42.  So `ReasmRecovers` is false for
    the reference (and, by the correspondence check, for gopacket) unless well-formed wires exclude
    retransmissions across the sequence wrap. -/
theorem finding_F32 :
    ((reasm f32Wire)[0]!.data.map (·.2)).flatten ≠ [0x41, 0x42] := by
  decide

/-! ### non-vacuity -/

example : ∃ (olds : List OldPcap) (new : List Pkt), olds ≠ [] ∧ new ≠ [] ∧ olds.Pairwise (fun (a b : OldPcap) => a.tmin ≤ b.tmin) ∧
    (∀ pc ∈ olds, ∀ y ∈ pc.pkts, pc.tmin ≤ y.ts) :=
  ⟨[{ tmin := 1, pkts := [{ ts := 1, file := "a", idx := 0, udp := true, src := "x", dst := "y", sport := 1, dport := 2 }] }],
   [{ ts := 2, file := "b", idx := 0, udp := true, src := "x", dst := "y", sport := 1, dport := 2 }],
   by simp, by simp, by simp, by simp⟩

end Pk.Props.C05
