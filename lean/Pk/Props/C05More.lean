/-
  C05 (reassembly part, continued) — what was missing in Pk/Props/C05Reasm.lean for the full statement
  `C05.ReasmRecovers` about the REFERENCE reassembler of Pk/Model/Import.lean.

  (1) TEARDOWN of a single conversation (`reasm_teardown_phases`, `reasm_teardown`,
      `reasm_teardown_frozen`, `reasm_teardown_conn`).
      Vocabulary (Pk/Proofs/ImportReasmMoreTear*.lean; all decidable):
        FinPkt isn B p      the FIN segment of a direction with byte string `B`: FIN without SYN/RST that
                            carries the LAST bytes of `B` (possibly none) — "data on the FIN segment"
        RstPkt isn B p      an RST segment (no SYN/FIN, no payload) with a sequence number in the
                            direction's range
        ConvPkt cp p dir    `p` is a packet of the 4-tuple in direction `dir`, inside the time window
        SegOf / FinOf / RstOf cp … p d    such a packet of direction `d` that is a segment without flags /
                            the FIN segment arriving after everything before it has arrived / an RST
        Carried cp done d x offset `x` of direction `d` was carried by one of the packets `done`
        TPhase              est | cw d | both full | reset  — phases as the reassembler sees them
        TStep cp done ph p ph'   the well-formed continuations of phase `ph` (see its constructors)
        TRun cp done ph body ph' runs of them
      What the model does, precisely (all proved, see `TStep` and the lemmas `est_fin_step`, `cw_*_step`,
      `dead_step` in Pk/Proofs/ImportReasmMoreTear4..6.lean):
        * FIN of direction d arriving when all earlier bytes of d have been delivered: the bytes on the
          FIN segment that are new are delivered as one chunk attributed to the FIN packet, d's
          half-connection is closed (queue emptied, next sequence number + 1), TCP state closeWait(d).
        * afterwards EVERY packet of direction d without RST — retransmitted FIN, retransmitted data,
          new data after the FIN, ACKs — is recorded in the packet list only; no data is attributed.
        * the other direction goes on (any disturbance as in the data phase) as long as its segments
          carry ACK (`TCPSimpleFSM` rejects segments without ACK in closeWait).
        * second FIN (with ACK): its data is delivered, both half-connections are closed, the stream
          is `Complete`; TCP state lastAck(d).  From then on EVERY packet of the 4-tuple inside the
          window — final ACKs, late data, even a new SYN re-using the ports — is recorded in the packet
          list of this stream and contributes no data (`reasm_teardown_frozen`).
        * RST (either side, any phase before completion): nothing is delivered; the sender's
          half-connection is closed iff the RST's sequence number is not beyond the expected one — its
          out-of-order queue (data waiting behind a hole) is DROPPED; the TCP state becomes `reset`
          and rejects every later packet, so the other half-connection stays open and the stream is
          `Complete` only if that other half had been closed by its FIN before (`cw_rst_step`).
      NOT covered: a FIN that overtakes data of its own direction (it is queued as a page with the
      FIN flag; the model then loses the FIN when a retransmission covers that page, or — after the
      second FIN — rejects the missing data in lastAck); RST segments with payload; SYN/SYN-ACK with
      payload or retransmitted.

  (2) FLOW LOCALITY (helpers: Pk/Proofs/ImportReasmMoreFlow*.lean — no-op flushes inside the window,
      an index-free abstract machine `aRun` and its simulation by `reasmPacket`; ImportReasmMoreLocal.lean).
        InWindow t0 ps      all packets within one inactivity timeout after `t0`
        sameConv p q        same transport protocol and same 4-tuple up to direction
        FlowClosed F        `F` does not separate packets of one conversation
        Stream.keyPkt s     a packet with the endpoints of stream `s`;  selOf k = packets of k's conversation
      `reasm_flow_local`    filter form, for any number of TCP/UDP conversations interleaved arbitrarily:
                            streams of the selected conversations (creation order) = `reasm` of the selected
                            packets; first stream = first packet's conversation; every stream has a packet
      `flow_local_window`   the law `C08.ReasmLaws.flow_local` itself (arbitrary `sameFlow`), inside the
                            window, with the ADDED hypothesis that packet references are unique
                            (`flow_local_dup_false` is the counterexample without it)
      `flow_local_false_across_timeout`   the law is FALSE for the reference across the timeout (a later
                            packet of another conversation on the same assembler flushes the hole)
      `flush_touches_only_old`   with flushes, what does hold: a flush leaves every connection that is not
                            older than the timeout untouched, only extends streams, and the UDP flush
                            completes exactly the idle flows
  (3) `reasm_wire`, `reasmRecovers_wellformed`: an instance of `C05.ReasmRecovers` for wires that are an
      arbitrary interleaving (`WireOf`) of any number of well-formed conversations (`ConvSpec`: TCP
      `TearConv` — handshake, data, optional teardown or RST — and UDP flows), in one window; `Truth`
      (`WireTruth`/`ConvSpec.Truth`) is concrete: one stream per conversation, in the order of the first
      packets, with endpoints, packet list with directions, per-direction bytes and chunk order
      (`TearStream`, `udpStream`); `tearStream_exact` gives the exact payloads when nothing is lost.
  (4) `reasm_udp_across_timeout`: one UDP flow with ARBITRARY timestamps — the datagrams are cut into
      runs at every silence longer than the timeout (`udpRuns`: `prev.ts + timeout < p.ts`, `prev` the
      immediately preceding datagram, because the flow table stores the LAST timestamp, not the maximum);
      every run becomes one stream, `Complete` for all but the last, and the client of a run's stream
      is the sender of its first datagram (roles may flip).  `prefix_stable_false`: the law
      `C08.ReasmLaws.prefix_stable` is FALSE as stated (the final ACK is appended to the packet list
      of the completed stream); `reasm_teardown_frozen` is the part that holds (Data, Complete).
-/
import Pk.Props.C05Reasm
import Pk.Proofs.ImportReasmMoreTear6
import Pk.Proofs.ImportReasmMoreLocal
import Pk.Props.C08
import Pk.Proofs.ImportReasmMoreUdp

namespace Pk.Props.C05More
open Pk.Import Pk.Proofs.ImportReasm Pk.Props.C05Reasm

/-! ### packets of the examples -/

/-- packet number `i` of capture "a" between "c":40000 and "s":80 -/
def tpkt (i : Nat) (c2s syn ack fin rst : Bool) (seq : Nat) (pl : Bytes) : Pkt :=
  { ts := 1000000 + i, file := "a", idx := i, udp := false,
    src := if c2s then "c" else "s", dst := if c2s then "s" else "c",
    sport := if c2s then 40000 else 80, dport := if c2s then 80 else 40000,
    syn := syn, ack := ack, fin := fin, rst := rst, seq := seq, payload := pl }

def tSyn : Pkt := tpkt 0 true true false false false 999 []
def tSynAck : Pkt := tpkt 1 false true true false false 4999 []
/-! ### (1) teardown of a single conversation -/

/-- `wire = p0 :: p1 :: body` holds ONE TCP conversation between the endpoints `e` in which the client
    sends `Bc` and the server `Bs` (including the bytes on the FIN segments):
    * `p0` is the SYN, `p1` the SYN/ACK (no payload), as in `SingleConv`;
    * `body` is a well-formed run of continuations (`TRun`) from the data phase to phase `ph`:
      arbitrarily disturbed data of both directions, then optionally FIN (with or without data) of one
      side, more data of the other side, retransmissions/late packets of the closed side, the second
      FIN, anything after it; or an RST at any point and anything after it;
    * all packets within one inactivity timeout after `t0`; `SeqLinear` sequence ranges (ADDED in
      `C05Reasm`, see `retransmit_unprimed_false`). -/
structure TearConv (e : Endpoints) (p0 p1 : Pkt) (Bc Bs : Bytes) (t0 : Nat) (body : List Pkt) (ph : TPhase) : Prop where
  distinct : e.Distinct
  syn : IsSyn e p0
  synack : IsSynAck e p1
  t_syn : t0 ≤ p0.ts ∧ p0.ts ≤ t0 + timeout
  t_synack : t0 ≤ p1.ts ∧ p1.ts ≤ t0 + timeout
  linc : SeqLinear (seqAdd p0.seq 1) Bc.length
  lins : SeqLinear (seqAdd p1.seq 1) Bs.length
  run : TRun (convParams e p0 p1 Bc Bs t0) [] .est body ph

/-- every byte of direction `d` was carried by some packet of the body (nothing is lost for good) -/
def AllCarried (cp : ConvParams) (body : List Pkt) (d : Bool) : Prop :=
  ∀ x, x < (cp.BOf d).length → Carried cp body d x

instance (cp : ConvParams) (body : List Pkt) (d : Bool) : Decidable (AllCarried cp body d) := by
  unfold AllCarried; infer_instance

/-- what the stream looks like in each final phase (`cc`, `cs` = delivered prefix of `Bc`, `Bs`) -/
def PhaseTruth (cp : ConvParams) (body : List Pkt) (st : Stream) (cc cs : Nat) : TPhase → Prop
  | .est => st.complete = false ∧ st.fsm = { state := .established, dir := false } ∧
      ∀ d, AllCarried cp body d → cntOf cc cs d = (cp.BOf d).length
  | .cw d => st.complete = false ∧ st.fsm = { state := .closeWait, dir := d } ∧
      cntOf cc cs d = (cp.BOf d).length ∧ (AllCarried cp body (!d) → cntOf cc cs (!d) = (cp.BOf (!d)).length)
  | .both full => st.complete = true ∧ (full = true → cc = cp.Bc.length ∧ cs = cp.Bs.length)
  | .reset => st.fsm.state = .reset

/-- the stream of the conversation: endpoints from the SYN; every packet of the wire recorded in wire
    order with its direction (also those after the teardown); `Data` cuts a prefix `Bc[0..cc)` and a
    prefix `Bs[0..cs)` into chunks in delivery order, each attributed to a packet of its own direction
    that carried its first byte (`Chunks2`) — so the order of direction changes is that of the wire;
    the bytes per direction are exactly these prefixes; and the phase facts (`PhaseTruth`) -/
def TearStream (e : Endpoints) (p0 p1 : Pkt) (Bc Bs : Bytes) (t0 : Nat) (body : List Pkt) (ph : TPhase)
    (st : Stream) : Prop :=
  st.caddr = e.cip ∧ st.saddr = e.sip ∧ st.cport = e.cport ∧ st.sport = e.sport ∧ st.udp = false ∧
  st.pkts = (p0.ref, false) :: (p1.ref, true) :: body.map (fun p => (p.ref, pdir e p)) ∧
  st.npkts = 2 + body.length ∧
  ∃ cc cs chunks, st.data = chunks.reverse ∧
    Chunks2 (convParams e p0 p1 Bc Bs t0) 2 body cc cs chunks ∧
    dirBytes st false = Bc.take cc ∧ dirBytes st true = Bs.take cs ∧
    PhaseTruth (convParams e p0 p1 Bc Bs t0) body st cc cs ph

/-- ONE stream, and it is the stream of the conversation -/
def TearTruth (e : Endpoints) (p0 p1 : Pkt) (Bc Bs : Bytes) (t0 : Nat) (body : List Pkt) (ph : TPhase)
    (streams : Array Stream) : Prop :=
  ∃ st, streams = #[st] ∧ TearStream e p0 p1 Bc Bs t0 body ph st

/-- the state of the reassembler after such a wire -/
theorem teardown_state (e : Endpoints) (p0 p1 : Pkt) (Bc Bs : Bytes) (t0 : Nat) (body : List Pkt) (ph : TPhase)
    (h : TearConv e p0 p1 Bc Bs t0 body ph) :
    ∃ f k c cc cs chunks,
      TSkel (convParams e p0 p1 Bc Bs t0) (hsStream e p0 p1) body ((p0 :: p1 :: body).foldl reasmPacket {}) f k c cc cs chunks ∧
      PhaseFacts (convParams e p0 p1 Bc Bs t0) body f k c cc cs ph := by
  obtain ⟨hd, hsyn, hsa, ⟨ts1, ts2⟩, ⟨ta1, ta2⟩, hlc, hls, hrun⟩ := h
  obtain ⟨u, hhs⟩ := handshake_state e hd p0 p1 hsyn hsa (by omega)
  have hinit := convInv_init e p0 p1 Bc Bs t0 u ts1
  have hfold : (p0 :: p1 :: body).foldl reasmPacket {} = body.foldl reasmPacket ([p0, p1].foldl reasmPacket {}) := by
    simp [List.foldl_cons]
  rw [hfold, hhs]
  have := tinv_run (convParams e p0 p1 Bc Bs t0) (hsStream e p0 p1) hd rfl rfl hlc hls hrun _ hinit
  simp only [List.nil_append] at this
  exact tinv_facts rfl rfl this

/-- (1), general form: whatever phase the conversation ends in -/
theorem reasm_teardown_phases (e : Endpoints) (p0 p1 : Pkt) (Bc Bs : Bytes) (t0 : Nat) (body : List Pkt) (ph : TPhase)
    (h : TearConv e p0 p1 Bc Bs t0 body ph) :
    TearTruth e p0 p1 Bc Bs t0 body ph (reasm (p0 :: p1 :: body)) := by
  have hd := h.distinct
  obtain ⟨f, k, c, cc, cs, chunks, ⟨⟨u, hr⟩, _, _, _, _, hch⟩, hfacts⟩ := teardown_state e p0 p1 Bc Bs t0 body ph h
  unfold reasm
  rw [hr]
  have hb := chunks2_bytes hd
    (convStream (convParams e p0 p1 Bc Bs t0) (hsWith (hsStream e p0 p1) f k) body chunks).dirOf
    (fun j p hj => convStream_dirOf _ (hsWith (hsStream e p0 p1) f k) body chunks j p hj) hch
  refine ⟨_, rfl, rfl, rfl, rfl, rfl, rfl, ?_, ?_, cc, cs, chunks, ?_, hch, ?_, ?_, ?_⟩
  · simp [Stream.pkts, convStream, hsStream, hsWith, convParams]
  · simp [convStream, hsStream, hsWith, Nat.add_comm]
  · simp [Stream.data, convStream, hsStream, hsWith]
  · have hb1 : _ = Bc.take cc := hb.1
    simpa only [dirBytes, Stream.data, convStream, hsStream, hsWith, List.append_nil] using hb1
  · have hb2 : _ = Bs.take cs := hb.2
    simpa only [dirBytes, Stream.data, convStream, hsStream, hsWith, List.append_nil] using hb2
  · cases ph with
    | est => exact ⟨hfacts.2.1, hfacts.1, hfacts.2.2.2.2⟩
    | cw d => exact ⟨hfacts.2.1, hfacts.1, hfacts.2.2.2.2.1, hfacts.2.2.2.2.2⟩
    | both full => exact ⟨hfacts.1, hfacts.2.2.2⟩
    | reset => exact hfacts.1

/-- (1) `reasm_teardown`: a conversation that ends with the FINs of both sides (in either order, with or
    without data on the FIN segments, with anything of the 4-tuple after them): ONE stream, `Complete`,
    the bytes of each direction are EXACTLY what that side sent -/
theorem reasm_teardown (e : Endpoints) (p0 p1 : Pkt) (Bc Bs : Bytes) (t0 : Nat) (body : List Pkt)
    (h : TearConv e p0 p1 Bc Bs t0 body (.both true)) :
    ∃ st, reasm (p0 :: p1 :: body) = #[st] ∧ st.complete = true ∧
      st.caddr = e.cip ∧ st.saddr = e.sip ∧ st.cport = e.cport ∧ st.sport = e.sport ∧ st.udp = false ∧
      st.pkts = (p0.ref, false) :: (p1.ref, true) :: body.map (fun p => (p.ref, pdir e p)) ∧
      dirBytes st false = Bc ∧ dirBytes st true = Bs ∧
      ∃ chunks, st.data = chunks.reverse ∧
        Chunks2 (convParams e p0 p1 Bc Bs t0) 2 body Bc.length Bs.length chunks := by
  obtain ⟨st, h1, h2, h3, h4, h5, h6, h7, _, cc, cs, chunks, h9, h10, h11, h12, h13, h14⟩ :=
    reasm_teardown_phases e p0 p1 Bc Bs t0 body _ h
  obtain ⟨h15, h16⟩ := h14 rfl
  have e1 : cc = Bc.length := h15
  have e2 : cs = Bs.length := h16
  subst e1 e2
  rw [List.take_length] at h11 h12
  exact ⟨st, h1, h13, h2, h3, h4, h5, h6, h7, h11, h12, chunks, h9, h10⟩

/-- (1) nothing after the teardown is attributed to the conversation: once both half-connections
    are closed (two FINs, or FIN + in-sequence RST) or an RST has been seen, ANY further packets of
    the 4-tuple inside the window are appended to the packet list of the stream; `Data` and the
    `Complete` flag do not change -/
theorem reasm_teardown_frozen (e : Endpoints) (p0 p1 : Pkt) (Bc Bs : Bytes) (t0 : Nat) (body tail : List Pkt) (ph : TPhase)
    (h : TearConv e p0 p1 Bc Bs t0 body ph) (hph : ph = .reset ∨ ∃ full, ph = .both full)
    (htail : ∀ p ∈ tail, ∃ dir, ConvPkt (convParams e p0 p1 Bc Bs t0) p dir) :
    ∃ st st', reasm (p0 :: p1 :: body) = #[st] ∧ reasm (p0 :: p1 :: (body ++ tail)) = #[st'] ∧
      st'.data = st.data ∧ st'.complete = st.complete ∧
      st'.pkts = st.pkts ++ tail.map (fun p => (p.ref, pdir e p)) := by
  have hd := h.distinct
  obtain ⟨f, k, c, cc, cs, chunks, hsk, hfacts⟩ := teardown_state e p0 p1 Bc Bs t0 body ph h
  have hdead : DeadCore f k c := by
    rcases hph with rfl | ⟨full, rfl⟩
    · exact ⟨hfacts.2, Or.inl hfacts.1⟩
    · obtain ⟨h1, h2, h3, _⟩ := hfacts
      exact ⟨by rw [h1, h2, h3]; rfl, Or.inr h1⟩
  obtain ⟨f', c', hsk', _⟩ := dead_run hd tail hsk hdead htail
  obtain ⟨⟨u, hr⟩, _⟩ := hsk
  obtain ⟨⟨u', hr'⟩, _⟩ := hsk'
  have hfold : (p0 :: p1 :: (body ++ tail)).foldl reasmPacket {} =
      tail.foldl reasmPacket ((p0 :: p1 :: body).foldl reasmPacket {}) := by
    simp [List.foldl_cons, List.foldl_append]
  refine ⟨convStream (convParams e p0 p1 Bc Bs t0) (hsWith (hsStream e p0 p1) f k) body chunks,
    convStream (convParams e p0 p1 Bc Bs t0) (hsWith (hsStream e p0 p1) f' k) (body ++ tail) chunks,
    by unfold reasm; rw [hr], by unfold reasm; rw [hfold, hr'], ?_, rfl, ?_⟩
  · simp [Stream.data, convStream, hsWith]
  · simp [Stream.pkts, convStream, convParams, hsWith]

/-- (1) the half-connections at the end: in phase `both` both are closed; in phase `cw d` the half of
    `d` is closed and the other one open; in the data phase both are open -/
theorem reasm_teardown_conn (e : Endpoints) (p0 p1 : Pkt) (Bc Bs : Bytes) (t0 : Nat) (body : List Pkt) (ph : TPhase)
    (h : TearConv e p0 p1 Bc Bs t0 body ph) :
    ∃ c, ((p0 :: p1 :: body).foldl reasmPacket {}).tcp = [c] ∧
      (ph = .est → c.c2s.closed = false ∧ c.s2c.closed = false) ∧
      (∀ d, ph = .cw d → (halfOf c d).closed = true ∧ (halfOf c (!d)).closed = false) ∧
      (∀ full, ph = .both full → c.c2s.closed = true ∧ c.s2c.closed = true) := by
  obtain ⟨f, k, c, cc, cs, chunks, ⟨⟨u, hr⟩, _⟩, hfacts⟩ := teardown_state e p0 p1 Bc Bs t0 body ph h
  refine ⟨c, by rw [hr], ?_, ?_, ?_⟩
  · rintro rfl; exact ⟨hfacts.2.2.1, hfacts.2.2.2.1⟩
  · rintro d rfl; exact ⟨hfacts.2.2.1, hfacts.2.2.2.1⟩
  · rintro full rfl; exact ⟨hfacts.2.1, hfacts.2.2.1⟩

/-! ### (2) flow locality, (3) wires of several conversations -/

/-- (2) `reasm_flow_local`, within one inactivity-timeout window (no flush does anything): for every
    selection `F` of whole conversations (`FlowClosed`: `F` does not separate two packets with the same
    transport protocol and the same 4-tuple up to direction; TCP and UDP mixed, any number of
    conversations, interleaved arbitrarily) the streams of the selected conversations, in creation
    order, are exactly the streams `reasm` produces for the selected packets alone.  The first
    stream is the one of the first packet's conversation, and every stream belongs to the conversation
    of some packet — so streams are created in the order of the first packets on the wire. -/
theorem reasm_flow_local (t0 : Nat) (ps : List Pkt) (hw : InWindow t0 ps) :
    (∀ F : Pkt → Bool, FlowClosed F →
      (reasm ps).toList.filter (fun s => F (Stream.keyPkt s)) = (reasm (ps.filter F)).toList) ∧
    (∀ p rest, ps = p :: rest → ∃ s l, (reasm ps).toList = s :: l ∧ sameConv (Stream.keyPkt s) p) ∧
    (∀ s ∈ (reasm ps).toList, ∃ p ∈ ps, sameConv (Stream.keyPkt s) p) :=
  ⟨fun F hF => reasm_filter_window t0 ps F hw hF,
   fun p rest h => by subst h; exact reasm_head_window t0 p rest hw,
   reasm_stream_key_window t0 ps hw⟩

/-- the statement of `C08.ReasmLaws.flow_local` for a reassembler `R` -/
def FlowLocalLaw (R : List Pkt → Array Stream) : Prop :=
  ∀ (ps : List Pkt) (sameFlow : Pkt → Bool) (i : Nat) (s : Stream), (R ps)[i]? = some s →
    (∀ p ∈ s.pkts, ∃ q ∈ ps, q.ref = p.1 ∧ sameFlow q = true) →
    ∃ j : Nat, ((R (ps.filter sameFlow))[j]?).map (fun (t : Stream) => (t.pkts, t.data)) = some (s.pkts, s.data)

/-- the statement of `C08.ReasmLaws.prefix_stable` for a reassembler `R` -/
def PrefixStableLaw (R : List Pkt → Array Stream) : Prop :=
  ∀ (ps qs : List Pkt) (i : Nat) (s : Stream), (R ps)[i]? = some s → s.complete = true →
    ((R (ps ++ qs))[i]?).map (fun (t : Stream) => (t.pkts, t.data)) = some (s.pkts, s.data)

theorem reasmLaws_iff (R : List Pkt → Array Stream) :
    Pk.Props.C08.ReasmLaws R ↔ FlowLocalLaw R ∧ PrefixStableLaw R :=
  ⟨fun h => ⟨h.flow_local, h.prefix_stable⟩, fun h => ⟨h.1, h.2⟩⟩

/-- (2) in the form of `C08.ReasmLaws.flow_local`, inside one timeout window: a stream all of whose
    packets are selected by `sameFlow` (ANY predicate) is reproduced, packets and data, from the
    selected packets alone.
    -- ADDED `hnd`: packets are identified by (timestamp, file, index); the law speaks about packets
    through their references, so two different packets with the same reference make it false even
    inside the window (`flow_local_dup_false`); real captures never produce them.
    (UDP datagrams whose source endpoint equals their destination endpoint — `SelfUdp`, the flow table
    opens a new stream for each of them — are covered.) -/
theorem flow_local_window (t0 : Nat) (ps : List Pkt) (sameFlow : Pkt → Bool) (i : Nat) (s : Stream)
    (hw : InWindow t0 ps)
    (hnd : (ps.map Pkt.ref).Nodup) -- ADDED
    (hs : (reasm ps)[i]? = some s)
    (hall : ∀ p ∈ s.pkts, ∃ q ∈ ps, q.ref = p.1 ∧ sameFlow q = true) :
    ∃ j : Nat, ((reasm (ps.filter sameFlow))[j]?).map (fun (t : Stream) => (t.pkts, t.data)) = some (s.pkts, s.data) := by
  have hmem : s ∈ (reasm ps).toList := by
    have : (reasm ps).toList[i]? = some s := by simpa using hs
    exact List.mem_of_getElem? this
  have hK : selOf (Stream.keyPkt s) (Stream.keyPkt s) = true := by simp [selOf, sameConv_refl]
  have hA := reasm_filter_window t0 ps (selOf (Stream.keyPkt s)) hw (selOf_closed _)
  have hsW : s ∈ (reasm (ps.filter (selOf (Stream.keyPkt s)))).toList := by
    rw [← hA]; exact List.mem_filter.mpr ⟨hmem, hK⟩
  have hsub : ∀ q ∈ ps.filter (selOf (Stream.keyPkt s)), q ∈ ps ∧ sameConv q (Stream.keyPkt s) := by
    intro q hq
    obtain ⟨h1, h2⟩ := List.mem_filter.mp hq
    exact ⟨h1, of_decide_eq_true h2⟩
  have hcomm : (ps.filter sameFlow).filter (selOf (Stream.keyPkt s)) = (ps.filter (selOf (Stream.keyPkt s))).filter sameFlow := by
    rw [List.filter_filter, List.filter_filter]
    congr 1; funext x; exact Bool.and_comm _ _
  have hA2 := reasm_filter_window t0 (ps.filter sameFlow) (selOf (Stream.keyPkt s)) (inWindow_filter hw _) (selOf_closed _)
  -- it suffices to find `s` among the streams of the selected packets of its own conversation
  suffices hgoal : s ∈ (reasm ((ps.filter (selOf (Stream.keyPkt s))).filter sameFlow)).toList by
    have hm2 : s ∈ (reasm (ps.filter sameFlow)).toList := by
      rw [← hcomm, ← hA2] at hgoal
      exact (List.mem_filter.mp hgoal).1
    obtain ⟨j, hj⟩ := List.getElem?_of_mem hm2
    refine ⟨j, ?_⟩
    have : (reasm (ps.filter sameFlow))[j]? = some s := by simpa using hj
    rw [this]; rfl
  by_cases hself : SelfUdp (Stream.keyPkt s)
  · -- self-addressed UDP datagrams: one stream per datagram
    have hallself : ∀ q ∈ ps.filter (selOf (Stream.keyPkt s)), SelfUdp q :=
      fun q hq => selfUdp_of_sameConv (sameConv_symm (hsub q hq).2) hself
    rw [reasm_self_class t0 _ (inWindow_filter hw _) hallself] at hsW
    obtain ⟨w, hwm, hws⟩ := List.mem_map.mp hsW
    have hpk := newEntry_self_pkts w
    rw [hws] at hpk
    have hG : sameFlow w = true := by
      cases hsp : s.pkts with
      | nil => rw [hsp] at hpk; simp at hpk
      | cons pr rest =>
        rw [hsp] at hpk
        have hpe : pr.1 = w.ref := by simpa using (List.cons.inj hpk).1
        obtain ⟨q, hq, hqr, hqg⟩ := hall pr (by rw [hsp]; exact List.mem_cons_self ..)
        have : q = w := nodup_map_inj Pkt.ref ps hnd q hq w (hsub w hwm).1 (by rw [hqr, hpe])
        rw [← this]; exact hqg
    rw [reasm_self_class t0 _ (inWindow_filter (inWindow_filter hw _) _)
      (fun q hq => hallself q (List.mem_filter.mp hq).1)]
    exact List.mem_map.mpr ⟨w, List.mem_filter.mpr ⟨hwm, hG⟩, hws⟩
  · cases hWe : ps.filter (selOf (Stream.keyPkt s)) with
    | nil => rw [hWe] at hsW; simp [reasm] at hsW
    | cons p rest =>
      rw [hWe] at hsub
      obtain ⟨s', h1, h2⟩ := reasm_single_class t0 (Stream.keyPkt s) p rest
        (by rw [← hWe]; exact inWindow_filter hw _)
        (fun q hq => ⟨(hsub q hq).2, fun hqs => hself (selfUdp_of_sameConv (hsub q hq).2 hqs)⟩)
      rw [hWe, h1] at hsW
      have hss : s = s' := by simpa using hsW
      subst hss
      have hG : ∀ w ∈ p :: rest, sameFlow w = true := by
        intro w hwm
        have : w.ref ∈ s.pkts.map (·.1) := by rw [h2]; exact List.mem_map.mpr ⟨w, hwm, rfl⟩
        obtain ⟨pr, hpr, hpe⟩ := List.mem_map.mp this
        obtain ⟨q, hq, hqr, hqg⟩ := hall pr hpr
        have : q = w := nodup_map_inj Pkt.ref ps hnd q hq w (hsub w hwm).1 (by rw [hqr, hpe])
        rw [← this]; exact hqg
      rw [List.filter_eq_self.mpr hG, h1]
      exact List.mem_singleton.mpr rfl

/-! #### the laws of `C08.ReasmLaws` are FALSE for the reference as stated -/

theorem getElem?_zero_of_size {α : Type} [Inhabited α] (a : Array α) (h : 0 < a.size) : a[0]? = some a[0]! := by
  simp [h]

/-- two UDP datagrams of one flow with the SAME packet reference -/
def dupA : Pkt := { ts := 1000000, file := "a", idx := 0, udp := true, src := "c", dst := "s", sport := 1, dport := 2, payload := [1] }
def dupB : Pkt := { dupA with payload := [2] }

/-- COUNTEREXAMPLE (why `hnd` was ADDED): with two packets that share one reference the law fails
    inside the window — the selection keeps `dupA` only, every packet REFERENCE of the stream is
    selected, but the stream of the selection has one packet instead of two -/
theorem flow_local_dup_false :
    ¬ (∀ (t0 : Nat) (ps : List Pkt) (sameFlow : Pkt → Bool) (i : Nat) (s : Stream), InWindow t0 ps →
        (reasm ps)[i]? = some s →
        (∀ p ∈ s.pkts, ∃ q ∈ ps, q.ref = p.1 ∧ sameFlow q = true) →
        ∃ j : Nat, ((reasm (ps.filter sameFlow))[j]?).map (fun (t : Stream) => (t.pkts, t.data)) = some (s.pkts, s.data)) := by
  intro H
  obtain ⟨j, hj⟩ := H 1000000 [dupA, dupB] (fun p => p.payload == [1]) 0 _ (by unfold InWindow; decide)
    (getElem?_zero_of_size _ (by decide)) (by decide)
  have hsz : (reasm ([dupA, dupB].filter (fun p => p.payload == [1]))).size = 1 := by decide
  cases j with
  | zero => exact absurd hj (by decide)
  | succ j =>
    rw [Array.getElem?_eq_none (by omega)] at hj
    simp at hj

/-- flow A: handshake and a byte behind a hole (it waits in the out-of-order queue) -/
def lateA : List Pkt :=
  [tpkt 0 true true false false false 100 [], tpkt 1 false true true false false 1000 [],
   tpkt 2 true false true false false 102 [0x42]]
/-- flow B: other hosts, same ports (same assembler), 400 s later -/
def lateB : Pkt :=
  { ts := 400000000, file := "b", idx := 0, udp := false, src := "x", dst := "y", sport := 40000, dport := 80, syn := true, seq := 7 }

/-- COUNTEREXAMPLE: `ReasmLaws.flow_local` is FALSE for the reference (and, by the correspondence
    check, for gopacket) across the inactivity timeout: the first packet of ANOTHER conversation that
    hashes to the same assembler, more than 5 min later, flushes connection A — `skipFlush` gives up
    the hole and delivers the queued byte to A's stream.  A's packets alone never trigger that flush.
    (This is the mechanism behind `C08.finding_F34`.)  Inside one window the law holds
    (`flow_local_window`, `reasm_flow_local`). -/
theorem flow_local_false_across_timeout : ¬ FlowLocalLaw reasm := by
  intro H
  obtain ⟨j, hj⟩ := H (lateA ++ [lateB]) (fun p => p.file == "a") 0 _ (getElem?_zero_of_size _ (by decide)) (by decide)
  have hsz : (reasm ((lateA ++ [lateB]).filter (fun p => p.file == "a"))).size = 1 := by decide
  cases j with
  | zero => exact absurd hj (by decide)
  | succ j =>
    rw [Array.getElem?_eq_none (by omega)] at hj
    simp at hj

/-- handshake, FIN of the client, FIN of the server: the stream is `Complete` -/
def doneW : List Pkt :=
  [tSyn, tSynAck, tpkt 2 true false true true false 1000 [], tpkt 3 false false true true false 5000 []]

/-- COUNTEREXAMPLE: `ReasmLaws.prefix_stable` is FALSE for the reference (and for the real
    `Stream.Accept`, which appends to `Packets` before anything else): the final ACK after the two
    FINs is appended to the packet list of the completed stream.  What IS stable is `Data` and the
    `Complete` flag (`reasm_teardown_frozen`): later packets of the 4-tuple only extend `Packets`. -/
theorem prefix_stable_false : ¬ PrefixStableLaw reasm := by
  intro H
  have := H doneW [tpkt 4 true false true false false 1001 []] 0 _ (getElem?_zero_of_size _ (by decide)) (by decide)
  exact absurd this (by decide)

/-! #### with flushes: a flush touches only what is older than the timeout -/

/-- (2), with flushes, as far as it holds: `FlushCloseOlderThan(ts - 5 min)` on assembler `k` leaves
    every connection of another assembler and every connection that is not older than the timeout
    (`FlushKeeps`: seen within the timeout and no queued page older than it) untouched and in place;
    the remaining connections are the old ones with the same identity; streams are only extended
    (data delivered by `skipFlush`, `Complete` set), and only the streams of flushed connections
    change.  The UDP flush removes exactly the flows idle for longer than the timeout and marks
    exactly their streams `Complete`.  (By `flow_local_false_across_timeout` the flushed connections
    DO depend on other conversations' packets, so flow locality proper stops at the window.) -/
theorem flush_touches_only_old (k ts : Nat) (cs : List TcpConn) (us : List UdpConn) (ss : Array Stream) (u : Bool) :
    (cs.filter (fun c => decide (FlushKeeps k ts c))).Sublist (tcpFlush k ts cs ss u).1 ∧
    (∀ c' ∈ (tcpFlush k ts cs ss u).1, ∃ c ∈ cs, ConnSame c c' ∧ (FlushKeeps k ts c → c' = c)) ∧
    (∀ i : Nat, StreamExt ss[i]! (tcpFlush k ts cs ss u).2.1[i]!) ∧
    (∀ i : Nat, (∀ c ∈ cs, ¬ FlushKeeps k ts c → c.stream ≠ i) → (tcpFlush k ts cs ss u).2.1[i]! = ss[i]!) ∧
    (udpFlush ts us ss).1 = us.filter (fun c => !decide (c.lastActivity + timeout < ts)) ∧
    (∀ i : Nat, (udpFlush ts us ss).2[i]? =
      ss[i]?.map (fun s => if udpOld ts us i then { s with complete := true } else s)) :=
  ⟨tcpFlush_keeps k ts cs ss u, tcpFlush_conns k ts cs ss u, tcpFlush_ext k ts cs ss u,
   tcpFlush_streams k ts cs ss u, udpFlush_conns ts us ss, udpFlush_streams ts us ss⟩

/-- a well-formed conversation: a TCP conversation (handshake, data, optional teardown — `TearConv`,
    ending in phase `ph`) or a UDP flow (first datagram client → server, then datagrams of either
    direction; client and server endpoint differ) -/
inductive ConvSpec
  | tcp (e : Endpoints) (p0 p1 : Pkt) (Bc Bs : Bytes) (body : List Pkt) (ph : TPhase)
  | udp (e : Endpoints) (p0 : Pkt) (rest : List Pkt)

/-- the packets of the conversation, in wire order -/
def ConvSpec.pkts : ConvSpec → List Pkt
  | .tcp _ p0 p1 _ _ body _ => p0 :: p1 :: body
  | .udp _ p0 rest => p0 :: rest

/-- its first packet -/
def ConvSpec.first : ConvSpec → Pkt
  | .tcp _ p0 _ _ _ _ _ => p0
  | .udp _ p0 _ => p0

def ConvSpec.WF (t0 : Nat) : ConvSpec → Prop
  | .tcp e p0 p1 Bc Bs body ph => TearConv e p0 p1 Bc Bs t0 body ph
  | .udp e p0 rest => e.Distinct ∧ isUdpC2S e p0 ∧ ∀ p ∈ rest, isUdpC2S e p ∨ isUdpS2C e p

/-- the stream of the conversation: `TearStream` (endpoints, all packets with directions, per-direction
    bytes, chunks attributed in wire order, phase facts) resp. `udpStream` (endpoints, all datagrams
    with directions, one chunk per datagram with payload) -/
def ConvSpec.Truth (t0 : Nat) : ConvSpec → Stream → Prop
  | .tcp e p0 p1 Bc Bs body ph, st => TearStream e p0 p1 Bc Bs t0 body ph st
  | .udp e p0 rest, st => st = udpStream e (p0 :: rest) false

/-- `wire` is an arbitrary interleaving of the packet sequences of the well-formed conversations
    `convs` (distinct 4-tuples), which are listed in the order of their first packets on the wire:
    the first packet of the wire belongs to the first conversation; the packets of the wire with
    that conversation's 4-tuple (`selOf`) are exactly its packets, in order; the rest of the wire is
    such an interleaving of the other conversations -/
def WireOf (t0 : Nat) : List ConvSpec → List Pkt → Prop
  | [], wire => wire = []
  | c :: cs, wire =>
    c.WF t0 ∧ (∃ p rest, wire = p :: rest ∧ selOf c.first p = true) ∧
    wire.filter (selOf c.first) = c.pkts ∧
    WireOf t0 cs (wire.filter (fun p => !selOf c.first p))

/-- a single well-formed conversation alone on the wire -/
theorem conv_single (t0 : Nat) (c : ConvSpec) (hwf : c.WF t0) (hw : InWindow t0 c.pkts) :
    ∃ x, reasm c.pkts = #[x] ∧ c.Truth t0 x := by
  cases c with
  | tcp e p0 p1 Bc Bs body ph => exact reasm_teardown_phases e p0 p1 Bc Bs t0 body ph hwf
  | udp e p0 rest =>
    obtain ⟨hd, h0, hrest⟩ := hwf
    exact ⟨_, reasm_udp_flow e hd t0 p0 rest h0 hrest hw, rfl⟩

/-- the two lists have the same length and corresponding elements are related by `R` -/
inductive AllPairs {α β : Type} (R : α → β → Prop) : List α → List β → Prop
  | nil : AllPairs R [] []
  | cons {a : α} {b : β} {l : List α} {l' : List β} : R a b → AllPairs R l l' → AllPairs R (a :: l) (b :: l')

theorem AllPairs.index {α β : Type} {R : α → β → Prop} {l : List α} {l' : List β} (h : AllPairs R l l') :
    l.length = l'.length ∧ ∀ (i : Nat) (a : α) (b : β), l[i]? = some a → l'[i]? = some b → R a b := by
  induction h with
  | nil => exact ⟨rfl, by intro i a b h; simp at h⟩
  | cons hab _ ih =>
    refine ⟨by simp [ih.1], ?_⟩
    intro i a b ha hb
    cases i with
    | zero => simp at ha hb; subst ha hb; exact hab
    | succ i => simp at ha hb; exact ih.2 i a b ha hb

/-- (3), core: the streams of such a wire are, one by one and in the order of the first packets, the
    streams of the conversations -/
theorem reasm_wire (t0 : Nat) : ∀ (convs : List ConvSpec) (wire : List Pkt), InWindow t0 wire → WireOf t0 convs wire →
    AllPairs (ConvSpec.Truth t0) convs (reasm wire).toList := by
  intro convs
  induction convs with
  | nil =>
    intro wire _ h
    have : wire = [] := h
    subst this
    exact .nil
  | cons c cs ih =>
    intro wire hw hwo
    obtain ⟨hwf, ⟨p, rest, hwire, hsel⟩, hfilt, hrest⟩ := hwo
    subst hwire
    have hwc : InWindow t0 c.pkts := by rw [← hfilt]; exact inWindow_filter hw _
    obtain ⟨x, hx, htruth⟩ := conv_single t0 c hwf hwc
    rw [← hfilt] at hx
    rw [reasm_split_first t0 p rest hw (selOf c.first) (selOf_closed _) hsel x hx]
    exact .cons htruth (ih _ (inWindow_filter hw _) hrest)

/-- well-formed wires: any number of well-formed conversations (handshake-complete TCP with optional
    teardown, UDP flows; `SeqLinear` sequence ranges) interleaved arbitrarily, all within one
    inactivity-timeout window -/
def WellFormedWire (wire : List Pkt) : Prop :=
  ∃ t0 convs, InWindow t0 wire ∧ WireOf t0 convs wire

/-- one stream per conversation, in the order of the conversations' first packets, each with the right
    endpoints, packets, per-direction payload and chunk order (`ConvSpec.Truth`) -/
def WireTruth (wire : List Pkt) (streams : Array Stream) : Prop :=
  ∀ t0 convs, InWindow t0 wire → WireOf t0 convs wire → AllPairs (ConvSpec.Truth t0) convs streams.toList

/-- (3) `reasmRecovers_wellformed`: the reference reassembler satisfies `C05.ReasmRecovers` on
    well-formed wires, with `Truth` defined concretely -/
theorem reasmRecovers_wellformed : Pk.Props.C05.ReasmRecovers reasm WellFormedWire WireTruth :=
  fun wire _ t0 convs hw hwire => reasm_wire t0 convs wire hw hwire

/-- the exact per-direction payload of a TCP conversation in which nothing is lost for good and no
    RST occurs: data phase or half-closed with every byte carried by some packet, or both FINs -/
theorem tearStream_exact {e : Endpoints} {p0 p1 : Pkt} {Bc Bs : Bytes} {t0 : Nat} {body : List Pkt} {ph : TPhase}
    {st : Stream} (h : TearStream e p0 p1 Bc Bs t0 body ph st)
    (hph : ph = .both true ∨
      ((ph = .est ∨ ∃ d, ph = .cw d) ∧ ∀ d, AllCarried (convParams e p0 p1 Bc Bs t0) body d)) :
    dirBytes st false = Bc ∧ dirBytes st true = Bs ∧ (st.complete = true ↔ ph = .both true) := by
  obtain ⟨_, _, _, _, _, _, _, cc, cs, chunks, _, _, hb1, hb2, hpt⟩ := h
  have key : cc = Bc.length ∧ cs = Bs.length ∧ (st.complete = true ↔ ph = .both true) := by
    rcases hph with rfl | ⟨rfl | ⟨d, rfl⟩, hall⟩
    · obtain ⟨h1, h2⟩ := hpt
      exact ⟨(h2 rfl).1, (h2 rfl).2, by simp [h1]⟩
    · obtain ⟨h1, _, h3⟩ := hpt
      exact ⟨h3 false (hall false), h3 true (hall true), by simp [h1]⟩
    · obtain ⟨h1, _, h3, h4⟩ := hpt
      have h5 := h4 (hall _)
      refine ⟨?_, ?_, by simp [h1]⟩
      · cases d
        · exact h3
        · exact h5
      · cases d
        · exact h5
        · exact h3
  obtain ⟨rfl, rfl, hk⟩ := key
  rw [List.take_length] at hb1 hb2
  exact ⟨hb1, hb2, hk⟩

/-- the conversations of `C05Reasm.SingleConv` (handshake + disturbed data, no teardown, nothing lost
    for good) are the well-formed conversations that end in the data phase with everything carried:
    `reasm_single_conversation_partial` is the instance `ph = .est` of `reasm_teardown_phases` +
    `tearStream_exact` -/
theorem singleConv_tearConv {e : Endpoints} {p0 p1 : Pkt} {Bc Bs : Bytes} {t0 : Nat} {body : List Pkt}
    (h : SingleConv e p0 p1 Bc Bs t0 body) :
    TearConv e p0 p1 Bc Bs t0 body .est ∧ ∀ d, AllCarried (convParams e p0 p1 Bc Bs t0) body d := by
  obtain ⟨hd, hsyn, hsa, ht0, ht1, hlc, hls, hsegs, hcc, hcs⟩ := h
  have hrun : ∀ (l done : List Pkt), (∀ p ∈ l, BodyPkt (convParams e p0 p1 Bc Bs t0) p) →
      TRun (convParams e p0 p1 Bc Bs t0) done .est l .est := by
    intro l
    induction l with
    | nil => intro done _; exact .nil
    | cons p rest ih =>
      intro done hl
      exact .cons (.seg (hl p (List.mem_cons_self ..))) (ih _ (fun q hq => hl q (List.mem_cons_of_mem _ hq)))
  refine ⟨⟨hd, hsyn, hsa, ht0, ht1, hlc, hls, hrun body [] hsegs⟩, ?_⟩
  intro d
  cases d with
  | false =>
    intro x hx
    obtain ⟨q, hq, h1, h2⟩ := hcc x hx
    exact ⟨q, hq, Or.inl ⟨rfl, h1⟩, h2⟩
  | true =>
    intro x hx
    obtain ⟨q, hq, h1, h2⟩ := hcs x hx
    exact ⟨q, hq, Or.inr ⟨rfl, h1⟩, h2⟩

/-! ### (4) a UDP flow across the inactivity timeout -/

/-- (4): ONE UDP flow (`e.Distinct`; datagrams of either direction) with arbitrary timestamps: the
    streams are those of the runs `udpRuns ps` (cut where `prev.ts + timeout < p.ts`), in order — run
    `i` with first datagram `q` gives `udpStream (runEndpoints q) run c`, whose client is the sender
    of `q` and which is `Complete` iff a later run exists; the runs concatenate to `ps`, have no inner
    gap and are separated by gaps (`udpRuns_spec`).  A flow that is silent for longer than the timeout
    thus becomes two streams, and if the server speaks first after the silence the roles are
    exchanged in the second stream (`runEndpoints_s2c`). -/
theorem reasm_udp_across_timeout (e : Endpoints) (hd : e.Distinct) (ps : List Pkt) (hne : ps ≠ [])
    (hps : ∀ p ∈ ps, isUdpC2S e p ∨ isUdpS2C e p) :
    (reasm ps).toList = runStreams (udpRuns ps) ∧
    (reasm ps).size = (udpRuns ps).length ∧
    (∀ (i : Nat) (q : Pkt) (tl : List Pkt), (udpRuns ps)[i]? = some (q :: tl) →
      (reasm ps)[i]? = some (udpStream (runEndpoints q) (q :: tl) (decide (i + 1 < (udpRuns ps).length)))) ∧
    ((udpRuns ps).flatten = ps ∧ (∀ r ∈ udpRuns ps, r ≠ [] ∧ udpNoGap r) ∧ udpGapsBetween (udpRuns ps)) :=
  ⟨reasm_udp_flow_timeout e hd ps hne hps, reasm_udp_flow_timeout_size e hd ps hne hps,
   reasm_udp_flow_timeout_stream e hd ps hne hps, udpRuns_spec ps⟩

/-- what the stream of a UDP flow (or run) holds: all datagrams with their directions, one chunk per
    datagram with payload attributed to it, per direction exactly the payloads of that direction -/
theorem udpStream_truth (e : Endpoints) (ps : List Pkt) (c : Bool) :
    (udpStream e ps c).pkts = ps.map (fun p => (p.ref, udir e p)) ∧
    (udpStream e ps c).data = udpChunks 0 ps ∧
    (∀ d, dirBytes (udpStream e ps c) d = ((ps.filter (fun p => udir e p == d)).map (·.payload)).flatten) :=
  ⟨udpStream_pkts e ps c, udpStream_data e ps c, udpStream_dirBytes e ps c⟩

/-- non-vacuity: a request and its answer; more than five minutes later the server sends again and the
    client answers — two streams, the second with the roles exchanged -/
example : (reasm udpExWire).size = 2 ∧ (reasm udpExWire)[0]!.complete = true ∧ (reasm udpExWire)[1]!.complete = false ∧
    (reasm udpExWire)[1]!.caddr = "s" ∧ (reasm udpExWire)[1]!.pkts.map (·.2) = [false, true] := by decide

/-! #### non-vacuity of (1) -/

/-- data, FIN with data from the client, a retransmitted FIN, data from the server, the server's FIN,
    the final ACK, late data -/
def tBody : List Pkt :=
  [tpkt 2 true false true false false 1000 [1, 2], tpkt 3 true false true true false 1002 [3],
   tpkt 4 true false true true false 1002 [3], tpkt 5 false false true false false 5000 [9],
   tpkt 6 false false true true false 5001 [], tpkt 7 true false true false false 1004 [],
   tpkt 8 true false true false false 1004 [7, 7]]

theorem tBody_conv : TearConv exE tSyn tSynAck [1, 2, 3] [9] 1000000 tBody (.both true) :=
  ⟨by decide, by decide, by decide, by decide, by decide, by decide, by decide,
   .cons (.seg (by decide)) <| .cons (.fin (d := false) (by decide)) <| .cons (.cwOwn (by decide) (by decide)) <|
   .cons (.cwSeg (by decide) (by decide)) <| .cons (.cwFin (by decide) (by decide)) <|
   .cons (.closed (dir := false) (by decide)) <| .cons (.closed (dir := false) (by decide)) .nil⟩

example :
    (reasm (tSyn :: tSynAck :: tBody))[0]!.data = [(2, [1, 2]), (3, [3]), (5, [9])] ∧
    (reasm (tSyn :: tSynAck :: tBody))[0]!.complete = true ∧ (reasm (tSyn :: tSynAck :: tBody))[0]!.npkts = 9 := by decide

/-- RST of the client behind a hole: the queued byte is dropped, later data of both sides is ignored -/
def tBodyRst : List Pkt :=
  [tpkt 2 true false true false false 1001 [2], tpkt 3 true false true false true 1000 [],
   tpkt 4 true false true false false 1000 [1], tpkt 5 false false true false false 5000 [9]]

example : TearConv exE tSyn tSynAck [1, 2] [9] 1000000 tBodyRst .reset :=
  ⟨by decide, by decide, by decide, by decide, by decide, by decide, by decide,
   .cons (.seg (by decide)) <| .cons (.rst (d := false) (by decide)) <|
   .cons (.afterRst (dir := false) (by decide)) <| .cons (.afterRst (dir := true) (by decide)) .nil⟩

example : (reasm (tSyn :: tSynAck :: tBodyRst))[0]!.data = [] ∧
    (reasm (tSyn :: tSynAck :: tBodyRst))[0]!.complete = false := by decide

/-! #### non-vacuity of (2), (3): a UDP flow and the TCP conversation above, interleaved -/

def uE : Endpoints := ⟨"c", "s", 1111, 53⟩
def uPkt (i : Nat) (c2s : Bool) (pl : Bytes) : Pkt :=
  { ts := 1000100 + i, file := "u", idx := i, udp := true,
    src := if c2s then "c" else "s", dst := if c2s then "s" else "c",
    sport := if c2s then 1111 else 53, dport := if c2s then 53 else 1111, payload := pl }

def wire3 : List Pkt :=
  [uPkt 0 true [0x51], tSyn, uPkt 1 false [0x52, 0x53], tSynAck] ++ tBody ++ [uPkt 2 true []]

example : WellFormedWire wire3 :=
  ⟨1000000, [.udp uE (uPkt 0 true [0x51]) [uPkt 1 false [0x52, 0x53], uPkt 2 true []],
             .tcp exE tSyn tSynAck [1, 2, 3] [9] tBody (.both true)],
   by unfold InWindow; decide,
   ⟨by decide, by decide, by decide⟩, ⟨_, _, rfl, by decide⟩, by decide,
   tBody_conv, ⟨tSyn, tSynAck :: tBody, by decide, by decide⟩, by decide, (by show _ = []; decide)⟩

example : (reasm wire3).toList.map (·.udp) = [true, false] ∧ (reasm wire3).toList.map (·.complete) = [false, true] ∧
    (reasm wire3).toList.map (·.npkts) = [3, 9] ∧
    (reasm wire3).toList.map (·.data) = [[(0, [0x51]), (1, [0x52, 0x53])], [(2, [1, 2]), (3, [3]), (5, [9])]] := by decide

/-- the selection of the TCP conversation is `FlowClosed`, and filtering commutes with `reasm` -/
example : FlowClosed (selOf tSyn) ∧
    ((reasm wire3).toList.filter (fun s => selOf tSyn (Stream.keyPkt s))).map (·.data) =
      (reasm (wire3.filter (selOf tSyn))).toList.map (·.data) :=
  ⟨selOf_closed _, by decide⟩

end Pk.Props.C05More
