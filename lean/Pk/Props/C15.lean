/-
  C15 — the converter cache behaves like a map from stream to latest output.

  Model: Pk/Model/CacheFile.lean (transliteration of internal/index/converters/cachefile.go as of the
  tree with the `fix:` commits for F10, F11, F12, F23).  Helper lemmas: Pk/Proofs/CacheFile.lean.

  What is PROVED here (all inputs, no bounds other than the stated hypotheses):
  * `varint_roundtrip`            every uint64 value
  * `sizes_roundtrip`             chunk sizes with direction-zero markers: same-direction runs, server first
  * `times_roundtrip`             splitting the data and reading the µs times back
  * `times_within_microsecond`    every time read back is less than 1 µs from the stored time, for any number
                                  of chunks (this is what the F12 fix establishes; before it the error grew
                                  with the chunk index)
  * `record_roundtrip_partial`    `data` after `setData` body, for chunk lists WITHOUT content types
  * `store_then_read`             in any state whose accounting matches the file and in which the
                                  compaction rule does not fire, a stored stream reads back as the decoding
                                  of its record (also when it replaces an older record, whose header is
                                  overwritten in place); `store_then_read_roundtrip_partial` composes both
  * `invalidate_then_read`, `reset_empty`
  * the witnesses of the four repaired findings, evaluated on the model (`fixed_F10` … `fixed_F23`)

  The full-strength statements `varbytes_roundtrip`, `record_roundtrip` (with content types),
  `cache_refines_map` (every op sequence incl. compaction and reopen), `reopen_refines`,
  `truncated_prefix_serves_complete` are stated below as `def … : Prop` and PROVED in
  Pk/Props/C15Full.lean (`…_holds`; helper lemmas Pk/Proofs/CacheFile{VarBytes,Cts,Skip,Inv,Compact,Open,Full}.lean).
-/
import Pk.Model.CacheFile
import Pk.Proofs.CacheFile

namespace Pk.Props.C15
open Pk.CacheFile Pk.Proofs.CacheFile

/-! ### codecs -/

theorem varint_roundtrip (n : Nat) (rest : List Nat) (h : n < 2 ^ 64) :
    readVarInt (writeVarInt n ++ rest) = some (n, rest) :=
  Pk.Proofs.CacheFile.varint_roundtrip n rest h

/-- the size list of any chunk list (non-empty contents) is read back as one entry per chunk, with a
    zero-size marker entry wherever a chunk does not have the expected direction, and the reader stops
    exactly at the end of the list -/
theorem sizes_roundtrip (cs : List Chunk) (want : Bool) (rest : List Nat) (fuel : Nat)
    (hok : ∀ c ∈ cs, ChunkOk c) (hf : (encodeSizes cs want).length ≤ fuel) :
    readSizes fuel (encodeSizes cs want ++ rest) false want
      = some (entries cs want ++ [(endDir cs want, 0)], rest) :=
  sizes_read rest cs want fuel hok hf

theorem times_roundtrip (cs : List Chunk) (want : Bool) (cd sd rest : List Nat) (last : Int)
    (hok : ∀ c ∈ cs, ChunkOk c) (ht : TimesOk cs last) :
    splitChunks (entries cs want) (dataOf cs false ++ cd) (dataOf cs true ++ sd)
        (encodeTimes cs last ++ rest) last
      = some (readBack cs last, rest) :=
  split_read rest cs want cd sd last hok ht

/-- direction and bytes are exact, the time is off by less than a microsecond — for every chunk,
    however many chunks precede it -/
def Close (a b : Chunk) : Prop :=
  b.dir = a.dir ∧ b.content = a.content ∧ -1000 < a.time - b.time ∧ a.time - b.time < 1000

def AllClose : List Chunk → List Chunk → Prop
  | [], [] => True
  | a :: as, b :: bs => Close a b ∧ AllClose as bs
  | _, _ => False

theorem times_within_microsecond : ∀ (cs : List Chunk) (last : Int), AllClose cs (readBack cs last) := by
  intro cs
  induction cs with
  | nil => intro last; simp [readBack, AllClose]
  | cons c cs ih =>
    intro last
    simp only [readBack, AllClose]
    refine ⟨⟨rfl, rfl, ?_, ?_⟩, ih _⟩
    · have := (time_error (c.time - last)).1; simp only; omega
    · have := (time_error (c.time - last)).2; simp only; omega

/-- FULL statement (proved: `varbytes_roundtrip_holds`): content-type bitmasks -/
def varbytes_roundtrip : Prop :=
  ∀ (data rest : List Nat), (∀ b ∈ data, b < 256) → readVarBytes (writeVarBytes data ++ rest) = some (data, rest)

/-- what a reader must get back: `readBack` with the content types kept -/
def expected (cs : List Chunk) (t0 : Int) : List Chunk :=
  List.zipWith (fun (r c : Chunk) => { r with ctype := c.ctype }) (readBack cs t0) cs

/-- FULL statement (proved: `record_roundtrip_holds`): records with content types on any subset of the chunks -/
def record_roundtrip : Prop :=
  ∀ (cs : List Chunk) (t0 : Int), (∀ c ∈ cs, ChunkOk c ∧ c.ctype.length < 2 ^ 64 ∧ ∀ b ∈ c.ctype, b < 256) →
    TimesOk cs t0 →
    decodeRecord (encodeBody cs t0) t0
      = some { chunks := expected cs t0, clientBytes := (dataOf cs false).length,
               serverBytes := (dataOf cs true).length }

/-- PROVED part: chunk lists without content types (same-direction runs, server first, any number of
    chunks, any contents, any times less than 146 years apart). Missing for the full statement: the
    bitmask codec (`varbytes_roundtrip`) and `applyMask ∘ collectCts`. -/
theorem record_roundtrip_partial (cs : List Chunk) (t0 : Int)
    (hok : ∀ c ∈ cs, ChunkOk c) (hct : ∀ c ∈ cs, c.ctype = []) (ht : TimesOk cs t0) :
    decodeRecord (encodeBody cs t0) t0
      = some { chunks := readBack cs t0, clientBytes := (dataOf cs false).length,
               serverBytes := (dataOf cs true).length } :=
  record_roundtrip_noct cs t0 hok hct ht

/-! ### the file -/

theorem reset_empty (id : Nat) (t0 : Int) : data reset id t0 = some none ∧ streamCount reset = 0 := ⟨rfl, rfl⟩

theorem store_then_read (st : St) (id : Nat) (t0 : Int) (cs : List Chunk)
    (hsz : st.fileSize = st.bytes.length)
    (hno : ¬ (st.freeSize ≥ cleanupMinFreeSize ∧ st.freeSize ≥ st.fileSize / 2))
    (hold : ∀ o, lookup st.infos id = some o → 8 ≤ o.offset ∧ o.offset ≤ st.fileSize) :
    ∃ st', setData st id t0 cs = some st' ∧
      data st' id t0 = (decodeRecord (encodeRecord cs t0) t0).map some :=
  Pk.Proofs.CacheFile.store_then_read st id t0 cs hsz hno hold

theorem store_then_read_roundtrip_partial (st : St) (id : Nat) (t0 : Int) (cs : List Chunk)
    (hsz : st.fileSize = st.bytes.length)
    (hno : ¬ (st.freeSize ≥ cleanupMinFreeSize ∧ st.freeSize ≥ st.fileSize / 2))
    (hold : ∀ o, lookup st.infos id = some o → 8 ≤ o.offset ∧ o.offset ≤ st.fileSize)
    (hok : ∀ c ∈ dropEmpty cs, c.content.length < 2 ^ 64) (hct : ∀ c ∈ cs, c.ctype = [])
    (ht : TimesOk (dropEmpty cs) t0) :
    ∃ st', setData st id t0 cs = some st' ∧
      data st' id t0 = some (some { chunks := readBack (dropEmpty cs) t0,
                                    clientBytes := (dataOf (dropEmpty cs) false).length,
                                    serverBytes := (dataOf (dropEmpty cs) true).length }) := by
  obtain ⟨st', h1, h2⟩ := store_then_read st id t0 cs hsz hno hold
  refine ⟨st', h1, ?_⟩
  rw [h2]
  unfold encodeRecord
  rw [record_roundtrip_noct (dropEmpty cs) t0 ?_ ?_ ht]
  · rfl
  · intro c hc
    refine ⟨?_, hok c hc⟩
    have := (List.mem_filter.mp hc).2
    simpa using this
  · intro c hc
    exact hct c (List.mem_filter.mp hc).1

theorem invalidate_then_read (st : St) (id : Nat) (t0 : Int) :
    data (invalidateOne st id).1 id t0 = some none ∧ contains (invalidateOne st id).1 id = false :=
  Pk.Proofs.CacheFile.invalidate_then_read st id t0

/-! ### full statements (proved in Pk/Props/C15Full.lean) -/

/-- the map specification: latest store per id, removed by invalidate and reset -/
def specStep (m : Nat → Option (List Chunk × Int)) : Op → Nat → Option (List Chunk × Int)
  | .store id t0 cs => fun x => if x = id then some (cs, t0) else m x
  | .invalidate ids => fun x => if x ∈ ids then none else m x
  | .reset => fun _ => none
  | .reopen => m
  | .reopenTruncated _ => m

def specRun (m : Nat → Option (List Chunk × Int)) : List Op → Nat → Option (List Chunk × Int)
  | [] => m
  | op :: ops => specRun (specStep m op) ops

def OpOk : Op → Prop
  | .store id t0 cs => id < 2 ^ 64 - 1 ∧ TimesOk (dropEmpty cs) t0 ∧
      ∀ c ∈ cs, c.content.length < 2 ^ 64 ∧ c.ctype.length < 2 ^ 64 ∧ (∀ b ∈ c.content, b < 256) ∧ ∀ b ∈ c.ctype, b < 256
  | .reopenTruncated _ => False
  | _ => True

/-- FULL statement: for every sequence of store / invalidate / reset / reopen (compaction included, it
    happens inside store and reopen), every id reads as the latest stored chunks or as nothing -/
def cache_refines_map : Prop :=
  ∀ (ops : List Op), (∀ op ∈ ops, OpOk op) →
    ∃ st, run reset ops = some st ∧ st.fileSize = st.bytes.length ∧
      ∀ id, match specRun (fun _ => none) ops id with
        | none => data st id 0 = some none ∧ dataForSearch st id = some none ∧ contains st id = false
        | some (cs, t0) =>
          data st id t0 = some (some { chunks := expected (dropEmpty cs) t0,
                                        clientBytes := (dataOf (dropEmpty cs) false).length,
                                        serverBytes := (dataOf (dropEmpty cs) true).length })

/-- FULL statement: reopening changes no read -/
def reopen_refines : Prop :=
  ∀ (ops : List Op), (∀ op ∈ ops, OpOk op) → ∀ st, run reset ops = some st →
    ∃ st', openFile st.bytes = some st' ∧ ∀ id t0, data st' id t0 = data st id t0

/-- FULL statement: a file cut inside its last record (or anywhere) opens, and every stream whose record
    lies completely before the cut reads as before -/
def truncated_prefix_serves_complete : Prop :=
  ∀ (ops : List Op), (∀ op ∈ ops, OpOk op) → ∀ st, run reset ops = some st → ∀ keep,
    ∃ st', openFile (st.bytes.take keep) = some st' ∧
      ∀ id info, lookup st.infos id = some info → info.offset + info.size ≤ keep →
        ∀ t0, data st' id t0 = data st id t0

/-! ### non-vacuity and the witnesses of the repaired findings, evaluated on the model -/

def c (d : Bool) (b : List Nat) (t : Int) (ct : List Nat := []) : Chunk := { dir := d, content := b, time := t, ctype := ct }

example : ChunkOk (c false [97] 0) := by simp [ChunkOk, c]
example : TimesOk [c false [97] 5800, c true [98] 11600] 0 := by simp [TimesOk, c]
example : OpOk (.store 1 0 [c false [97] 5800 [120]]) := by simp [OpOk, TimesOk, dropEmpty, c]

/-- varbytes on the 7/8-byte boundary and a record with content types, server first, same-direction run -/
example : readVarBytes (writeVarBytes [1, 2, 3, 4, 5, 6, 7, 255, 128] ++ [9]) = some ([1, 2, 3, 4, 5, 6, 7, 255, 128], [9]) := by decide
example : (decodeRecord (encodeRecord [c true [1, 2] 2500 [120], c true [3] 2500, c false [4] 7100 [121, 122]] 1000) 1000).map (·.chunks)
    = some [c true [1, 2] 2000 [120], c true [3] 2000, c false [4] 7000 [121, 122]] := by decide

def store' (st : Option St) (id : Nat) (t0 : Int) (cs : List Chunk) : Option St := st.bind fun s => setData s id t0 cs

/-- F12 (corpus/C15/f12_time_drift.ops): deltas of 5.8 µs, third chunk within 1 µs (was 15000) -/
theorem fixed_F12 :
    ((store' (some reset) 1 0 [c false [97] 5800, c true [98] 11600, c false [99] 17400]).bind
      fun s => (data s 1 0)).map (fun r => r.map fun x => x.chunks.map (·.time)) = some (some [5000, 11000, 17000]) := by
  decide

/-- F10 (corpus/C15/f10_partial_tail.ops): the file cut 3 bytes before its end opens and serves stream 1 -/
theorem fixed_F10 :
    ((store' (store' (some reset) 1 0 [c false [97, 98] 1000]) 2 0 [c true [99, 100] 2000 [97]]).bind
      fun s => (openFile (s.bytes.take (s.bytes.length - 3))).bind fun s' =>
        (data s' 1 0).map fun r => (r.map (·.chunks), contains s' 2, s'.bytes.length))
      = some (some [c false [97, 98] 1000], false, 23) := by
  decide

/-- F11 (corpus/C15/f11_older_version_resurrected.ops): store, store, invalidate, reopen: nothing is served -/
theorem fixed_F11 :
    ((store' (store' (some reset) 1 0 [c false [97, 98] 1000]) 1 0 [c false [99, 100] 1000]).bind
      fun s => (openFile (invalidate s [1]).1.bytes).bind fun s' => (data s' 1 0).map fun r => (r, streamCount s'))
      = some (none, 0) := by
  decide

/-- F23 (corpus/C15/f23_empty_chunk.ops): a chunk without content no longer damages the file -/
theorem fixed_F23 :
    ((store' (store' (some reset) 1 0 [c false [97] 1000, c true [] 2000, c false [98] 3000]) 2 0 [c false [99] 1000]).bind
      fun s => (openFile s.bytes).bind fun s' =>
        (data s' 2 0).bind fun r2 => (data s' 1 0).map fun r1 => (r1.map (·.chunks), r2.map (·.chunks), streamCount s'))
      = some (some [c false [97] 1000, c false [98] 3000], some [c false [99] 1000], 2) := by
  decide

end Pk.Props.C15
