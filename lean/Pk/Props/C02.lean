/-
  C02 — Search returns exactly the streams the query denotes, ordered and paged.

  Property theorems only (helper lemmas: Pk/Proofs/Search*.lean).  Everything is stated for all
  stream sets, key lists, limits, pages and feeding orders; nothing is bounded.

  * `ValidPage` is the relational meaning of "the result is the requested page": SOME sorted
    arrangement of all matches has the result at positions [skip, skip+limit) (ties in the sort key
    leave freedom), and `more` iff matches exist beyond the page.  `validPage_iff`: the executable
    checker `validPage` (the one `pkmodel c02` evaluates on every REAL search result) decides it.
  * the engine's accumulator (`step`/`scan`, transliterated from search.go) turns ANY feeding order of
    the matches into a ValidPage (`acc_yields_validPage`); the early exit of the sorted scan does not
    change the page (`early_exit_sound`) under its precise side condition (the lookup is ordered by the
    key the exit test uses) and does change it under the rule of the unrepaired code (`finding_F21`).
  * shadowing: a stored version is considered iff no newer file contains its id (`shadowing_exact`).
  * simple filters: tag accept table, time bounds, flag test.
-/
import Pk.Model.Search
import Pk.Proofs.Search
import Pk.Proofs.Extra

namespace Pk.Props.C02
open Pk.Search Pk.Proofs.Search

/-! ### the relational spec -/

/-- `l` is sorted: no element is strictly below an earlier one -/
def Sorted (lt : Rec → Rec → Bool) (l : List Rec) : Prop := l.Pairwise (fun a b => lt b a = false)

/-- the result `res` (stream ids) with flag `more` is the page `[skip, skip+limit)` of the matches `ms` -/
def ValidPage (ms : List Rec) (keys : List SortKey) (limit skip : Nat) (res : List Nat) (more : Bool) : Prop :=
  (∃ arr : List Rec, arr.Perm ms ∧ Sorted (less keys) arr ∧ res = (pageOf limit skip arr).map (·.id)) ∧
  more = moreOf limit skip ms.length

/-- consequences everybody expects from a page: no duplicates, only matches, sorted -/
theorem ValidPage.nodup {ms keys limit skip res more} (hnd : (ms.map (·.id)).Nodup)
    (h : ValidPage ms keys limit skip res more) : res.Nodup := by
  obtain ⟨⟨arr, hp, _, rfl⟩, _⟩ := h
  exact validPage_nodup hnd hp

theorem ValidPage.subset {ms keys limit skip res more}
    (h : ValidPage ms keys limit skip res more) : ∀ id ∈ res, ∃ m ∈ ms, m.id = id := by
  obtain ⟨⟨arr, hp, _, rfl⟩, _⟩ := h
  exact validPage_subset hp

/-- the spec does not depend on the order in which the matches are listed -/
theorem ValidPage.perm {ms ms' keys limit skip res more} (hp : ms.Perm ms')
    (h : ValidPage ms keys limit skip res more) : ValidPage ms' keys limit skip res more := by
  obtain ⟨⟨arr, ha, hs, hr⟩, hm⟩ := h
  exact ⟨⟨arr, ha.trans hp, hs, hr⟩, by rw [hm, hp.length_eq]⟩

/-- the sort order is a strict weak order for every key list -/
theorem less_strict_weak (keys : List SortKey) :
    (∀ a, less keys a a = false) ∧
    (∀ a b c, less keys a b = true → less keys b c = true → less keys a c = true) ∧
    (∀ a b c, less keys a b = false → less keys b c = false → less keys a c = false) :=
  ⟨less_irrefl keys, less_trans keys, less_incomp_trans keys⟩

/-- the executable checker is sound: what it accepts is a page of some sorted arrangement -/
theorem validPage_sound (ms : List Rec) (keys : List SortKey) (limit skip : Nat) (res : List Nat) (more : Bool)
    (hnd : (ms.map (·.id)).Nodup) :
    validPage ms keys limit skip res more = true → ValidPage ms keys limit skip res more :=
  validPage_sound' ms keys limit skip res more hnd

/-- … and complete: it accepts every page of every sorted arrangement -/
theorem validPage_complete (ms : List Rec) (keys : List SortKey) (limit skip : Nat) (res : List Nat) (more : Bool)
    (hnd : (ms.map (·.id)).Nodup) :
    ValidPage ms keys limit skip res more → validPage ms keys limit skip res more = true := by
  intro ⟨⟨arr, hp, hs, hr⟩, hm⟩
  exact validPage_complete' ms keys limit skip res more hnd arr hp hs hr hm

theorem validPage_iff (ms : List Rec) (keys : List SortKey) (limit skip : Nat) (res : List Nat) (more : Bool)
    (hnd : (ms.map (·.id)).Nodup) :
    validPage ms keys limit skip res more = true ↔ ValidPage ms keys limit skip res more :=
  ⟨validPage_sound ms keys limit skip res more hnd, validPage_complete ms keys limit skip res more hnd⟩

/-! ### the accumulator -/

/-- after ANY sequence of calls (any stop test, with or without honouring the stop signal) the
    accumulator is sorted, holds at most `limit` entries, kept ∪ (dropped or skipped by the limit
    pre-check) = matches seen (as multisets), and kept + dropped never exceeds the matches seen -/
theorem acc_invariant (keys : List SortKey) (stopLt : Rec → Rec → Bool) (limit : Nat) (sorted : Bool)
    (evs : List (Rec × Bool)) :
    let a := scan (less keys) stopLt limit sorted {} evs
    Sorted (less keys) a.streams ∧ (limit ≠ 0 → a.streams.length ≤ limit) ∧
    (∃ rest, (a.streams ++ rest).Perm (fed evs)) ∧ a.streams.length + a.dropped ≤ (fed evs).length :=
  acc_invariant' keys stopLt limit sorted evs

/-- `more` is exact: after a scan without early exit the dropped counter is non-zero iff more than
    `limit` matches were fed (and nothing is dropped without a limit) -/
theorem more_flag_exact (keys : List SortKey) (stopLt : Rec → Rec → Bool) (limit : Nat) (evs : List (Rec × Bool)) :
    let a := scan (less keys) stopLt limit false {} evs
    (a.dropped != 0) = (limit != 0 && decide (limit < (fed evs).length)) :=
  more_flag_exact' keys stopLt limit evs

/-- CORE: feeding every match exactly once, in ANY order, interleaved with any non-matching streams,
    yields a valid page.  This is why the three scan strategies are correct as long as they feed each
    match once. (`limit = 0` means unlimited and is only used with `skip = 0`.) -/
theorem acc_yields_validPage (keys : List SortKey) (stopLt : Rec → Rec → Bool) (limit skip : Nat)
    (hl : limit = 0 → skip = 0) (evs : List (Rec × Bool)) :
    let a := scan (less keys) stopLt (limit + skip) false {} evs
    ValidPage (fed evs) keys limit skip (finish a skip).1 (finish a skip).2 :=
  acc_yields_validPage' keys stopLt limit skip hl evs

/-- the early exit rule with its precise side condition: if the events of the scan are ordered by the
    comparator `p` the stop test uses (the lookup section is ordered by the primary key), `p` is a strict
    weak order and the full order refines it (`less keys a b → ¬ p b a`), then honouring the stop signal
    changes nothing at all: every stream behind the stop point is rejected by the limit pre-check -/
theorem early_exit_sound (keys : List SortKey) (p : Rec → Rec → Bool) (limit : Nat) (a : Acc)
    (evs : List (Rec × Bool))
    (hp_trans : ∀ x y z, p x y = true → p z y = false → p x z = true)
    (hrefine : ∀ x y, less keys x y = true → p y x = false)
    (hsorted : (evs.map (·.1)).Pairwise (fun x y => p y x = false)) :
    scan (less keys) p limit true a evs = scan (less keys) p limit false a evs :=
  early_exit_sound' keys p limit a evs hp_trans hrefine hsorted

/-- the primary-key comparator satisfies the side conditions of `early_exit_sound` -/
theorem primLess_side_conditions (keys : List SortKey) :
    (∀ x y z, primLess keys x y = true → primLess keys z y = false → primLess keys x z = true) ∧
    (∀ x y, less keys x y = true → primLess keys y x = false) :=
  primLess_side keys

/-! ### shadowing and the whole search -/

/-- a stored version is considered iff no newer index file contains its id -/
theorem shadowing_exact (files : List (List (Rec × Bool))) (e : Rec × Bool) :
    e ∈ visible [] files ↔
      ∃ newer f older, files = newer ++ f :: older ∧ e ∈ f ∧ ∀ g ∈ newer, ∀ x ∈ g, x.1.id ≠ e.1.id :=
  shadowing_exact' files e

/-- iterating the files newest first with the superseding filter feeds exactly the visible matches:
    without early exit the file loop is one scan over the visible-flagged events -/
theorem searchFiles_eq_scan (lt stopLt : Rec → Rec → Bool) (limit : Nat) (files newer : List (List (Rec × Bool))) (a : Acc) :
    searchFiles lt stopLt limit false newer files a =
      scan lt stopLt limit false a (flagged newer files) ∧
    fed (flagged [] files) = matchesOf files :=
  searchFiles_eq_scan' lt stopLt limit files newer a

/-- with every file's lookup section ordered by the primary key, the sorted scans with early exit return
    what the scans without early exit return -/
theorem scan_sorted_valid (keys : List SortKey) (limit skip : Nat) (files : List (List (Rec × Bool)))
    (hsorted : ∀ f ∈ files, (f.map (·.1)).Pairwise (fun x y => primLess (effKeys keys) y x = false)) :
    search keys limit skip true files = search keys limit skip false files :=
  search_sorted_eq_unsorted' keys limit skip files hsorted

/-- the whole search returns a valid page of the visible matches, for any stack of index files, any
    scan order inside the files (file order, or lookup order when the lookup is ordered by the primary key) -/
theorem search_valid (keys : List SortKey) (limit skip : Nat) (hl : limit = 0 → skip = 0)
    (files : List (List (Rec × Bool))) (sorted : Bool)
    (hsorted : sorted = true → ∀ f ∈ files, (f.map (·.1)).Pairwise (fun x y => primLess (effKeys keys) y x = false)) :
    ValidPage (matchesOf files) (effKeys keys) limit skip (search keys limit skip sorted files).1
      (search keys limit skip sorted files).2 := by
  cases sorted with
  | false => exact search_valid_unsorted' keys limit skip hl files
  | true =>
    rw [search_sorted_eq_unsorted' keys limit skip files (hsorted rfl)]
    exact search_valid_unsorted' keys limit skip hl files

/-! ### findings -/

/-- F21 (fixed by ed04fa6): the rule of the unrepaired code — stop at the first stream that does not
    beat the last kept one under the FULL key list — loses the best stream when first keys tie:
    three streams with the same first-packet time, `sort:ftime,cport limit:1`. -/
def f21Files : List (List (Rec × Bool)) :=
  [[({ id := 1, ftime := 0, ltime := 0, cbytes := 0, sbytes := 0, cport := 1000, sport := 0, chost := [], shost := [] }, true),
    ({ id := 2, ftime := 0, ltime := 0, cbytes := 0, sbytes := 0, cport := 1001, sport := 0, chost := [], shost := [] }, true),
    ({ id := 3, ftime := 0, ltime := 0, cbytes := 0, sbytes := 0, cport := 999, sport := 0, chost := [], shost := [] }, true)]]
def f21Keys : List SortKey := [⟨.ftime, false⟩, ⟨.cport, false⟩]

theorem finding_F21 :
    validPage (matchesOf f21Files) f21Keys 1 0 (searchFullKeyExit f21Keys 1 0 true f21Files).1
      (searchFullKeyExit f21Keys 1 0 true f21Files).2 = false ∧
    validPage (matchesOf f21Files) f21Keys 1 0 (search f21Keys 1 0 true f21Files).1
      (search f21Keys 1 0 true f21Files).2 = true := by
  decide

/-! ### filters -/

/-- the special cases of the tag accept switch agree with the meaning of the accept mask -/
theorem filter_tag_accept_sound (accept : Nat) (h : accept < 16) (uncertain matching : Bool) :
    tagAccept accept uncertain matching = tagAcceptSpec accept uncertain matching :=
  tagAccept_sound accept h uncertain matching

/-- inlining the definition of a tag with undecided streams (`InlineTagFilters`, run by every search): a decided
    stream is judged by its recorded answer, an undecided one by the definition, whatever stale answer is recorded
    (the regime of the seeded change c02e) -/
theorem filter_tag_inlined_sound (hasU : Bool) (accept : Nat) (h : accept < 16) (uncertain recorded defTruth : Bool)
    (hu : hasU = false → uncertain = false) :
    inlinedAccept hasU accept uncertain recorded defTruth =
      tagAcceptSpec accept uncertain (if uncertain then defTruth else recorded) :=
  inlinedAccept_sound hasU accept h uncertain recorded defTruth hu

/-- the hypotheses are satisfiable with a STALE recorded answer: mask "failing or undecided" (14), the stream is
    undecided, recorded as matching, the definition says failing — accepted -/
example : inlinedAccept true 14 true true false = true := by decide

/-- an absolute lower / upper time bound parsed at the reference time the search uses means what it
    says, for every index file reference time -/
theorem filter_time_sound (A ref fileRef first last : Int) :
    timeFilter (lowerBoundDuration A ref) 1 0 ref fileRef first last = decide (A ≤ fileRef + first) ∧
    timeFilter (upperBoundDuration A ref) (-1) 0 ref fileRef first last = decide (fileRef + first ≤ A) := by
  constructor <;> simp [timeFilter, lowerBoundDuration, upperBoundDuration] <;> constructor <;> intro h <;> omega

/-- F40 (known): a bound parsed at another reference time (an inlined tag definition parsed before the
    searching query) is shifted by the difference: bound 12:00:04 parsed 1 s earlier, stream at 12:00:04. -/
theorem finding_F40 :
    ¬ (∀ A tagRef refTime fileRef first last : Int,
        timeFilter (lowerBoundDuration A tagRef) 1 0 refTime fileRef first last = decide (A ≤ fileRef + first)) := by
  intro h
  have := h 4 (-1) 0 0 4 0
  simp [timeFilter, lowerBoundDuration] at this

theorem filter_flag_sound (flags mask value : Nat) :
    flagFilter flags mask value = true ↔ flags &&& mask ≠ value := by
  simp [flagFilter]

/-- `key:lo:hi` is two number conditions `-lo + v ≥ 0` and `hi - v ≥ 0`: the filter accepts exactly lo ≤ v ≤ hi -/
theorem filter_number_sound (lo hi v : Int) :
    (numberFilter (-lo) [(1, v)] = true ↔ lo ≤ v) ∧ (numberFilter hi [(-1, v)] = true ↔ v ≤ hi) :=
  Pk.Proofs.Extra.filter_number_sound' lo hi v

/-- the min/max pre-check of a time condition on a single packet time is justified: the filter is monotone
    in that time, so equal answers on the earliest and latest value of an index file hold for every stream in it -/
theorem time_precheck_monotone (duration f refTime fileRef lo hi t other : Int)
    (hlo : lo ≤ t) (hhi : t ≤ hi)
    (hsame : timeFilter duration f 0 refTime fileRef lo other = timeFilter duration f 0 refTime fileRef hi other) :
    timeFilter duration f 0 refTime fileRef t other = timeFilter duration f 0 refTime fileRef lo other :=
  Pk.Proofs.Extra.time_precheck_monotone' duration f refTime fileRef lo hi t other hlo hhi hsame

/-- the id-range lookup loses no match: a stream passing every `±id` number condition has its id inside
    the range the lookup enumerates -/
theorem idrange_lookup_superset (conds : List (Int × Int)) (lo hi id : Int)
    (hpass : ∀ c ∈ conds, numberFilter c.2 [(c.1, id)] = true) (hlo : lo ≤ id) (hhi : id ≤ hi) :
    (Pk.Proofs.Extra.idBounds conds (lo, hi)).1 ≤ id ∧ id ≤ (Pk.Proofs.Extra.idBounds conds (lo, hi)).2 :=
  Pk.Proofs.Extra.idrange_lookup_superset' conds lo hi id hpass hlo hhi

/-! ### non-vacuity: the hypotheses of the theorems above are satisfiable, the spec is neither empty nor trivial -/

def exA : Rec := { id := 1, ftime := 5, ltime := 9, cbytes := 0, sbytes := 0, cport := 1000, sport := 80, chost := [10, 0, 0, 1], shost := [10, 0, 0, 2] }
def exB : Rec := { id := 2, ftime := 5, ltime := 7, cbytes := 3, sbytes := 0, cport := 1001, sport := 80, chost := [10, 0, 0, 1], shost := [10, 0, 0, 2] }
def exC : Rec := { id := 3, ftime := 4, ltime := 4, cbytes := 1, sbytes := 2, cport := 999, sport := 80, chost := [253, 0], shost := [10, 0, 0, 2] }

/-- distinct ids (hypothesis `hnd` of `validPage_iff`) -/
example : ([exA, exB, exC].map (·.id)).Nodup := by decide
/-- ties leave freedom: with `sort:-ftime limit:1` both streams with the latest first packet are valid pages … -/
example : validPage [exA, exB, exC] [⟨.ftime, true⟩] 1 0 [1] true = true := by decide
example : validPage [exA, exB, exC] [⟨.ftime, true⟩] 1 0 [2] true = true := by decide
/-- … the third is not, nor is a wrong more flag, a duplicate, or a wrong order -/
example : validPage [exA, exB, exC] [⟨.ftime, true⟩] 1 0 [3] true = false := by decide
example : validPage [exA, exB, exC] [⟨.ftime, true⟩] 1 0 [1] false = false := by decide
example : validPage [exA, exB, exC] [⟨.ftime, true⟩] 0 0 [1, 1, 3] false = false := by decide
example : validPage [exA, exB, exC] [⟨.ftime, true⟩, ⟨.cport, false⟩] 0 0 [2, 1, 3] false = false := by decide
example : validPage [exA, exB, exC] [⟨.ftime, true⟩, ⟨.cport, false⟩] 0 0 [1, 2, 3] false = true := by decide
/-- second page -/
example : validPage [exA, exB, exC] [⟨.chost, false⟩] 2 2 [3] false = true := by decide
/-- the engine on a two-file stack with a shadowed older version of stream 1 (which would match) -/
def exFiles : List (List (Rec × Bool)) := [[(exB, true), ({ exA with cport := 1 }, false)], [(exA, true), (exC, true)]]
example : matchesOf exFiles = [exB, exC] := by decide
example : search [⟨.cport, false⟩] 1 0 false exFiles = ([3], true) := by decide
/-- the side condition of `scan_sorted_valid` holds for a lookup ordered by the primary key -/
example : ∀ f ∈ [[(exC, true), (exA, true), (exB, true)]],
    (f.map (·.1)).Pairwise (fun x y => primLess (effKeys [⟨.ftime, false⟩, ⟨.cport, true⟩]) y x = false) := by decide

end Pk.Props.C02
