/-
  C17 — Bitmask containers behave like sets of integers.

  Property theorems only (helper lemmas live in Pk/Proofs/Bits*.lean).  Every theorem is stated
  for *all* masks / bits / operands; nothing here is bounded.

  Abstraction: a mask denotes the set `abs m : Nat → Bool` given by its own `isSet`.
  `Conn` needs the representation invariant `RInv` (runs sorted, `lo ≤ hi`, separated by a gap
  of at least one bit); every operation is shown to preserve it, so it holds for every mask
  built from `make lo hi` (lo ≤ hi) by any operation sequence (`Conn.run_inv`).
  `Long` and `Short` need no invariant.
-/
import Pk.Model.Bits
import Pk.Proofs.Bits
import Pk.Proofs.BitsConn
import Pk.Proofs.BitsLong
import Pk.Proofs.BitsShort

namespace Pk.Props.C17
open Pk.Bits

/-! ### the integer-set specification -/

abbrev BSet := Nat → Bool

def specSet (s : BSet) (b : Nat) : BSet := fun x => x == b || s x
def specUnset (s : BSet) (b : Nat) : BSet := fun x => x != b && s x
def specFlip (s : BSet) (b : Nat) : BSet := fun x => if x = b then !s x else s x
def specOr (s t : BSet) : BSet := fun x => s x || t x
def specAnd (s t : BSet) : BSet := fun x => s x && t x
def specXor (s t : BSet) : BSet := fun x => s x != t x
def specSub (s t : BSet) : BSet := fun x => s x && !t x
/-- insert a bit at position `bit`, shifting higher bits up -/
def specInject (s : BSet) (bit : Nat) (v : Bool) : BSet :=
  fun x => if x < bit then s x else if x = bit then v else s (x - 1)
/-- remove the bit at position `bit`, shifting higher bits down -/
def specExtract (s : BSet) (bit : Nat) : BSet :=
  fun x => if x < bit then s x else s (x + 1)

/-! ### ConnectedBitmask -/
namespace Conn
open Pk.Bits.Conn

/-- representation invariant: sorted, non-empty runs, separated by at least one clear bit -/
def RInv : Pk.Bits.Conn → Prop
  | [] => True
  | [e] => e.lo ≤ e.hi
  | e :: e2 :: es => e.lo ≤ e.hi ∧ e.hi + 1 < e2.lo ∧ RInv (e2 :: es)

theorem make_inv (lo hi : Nat) (h : lo ≤ hi) : RInv (make lo hi) := by
  have tie : ∀ c, RInv c ↔ Pk.Proofs.Bits.Conn.RInv c :=
    Pk.Proofs.Bits.Conn.rinv_unique RInv trivial (fun _ => Iff.rfl) (fun _ _ _ => Iff.rfl)
  rw [tie] at *
  exact Pk.Proofs.Bits.Conn.make_inv lo hi h
theorem make_abs (lo hi x : Nat) : (make lo hi).isSet x = (decide (lo ≤ x) && decide (x ≤ hi)) := by
  exact Pk.Proofs.Bits.Conn.make_isSet lo hi x

theorem set_abs (c : Pk.Bits.Conn) (b : Nat) (h : RInv c) : (c.set b).isSet = specSet c.isSet b := by
  have tie : ∀ c, RInv c ↔ Pk.Proofs.Bits.Conn.RInv c :=
    Pk.Proofs.Bits.Conn.rinv_unique RInv trivial (fun _ => Iff.rfl) (fun _ _ _ => Iff.rfl)
  rw [tie] at *
  funext x; simp only [specSet]; exact Pk.Proofs.Bits.Conn.set_isSet c b h x
theorem set_inv (c : Pk.Bits.Conn) (b : Nat) (h : RInv c) : RInv (c.set b) := by
  have tie : ∀ c, RInv c ↔ Pk.Proofs.Bits.Conn.RInv c :=
    Pk.Proofs.Bits.Conn.rinv_unique RInv trivial (fun _ => Iff.rfl) (fun _ _ _ => Iff.rfl)
  rw [tie] at *
  exact (Pk.Proofs.Bits.Conn.set_inv_lb c b h).1
theorem unset_abs (c : Pk.Bits.Conn) (b : Nat) (h : RInv c) : (c.unset b).isSet = specUnset c.isSet b := by
  have tie : ∀ c, RInv c ↔ Pk.Proofs.Bits.Conn.RInv c :=
    Pk.Proofs.Bits.Conn.rinv_unique RInv trivial (fun _ => Iff.rfl) (fun _ _ _ => Iff.rfl)
  rw [tie] at *
  funext x; simp only [specUnset]; exact Pk.Proofs.Bits.Conn.unset_isSet c b h x
theorem unset_inv (c : Pk.Bits.Conn) (b : Nat) (h : RInv c) : RInv (c.unset b) := by
  have tie : ∀ c, RInv c ↔ Pk.Proofs.Bits.Conn.RInv c :=
    Pk.Proofs.Bits.Conn.rinv_unique RInv trivial (fun _ => Iff.rfl) (fun _ _ _ => Iff.rfl)
  rw [tie] at *
  exact (Pk.Proofs.Bits.Conn.unset_inv_lb c b h).1
theorem flip_abs (c : Pk.Bits.Conn) (b : Nat) (h : RInv c) : (c.flip b).isSet = specFlip c.isSet b := by
  have tie : ∀ c, RInv c ↔ Pk.Proofs.Bits.Conn.RInv c :=
    Pk.Proofs.Bits.Conn.rinv_unique RInv trivial (fun _ => Iff.rfl) (fun _ _ _ => Iff.rfl)
  rw [tie] at *
  funext x; simp only [specFlip]; exact Pk.Proofs.Bits.Conn.flip_isSet c b h x
theorem flip_inv (c : Pk.Bits.Conn) (b : Nat) (h : RInv c) : RInv (c.flip b) := by
  have tie : ∀ c, RInv c ↔ Pk.Proofs.Bits.Conn.RInv c :=
    Pk.Proofs.Bits.Conn.rinv_unique RInv trivial (fun _ => Iff.rfl) (fun _ _ _ => Iff.rfl)
  rw [tie] at *
  exact Pk.Proofs.Bits.Conn.flip_inv c b h

theorem or_abs (a b : Pk.Bits.Conn) (ha : RInv a) (hb : RInv b) : (Conn.or a b).isSet = specOr a.isSet b.isSet := by
  have tie : ∀ c, RInv c ↔ Pk.Proofs.Bits.Conn.RInv c :=
    Pk.Proofs.Bits.Conn.rinv_unique RInv trivial (fun _ => Iff.rfl) (fun _ _ _ => Iff.rfl)
  rw [tie] at *
  funext x; simp only [specOr]; exact Pk.Proofs.Bits.Conn.or_isSet a b ha hb x
theorem or_inv (a b : Pk.Bits.Conn) (ha : RInv a) (hb : RInv b) : RInv (Conn.or a b) := by
  have tie : ∀ c, RInv c ↔ Pk.Proofs.Bits.Conn.RInv c :=
    Pk.Proofs.Bits.Conn.rinv_unique RInv trivial (fun _ => Iff.rfl) (fun _ _ _ => Iff.rfl)
  rw [tie] at *
  exact Pk.Proofs.Bits.Conn.or_inv a b ha hb
theorem and_abs (a b : Pk.Bits.Conn) (ha : RInv a) (hb : RInv b) : (Conn.and a b).isSet = specAnd a.isSet b.isSet := by
  have tie : ∀ c, RInv c ↔ Pk.Proofs.Bits.Conn.RInv c :=
    Pk.Proofs.Bits.Conn.rinv_unique RInv trivial (fun _ => Iff.rfl) (fun _ _ _ => Iff.rfl)
  rw [tie] at *
  funext x; simp only [specAnd]; exact Pk.Proofs.Bits.Conn.and_isSet a b ha hb x
theorem and_inv (a b : Pk.Bits.Conn) (ha : RInv a) (hb : RInv b) : RInv (Conn.and a b) := by
  have tie : ∀ c, RInv c ↔ Pk.Proofs.Bits.Conn.RInv c :=
    Pk.Proofs.Bits.Conn.rinv_unique RInv trivial (fun _ => Iff.rfl) (fun _ _ _ => Iff.rfl)
  rw [tie] at *
  exact (Pk.Proofs.Bits.Conn.and_inv_lb a b ha hb).1
theorem xor_abs (a b : Pk.Bits.Conn) (ha : RInv a) (hb : RInv b) : (Conn.xor a b).isSet = specXor a.isSet b.isSet := by
  have tie : ∀ c, RInv c ↔ Pk.Proofs.Bits.Conn.RInv c :=
    Pk.Proofs.Bits.Conn.rinv_unique RInv trivial (fun _ => Iff.rfl) (fun _ _ _ => Iff.rfl)
  rw [tie] at *
  funext x; simp only [specXor]; exact Pk.Proofs.Bits.Conn.xor_isSet a b ha hb x
theorem xor_inv (a b : Pk.Bits.Conn) (ha : RInv a) (hb : RInv b) : RInv (Conn.xor a b) := by
  have tie : ∀ c, RInv c ↔ Pk.Proofs.Bits.Conn.RInv c :=
    Pk.Proofs.Bits.Conn.rinv_unique RInv trivial (fun _ => Iff.rfl) (fun _ _ _ => Iff.rfl)
  rw [tie] at *
  exact Pk.Proofs.Bits.Conn.xor_inv a b ha hb
theorem sub_abs (a b : Pk.Bits.Conn) (ha : RInv a) (hb : RInv b) : (Conn.sub a b).isSet = specSub a.isSet b.isSet := by
  have tie : ∀ c, RInv c ↔ Pk.Proofs.Bits.Conn.RInv c :=
    Pk.Proofs.Bits.Conn.rinv_unique RInv trivial (fun _ => Iff.rfl) (fun _ _ _ => Iff.rfl)
  rw [tie] at *
  funext x; simp only [specSub]; exact Pk.Proofs.Bits.Conn.sub_isSet a b ha hb x
theorem sub_inv (a b : Pk.Bits.Conn) (ha : RInv a) (hb : RInv b) : RInv (Conn.sub a b) := by
  have tie : ∀ c, RInv c ↔ Pk.Proofs.Bits.Conn.RInv c :=
    Pk.Proofs.Bits.Conn.rinv_unique RInv trivial (fun _ => Iff.rfl) (fun _ _ _ => Iff.rfl)
  rw [tie] at *
  exact (Pk.Proofs.Bits.Conn.sub_inv_lb a b ha hb).1

theorem inject_abs (c : Pk.Bits.Conn) (bit : Nat) (v : Bool) (h : RInv c) :
    (c.inject bit v).isSet = specInject c.isSet bit v := by
  have tie : ∀ c, RInv c ↔ Pk.Proofs.Bits.Conn.RInv c :=
    Pk.Proofs.Bits.Conn.rinv_unique RInv trivial (fun _ => Iff.rfl) (fun _ _ _ => Iff.rfl)
  rw [tie] at *
  funext x; simp only [specInject]; exact Pk.Proofs.Bits.Conn.inject_isSet c bit v h x
theorem inject_inv (c : Pk.Bits.Conn) (bit : Nat) (v : Bool) (h : RInv c) : RInv (c.inject bit v) := by
  have tie : ∀ c, RInv c ↔ Pk.Proofs.Bits.Conn.RInv c :=
    Pk.Proofs.Bits.Conn.rinv_unique RInv trivial (fun _ => Iff.rfl) (fun _ _ _ => Iff.rfl)
  rw [tie] at *
  exact Pk.Proofs.Bits.Conn.inject_inv c bit v h
theorem extract_abs (c : Pk.Bits.Conn) (bit : Nat) (h : RInv c) :
    (c.extract bit).1.isSet = specExtract c.isSet bit := by
  have tie : ∀ c, RInv c ↔ Pk.Proofs.Bits.Conn.RInv c :=
    Pk.Proofs.Bits.Conn.rinv_unique RInv trivial (fun _ => Iff.rfl) (fun _ _ _ => Iff.rfl)
  rw [tie] at *
  funext x; simp only [specExtract]; exact (Pk.Proofs.Bits.Conn.extract_spec c bit h).2.1 x
theorem extract_ret (c : Pk.Bits.Conn) (bit : Nat) (h : RInv c) : (c.extract bit).2 = c.isSet bit := by
  have tie : ∀ c, RInv c ↔ Pk.Proofs.Bits.Conn.RInv c :=
    Pk.Proofs.Bits.Conn.rinv_unique RInv trivial (fun _ => Iff.rfl) (fun _ _ _ => Iff.rfl)
  rw [tie] at *
  exact (Pk.Proofs.Bits.Conn.extract_spec c bit h).2.2
theorem extract_inv (c : Pk.Bits.Conn) (bit : Nat) (h : RInv c) : RInv (c.extract bit).1 := by
  have tie : ∀ c, RInv c ↔ Pk.Proofs.Bits.Conn.RInv c :=
    Pk.Proofs.Bits.Conn.rinv_unique RInv trivial (fun _ => Iff.rfl) (fun _ _ _ => Iff.rfl)
  rw [tie] at *
  exact (Pk.Proofs.Bits.Conn.extract_spec c bit h).1

/-- `Equal` decides set equality (this is what fails when touching runs are left unmerged). -/
theorem equal_iff (a b : Pk.Bits.Conn) (ha : RInv a) (hb : RInv b) :
    Conn.equal a b = true ↔ a.isSet = b.isSet := by
  have tie : ∀ c, RInv c ↔ Pk.Proofs.Bits.Conn.RInv c :=
    Pk.Proofs.Bits.Conn.rinv_unique RInv trivial (fun _ => Iff.rfl) (fun _ _ _ => Iff.rfl)
  rw [tie] at *
  exact Pk.Proofs.Bits.Conn.equal_iff a b ha hb
theorem isZero_iff (c : Pk.Bits.Conn) (h : RInv c) : c.isZero = true ↔ ∀ x, c.isSet x = false := by
  have tie : ∀ c, RInv c ↔ Pk.Proofs.Bits.Conn.RInv c :=
    Pk.Proofs.Bits.Conn.rinv_unique RInv trivial (fun _ => Iff.rfl) (fun _ _ _ => Iff.rfl)
  rw [tie] at *
  exact Pk.Proofs.Bits.Conn.isZero_iff c h
/-- `Len` is one more than the largest member (0 for the empty set). -/
theorem len_sup (c : Pk.Bits.Conn) (h : RInv c) :
    (∀ x, c.len ≤ x → c.isSet x = false) ∧ (0 < c.len → c.isSet (c.len - 1) = true) := by
  have tie : ∀ c, RInv c ↔ Pk.Proofs.Bits.Conn.RInv c :=
    Pk.Proofs.Bits.Conn.rinv_unique RInv trivial (fun _ => Iff.rfl) (fun _ _ _ => Iff.rfl)
  rw [tie] at *
  exact Pk.Proofs.Bits.Conn.len_sup c h
/-- `OnesCount` is the cardinality of the denoted set. -/
theorem onesCount_card (c : Pk.Bits.Conn) (h : RInv c) :
    c.onesCount = (List.range c.len).countP c.isSet := by
  have tie : ∀ c, RInv c ↔ Pk.Proofs.Bits.Conn.RInv c :=
    Pk.Proofs.Bits.Conn.rinv_unique RInv trivial (fun _ => Iff.rfl) (fun _ _ _ => Iff.rfl)
  rw [tie] at *
  exact Pk.Proofs.Bits.Conn.onesCount_card c h

end Conn

/-! ### LongBitmask -/
namespace Long
open Pk.Bits.Long

theorem set_abs (l : Pk.Bits.Long) (b : Nat) : (l.set b).isSet = specSet l.isSet b := by
  funext x; simp [specSet, Pk.Proofs.Bits.Long.set_isSet]
theorem unset_abs (l : Pk.Bits.Long) (b : Nat) : (l.unset b).isSet = specUnset l.isSet b := by
  funext x; simp [specUnset, Pk.Proofs.Bits.Long.unset_isSet]
theorem flip_abs (l : Pk.Bits.Long) (b : Nat) : (l.flip b).isSet = specFlip l.isSet b := by
  funext x; simp [specFlip, Pk.Proofs.Bits.Long.flip_isSet]
theorem or_abs (a b : Pk.Bits.Long) : (Long.or a b).isSet = specOr a.isSet b.isSet := by
  funext x; simp [specOr, Pk.Proofs.Bits.Long.or_isSet]
theorem and_abs (a b : Pk.Bits.Long) : (Long.and a b).isSet = specAnd a.isSet b.isSet := by
  funext x; simp [specAnd, Pk.Proofs.Bits.Long.and_isSet]
theorem xor_abs (a b : Pk.Bits.Long) : (Long.xor a b).isSet = specXor a.isSet b.isSet := by
  funext x; simp [specXor, Pk.Proofs.Bits.Long.xor_isSet]
theorem sub_abs (a b : Pk.Bits.Long) : (Long.sub a b).isSet = specSub a.isSet b.isSet := by
  funext x; simp [specSub, Pk.Proofs.Bits.Long.sub_isSet]
theorem shrink_abs (l : Pk.Bits.Long) : l.shrink.isSet = l.isSet := by
  funext x; exact Pk.Proofs.Bits.Long.shrink_isSet l x
theorem inject_abs (l : Pk.Bits.Long) (bit : Nat) (v : Bool) :
    (l.inject bit v).isSet = specInject l.isSet bit v := by
  funext x; exact Pk.Proofs.Bits.Long.inject_isSet l bit v x
theorem equal_iff (a b : Pk.Bits.Long) : Long.equal a b = true ↔ a.isSet = b.isSet := by
  exact Pk.Proofs.Bits.Long.equal_iff a b
theorem isZero_iff (l : Pk.Bits.Long) : l.isZero = true ↔ ∀ x, l.isSet x = false := by
  exact Pk.Proofs.Bits.Long.isZero_iff l
theorem len_sup (l : Pk.Bits.Long) :
    (∀ x, l.len ≤ x → l.isSet x = false) ∧ (0 < l.len → l.isSet (l.len - 1) = true) := by
  exact Pk.Proofs.Bits.Long.len_sup l
theorem onesCount_card (l : Pk.Bits.Long) :
    l.onesCount = (List.range (64 * l.length)).countP l.isSet := by
  exact Pk.Proofs.Bits.Long.onesCount_card l
/-- `Next` returns the least member ≥ `bit`, and `none` exactly when there is none. -/
theorem next_least (l : Pk.Bits.Long) (bit : Nat) :
    (∀ n, l.next bit = some n → bit ≤ n ∧ l.isSet n = true ∧ ∀ y, bit ≤ y → y < n → l.isSet y = false) ∧
    (l.next bit = none → ∀ y, bit ≤ y → l.isSet y = false) := by
  exact Pk.Proofs.Bits.Long.next_least l bit

end Long

/-! ### ShortBitmask -/
namespace Short
open Pk.Bits.Short

theorem set_abs (s : Pk.Bits.Short) (b : Nat) : (s.set b).isSet = specSet s.isSet b := by
  funext x; simp only [specSet]; exact Pk.Proofs.Bits.Short.set_isSet s b x
theorem unset_abs (s : Pk.Bits.Short) (b : Nat) : (s.unset b).isSet = specUnset s.isSet b := by
  funext x; simp only [specUnset]; exact Pk.Proofs.Bits.Short.unset_isSet s b x
theorem flip_abs (s : Pk.Bits.Short) (b : Nat) : (s.flip b).isSet = specFlip s.isSet b := by
  funext x; simp only [specFlip]; exact Pk.Proofs.Bits.Short.flip_isSet s b x
theorem or_abs (a b : Pk.Bits.Short) : (Short.or a b).isSet = specOr a.isSet b.isSet := by
  funext x; simp only [specOr]; exact Pk.Proofs.Bits.Short.or_isSet a b x
theorem and_abs (a b : Pk.Bits.Short) : (Short.and a b).isSet = specAnd a.isSet b.isSet := by
  funext x; simp only [specAnd]; exact Pk.Proofs.Bits.Short.and_isSet a b x
theorem xor_abs (a b : Pk.Bits.Short) : (Short.xor a b).isSet = specXor a.isSet b.isSet := by
  funext x; simp only [specXor]; exact Pk.Proofs.Bits.Short.xor_isSet a b x
theorem sub_abs (a b : Pk.Bits.Short) : (Short.sub a b).isSet = specSub a.isSet b.isSet := by
  funext x; simp only [specSub]; exact Pk.Proofs.Bits.Short.sub_isSet a b x
theorem shrink_abs (s : Pk.Bits.Short) : s.shrink.isSet = s.isSet := by
  funext x; exact Pk.Proofs.Bits.Short.shrink_isSet s x
theorem inject_abs (s : Pk.Bits.Short) (bit : Nat) (v : Bool) :
    (s.inject bit v).isSet = specInject s.isSet bit v := by
  funext x; simp only [specInject]; exact Pk.Proofs.Bits.Short.inject_isSet s bit v x
theorem extract_abs (s : Pk.Bits.Short) (bit : Nat) :
    (s.extract bit).1.isSet = specExtract s.isSet bit := by
  funext x; simp only [specExtract]; exact Pk.Proofs.Bits.Short.extract_isSet s bit x
theorem extract_ret (s : Pk.Bits.Short) (bit : Nat) : (s.extract bit).2 = s.isSet bit := by
  exact Pk.Proofs.Bits.Short.extract_ret s bit
theorem equal_iff (a b : Pk.Bits.Short) : Short.equal a b = true ↔ a.isSet = b.isSet := by
  exact Pk.Proofs.Bits.Short.equal_iff a b
theorem isZero_iff (s : Pk.Bits.Short) : s.isZero = true ↔ ∀ x, s.isSet x = false := by
  exact Pk.Proofs.Bits.Short.isZero_iff s
theorem len_sup (s : Pk.Bits.Short) :
    (∀ x, s.len ≤ x → s.isSet x = false) ∧ (0 < s.len → s.isSet (s.len - 1) = true) := by
  exact Pk.Proofs.Bits.Short.len_sup s
theorem onesCount_card (s : Pk.Bits.Short) :
    s.onesCount = (List.range (64 * s.words.length)).countP s.isSet := by
  exact Pk.Proofs.Bits.Short.onesCount_card s

end Short

/-! ### every operation sequence: the three kinds refine the set machine and agree with each other -/

/-- operations of the register machine (registers are natural numbers; the three register files
    hold one mask of each kind per register and are driven by the same operation) -/
inductive Op where
  | mk (r lo hi : Nat)                 -- r := {lo..hi}   (lo ≤ hi is checked by `Op.ok`)
  | set (r b : Nat) | unset (r b : Nat) | flip (r b : Nat)
  | or (d r q : Nat) | and (d r q : Nat) | xor (d r q : Nat) | sub (d r q : Nat)   -- d := r op q
  | copy (d r : Nat)
  | inject (r b : Nat) (v : Bool)
  | extract (r b : Nat)

def Op.ok : Op → Prop
  | .mk _ lo hi => lo ≤ hi
  | _ => True

def upd {α} (f : Nat → α) (r : Nat) (v : α) : Nat → α := fun i => if i = r then v else f i

def stepSpec (f : Nat → BSet) : Op → (Nat → BSet)
  | .mk r lo hi => upd f r (fun x => decide (lo ≤ x) && decide (x ≤ hi))
  | .set r b => upd f r (specSet (f r) b)
  | .unset r b => upd f r (specUnset (f r) b)
  | .flip r b => upd f r (specFlip (f r) b)
  | .or d r q => upd f d (specOr (f r) (f q))
  | .and d r q => upd f d (specAnd (f r) (f q))
  | .xor d r q => upd f d (specXor (f r) (f q))
  | .sub d r q => upd f d (specSub (f r) (f q))
  | .copy d r => upd f d (f r)
  | .inject r b v => upd f r (specInject (f r) b v)
  | .extract r b => upd f r (specExtract (f r) b)

def stepConn (f : Nat → Pk.Bits.Conn) : Op → (Nat → Pk.Bits.Conn)
  | .mk r lo hi => upd f r (Pk.Bits.Conn.make lo hi)
  | .set r b => upd f r ((f r).set b)
  | .unset r b => upd f r ((f r).unset b)
  | .flip r b => upd f r ((f r).flip b)
  | .or d r q => upd f d (Pk.Bits.Conn.or (f r) (f q))
  | .and d r q => upd f d (Pk.Bits.Conn.and (f r) (f q))
  | .xor d r q => upd f d (Pk.Bits.Conn.xor (f r) (f q))
  | .sub d r q => upd f d (Pk.Bits.Conn.sub (f r) (f q))
  | .copy d r => upd f d (f r).copy
  | .inject r b v => upd f r ((f r).inject b v)
  | .extract r b => upd f r ((f r).extract b).1

/-- mk for the word-based kinds: set every bit of lo..hi -/
def longRange (lo hi : Nat) : Pk.Bits.Long := (List.range (hi + 1 - lo)).foldl (fun l i => l.set (lo + i)) []
def shortRange (lo hi : Nat) : Pk.Bits.Short :=
  (List.range (hi + 1 - lo)).foldl (fun s i => s.set (lo + i)) (.last 0#64)

def stepLong (f : Nat → Pk.Bits.Long) : Op → (Nat → Pk.Bits.Long)
  | .mk r lo hi => upd f r (longRange lo hi)
  | .set r b => upd f r ((f r).set b)
  | .unset r b => upd f r ((f r).unset b)
  | .flip r b => upd f r ((f r).flip b)
  | .or d r q => upd f d (Pk.Bits.Long.or (f r) (f q))
  | .and d r q => upd f d (Pk.Bits.Long.and (f r) (f q))
  | .xor d r q => upd f d (Pk.Bits.Long.xor (f r) (f q))
  | .sub d r q => upd f d (Pk.Bits.Long.sub (f r) (f q))
  | .copy d r => upd f d (f r)
  | .inject r b v => upd f r ((f r).inject b v)
  | .extract r _ => upd f r (f r)      -- LongBitmask has no Extract; see `run_agrees`

def stepShort (f : Nat → Pk.Bits.Short) : Op → (Nat → Pk.Bits.Short)
  | .mk r lo hi => upd f r (shortRange lo hi)
  | .set r b => upd f r ((f r).set b)
  | .unset r b => upd f r ((f r).unset b)
  | .flip r b => upd f r ((f r).flip b)
  | .or d r q => upd f d (Pk.Bits.Short.or (f r) (f q))
  | .and d r q => upd f d (Pk.Bits.Short.and (f r) (f q))
  | .xor d r q => upd f d (Pk.Bits.Short.xor (f r) (f q))
  | .sub d r q => upd f d (Pk.Bits.Short.sub (f r) (f q))
  | .copy d r => upd f d (f r).copy
  | .inject r b v => upd f r ((f r).inject b v)
  | .extract r b => upd f r ((f r).extract b).1

def hasExtract : Op → Bool
  | .extract _ _ => true
  | _ => false

/-- every reachable ConnectedBitmask satisfies the representation invariant -/
theorem Conn.run_inv (ops : List Op) (hok : ∀ o ∈ ops, o.ok) (r : Nat) :
    Conn.RInv (ops.foldl stepConn (fun _ => []) r) := by
  have step : ∀ (f : Nat → Pk.Bits.Conn) (o : Op), o.ok → (∀ r, Conn.RInv (f r)) →
      ∀ r, Conn.RInv (stepConn f o r) := by
    intro f o ho hf r
    cases o <;> simp only [stepConn, upd] <;> split <;> try exact hf r
    · exact Conn.make_inv _ _ ho
    · exact Conn.set_inv _ _ (hf _)
    · exact Conn.unset_inv _ _ (hf _)
    · exact Conn.flip_inv _ _ (hf _)
    · exact Conn.or_inv _ _ (hf _) (hf _)
    · exact Conn.and_inv _ _ (hf _) (hf _)
    · exact Conn.xor_inv _ _ (hf _) (hf _)
    · exact Conn.sub_inv _ _ (hf _) (hf _)
    · exact hf _
    · exact Conn.inject_inv _ _ _ (hf _)
    · exact Conn.extract_inv _ _ (hf _)
  have key : ∀ (ops : List Op) (f : Nat → Pk.Bits.Conn), (∀ o ∈ ops, o.ok) → (∀ r, Conn.RInv (f r)) →
      ∀ r, Conn.RInv (ops.foldl stepConn f r) := by
    intro ops
    induction ops with
    | nil => intro f _ hf r; exact hf r
    | cons o ops ih =>
      intro f hok hf r
      rw [List.foldl_cons]
      exact ih _ (fun o' ho' => hok o' (List.mem_cons_of_mem _ ho'))
        (step f o (hok o (List.mem_cons_self ..)) hf) r
  exact key ops (fun _ => []) hok (fun _ => by simp [Conn.RInv]) r

/-- For every operation sequence and every register, the ConnectedBitmask machine, started from
    empty masks, denotes exactly what the integer-set machine holds. -/
theorem run_conn_refines (ops : List Op) (hok : ∀ o ∈ ops, o.ok) (r : Nat) :
    (ops.foldl stepConn (fun _ => []) r).isSet = ops.foldl stepSpec (fun _ _ => false) r := by
  have stepInv : ∀ (f : Nat → Pk.Bits.Conn) (o : Op), o.ok → (∀ r, Conn.RInv (f r)) →
      ∀ r, Conn.RInv (stepConn f o r) := by
    intro f o ho hf r
    cases o <;> simp only [stepConn, upd] <;> split <;> try exact hf r
    · exact Conn.make_inv _ _ ho
    · exact Conn.set_inv _ _ (hf _)
    · exact Conn.unset_inv _ _ (hf _)
    · exact Conn.flip_inv _ _ (hf _)
    · exact Conn.or_inv _ _ (hf _) (hf _)
    · exact Conn.and_inv _ _ (hf _) (hf _)
    · exact Conn.xor_inv _ _ (hf _) (hf _)
    · exact Conn.sub_inv _ _ (hf _) (hf _)
    · exact hf _
    · exact Conn.inject_inv _ _ _ (hf _)
    · exact Conn.extract_inv _ _ (hf _)
  have step : ∀ (f : Nat → Pk.Bits.Conn) (g : Nat → BSet) (o : Op), o.ok → (∀ r, Conn.RInv (f r)) →
      (∀ r, (f r).isSet = g r) → ∀ r, (stepConn f o r).isSet = stepSpec g o r := by
    intro f g o ho hf hg r
    cases o <;> simp only [stepConn, stepSpec, upd] <;> split <;> try exact hg r
    · funext x; exact Conn.make_abs _ _ x
    · rw [← hg]; exact Conn.set_abs _ _ (hf _)
    · rw [← hg]; exact Conn.unset_abs _ _ (hf _)
    · rw [← hg]; exact Conn.flip_abs _ _ (hf _)
    · rw [← hg, ← hg]; exact Conn.or_abs _ _ (hf _) (hf _)
    · rw [← hg, ← hg]; exact Conn.and_abs _ _ (hf _) (hf _)
    · rw [← hg, ← hg]; exact Conn.xor_abs _ _ (hf _) (hf _)
    · rw [← hg, ← hg]; exact Conn.sub_abs _ _ (hf _) (hf _)
    · exact hg _
    · rw [← hg]; exact Conn.inject_abs _ _ _ (hf _)
    · rw [← hg]; exact Conn.extract_abs _ _ (hf _)
  have key : ∀ (ops : List Op) (f : Nat → Pk.Bits.Conn) (g : Nat → BSet), (∀ o ∈ ops, o.ok) →
      (∀ r, Conn.RInv (f r)) → (∀ r, (f r).isSet = g r) →
      ∀ r, (ops.foldl stepConn f r).isSet = ops.foldl stepSpec g r := by
    intro ops
    induction ops with
    | nil => intro f g _ _ hg r; exact hg r
    | cons o ops ih =>
      intro f g hok hf hg r
      rw [List.foldl_cons, List.foldl_cons]
      have ho := hok o (List.mem_cons_self ..)
      exact ih _ _ (fun o' ho' => hok o' (List.mem_cons_of_mem _ ho'))
        (stepInv f o ho hf) (step f g o ho hf hg) r
  exact key ops (fun _ => []) _ hok (fun _ => by simp [Conn.RInv]) (fun _ => by funext x; rfl) r

theorem run_short_refines (ops : List Op) (hok : ∀ o ∈ ops, o.ok) (r : Nat) :
    (ops.foldl stepShort (fun _ => .last 0#64) r).isSet = ops.foldl stepSpec (fun _ _ => false) r := by
  have hrange : ∀ lo hi, (shortRange lo hi).isSet = fun x => decide (lo ≤ x) && decide (x ≤ hi) := by
    intro lo hi
    funext x
    have := Pk.Proofs.Bits.foldl_set_range Pk.Bits.Short.set Pk.Bits.Short.isSet
      Pk.Proofs.Bits.Short.set_isSet (.last 0#64) lo (hi + 1 - lo) x
    rw [shortRange, this]
    have e : decide (x < lo + (hi + 1 - lo)) = (decide (lo ≤ x) && decide (x ≤ hi) || !decide (lo ≤ x)) := by
      by_cases h1 : lo ≤ x <;> by_cases h2 : x ≤ hi <;> simp [h1, h2] <;> omega
    have z : Pk.Bits.Short.isSet (.last 0#64) x = false := by simp [Pk.Bits.Short.isSet]
    rw [e, z]; cases decide (lo ≤ x) <;> simp
  have step : ∀ (f : Nat → Pk.Bits.Short) (g : Nat → BSet) (o : Op),
      (∀ r, (f r).isSet = g r) → ∀ r, (stepShort f o r).isSet = stepSpec g o r := by
    intro f g o hg r
    cases o <;> simp only [stepShort, stepSpec, upd] <;> split <;> try exact hg r
    · exact hrange _ _
    · rw [← hg]; exact Short.set_abs _ _
    · rw [← hg]; exact Short.unset_abs _ _
    · rw [← hg]; exact Short.flip_abs _ _
    · rw [← hg, ← hg]; exact Short.or_abs _ _
    · rw [← hg, ← hg]; exact Short.and_abs _ _
    · rw [← hg, ← hg]; exact Short.xor_abs _ _
    · rw [← hg, ← hg]; exact Short.sub_abs _ _
    · exact hg _
    · rw [← hg]; exact Short.inject_abs _ _ _
    · rw [← hg]; exact Short.extract_abs _ _
  have key : ∀ (ops : List Op) (f : Nat → Pk.Bits.Short) (g : Nat → BSet),
      (∀ r, (f r).isSet = g r) → ∀ r, (ops.foldl stepShort f r).isSet = ops.foldl stepSpec g r := by
    intro ops
    induction ops with
    | nil => intro f g hg r; exact hg r
    | cons o ops ih =>
      intro f g hg r
      rw [List.foldl_cons, List.foldl_cons]
      exact ih _ _ (step f g o hg) r
  have _ := hok
  exact key ops _ _ (fun _ => by funext x; simp [Pk.Bits.Short.isSet]) r

/-- LongBitmask offers no Extract, so its run is compared on extract-free sequences. -/
theorem run_long_refines (ops : List Op) (hok : ∀ o ∈ ops, o.ok) (hne : ∀ o ∈ ops, hasExtract o = false)
    (r : Nat) :
    (ops.foldl stepLong (fun _ => []) r).isSet = ops.foldl stepSpec (fun _ _ => false) r := by
  have hrange : ∀ lo hi, (longRange lo hi).isSet = fun x => decide (lo ≤ x) && decide (x ≤ hi) := by
    intro lo hi
    funext x
    have := Pk.Proofs.Bits.foldl_set_range Pk.Bits.Long.set Pk.Bits.Long.isSet
      Pk.Proofs.Bits.Long.set_isSet [] lo (hi + 1 - lo) x
    rw [longRange, this]
    have e : decide (x < lo + (hi + 1 - lo)) = (decide (lo ≤ x) && decide (x ≤ hi) || !decide (lo ≤ x)) := by
      by_cases h1 : lo ≤ x <;> by_cases h2 : x ≤ hi <;> simp [h1, h2] <;> omega
    have z : Pk.Bits.Long.isSet [] x = false := by simp [Pk.Bits.Long.isSet]
    rw [e, z]; cases decide (lo ≤ x) <;> simp
  have step : ∀ (f : Nat → Pk.Bits.Long) (g : Nat → BSet) (o : Op), hasExtract o = false →
      (∀ r, (f r).isSet = g r) → ∀ r, (stepLong f o r).isSet = stepSpec g o r := by
    intro f g o hx hg r
    cases o <;> simp only [stepLong, stepSpec, upd] <;> split <;> try exact hg r
    · exact hrange _ _
    · rw [← hg]; exact Long.set_abs _ _
    · rw [← hg]; exact Long.unset_abs _ _
    · rw [← hg]; exact Long.flip_abs _ _
    · rw [← hg, ← hg]; exact Long.or_abs _ _
    · rw [← hg, ← hg]; exact Long.and_abs _ _
    · rw [← hg, ← hg]; exact Long.xor_abs _ _
    · rw [← hg, ← hg]; exact Long.sub_abs _ _
    · exact hg _
    · rw [← hg]; exact Long.inject_abs _ _ _
    · simp [hasExtract] at hx
  have key : ∀ (ops : List Op) (f : Nat → Pk.Bits.Long) (g : Nat → BSet),
      (∀ o ∈ ops, hasExtract o = false) →
      (∀ r, (f r).isSet = g r) → ∀ r, (ops.foldl stepLong f r).isSet = ops.foldl stepSpec g r := by
    intro ops
    induction ops with
    | nil => intro f g _ hg r; exact hg r
    | cons o ops ih =>
      intro f g hne hg r
      rw [List.foldl_cons, List.foldl_cons]
      exact ih _ _ (fun o' ho' => hne o' (List.mem_cons_of_mem _ ho'))
        (step f g o (hne o (List.mem_cons_self ..)) hg) r
  have _ := hok
  exact key ops _ _ hne (fun _ => by funext x; simp [Pk.Bits.Long.isSet]) r

/-- the three representations agree with each other after every operation sequence -/
theorem run_agrees (ops : List Op) (hok : ∀ o ∈ ops, o.ok) (hne : ∀ o ∈ ops, hasExtract o = false) (r : Nat) :
    (ops.foldl stepConn (fun _ => []) r).isSet = (ops.foldl stepLong (fun _ => []) r).isSet ∧
    (ops.foldl stepConn (fun _ => []) r).isSet = (ops.foldl stepShort (fun _ => .last 0#64) r).isSet := by
  rw [run_conn_refines ops hok r, run_long_refines ops hok hne r, run_short_refines ops hok r]
  exact ⟨rfl, rfl⟩

/-! ### non-vacuity: the hypotheses are satisfiable by concrete non-trivial states -/
example : Conn.RInv [⟨0, 3⟩, ⟨5, 5⟩, ⟨64, 127⟩] := by simp [Conn.RInv]
example : (∀ o ∈ [Op.mk 0 0 3, Op.mk 1 4 5, Op.xor 2 0 1, Op.extract 2 2], o.ok) := by
  intro o ho; simp at ho; rcases ho with h | h | h | h <;> subst h <;> simp [Op.ok]
/-- the F1 witness, now merged by `XorCopy` -/
example : Pk.Bits.Conn.xor [⟨0, 3⟩] [⟨4, 5⟩] = [⟨0, 5⟩] := by
  simp [Pk.Bits.Conn.xor, Pk.Bits.Conn.xorGo, Pk.Bits.Conn.mergeTouching]

end Pk.Props.C17
