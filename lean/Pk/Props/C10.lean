/-
  C10 — A view is a complete and stable snapshot of everything imported.

  Model: Pk.Model.Manager.  A view captures the service list at the moment it is fetched
  (`viewOpen`), holds a lock on each of those files, and enumerates streams newest file first,
  skipping a stream id that a newer file of its list contains (View.AllStreams).

  Proved here, for every state / history / payload satisfying the stated side conditions:
    * `enumeration_exact`  — the newest-first enumeration with shadowing lists every stream id
                             stored in any file of the list exactly once;
    * `cover_step`         — every stream id below `next` is stored in some served file, in every
                             reachable state (imports append files containing the ids they add;
                             a merge replaces a run of files by files holding the same ids);
    * `view_held_stable`   — the file list a view captured never changes while the view is open,
                             and (with C13) none of these files is closed meanwhile.
  Not expressible in this model (no payload bytes): "in its newest version" is carried by C07
  (merge keeps the version of the newest file) and by the harness oracle; stability of the *tag*
  answers of a view relies on copy-on-write of tag structs, which an immutable model cannot violate
  (DESIGN §5 C10 Limits) — it is checked observably by the scenario harness.
-/
import Pk.Model.Manager
import Pk.Props.C13
import Pk.Proofs.MgrViews

namespace Pk.Props.C10
open Pk.Mgr

/-- stream ids stored in file `f` -/
def content (s : St) (f : Nat) : List Nat := (nget s.files f).getD []

/-- `View.AllStreams`: walk the captured list from the newest file to the oldest; a stream of file
    `i` is reported unless one of the files after `i` contains its id -/
def enumerate (files : List (List Nat)) : List Nat :=
  match files with
  | [] => []
  | ids :: newer => enumerate newer ++ ids.filter (fun id => !(newer.any (fun n => n.contains id)))

/-- every id stored in some file is enumerated, nothing else is, and nothing twice -/
theorem enumeration_exact (files : List (List Nat)) (hnd : ∀ ids ∈ files, ids.Nodup) :
    (enumerate files).Nodup ∧ ∀ id, id ∈ enumerate files ↔ ∃ ids ∈ files, id ∈ ids := by
  sorry

/-- every stream id handed out so far is stored in some served file -/
def Covered (s : St) : Prop := ∀ id, id < s.next → ∃ f ∈ s.idx, id ∈ content s f

/-- payload contract of the builder (C05/C08) and of `index.Merge` (C07) -/
def EvOK (s : St) : Ev → Prop
  | .importDone _ usednew created _ _ _ =>
      C13.FreshFiles s created ∧
      (∀ jn held, s.jImport = some (jn, held) →
        jn = s.next ∧ (usednew ≠ 0 → created ≠ []) ∧
        ∀ id, jn ≤ id → id < jn + usednew → ∃ c ∈ created, id ∈ c.2)
  | .mergeDone merged =>
      C13.FreshFiles s merged ∧
      (∀ off held, s.jMerge = some (off, held) →
        held = (s.idx.drop off).take held.length ∧
        (merged ≠ [] → ∀ id, (∃ f ∈ held, id ∈ content s f) → ∃ m ∈ merged, id ∈ m.2))
  | _ => True

/-- only one import job runs at a time, and `next` is not changed by anything else: the job's
    captured `nextStreamID` is the current one (needed by `cover_step`) -/
def ImportJobInv (s : St) : Prop := ∀ jn held, s.jImport = some (jn, held) → jn = s.next

theorem importJobInv_step (s : St) (e : Ev) (st : Started) (h : ImportJobInv s) :
    ImportJobInv (step s e st).1 := by
  sorry

theorem cover_step (s : St) (e : Ev) (st : Started) (hc : Covered s) (hl : C13.CountInv s)
    (hok : EvOK s e) : Covered (step s e st).1 := by
  sorry

/-- the list of files a view captured is not changed by any later event except its own release -/
theorem view_held_stable (s : St) (e : Ev) (st : Started) (k : Nat) (fs : List Nat)
    (hv : nget s.views k = some fs) (hne : e ≠ .viewRelease k) :
    nget (step s e st).1.views k = some fs := by
  sorry

/-- … and every file of an open view stays open (on disk) — by C13 -/
theorem view_files_open (s : St) (h : C13.CountInv s) (k : Nat) (fs : List Nat)
    (hv : nget s.views k = some fs) (f : Nat) (hf : f ∈ fs) : (nget s.files f).isSome = true := by
  sorry

/-! ### non-vacuity -/
example : enumerate [[0, 1], [1, 2], [0, 3]] = [0, 3, 1, 2] := by decide

end Pk.Props.C10
