/-
  C10 — A view is a complete and stable snapshot of everything imported.

  Model: Pk.Model.Manager.  A view captures the service list at the moment it is fetched
  (`viewOpen`), holds a lock on each of those files, and enumerates streams newest file first,
  skipping a stream id that a newer file of its list contains (View.AllStreams).

  Proved here, for every state / history / payload satisfying the stated side conditions:
    * `enumeration_exact`  — the newest-first enumeration with shadowing lists every stream id
                             stored in any file of the list exactly once;
    * `cover_step`         — every stream id below `next` is stored in some served file, in every
                             reachable state (imports append files containing the ids they add;
                             a merge replaces a run of files by files holding the same ids);
    * `view_held_stable`   — the file list a view captured never changes while the view is open,
                             and (with C13) none of these files is closed meanwhile.
  History level with ghost versions: Pk/Props/C10Reach.lean (`fresh_view_newest_run`: every id is served in its
  CURRENT version in every reached state; `held_view_stable_run`: a held view keeps list, open files, serving
  file and version for every id; `view_complete_at_open_run`), under the payload contracts `ImportStoresChanged`
  and `MergeKeepsVersions` (= C07's `merge_view_eq'` at the level of versions).
  Not expressible in this model (no payload bytes): the bytes themselves — carried by C07
  (merge keeps the version of the newest file) and by the harness oracle; stability of the *tag*
  answers of a view relies on copy-on-write of tag structs, which an immutable model cannot violate
  (DESIGN §5 C10 Limits) — it is checked observably by the scenario harness.
-/
import Pk.Model.Manager
import Pk.Props.C13
import Pk.Proofs.MgrViews
import Pk.Proofs.MgrViewsCover

namespace Pk.Props.C10
open Pk.Mgr Pk.Proofs.MgrViews

/-- stream ids stored in file `f` -/
def content (s : St) (f : Nat) : List Nat := (nget s.files f).getD []

/-- `View.AllStreams`: walk the captured list from the newest file to the oldest; a stream of file
    `i` is reported unless one of the files after `i` contains its id -/
def enumerate (files : List (List Nat)) : List Nat :=
  match files with
  | [] => []
  | ids :: newer => enumerate newer ++ ids.filter (fun id => !(newer.any (fun n => n.contains id)))

/-- every id stored in some file is enumerated, nothing else is, and nothing twice -/
theorem enumeration_exact (files : List (List Nat)) (hnd : ∀ ids ∈ files, ids.Nodup) :
    (enumerate files).Nodup ∧ ∀ id, id ∈ enumerate files ↔ ∃ ids ∈ files, id ∈ ids := by
  induction files with
  | nil => simp [enumerate]
  | cons ids newer ih =>
    obtain ⟨ihn, ihm⟩ := ih (fun x hx => hnd x (List.mem_cons_of_mem _ hx))
    have hids : ids.Nodup := hnd ids List.mem_cons_self
    unfold enumerate
    constructor
    · rw [List.nodup_append]
      refine ⟨ihn, hids.filter _, ?_⟩
      intro a ha b hb hab
      subst hab
      obtain ⟨x, hx, hax⟩ := (ihm a).mp ha
      simp only [List.mem_filter, Bool.not_eq_eq_eq_not, Bool.not_true, List.any_eq_false,
        List.contains_iff_mem] at hb
      exact hb.2 x hx hax
    · intro id
      simp only [List.mem_append, List.mem_filter, ihm, List.mem_cons, Bool.not_eq_eq_eq_not,
        Bool.not_true, List.any_eq_false, List.contains_iff_mem]
      constructor
      · rintro (⟨x, hx, hix⟩ | ⟨hi, _⟩)
        · exact ⟨x, Or.inr hx, hix⟩
        · exact ⟨ids, Or.inl rfl, hi⟩
      · rintro ⟨x, hx | hx, hix⟩
        · subst hx
          by_cases h : ∃ y ∈ newer, id ∈ y
          · exact Or.inl h
          · exact Or.inr ⟨hix, fun y hy hiy => h ⟨y, hy, hiy⟩⟩
        · exact Or.inl ⟨x, hx, hix⟩

/-- every stream id handed out so far is stored in some served file -/
def Covered (s : St) : Prop := ∀ id, id < s.next → ∃ f ∈ s.idx, id ∈ content s f

/-- payload contract of the builder (C05/C08) and of `index.Merge` (C07) -/
def EvOK (s : St) : Ev → Prop
  | .importDone _ usednew created _ _ _ =>
      C13.FreshFiles s created ∧
      (∀ jn held, s.jImport = some (jn, held) →
        jn = s.next ∧ (usednew ≠ 0 → created ≠ []) ∧
        ∀ id, jn ≤ id → id < jn + usednew → ∃ c ∈ created, id ∈ c.2)
  | .mergeDone merged =>
      C13.FreshFiles s merged ∧
      (∀ off held, s.jMerge = some (off, held) →
        held = (s.idx.drop off).take held.length ∧
        (merged ≠ [] → ∀ id, (∃ f ∈ held, id ∈ content s f) → ∃ m ∈ merged, id ∈ m.2))
  | _ => True

/-- only one import job runs at a time, and `next` is not changed by anything else: the job's
    captured `nextStreamID` is the current one (needed by `cover_step`) -/
def ImportJobInv (s : St) : Prop := ∀ jn held, s.jImport = some (jn, held) → jn = s.next

theorem importJobInv_step (s : St) (e : Ev) (st : Started) (h : ImportJobInv s) :
    ImportJobInv (step s e st).1 :=
  jinv_step s e st h

theorem cover_step (s : St) (e : Ev) (st : Started) (hc : Covered s) (hl : C13.CountInv s)
    (hok : EvOK s e) : Covered (step s e st).1 := by
  have hc' : Cov s := hc
  show Cov (step s e st).1
  cases e with
  | importDone a b c d e' f =>
    refine step_importDone s st a b c d e' f Cov hc' (fun jn held fin hj hf => cov_frame hf ?_)
    obtain ⟨hfr, hjob⟩ := hok
    obtain ⟨hjn, _, hnew⟩ := hjob jn held hj
    exact cov_importBase s jn held b c _ _ _ hc' (holds_jImport hl hj) hfr.1
      (fun o ho => (hfr.2 o ho).2) hjn hnew
  | tagDone a b =>
    exact step_tagDone s st a b Cov (fun s' hf => cov_frame hf hc')
      (fun jn snap held mid hj hf => cov_frame_release held hf hc' (holds_jTag hl hj).lt)
  | mergeDone m =>
    refine step_mergeDone s st m Cov hc' (fun off held mid hj hf => ?_)
    obtain ⟨hfr, hjob⟩ := hok
    obtain ⟨hheld, hids⟩ := hjob off held hj
    obtain ⟨h1, h2⟩ := cov_mergeBase s off held m hc' (holds_jMerge hl hj) hfr.1 hfr.2 hheld hids
    exact cov_frame_release held hf h1 h2.lt
  | convertDone =>
    exact step_convertDone s st Cov (fun s' hf => cov_frame hf hc')
      (fun sets held mid hj hf => cov_frame_release held hf hc' (holds_jConv hl hj).lt)
  | viewRelease k =>
    simp -zeta only [step]
    split
    · exact hc'
    · rename_i fs hv
      exact cov_release fs (m := { s with views := ndel s.views k }) hc' (holds_view hl hv).lt
  | _ =>
    exact cov_frame (frame_step_other s _ st (by simp) (by simp) (by simp) (by simp) (by simp)) hc'

/-- the list of files a view captured is not changed by any later event except its own release -/
theorem view_held_stable (s : St) (e : Ev) (st : Started) (k : Nat) (fs : List Nat)
    (hv : nget s.views k = some fs) (hne : e ≠ .viewRelease k) :
    nget (step s e st).1.views k = some fs :=
  views_step s e st k fs hv hne

/-- … and every file of an open view stays open (on disk) — by C13 -/
theorem view_files_open (s : St) (h : C13.CountInv s) (k : Nat) (fs : List Nat)
    (hv : nget s.views k = some fs) (f : Nat) (hf : f ∈ fs) : (nget s.files f).isSome = true :=
  Pk.Proofs.MgrViews.view_files_open h hv hf

/-! ### non-vacuity -/
example : enumerate [[0, 1], [1, 2], [0, 3]] = [0, 3, 1, 2] := by decide

end Pk.Props.C10
