/-
  C06Reach — "decided ⇒ correct" (C06) over whole histories: the theorems.

  The contracts (`TruthStep`, `ResultOK`, `ImportAddsNew`, `EvFeatOK`, `JobTextOK`), the ghost (`ghostNext`), the
  state invariants (`GenInv`, `TagFeatInv`) and the job invariant (`JobInv`) are defined, with a comment on every
  clause, in Pk/Props/C06ReachSpec.lean; the lemmas are in Pk/Proofs/MgrTruth*.lean.

   * `decided_correct_step` — one event: all invariants (`Good`: `Reach`, acyclic tag graph, `GenInv`,
     `TagFeatInv`, `C06.Inv`, the ghost invariant `JobInv`) are preserved by every event that satisfies `StepOK`
     (= `PayloadOK`, `EvFeatOK`, `ImportAddsNew`, `TruthStep`, `ResultOK`, `JobTextOK`);
   * `decided_correct_run`  — every history from the initial state: `C06.Inv` holds in every state reached;
   * `decided_correct_example` — non-vacuity: a concrete history (add a tag, import a capture that adds a
     stream, deliver the tagging completion) with a concrete truth function satisfies all hypotheses;
   * `aba_decided_correct` — the delete/re-create trace that the first version had to exclude is safe now;
   * `added_hypotheses_needed` — formal counterexamples for `ImportAddsNew`, `EvFeatOK`, `JobTextOK`.
-/
import Pk.Props.C06ReachSpec
import Pk.Proofs.MgrTruthEvF
import Pk.Proofs.MgrTruthEvG
import Pk.Proofs.MgrTruthExample
import Pk.Proofs.MgrTruthCex
import Pk.Proofs.MgrTruthCex2
import Pk.Proofs.MgrTruthCex3
import Pk.Proofs.MgrTruthCex4

namespace Pk.Props.C06Reach
open Pk.Mgr Pk.Props.MgrReach Pk.Proofs.MgrTruth Pk.Proofs.MgrTags

/-- an event that leaves the state and the truth as they were -/
private theorem good_same_state (s : St) (e : Ev) (st : Started) (T T' g : Truth) (hg : Good s T g)
    (hs' : (step s e st).1 = s) (hsame : SameOn s T T') :
    C06.Inv (step s e st).1 T' ∧
    (∀ jn snap held, s.jTag = some (jn, snap, held) → JobInv (step s e st).1 T' g) := by
  rw [hs']
  exact ⟨inv_congr hg.inv hsame, fun _ _ _ _ => jobInv_congr hg.job hsame⟩

private theorem markAdd_nil (s : St) (name : String) (st : Started) : (step s (.markAdd name []) st).1 = s := by
  rw [step_markAdd_eq]
  simp only [List.isEmpty_nil, Bool.not_true, Bool.false_and, Bool.false_eq_true, if_false, if_true]
  split <;> rfl

private theorem markDel_nil (s : St) (name : String) (st : Started) : (step s (.markDel name []) st).1 = s := by
  rw [step_markDel_eq]
  simp only [List.isEmpty_nil, Bool.not_true, Bool.false_and, Bool.false_eq_true, if_false, if_true]
  split <;> rfl

private theorem updName_nil (s : St) (name : String) (st : Started) : (step s (.updName name "") st).1 = s := by
  rw [step_updName_eq]
  split
  · rfl
  · simp

private theorem markAdd_some (s : St) (name : String) (ids : List Nat) (st : Started)
    (h : (step s (.markAdd name ids) st).2 = Res.ok) (_hne : ids ≠ []) : ∃ t, sget s.tags name = some t := by
  cases hs : sget s.tags name with
  | some t => exact ⟨t, rfl⟩
  | none =>
    exfalso
    revert h
    rw [step_markAdd_eq, hs]
    split <;> (intro h; cases h)

private theorem markDel_some (s : St) (name : String) (ids : List Nat) (st : Started)
    (h : (step s (.markDel name ids) st).2 = Res.ok) (_hne : ids ≠ []) : ∃ t, sget s.tags name = some t := by
  cases hs : sget s.tags name with
  | some t => exact ⟨t, rfl⟩
  | none =>
    exfalso
    revert h
    rw [step_markDel_eq, hs]
    split <;> (intro h; cases h)

/-- the invariants after one event, for the ghost of the job that was in flight before -/
private theorem core_step (s : St) (e : Ev) (st : Started) (T T' g : Truth) (hg : Good s T g)
    (hok : StepOK s T g e st T') (hA' : C09.Acyclic (step s e st).1) :
    C06.Inv (step s e st).1 T' ∧
    ((∀ n r, e ≠ .tagDone n r) → ∀ jn snap held, s.jTag = some (jn, snap, held) → JobInv (step s e st).1 T' g) := by
  have wrap : ∀ {P : Prop} {Q : Prop}, (P ∧ Q) → (P ∧ ((∀ n r, e ≠ .tagDone n r) → Q)) :=
    fun h => ⟨h.1, fun _ => h.2⟩
  have hr := hg.reach
  by_cases herr : (step s e st).2 = Res.err
  · have hsame : SameOn s T T' := hok.truth.1 (by rw [step_res_indep s e {} st]; exact herr)
    exact wrap (good_same_state s e st T T' g hg (step_rejected s e st herr) hsame)
  have herr0 : (step s e {}).2 ≠ Res.err := by rw [step_res_indep s e {} st]; exact herr
  have ht := hok.truth.2 herr0
  have hjt := hok.jobText
  cases e with
  | nop => exact wrap (good_sameOn s _ st T T' g hg (fun _ h => h) rfl ht)
  | importPcaps names =>
    exact wrap (good_sameOn s _ st T T' g hg (fun _ h => h)
      (Pk.Proofs.MgrReach.step_all_next_other s _ st (fun p u c a b d h => by cases h)).2 ht)
  | mergeDone merged =>
    exact wrap (good_sameOn s _ st T T' g hg (fun _ h => h)
      (Pk.Proofs.MgrReach.step_all_next_other s _ st (fun p u c a b d h => by cases h)).2 ht)
  | viewOpen k =>
    exact wrap (good_sameOn s _ st T T' g hg (fun _ h => h)
      (Pk.Proofs.MgrReach.step_all_next_other s _ st (fun p u c a b d h => by cases h)).2 ht)
  | viewRelease k =>
    exact wrap (good_sameOn s _ st T T' g hg (fun _ h => h)
      (Pk.Proofs.MgrReach.step_all_next_other s _ st (fun p u c a b d h => by cases h)).2 ht)
  | updColor name color =>
    exact wrap (good_sameOn s _ st T T' g hg (fun _ h => h)
      (Pk.Proofs.MgrReach.step_all_next_other s _ st (fun p u c a b d h => by cases h)).2 ht)
  | updConv name convs =>
    have hok' := res_ok_updConv s name convs st herr
    by_cases hd : DropsOutput s (.updConv name convs) ∧ ∃ n t, sget s.tags n = some t ∧ Payload t
    · refine wrap (good_dropped s _ st T T' g hg (Or.inl ⟨name, convs, rfl⟩) hok' hd.1 hd.2 ?_)
      intro n t _ hn id hid hT
      exact ht.2 hd.1 n t hn id hid hT
    · have hsame : SameOn s T T' := by
        by_cases hd1 : DropsOutput s (.updConv name convs)
        · intro n t hn id hid
          apply Classical.byContradiction
          intro hT
          obtain ⟨n0, _, t0, h0, hp0⟩ := (ht.2 hd1 n t hn id hid hT).nonempty
          exact hd ⟨hd1, n0, t0, h0, hp0⟩
        · exact ht.1 hd1
      exact wrap (good_sameOn s _ st T T' g hg (fun _ h => h)
        (Pk.Proofs.MgrReach.step_all_next_other s _ st (fun p u c a b d h => by cases h)).2 hsame)
  | importDone p u c a b d =>
    cases hji : s.jImport with
    | none =>
      simp only [hji] at ht
      exact wrap (good_same_state s _ st T T' g hg
        (Pk.Proofs.MgrReach.step_importDone_none' s p u c a b d st hji) ht)
    | some q =>
      obtain ⟨jn, held⟩ := q
      simp only [hji] at ht
      by_cases hc : c = []
      · subst hc
        simp only [if_true] at ht
        exact wrap (good_sameOn s _ st T T' g hg (fun _ h => h) (importDone_nil s p u a b d st jn held hji).2.2 ht)
      · simp only [hc, if_false] at ht
        exact wrap (good_importDone s p u c a b d st T T' g hg jn held hji hc hok.payload hok.addsNew ht)
  | convertDone =>
    cases hjc : s.jConv with
    | none =>
      simp only [hjc] at ht
      exact wrap (good_sameOn s _ st T T' g hg (fun _ h => h)
        (Pk.Proofs.MgrReach.step_all_next_other s _ st (fun p u c a b d h => by cases h)).2 ht)
    | some q =>
      obtain ⟨sets, held⟩ := q
      simp only [hjc] at ht
      exact wrap (good_convertDone s st T T' g hg sets held hjc ht)
  | tagDone name result =>
    refine ⟨?_, fun h => absurd rfl (h name result)⟩
    cases hj : s.jTag with
    | none =>
      have : (step s (.tagDone name result) st).1 = s := by
        rw [step_tagDone_eq, hj]
      rw [this]
      exact inv_congr hg.inv ht
    | some j =>
      obtain ⟨jn, snap, held⟩ := j
      have hn : jn = name := hok.payload.2.1 jn snap held hj
      subst hn
      exact inv_tagDone s jn result st T T' g hg snap held hj ht (hok.result snap held hj)
  | addTag name color defn f =>
    have hok' := res_ok_addTag s name color defn f st herr
    exact wrap (good_addTag s name color defn f st T T' g hg hok' ht.1 ht.2)
  | updQuery name defn f =>
    have hok' := res_ok_updQuery s name defn f st herr
    exact wrap (good_updQuery s name defn f st T T' g hg hA' hok' ht
      (fun jn snap held hj t ht' hgn hd => hjt jn snap held hj t ht' hgn hd hok'))
  | updName name new =>
    have hok' := res_ok_updName s name new st herr
    by_cases hnew : new = ""
    · subst hnew
      simp only [if_true] at ht
      exact wrap (good_same_state s _ st T T' g hg (updName_nil s name st) ht)
    · simp only [hnew, if_false] at ht
      exact wrap (good_updName s name new st T T' g hg hok' hnew ht.1 ht.2)
  | markAdd name ids =>
    have hok' := res_ok_markAdd s name ids st herr
    by_cases hne : ids = []
    · subst hne
      simp only [if_true] at ht
      exact wrap (good_same_state s _ st T T' g hg (markAdd_nil s name st) ht)
    · simp only [hne, if_false] at ht
      obtain ⟨t, hst⟩ := markAdd_some s name ids st hok' hne
      exact wrap (good_markAdd s name ids st T T' g hg hok' hne t hst (ht t hst).1 (ht t hst).2 hjt)
  | markDel name ids =>
    have hok' := res_ok_markDel s name ids st herr
    by_cases hne : ids = []
    · subst hne
      simp only [if_true] at ht
      exact wrap (good_same_state s _ st T T' g hg (markDel_nil s name st) ht)
    · simp only [hne, if_false] at ht
      obtain ⟨t, hst⟩ := markDel_some s name ids st hok' hne
      exact wrap (good_markDel s name ids st T T' g hg hok' hne t hst (ht t hst).1 (ht t hst).2 hjt)
  | delTag name =>
    have hok' := res_ok_delTag s name st herr
    by_cases hd : DropsOutput s (.delTag name) ∧ ∃ n t, sget s.tags n = some t ∧ Payload t
    · refine wrap (good_dropped s _ st T T' g hg (Or.inr ⟨name, rfl⟩) hok' hd.1 hd.2 ?_)
      intro n t hE hn id hid hT
      exact ht.2 hd.1 n t (fun h => hE h.symm) hn id hid hT
    · have hsame : ∀ n, n ≠ name → SameAt s T T' n := by
        by_cases hd1 : DropsOutput s (.delTag name)
        · intro n hne t hn id hid
          apply Classical.byContradiction
          intro hT
          obtain ⟨n0, _, t0, h0, hp0⟩ := (ht.2 hd1 n t hne hn id hid hT).nonempty
          exact hd ⟨hd1, n0, t0, h0, hp0⟩
        · exact ht.1 hd1
      exact wrap (good_delTag s name st T T' g hg hok' hsame)

/-- ONE EVENT: every event that satisfies the contracts preserves all invariants, in particular
    "decided ⇒ correct" and the ghost invariant of the tagging job in flight -/
theorem decided_correct_step (s : St) (e : Ev) (st : Started) (T T' g : Truth) (hg : Good s T g)
    (hok : StepOK s T g e st T') : Good (step s e st).1 T' (ghostNext s e T' g) := by
  have hR' := reach_step s e st hg.reach hok.payload
  have hA' := C09.acyclic_step s e st hg.reach hok.payload hg.acyclic
  have hG' := genInv_step s e st hg.reach hok.payload.2.1 hg.gens
  have hF' := tagFeat_step s e st hg.reach hok.payload.2.1 hok.featOK hg.feats
  obtain ⟨hinv', hjob'⟩ := core_step s e st T T' g hg hok hA'
  refine ⟨hR', hA', hG', hF', hinv', ?_⟩
  unfold ghostNext
  cases hj : s.jTag with
  | none =>
    simp only [Option.isNone_none, if_true]
    exact jobInv_fresh s e st T' hg.reach hok.payload.2.1 hg.gens hG' (Or.inl hj) hinv' hR'.nextLeAll
  | some j =>
    obtain ⟨jn, snap, held⟩ := j
    simp only [Option.isNone_some, Bool.false_eq_true, if_false]
    by_cases hd : ∃ n r, e = .tagDone n r
    · obtain ⟨n, r, rfl⟩ := hd
      exact jobInv_fresh s _ st T' hg.reach hok.payload.2.1 hg.gens hG' (Or.inr ⟨n, r, rfl⟩) hinv' hR'.nextLeAll
    · have hne : ∀ n r, e ≠ .tagDone n r := fun n r h => hd ⟨n, r, h⟩
      have := hjob' hne jn snap held hj
      cases e with
      | tagDone n r => exact absurd rfl (hne n r)
      | _ => exact this

/-! ## histories -/

/-- `runSt` is `C13.run` on the events of the history -/
theorem runSt_eq (s : St) (h : Hist) : runSt s h = C13.run s (h.map fun x => (x.1, x.2.1)) := by
  induction h generalizing s with
  | nil => rfl
  | cons a rest ih => obtain ⟨e, st, T'⟩ := a; exact ih _

theorem good_run (s : St) (T g : Truth) (h : Hist) (hg : Good s T g) (hh : RunOK s T g h) :
    Good (runSt s h) (runT T h) (runG s g h) := by
  induction h generalizing s T g with
  | nil => exact hg
  | cons a rest ih =>
    obtain ⟨e, st, T'⟩ := a
    exact ih _ _ _ (decided_correct_step s e st T T' g hg hh.1) hh.2

theorem runOK_prefix (s : St) (T g : Truth) (h1 h2 : Hist) (hh : RunOK s T g (h1 ++ h2)) : RunOK s T g h1 := by
  induction h1 generalizing s T g with
  | nil => trivial
  | cons a rest ih =>
    obtain ⟨e, st, T'⟩ := a
    exact ⟨hh.1, ih _ _ _ hh.2⟩

theorem good_init (convs : List String) (T g : Truth) : Good (initSt convs) T g :=
  ⟨reach_init convs, rfl,
   ⟨fun _ _ h => (by cases h), fun _ _ _ h => (by cases h), fun _ _ _ _ h => (by cases h)⟩,
   ⟨fun _ _ h => (by cases h), fun _ _ _ h => (by cases h)⟩,
   fun _ _ h => (by cases h), fun _ _ _ _ _ h => (by cases h)⟩

/-- EVERY HISTORY: for every history of events (API calls and job completions in any order) from the initial
    state whose payloads satisfy the contracts and along which the ground truth moves as the frame contract
    allows, "decided ⇒ correct" holds in the state reached — and, since every prefix of such a history is
    one, in every state on the way (`decided_correct_everywhere`) -/
theorem decided_correct_run (convs : List String) (T0 : Truth) (h : Hist)
    (hh : RunOK (initSt convs) T0 T0 h) : C06.Inv (runSt (initSt convs) h) (runT T0 h) :=
  (good_run _ _ _ h (good_init convs T0 T0) hh).inv

theorem decided_correct_everywhere (convs : List String) (T0 : Truth) (h1 h2 : Hist)
    (hh : RunOK (initSt convs) T0 T0 (h1 ++ h2)) : C06.Inv (runSt (initSt convs) h1) (runT T0 h1) :=
  decided_correct_run convs T0 h1 (runOK_prefix _ _ _ h1 h2 hh)

/-! ## non-vacuity -/

/-- NON-VACUITY: the concrete history `exHist` (Pk/Proofs/MgrTruthExample.lean)
      `addTag tag/x "sport:80"`, `importPcaps ["a.pcap"]`, `importDone` adding stream 0 (the tagging job for
      tag/x starts), `tagDone tag/x [0]`
    with the concrete truth function `exT` (tag/x matches exactly stream 0) satisfies all hypotheses of
    `decided_correct_run`; in the state it reaches tag/x DECIDES stream 0 (`unc = []`, `next = 1`) with the
    answer "matches" (`mat = [0]`), and that answer is the truth -/
theorem decided_correct_example :
    RunOK (initSt []) exT exT exHist ∧
    C06.Inv (runSt (initSt []) exHist) (runT exT exHist) ∧
    (∃ t, sget (runSt (initSt []) exHist).tags "tag/x" = some t ∧ t.mat = [0] ∧ t.unc = [] ∧
      (runSt (initSt []) exHist).next = 1) ∧
    runT exT exHist "tag/x" 0 = true :=
  ⟨example_runOK_closed, decided_correct_run [] exT exHist example_runOK_closed, example_final_closed, rfl⟩

/-! ## the delete / re-create trace is safe now

  The first version of this file had to EXCLUDE (hypothesis `JobTextOK`, delete/re-add clause) the trace
    job for tag/x = "tag:m" in flight; `delTag tag/x`, `delTag mark/m`, `addTag mark/m "id:1"`,
    `addTag tag/x "tag:m"`, `tagDone tag/x [0]`
  on which the model of the OLD service published the answers computed from the old mark/m with `unc = []`
  (`jobTextOK_counterexample` of the first version; confirmed on the real manager and fixed there by the
  identity `gen`).  With the identity the trace satisfies all hypotheses of the theorem (`aba_runOK`, from the
  reachable-style state `abaS`, `aba_good`), the completion discards the result (`aba_now_safe`: the new
  incarnation of tag/x keeps every stream pending) and "decided ⇒ correct" holds at its end BY the theorem. -/
theorem aba_decided_correct :
    C06.Inv (runSt abaS abaH) (runT abaT abaH) ∧
    (∃ t, sget (runSt abaS abaH).tags "tag/x" = some t ∧ t.mat = [] ∧ t.unc = [0, 1] ∧ t.gen = 3) :=
  ⟨(good_run abaS abaT abaT abaH aba_good aba_runOK).inv, aba_now_safe⟩

/-! ## the ADDED hypotheses cannot be dropped

  Formal counterexamples (concrete witnesses evaluated on the model; proofs in Pk/Proofs/MgrTruthCex*.lean):
   * `importAddsNew_counterexample` — without `ImportAddsNew` the step theorem is false;
   * `featRefOK_counterexample`     — without the facts contract `EvFeatOK` three events from a state satisfying
     all invariants (`addTag` of a tag that references a mark tag with facts that lack the tag-reference feature,
     a mark removal on the referenced tag, the completion) break "decided ⇒ correct";
   * `jobTextOK_counterexample`     — without `JobTextOK` two events (an `updQuery` of the job's tag back to the
     snapshot's text for a definition that looks at ids only, with the abstract truth changing, then the
     completion) break "decided ⇒ correct".  (An artefact of indexing the truth by names: on the real system
     the same text of an id list has the same truth.) -/
theorem added_hypotheses_needed :
    (¬ (∀ (s : St) (e : Ev) (st : Started) (T T' g : Truth), Good s T g → PayloadOK s e → EvFeatOK e →
        TruthStep s e T T' → ResultOK s e g → JobTextOK s e st T T' → C06.Inv (step s e st).1 T')) ∧
    (¬ (∀ (s : St) (T g : Truth) (h : Hist), Good s T g → RunOK' s T g h → C06.Inv (runSt s h) (runT T h))) ∧
    (¬ (∀ (s : St) (T g : Truth) (e1 : Ev) (st1 : Started) (T1 : Truth) (e2 : Ev) (st2 : Started) (T2 : Truth),
        Good s T g → StepOK4 s T g e1 st1 T1 →
        StepOK4 (step s e1 st1).1 T1 (ghostNext s e1 T1 g) e2 st2 T2 →
        C06.Inv (step (step s e1 st1).1 e2 st2).1 T2)) :=
  ⟨importAddsNew_counterexample, featRefOK_counterexample, jobTextOK_counterexample⟩

end Pk.Props.C06Reach
