/-
  C13 — Index files live exactly as long as they are needed.

  Model: Pk.Model.Manager (the service loop as a transition system; every event = one closure run
  by the loop).  `used` is the lock-count table (`usedIndexes`), `files` the set of index files that
  are open and on disk, `idx` the service list, `views` the files held by open views, `jImport`,
  `jTag`, `jMerge`, `jConv` the files held by running background jobs.

  Property theorems only; helper lemmas are in Pk/Proofs/MgrLocks.lean.
  Nothing here is bounded: the theorems hold for every state satisfying the invariant, every event
  with every payload that satisfies `EvOK` (files reported as created are new and distinct — they
  are named by `tools.MakeFilename`, which never repeats a name), hence for every history.
-/
import Pk.Model.Manager
import Pk.Proofs.MgrLocks
import Pk.Proofs.MgrLocksStep

namespace Pk.Props.C13
open Pk.Mgr Pk.Proofs.MgrLocks

/-- files held by running background jobs (with multiplicity) -/
def jobHeld (s : St) : List Nat :=
  ((s.jImport.map (·.2)).getD []) ++ ((s.jTag.map (·.2.2)).getD []) ++
  ((s.jMerge.map (·.2)).getD []) ++ ((s.jConv.map (·.2)).getD [])

/-- files held by open views (with multiplicity) -/
def viewHeld (s : St) : List Nat := s.views.flatMap (·.2)

/-- number of holders of file `f`: the service list, the open views, the running jobs -/
def holders (s : St) (f : Nat) : Nat :=
  s.idx.count f + (viewHeld s).count f + (jobHeld s).count f

-- ADDED: well-formedness of the view table and of the job slots.  Without it `count_step` is false
-- for states that satisfy the three original conjuncts of `CountInv` but are not reachable:
--  * view keys must be unique: for `views := [(0,[7]),(0,[8])], used := [(7,1),(8,1)],
--    files := [(7,[]),(8,[])]` the event `viewRelease 0` removes both entries (`ndel`) but releases
--    only `[7]` (`nget` finds the first), leaving `used 8 = 1` with `holders 8 = 0`;
--  * a job slot is occupied only while its flag is set (for the import job: while the queue is
--    non-empty): for `jImport := some (0,[7]), queue := [], used := [(7,1)], files := [(7,[])]` the
--    event `importPcaps ["a"]` runs `startImport`, which overwrites `jImport`; the holder `[7]` is
--    lost (`used 7 = 1`, `holders 7 = 0`).  Likewise `tag = false ∧ jTag = some (_, _, [7])` and any
--    event that runs `startTaggingJobIfNeeded` (e.g. `convertDone`), and the same for merge/convert.
-- All reachable states satisfy it (it holds initially and `count_step` shows it is preserved).
/-- view keys are unique; a job slot is only occupied while the corresponding flag is set -/
def JobsWF (s : St) : Prop :=
  (s.views.map (·.1)).Nodup ∧
  (s.queue = [] → s.jImport = none) ∧
  (s.tag = false → s.jTag = none) ∧
  (s.merge = false → s.jMerge = none) ∧
  (s.convert = false → s.jConv = none)

/-- the lock count of every file equals its number of holders; no entry with count 0 is kept;
    a file is open (and on disk) exactly while its count is positive -/
def CountInv (s : St) : Prop :=
  (∀ f, (nget s.used f).getD 0 = holders s f) ∧
  (∀ f, nget s.used f ≠ some 0) ∧
  (∀ f, (nget s.files f).isSome = (nget s.used f).isSome) ∧
  JobsWF s  -- ADDED: see the comment at `JobsWF` (counterexamples to `count_step` without it)

/-- payload side condition: files created by an import or a merge are new (not known to the
    service) and pairwise distinct -/
def FreshFiles (s : St) (fs : List (Nat × List Nat)) : Prop :=
  (fs.map (·.1)).Nodup ∧ ∀ o ∈ fs.map (·.1), nget s.used o = none ∧ nget s.files o = none

def EvOK (s : St) : Ev → Prop
  | .importDone _ _ created _ _ _ => FreshFiles s created
  | .mergeDone merged => FreshFiles s merged
  | _ => True

/-- bridge to the generalised invariant of Pk/Proofs/MgrLocks.lean (no pending releases) -/
theorem countInv_iff (s : St) : CountInv s ↔ CInv [] s := by
  have hw : JobsWF s ↔ (proj s).JobsWF := by
    simp only [JobsWF, LK.JobsWF, proj, List.isEmpty_iff, Option.map_eq_none_iff]
  unfold CountInv CInv CInvK
  rw [hw]
  have hh : ∀ f, (proj s).holders f + List.count f [] = holders s f := fun f => by
    simp only [List.count_nil, Nat.add_zero]; rfl
  simp only [hh]
  rfl

theorem count_init (convs : List String) :
    CountInv { convs := convs, toconv := convs.map (fun c => (c, [])), cached := convs.map (fun c => (c, [])) } := by
  refine ⟨fun f => ?_, fun f => ?_, fun f => ?_, ?_, ?_, ?_, ?_, ?_⟩ <;>
    simp [holders, viewHeld, jobHeld]

/-- every transition of the service loop preserves "lock count = number of holders" -/
theorem count_step (s : St) (e : Ev) (st : Started) (h : CountInv s) (hok : EvOK s e) :
    CountInv (step s e st).1 := by
  -- `hok` is not needed: the lock counts do not depend on the created files being fresh
  have _ := hok
  exact (countInv_iff _).2 (CInv_step s e st ((countInv_iff s).1 h))

/-- run a history: events with the tagging choices the implementation made -/
def run (s : St) : List (Ev × Started) → St
  | [] => s
  | (e, st) :: rest => run (step s e st).1 rest

/-- every event of the history has an admissible payload in the state it is applied to -/
def HistOK (s : St) : List (Ev × Started) → Prop
  | [] => True
  | (e, st) :: rest => EvOK s e ∧ HistOK (step s e st).1 rest

/-- `usedIndexes f = holders f` in every reachable state, for every history and every order of job
    completions -/
theorem count_reachable (s : St) (h : List (Ev × Started)) (hs : CountInv s) (hh : HistOK s h) :
    CountInv (run s h) := by
  induction h generalizing s with
  | nil => exact hs
  | cons a rest ih =>
    obtain ⟨e, st⟩ := a
    exact ih _ (count_step s e st hs hh.1) hh.2

/-- a file that anybody holds is open and on disk -/
theorem open_while_held (s : St) (h : CountInv s) (f : Nat) (hf : 0 < holders s f) :
    (nget s.files f).isSome = true := by
  rw [h.2.2.1 f]
  apply isSome_of_getD_pos
  rw [h.1 f]; exact hf

/-- a file nobody holds any more has been closed and deleted -/
theorem deleted_when_free (s : St) (h : CountInv s) (f : Nat) (hf : holders s f = 0) :
    nget s.files f = none := by
  have h1 := h.1 f
  have h2 := h.2.1 f
  have h3 := h.2.2.1 f
  rw [hf] at h1
  cases hu : nget s.used f with
  | none => rw [hu] at h3; simpa using h3
  | some n =>
    rw [hu] at h1 h2
    simp at h1 h2
    exact absurd h1 h2

/-- at quiescence with no views the open files are exactly the served files -/
theorem quiescent_dir_exact (s : St) (h : CountInv s) (hv : s.views = []) (hj : jobHeld s = []) (f : Nat) :
    (nget s.files f).isSome = true ↔ f ∈ s.idx := by
  have h1 := h.1 f
  have h2 := h.2.1 f
  rw [h.2.2.1 f]
  have hh : holders s f = s.idx.count f := by simp [holders, viewHeld, hv, hj]
  rw [hh] at h1
  rw [← List.count_pos_iff, ← h1]
  cases hu : nget s.used f with
  | none => simp
  | some n =>
    rw [hu] at h2
    simp at h2 ⊢
    omega

/-! ### non-vacuity -/
example : CountInv ({ idx := [0, 1], used := [(0, 2), (1, 1)], files := [(0, [0]), (1, [1, 2])],
                      views := [(0, [0])] } : St) := by
  refine ⟨?_, ?_, ?_, ?_⟩
  · intro f
    rcases f with _ | _ | f <;> simp [holders, viewHeld, jobHeld, nget_cons]
  · intro f
    rcases f with _ | _ | f <;> simp [nget_cons]
  · intro f
    rcases f with _ | _ | f <;> simp [nget_cons]
  · refine ⟨?_, ?_, ?_, ?_, ?_⟩ <;> simp

end Pk.Props.C13
