/-
  C13 — Index files live exactly as long as they are needed.

  Model: Pk.Model.Manager (the service loop as a transition system; every event = one closure run
  by the loop).  `used` is the lock-count table (`usedIndexes`), `files` the set of index files that
  are open and on disk, `idx` the service list, `views` the files held by open views, `jImport`,
  `jTag`, `jMerge`, `jConv` the files held by running background jobs.

  Property theorems only; helper lemmas are in Pk/Proofs/MgrLocks.lean.
  Nothing here is bounded: the theorems hold for every state satisfying the invariant, every event
  with every payload that satisfies `EvOK` (files reported as created are new and distinct — they
  are named by `tools.MakeFilename`, which never repeats a name), hence for every history.
-/
import Pk.Model.Manager
import Pk.Proofs.MgrLocks

namespace Pk.Props.C13
open Pk.Mgr

/-- files held by running background jobs (with multiplicity) -/
def jobHeld (s : St) : List Nat :=
  ((s.jImport.map (·.2)).getD []) ++ ((s.jTag.map (·.2.2)).getD []) ++
  ((s.jMerge.map (·.2)).getD []) ++ ((s.jConv.map (·.2)).getD [])

/-- files held by open views (with multiplicity) -/
def viewHeld (s : St) : List Nat := s.views.flatMap (·.2)

/-- number of holders of file `f`: the service list, the open views, the running jobs -/
def holders (s : St) (f : Nat) : Nat :=
  s.idx.count f + (viewHeld s).count f + (jobHeld s).count f

/-- the lock count of every file equals its number of holders; no entry with count 0 is kept;
    a file is open (and on disk) exactly while its count is positive -/
def CountInv (s : St) : Prop :=
  (∀ f, (nget s.used f).getD 0 = holders s f) ∧
  (∀ f, nget s.used f ≠ some 0) ∧
  (∀ f, (nget s.files f).isSome = (nget s.used f).isSome)

/-- payload side condition: files created by an import or a merge are new (not known to the
    service) and pairwise distinct -/
def FreshFiles (s : St) (fs : List (Nat × List Nat)) : Prop :=
  (fs.map (·.1)).Nodup ∧ ∀ o ∈ fs.map (·.1), nget s.used o = none ∧ nget s.files o = none

def EvOK (s : St) : Ev → Prop
  | .importDone _ _ created _ _ _ => FreshFiles s created
  | .mergeDone merged => FreshFiles s merged
  | _ => True

theorem count_init (convs : List String) :
    CountInv { convs := convs, toconv := convs.map (fun c => (c, [])), cached := convs.map (fun c => (c, [])) } := by
  sorry

/-- every transition of the service loop preserves "lock count = number of holders" -/
theorem count_step (s : St) (e : Ev) (st : Started) (h : CountInv s) (hok : EvOK s e) :
    CountInv (step s e st).1 := by
  sorry

/-- run a history: events with the tagging choices the implementation made -/
def run (s : St) : List (Ev × Started) → St
  | [] => s
  | (e, st) :: rest => run (step s e st).1 rest

/-- every event of the history has an admissible payload in the state it is applied to -/
def HistOK (s : St) : List (Ev × Started) → Prop
  | [] => True
  | (e, st) :: rest => EvOK s e ∧ HistOK (step s e st).1 rest

/-- `usedIndexes f = holders f` in every reachable state, for every history and every order of job
    completions -/
theorem count_reachable (s : St) (h : List (Ev × Started)) (hs : CountInv s) (hh : HistOK s h) :
    CountInv (run s h) := by
  sorry

/-- a file that anybody holds is open and on disk -/
theorem open_while_held (s : St) (h : CountInv s) (f : Nat) (hf : 0 < holders s f) :
    (nget s.files f).isSome = true := by
  sorry

/-- a file nobody holds any more has been closed and deleted -/
theorem deleted_when_free (s : St) (h : CountInv s) (f : Nat) (hf : holders s f = 0) :
    nget s.files f = none := by
  sorry

/-- at quiescence with no views the open files are exactly the served files -/
theorem quiescent_dir_exact (s : St) (h : CountInv s) (hv : s.views = []) (hj : jobHeld s = []) (f : Nat) :
    (nget s.files f).isSome = true ↔ f ∈ s.idx := by
  sorry

/-! ### non-vacuity -/
example : CountInv ({ idx := [0, 1], used := [(0, 2), (1, 1)], files := [(0, [0]), (1, [1, 2])],
                      views := [(0, [0])] } : St) := by
  refine ⟨?_, ?_, ?_⟩ <;> intro f <;> sorry

end Pk.Props.C13
