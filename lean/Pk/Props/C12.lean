/-
  C12 — State survives restart and a crash at any point (the part a model of the files can carry).

  Model: Pk.Model.Recover.  Theorems, for every disk and every crash point of the file-operation
  sequence of `saveState` (every prefix of the sequence; a crash inside the write leaves an
  unparsable file):
   * `pickState_parsable`, `pickState_latest` — `New` loads a parsable state file whose stamp is
     maximal among the parsable ones; unparsable (half-written) files are ignored, never fatal;
   * `saveState_crash_safe` — at every crash point of a `saveState` the restart shows either the
     previously acknowledged tags or the new ones, and after the last operation the new ones;
     (its last clause re-establishes `Settled` for the new file, which is the precondition of the next
     save: by induction an acknowledged change is never lost over any sequence of saves);
   * `partial_index_ignored` — incomplete index files are skipped, complete ones are all loaded, in
     name order.
  The stream level is in Pk/Props/C12Idx.lean (model Pk/Model/RecoverIdx.lean: index files with their stream
  ids, the file operations of an import and of a merge, `New` stacking complete files in name order and taking
  the next id as the maximum over all of them): `import_crash_safe`, `merge_crash_safe` (at EVERY prefix of the
  operation sequence every id is served in the same version as before / as after; needs the F18 condition,
  `merge_not_suffix_counterexample`), `crash_cut_newest_only` (which cuts the harness may emulate),
  `restart_ids_stable` (whole histories: no visible id is lost, none is handed out twice).
  What remains with the experiments alone (tags re-converging, payload bytes of the recovered streams)
  is decided by the crash experiments of the scenario harness (`crashcheck`: second real manager on
  a copy of the data directory taken while all jobs are parked, optionally with one of the newest
  files cut short) — see level note: partial.
-/
import Pk.Model.Recover
import Pk.Proofs.Recover

namespace Pk.Props.C12
open Pk.Recover Pk.Proofs.Recover

theorem pickState_parsable (fs : List StateFile) (best r : StateFile)
    (hb : best.parsable = true) (h : pickState fs (some best) = some r) : r.parsable = true := by
  rcases pickState_mem _ _ _ h with h' | ⟨_, h2⟩
  · have : best = r := by simpa using h'
    exact this ▸ hb
  · exact h2

theorem pickState_none_parsable (fs : List StateFile) (r : StateFile)
    (h : pickState fs none = some r) : r.parsable = true ∧ r ∈ fs := by
  rcases pickState_mem _ _ _ h with h' | ⟨h1, h2⟩
  · cases h'
  · exact ⟨h2, h1⟩

/-- the loaded file has the latest stamp among the parsable ones -/
theorem pickState_latest (fs : List StateFile) (r : StateFile) (h : pickState fs none = some r) :
    ∀ f ∈ fs, f.parsable = true → f.saved ≤ r.saved := by
  exact (pickState_max _ _ _ h).2

/-- some parsable file exists ⇒ one is loaded (a half-written newer file is never fatal) -/
theorem pickState_some (fs : List StateFile) (f : StateFile) (hf : f ∈ fs) (hp : f.parsable = true) :
    (pickState fs none).isSome = true := by
  exact pickState_isSome_of_mem fs none f hf hp

/-- a disk on which exactly one parsable state file `cur` with the latest stamp exists -/
def Settled (ss : List StateFile) (cur : StateFile) : Prop :=
  cur ∈ ss ∧ cur.parsable = true ∧ (∀ f ∈ ss, f.parsable = true → f.saved ≤ cur.saved ∧ (f.saved = cur.saved → f = cur)) ∧
  (ss.map (·.name)).Nodup

/-- crash at any point of a `saveState` (any prefix of its file operations): the restart shows the old
    or the new tags; after all operations the new tags -/
theorem saveState_crash_safe (ss : List StateFile) (cur new : StateFile)
    (hs : Settled ss cur) (hstamp : cur.saved < new.saved) (hname : ∀ f ∈ ss, f.name < new.name)
    (k : Nat) :
    let ops := saveOps new (some cur.name)
    let disk := (ops.take k).foldl applyOp ss
    (((pickState disk none).map (·.tags)) = some cur.tags ∨ ((pickState disk none).map (·.tags)) = some new.tags) ∧
    (ops.length ≤ k → ((pickState disk none).map (·.tags)) = some new.tags ∧ Settled disk { new with parsable := true }) := by
  obtain ⟨hmem, hpar, hmax, hnd⟩ := hs
  have hne : ∀ f ∈ ss, f.name ≠ new.name := fun f hf => Nat.ne_of_lt (hname f hf)
  have hcn : new.name ≠ cur.name := fun e => hne cur hmem e.symm
  have h0 : pickState ss none = some cur := pickState_unique ss cur hmem hpar hmax
  have hlt : ∀ f ∈ ss, f.parsable = true → f.saved < new.saved := fun f hf hp => by
    have := (hmax f hf hp).1
    omega
  have hfull : (saveOps new (some cur.name)).foldl applyOp ss =
      ss.filter (·.name ≠ cur.name) ++ [{ new with parsable := true }] := by
    simp only [saveOps, List.cons_append, List.nil_append, List.foldl_cons, List.foldl_nil]
    exact disk3 ss new cur.name hne hcn
  have hlt' : ∀ f ∈ ss.filter (·.name ≠ cur.name), f.parsable = true → f.saved < new.saved :=
    fun f hf hp => hlt f ((List.mem_filter.mp hf).1) hp
  have h3 : pickState (ss.filter (·.name ≠ cur.name) ++ [{ new with parsable := true }]) none =
      some { new with parsable := true } := pickState_snoc_newer _ _ rfl hlt'
  have hset : Settled (ss.filter (·.name ≠ cur.name) ++ [{ new with parsable := true }])
      { new with parsable := true } := by
    refine ⟨by simp, rfl, ?_, ?_⟩
    · intro f hf hp
      rcases List.mem_append.mp hf with hf | hf
      · have := hlt' f hf hp
        exact ⟨Nat.le_of_lt this, fun e => absurd e (Nat.ne_of_lt this)⟩
      · have : f = { new with parsable := true } := by simpa using hf
        subst this
        exact ⟨Nat.le_refl _, fun _ => rfl⟩
    · rw [List.map_append, List.nodup_append]
      refine ⟨(List.filter_sublist.map _).nodup hnd, by simp, ?_⟩
      intro a ha b hb
      obtain ⟨f, hf, rfl⟩ := List.mem_map.mp ha
      have : b = new.name := by simpa using hb
      subst this
      exact hne f ((List.mem_filter.mp hf).1)
  have hlen : (saveOps new (some cur.name)).length = 3 := rfl
  match k with
  | 0 =>
    intro ops disk
    have hd : disk = ss := rfl
    refine ⟨Or.inl (by rw [hd, h0]; rfl), fun hk => by have hl : ops.length = 3 := rfl; omega⟩
  | 1 =>
    intro ops disk
    have hd : disk = ss ++ [{ new with parsable := false }] := rfl
    refine ⟨Or.inl ?_, fun hk => by have hl : ops.length = 3 := rfl; omega⟩
    rw [hd, pickState_snoc_unparsable _ _ rfl, h0]; rfl
  | 2 =>
    intro ops disk
    have hd : disk = ss ++ [{ new with parsable := true }] := by
      show applyOp (applyOp ss (.createPartial new)) (.complete new.name) = _
      exact disk2 ss new hne
    refine ⟨Or.inr ?_, fun hk => by have hl : ops.length = 3 := rfl; omega⟩
    rw [hd, pickState_snoc_newer ss { new with parsable := true } rfl hlt]; rfl
  | k + 3 =>
    intro ops disk
    have hd : disk = ss.filter (·.name ≠ cur.name) ++ [{ new with parsable := true }] := by
      rw [← hfull]
      show (List.take (k + 3) (saveOps new (some cur.name))).foldl applyOp ss = _
      rw [List.take_of_length_le (by rw [hlen]; omega)]
    have ht : (pickState disk none).map (·.tags) = some new.tags := by rw [hd, h3]; rfl
    exact ⟨Or.inr ht, fun _ => ⟨ht, hd ▸ hset⟩⟩

/-- incomplete index files are ignored, every complete one is loaded, order = name order -/
theorem partial_index_ignored (d : Disk) :
    (∀ n, n ∈ recoverIdx d ↔ ∃ f ∈ d.idx, f.complete = true ∧ f.name = n) ∧
    (recoverIdx d).length = (d.idx.filter (·.complete)).length ∧
    ((d.idx.map (·.name)).Pairwise (· < ·) → (recoverIdx d).Pairwise (· < ·)) := by
  refine ⟨?_, ?_, ?_⟩
  · intro n
    simp only [recoverIdx, List.mem_map, List.mem_filter]
    constructor
    · rintro ⟨f, ⟨hf, hc⟩, rfl⟩
      exact ⟨f, hf, hc, rfl⟩
    · rintro ⟨f, hf, hc, rfl⟩
      exact ⟨f, ⟨hf, hc⟩, rfl⟩
  · simp [recoverIdx]
  · intro h
    exact h.sublist (List.filter_sublist.map _)

/-! ### non-vacuity -/
example : pickState [⟨0, 5, true, [⟨"tag/a", "sport:1", "red", []⟩]⟩, ⟨1, 9, false, []⟩] none =
    some ⟨0, 5, true, [⟨"tag/a", "sport:1", "red", []⟩]⟩ := by decide

end Pk.Props.C12
