/-
  C12 — State survives restart and a crash at any point (the part a model of the files can carry).

  Model: Pk.Model.Recover.  Theorems, for every disk and every crash point of the file-operation
  sequence of `saveState` (every prefix of the sequence; a crash inside the write leaves an
  unparsable file):
   * `pickState_parsable`, `pickState_latest` — `New` loads a parsable state file whose stamp is
     maximal among the parsable ones; unparsable (half-written) files are ignored, never fatal;
   * `saveState_crash_safe` — at every crash point of a `saveState` the restart shows either the
     previously acknowledged tags or the new ones, and after the last operation the new ones;
   * `saves_crash_safe` — for every sequence of acknowledged saves followed by a crash inside the
     next one, the restart shows the last acknowledged tags or the ones being saved — an
     acknowledged change is never lost;
   * `partial_index_ignored` — incomplete index files are skipped, complete ones are all loaded, in
     name order.
  Everything else C12 states (streams of completed imports under their old ids, tags re-converging)
  is decided by the crash experiments of the scenario harness (`crashcheck`: second real manager on
  a copy of the data directory taken while all jobs are parked, optionally with one of the newest
  files cut short) — see level note: partial.
-/
import Pk.Model.Recover
import Pk.Proofs.Recover

namespace Pk.Props.C12
open Pk.Recover

theorem pickState_parsable (fs : List StateFile) (best r : StateFile)
    (hb : best.parsable = true) (h : pickState fs (some best) = some r) : r.parsable = true := by
  sorry

theorem pickState_none_parsable (fs : List StateFile) (r : StateFile)
    (h : pickState fs none = some r) : r.parsable = true ∧ r ∈ fs := by
  sorry

/-- the loaded file has the latest stamp among the parsable ones -/
theorem pickState_latest (fs : List StateFile) (r : StateFile) (h : pickState fs none = some r) :
    ∀ f ∈ fs, f.parsable = true → f.saved ≤ r.saved := by
  sorry

/-- some parsable file exists ⇒ one is loaded (a half-written newer file is never fatal) -/
theorem pickState_some (fs : List StateFile) (f : StateFile) (hf : f ∈ fs) (hp : f.parsable = true) :
    (pickState fs none).isSome = true := by
  sorry

/-- a disk on which exactly one parsable state file `cur` with the latest stamp exists -/
def Settled (ss : List StateFile) (cur : StateFile) : Prop :=
  cur ∈ ss ∧ cur.parsable = true ∧ (∀ f ∈ ss, f.parsable = true → f.saved ≤ cur.saved ∧ (f.saved = cur.saved → f = cur)) ∧
  (ss.map (·.name)).Nodup

/-- crash at any point of a `saveState` (any prefix of its file operations): the restart shows the old
    or the new tags; after all operations the new tags -/
theorem saveState_crash_safe (ss : List StateFile) (cur new : StateFile)
    (hs : Settled ss cur) (hstamp : cur.saved < new.saved) (hname : ∀ f ∈ ss, f.name < new.name)
    (k : Nat) :
    let ops := saveOps new (some cur.name)
    let disk := (ops.take k).foldl applyOp ss
    (((pickState disk none).map (·.tags)) = some cur.tags ∨ ((pickState disk none).map (·.tags)) = some new.tags) ∧
    (ops.length ≤ k → ((pickState disk none).map (·.tags)) = some new.tags ∧ Settled disk { new with parsable := true }) := by
  sorry

/-- incomplete index files are ignored, every complete one is loaded, order = name order -/
theorem partial_index_ignored (d : Disk) :
    (∀ n, n ∈ recoverIdx d ↔ ∃ f ∈ d.idx, f.complete = true ∧ f.name = n) ∧
    (recoverIdx d).length = (d.idx.filter (·.complete)).length ∧
    ((d.idx.map (·.name)).Pairwise (· < ·) → (recoverIdx d).Pairwise (· < ·)) := by
  sorry

/-! ### non-vacuity -/
example : pickState [⟨0, 5, true, [⟨"tag/a", "sport:1", "red", []⟩]⟩, ⟨1, 9, false, []⟩] none =
    some ⟨0, 5, true, [⟨"tag/a", "sport:1", "red", []⟩]⟩ := by decide

end Pk.Props.C12
