/-
  C10Reach — "a view is a complete and stable snapshot of everything imported" (C10) over whole histories.

  `Pk/Props/C10.lean` holds the single-step facts (`enumeration_exact`, `cover_step`, `view_held_stable`,
  `view_files_open`) and says that "in its NEWEST version" is not expressible in the model (no payload bytes).
  This file closes the property over EVERY history of events from the initial state, with GHOST VERSIONS:
    `ver  : Nat → Nat`        the current version of the data of stream `id` (what all completed imports
                              together say; the same ghost and the same contract `VerStep` as C16Reach);
    `fver : Nat → Nat → Nat`  the version of the data of stream `id` stored in index file `o`.
  A stream id is resolved newest file first: the LAST file of a list that contains the id serves it
  (`servedBy`, `servedBy_spec`).

  Contracts (promises about what the builder / `index.Merge` deliver, on top of `PayloadOK` of MgrReach):
   * `C16Reach.VerStep`    — the version of an existing stream moves (increases) exactly when the completion of
                             an import job in flight that wrote a file reports it as updated or reset;
   * `ImportStoresChanged` — ADDED: every stream such a completion reports as changed is stored in one of the
                             created files (`import_stores_changed_counterexample`);
   * `FVerStep`            — a created file stores, for each of its streams, the NEW current version;
                             `MergeKeepsVersions`: for every stream the version served through the merged files
                             is the version served through the run of files they replace (C07 `merge_view_eq'`
                             at the level of versions); every other file keeps what it stores (all other events
                             leave `fver` unchanged).

  Proved, for EVERY history from the initial state whose payloads are admissible (`RunOK`):
   (1) `fresh_view_newest_run` — in every state reached every id < next is served through the service list by a
       file that stores its CURRENT version; `fresh_view_lists_once_run` — (with `ContentRunOK`: a file stores
       a stream once, and only streams that exist) a fresh view enumerates exactly the ids < next, each once.
   (2) `held_view_stable_from` / `held_view_stable_run` — a view that was opened and is not released keeps, at
       every later state: its captured file list, all those files open with unchanged content (`files_immutable`:
       an open file never changes, it can only be closed; `held_view_step`), the versions they store, hence for
       every id the SAME serving file and the SAME version — whatever imports and merges complete meanwhile.
       `held_view_enumeration_stable` — the enumeration of a held view never changes.
   (3) `view_complete_at_open` / `view_complete_at_open_run` — at the moment a view is opened it captures the
       service list, which serves every id < next in the version current at that moment.
   `held_view_example` — non-vacuity: import two captures, open a view, import a capture that updates stream 1
       and adds stream 3 (a merge job starts), the merge completes: the held view still serves stream 1 in
       version 1 from file 0, a fresh view serves it in version 2 from the merged file 3
       (`held_view_example_by_theorem`: the same by (2)).
   `splice_example` — non-vacuity for the suspicious situation: an import completes WHILE the merge job is in
       flight; the merged file (holding the old version of the stream that import updated) is spliced in before
       the file the import appended; every stream is served in its current version.

  (1) is TRUE on the model for the situations one may suspect: a merge in flight while an import completes (the
  merged files are spliced in BEFORE the files the import appended, which keep serving what they hold:
  `newest_mergeBase`); file ordinals re-used after deletion (an event's files are not open when reported —
  `C13.FreshFiles` — and nothing refers to a closed file).  It is FALSE without `ImportStoresChanged`.

  ADDED with respect to the drafted statement (each with a formal counterexample):
   * `ImportStoresChanged` (field `stores` of `StepOK`) — `import_stores_changed_counterexample`;
   * `ContentOK` / `ContentRunOK` (hypothesis of `fresh_view_lists_once_run` ONLY: a file stores a stream at most
     once; an import writes only ids below the `next` it establishes) — `content_nodup_counterexample`,
     `content_bounded_counterexample`.
  `Changed` / `VerStep` are those of C16Reach (versions move only at the completion of an import job in flight
  that wrote a file; `changed_needs_created_counterexample` there).

  Lemmas: Pk/Proofs/MgrViewsRun.lean (serving file / version through a list; import, merge, release),
  MgrViewsRunFiles.lean (files are immutable), MgrViewsRunStep.lean (job completions as case distinctions),
  MgrViewsRunExample.lean (the concrete history).
-/
import Pk.Props.C10
import Pk.Props.MgrReach
import Pk.Props.C16Reach
import Pk.Proofs.MgrViewsRun
import Pk.Proofs.MgrViewsRunFiles
import Pk.Proofs.MgrViewsRunStep
import Pk.Proofs.MgrViewsRunExample

namespace Pk.Props.C10Reach
open Pk.Mgr Pk.Props.MgrReach Pk.Proofs.MgrViews Pk.Proofs.MgrViewsRun
open Pk.Props.C16Reach (Changed VerStep initSt)

/-! ## ghost state and serving file -/

/-- ghost: the current version of the data of every stream (as in C16Reach) -/
abbrev Ver := Nat → Nat
/-- ghost: the version of the data of stream `id` that index file `o` stores (`fver o id`) -/
abbrev FVer := Nat → Nat → Nat

/-- `View.Stream(id)` on a list `l` of files (oldest first): the LAST file of the list whose content in state `s`
    contains the id -/
def servedBy (s : St) (l : List Nat) (id : Nat) : Option Nat := servedIn (withCont s.files l) id

/-- the version of stream `id` a reader gets through the list `l` of files -/
def servedVer (s : St) (fver : FVer) (l : List Nat) (id : Nat) : Option Nat := verIn fver (withCont s.files l) id

/-- what `servedBy` computes: the file it returns is in the list, stores the id, and no file after it does -/
theorem servedBy_spec (s : St) (l : List Nat) (id f : Nat) (h : servedBy s l id = some f) :
    ∃ a b, l = a ++ f :: b ∧ id ∈ C10.content s f ∧ ∀ g ∈ b, id ∉ C10.content s g := by
  unfold servedBy at h
  induction l with
  | nil => simp [withCont, servedIn] at h
  | cons o l ih =>
    have hc : withCont s.files (o :: l) = (o, cont s.files o) :: withCont s.files l := rfl
    rw [hc, servedIn_cons] at h
    cases hr : servedIn (withCont s.files l) id with
    | some g =>
      rw [hr] at h
      cases h
      obtain ⟨a, b, h1, h2, h3⟩ := ih hr
      exact ⟨o :: a, b, by rw [h1]; rfl, h2, h3⟩
    | none =>
      rw [hr] at h
      dsimp only at h
      by_cases hm : id ∈ cont s.files o
      · rw [if_pos hm] at h
        cases h
        refine ⟨[], l, rfl, hm, fun g hg hgm => ?_⟩
        have := (servedIn_none_iff _ id).1 hr (g, cont s.files g) (List.mem_map.2 ⟨g, hg, rfl⟩)
        exact this hgm
      · rw [if_neg hm] at h; cases h

theorem servedVer_eq (s : St) (fver : FVer) (l : List Nat) (id : Nat) :
    servedVer s fver l id = (servedBy s l id).map (fun f => fver f id) := rfl

/-! ## contracts -/

-- ADDED: not part of `PayloadOK` (which asks only that the NEW ids `jn ≤ id < jn + usednew` are stored in a
-- created file).  Without it (1) is false: `import_stores_changed_counterexample`.
/-- every stream the completion of an import job reports as changed (updated: more packets; reset:
    re-assembled) is stored in one of the files the job created: the builder writes the new state of every
    stream it touched.  (`Changed` = the event is the completion of an import job in flight that wrote at least
    one file and lists the id in `upd` or `rst`.) -/
def ImportStoresChanged (s : St) (e : Ev) : Prop :=
  match e with
  | .importDone _ _ created _ _ _ => ∀ id, Changed s e id → ∃ c ∈ created, id ∈ c.2
  | _ => True

/-- payload contract of `index.Merge` (C07 `merge_view_eq'` at the level of versions): for every stream id the
    version a reader gets through the merged files equals the version it got through the run of files the merge
    replaces — `none` on both sides if the run does not hold the stream, so the merged files hold exactly the
    streams of the run -/
def MergeKeepsVersions (s : St) (fver fver' : FVer) (merged : List (Nat × List Nat)) : Prop :=
  ∀ off held, s.jMerge = some (off, held) → merged ≠ [] →
    ∀ id, verIn fver' merged id = servedVer s fver held id

/-- the contract on what the files store after event `e` taken in state `s` (`ver'` = versions after the event) -/
def FVerStep (s : St) (e : Ev) (fver : FVer) (ver' : Ver) (fver' : FVer) : Prop :=
  -- a file the event does not report (as created by the completing import job / written by the completing
  -- merge job) keeps what it stores: index files are never modified.  For every event other than the
  -- completion of a job in flight this says `fver' = fver`.
  (∀ o, o ∉ (reported s e).map (·.1) → fver' o = fver o) ∧
  match e with
  -- a file created by the import job holds, for each of its streams, the NEW current version: the builder
  -- writes the stream as it is after the import
  | .importDone _ _ _ _ _ _ => ∀ c ∈ reported s e, ∀ id ∈ c.2, fver' c.1 id = ver' id
  -- the merged files serve what the replaced run served
  | .mergeDone merged => MergeKeepsVersions s fver fver' merged
  | _ => True

/-- for an event that is not the completion of a job in flight `FVerStep` says that `fver` is unchanged -/
theorem fverStep_unchanged {s : St} {e : Ev} {fver fver' : FVer} {ver' : Ver} (h : FVerStep s e fver ver' fver')
    (hr : reported s e = []) : fver' = fver := by
  funext o
  exact h.1 o (by rw [hr]; simp)

/-- the hypotheses on one event -/
structure StepOK (s : St) (ver : Ver) (fver : FVer) (e : Ev) (ver' : Ver) (fver' : FVer) : Prop where
  payload : PayloadOK s e
  vers : VerStep s e ver ver'
  stores : ImportStoresChanged s e  -- ADDED: see `ImportStoresChanged`
  fvers : FVerStep s e fver ver' fver'

/-- everything that holds in every state of a run -/
structure Good (s : St) (ver : Ver) (fver : FVer) : Prop where
  reach : Reach s
  newest : Newest s fver ver

/-! ## histories -/

/-- a history: events with the tagging choices the implementation made, annotated with the ghosts after each
    event -/
abbrev Hist := List (Ev × Started × Ver × FVer)

def RunOK (s : St) (ver : Ver) (fver : FVer) : Hist → Prop
  | [] => True
  | (e, st, ver', fver') :: rest => StepOK s ver fver e ver' fver' ∧ RunOK (step s e st).1 ver' fver' rest

def runSt (s : St) : Hist → St
  | [] => s
  | (e, st, _, _) :: rest => runSt (step s e st).1 rest
def runV (ver : Ver) : Hist → Ver
  | [] => ver
  | (_, _, ver', _) :: rest => runV ver' rest
def runF (fver : FVer) : Hist → FVer
  | [] => fver
  | (_, _, _, fver') :: rest => runF fver' rest

theorem runSt_append (s : St) (h1 h2 : Hist) : runSt s (h1 ++ h2) = runSt (runSt s h1) h2 := by
  induction h1 generalizing s with
  | nil => rfl
  | cons a r ih => obtain ⟨e, st, v, fv⟩ := a; exact ih _
theorem runV_append (v : Ver) (h1 h2 : Hist) : runV v (h1 ++ h2) = runV (runV v h1) h2 := by
  induction h1 generalizing v with
  | nil => rfl
  | cons a r ih => obtain ⟨e, st, v', fv⟩ := a; exact ih _
theorem runF_append (fv : FVer) (h1 h2 : Hist) : runF fv (h1 ++ h2) = runF (runF fv h1) h2 := by
  induction h1 generalizing fv with
  | nil => rfl
  | cons a r ih => obtain ⟨e, st, v', fv'⟩ := a; exact ih _

theorem runOK_append (s : St) (ver : Ver) (fver : FVer) (h1 h2 : Hist) :
    RunOK s ver fver (h1 ++ h2) ↔
      RunOK s ver fver h1 ∧ RunOK (runSt s h1) (runV ver h1) (runF fver h1) h2 := by
  induction h1 generalizing s ver fver with
  | nil => simp [RunOK, runSt, runV, runF]
  | cons a r ih =>
    obtain ⟨e, st, v, fv⟩ := a
    simp only [List.cons_append, RunOK, runSt, runV, runF, ih, and_assoc]

/-! ## (1) one event -/

/-- the files an event reports are not open (`C13.FreshFiles`, part of `PayloadOK`) -/
theorem reported_fresh (s : St) (e : Ev) (hok : PayloadOK s e) :
    ∀ p ∈ reported s e, nget s.used p.1 = none ∧ nget s.files p.1 = none := by
  intro p hp
  cases e with
  | importDone a b c d e' f =>
    simp only [reported] at hp
    split at hp
    · exact hok.1.1.2 p.1 (List.mem_map_of_mem hp)
    · cases hp
  | mergeDone m =>
    simp only [reported] at hp
    split at hp
    · exact hok.1.1.2 p.1 (List.mem_map_of_mem hp)
    · cases hp
  | _ => cases hp

/-- ONE EVENT (1): after every event with an admissible payload along which the ghosts move as the contracts
    say, the service list serves every stream in its current version -/
theorem newest_step (s : St) (e : Ev) (st : Started) (ver ver' : Ver) (fver fver' : FVer)
    (hg : Good s ver fver) (hok : StepOK s ver fver e ver' fver') :
    Newest (step s e st).1 fver' ver' := by
  have hl := hg.reach.count
  -- an event that reports nothing and changes no stream
  have hsame : reported s e = [] → (∀ id, id < s.next → ¬ Changed s e id) → Newest s fver' ver' := by
    intro hr hc id hid
    obtain ⟨f, hf, hv⟩ := hg.newest id hid
    refine ⟨f, hf, ?_⟩
    rw [fverStep_unchanged hok.fvers hr, hv, (hok.vers id hid).2 (hc id hid)]
  cases e with
  | importDone a b c d e' f =>
    rcases step_importDone_cases s st a b c d e' f with ⟨hj, hs⟩ | ⟨jn, held, hj, hf⟩
    · rw [hs]
      exact hsame (by simp [reported, hj]) (fun id _ h => by simp [Changed, hj] at h)
    · refine newest_frame hf ?_
      obtain ⟨hfr, hjob⟩ := hok.payload.1
      obtain ⟨hjn, _, hnew⟩ := hjob jn held hj
      have hr : reported s (.importDone a b c d e' f) = c := by simp [reported, hj]
      obtain ⟨hf2, hf1⟩ := hok.fvers
      rw [hr] at hf2; dsimp only at hf1; rw [hr] at hf1
      refine newest_importBase s jn held b c _ _ _ fver fver' ver ver' hg.newest (holds_jImport hl hj) hfr.1
        hfr.2 hjn hnew ?_ hf1 hf2
      intro id hid hnot
      refine (hok.vers id hid).2 (fun hch => ?_)
      obtain ⟨c', hc1, hc2⟩ := hok.stores id hch
      exact hnot c' hc1 hc2
  | mergeDone m =>
    rcases step_mergeDone_cases s st m with ⟨hj, hs⟩ | ⟨off, held, mid, hj, hf, hs⟩
    · rw [hs]
      exact hsame (by simp [reported, hj]) (fun id _ h => h)
    · rw [hs]
      obtain ⟨hfr, hjob⟩ := hok.payload.1
      obtain ⟨hheld, hids⟩ := hjob off held hj
      have hr : reported s (.mergeDone m) = m := by simp [reported, hj]
      obtain ⟨hf2, hkeep⟩ := hok.fvers
      rw [hr] at hf2
      have hver : ∀ id, id < s.next → ver' id = ver id := fun id hid => (hok.vers id hid).2 (fun h => h)
      have h1 : Newest (mergeBase s off held m) fver' ver :=
        newest_mergeBase s off held m fver fver' ver hg.newest (holds_jMerge hl hj) hfr.1 hfr.2 hheld
          (fun hne => hkeep off held hj hne) hf2
      have h2 := (cov_mergeBase s off held m hg.reach.covered (holds_jMerge hl hj) hfr.1 hfr.2 hheld hids).2
      have h3 : Newest (release mid held) fver' ver := newest_frame_release held hf h1 h2.lt
      intro id hid
      have hid' : id < s.next := by
        have : (release mid held).next = s.next := by
          rw [release_next, hf.next]
          unfold mergeBase; dsimp only; split
          · rfl
          · simp only [release_next]
        rw [this] at hid; exact hid
      obtain ⟨g, hg1, hg2⟩ := h3 id hid
      exact ⟨g, hg1, by rw [hg2, hver id hid']⟩
  | tagDone a b =>
    have h0 := hsame rfl (fun id _ h => h)
    exact step_tagDone s st a b (Newest · fver' ver') (fun s' hf => newest_frame hf h0)
      (fun jn snap held mid hj hf => newest_frame_release held hf h0 (holds_jTag hl hj).lt)
  | convertDone =>
    have h0 := hsame rfl (fun id _ h => h)
    exact step_convertDone s st (Newest · fver' ver') (fun s' hf => newest_frame hf h0)
      (fun sets held mid hj hf => newest_frame_release held hf h0 (holds_jConv hl hj).lt)
  | viewRelease k =>
    have h0 := hsame rfl (fun id _ h => h)
    simp -zeta only [step]
    split
    · exact h0
    · rename_i fs hv
      exact newest_release fs (m := { s with views := ndel s.views k }) h0 (holds_view hl hv).lt
  | _ =>
    exact newest_frame (frame_step_other s _ st (by simp) (by simp) (by simp) (by simp) (by simp))
      (hsame rfl (fun id _ h => h))

theorem good_step (s : St) (e : Ev) (st : Started) (ver ver' : Ver) (fver fver' : FVer)
    (hg : Good s ver fver) (hok : StepOK s ver fver e ver' fver') : Good (step s e st).1 ver' fver' :=
  ⟨reach_step s e st hg.reach hok.payload, newest_step s e st ver ver' fver fver' hg hok⟩

/-! ## every history -/

theorem good_init (convs : List String) (ver : Ver) (fver : FVer) : Good (initSt convs) ver fver :=
  ⟨reach_init convs, fun _ hid => absurd hid (Nat.not_lt_zero _)⟩

theorem good_run (s : St) (ver : Ver) (fver : FVer) (h : Hist) (hg : Good s ver fver) (hh : RunOK s ver fver h) :
    Good (runSt s h) (runV ver h) (runF fver h) := by
  induction h generalizing s ver fver with
  | nil => exact hg
  | cons a rest ih =>
    obtain ⟨e, st, ver', fver'⟩ := a
    exact ih _ _ _ (good_step s e st ver ver' fver fver' hg hh.1) hh.2

/-- EVERY HISTORY (1): for every history of events (API calls and job completions in any order) from the initial
    state whose payloads are admissible and along which the ghosts move as the contracts say, in the state
    reached — and, every prefix of such a history being one (`runOK_append`), in every state on the way — every
    stream id handed out so far is served through the service list, and the file that serves it (the newest
    file holding it) stores its CURRENT version.  A view opened now captures exactly this list
    (`view_complete_at_open`). -/
theorem fresh_view_newest_run (convs : List String) (ver0 : Ver) (fver0 : FVer) (h : Hist)
    (hh : RunOK (initSt convs) ver0 fver0 h) :
    ∀ id, id < (runSt (initSt convs) h).next →
      ∃ f, servedBy (runSt (initSt convs) h) (runSt (initSt convs) h).idx id = some f ∧
        runF fver0 h f id = runV ver0 h id :=
  (good_run _ _ _ h (good_init convs ver0 fver0) hh).newest

/-- … in other words: the version a fresh view serves for an existing stream is the current one -/
theorem fresh_view_servedVer_run (convs : List String) (ver0 : Ver) (fver0 : FVer) (h : Hist)
    (hh : RunOK (initSt convs) ver0 fver0 h) (id : Nat) (hid : id < (runSt (initSt convs) h).next) :
    servedVer (runSt (initSt convs) h) (runF fver0 h) (runSt (initSt convs) h).idx id = some (runV ver0 h id) := by
  obtain ⟨f, hf, hv⟩ := fresh_view_newest_run convs ver0 fver0 h hh id hid
  rw [servedVer_eq, hf, Option.map_some, hv]

/-! ## (2) a held view -/

/-- FILES ARE IMMUTABLE: a file that is open keeps its content across every event until it is closed; a file
    that is open after the event was open before with the same content, or it is one of the files the event
    reports (created by the completing import job / written by the completing merge job) -/
theorem files_immutable (s : St) (e : Ev) (st : Started) (hok : PayloadOK s e) :
    (∀ f ids, nget s.files f = some ids →
      nget (step s e st).1.files f = some ids ∨ nget (step s e st).1.files f = none) ∧
    (∀ f ids, nget (step s e st).1.files f = some ids → nget s.files f = some ids ∨ (f, ids) ∈ reported s e) := by
  have := frel_step s e st (fun p hp => (reported_fresh s e hok p hp).2)
  exact ⟨this.keep, this.new⟩

/-- ONE EVENT (2): an open view that the event does not release keeps its captured file list; each of its files
    stays open with the same content and keeps the versions it stores -/
theorem held_view_step (s : St) (e : Ev) (st : Started) (ver ver' : Ver) (fver fver' : FVer)
    (hr : Reach s) (hok : StepOK s ver fver e ver' fver') (k : Nat) (fs : List Nat)
    (hv : nget s.views k = some fs) (hne : e ≠ .viewRelease k) :
    nget (step s e st).1.views k = some fs ∧
    ∀ f ∈ fs, (nget s.files f).isSome = true ∧ nget (step s e st).1.files f = nget s.files f ∧ fver' f = fver f := by
  have hv' := C10.view_held_stable s e st k fs hv hne
  refine ⟨hv', fun f hf => ?_⟩
  have ho := C10.view_files_open s hr.count k fs hv f hf
  have ho' := C10.view_files_open _ (reach_step s e st hr hok.payload).count k fs hv' f hf
  refine ⟨ho, ?_, ?_⟩
  · cases hs : nget s.files f with
    | none => rw [hs] at ho; cases ho
    | some ids =>
      rcases (files_immutable s e st hok.payload).1 f ids hs with h | h
      · exact h
      · rw [h] at ho'; cases ho'
  · refine hok.fvers.1 f (fun hm => ?_)
    obtain ⟨p, hp, rfl⟩ := List.mem_map.1 hm
    rw [(reported_fresh s e hok.payload p hp).2] at ho
    cases ho

/-- the history does not release view `k` -/
def NoRelease (k : Nat) (h : Hist) : Prop := ∀ x ∈ h, x.1 ≠ Ev.viewRelease k

/-- EVERY HISTORY (2), from any state that satisfies the invariants: a view `k` that is open (holding the file
    list `fs`) and is not released along the history keeps, in the state reached,
     (a) its captured file list,
     (b) all those files open, with the content and the stored versions they had,
     (c) hence for every id the SAME serving file and the SAME version —
    whatever imports and merges complete meanwhile -/
theorem held_view_stable_from (s : St) (ver : Ver) (fver : FVer) (h : Hist) (hg : Good s ver fver)
    (hh : RunOK s ver fver h) (k : Nat) (fs : List Nat) (hv : nget s.views k = some fs) (hnr : NoRelease k h) :
    nget (runSt s h).views k = some fs ∧
    (∀ f ∈ fs, (nget s.files f).isSome = true ∧ nget (runSt s h).files f = nget s.files f ∧
      runF fver h f = fver f) ∧
    ∀ id, servedBy (runSt s h) fs id = servedBy s fs id ∧
      servedVer (runSt s h) (runF fver h) fs id = servedVer s fver fs id := by
  have key : nget (runSt s h).views k = some fs ∧
      (∀ f ∈ fs, (nget s.files f).isSome = true ∧ nget (runSt s h).files f = nget s.files f ∧
        runF fver h f = fver f) := by
    induction h generalizing s ver fver with
    | nil =>
      exact ⟨hv, fun f hf => ⟨C10.view_files_open s hg.reach.count k fs hv f hf, rfl, rfl⟩⟩
    | cons a rest ih =>
      obtain ⟨e, st, ver', fver'⟩ := a
      have hne : e ≠ .viewRelease k := hnr _ List.mem_cons_self
      obtain ⟨h1, h2⟩ := held_view_step s e st ver ver' fver fver' hg.reach hh.1 k fs hv hne
      obtain ⟨h3, h4⟩ := ih _ _ _ (good_step s e st ver ver' fver fver' hg hh.1) hh.2 h1
        (fun x hx => hnr x (List.mem_cons_of_mem _ hx))
      refine ⟨h3, fun f hf => ?_⟩
      obtain ⟨a1, a2, a3⟩ := h2 f hf
      obtain ⟨_, b2, b3⟩ := h4 f hf
      exact ⟨a1, b2.trans a2, b3.trans a3⟩
  refine ⟨key.1, key.2, fun id => ?_⟩
  have hw : withCont (runSt s h).files fs = withCont s.files fs :=
    withCont_congr (fun f hf => (key.2 f hf).2.1)
  refine ⟨by unfold servedBy; rw [hw], ?_⟩
  unfold servedVer
  rw [hw]
  exact verIn_congr (fun p hp => (key.2 p.1 (mem_withCont hp).1).2.2) id

/-- EVERY HISTORY (2), from the initial state: `h1` is the history up to and including the event that opened
    view `k` (so that the view holds `fs` in the state `h1` reaches), `h2` any continuation that does not release
    it.  At the end of `h2` — and at every state on the way, every prefix of `h2` being such a continuation — the
    view holds the same files, they are open with unchanged content and versions, and every id is served by the
    same file in the same version as when the view was opened. -/
theorem held_view_stable_run (convs : List String) (ver0 : Ver) (fver0 : FVer) (h1 h2 : Hist)
    (hh : RunOK (initSt convs) ver0 fver0 (h1 ++ h2)) (k : Nat) (fs : List Nat)
    (hv : nget (runSt (initSt convs) h1).views k = some fs) (hnr : NoRelease k h2) :
    nget (runSt (initSt convs) (h1 ++ h2)).views k = some fs ∧
    (∀ f ∈ fs, (nget (runSt (initSt convs) h1).files f).isSome = true ∧
      nget (runSt (initSt convs) (h1 ++ h2)).files f = nget (runSt (initSt convs) h1).files f ∧
      runF fver0 (h1 ++ h2) f = runF fver0 h1 f) ∧
    ∀ id, servedBy (runSt (initSt convs) (h1 ++ h2)) fs id = servedBy (runSt (initSt convs) h1) fs id ∧
      servedVer (runSt (initSt convs) (h1 ++ h2)) (runF fver0 (h1 ++ h2)) fs id =
        servedVer (runSt (initSt convs) h1) (runF fver0 h1) fs id := by
  obtain ⟨hh1, hh2⟩ := (runOK_append _ _ _ h1 h2).1 hh
  rw [runSt_append, runF_append]
  exact held_view_stable_from _ _ _ h2 (good_run _ _ _ h1 (good_init convs ver0 fver0) hh1) hh2 k fs hv hnr

/-! ## (3) the moment a view is opened -/

/-- what `viewOpen k` does when it opens a view: the service list is captured, nothing else the properties
    read changes -/
theorem step_viewOpen_opens (s : St) (st : Started) (k : Nat) (hk : nget s.views k = none) (hi : s.idx ≠ []) :
    nget (step s (.viewOpen k) st).1.views k = some s.idx ∧ (step s (.viewOpen k) st).1.files = s.files ∧
      (step s (.viewOpen k) st).1.idx = s.idx ∧ (step s (.viewOpen k) st).1.next = s.next := by
  have hi' : s.idx.isEmpty = false := by
    cases h : s.idx with
    | nil => exact absurd h hi
    | cons a l => rfl
  simp only [step, hk, hi', Option.isSome_none, Bool.or_self, Bool.false_eq_true, if_false, getIndexesCopy,
    List.drop_zero, nget_nins, if_true, and_self]

/-- ONE EVENT (3): when a view is opened (the key is free; at least one stream has been imported) it captures the
    service list, and through it every stream of every import completed so far (id < next) is served — by the
    newest file holding it — in the version current at that moment; opening changes neither the versions of the
    existing streams nor what the files store -/
theorem view_complete_at_open (s : St) (st : Started) (k : Nat) (ver ver' : Ver) (fver fver' : FVer)
    (hg : Good s ver fver) (hok : StepOK s ver fver (.viewOpen k) ver' fver')
    (hk : nget s.views k = none) (hn : 0 < s.next) :
    nget (step s (.viewOpen k) st).1.views k = some s.idx ∧
    (fver' = fver ∧ ∀ id, id < s.next → ver' id = ver id) ∧
    ∀ id, id < s.next →
      ∃ f, servedBy (step s (.viewOpen k) st).1 s.idx id = some f ∧ fver' f id = ver' id ∧
        servedVer (step s (.viewOpen k) st).1 fver' s.idx id = some (ver' id) := by
  have hi : s.idx ≠ [] := by
    obtain ⟨f, hf, _⟩ := hg.reach.covered 0 hn
    intro h; rw [h] at hf; cases hf
  obtain ⟨h1, h2, h3, h4⟩ := step_viewOpen_opens s st k hk hi
  have hg' := good_step s (.viewOpen k) st ver ver' fver fver' hg hok
  refine ⟨h1, ⟨fverStep_unchanged hok.fvers rfl, fun id hid => (hok.vers id hid).2 (fun h => h)⟩, fun id hid => ?_⟩
  obtain ⟨f, hf, hv⟩ := hg'.newest id (by rw [h4]; exact hid)
  rw [h3] at hf
  exact ⟨f, hf, hv, by rw [servedVer_eq]; unfold servedBy; rw [hf, Option.map_some, hv]⟩

/-- EVERY HISTORY (3): after any admissible history from the initial state, opening a view (free key, something
    imported) captures the service list of that moment, and the view covers every id of every import completed so
    far, each in the version current at that moment -/
theorem view_complete_at_open_run (convs : List String) (ver0 : Ver) (fver0 : FVer) (h : Hist) (st : Started)
    (k : Nat) (ver' : Ver) (fver' : FVer)
    (hh : RunOK (initSt convs) ver0 fver0 (h ++ [(.viewOpen k, st, ver', fver')]))
    (hk : nget (runSt (initSt convs) h).views k = none) (hn : 0 < (runSt (initSt convs) h).next) :
    nget (runSt (initSt convs) (h ++ [(.viewOpen k, st, ver', fver')])).views k = some (runSt (initSt convs) h).idx ∧
    ∀ id, id < (runSt (initSt convs) h).next →
      servedVer (runSt (initSt convs) (h ++ [(.viewOpen k, st, ver', fver')])) fver' (runSt (initSt convs) h).idx id =
        some (ver' id) ∧ ver' id = runV ver0 h id := by
  obtain ⟨hh1, hh2⟩ := (runOK_append _ _ _ h _).1 hh
  have hg := good_run _ _ _ h (good_init convs ver0 fver0) hh1
  obtain ⟨a1, ⟨_, a2⟩, a3⟩ := view_complete_at_open _ st k _ ver' _ fver' hg hh2.1 hk hn
  rw [runSt_append]
  refine ⟨a1, fun id hid => ?_⟩
  obtain ⟨f, _, _, hs⟩ := a3 id hid
  exact ⟨hs, a2 id hid⟩

/-! ## (1, continued) a fresh view lists every stream exactly once -/

-- ADDED (for "exactly once" and "nothing else" only; (1)–(3) above do not use it): `C10.enumeration_exact` asks
-- that no file lists a stream twice, and nothing in `PayloadOK` says so.  Without it the enumeration of a fresh
-- view can list a stream twice: `content_nodup_counterexample`.
/-- payload contract on the CONTENT of reported files: an index file stores a stream at most once, and an import
    job writes only streams that exist once it has completed (ids below the `next` it establishes).  (That a
    merge writes only streams of its inputs is part of `MergeKeepsVersions`.) -/
def ContentOK (s : St) : Ev → Prop
  | .importDone _ usednew created _ _ _ =>
      ∀ jn held, s.jImport = some (jn, held) → ∀ c ∈ created, c.2.Nodup ∧ ∀ id ∈ c.2, id < jn + usednew
  | .mergeDone merged => ∀ m ∈ merged, m.2.Nodup
  | _ => True

def ContentRunOK (s : St) : Hist → Prop
  | [] => True
  | (e, st, _, _) :: rest => ContentOK s e ∧ ContentRunOK (step s e st).1 rest

/-- every open file stores each stream at most once, and only streams that exist -/
def FilesWF (s : St) : Prop := ∀ f ids, nget s.files f = some ids → ids.Nodup ∧ ∀ id ∈ ids, id < s.next

theorem filesWF_step (s : St) (e : Ev) (st : Started) (ver ver' : Ver) (fver fver' : FVer)
    (hg : Good s ver fver) (hok : StepOK s ver fver e ver' fver') (hc : ContentOK s e) (hw : FilesWF s) :
    FilesWF (step s e st).1 := by
  intro f ids hf
  rcases (files_immutable s e st hok.payload).2 f ids hf with h | h
  · exact ⟨(hw f ids h).1, fun id hid => Nat.lt_of_lt_of_le ((hw f ids h).2 id hid)
      (Pk.Proofs.MgrConvRun.next_mono s e st hg.reach.importJob)⟩
  · cases e with
    | importDone a b c d e' g =>
      cases hj : s.jImport with
      | none => simp [reported, hj] at h
      | some q =>
        obtain ⟨jn, held⟩ := q
        have hm : (f, ids) ∈ c := by simpa [reported, hj] using h
        obtain ⟨h1, h2⟩ := hc jn held hj (f, ids) hm
        have hne : c ≠ [] := fun h0 => by rw [h0] at hm; cases hm
        have hn := (Pk.Proofs.MgrReach.step_importDone_all_next s a b c d e' g st jn held hj).2
        rw [if_neg hne] at hn
        exact ⟨h1, fun id hid => by rw [hn]; exact h2 id hid⟩
    | mergeDone m =>
      cases hj : s.jMerge with
      | none => simp [reported, hj] at h
      | some q =>
        obtain ⟨off, held⟩ := q
        have hm : (f, ids) ∈ m := by simpa [reported, hj] using h
        have hne : m ≠ [] := fun h0 => by rw [h0] at hm; cases hm
        refine ⟨hc (f, ids) hm, fun id hid => ?_⟩
        rw [(Pk.Proofs.MgrReach.step_all_next_other s _ st (by simp)).2]
        -- the merged files hold only streams of the replaced run
        obtain ⟨o, ho⟩ := servedIn_isSome_of_mem hm hid
        have hk := hok.fvers.2 off held hj hne id
        simp only [verIn, ho, Option.map_some, servedVer] at hk
        cases hr : servedIn (withCont s.files held) id with
        | none => rw [hr] at hk; cases hk
        | some g =>
          obtain ⟨p, hp, _, hp2⟩ := servedIn_some_mem hr
          rw [(mem_withCont hp).2] at hp2
          unfold cont at hp2
          cases hx : nget s.files p.1 with
          | none => rw [hx] at hp2; cases hp2
          | some x => rw [hx] at hp2; exact (hw p.1 x hx).2 id hp2
    | _ => cases h

theorem filesWF_run (s : St) (ver : Ver) (fver : FVer) (h : Hist) (hg : Good s ver fver)
    (hh : RunOK s ver fver h) (hc : ContentRunOK s h) (hw : FilesWF s) : FilesWF (runSt s h) := by
  induction h generalizing s ver fver with
  | nil => exact hw
  | cons a rest ih =>
    obtain ⟨e, st, ver', fver'⟩ := a
    exact ih _ _ _ (good_step s e st ver ver' fver fver' hg hh.1) hh.2 hc.2
      (filesWF_step s e st ver ver' fver fver' hg hh.1 hc.1 hw)

/-- the enumeration of a fresh view (`C10.enumerate` on the contents of the service list: newest file first,
    skipping a stream a newer file contains) lists exactly the stream ids handed out so far, each once -/
theorem fresh_view_lists_once (s : St) (hr : Reach s) (hw : FilesWF s) :
    (C10.enumerate (s.idx.map (C10.content s))).Nodup ∧
    ∀ id, id ∈ C10.enumerate (s.idx.map (C10.content s)) ↔ id < s.next := by
  have hcont : ∀ f, (C10.content s f).Nodup ∧ ∀ id ∈ C10.content s f, id < s.next := by
    intro f
    unfold C10.content
    cases hx : nget s.files f with
    | none => exact ⟨List.nodup_nil, fun id hid => by cases hid⟩
    | some x => exact hw f x hx
  obtain ⟨h1, h2⟩ := C10.enumeration_exact (s.idx.map (C10.content s)) (fun ids hids => by
    obtain ⟨f, _, rfl⟩ := List.mem_map.1 hids
    exact (hcont f).1)
  refine ⟨h1, fun id => ?_⟩
  rw [h2]
  constructor
  · rintro ⟨ids, hids, hid⟩
    obtain ⟨f, _, rfl⟩ := List.mem_map.1 hids
    exact (hcont f).2 id hid
  · intro hid
    obtain ⟨f, hf, hm⟩ := hr.covered id hid
    exact ⟨C10.content s f, List.mem_map.2 ⟨f, hf, rfl⟩, hm⟩

/-- EVERY HISTORY (1, enumeration): in every state reached a fresh view lists every stream of every completed
    import (id < next) exactly once, and nothing else -/
theorem fresh_view_lists_once_run (convs : List String) (ver0 : Ver) (fver0 : FVer) (h : Hist)
    (hh : RunOK (initSt convs) ver0 fver0 h) (hc : ContentRunOK (initSt convs) h) :
    (C10.enumerate ((runSt (initSt convs) h).idx.map (C10.content (runSt (initSt convs) h)))).Nodup ∧
    ∀ id, id ∈ C10.enumerate ((runSt (initSt convs) h).idx.map (C10.content (runSt (initSt convs) h))) ↔
      id < (runSt (initSt convs) h).next :=
  fresh_view_lists_once _ (good_run _ _ _ h (good_init convs ver0 fver0) hh).reach
    (filesWF_run _ _ _ h (good_init convs ver0 fver0) hh hc (fun f ids hf => by cases hf))

/-- … and the enumeration of a HELD view does not change: it lists, at every later state, what it listed when
    the view was opened -/
theorem held_view_enumeration_stable (s : St) (ver : Ver) (fver : FVer) (h : Hist) (hg : Good s ver fver)
    (hh : RunOK s ver fver h) (k : Nat) (fs : List Nat) (hv : nget s.views k = some fs) (hnr : NoRelease k h) :
    C10.enumerate (fs.map (C10.content (runSt s h))) = C10.enumerate (fs.map (C10.content s)) := by
  obtain ⟨_, h2, _⟩ := held_view_stable_from s ver fver h hg hh k fs hv hnr
  congr 1
  apply List.map_congr_left
  intro f hf
  unfold C10.content
  rw [(h2 f hf).2.1]

/-! ## non-vacuity -/

section example_
open Pk.Proofs.MgrViewsRunExample

/-- the versions of the example: every stream starts with version 1; the third import bumps stream 1 to 2 -/
def exV1 : Ver := fun _ => 1
def exV2 : Ver := fun id => if id = 1 then 2 else 1
/-- what the files store: files 0 and 1 version 1 of everything; file 2 (third import) version 2 of stream 1;
    file 3 (the merge of 0, 1, 2) what the run served: version 2 of stream 1 -/
def exF1 : FVer := fun _ _ => 1
def exF2 : FVer := fun o id => if o = 2 ∧ id = 1 then 2 else 1
def exF3 : FVer := fun o id => if (o = 2 ∨ o = 3) ∧ id = 1 then 2 else 1

/-- import two captures, open view 7 (events and states: Pk/Proofs/MgrViewsRunExample.lean) -/
def exHist1 : Hist :=
  [ (e1, {}, exV1, exF1), (e2, {}, exV1, exF1), (e3, {}, exV1, exF1), (e4, {}, exV1, exF1), (e5, {}, exV1, exF1) ]
/-- import a capture that updates stream 1 and adds stream 3 (a merge job starts); the merge completes -/
def exHist2 : Hist := [ (e6, {}, exV1, exF1), (e7, {}, exV2, exF2), (e8, {}, exV2, exF3) ]

/-- an event that reports no files and changes no stream, with unchanged ghosts -/
private theorem stepOK_same (s : St) (e : Ev) (v : Ver) (fv : FVer) (hp : PayloadOK s e)
    (hc : ∀ id, ¬ Changed s e id) (hr : reported s e = []) (hm : ∀ m, e ≠ .mergeDone m) : StepOK s v fv e v fv := by
  refine ⟨hp, fun id _ => ⟨fun h => absurd h (hc id), fun _ => rfl⟩, ?_, fun o _ => rfl, ?_⟩
  · cases e <;> first | trivial | exact fun id h => absurd h (hc id)
  · cases e with
    | importDone a b c d e' f => intro c' hc'; rw [hr] at hc'; cases hc'
    | mergeDone m => exact absurd rfl (hm m)
    | _ => trivial

private theorem ex_runOK : RunOK (initSt []) exV1 exF1 (exHist1 ++ exHist2) := by
  show RunOK s0 exV1 exF1 _
  refine ⟨stepOK_same _ _ _ _ ok1 (fun _ h => h) rfl (by simp [e1]), ?_⟩
  rw [step1]
  refine ⟨⟨ok2, fun id h => absurd h (Nat.not_lt_zero _), fun id h => ?_, fun o _ => rfl, ?_⟩, ?_⟩
  · rcases h.2.2 with h | h <;> cases h
  · intro c _ id _; rfl
  rw [step2]
  refine ⟨stepOK_same _ _ _ _ ok3 (fun _ h => h) rfl (by simp [e3]), ?_⟩
  rw [step3]
  refine ⟨⟨ok4, fun id _ => ⟨fun h => ?_, fun _ => rfl⟩, fun id h => ?_, fun o _ => rfl, ?_⟩, ?_⟩
  · rcases h.2.2 with h | h <;> cases h
  · rcases h.2.2 with h | h <;> cases h
  · intro c _ id _; rfl
  rw [step4]
  refine ⟨stepOK_same _ _ _ _ ok5 (fun _ h => h) rfl (by simp [e5]), ?_⟩
  rw [step5]
  refine ⟨stepOK_same _ _ _ _ ok6 (fun _ h => h) rfl (by simp [e6]), ?_⟩
  rw [step6]
  have hch : ∀ id, Changed s6 e7 id ↔ id = 1 := by
    intro id
    constructor
    · intro h
      rcases h.2.2 with h | h
      · simpa using h
      · cases h
    · rintro rfl
      exact ⟨rfl, by simp, Or.inl (by simp)⟩
  refine ⟨⟨ok7, fun id _ => ⟨fun h => ?_, fun h => ?_⟩, fun id h => ?_, fun o ho => ?_, ?_⟩, ?_⟩
  · rw [(hch id).1 h]; decide
  · have : id ≠ 1 := fun h1 => h ((hch id).2 h1)
    simp [exV2, exV1, this]
  · rw [(hch id).1 h]
    exact ⟨(2, [1, 3]), List.mem_singleton.2 rfl, by simp⟩
  · have : o ≠ 2 := fun h2 => ho (by rw [h2]; simp [reported, s6, e7])
    funext id
    simp [exF2, exF1, this]
  · intro c hc id hid
    have hc' : c = (2, [1, 3]) := by simpa [reported, s6, e7] using hc
    subst hc'
    have : id = 1 ∨ id = 3 := by simpa using hid
    rcases this with rfl | rfl <;> rfl
  rw [step7]
  refine ⟨⟨ok8, fun id _ => ⟨fun h => absurd h (fun h => h), fun _ => rfl⟩, trivial, fun o ho => ?_, ?_⟩, trivial⟩
  · have : o ≠ 3 := fun h3 => ho (by rw [h3]; simp [reported, s7, e8])
    funext id
    simp [exF3, exF2, this]
  · intro off held hj _ id
    cases hj
    rcases id with _ | _ | _ | _ | id
    · rfl
    · rfl
    · rfl
    · rfl
    · have h1 : ¬ (id + 1 + 1 + 1 + 1 ∈ [0, 1, 2, 3]) := by simp
      have h2 : ¬ (id + 1 + 1 + 1 + 1 ∈ [0, 1]) := by simp
      have h3 : ¬ (id + 1 + 1 + 1 + 1 ∈ [2]) := by simp
      have h4 : ¬ (id + 1 + 1 + 1 + 1 ∈ [1, 3]) := by simp
      simp [verIn, servedVer, servedIn, withCont, cont, s7, nget, h1, h2, h3, h4]

private theorem ex_runSt1 : runSt (initSt []) exHist1 = s5 := by
  show runSt s0 exHist1 = s5
  simp only [exHist1, runSt, step1, step2, step3, step4, step5]

private theorem ex_runSt2 : runSt (initSt []) (exHist1 ++ exHist2) = s8 := by
  show runSt s0 _ = s8
  simp only [exHist1, exHist2, List.cons_append, List.nil_append, runSt, step1, step2, step3, step4, step5, step6,
    step7, step8]

/-- NON-VACUITY: the concrete history satisfies all hypotheses of the theorems above.  Two captures are imported
    (file 0 = streams {0,1}, file 1 = stream {2}) and view 7 is opened: it captures [0,1] and serves stream 1 from
    file 0 in version 1.  A third import updates stream 1 and adds stream 3 (file 2 = streams {1,3}); the merge job
    that starts inside that step replaces [0,1,2] by file 3.  At the end the service list is [3]: a fresh view
    serves stream 1 from file 3 in version 2 (the current one) and sees stream 3; the HELD view still holds [0,1],
    both files are still open, it still serves stream 1 from file 0 in version 1 and does not see stream 3. -/
theorem held_view_example :
    RunOK (initSt []) exV1 exF1 (exHist1 ++ exHist2) ∧ NoRelease 7 exHist2 ∧
    -- the moment the view is opened
    (nget (runSt (initSt []) exHist1).views 7 = some [0, 1] ∧
      servedBy (runSt (initSt []) exHist1) [0, 1] 1 = some 0 ∧
      servedVer (runSt (initSt []) exHist1) (runF exF1 exHist1) [0, 1] 1 = some 1 ∧ runV exV1 exHist1 1 = 1) ∧
    -- the end: a fresh view
    ((runSt (initSt []) (exHist1 ++ exHist2)).idx = [3] ∧
      servedBy (runSt (initSt []) (exHist1 ++ exHist2)) [3] 1 = some 3 ∧
      servedVer (runSt (initSt []) (exHist1 ++ exHist2)) (runF exF1 (exHist1 ++ exHist2)) [3] 1 = some 2 ∧
      runV exV1 (exHist1 ++ exHist2) 1 = 2 ∧
      servedBy (runSt (initSt []) (exHist1 ++ exHist2)) [3] 3 = some 3) ∧
    -- the end: the held view
    (nget (runSt (initSt []) (exHist1 ++ exHist2)).views 7 = some [0, 1] ∧
      servedBy (runSt (initSt []) (exHist1 ++ exHist2)) [0, 1] 1 = some 0 ∧
      servedVer (runSt (initSt []) (exHist1 ++ exHist2)) (runF exF1 (exHist1 ++ exHist2)) [0, 1] 1 = some 1 ∧
      servedBy (runSt (initSt []) (exHist1 ++ exHist2)) [0, 1] 3 = none ∧
      -- file 2 (held by nobody) was closed
      nget (runSt (initSt []) (exHist1 ++ exHist2)).files 2 = none) := by
  rw [ex_runSt1, ex_runSt2]
  refine ⟨ex_runOK, ?_, ⟨rfl, rfl, rfl, rfl⟩, ⟨rfl, rfl, rfl, rfl, rfl⟩, ⟨rfl, rfl, rfl, rfl, rfl⟩⟩
  intro x hx
  simp only [exHist2, List.mem_cons, List.not_mem_nil, or_false] at hx
  rcases hx with rfl | rfl | rfl <;> simp [e6, e7, e8]

/-- … and BY THE THEOREM: (2) applied to the example history -/
theorem held_view_example_by_theorem (id : Nat) :
    servedBy (runSt (initSt []) (exHist1 ++ exHist2)) [0, 1] id = servedBy (runSt (initSt []) exHist1) [0, 1] id ∧
    servedVer (runSt (initSt []) (exHist1 ++ exHist2)) (runF exF1 (exHist1 ++ exHist2)) [0, 1] id =
      servedVer (runSt (initSt []) exHist1) (runF exF1 exHist1) [0, 1] id :=
  (held_view_stable_run [] exV1 exF1 exHist1 exHist2 held_view_example.1 7 [0, 1] held_view_example.2.2.1.1
    held_view_example.2.1).2.2 id

/-! ### an import completes while a merge job is in flight -/

/-- the versions after the fourth import: stream 0 is bumped as well -/
def exV3 : Ver := fun id => if id = 0 ∨ id = 1 then 2 else 1
/-- file 4 (fourth import) stores version 2 of stream 0; file 3 (the merge of 0, 1, 2, written while file 4 did not
    exist) stores what the run [0,1,2] served: version 1 of stream 0, version 2 of stream 1 -/
def exF4 : FVer := fun o id => if (o = 2 ∧ id = 1) ∨ (o = 4 ∧ id = 0) then 2 else 1
def exF5 : FVer := fun o id => if ((o = 2 ∨ o = 3) ∧ id = 1) ∨ (o = 4 ∧ id = 0) then 2 else 1

/-- after `e7` (the merge job over [0,1,2] is in flight): a fourth import completes and appends file 4 = stream {0}
    (updated); then the merge completes -/
def exHist3 : Hist := [ (g8, {}, exV2, exF2), (g9, {}, exV3, exF4), (g10, {}, exV3, exF5) ]

private theorem ex_runOK7 : RunOK (initSt []) exV1 exF1 (exHist1 ++ exHist2.take 2) :=
  ((runOK_append _ _ _ (exHist1 ++ exHist2.take 2) (exHist2.drop 2)).1 (by
    have := ex_runOK
    rw [List.append_assoc, List.take_append_drop]
    exact this)).1

private theorem ex_runSt7 : runSt (initSt []) (exHist1 ++ exHist2.take 2) = s7 := by
  show runSt s0 _ = s7
  simp only [exHist1, exHist2, List.take, List.cons_append, List.nil_append, runSt, step1, step2, step3, step4, step5,
    step6, step7]

private theorem ex_runOK_splice : RunOK (initSt []) exV1 exF1 (exHist1 ++ exHist2.take 2 ++ exHist3) := by
  refine (runOK_append _ _ _ _ _).2 ⟨ex_runOK7, ?_⟩
  rw [ex_runSt7]
  show RunOK s7 exV2 exF2 exHist3
  refine ⟨stepOK_same _ _ _ _ gok8 (fun _ h => h) rfl (by simp [g8]), ?_⟩
  rw [gstep8]
  have hch : ∀ id, Changed t8 g9 id ↔ id = 0 := by
    intro id
    constructor
    · intro h
      rcases h.2.2 with h | h
      · simpa using h
      · cases h
    · rintro rfl
      exact ⟨rfl, by simp, Or.inl (by simp)⟩
  refine ⟨⟨gok9, fun id _ => ⟨fun h => ?_, fun h => ?_⟩, fun id h => ?_, fun o ho => ?_, ?_⟩, ?_⟩
  · rw [(hch id).1 h]; decide
  · have : id ≠ 0 := fun h1 => h ((hch id).2 h1)
    simp [exV3, exV2, this]
  · rw [(hch id).1 h]
    exact ⟨(4, [0]), List.mem_singleton.2 rfl, by simp⟩
  · have : o ≠ 4 := fun h2 => ho (by rw [h2]; simp [reported, t8, g9])
    funext id
    simp [exF4, exF2, this]
  · intro c hc id hid
    have hc' : c = (4, [0]) := by simpa [reported, t8, g9] using hc
    subst hc'
    have : id = 0 := by simpa using hid
    subst this; rfl
  rw [gstep9]
  refine ⟨⟨gok10, fun id _ => ⟨fun h => absurd h (fun h => h), fun _ => rfl⟩, trivial, fun o ho => ?_, ?_⟩, trivial⟩
  · have : o ≠ 3 := fun h3 => ho (by rw [h3]; simp [reported, t9, g10])
    funext id
    simp [exF5, exF4, this]
  · intro off held hj _ id
    cases hj
    rcases id with _ | _ | _ | _ | id
    · rfl
    · rfl
    · rfl
    · rfl
    · have h1 : ¬ (id + 1 + 1 + 1 + 1 ∈ [0, 1, 2, 3]) := by simp
      have h2 : ¬ (id + 1 + 1 + 1 + 1 ∈ [0, 1]) := by simp
      have h3 : ¬ (id + 1 + 1 + 1 + 1 ∈ [2]) := by simp
      have h4 : ¬ (id + 1 + 1 + 1 + 1 ∈ [1, 3]) := by simp
      simp [verIn, servedVer, servedIn, withCont, cont, t9, nget, h1, h2, h3, h4]

private theorem ex_runSt_splice : runSt (initSt []) (exHist1 ++ exHist2.take 2 ++ exHist3) = t10 := by
  rw [runSt_append, ex_runSt7]
  simp only [exHist3, runSt, gstep8, gstep9, gstep10]

/-- NON-VACUITY, THE SPLICE: while the merge job over [0,1,2] is in flight a fourth import completes and appends
    file 4, which holds version 2 of stream 0.  The merge then completes with file 3, which holds version 1 of
    stream 0 (what the run [0,1,2] served) — admissible: `MergeKeepsVersions` compares with the replaced run only.
    The merged file is spliced in BEFORE file 4: the service list is [3,4], stream 0 is served by file 4 in its
    current version 2, stream 1 by file 3 in its current version 2 — and by the theorem every stream is. -/
theorem splice_example :
    RunOK (initSt []) exV1 exF1 (exHist1 ++ exHist2.take 2 ++ exHist3) ∧
    -- the merge is in flight when the import completes
    (t8.jMerge = some (0, [0, 1, 2]) ∧ t8.jImport = some (4, [0, 1, 2]) ∧ t9.idx = [0, 1, 2, 4]) ∧
    (runSt (initSt []) (exHist1 ++ exHist2.take 2 ++ exHist3)).idx = [3, 4] ∧
    exF5 3 0 = 1 ∧
    servedBy (runSt (initSt []) (exHist1 ++ exHist2.take 2 ++ exHist3)) [3, 4] 0 = some 4 ∧
    servedBy (runSt (initSt []) (exHist1 ++ exHist2.take 2 ++ exHist3)) [3, 4] 1 = some 3 ∧
    (∀ id, id < 4 →
      servedVer (runSt (initSt []) (exHist1 ++ exHist2.take 2 ++ exHist3))
        (runF exF1 (exHist1 ++ exHist2.take 2 ++ exHist3)) [3, 4] id =
        some (runV exV1 (exHist1 ++ exHist2.take 2 ++ exHist3) id)) := by
  refine ⟨ex_runOK_splice, ⟨rfl, rfl, rfl⟩, ?_, rfl, ?_, ?_, ?_⟩
  · rw [ex_runSt_splice]; rfl
  · rw [ex_runSt_splice]; rfl
  · rw [ex_runSt_splice]; rfl
  · intro id hid
    have h := fresh_view_servedVer_run [] exV1 exF1 _ ex_runOK_splice id (by rw [ex_runSt_splice]; exact hid)
    rw [ex_runSt_splice] at h ⊢
    exact h

/-! ### why `ImportStoresChanged` is needed -/

private theorem ex_runOK3 : RunOK (initSt []) exV1 exF1 (exHist1.take 3) :=
  ((runOK_append _ _ _ (exHist1.take 3) (exHist1.drop 3 ++ exHist2)).1 (by
    have := ex_runOK
    rw [← List.append_assoc, List.take_append_drop]
    exact this)).1

private theorem ex_runSt3 : runSt (initSt []) (exHist1.take 3) = s3 := by
  show runSt s0 _ = s3
  simp only [exHist1, List.take, runSt, step1, step2, step3]

/-- (1) is FALSE without `ImportStoresChanged`.  In the state after the first import (file 0 = streams {0,1}) with
    the second import job in flight, the completion `importDone 1 0 [(1,[0])] [1] [] []` reports stream 1 as
    updated but the file it created holds only stream 0.  `PayloadOK`, `VerStep` (the version of stream 1 goes
    from 1 to 2) and `FVerStep` (file 1 stores the current version of stream 0) all hold — and stream 1 is still
    served by file 0, which stores version 1. -/
theorem import_stores_changed_counterexample :
    ¬ (∀ (s : St) (e : Ev) (st : Started) (ver ver' : Ver) (fver fver' : FVer), Good s ver fver → PayloadOK s e →
        VerStep s e ver ver' → FVerStep s e fver ver' fver' → Newest (step s e st).1 fver' ver') := by
  intro h
  have hg := good_run _ _ _ _ (good_init [] exV1 exF1) ex_runOK3
  rw [ex_runSt3] at hg
  have hpay : PayloadOK s3 (.importDone 1 0 [(1, [0])] [1] [] []) := by
    refine ⟨⟨⟨?_, ?_⟩, ?_⟩, ?_, trivial, ?_, trivial⟩
    · simp
    · intro o ho
      have : o = 1 := by simpa using ho
      subst this; exact ⟨rfl, rfl⟩
    · intro jn held hj
      cases hj
      exact ⟨rfl, fun h => absurd rfl h, fun id h1 h2 => by omega⟩
    · intro _; exact ⟨by decide, by decide⟩
    · intro jn held hj
      cases hj
      refine ⟨fun id h => ?_, fun id h => (by cases h), fun id h => (by cases h)⟩
      have : id = 1 := by simpa using h
      omega
  have hch : ∀ id, Changed s3 (.importDone 1 0 [(1, [0])] [1] [] []) id ↔ id = 1 := by
    intro id
    constructor
    · intro h
      rcases h.2.2 with h | h
      · simpa using h
      · cases h
    · rintro rfl
      exact ⟨rfl, by simp, Or.inl (by simp)⟩
  have hver : VerStep s3 (.importDone 1 0 [(1, [0])] [1] [] []) (runV exV1 (exHist1.take 3)) exV2 := by
    intro id _
    refine ⟨fun hc => ?_, fun hn => ?_⟩
    · rw [(hch id).1 hc]; decide
    · have : id ≠ 1 := fun h1 => hn ((hch id).2 h1)
      simp [exV2, exHist1, runV, exV1, this]
  have hfv : FVerStep s3 (.importDone 1 0 [(1, [0])] [1] [] []) (runF exF1 (exHist1.take 3)) exV2 exF1 := by
    refine ⟨fun o _ => rfl, ?_⟩
    intro c hc id hid
    have hc' : c = (1, [0]) := by simpa [reported, s3, s2] using hc
    subst hc'
    have : id = 0 := by simpa using hid
    subst this; rfl
  obtain ⟨f, _, hv⟩ := h s3 _ {} _ exV2 _ exF1 hg hpay hver hfv 1 (by decide)
  revert hv
  simp [exF1, exV2]

/-! ### why `ContentOK` is needed for "exactly once" -/

/-- the history `importPcaps ["a.pcap"]; importDone` creating one file 0 with the stream list `ids` (which contains
    the one new stream 0) satisfies `RunOK`, whatever else `ids` lists -/
private theorem ex_runOK_first (ids : List Nat) (h0 : 0 ∈ ids) :
    RunOK (initSt []) exV1 exF1 [(e1, {}, exV1, exF1), (.importDone 1 1 [(0, ids)] [] [] [0], {}, exV1, exF1)] := by
  have hok : PayloadOK s1 (.importDone 1 1 [(0, ids)] [] [] [0]) := by
    refine ⟨⟨⟨?_, ?_⟩, ?_⟩, ?_, trivial, ?_, trivial⟩
    · simp
    · intro o _; exact ⟨rfl, rfl⟩
    · intro jn held hj
      cases hj
      refine ⟨rfl, fun _ => by simp, ?_⟩
      intro id h1 h2
      have : id = 0 := by omega
      subst this
      exact ⟨(0, ids), List.mem_singleton.2 rfl, h0⟩
    · intro _; exact ⟨by decide, by decide⟩
    · intro jn held hj
      cases hj
      refine ⟨fun id h => (by cases h), fun id h => (by cases h), fun id h => ?_⟩
      simp at h; omega
  show RunOK s0 exV1 exF1 _
  refine ⟨stepOK_same _ _ _ _ ok1 (fun _ h => h) rfl (by simp [e1]), ?_⟩
  rw [step1]
  refine ⟨⟨hok, fun id h => absurd h (Nat.not_lt_zero _), fun id h => ?_, fun o _ => rfl, ?_⟩, trivial⟩
  · rcases h.2.2 with h | h <;> cases h
  · intro c _ id _; rfl

/-- "exactly once" is FALSE without the clause "a file stores a stream at most once" of `ContentOK`: the history
    `importPcaps; importDone` whose created file lists stream 0 twice satisfies `RunOK`, and the enumeration of a
    fresh view lists stream 0 twice -/
theorem content_nodup_counterexample :
    ¬ (∀ (convs : List String) (ver0 : Ver) (fver0 : FVer) (h : Hist), RunOK (initSt convs) ver0 fver0 h →
        (C10.enumerate ((runSt (initSt convs) h).idx.map (C10.content (runSt (initSt convs) h)))).Nodup) := by
  intro h
  have := h [] exV1 exF1 _ (ex_runOK_first [0, 0] (by simp))
  revert this
  show ¬ (C10.enumerate ((runSt s0 _).idx.map (C10.content (runSt s0 _)))).Nodup
  simp only [runSt, step1]
  decide

/-- "and nothing else" is FALSE without the clause "an import writes only ids below the `next` it establishes" of
    `ContentOK`: the created file lists a stream 9 that does not exist (next = 1), and the enumeration of a fresh
    view lists it -/
theorem content_bounded_counterexample :
    ¬ (∀ (convs : List String) (ver0 : Ver) (fver0 : FVer) (h : Hist), RunOK (initSt convs) ver0 fver0 h →
        ∀ id, id ∈ C10.enumerate ((runSt (initSt convs) h).idx.map (C10.content (runSt (initSt convs) h))) →
          id < (runSt (initSt convs) h).next) := by
  intro h
  have := h [] exV1 exF1 _ (ex_runOK_first [0, 9] (by simp)) 9
  revert this
  show ¬ (9 ∈ C10.enumerate ((runSt s0 _).idx.map (C10.content (runSt s0 _))) → 9 < (runSt s0 _).next)
  simp only [runSt, step1]
  decide

end example_

end Pk.Props.C10Reach
