/-
  C14 — the query parser is total.

  The model functions return `Outcome α ::= ok a | err msg | panic site | diverged site`
  (Pk/Model/Query/Ast.lean).  Sites of the Go code that can panic or loop:
    * `ncs[ir]` / `tcs[ir]` index in term translation (more than two ranges)  → `.panic`
    * the "subtract own variable" loops with index fix-ups (`i--`, `sc--`)      → fuel, `.diverged`
    * `f % commonFactor` with commonFactor = 0 in cleanNumberConditions           → predicate `numNormSite`
    * `FlagCondition.invert` sub-mask enumeration `for v := …; ; { v--; v &= Mask … }` → `flagInvertLoop`
    * the common-factor loop (hang F2, fixed: the model's `cfLoop` is structural)
  Everything else in the model is structural recursion (Lean accepts it only because it terminates).

  Proved: every site is unreachable / every loop terminates for all ASTs that participle's grammar
  can produce (`Expr.Shaped`: at most two ranges per list entry), including sub-queries and
  variables; the DNF size bound.  Not proved (tie only): participle's lexer/PEG layer;
  `reftime_shift_equiv` (results for two reference times) is proved in Pk/Props/C14Shift.lean
  (`parse r2 e = (parse r1 e).map (shiftParsed (r2 - r1))` for `TimeSafe` time filters; outcome kind
  independent of the reference time for EVERY expression; counterexample for `@ftime@ ± <absolute>`);
  the fuzz harness also compares two real parses modulo the reference time.
-/
import Pk.Proofs.Query.Laws
import Pk.Proofs.Query.Total
import Pk.Proofs.Query.TermSoundV
import Pk.Proofs.Query.Total2

namespace Pk.Props.C14
open Pk.Query

/-! ### totality of translation -/

/-- term translation returns ok or err: no panic site, no divergence — all terms, with variables -/
theorem term_total (ref : Int) (t : Term) (h : t.Shaped) :
    (∃ g, trTerm ref t = .ok g) ∨ (∃ m, trTerm ref t = .err m) := trTerm_total ref t h

theorem translate_total (ref : Int) (e : Expr) (h : e.Shaped) :
    (∃ g, translate ref e = .ok g) ∨ (∃ m, translate ref e = .err m) :=
  Pk.Query.translate_total ref e h

theorem parse_total (ref : Int) (e : Expr) (h : e.Shaped) :
    (∃ p, parse ref e = .ok p) ∨ (∃ m, parse ref e = .err m) := Pk.Query.parse_total ref e h

/-! ### named loop terminations -/

/-- the own-variable loops (`for i, sc := 0, len; i <= sc; i++` with `i--`/`sc--` after a
    removal, conditions.go:702-720 and 801-826) terminate on every list: `sc - i + 1` decreases
    (`dedup_terminates` of DESIGN §5) -/
theorem dedup_terminates {σ : Type} (isOwn : σ → Bool) (dec : σ → σ) (isZero : σ → Bool)
    (fresh : σ) (l : List σ) : ∃ r, runOwnLoop isOwn dec isZero fresh l = .ok r :=
  ownLoop_terminates isOwn dec isZero fresh l

/-- `FlagCondition.invert`: the sub-mask walk returns to its start (visits each sub-mask once) -/
theorem flagMask_terminates (value mask : Nat) (hm : mask < 65536) :
    ∃ fuel, flagInvertLoop value mask fuel (value &&& mask) [] ≠ none :=
  Pk.Query.flagMask_terminates value mask hm

/-- the common-factor loop (with the F2 repair) computes a common divisor of all factors; it is a
    structural recursion over the summands (`commonFactor_terminates`) -/
theorem commonFactor_terminates (s0 : NumSummand) (more : List NumSummand) :
    ∃ cf : Nat, cfLoop (iabs s0.factor) more = cf ∧ ∀ s ∈ s0 :: more, (cf : Int) ∣ s.factor :=
  ⟨_, rfl, Pk.Query.common_factor_divides s0 more⟩

/-! ### the divide-by-zero site of cleanNumberConditions is unreachable (`clean_total`) -/

/-- every number condition produced by translating a term has pairwise distinct (sub-query, type)
    keys and no zero factor — also with variables (`id:@id@-@id@+@a:id@:` …) -/
theorem term_numbers_ok (ref : Int) (t : Term) (cs : CSet) (h : trTerm ref t = .ok (some cs)) :
    ∀ c ∈ cs, ∀ nc, Cond.num nc ∈ c → nc.OK := trNums_numOK ref t cs h

theorem invert_numbers_ok (nc : NumC) (h : nc.OK) :
    ∀ c ∈ Cond.invert (.num nc), ∀ nc', Cond.num nc' ∈ c → nc'.OK := invert_num_ok nc h

/-- a call of `Conditions.clean` on parser-shaped number conditions does not reach
    `f % commonFactor` with a zero divisor, and returns parser-shaped conditions again
    (AND/OR/THEN only concatenate conjuncts, so every call in a translation is of this kind) -/
theorem clean_total (c : Conj) (h : Conj.NumOK c) :
    Conj.NumOK (Conj.clean c) ∧ ∀ nc ∈ c.filterMap Cond.num?, numNormSite nc = false :=
  conj_clean_numOK c h

/-- every set a translation returns — any expression: sort/limit terms, multi-operand THEN,
    variables, sub-queries — holds only parser-shaped number conditions -/
theorem translate_numbers_ok (ref : Int) (e : Expr) (g : GSet) (h : translate ref e = .ok g) :
    CSet.NumOK g.items := translate_numOK ref e g h

/-- the calls of `Conditions.clean` made by `ConditionsSet.And` (listed by `andCalls`,
    `CSet.andPairs a b = (andCalls a b).map Conj.clean`) do not reach the divide-by-zero site -/
theorem and_total (a b : CSet) (ha : CSet.NumOK a) (hb : CSet.NumOK b) :
    CSet.andPairs a b = (andCalls a b).map Conj.clean ∧
    ∀ c ∈ andCalls a b, ∀ nc ∈ c.filterMap Cond.num?, numNormSite nc = false :=
  ⟨andPairs_eq_calls a b, and_calls_site_free a b ha hb⟩

/-- nor do the calls made by `ConditionsSet.Clean` (absorption loop and simple-ID fast path,
    listed by `cleanCalls`), in particular the final `Clean` of `query.Parse` -/
theorem Clean_total (ref : Int) (e : Expr) (g : GSet) (h : translate ref e = .ok g) :
    ∀ c ∈ finishCalls g, ∀ nc ∈ c.filterMap Cond.num?, numNormSite nc = false :=
  parse_finish_site_free ref e g h

/-! ### determinism and size -/

/-- normalisation is a function of the AST and the reference time (the model has no other input) -/
theorem parse_deterministic (ref : Int) (e : Expr) (p q : Outcome Parsed)
    (hp : parse ref e = p) (hq : parse ref e = q) : p = q := hp ▸ hq

/-- the number of conjuncts after translation is bounded by an explicit function of the expression:
    sum over OR, product over AND/THEN, exponential only under negation (every operator including
    multi-operand THEN and sort/limit terms; terms with variables and sub-queries) -/
theorem dnf_size_bound (ref : Int) (e : Expr) (hp : TermsOf Term.FragV e) (cs : CSet)
    (h : translate ref e = .ok (some cs)) : cs.length ≤ (dnfBound e).1 :=
  dnf_size_bound_fragV ref e hp cs h

/-! ### non-vacuity -/

/-- a grammar-shaped expression with a range, a value list, a mask and a negated group; its
    translation is total by `parse_total` (and indeed `parse 0 e0 = .ok p0`) -/
example : ∃ p, parse 0 Example.e0 = .ok p := ⟨_, Example.e0_parse⟩

end Pk.Props.C14
