/-
  C12 (stream level) — every stream of a completed import is visible under its old id with its newest
  data after a restart from ANY crash point of an import or a merge.

  Model: Pk.Model.RecoverIdx (disk = list of index files `{name, complete, ids}`; `visibleIn` = the
  newest complete file holding an id; `nextID`; file operations `create`/`finish`/`delete`;
  `importOps`, `mergeOps`).  A crash point is a prefix of the operation list (`List.take k`, every `k`).
  Theorems (all disks, all id sets, every `k`):
   * `import_crash_safe` — (1): before the last operation of an import every id is served by the same
     file; after it the new file serves its ids, all others as before; `nextID` monotone, above the new ids;
   * `merge_crash_safe` — (2): under `MergeOK` every prefix of a merge serves EVERY id in the same
     version and has the same `nextID`; `merge_not_suffix_counterexample`,
     `merge_without_condition_false` — F18: without the stack-position condition this is false;
     `noNewerOutsider_of_disjoint`, `suffix_inputs_ok`, `mergeOK_of_suffix` — the condition holds under
     the disjointness condition and for merges over a suffix of the stack;
   * `crash_cut_prefix`, `crash_cut_newest_only` — (3): cutting the file under construction gives an
     earlier prefix; `crash_cut_delete_phase_counterexample` — NOT so for "the newest file" once the
     merge removes its inputs; `crash_cut_dup_names_counterexample`;
   * `restart_ids_stable` — (4): over any history of jobs, crashed anywhere in the last one;
     `history_monotone`, `job_prefix_safe`, `uniqueNames_prefix`;
   * `visibleIn_is_stack_lookup`, `recoverView_spec`, `nextID_spec` — the definitions mean what they say.
-/
import Pk.Model.RecoverIdx
import Pk.Proofs.RecoverIdx
import Pk.Proofs.RecoverIdxOps
import Pk.Proofs.RecoverIdxMerge
import Pk.Proofs.RecoverIdxCut
import Pk.Proofs.RecoverIdxStack

namespace Pk.Props.C12Idx
open Pk.Recover Pk.Proofs.RecoverIdx

/-! ### hypotheses, as named predicates -/

/-- `name` is newer than every file on the disk (names are creation times) -/
def Newer (d : List IndexFile) (name : Nat) : Prop := ∀ f ∈ d, f.name < name

/-- `id` is stored in one of the merge inputs -/
def InputId (d : List IndexFile) (inputs : List Nat) (id : Nat) : Prop :=
  ∃ f ∈ d, f.name ∈ inputs ∧ id ∈ f.ids

/-- the hypotheses of a merge of the files named `inputs` into the files `outputs` on disk `d`,
    without the stack-position condition -/
structure MergeBase (ver : Nat → Nat → Nat) (d : List IndexFile) (inputs : List Nat)
    (outputs : List (Nat × List Nat)) : Prop where
  /-- the outputs' names are newer than all names on the disk -/
  fresh : ∀ o ∈ outputs, Newer d o.1
  /-- the inputs are files of the disk … -/
  inputs_exist : ∀ n ∈ inputs, ∃ f ∈ d, f.name = n
  /-- … and complete (they come from the stack of the running manager) -/
  inputs_complete : ∀ f ∈ d, f.name ∈ inputs → f.complete = true
  /-- every id of the inputs occurs in an output and the outputs contain nothing else
      (that it occurs in exactly ONE output is true of `index.Merge` but not needed) -/
  cover : ∀ id, (∃ o ∈ outputs, id ∈ o.2) ↔ InputId d inputs id
  /-- the output's version of an id is the version of the NEWEST input containing it -/
  version : ∀ o ∈ outputs, ∀ id ∈ o.2, ∀ n, newestInput d inputs id = some n → ver o.1 id = ver n id

/-- the condition whose violation was finding F18, in its weakest form: a complete file that is not
    an input and holds an id of the inputs is OLDER than some input holding that id
    (`noNewerOutsider_of_disjoint`: implied by "no non-input file newer than some input holds an id
    of the inputs"; `noNewerOutsider_of_suffix`: implied by "the inputs are a suffix of the stack") -/
def NoNewerOutsider (d : List IndexFile) (inputs : List Nat) : Prop :=
  ∀ g ∈ d, g.complete = true → g.name ∉ inputs → ∀ id ∈ g.ids,
    InputId d inputs id → ∃ f ∈ d, f.name ∈ inputs ∧ id ∈ f.ids ∧ g.name < f.name

/-- all hypotheses of the merge theorem -/
structure MergeOK (ver : Nat → Nat → Nat) (d : List IndexFile) (inputs : List Nat)
    (outputs : List (Nat × List Nat)) : Prop extends MergeBase ver d inputs outputs where
  no_newer_outsider : NoNewerOutsider d inputs

/-- the condition as the task words it: no file of the disk that is NEWER than some input and is not
    itself an input contains an id of the inputs -/
def DisjointAbove (d : List IndexFile) (inputs : List Nat) : Prop :=
  ∀ g ∈ d, g.name ∉ inputs → (∃ f ∈ d, f.name ∈ inputs ∧ f.name < g.name) →
    ∀ id ∈ g.ids, ¬ InputId d inputs id

/-- names on a disk are unique (they are creation times) -/
def UniqueNames (d : List IndexFile) : Prop := (d.map (·.name)).Nodup

theorem noNewerOutsider_of_disjoint (d : List IndexFile) (inputs : List Nat)
    (h : DisjointAbove d inputs) : NoNewerOutsider d inputs := by
  intro g hg _ hgi id hid hin
  obtain ⟨f, hf, hfi, hfid⟩ := hin
  refine ⟨f, hf, hfi, hfid, ?_⟩
  rcases Nat.lt_trichotomy g.name f.name with hlt | heq | hgt
  · exact hlt
  · exact absurd (heq ▸ hfi) hgi
  · exact absurd ⟨f, hf, hfi, hfid⟩ (h g hg hgi ⟨f, hf, hfi, hgt⟩ id hid)

/-! ### (1) import -/

/-- crash at any point of an import (any prefix of its file operations): before the last operation
    every id is served by the same file as before; after it the ids of the new file are served by
    the new file and all others as before.  `nextID` never decreases and ends above every new id. -/
theorem import_crash_safe (ver : Nat → Nat → Nat) (d : List IndexFile) (name : Nat) (ids : List Nat)
    (hnew : Newer d name) (k : Nat) :
    let ops := importOps name ids
    let d' := applyOps d (ops.take k)
    (k < ops.length → ∀ id, visibleIn d' id = visibleIn d id ∧ visibleVer d' ver id = visibleVer d ver id) ∧
    (ops.length ≤ k → ∀ id,
        visibleIn d' id = (if id ∈ ids then some name else visibleIn d id) ∧
        visibleVer d' ver id = (if id ∈ ids then some (ver name id) else visibleVer d ver id)) ∧
    (∀ id, (visibleIn d id).isSome = true → (visibleIn d' id).isSome = true) ∧
    nextID d ≤ nextID d' ∧
    (ops.length ≤ k → ∀ id ∈ ids, id < nextID d') := by
  intro ops d'
  have hlen : ops.length = 2 := rfl
  have hne : ∀ f ∈ d, f.name ≠ name := fun f hf => Nat.ne_of_lt (hnew f hf)
  have hpart : ∀ e ∈ [mkPart (name, ids)], e.complete = false := by
    intro e he
    have : e = mkPart (name, ids) := by simpa using he
    subst this; rfl
  rcases import_prefix_cases d name ids hne k with ⟨hk, h⟩ | ⟨hk, h⟩ | ⟨hk, h⟩
  · have hd : d' = d := h
    rw [hd]
    exact ⟨fun _ _ => ⟨rfl, rfl⟩, fun h => by omega, fun _ h => h, Nat.le_refl _, fun h => by omega⟩
  · have hd : d' = d ++ [mkPart (name, ids)] := h
    have hv : ∀ id, visibleIn d' id = visibleIn d id := fun id => by
      rw [hd]; exact visibleIn_append_incomplete d _ id hpart
    refine ⟨fun _ id => ⟨hv id, by simp only [visibleVer, hv id]⟩, fun h => by omega,
      fun id h => by rw [hv id]; exact h, ?_, fun h => by omega⟩
    rw [hd, nextID_append_incomplete d _ hpart]
    exact Nat.le_refl _
  · have hd : d' = d ++ [mkOut (name, ids)] := h
    have hv : ∀ id, visibleIn d' id = if id ∈ ids then some name else visibleIn d id := fun id => by
      rw [hd]; exact visibleIn_append_newer d (name, ids) id hnew
    refine ⟨fun h => by omega, fun _ id => ⟨hv id, ?_⟩, ?_, ?_, ?_⟩
    · simp only [visibleVer, hv id]
      split <;> rfl
    · intro id h
      rw [hv id]; split
      · rfl
      · exact h
    · rw [hd]
      exact nextID_mono _ _ fun f hf hc i hi => ⟨f, List.mem_append.mpr (Or.inl hf), hc, hi⟩
    · intro _ id hid
      rw [hd]
      exact lt_nextID _ (mkOut (name, ids)) (by simp) rfl id hid

/-! ### (2) merge -/

/-- crash at any point of a merge (any prefix of "write every output completely, then remove the
    inputs"): every id is served in the same version as before and the next id is unchanged. -/
theorem merge_crash_safe (ver : Nat → Nat → Nat) (d : List IndexFile) (inputs : List Nat)
    (outputs : List (Nat × List Nat)) (h : MergeOK ver d inputs outputs) (k : Nat) :
    let d' := applyOps d ((mergeOps inputs outputs).take k)
    (∀ id, visibleVer d' ver id = visibleVer d ver id) ∧ nextID d' = nextID d := by
  intro d'
  obtain ⟨D, E, hd, hD, hE, hall⟩ := merge_prefix_shape d inputs outputs h.fresh h.inputs_exist k
  have hd' : d' = d.filter (fun f => !(D.contains f.name)) ++ E := hd
  rw [hd']
  exact ⟨shape_visibleVer ver d inputs outputs D E h.fresh h.inputs_complete h.cover h.version
      h.no_newer_outsider hD hE hall,
    shape_nextID d inputs outputs D E h.inputs_complete h.cover hD hE hall⟩

/-- consequence: the set of visible ids is the same at every crash point of a merge -/
theorem merge_crash_same_ids (ver : Nat → Nat → Nat) (d : List IndexFile) (inputs : List Nat)
    (outputs : List (Nat × List Nat)) (h : MergeOK ver d inputs outputs) (k : Nat) (id : Nat) :
    (visibleIn (applyOps d ((mergeOps inputs outputs).take k)) id).isSome = (visibleIn d id).isSome := by
  have := (merge_crash_safe ver d inputs outputs h k).1 id
  simp only [visibleVer] at this
  have h2 := congrArg Option.isSome this
  simpa using h2

/-! F18: without `no_newer_outsider` the statement is false.  Files 0,1,2; file 2 holds a newer
    version of stream 1 than file 1; merging files 0 and 1 (not a suffix of the stack) into file 3
    satisfies every other hypothesis, but after the restart stream 1 is served by file 3 in the
    OLD version of file 1: the newer version of file 2 is shadowed. -/

def f18Disk : List IndexFile := [⟨0, true, [0, 1]⟩, ⟨1, true, [1, 2]⟩, ⟨2, true, [1]⟩]
/-- version = name of the file the data came from; the merged file 3 carries file 0's data for
    stream 0 and file 1's data for streams 1 and 2 -/
def f18Ver : Nat → Nat → Nat := fun file id => if file = 3 then (if id = 0 then 0 else 1) else file

theorem merge_not_suffix_counterexample :
    MergeBase f18Ver f18Disk [0, 1] [(3, [0, 1, 2])] ∧
    ¬ DisjointAbove f18Disk [0, 1] ∧ ¬ NoNewerOutsider f18Disk [0, 1] ∧
    visibleVer f18Disk f18Ver 1 = some 2 ∧
    (∀ k ∈ [2, 3, 4],
      visibleVer (applyOps f18Disk ((mergeOps [0, 1] [(3, [0, 1, 2])]).take k)) f18Ver 1 = some 1) := by
  refine ⟨⟨?_, ?_, ?_, ?_, ?_⟩, ?_, ?_, by decide, by decide⟩
  · unfold Newer; decide
  · decide
  · decide
  · intro id
    simp only [InputId, f18Disk]
    constructor
    · rintro ⟨o, ho, hid⟩
      have : o = (3, [0, 1, 2]) := by simpa using ho
      subst this
      have : id = 0 ∨ id = 1 ∨ id = 2 := by simpa using hid
      rcases this with rfl | rfl | rfl <;> decide
    · rintro ⟨f, hf, hn, hid⟩
      refine ⟨(3, [0, 1, 2]), by simp, ?_⟩
      have : f = ⟨0, true, [0, 1]⟩ ∨ f = ⟨1, true, [1, 2]⟩ ∨ f = ⟨2, true, [1]⟩ := by simpa using hf
      rcases this with rfl | rfl | rfl
      · have : id = 0 ∨ id = 1 := by simpa using hid
        rcases this with rfl | rfl <;> decide
      · have : id = 1 ∨ id = 2 := by simpa using hid
        rcases this with rfl | rfl <;> decide
      · exact absurd hn (by decide)
  · intro o ho id hid n hn
    have : o = (3, [0, 1, 2]) := by simpa using ho
    subst this
    have : id = 0 ∨ id = 1 ∨ id = 2 := by simpa using hid
    rcases this with rfl | rfl | rfl
    · have : newestInput f18Disk [0, 1] 0 = some 0 := by decide
      rw [this] at hn; cases hn; decide
    · have : newestInput f18Disk [0, 1] 1 = some 1 := by decide
      rw [this] at hn; cases hn; decide
    · have : newestInput f18Disk [0, 1] 2 = some 1 := by decide
      rw [this] at hn; cases hn; decide
  · intro h
    exact h ⟨2, true, [1]⟩ (by decide) (by decide) ⟨⟨0, true, [0, 1]⟩, by decide, by decide, by decide⟩ 1
      (by decide) ⟨⟨0, true, [0, 1]⟩, by decide, by decide, by decide⟩
  · intro h
    obtain ⟨f, hf, hn, _, hlt⟩ := h ⟨2, true, [1]⟩ (by decide) rfl (by decide) 1 (by decide)
      ⟨⟨0, true, [0, 1]⟩, by decide, by decide, by decide⟩
    have : f = ⟨0, true, [0, 1]⟩ ∨ f = ⟨1, true, [1, 2]⟩ ∨ f = ⟨2, true, [1]⟩ := by
      simpa [f18Disk] using hf
    rcases this with rfl | rfl | rfl
    · exact absurd hlt (by decide)
    · exact absurd hlt (by decide)
    · exact absurd hn (by decide)

/-- hence the merge theorem without the condition is false -/
theorem merge_without_condition_false :
    ¬ (∀ (ver : Nat → Nat → Nat) (d : List IndexFile) (inputs : List Nat)
        (outputs : List (Nat × List Nat)), MergeBase ver d inputs outputs → ∀ k id,
        visibleVer (applyOps d ((mergeOps inputs outputs).take k)) ver id = visibleVer d ver id) := by
  intro h
  have h1 := h f18Ver f18Disk [0, 1] [(3, [0, 1, 2])] merge_not_suffix_counterexample.1 2 1
  exact absurd h1 (by decide)

/-! ### (3) the crash emulation: cutting the file under construction -/

/-- the names of the files the job writes are newer than the disk and distinct.
    -- ADDED: distinctness of the output names (a directory cannot hold two files of one name, and
    `cutFile` addresses a file by its name; `crash_cut_dup_names_counterexample`) -/
def JobFresh (d : List IndexFile) : Job → Prop
  | .imp name _ => Newer d name
  | .merge _ outs => (∀ o ∈ outs, Newer d o.1) ∧ (outs.map (·.1)).Nodup

/-- zeroing the header of the file under construction (the file written by the last operation, as
    long as the job has not begun to delete) at crash point `k` gives the disk of an EARLIER crash
    point `k' ≤ k` of the same job -/
theorem crash_cut_prefix (d : List IndexFile) (j : Job) (h : JobFresh d j) (k : Nat) :
    ∃ k', k' ≤ k ∧
      cutOpt (underConstruction (j.ops.take k)) (applyOps d (j.ops.take k)) = applyOps d (j.ops.take k') := by
  cases j with
  | imp name ids => exact import_cut d name ids (fun f hf => Nat.ne_of_lt (h f hf)) k
  | merge ins outs =>
    exact merge_cut d ins outs h.2 (fun o ho f hf => Nat.ne_of_lt (h.1 o ho f hf)) k

/-- the set of disks reachable by "prefix, optionally with the file under construction cut" is
    exactly the set of prefix disks -/
theorem crash_cut_newest_only (d : List IndexFile) (j : Job) (h : JobFresh d j) (x : List IndexFile) :
    (∃ k, x = applyOps d (j.ops.take k) ∨
          x = cutOpt (underConstruction (j.ops.take k)) (applyOps d (j.ops.take k))) ↔
    (∃ k, x = applyOps d (j.ops.take k)) := by
  constructor
  · rintro ⟨k, rfl | rfl⟩
    · exact ⟨k, rfl⟩
    · obtain ⟨k', _, hk'⟩ := crash_cut_prefix d j h k
      exact ⟨k', hk'⟩
  · rintro ⟨k, rfl⟩
    exact ⟨k, Or.inl rfl⟩

/-! ADDED (rule 3): (3) is stated for the file UNDER CONSTRUCTION (`underConstruction`: the last
    operation is a `create` or a `finish`).  For "the most recently written index file"
    (`lastWritten`) it is false once the merge has begun to remove its inputs: the newest file is then
    the last output, and zeroing its header while an input is already gone loses a stream.  A crash
    emulation must therefore not cut the newest index file of a copy taken in the release phase of a
    merge. -/

def cutDisk : List IndexFile := [⟨0, true, [0]⟩, ⟨1, true, [1]⟩]
def cutOps : List IdxOp := mergeOps [0, 1] [(2, [0, 1])]

theorem crash_cut_delete_phase_counterexample :
    MergeOK (fun _ _ => 0) cutDisk [0, 1] [(2, [0, 1])] ∧
    lastWritten (cutOps.take 3) = some 2 ∧ underConstruction (cutOps.take 3) = none ∧
    visibleIn cutDisk 0 = some 0 ∧
    visibleIn (cutOpt (lastWritten (cutOps.take 3)) (applyOps cutDisk (cutOps.take 3))) 0 = none ∧
    (∀ k ∈ [0, 1, 2, 3, 4],
      cutOpt (lastWritten (cutOps.take 3)) (applyOps cutDisk (cutOps.take 3)) ≠ applyOps cutDisk (cutOps.take k)) := by
  refine ⟨⟨⟨?_, by decide, by decide, ?_, fun _ _ _ _ _ _ => rfl⟩, ?_⟩, by decide, by decide, by decide,
    by decide, by decide⟩
  · unfold Newer; decide
  · intro id
    simp only [InputId, cutDisk]
    constructor
    · rintro ⟨o, ho, hid⟩
      have : o = (2, [0, 1]) := by simpa using ho
      subst this
      have : id = 0 ∨ id = 1 := by simpa using hid
      rcases this with rfl | rfl <;> decide
    · rintro ⟨f, hf, _, hid⟩
      refine ⟨(2, [0, 1]), by simp, ?_⟩
      have : f = ⟨0, true, [0]⟩ ∨ f = ⟨1, true, [1]⟩ := by simpa using hf
      rcases this with rfl | rfl
      · have : id = 0 := by simpa using hid
        subst this; decide
      · have : id = 1 := by simpa using hid
        subst this; decide
  · intro g hg _ hgn
    have : g = ⟨0, true, [0]⟩ ∨ g = ⟨1, true, [1]⟩ := by simpa [cutDisk] using hg
    rcases this with rfl | rfl <;> exact absurd hgn (by decide)

/-- without distinct output names (3) fails: cutting "the" file named 5 cuts both -/
theorem crash_cut_dup_names_counterexample :
    let ops := mergeOps [] [(5, [0]), (5, [1])]
    ∀ k ∈ [0, 1, 2, 3, 4], cutOpt (underConstruction (ops.take 4)) (applyOps [] (ops.take 4)) ≠
      applyOps [] (ops.take k) := by
  decide

/-- an import job that writes several files is the concatenation of one-file imports, so its crash
    points are covered by `restart_ids_stable` with the files as consecutive `imp` jobs -/
theorem multi_file_import_is_concatenation (d : List IndexFile) (o : Nat × List Nat)
    (os : List (Nat × List Nat)) :
    writeOps (o :: os) = importOps o.1 o.2 ++ writeOps os ∧
    applyOps d (writeOps (o :: os)) = runJobs d ((o :: os).map fun o => Job.imp o.1 o.2) := by
  refine ⟨rfl, ?_⟩
  generalize o :: os = l
  induction l generalizing d with
  | nil => rfl
  | cons p ps ih => exact ih (applyOps d (importOps p.1 p.2))

/-! ### the stack: suffix merges, resolution through the stack, the driver view -/

/-- a merge over a SUFFIX of the stack satisfies the stack-position condition, and its inputs are
    complete files of the disk -/
theorem suffix_inputs_ok (d : List IndexFile) (hu : UniqueNames d) (i : Nat) :
    let inputs := ((stack d).drop i).map (·.name)
    (∀ n ∈ inputs, ∃ f ∈ d, f.name = n) ∧ (∀ f ∈ d, f.name ∈ inputs → f.complete = true) ∧
    NoNewerOutsider d inputs := by
  intro inputs
  have hmem : ∀ f ∈ d, f.name ∈ inputs → f ∈ (stack d).drop i := by
    intro f hf hn
    obtain ⟨f', hf', hn'⟩ := List.mem_map.mp hn
    have hf'd := ((mem_stack d f').mp (List.mem_of_mem_drop hf')).1
    have : f' = f := eq_of_name_eq d hu f' f hf'd hf hn'
    exact this ▸ hf'
  refine ⟨?_, ?_, ?_⟩
  · intro n hn
    obtain ⟨f, hf, rfl⟩ := List.mem_map.mp hn
    exact ⟨f, ((mem_stack d f).mp (List.mem_of_mem_drop hf)).1, rfl⟩
  · intro f hf hn
    exact ((mem_stack d f).mp (List.mem_of_mem_drop (hmem f hf hn))).2
  · intro g hg hgc hgn id _ hin
    obtain ⟨f, hf, hfn, hfid⟩ := hin
    refine ⟨f, hf, hfn, hfid, ?_⟩
    have hfd := hmem f hf hfn
    have hgs : g ∈ stack d := (mem_stack d g).mpr ⟨hg, hgc⟩
    rw [← List.take_append_drop i (stack d)] at hgs
    rcases List.mem_append.mp hgs with hgt | hgd
    · have hs := strict_stack d hu
      rw [← List.take_append_drop i (stack d)] at hs
      exact (List.pairwise_append.mp hs).2.2 g hgt f hfd
    · exact absurd (List.mem_map.mpr ⟨g, hgd, rfl⟩) hgn

/-- the hypotheses of the merge theorem for a merge over a suffix of the stack -/
theorem mergeOK_of_suffix (ver : Nat → Nat → Nat) (d : List IndexFile) (hu : UniqueNames d) (i : Nat)
    (outputs : List (Nat × List Nat))
    (hfresh : ∀ o ∈ outputs, Newer d o.1)
    (hcover : ∀ id, (∃ o ∈ outputs, id ∈ o.2) ↔ InputId d (((stack d).drop i).map (·.name)) id)
    (hver : ∀ o ∈ outputs, ∀ id ∈ o.2, ∀ n,
      newestInput d (((stack d).drop i).map (·.name)) id = some n → ver o.1 id = ver n id) :
    MergeOK ver d (((stack d).drop i).map (·.name)) outputs := by
  obtain ⟨h1, h2, h3⟩ := suffix_inputs_ok d hu i
  exact ⟨⟨hfresh, h1, h2, hcover, hver⟩, h3⟩

/-- `visibleIn` (maximum name) is how the service resolves an id: the last file of the stack holding it;
    the stack holds exactly the complete files, in name order -/
theorem visibleIn_is_stack_lookup (d : List IndexFile) (id : Nat) :
    visibleInStack d id = visibleIn d id ∧
    (∀ g, g ∈ stack d ↔ g ∈ d ∧ g.complete = true) ∧
    (stack d).Pairwise (fun a b => a.name ≤ b.name) :=
  ⟨visibleInStack_eq d id, mem_stack d, sorted_stack d⟩

/-- the driver view lists exactly the visible ids with their serving file, sorted by id -/
theorem recoverView_spec (d : List IndexFile) :
    (∀ id n, (id, n) ∈ recoverView d ↔ visibleIn d id = some n) ∧
    (recoverView d).Pairwise (fun a b => a.1 < b.1) :=
  ⟨mem_recoverView d, sorted_recoverView d⟩

/-- `nextID` is above every id of every complete file, and is the least such bound -/
theorem nextID_spec (d : List IndexFile) :
    (∀ f ∈ d, f.complete = true → ∀ i ∈ f.ids, i < nextID d) ∧
    (∀ b, (∀ f ∈ d, f.complete = true → ∀ i ∈ f.ids, i < b) → nextID d ≤ b) :=
  ⟨fun f hf hc i hi => lt_nextID d f hf hc i hi, fun b h => (nextID_le d b).mpr h⟩

/-! ### (4) composition over a history -/

/-- the hypotheses of a job on the disk it starts from -/
def JobOK (ver : Nat → Nat → Nat) (d : List IndexFile) : Job → Prop
  | .imp name _ => Newer d name
  | .merge ins outs => MergeOK ver d ins outs
    -- `MergeOK.no_newer_outsider` holds for merges over a suffix of the stack (`mergeOK_of_suffix`)
    -- and under the disjointness condition (`noNewerOutsider_of_disjoint`)

/-- every job of the history satisfies its hypotheses on the disk its predecessors left -/
def HistOK (ver : Nat → Nat → Nat) : List IndexFile → List Job → Prop
  | _, [] => True
  | d, j :: js => JobOK ver d j ∧ HistOK ver (applyOps d j.ops) js

theorem runJobs_append (d : List IndexFile) (a b : List Job) :
    runJobs d (a ++ b) = runJobs (runJobs d a) b := by
  simp [runJobs, List.foldl_append]

theorem histOK_append (ver : Nat → Nat → Nat) (d : List IndexFile) (a b : List Job) :
    HistOK ver d (a ++ b) ↔ HistOK ver d a ∧ HistOK ver (runJobs d a) b := by
  induction a generalizing d with
  | nil => simp [HistOK, runJobs]
  | cons j js ih =>
    simp only [List.cons_append, HistOK, ih, and_assoc]
    rfl

/-- one job, crashed at any point (or completed): nothing visible is lost, `nextID` does not
    decrease, and before the last operation every id is served in the same version -/
theorem job_prefix_safe (ver : Nat → Nat → Nat) (d : List IndexFile) (j : Job) (h : JobOK ver d j)
    (k : Nat) :
    let d' := applyOps d (j.ops.take k)
    nextID d ≤ nextID d' ∧
    (∀ id, (visibleIn d id).isSome = true → (visibleIn d' id).isSome = true) ∧
    (k < j.ops.length → ∀ id, visibleVer d' ver id = visibleVer d ver id) := by
  cases j with
  | imp name ids =>
    obtain ⟨h1, _, h3, h4, _⟩ := import_crash_safe ver d name ids h k
    exact ⟨h4, h3, fun hk id => (h1 hk id).2⟩
  | merge ins outs =>
    obtain ⟨h1, h2⟩ := merge_crash_safe ver d ins outs h k
    refine ⟨Nat.le_of_eq h2.symm, fun id hid => ?_, fun _ => h1⟩
    rw [← hid]
    exact merge_crash_same_ids ver d ins outs h k id

/-- completed jobs never lose a visible id and never lower `nextID` -/
theorem history_monotone (ver : Nat → Nat → Nat) (d : List IndexFile) (js : List Job)
    (h : HistOK ver d js) :
    nextID d ≤ nextID (runJobs d js) ∧
    (∀ id, (visibleIn d id).isSome = true → (visibleIn (runJobs d js) id).isSome = true) := by
  induction js generalizing d with
  | nil => exact ⟨Nat.le_refl _, fun _ h => h⟩
  | cons j js ih =>
    obtain ⟨hj, hjs⟩ := h
    have h1 := job_prefix_safe ver d j hj j.ops.length
    rw [List.take_length] at h1
    obtain ⟨h2, h3⟩ := ih (applyOps d j.ops) hjs
    exact ⟨Nat.le_trans h1.1 h2, fun id hid => h3 id (h1.2.1 id hid)⟩

/-- a history of import and merge jobs, the last one crashed at an arbitrary point `k`:
    * if the crash is inside the last job, the restart serves EVERY id in exactly the version it had
      after the last completed job (otherwise the last job is completed);
    * `nextID` is at least the next id of the last completed job — and of every earlier moment of the
      history, and above every id that any completed state of the history held: no id is handed out
      twice after a restart;
    * every id that was visible at any earlier moment of the history is still visible. -/
theorem restart_ids_stable (ver : Nat → Nat → Nat) (d0 : List IndexFile) (js : List Job) (j : Job)
    (h : HistOK ver d0 (js ++ [j])) (k : Nat) :
    let dc := runJobs d0 js                      -- the disk after the last completed job
    let d' := applyOps dc (j.ops.take k)         -- the disk the restart finds
    (k < j.ops.length → ∀ id, visibleVer d' ver id = visibleVer dc ver id) ∧
    (j.ops.length ≤ k → d' = runJobs d0 (js ++ [j])) ∧
    nextID dc ≤ nextID d' ∧
    (∀ i, let past := runJobs d0 (js.take i)
      nextID past ≤ nextID d' ∧
      (∀ id, (visibleIn past id).isSome = true → (visibleIn d' id).isSome = true) ∧
      (∀ f ∈ past, f.complete = true → ∀ id ∈ f.ids, id < nextID d')) := by
  intro dc d'
  obtain ⟨hjs, hj⟩ := (histOK_append ver d0 js [j]).mp h
  have hj' : JobOK ver dc j := hj.1
  obtain ⟨h1, h2, h3⟩ := job_prefix_safe ver dc j hj' k
  refine ⟨h3, ?_, h1, ?_⟩
  · intro hk
    show applyOps dc (j.ops.take k) = _
    rw [List.take_of_length_le hk, runJobs_append]
    rfl
  · intro i past
    have hsplit : HistOK ver d0 (js.take i ++ js.drop i) := by rw [List.take_append_drop]; exact hjs
    obtain ⟨_, hdrop⟩ := (histOK_append ver d0 _ _).mp hsplit
    obtain ⟨m1, m2⟩ := history_monotone ver past (js.drop i) hdrop
    have hdc : runJobs past (js.drop i) = dc := by
      show runJobs (runJobs d0 (js.take i)) (js.drop i) = runJobs d0 js
      rw [← runJobs_append, List.take_append_drop]
    rw [hdc] at m1 m2
    have hn : nextID past ≤ nextID d' := Nat.le_trans m1 h1
    exact ⟨hn, fun id hid => h2 id (m2 id hid),
      fun f hf hc id hid => Nat.lt_of_lt_of_le (lt_nextID past f hf hc id hid) hn⟩

/-- unique names are an invariant of every crash point of every history whose jobs write fresh,
    distinct names -/
theorem uniqueNames_prefix (d : List IndexFile) (j : Job) (hu : UniqueNames d) (h : JobFresh d j)
    (k : Nat) : UniqueNames (applyOps d (j.ops.take k)) := by
  cases j with
  | imp name ids =>
    exact uniqueNames_merge_prefix d [] [(name, ids)] hu (by simp)
      (by intro o ho f hf; have : o = (name, ids) := by simpa using ho
          subst this; exact Nat.ne_of_lt (h f hf)) k
  | merge ins outs =>
    exact uniqueNames_merge_prefix d ins outs hu h.2
      (fun o ho f hf => Nat.ne_of_lt (h.1 o ho f hf)) k

/-! ### non-vacuity: a disk with three files, a merge of the last two, every prefix -/

def exDisk : List IndexFile := [⟨0, true, [0, 1]⟩, ⟨1, true, [1, 2]⟩, ⟨2, true, [2, 3]⟩]
def exOps : List IdxOp := mergeOps [1, 2] [(3, [1, 2, 3])]
/-- version = the file the data came from; file 3 carries file 1's stream 1 and file 2's streams 2, 3 -/
def exVer : Nat → Nat → Nat := fun file id => if file = 3 then (if id = 1 then 1 else 2) else file

example : recoverView exDisk = [(0, 0), (1, 1), (2, 2), (3, 2)] := by decide
example : nextID exDisk = 4 := by decide
example : (stack exDisk).map (·.name) = [0, 1, 2] := by decide
example : exOps.length = 4 := by decide
example : ((stack exDisk).drop 1).map (·.name) = [1, 2] := by decide
-- every prefix: same versions, same next id
example : ∀ k ∈ [0, 1, 2, 3, 4, 5], ∀ id ∈ [0, 1, 2, 3, 4],
    visibleVer (applyOps exDisk (exOps.take k)) exVer id = visibleVer exDisk exVer id := by decide
example : ∀ k ∈ [0, 1, 2, 3, 4, 5], nextID (applyOps exDisk (exOps.take k)) = 4 := by decide
-- the serving file changes at the second operation (header of the merged file written)
example : recoverView (applyOps exDisk (exOps.take 1)) = [(0, 0), (1, 1), (2, 2), (3, 2)] := by decide
example : recoverView (applyOps exDisk (exOps.take 2)) = [(0, 0), (1, 3), (2, 3), (3, 3)] := by decide
example : recoverView (applyOps exDisk (exOps.take 3)) = [(0, 0), (1, 3), (2, 3), (3, 3)] := by decide
example : applyOps exDisk exOps = [⟨0, true, [0, 1]⟩, ⟨3, true, [1, 2, 3]⟩] := by decide
-- cutting the file under construction: prefix 2 → prefix 1
example : cutOpt (underConstruction (exOps.take 2)) (applyOps exDisk (exOps.take 2)) =
    applyOps exDisk (exOps.take 1) := by decide
-- an import on top, every prefix
example : ∀ k ∈ [0, 1], recoverView (applyOps exDisk ((importOps 3 [3, 4]).take k)) = recoverView exDisk := by
  decide
example : recoverView (applyOps exDisk (importOps 3 [3, 4])) = [(0, 0), (1, 1), (2, 2), (3, 3), (4, 3)] := by
  decide
example : nextID (applyOps exDisk (importOps 3 [3, 4])) = 5 := by decide

/-- the hypotheses of the merge theorem are satisfiable: the example merge (a suffix of the stack) -/
example : MergeOK exVer exDisk [1, 2] [(3, [1, 2, 3])] := by
  have hu : UniqueNames exDisk := by unfold UniqueNames; decide
  have hs : ((stack exDisk).drop 1).map (·.name) = [1, 2] := by decide
  have := mergeOK_of_suffix exVer exDisk hu 1 [(3, [1, 2, 3])]
  rw [hs] at this
  apply this
  · unfold Newer; decide
  · intro id
    simp only [InputId, exDisk]
    constructor
    · rintro ⟨o, ho, hid⟩
      have : o = (3, [1, 2, 3]) := by simpa using ho
      subst this
      have : id = 1 ∨ id = 2 ∨ id = 3 := by simpa using hid
      rcases this with rfl | rfl | rfl <;> decide
    · rintro ⟨f, hf, hn, hid⟩
      refine ⟨(3, [1, 2, 3]), by simp, ?_⟩
      have : f = ⟨0, true, [0, 1]⟩ ∨ f = ⟨1, true, [1, 2]⟩ ∨ f = ⟨2, true, [2, 3]⟩ := by simpa using hf
      rcases this with rfl | rfl | rfl
      · exact absurd hn (by decide)
      · have : id = 1 ∨ id = 2 := by simpa using hid
        rcases this with rfl | rfl <;> decide
      · have : id = 2 ∨ id = 3 := by simpa using hid
        rcases this with rfl | rfl <;> decide
  · intro o ho id hid n hn
    have : o = (3, [1, 2, 3]) := by simpa using ho
    subst this
    have : id = 1 ∨ id = 2 ∨ id = 3 := by simpa using hid
    rcases this with rfl | rfl | rfl
    · have : newestInput exDisk [1, 2] 1 = some 1 := by decide
      rw [this] at hn; cases hn; decide
    · have : newestInput exDisk [1, 2] 2 = some 2 := by decide
      rw [this] at hn; cases hn; decide
    · have : newestInput exDisk [1, 2] 3 = some 2 := by decide
      rw [this] at hn; cases hn; decide

end Pk.Props.C12Idx
