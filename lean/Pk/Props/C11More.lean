/-
  C11More — the two parts of C11 that Pk/Props/C11.lean lists as not proved.

  (1) mark add / mark del change exactly the ids named
        mark_add_applies, mark_del_applies     the call succeeds; the mark matches old ∪ ids / old \ ids; its
                                               pending set is the old one again (`prevUncertain`), condition and
                                               text are rewritten, nothing
                                               else of it changes; every other tag is unchanged up to its pending
                                               set; every id whose membership changed is pending for every tag
                                               that (transitively) references the mark
        mark_add_definition                    the four cases of the text `markAddApply` writes
        mark_add_definition_denotes,           the text written denotes exactly the new match set
        mark_del_definition_denotes              (contract `DefSem` on the parser's reading of `id:-1` and of
                                                 plain id lists; satisfiable: defSem_satisfiable,
                                                 mark_add_or_reading_satisfiable)
        mark_add_definition_sem                  new text = old text ∪ ids really added, stream by stream
        MarkDefInv, markDefInv_step,           "the text of every mark denotes its match set on the decided (not
        markDefInv_reachable                     pending) streams" is an invariant of EVERY call, query updates of
                                                 marks included, under the payload contract `OpDenotes`
        MarkCondInv, markCondInv_step          the condition the tagging job evaluates denotes the text
        settle_markDefStrict(_reachable)       hence once the tagging jobs have run (`settle`) the text of every
                                                 mark denotes its match set exactly, nothing pending
  (2) start-up validation of a saved tag table
        loadTags_graph                         an accepted table is loaded as a well-formed graph holding exactly
                                               the saved tags with the saved definition, colour, parse facts
        loadTags_rejects_only_bad              (iff) rejected = parse error ∨ duplicate name ∨ mark without id list
                                               ∨ self reference ∨ missing reference ∨ reference cycle
        loadTags_roundtrip(_of_inv)            the table saved from a reachable state loads back to the same tags,
                                               definitions, colours, parse facts, references and referrers
        reachable_invariants                   GraphWF ∧ distinct keys ∧ "all tags known, marks have id conditions"

  Statements that are false as first written, with counterexamples proved here:
    * the STRICT reading "text denotes match set on all streams" is not preserved by UpdateTag(query) on a
      mark (every stream is pending until the tagging job has run)    markDefStrict_query_counterexample
      → `MarkDefInv` is pending-aware; with the pending set restored after a mark update (`prevUncertain`,
        model corrected) it is preserved by all calls                 mark_add_after_query_keeps_pending
    * the round trip does not keep converters                        loadTags_roundtrip_converters_counterexample
      → `Reloaded` does not mention converters; `t'.converters = []` is proved instead
  No hypothesis on names is needed: the two mark-name tests of the code (`markPrefix`, `parseTagName`) agree on
  every string (`nameOK`, from the definition of the legacy `String.splitOn`).

  Helper lemmas: Pk/Proofs/TagGraphMore{Sets,Inherit,Mark,Text,Load,Inv,Check,Names}.lean.
  Model: Pk/Model/TagGraph.lean (with `updMark` corrected to restore the previous pending set, see below).  Every statement is for all states / names / id lists /
  saved tables / call sequences (no bound).
-/
import Pk.Model.TagGraph
import Pk.Proofs.TagGraph
import Pk.Proofs.TagGraphMoreSets
import Pk.Proofs.TagGraphMoreInherit
import Pk.Proofs.TagGraphMoreMark
import Pk.Proofs.TagGraphMoreText
import Pk.Proofs.TagGraphMoreLoad
import Pk.Proofs.TagGraphMoreInv
import Pk.Proofs.TagGraphMoreCheck
import Pk.Proofs.TagGraphMoreNames
import Pk.Props.C11

namespace Pk.Props.C11More
open Pk.TagGraph Pk.Proofs.TagGraph Pk.Proofs.TagGraphMore
open Pk.Props.C11 (GraphWF)

/-! ## (1) mark add / mark del -/

/-- `k` references `name` through a non-empty chain of main/sub references -/
def References (m : TagMap) (k name : Name) : Prop := k ≠ name ∧ RefersTo m name k

/-- the fields of a tag that a mark add / mark del of another tag, or of this tag, never touches -/
abbrev SameOther (a b : Tag) : Prop := sameOther a b

/-- every field but `uncertain` agrees -/
def SameButUncertain (a b : Tag) : Prop :=
  a.definition = b.definition ∧ a.mainTags = b.mainTags ∧ a.subTags = b.subTags ∧
  a.mainFeat = b.mainFeat ∧ a.subFeat = b.subFeat ∧ a.cond = b.cond ∧ a.matched = b.matched ∧
  a.known = b.known ∧ a.color = b.color ∧ a.converters = b.converters ∧ a.referencedBy = b.referencedBy

/-- what a successful mark add / mark del leaves for the other tags: the same tags (none appears, none
    disappears), each unchanged except for its `uncertain` set -/
def OthersKept (name : Name) (m m' : TagMap) : Prop :=
  ∀ k, k ≠ name →
    (tget m k = none → tget m' k = none) ∧
    (∀ u, tget m k = some u → ∃ u', tget m' k = some u' ∧ SameButUncertain u' u)

theorem othersKept_of_clearU (name : Name) (m m' : TagMap)
    (h : ∀ k, k ≠ name → (tget m' k).map clearU = (tget m k).map clearU) : OthersKept name m m' := by
  intro k hk
  have := h k hk
  constructor
  · intro hn
    rw [hn] at this
    cases h' : tget m' k with
    | none => rfl
    | some u => rw [h'] at this; cases this
  · intro u hu
    rw [hu] at this
    cases h' : tget m' k with
    | none => rw [h'] at this; cases this
    | some u' =>
      rw [h'] at this
      exact ⟨u', rfl, clearU_eq (by simpa using this)⟩

/-- **mark add.**  For a well-formed table, a known mark and a non-empty id list within range the call
    succeeds, and afterwards
    * the mark matches exactly `old ∪ ids`,
    * its pending set is the OLD one (while `inheritTagUncertainty` runs it is old ∪ changed ids, then
      `mgr.tags[name].Uncertain = prevUncertain` puts the old set back), its other fields
      (colour, converters, references, referrers, …) are unchanged,
    * its condition is the old one united with the ids really added and its definition text is the one
      `markAddApply` writes (see `mark_add_definition`),
    * every other tag is unchanged except for its pending set,
    * every id that became a member is pending for every tag that (transitively) references the mark. -/
theorem mark_add_applies (st : State) (name : Name) (ids : List Nat) (t : Tag)
    (wf : GraphWF st) (ht : tget st.tags name = some t) (hmark : markPrefix name = true)
    (hknown : t.known = true) (hne : ids ≠ []) (hmax : maxUsed ids ≤ st.nextStreamID) :
    ∃ st' t', step st (.markAdd name ids) = (.ok, st') ∧
      st'.nextStreamID = st.nextStreamID ∧ st'.convs = st.convs ∧
      tget st'.tags name = some t' ∧
      (∀ x, x ∈ t'.matched ↔ x ∈ t.matched ∨ x ∈ ids) ∧
      t'.uncertain = t.uncertain ∧  -- CHANGED (prevUncertain)
      SameOther t' t ∧
      t'.cond = t.cond.map (fun c => unionNat c (addedOf t.matched ids)) ∧
      t'.definition = (markAddApply t ids).definition ∧
      OthersKept name st.tags st'.tags ∧
      (∀ k u', References st.tags k name → tget st'.tags k = some u' →
        ∀ x, x ∈ ids → x ∉ t.matched → x ∈ u'.uncertain) := by
  obtain ⟨st', h1, h2, h3, h4, h5, h6⟩ := updMark_spec st name true ids t wf ht hmark hknown hne hmax
  refine ⟨st', { markAddApply t ids with uncertain := t.uncertain }, h1, h2, h3, h4, ?_, rfl, markAddApply_other t ids,
    markAddApply_cond t ids, rfl, othersKept_of_clearU _ _ _ h5, ?_⟩
  · exact mem_markAddApply_matched t ids
  · intro k u' hk hu' x hx hxn
    exact h6 k u' hk.1 hk.2 hu' x ⟨hx, by simpa using hxn⟩

/-- **mark del.**  As `mark_add_applies`, with `old \ ids`; the condition becomes exactly the new set. -/
theorem mark_del_applies (st : State) (name : Name) (ids : List Nat) (t : Tag)
    (wf : GraphWF st) (ht : tget st.tags name = some t) (hmark : markPrefix name = true)
    (hknown : t.known = true) (hne : ids ≠ []) (hmax : maxUsed ids ≤ st.nextStreamID) :
    ∃ st' t', step st (.markDel name ids) = (.ok, st') ∧
      st'.nextStreamID = st.nextStreamID ∧ st'.convs = st.convs ∧
      tget st'.tags name = some t' ∧
      (∀ x, x ∈ t'.matched ↔ x ∈ t.matched ∧ x ∉ ids) ∧
      t'.uncertain = t.uncertain ∧  -- CHANGED (prevUncertain)
      SameOther t' t ∧
      t'.cond = some t'.matched ∧
      t'.definition = (if t'.matched.isEmpty then "id:-1" else "id:" ++ joinIds t'.matched) ∧
      OthersKept name st.tags st'.tags ∧
      (∀ k u', References st.tags k name → tget st'.tags k = some u' →
        ∀ x, x ∈ ids → x ∈ t.matched → x ∈ u'.uncertain) := by
  obtain ⟨st', h1, h2, h3, h4, h5, h6⟩ := updMark_spec st name false ids t wf ht hmark hknown hne hmax
  refine ⟨st', { markDelApply t ids with uncertain := t.uncertain }, h1, h2, h3, h4, ?_, rfl, markDelApply_other t ids,
    rfl, rfl, othersKept_of_clearU _ _ _ h5, ?_⟩
  · exact mem_markDelApply_matched t ids
  · intro k u' hk hu' x hx hxn
    exact h6 k u' hk.1 hk.2 hu' x ⟨hx, by simpa using hxn⟩

/-! ### the definition text -/

/-- the three branches of `markAddApply`: nothing new → the text stays; `id:-1` → `id:` + the new ids;
    a plain id list → the new ids appended; anything else → `(old) or id:` + the new ids
    (`addedOf` = the ids of the call not yet matched, in the order given, without repetition) -/
theorem mark_add_definition (t : Tag) (ids : List Nat) :
    (markAddApply t ids).definition =
      if addedOf t.matched ids = [] then t.definition
      else if t.definition == "id:-1" then "id:" ++ joinIds (addedOf t.matched ids)
      else if plainIdList t.definition then t.definition ++ "," ++ joinIds (addedOf t.matched ids)
      else orForm t.definition (addedOf t.matched ids) :=
  markAddApply_definition t ids

theorem mem_addedOf_iff (matched ids : List Nat) (x : Nat) :
    x ∈ addedOf matched ids ↔ x ∈ ids ∧ x ∉ matched := mem_addedOf matched ids x

/-- **Parser contract** for the definition texts the model itself writes (`query.Parse` is not part of the
    model): `sem d x` = "stream `x` satisfies definition `d`".  `id:-1` matches nothing and a plain id
    list `id:a,b,c` (`plainIdList`) matches exactly the ids it names (`plainIds`). -/
structure DefSem (sem : String → Nat → Prop) : Prop where
  empty : ∀ x, ¬ sem "id:-1" x
  plain : ∀ s, plainIdList s = true → ∀ x, sem s x ↔ x ∈ plainIds s

/-- the contract is satisfiable -/
theorem defSem_satisfiable : ∃ sem, DefSem sem :=
  ⟨fun s x => plainIdList s = true ∧ x ∈ plainIds s,
   ⟨fun x h => by rw [none_not_plain] at h; exact absurd h.1 (by simp),
    fun s hs x => by simp [hs]⟩⟩

/-- the text `markDelApply` writes denotes exactly the new set (no hypothesis on the old text) -/
theorem mark_del_definition_denotes (sem : String → Nat → Prop) (hs : DefSem sem) (t : Tag) (ids : List Nat) :
    ∀ x, sem (markDelApply t ids).definition x ↔ x ∈ (markDelApply t ids).matched := by
  intro x
  rw [markDelApply_definition]
  cases hm : (markDelApply t ids).matched with
  | nil =>
    simp only [List.isEmpty_nil, if_true, List.not_mem_nil, iff_false]
    exact hs.empty x
  | cons a l =>
    simp only [List.isEmpty_cons, Bool.false_eq_true, if_false]
    obtain ⟨h1, h2⟩ := plain_id_join (a :: l) (by simp)
    rw [hs.plain _ h1 x, h2]

/-- the text `markAddApply` writes, read by the parser: a stream satisfies the new text iff it satisfied
    the old one or is one of the ids really added (for the third branch: provided the parser reads
    `(d) or id:J` as the union of `d` and `J` at this stream) -/
theorem mark_add_definition_sem (sem : String → Nat → Prop) (hs : DefSem sem) (t : Tag) (ids : List Nat) (x : Nat)
    (hor : sem (orForm t.definition (addedOf t.matched ids)) x ↔
      (sem t.definition x ∨ x ∈ addedOf t.matched ids)) :
    sem (markAddApply t ids).definition x ↔ (sem t.definition x ∨ x ∈ addedOf t.matched ids) := by
  rw [markAddApply_definition]
  by_cases hadd : addedOf t.matched ids = []
  · simp [hadd]
  · simp only [hadd, if_false]
    by_cases hnone : (t.definition == "id:-1") = true
    · simp only [hnone, if_true]
      obtain ⟨h1, h2⟩ := plain_id_join _ hadd
      rw [hs.plain _ h1 x, h2]
      have hd : t.definition = "id:-1" := by simpa using hnone
      have : ¬ sem t.definition x := by rw [hd]; exact hs.empty x
      simp [this]
    · simp only [hnone, Bool.false_eq_true, if_false]
      by_cases hplain : plainIdList t.definition = true
      · simp only [hplain, if_true]
        obtain ⟨h1, h2⟩ := plain_append_join t.definition _ hplain hadd
        rw [hs.plain _ h1 x, h2, List.mem_append, ← hs.plain _ hplain x]
      · simp only [hplain, Bool.false_eq_true, if_false]
        exact hor

/-- the text `markAddApply` writes denotes exactly the new set, provided the old text denotes the old set
    and — for the third branch only — the parser reads `(d) or id:J` as the union of `d` and `J` -/
theorem mark_add_definition_denotes (sem : String → Nat → Prop) (hs : DefSem sem) (t : Tag) (ids : List Nat)
    (hor : ∀ x, sem (orForm t.definition (addedOf t.matched ids)) x ↔
      (sem t.definition x ∨ x ∈ addedOf t.matched ids))
    (hold : ∀ x, sem t.definition x ↔ x ∈ t.matched) :
    ∀ x, sem (markAddApply t ids).definition x ↔ x ∈ (markAddApply t ids).matched := by
  intro x
  rw [mark_add_definition_sem sem hs t ids x (hor x), markAddApply_matched, mem_unionNat, hold x]

/-- the hypothesis `hor` of `mark_add_definition_denotes` is consistent with the contract: the third-branch
    text is neither `id:-1` nor a plain id list nor the old text itself, so a parser meaning with the
    union reading exists for every old definition -/
theorem mark_add_or_reading_satisfiable (d : String) (ids : List Nat) :
    ∃ sem, DefSem sem ∧ ∀ x, sem (orForm d ids) x ↔ (sem d x ∨ x ∈ ids) := by
  refine ⟨fun s x => if s = orForm d ids then ((plainIdList d = true ∧ x ∈ plainIds d) ∨ x ∈ ids)
      else (plainIdList s = true ∧ x ∈ plainIds s), ⟨?_, ?_⟩, ?_⟩
  · intro x
    simp only [Ne.symm (orForm_ne_none d ids), if_false, none_not_plain]
    simp
  · intro s hs x
    have : s ≠ orForm d ids := by
      intro h; rw [h, orForm_not_plain] at hs; cases hs
    simp [this, hs]
  · intro x
    have : d ≠ orForm d ids := Ne.symm (orForm_ne_self d ids)
    simp [this]

/-! ## (2) start-up validation -/

/-- what the construction pass of `loadTags` refuses: a parse error, a name used twice, a mark whose
    definition is not an id filter -/
abbrev BuildOK (saved : List Saved) : Prop := Pk.Proofs.TagGraphMore.BuildOK saved

/-- **`loadTags_graph`.**  An accepted table is loaded as a well-formed graph with exactly the saved tags,
    each with the saved definition, colour and parse facts.  (The model's `Saved` carries no converters:
    every loaded tag has none — `loadTags` does not restore converter attachments.)
    A mark starts with the ids of its definition matched and nothing pending, any other tag with every
    stream pending. -/
theorem loadTags_graph (next : Nat) (convs : List Name) (saved : List Saved) (st : State)
    (h : loadTags next convs saved = some st) :
    GraphWF st ∧ st.nextStreamID = next ∧ st.convs = convs ∧
    (∀ n, (tget st.tags n).isSome ↔ ∃ s ∈ saved, s.name = n) ∧
    (∀ s ∈ saved, ∃ t, tget st.tags s.name = some t ∧
      t.definition = s.definition ∧ t.color = s.color ∧ t.converters = [] ∧
      t.mainTags = s.facts.mainTags ∧ t.subTags = s.facts.subTags ∧
      t.mainFeat = s.facts.mainFeat ∧ t.subFeat = s.facts.subFeat ∧
      t.cond = (if s.facts.idsOk then some s.facts.ids else none) ∧ t.known = true ∧
      t.matched = (if markPrefix s.name then s.facts.ids else []) ∧
      t.uncertain = (if markPrefix s.name then [] else List.range next) ∧
      (∀ x, x ∈ t.referencedBy ↔ ∃ s' ∈ saved, s'.name = x ∧ s.name ∈ s'.facts.refs)) := by
  obtain ⟨hok, hcl, hac, rfl⟩ := (loadTags_eq_some_iff next convs saved st).mp h
  refine ⟨loadedTags_wf next saved hok hcl hac, rfl, rfl, ?_, ?_⟩
  · intro n
    show (tget (loadedTags next saved) n).isSome ↔ _
    unfold loadedTags
    rw [loaded_isSome _ saved hok.2 n]
    simp [List.mem_map]
  · intro s hs
    obtain ⟨rb, h1, h2⟩ := tget_loaded_of_mem (List.range next) saved hok.2 s hs
    refine ⟨_, h1, ?_⟩
    unfold loadTag
    by_cases hm : markPrefix s.name = true
    · rw [if_pos hm, if_pos hm, if_pos hm]
      exact ⟨rfl, rfl, rfl, rfl, rfl, rfl, rfl, rfl, rfl, rfl, rfl, h2⟩
    · rw [if_neg hm, if_neg hm, if_neg hm]
      exact ⟨rfl, rfl, rfl, rfl, rfl, rfl, rfl, rfl, rfl, rfl, rfl, h2⟩

/-- **`loadTags_rejects_only_bad`** (exact): a saved table is rejected iff it has a parse error, a
    duplicate name, a mark whose definition is not an id filter, a tag referencing itself, a reference to
    a missing tag, or a reference cycle (no rank function).  (A self reference is the shortest cycle;
    it is listed because the model checks it separately.) -/
theorem loadTags_rejects_only_bad (next : Nat) (convs : List Name) (saved : List Saved) :
    loadTags next convs saved = none ↔
      ((∃ s ∈ saved, s.facts.parseErr = true) ∨
       ¬ (saved.map (·.name)).Nodup ∨
       (∃ s ∈ saved, markPrefix s.name = true ∧ s.facts.idsOk = false) ∨
       (∃ s ∈ saved, s.name ∈ s.facts.refs) ∨
       (∃ s ∈ saved, ∃ r ∈ s.facts.refs, r ∉ saved.map (·.name)) ∨
       ¬ ∃ rank : Name → Nat, ∀ s ∈ saved, ∀ r ∈ s.facts.refs, rank r < rank s.name) := by
  constructor
  · intro h
    apply Classical.byContradiction
    intro hno
    simp only [not_or] at hno
    obtain ⟨h1, h2, h3, _, h5, h6⟩ := hno
    have hok : BuildOK saved := by
      refine ⟨fun s hs => ⟨?_, fun hc => ?_⟩, Classical.not_not.mp h2⟩
      · cases hp : s.facts.parseErr
        · rfl
        · exact absurd ⟨s, hs, hp⟩ h1
      · exact h3 ⟨s, hs, hc⟩
    have hcl : RefsClosed saved := by
      intro s hs r hr
      exact Classical.byContradiction fun hn => h5 ⟨s, hs, r, hr, hn⟩
    have := (loadTags_eq_some_iff next convs saved _).mpr ⟨hok, hcl, Classical.not_not.mp h6, rfl⟩
    rw [h] at this; cases this
  · intro hbad
    cases hl : loadTags next convs saved with
    | none => rfl
    | some st =>
      exfalso
      obtain ⟨hok, hcl, hac, _⟩ := (loadTags_eq_some_iff next convs saved st).mp hl
      rcases hbad with ⟨s, hs, h⟩ | h | ⟨s, hs, h⟩ | ⟨s, hs, h⟩ | ⟨s, hs, r, hr, h⟩ | h
      · have := (hok.1 s hs).1
        rw [h] at this; cases this
      · exact h hok.2
      · exact (hok.1 s hs).2 h
      · exact noSelfRef_of_acyclic saved hac s hs h
      · exact h (hcl s hs r hr)
      · exact h hac

/-! ## invariants of every call sequence used below -/

/-- a call sequence all of whose calls satisfy a side condition in the state they are made in -/
def Run (C : State → Op → Prop) : State → List Op → Prop
  | _, [] => True
  | st, o :: os => C st o ∧ Run C (step st o).2 os

theorem run_invariant (I : State → Prop) (C : State → Op → Prop)
    (hstep : ∀ st op, I st → C st op → I (step st op).2) :
    ∀ (ops : List Op) (st : State), I st → Run C st ops → I (run st ops) := by
  intro ops
  induction ops with
  | nil => intro st h _; exact h
  | cons o os ih => intro st h hr; exact ih _ (hstep st o h hr.1) hr.2

/-- a fresh manager -/
def fresh (next : Nat) (convs : List Name) : State := { tags := [], nextStreamID := next, convs := convs }

/-- The code recognises a mark name in two ways: `strings.HasPrefix(name, "mark/")` (`markPrefix`, used by
    UpdateTag and the start-up validation) and `parseTagName` (cut at the first `/`, used by AddTag and the
    rename check).  Both agree on every string. -/
theorem nameOK (n : Name) : markPrefix n = (parseTagName n).2.2 := markPrefix_eq_isMark n

theorem isMark_eq_typ (n : Name) :
    (parseTagName n).2.2 = ((parseTagName n).1 == "mark" || (parseTagName n).1 == "generated") := by
  unfold parseTagName
  cases cutSlash n with
  | none => simp
  | some ts =>
    obtain ⟨typ, sub⟩ := ts
    simp only
    split
    · simp
    · rfl

/-- every tag is `known` (no settling happens inside the API) and every mark has an id condition -/
def MarkCondP (n : Name) (t : Tag) : Prop :=
  t.known = true ∧ (markPrefix n = true → t.cond.isSome = true)

def MarksHaveIds (st : State) : Prop := TagInv MarkCondP st.tags

theorem markCondP_core : CoreOnly MarkCondP := by
  intro n a b _ h2 _ h4 h
  exact ⟨h4 ▸ h.1, fun hm => h2 ▸ h.2 hm⟩

theorem idsOk_of_not_rejected (n : Name) (p : Facts) (h : defRejected n p true = false) : p.idsOk = true := by
  unfold defRejected at h
  cases hi : p.idsOk
  · simp [hi] at h
  · rfl

theorem marksHaveIds_step (st : State) (op : Op) (inv : MarksHaveIds st) :
    MarksHaveIds (step st op).2 := by
  apply step_tagInv MarkCondP st (frame_of_coreOnly markCondP_core _) op inv
  cases op with
  | add n c d p =>
    intro hrej
    have hn' : markPrefix n = (parseTagName n).2.2 := nameOK n
    constructor
    · split <;> rfl
    · intro hm
      rw [hn'] at hm
      rw [hm] at hrej
      have hi := idsOk_of_not_rejected n p hrej
      rw [if_pos hm]
      simp [mkTag, hi]
  | query n d p =>
    intro hrej t _ _
    refine ⟨rfl, fun hm => ?_⟩
    rw [hm] at hrej
    have hi := idsOk_of_not_rejected n p hrej
    simp [mkTag, hi]
  | rename n n' =>
    intro t _ hp htyp
    refine ⟨hp.1, fun hm => hp.2 ?_⟩
    have h1 : markPrefix n' = (parseTagName n').2.2 := nameOK n'
    have h2 : markPrefix n = (parseTagName n).2.2 := nameOK n
    rw [h2, isMark_eq_typ, ← htyp, ← isMark_eq_typ, ← h1]
    exact hm
  | markAdd n ids =>
    intro t _ hp
    rw [if_pos hp.1]
    refine ⟨(markAddApply_other t ids).2.2.2.2.1.trans hp.1, fun hm => ?_⟩
    show (markAddApply t ids).cond.isSome = true
    rw [markAddApply_cond]
    have := hp.2 hm
    cases hc : t.cond with
    | none => rw [hc] at this; cases this
    | some c => rfl
  | markDel n ids =>
    intro t _ hp
    rw [if_pos hp.1]
    exact ⟨hp.1, fun _ => rfl⟩
  | del n => trivial
  | color n c => trivial
  | converters n cs => trivial

/-- the invariants of every call sequence from a fresh manager that the round trip needs -/
theorem reachable_invariants (next : Nat) (convs : List Name) (ops : List Op) :
    GraphWF (run (fresh next convs) ops) ∧ KeysNodup (run (fresh next convs) ops).tags ∧
    MarksHaveIds (run (fresh next convs) ops) := by
  have hrun : ∀ (ops : List Op) (st : State), Run (fun _ _ => True) st ops := by
    intro ops
    induction ops with
    | nil => intro _; trivial
    | cons o os ih => intro st; exact ⟨trivial, ih _⟩
  refine run_invariant (fun st => GraphWF st ∧ KeysNodup st.tags ∧ MarksHaveIds st)
    (fun _ _ => True) ?_ ops _ ?_ (hrun ops _)
  · rintro st op ⟨h1, h2, h3⟩ _
    exact ⟨Pk.Props.C11.graph_step st op h1, step_keysNodup st op h2, marksHaveIds_step st op h3⟩
  · exact ⟨graphWF_empty, List.nodup_nil, fun n t h => by simp [fresh, tget] at h⟩

/-! ### `MarkDefInv`: the definition text of a mark denotes its match set on the decided streams -/

/-- the stored definition text of a (known) mark denotes its match set on every existing stream that is
    not pending for the mark (pending streams are re-evaluated by the tagging job: `MarkCondInv`,
    `settle_markDefStrict`) -/
def MarkDefP (sem : String → Nat → Prop) (next : Nat) (n : Name) (t : Tag) : Prop :=
  markPrefix n = true → t.known = true →
    ∀ x, x < next → x ∉ t.uncertain → (sem t.definition x ↔ x ∈ t.matched)

def MarkDefInv (sem : String → Nat → Prop) (st : State) : Prop :=
  TagInv (MarkDefP sem st.nextStreamID) st.tags

theorem markDefP_frame (sem : String → Nat → Prop) (next : Nat) : Frame next (MarkDefP sem next) := by
  intro n a b h1 _ h3 h4 hg h hm hk x hx hxu
  rw [← h1, ← h3]
  exact h hm (h4 ▸ hk) x hx (fun hxa => hxu (hg x hx hxa))

/-- **Payload contract** of a call for `MarkDefInv` (on existing streams only):
    * AddTag of a mark: the parse facts supplied with the definition are those of the definition
      (`sem d x ↔ x ∈ p.ids`);
    * mark add: the parser reads the third-branch text `(d) or id:J` as the union of `d` and `J`
      (see `mark_add_or_reading_satisfiable`).
    Nothing is asked of UpdateTag(query) — also not on a mark: it makes every stream pending. -/
def OpDenotes (sem : String → Nat → Prop) (st : State) : Op → Prop
  | .add n _ d p => markPrefix n = true → ∀ x, x < st.nextStreamID → (sem d x ↔ x ∈ p.ids)
  | .markAdd n ids => ∀ t, tget st.tags n = some t → ∀ x, x < st.nextStreamID →
      (sem (orForm t.definition (addedOf t.matched ids)) x ↔
        (sem t.definition x ∨ x ∈ addedOf t.matched ids))
  | _ => True

/-- `MarkDefInv` is preserved by EVERY call (query updates of marks included) that satisfies the
    payload contract -/
theorem markDefInv_step (sem : String → Nat → Prop) (hs : DefSem sem) (st : State) (op : Op)
    (inv : MarkDefInv sem st) (hop : OpDenotes sem st op) : MarkDefInv sem (step st op).2 := by
  unfold MarkDefInv
  rw [step_next]
  apply step_tagInv (MarkDefP sem st.nextStreamID) st (markDefP_frame sem _) op inv
  cases op with
  | add n c d p =>
    intro _ hm _ x hx _
    have hn' : markPrefix n = (parseTagName n).2.2 := nameOK n
    rw [← hn', hm]
    simp only [if_true]
    exact hop hm x hx
  | query n d p =>
    intro _ t _ _ _ _ x hx hxu
    exfalso
    apply hxu
    show x ∈ st.allStreams
    simpa [State.allStreams] using hx
  | rename n n' =>
    intro t _ hp htyp hm
    apply hp
    have h1 : markPrefix n' = (parseTagName n').2.2 := nameOK n'
    have h2 : markPrefix n = (parseTagName n).2.2 := nameOK n
    rw [h2, isMark_eq_typ, ← htyp, ← isMark_eq_typ, ← h1]
    exact hm
  | markAdd n ids =>
    intro t ht hp hm hk x hx hxu
    have hk' : t.known = true := by
      by_cases h : t.known = true
      · exact h
      · rw [if_neg h] at hk; exact absurd hk h
    rw [if_pos hk']
    show sem (markAddApply t ids).definition x ↔ x ∈ (markAddApply t ids).matched
    rw [mark_add_definition_sem sem hs t ids x (hop t ht x hx), markAddApply_matched, mem_unionNat,
      hp hm hk' x hx hxu]
  | markDel n ids =>
    intro t _ _ _ hk x _ _
    have hk' : t.known = true := by
      by_cases h : t.known = true
      · exact h
      · rw [if_neg h] at hk; exact absurd hk h
    rw [if_pos hk']
    exact mark_del_definition_denotes sem hs t ids x
  | del n => trivial
  | color n c => trivial
  | converters n cs => trivial

/-- hence it holds after every call sequence from a fresh manager that satisfies the contract -/
theorem markDefInv_reachable (sem : String → Nat → Prop) (hs : DefSem sem) (next : Nat) (convs : List Name)
    (ops : List Op) (hops : Run (OpDenotes sem) (fresh next convs) ops) :
    MarkDefInv sem (run (fresh next convs) ops) :=
  run_invariant (MarkDefInv sem) (OpDenotes sem) (markDefInv_step sem hs) ops _
    (fun n t h => by simp [fresh, tget] at h) hops

/-! ### the condition of a mark denotes its text; after the tagging jobs the text denotes the match set -/

/-- the condition the tagging job evaluates for a (known) mark denotes the same existing streams as its text -/
def MarkCondDenP (sem : String → Nat → Prop) (next : Nat) (n : Name) (t : Tag) : Prop :=
  markPrefix n = true → t.known = true →
    ∃ c, t.cond = some c ∧ ∀ x, x < next → (sem t.definition x ↔ x ∈ c)

def MarkCondInv (sem : String → Nat → Prop) (st : State) : Prop :=
  TagInv (MarkCondDenP sem st.nextStreamID) st.tags

theorem markCondDenP_core (sem : String → Nat → Prop) (next : Nat) : CoreOnly (MarkCondDenP sem next) := by
  intro n a b h1 h2 _ h4 h hm hk
  obtain ⟨c, hc, hx⟩ := h hm (h4 ▸ hk)
  exact ⟨c, h2 ▸ hc, fun x hlt => h1 ▸ hx x hlt⟩

/-- payload contract for `MarkCondInv`: as `OpDenotes`, and also for a query update of a mark the parse
    facts supplied are those of the new definition -/
def OpCondDenotes (sem : String → Nat → Prop) (st : State) : Op → Prop
  | .add n _ d p => markPrefix n = true → ∀ x, x < st.nextStreamID → (sem d x ↔ x ∈ p.ids)
  | .query n d p => markPrefix n = true → ∀ x, x < st.nextStreamID → (sem d x ↔ x ∈ p.ids)
  | .markAdd n ids => ∀ t, tget st.tags n = some t → ∀ x, x < st.nextStreamID →
      (sem (orForm t.definition (addedOf t.matched ids)) x ↔
        (sem t.definition x ∨ x ∈ addedOf t.matched ids))
  | _ => True

theorem opDenotes_of_cond (sem : String → Nat → Prop) (st : State) (op : Op) (h : OpCondDenotes sem st op) :
    OpDenotes sem st op := by
  cases op <;> first | exact h | trivial

theorem markCondInv_step (sem : String → Nat → Prop) (hs : DefSem sem) (st : State) (op : Op)
    (inv : MarkCondInv sem st) (hop : OpCondDenotes sem st op) : MarkCondInv sem (step st op).2 := by
  unfold MarkCondInv
  rw [step_next]
  apply step_tagInv (MarkCondDenP sem st.nextStreamID) st
    (frame_of_coreOnly (markCondDenP_core sem _) _) op inv
  cases op with
  | add n c d p =>
    intro hrej hm _
    have hn' : markPrefix n = (parseTagName n).2.2 := nameOK n
    rw [← hn', hm] at hrej ⊢
    have hi := idsOk_of_not_rejected n p hrej
    simp only [if_true]
    exact ⟨p.ids, by simp [mkTag, hi], hop hm⟩
  | query n d p =>
    intro hrej t _ _ hm _
    rw [hm] at hrej
    have hi := idsOk_of_not_rejected n p hrej
    exact ⟨p.ids, by simp [mkTag, hi], hop hm⟩
  | rename n n' =>
    intro t _ hp htyp hm
    apply hp
    have h1 : markPrefix n' = (parseTagName n').2.2 := nameOK n'
    have h2 : markPrefix n = (parseTagName n).2.2 := nameOK n
    rw [h2, isMark_eq_typ, ← htyp, ← isMark_eq_typ, ← h1]
    exact hm
  | markAdd n ids =>
    intro t ht hp hm hk
    have hk' : t.known = true := by
      by_cases h : t.known = true
      · exact h
      · rw [if_neg h] at hk; exact absurd hk h
    rw [if_pos hk']
    obtain ⟨c, hc, hx⟩ := hp hm hk'
    refine ⟨unionNat c (addedOf t.matched ids), ?_, ?_⟩
    · show (markAddApply t ids).cond = _
      rw [markAddApply_cond, hc]; rfl
    · intro x hlt
      show sem (markAddApply t ids).definition x ↔ _
      rw [mark_add_definition_sem sem hs t ids x (hop t ht x hlt), mem_unionNat, hx x hlt]
  | markDel n ids =>
    intro t _ _ _ hk
    have hk' : t.known = true := by
      by_cases h : t.known = true
      · exact h
      · rw [if_neg h] at hk; exact absurd hk h
    rw [if_pos hk']
    exact ⟨(markDelApply t ids).matched, rfl, fun x _ => mark_del_definition_denotes sem hs t ids x⟩
  | del n => trivial
  | color n c => trivial
  | converters n cs => trivial

theorem tget_settle (m : TagMap) (n : Name) :
    tget (m.map fun (x : Name × Tag) => (x.1, settleTag x.2)) n = (tget m n).map settleTag := by
  induction m with
  | nil => rfl
  | cons a m ih =>
    obtain ⟨k, v⟩ := a
    by_cases hk : k = n <;> simp [tget, hk, ih]

/-- **after the tagging jobs have run** (`settle`) the text of every known mark denotes exactly its match
    set on all existing streams, and nothing is pending for it -/
theorem settle_markDefStrict (sem : String → Nat → Prop) (st : State)
    (h1 : MarkDefInv sem st) (h2 : MarkCondInv sem st) :
    ∀ n t', tget (settle st).tags n = some t' → markPrefix n = true → t'.known = true →
      t'.uncertain = [] ∧ ∀ x, x < st.nextStreamID → (sem t'.definition x ↔ x ∈ t'.matched) := by
  intro n t' ht' hm hk
  have ht'' : (tget st.tags n).map settleTag = some t' := by
    rw [← tget_settle]; exact ht'
  cases ht : tget st.tags n with
  | none => rw [ht] at ht''; cases ht''
  | some t =>
    rw [ht] at ht''
    simp only [Option.map_some, Option.some.injEq] at ht''
    subst ht''
    unfold settleTag at hk ⊢
    by_cases he : t.uncertain.isEmpty = true
    · rw [if_pos he] at hk ⊢
      have hnil : t.uncertain = [] := by simpa using he
      refine ⟨hnil, fun x hx => h1 n t ht hm hk x hx (by rw [hnil]; simp)⟩
    · rw [if_neg he] at hk ⊢
      cases hc : t.cond with
      | none => rw [hc] at hk; cases hk
      | some c =>
        rw [hc] at hk
        simp only at hk ⊢
        refine ⟨trivial, fun x hx => ?_⟩
        obtain ⟨c', hc', hden⟩ := h2 n t ht hm hk
        rw [hc] at hc'
        cases hc'
        rw [mem_unionNat, mem_diffNat, mem_interNat, hden x hx]
        by_cases hu : x ∈ t.uncertain
        · simp [hu]
        · have := h1 n t ht hm hk x hx hu
          rw [hden x hx] at this
          simp [hu, this]

/-- for every call sequence from a fresh manager that satisfies the payload contract: once the tagging
    jobs have run, the text of every known mark denotes exactly its match set -/
theorem settle_markDefStrict_reachable (sem : String → Nat → Prop) (hs : DefSem sem) (next : Nat)
    (convs : List Name) (ops : List Op) (hops : Run (OpCondDenotes sem) (fresh next convs) ops) :
    ∀ n t', tget (settle (run (fresh next convs) ops)).tags n = some t' → markPrefix n = true →
      t'.known = true → t'.uncertain = [] ∧ ∀ x, x < next → (sem t'.definition x ↔ x ∈ t'.matched) := by
  have h := run_invariant (fun st => MarkDefInv sem st ∧ MarkCondInv sem st) (OpCondDenotes sem)
    (fun st op hi hc => ⟨markDefInv_step sem hs st op hi.1 (opDenotes_of_cond sem st op hc),
      markCondInv_step sem hs st op hi.2 hc⟩) ops (fresh next convs)
    ⟨fun n t h => by simp [fresh, tget] at h, fun n t h => by simp [fresh, tget] at h⟩ hops
  have hn : (run (fresh next convs) ops).nextStreamID = next := run_next ops _
  intro n t' ht' hm hk
  have := settle_markDefStrict sem _ h.1 h.2 n t' ht' hm hk
  rw [hn] at this
  exact this

/-! ### round trip through the state file -/

/-- what the state file keeps of a tag (the model's `Saved`: name, definition, colour and — computed
    again by `query.Parse` at start-up — the parse facts of the definition) -/
def savedOfTag (n : Name) (t : Tag) : Saved :=
  { name := n, definition := t.definition, color := t.color,
    facts := { mainTags := t.mainTags, subTags := t.subTags, mainFeat := t.mainFeat, subFeat := t.subFeat,
               idsOk := t.cond.isSome, ids := t.cond.getD [] } }

def saveOf (st : State) : List Saved := st.tags.map fun x => savedOfTag x.1 x.2

theorem saveOf_names (st : State) : (saveOf st).map (·.name) = tkeys st.tags := by
  simp [saveOf, savedOfTag, tkeys, Function.comp_def]

theorem savedOfTag_refs (n : Name) (t : Tag) : (savedOfTag n t).facts.refs = t.refs := rfl

theorem tkeys_refFold (l acc : TagMap) : tkeys (refFold l acc) = tkeys acc := by
  induction l generalizing acc with
  | nil => rfl
  | cons e l ih =>
    show tkeys (refFold l (addReferrer e.1 acc e.2.refs)) = _
    rw [ih, tkeys_addReferrer]

/-- what a reload keeps of a tag: everything the state file holds, and the reference structure -/
def Reloaded (t t' : Tag) : Prop :=
  t'.definition = t.definition ∧ t'.color = t.color ∧
  t'.mainTags = t.mainTags ∧ t'.subTags = t.subTags ∧ t'.mainFeat = t.mainFeat ∧ t'.subFeat = t.subFeat ∧
  t'.cond = t.cond ∧ (∀ x, x ∈ t'.referencedBy ↔ x ∈ t.referencedBy)

/-- the table saved from a well-formed state with distinct keys whose marks have id conditions loads
    back to a well-formed state with the same tags in the same order, each with the same definition,
    colour, parse facts, references and referrers.  Converters are NOT restored (`t'.converters = []`):
    the model's `Saved` has no converter field. -/
theorem loadTags_roundtrip_of_inv (st : State) (wf : GraphWF st) (hk : KeysNodup st.tags)
    (hm : MarksHaveIds st) :
    ∃ st', loadTags st.nextStreamID st.convs (saveOf st) = some st' ∧ GraphWF st' ∧
      st'.nextStreamID = st.nextStreamID ∧ st'.convs = st.convs ∧ tkeys st'.tags = tkeys st.tags ∧
      ∀ n t, tget st.tags n = some t →
        ∃ t', tget st'.tags n = some t' ∧ Reloaded t t' ∧ t'.converters = [] := by
  have hmem : ∀ s ∈ saveOf st, ∃ n t, tget st.tags n = some t ∧ s = savedOfTag n t := by
    intro s hs
    obtain ⟨e, he, rfl⟩ := List.mem_map.mp hs
    exact ⟨e.1, e.2, tget_of_mem _ hk _ _ he, rfl⟩
  have hmem' : ∀ n t, tget st.tags n = some t → savedOfTag n t ∈ saveOf st := by
    intro n t ht
    exact List.mem_map.mpr ⟨(n, t), mem_of_tget _ _ _ ht, rfl⟩
  have hok : Pk.Proofs.TagGraphMore.BuildOK (saveOf st) := by
    constructor
    · intro s hs
      obtain ⟨n, t, ht, rfl⟩ := hmem s hs
      refine ⟨rfl, ?_⟩
      rintro ⟨h1, h2⟩
      have := (hm n t ht).2 h1
      simp only [savedOfTag] at h2
      rw [this] at h2; cases h2
    · rw [saveOf_names]; exact hk
  have hcl : RefsClosed (saveOf st) := by
    intro s hs r hr
    obtain ⟨n, t, ht, rfl⟩ := hmem s hs
    rw [saveOf_names, mem_keys]
    exact wf.closed n t ht r hr
  have hac : RefsAcyclic (saveOf st) := by
    obtain ⟨rank, hrank⟩ := wf.acyclic
    refine ⟨rank, ?_⟩
    intro s hs r hr
    obtain ⟨n, t, ht, rfl⟩ := hmem s hs
    exact hrank n t ht r hr
  have hload := (loadTags_eq_some_iff st.nextStreamID st.convs (saveOf st) _).mpr ⟨hok, hcl, hac, rfl⟩
  refine ⟨_, hload, loadedTags_wf _ _ hok hcl hac, rfl, rfl, ?_, ?_⟩
  · show tkeys (loadedTags st.nextStreamID (saveOf st)) = _
    unfold loadedTags
    rw [tkeys_refFold, tkeys_entries, saveOf_names]
  · intro n t ht
    obtain ⟨rb, h1, h2⟩ := tget_loaded_of_mem (List.range st.nextStreamID) (saveOf st) hok.2 _ (hmem' n t ht)
    refine ⟨_, h1, ?_, ?_⟩
    · have hcond : (if t.cond.isSome = true then some (t.cond.getD []) else none) = t.cond := by
        cases t.cond <;> rfl
      have hrb : ∀ x, x ∈ rb ↔ x ∈ t.referencedBy := by
        intro x
        rw [h2 x, wf.mirror n t ht x]
        constructor
        · rintro ⟨s', hs', hx, hn⟩
          obtain ⟨n', u, hu, rfl⟩ := hmem s' hs'
          exact ⟨u, hx ▸ hu, hn⟩
        · rintro ⟨u, hu, hn⟩
          exact ⟨savedOfTag x u, hmem' x u hu, rfl, hn⟩
      unfold loadTag
      split
      · exact ⟨rfl, rfl, rfl, rfl, rfl, rfl, hcond, hrb⟩
      · exact ⟨rfl, rfl, rfl, rfl, rfl, rfl, hcond, hrb⟩
    · unfold loadTag
      split <;> rfl

/-- **`loadTags_roundtrip`.**  For every state reachable from a fresh manager (by any call sequence) the
    saved table loads back to a well-formed state with the same tags,
    definitions, colours, parse facts and reference structure. -/
theorem loadTags_roundtrip (next : Nat) (convs : List Name) (ops : List Op) :
    ∃ st', loadTags (run (fresh next convs) ops).nextStreamID (run (fresh next convs) ops).convs
        (saveOf (run (fresh next convs) ops)) = some st' ∧ GraphWF st' ∧
      st'.nextStreamID = (run (fresh next convs) ops).nextStreamID ∧
      st'.convs = (run (fresh next convs) ops).convs ∧
      tkeys st'.tags = tkeys (run (fresh next convs) ops).tags ∧
      ∀ n t, tget (run (fresh next convs) ops).tags n = some t →
        ∃ t', tget st'.tags n = some t' ∧ Reloaded t t' ∧ t'.converters = [] := by
  obtain ⟨h1, h2, h3⟩ := reachable_invariants next convs ops
  exact loadTags_roundtrip_of_inv _ h1 h2 h3

/-! ## statements that are false, with their counterexamples -/

/-- the canonical meaning of the texts the model writes itself -/
def sem0 (s : String) (x : Nat) : Prop := plainIdList s = true ∧ x ∈ plainIds s

theorem sem0_ok : DefSem sem0 :=
  ⟨fun x h => by rw [sem0, none_not_plain] at h; exact absurd h.1 (by simp), fun s hs x => by simp [sem0, hs]⟩

theorem sem0_id_join (ids : List Nat) (hne : ids ≠ []) (x : Nat) : sem0 ("id:" ++ joinIds ids) x ↔ x ∈ ids := by
  obtain ⟨h1, h2⟩ := plain_id_join ids hne
  simp [sem0, h1, h2]

private def stQ : State :=
  { tags := [("mark/a", { definition := "id:1", mainFeat := 1, cond := some [1], matched := [1] })],
    nextStreamID := 10 }
private def pQ : Facts := { mainFeat := 1, idsOk := true, ids := [2] }

private def tQ' : Tag :=
  { definition := "id:2", mainFeat := 1, cond := some [2], matched := [], uncertain := [0, 1, 2, 3, 4, 5, 6, 7, 8, 9] }

private theorem stQ_query :
    step stQ (.query "mark/a" "id:2" pQ) =
      (.ok, { tags := [("mark/a", tQ')], nextStreamID := 10 }) := by
  simp only [step, updQuery, markPrefix_eq, tQ']
  decide

/-- the strict reading: the text of every (known) mark denotes its match set on ALL streams, pending or not -/
def MarkDefStrict (sem : String → Nat → Prop) (st : State) : Prop :=
  ∀ n t, tget st.tags n = some t → markPrefix n = true → t.known = true →
    ∀ x, sem t.definition x ↔ x ∈ t.matched

private theorem stQ_strict : MarkDefStrict sem0 stQ := by
  intro n t h _ _ x
  have := mem_of_tget _ _ _ h
  simp only [stQ, List.mem_singleton, Prod.mk.injEq] at this
  obtain ⟨_, rfl⟩ := this
  exact sem0_id_join [1] (by simp) x

/-- The STRICT reading is not an invariant, and can not be: an accepted query update of a mark (with the
    parse facts of the new definition) resets `matched` to ∅ with every stream pending, so until the
    tagging job has run the new text `id:2` does not denote `matched`.  This is the intended pending
    state, not a defect: the pending-aware `MarkDefInv` is preserved by this call (`markDefInv_step`),
    and the strict reading is restored once the jobs have run (`settle_markDefStrict`). -/
theorem markDefStrict_query_counterexample :
    ∃ (st : State) (n d : String) (p : Facts),
      MarkDefStrict sem0 st ∧ markPrefix n = true ∧ (∀ x, sem0 d x ↔ x ∈ p.ids) ∧
      (step st (.query n d p)).1 = .ok ∧ ¬ MarkDefStrict sem0 (step st (.query n d p)).2 := by
  refine ⟨stQ, "mark/a", "id:2", pQ, stQ_strict, by simp [markPrefix], sem0_id_join [2] (by simp), ?_, ?_⟩
  · rw [stQ_query]
  · rw [stQ_query]
    intro h
    have := (h "mark/a" tQ' (by decide) (by simp [markPrefix]) rfl 2).mp ((sem0_id_join [2] (by simp) 2).mpr (by simp))
    cases this

/-- With the pending set restored (`prevUncertain`) a mark add made right after a query update of the
    mark keeps every stream pending: the tag has text `id:2,5`, condition {2,5}, match set {5} and all
    streams pending — and once the tagging jobs have run (`settle`) it matches {2,5}, nothing pending.
    (Under the earlier model, which cleared the pending set, the ids 2 of the new definition were lost.) -/
theorem mark_add_after_query_keeps_pending :
    (run stQ [.query "mark/a" "id:2" pQ, .markAdd "mark/a" [5]]).tags =
      [("mark/a", { definition := "id:2,5", mainFeat := 1, cond := some [2, 5], matched := [5], uncertain := [0, 1, 2, 3, 4, 5, 6, 7, 8, 9] })] ∧
    (settle (run stQ [.query "mark/a" "id:2" pQ, .markAdd "mark/a" [5]])).tags =
      [("mark/a", { definition := "id:2,5", mainFeat := 1, cond := some [2, 5], matched := [2, 5], uncertain := [] })] := by
  simp only [settle, settleTag, run, List.foldl, step, updQuery, updMark, markAddApply, markPrefix_eq,
    plainIdList_eq]
  decide

theorem graphWF_noRefs (m : TagMap)
    (h : ∀ n t, tget m n = some t → t.refs = [] ∧ t.referencedBy = []) : Pk.Proofs.TagGraph.GraphWF m := by
  refine ⟨?_, ⟨fun _ => 0, ?_⟩, ?_⟩
  · intro n t ht r hr; rw [(h n t ht).1] at hr; cases hr
  · intro n t ht r hr; rw [(h n t ht).1] at hr; cases hr
  · intro n t ht x
    rw [(h n t ht).2]
    constructor
    · intro hx; cases hx
    · rintro ⟨u, hu, hn⟩; rw [(h x u hu).1] at hn; cases hn

private def stC : State :=
  { tags := [("tag/a", { definition := "cport:80", mainFeat := 4, converters := ["c"] })],
    nextStreamID := 4, convs := ["c"] }

/-- the round trip does NOT keep converters (the statement "same … converters" is false for the model:
    `Saved` has no converter field and `loadTags` attaches none): this state — the result of an accepted
    `UpdateTag(converters)` call — satisfies all invariants of reachable states, and its tag comes back
    without its converter -/
theorem loadTags_roundtrip_converters_counterexample :
    ∃ (st0 st : State), step st0 (.converters "tag/a" ["c"]) = (.ok, st) ∧
      GraphWF st ∧ KeysNodup st.tags ∧ MarksHaveIds st ∧
      ∃ st' t t', loadTags st.nextStreamID st.convs (saveOf st) = some st' ∧
        tget st.tags "tag/a" = some t ∧ tget st'.tags "tag/a" = some t' ∧ t'.converters ≠ t.converters := by
  have hshape : ∀ n t, tget stC.tags n = some t → n = "tag/a" ∧
      t = { definition := "cport:80", mainFeat := 4, converters := ["c"] } := by
    intro n t h
    have := mem_of_tget _ _ _ h
    simpa [stC] using this
  have wf : GraphWF stC := graphWF_noRefs _ (fun n t h => by obtain ⟨_, rfl⟩ := hshape n t h; exact ⟨rfl, rfl⟩)
  have hk : KeysNodup stC.tags := by simp [KeysNodup, stC, tkeys]
  have hm : MarksHaveIds stC := by
    intro n t h
    obtain ⟨rfl, rfl⟩ := hshape n t h
    exact ⟨rfl, fun hp => by simp [markPrefix] at hp⟩
  obtain ⟨st', h1, _, _, _, _, h6⟩ := loadTags_roundtrip_of_inv stC wf hk hm
  obtain ⟨t', ht', _, hc⟩ := h6 "tag/a" { definition := "cport:80", mainFeat := 4, converters := ["c"] } (by decide)
  refine ⟨{ tags := [("tag/a", { definition := "cport:80", mainFeat := 4 })], nextStreamID := 4, convs := ["c"] },
    stC, by decide, wf, hk, hm, st', { definition := "cport:80", mainFeat := 4, converters := ["c"] }, t', h1,
    by decide, ht', ?_⟩
  rw [hc]
  simp

/-! ## non-vacuity -/

private def m0a : Tag :=
  { definition := "id:1,2", cond := some [1, 2], matched := [1, 2], referencedBy := ["tag/b"] }
private def m0b : Tag := { definition := "tag:a", mainTags := ["mark/a"], referencedBy := ["tag/c"] }
private def m0c : Tag := { definition := "data:x tag:b", subTags := ["tag/b"] }
private def m0 : State := { tags := [("mark/a", m0a), ("tag/b", m0b), ("tag/c", m0c)], nextStreamID := 10 }

private theorem m0_wf : GraphWF m0 := graphWF_of_check _ (by decide) (by decide)

/-- a mark add with a duplicate id (5, 5), an id already present (2) and a new one (3): the call is
    accepted, the mark matches {1,2,3,5}, its text gets the ids really added in the order given, the
    direct referrer has exactly the new ids pending, the sub-query referrer everything -/
example : step m0 (.markAdd "mark/a" [5, 5, 2, 3]) =
    (.ok, { tags := [("mark/a", { m0a with definition := "id:1,2,5,3", cond := some [1, 2, 3, 5], matched := [1, 2, 3, 5] }),
                     ("tag/b", { m0b with uncertain := [3, 5] }),
                     ("tag/c", { m0c with uncertain := [0, 1, 2, 3, 4, 5, 6, 7, 8, 9] })],
            nextStreamID := 10 }) := by
  simp only [step, updMark, markAddApply, markPrefix_eq, plainIdList_eq, m0a, m0b, m0c]
  decide

example : step m0 (.markDel "mark/a" [5, 2, 2]) =
    (.ok, { tags := [("mark/a", { m0a with definition := "id:1", cond := some [1], matched := [1] }),
                     ("tag/b", { m0b with uncertain := [2] }),
                     ("tag/c", { m0c with uncertain := [0, 1, 2, 3, 4, 5, 6, 7, 8, 9] })],
            nextStreamID := 10 }) := by
  simp only [step, updMark, markDelApply, markPrefix_eq, m0a, m0b, m0c]
  decide

/-- a mark with a non-empty pending set ({7}): during the walk the referrer inherits old ∪ new ({3, 7}),
    afterwards the mark's own pending set is the old one again (`prevUncertain`) -/
example : (step { m0 with tags := [("mark/a", { m0a with uncertain := [7] }), ("tag/b", m0b), ("tag/c", m0c)] }
      (.markAdd "mark/a" [3])).2.tags =
    [("mark/a", { m0a with definition := "id:1,2,3", cond := some [1, 2, 3], matched := [1, 2, 3], uncertain := [7] }),
     ("tag/b", { m0b with uncertain := [3, 7] }),
     ("tag/c", { m0c with uncertain := [0, 1, 2, 3, 4, 5, 6, 7, 8, 9] })] := by
  simp only [step, updMark, markAddApply, markPrefix_eq, plainIdList_eq, m0a, m0b, m0c, m0]
  decide

/-- the hypotheses of `mark_add_applies` / `mark_del_applies` are satisfiable (with referrers present) -/
example : ∃ st' t', step m0 (.markAdd "mark/a" [5, 5, 2, 3]) = (.ok, st') ∧ tget st'.tags "mark/a" = some t' ∧
    ∀ x, x ∈ t'.matched ↔ x ∈ [1, 2] ∨ x ∈ [5, 5, 2, 3] := by
  obtain ⟨st', t', h1, _, _, h4, h5, _⟩ := mark_add_applies m0 "mark/a" [5, 5, 2, 3] m0a m0_wf
    (by decide) (by simp [markPrefix]) rfl (by simp) (by decide)
  exact ⟨st', t', h1, h4, h5⟩

example : References m0.tags "tag/c" "mark/a" :=
  ⟨by decide, .step (r := "tag/b") (by decide) (.step (r := "mark/a") (by decide) .self)⟩

example : (markAddApply { definition := "id:-1", cond := some [] } [4, 4]).definition = "id:4" := by
  simp only [markAddApply, plainIdList_eq]; decide
example : (markAddApply { definition := "id:1 or id:2", cond := some [1, 2], matched := [1, 2] } [2, 7]).definition
    = "(id:1 or id:2) or id:7" := by
  simp only [markAddApply, plainIdList_eq]; decide

/-- a saved table with a reference cycle is rejected -/
example : loadTags 4 [] [⟨"tag/a", "tag:b", "", { mainTags := ["tag/b"] }⟩,
                         ⟨"tag/b", "tag:a", "", { mainTags := ["tag/a"] }⟩] = none := by
  simp only [loadTags, loadTag, markPrefix_eq]; decide

/-- … and so are a duplicate name, a mark without id list, a missing reference -/
example : loadTags 4 [] [⟨"tag/a", "x", "", {}⟩, ⟨"tag/a", "y", "", {}⟩] = none := by
  simp only [loadTags, loadTag, markPrefix_eq]; decide
example : loadTags 4 [] [⟨"mark/a", "cport:80", "", { mainFeat := 4 }⟩] = none := by
  simp only [loadTags, loadTag, markPrefix_eq]; decide
example : loadTags 4 [] [⟨"tag/a", "tag:zz", "", { mainTags := ["tag/zz"] }⟩] = none := by
  simp only [loadTags, loadTag, markPrefix_eq]; decide

private def chain3 : List Saved :=
  [⟨"tag/a", "cport:80", "red", { mainFeat := 4 }⟩,
   ⟨"tag/b", "tag:a", "", { mainTags := ["tag/a"], mainFeat := 64 }⟩,
   ⟨"mark/c", "id:1 tag:b", "", { subTags := ["tag/b"], idsOk := true, ids := [1] }⟩]

/-- a saved table of three tags with a reference chain is accepted; referrers, match sets and pending
    sets are as `loadTags_graph` says -/
example : (loadTags 4 [] chain3).map
      (fun st => st.tags.map fun x => (x.1, x.2.referencedBy, x.2.matched, x.2.uncertain)) =
    some [("tag/a", ["tag/b"], [], [0, 1, 2, 3]), ("tag/b", ["mark/c"], [], [0, 1, 2, 3]), ("mark/c", [], [1], [])] := by
  simp only [loadTags, loadTag, markPrefix_eq, chain3]; decide

/-- the cycle is what `loadTags_rejects_only_bad` names: no rank function -/
example : ¬ ∃ rank : Name → Nat, ∀ s ∈ ([⟨"tag/a", "tag:b", "", { mainTags := ["tag/b"] }⟩,
    ⟨"tag/b", "tag:a", "", { mainTags := ["tag/a"] }⟩] : List Saved), ∀ r ∈ s.facts.refs, rank r < rank s.name := by
  rintro ⟨rank, h⟩
  have h1 := h _ (List.mem_cons_self) "tag/b" (by decide)
  have h2 := h _ (List.mem_cons_of_mem _ List.mem_cons_self) "tag/a" (by decide)
  simp only at h1 h2
  omega

end Pk.Props.C11More
