/-
  C18 — Regex length and suffix analysis is exact and safe.

  "For every regular expression, the computed minimum and maximum match length contain the length
   of every string the expression matches and are attained when finite, and every matched string
   ends with the computed constant suffix."

  Two levels (DESIGN §5 C18):

  * AST level: `lenRange r` (empty-width assertions erased, as the code does) bounds the length of
    every word of `Lang r` in every context (`lenRange_sound`, all regexes); the bounds are attained —
    and `none` really means unbounded — for assertion-free regexes whose classes have members
    (`lenRange_attained`, `lenRange_unbounded`).  With assertions "attained" is FALSE for the code
    as it is: `finding_F7` (a\bb|ccc reports 2, nothing of length 2 is matched).
  * program level: the transliterated walks of regexAnalysis.go on `syntax.Prog`.
    `suffixWalk_sound`: for EVERY program (not only compiler-produced ones) whose any-byte
    instructions carry no single-rune list, the result of the `ConstantSuffix` walk is a suffix of
    every accepted word, in every context.  `minWalk_sound` / `maxWalk_sound` / `lenWalk_sound`: the
    repaired MinLength (breadth-first search) is a lower bound and the memoised MaxLength walk is
    "unbounded" or an upper bound, for every program.  `saturating_add_correct`: the overflow trick.
    `finding_F23`: the walk as it was before the repair (one memo for min and max) returns
    MinLength 2 on the compiled program of `x?a+`, which accepts "a".

  NOT proved (holds by tie only, see `CodeLevel` below): that the memoised MaxLength walk and the
  MinLength search return exactly `lenRange` of the AST the program was compiled from (which is what
  makes "attained" carry over to the program level) — the compiler (third party) is not modelled;
  the check compares them on every generated case.  Termination of the walks (`suffixWalk_terminates`
  of DESIGN §5) is not proved either: the models are fuelled and the driver reports `abort` when the
  fuel runs out, which never happened on a generated case.
-/
import Pk.Model.Regex
import Pk.Model.RegexProg
import Pk.Proofs.Regex
import Pk.Proofs.RegexProg
import Pk.Proofs.RegexBfs
import Pk.Proofs.RegexMax

namespace Pk.Props.C18
open Pk.Regex Pk.RegexProg

/-! ### AST level -/

/-- Every word matched by `r`, in any context, has a length inside `lenRange r`.
    All regexes: assertions, empty classes, ill-formed counts included. -/
theorem lenRange_sound (r : Regex) (pre w post : List Byte) (h : Lang r pre w post) :
    (lenRange r).1 ≤ w.length ∧ ∀ hi, (lenRange r).2 = some hi → w.length ≤ hi :=
  lenRange_sound_aux h

/-- the property's "attained when finite", for one regex -/
def Attained (r : Regex) : Prop :=
  (∃ pre w post, Lang r pre w post ∧ w.length = (lenRange r).1) ∧
  (∀ hi, (lenRange r).2 = some hi → ∃ pre w post, Lang r pre w post ∧ w.length = hi)

/-- FULL STATEMENT (false for the code as it is, see `finding_F7`): `∀ r, wellFormed r → Attained r`.
    Proved part: assertion-free regexes (every class has a member, counts have min ≤ max).
    The witnesses are even context independent. -/
theorem lenRange_attained_partial (r : Regex) (ha : assertFree r = true) (hw : wellFormed r = true) :
    (∃ w, w.length = (lenRange r).1 ∧ ∀ pre post, Lang r pre w post) ∧
    (∀ hi, (lenRange r).2 = some hi → ∃ w, w.length = hi ∧ ∀ pre post, Lang r pre w post) :=
  ⟨attained_lo r ha hw, attained_hi r ha hw⟩

/-- name used in DESIGN §5 (it is stated there for assertion-free regexes with non-empty classes) -/
theorem lenRange_attained (r : Regex) (ha : assertFree r = true) (hw : wellFormed r = true) :
    Attained r := by
  obtain ⟨⟨w, hl, hm⟩, hhi⟩ := lenRange_attained_partial r ha hw
  refine ⟨⟨[], w, [], hm _ _, hl⟩, ?_⟩
  intro hi e
  obtain ⟨v, hl, hm⟩ := hhi hi e
  exact ⟨[], v, [], hm _ _, hl⟩

/-- `none` means unbounded: arbitrarily long words are matched. -/
theorem lenRange_unbounded (r : Regex) (ha : assertFree r = true) (hw : wellFormed r = true)
    (hn : (lenRange r).2 = none) (N : Nat) :
    ∃ w, N ≤ w.length ∧ ∀ pre post, Lang r pre w post :=
  attained_unbounded r ha hw hn N

/-- a\bb|ccc -/
def reF7 : Regex :=
  .alt (.cat (.atom [(97, 97)] false) (.cat (.assert .wordBoundary) (.atom [(98, 98)] false)))
       (.cat (.atom [(99, 99)] false) (.cat (.atom [(99, 99)] false) (.atom [(99, 99)] false)))

/-- F7 (known finding): the reported minimum 2 of `a\bb|ccc` is not attained — `\b` between two
    word bytes never holds, the shortest matched string is `ccc`. -/
theorem finding_F7 : wellFormed reF7 = true ∧ (lenRange reF7).1 = 2 ∧ ¬ Attained reF7 := by
  refine ⟨by decide, by decide, ?_⟩
  intro h
  obtain ⟨⟨pre, w, post, hm, hl⟩, _⟩ := h
  have hl2 : w.length = 2 := hl
  cases hm with
  | altL _ _ _ _ _ h1 =>
    cases h1 with
    | cat _ _ _ u v _ hu hv =>
      cases hu with
      | atom _ _ b _ _ hb =>
        cases hv with
        | cat _ _ _ u2 v2 _ hu2 hv2 =>
          cases hu2 with
          | assert _ _ _ hh =>
            cases hv2 with
            | atom _ _ b2 _ _ hb2 =>
              have e1 : b = 97 := by
                simp [atomMatch, inRanges] at hb; exact Nat.le_antisymm hb.2 hb.1
              have e2 : b2 = 98 := by
                simp [atomMatch, inRanges] at hb2; exact Nat.le_antisymm hb2.2 hb2.1
              subst e1; subst e2
              simp [Assertion.holds, isWordOpt, isWord] at hh
  | altR _ _ _ _ _ h1 =>
    cases h1 with
    | cat _ _ _ u v _ hu hv =>
      cases hu with
      | atom _ _ b _ _ hb =>
        cases hv with
        | cat _ _ _ u2 v2 _ hu2 hv2 =>
          cases hu2 with
          | atom _ _ b2 _ _ hb2 =>
            cases hv2 with
            | atom _ _ b3 _ _ hb3 => simp at hl2

/-! ### program level -/

/-- The saturating add of `AcceptedLength`: for operands that fit a Go `uint` the intermediate sum
    does not overflow (so the `Nat` expression is the `uint64` expression) and the result is
    `a + b` cut off at `MaxUint`. -/
theorem saturating_add_correct (a b : Nat) (ha : a ≤ MAXU) (hb : b ≤ MAXU) :
    (a >>> 1) + (b >>> 1) + (a &&& b &&& 1) < 2 ^ 64 ∧
    satAdd a b = Nat.min (a + b) MAXU := by
  constructor
  · rw [half_sum]; unfold MAXU at ha hb; omega
  · rw [satAdd_eq]; unfold MAXU
    split <;> simp [Nat.min_def] <;> omega

/-- `ConstantSuffix`: whatever the walk returns is a suffix of every word the program accepts, in
    every context.  No assumption on the shape of the program except `wf` (any-byte instructions do
    not carry a single-rune list), which holds for everything `syntax.Compile` produces. -/
theorem suffixWalk_sound (p : Prog) (hwf : p.wf = true) (s : List Byte) (hs : suffixWalk p = some s)
    (pre w post : List Byte) (hacc : Accepts p p.start pre w post) : s <:+ w := by
  have := suffixEval_sound p hwf _ _ _ _ _ hs pre w post hacc [] List.nil_suffix
  simpa using this

/-- repaired `AcceptedLength`, MinLength: no accepted word is shorter than the result of the
    breadth-first search — for EVERY program. -/
theorem minWalk_sound (p : Prog) (m : Nat) (hm : minWalk p = some m)
    (pre w post : List Byte) (hacc : Accepts p p.start pre w post) : m ≤ w.length :=
  minWalk_sound_aux p m hm pre w post hacc

/-- `AcceptedLength`, MaxLength: the memoised walk returns `MaxUint` ("unbounded") or an upper bound for
    the length of every accepted word — for EVERY program. -/
theorem maxWalk_sound (p : Prog) (m : Nat) (hm : maxWalk p = some m)
    (pre w post : List Byte) (hacc : Accepts p p.start pre w post) : m = MAXU ∨ w.length ≤ m :=
  maxWalk_sound_aux p m hm pre w post hacc

/-- C18, first half, at program level for the repaired code: whatever program the compiler produces,
    every word it accepts (in any context) has MinLength ≤ length ≤ MaxLength (or MaxLength is
    "unbounded"). -/
theorem lenWalk_sound (p : Prog) (mn mx : Nat) (h : lenWalk p = some (mn, mx))
    (pre w post : List Byte) (hacc : Accepts p p.start pre w post) :
    mn ≤ w.length ∧ (mx = MAXU ∨ w.length ≤ mx) := by
  unfold lenWalk at h
  cases h1 : minWalk p with
  | none => simp [h1] at h
  | some a =>
    cases h2 : maxWalk p with
    | none => simp [h1, h2] at h
    | some b =>
      simp [h1, h2] at h
      obtain ⟨rfl, rfl⟩ := h
      exact ⟨minWalk_sound p a h1 pre w post hacc, maxWalk_sound p b h2 pre w post hacc⟩

/-- compiled program of `x?a+`:  0 fail · 1 rune1 x→3 · 2* alt→1,3 · 3 rune1 a→4 · 4 alt→3,5 · 5 match -/
def progF23 : Prog :=
  { start := 2,
    inst := #[⟨.fail, 0, 0, []⟩, ⟨.rune1, 3, 0, [120]⟩, ⟨.alt, 1, 3, []⟩, ⟨.rune1, 4, 0, [97]⟩,
              ⟨.alt, 3, 5, []⟩, ⟨.match_, 0, 0, []⟩] }

theorem progF23_accepts_a : Accepts progF23 progF23.start [] [97] [] := by
  refine Accepts.altArg 2 ⟨.alt, 1, 3, []⟩ _ _ _ rfl rfl ?_
  refine Accepts.rune 3 ⟨.rune1, 4, 0, [97]⟩ 97 _ _ _ rfl rfl (by decide) ?_
  refine Accepts.altArg 4 ⟨.alt, 3, 5, []⟩ _ _ _ rfl rfl ?_
  exact Accepts.match_ 5 ⟨.match_, 0, 0, []⟩ _ _ rfl rfl

/-- F23 (fixed by 70c2f9d): the walk before the repair shared one memo between minimum and
    maximum.  On the compiled program of `x?a+` it answers MinLength 2, although the program accepts
    "a"; the repaired walk answers 1.  (This is also the `memo_unsound_on_graph` witness of DESIGN §5,
    on a compiler-produced program.) -/
theorem finding_F23 :
    oldWalk progF23 = some (2, MAXU) ∧
    ¬ (∀ w, Accepts progF23 progF23.start [] w [] → ∀ mn mx, oldWalk progF23 = some (mn, mx) → mn ≤ w.length) ∧
    lenWalk progF23 = some (1, MAXU) := by
  have h1 : oldWalk progF23 = some (2, MAXU) := by decide
  refine ⟨h1, ?_, by decide⟩
  intro h
  have := h [97] progF23_accepts_a 2 MAXU h1
  simp at this

/-- What is NOT proved: the program walks agree with `lenRange` of the AST a program was compiled
    from (`C18_code_level` of DESIGN §5).  The compiler is third party and not modelled; `./check C18`
    compares the two on every generated case (fields amin/amax of the line protocol). -/
def CodeLevel (p : Prog) (r : Regex) : Prop :=
  lenWalk p = some ((lenRange r).1, match (lenRange r).2 with | some h => h | none => MAXU)

/-! ### non-vacuity -/

/-- the hypotheses of `suffixWalk_sound` are satisfiable with a non-empty suffix: `x?a+b` -/
def progSuffix : Prog :=
  { start := 2,
    inst := #[⟨.fail, 0, 0, []⟩, ⟨.rune1, 3, 0, [120]⟩, ⟨.alt, 1, 3, []⟩, ⟨.rune1, 4, 0, [97]⟩,
              ⟨.rune1, 5, 0, [98]⟩, ⟨.match_, 0, 0, []⟩] }

example : progSuffix.wf = true ∧ suffixWalk progSuffix = some [97, 98] := by decide
example : progF23.wf = true ∧ suffixWalk progF23 = some [] := by decide
example : minWalk progF23 = some 1 ∧ maxWalk progF23 = some MAXU := by decide
example : Accepts progSuffix progSuffix.start [] [97, 98] [] := by
  refine Accepts.altArg 2 ⟨.alt, 1, 3, []⟩ _ _ _ rfl rfl ?_
  refine Accepts.rune 3 ⟨.rune1, 4, 0, [97]⟩ 97 _ _ _ rfl rfl (by decide) ?_
  refine Accepts.rune 4 ⟨.rune1, 5, 0, [98]⟩ 98 _ _ _ rfl rfl (by decide) ?_
  exact Accepts.match_ 5 ⟨.match_, 0, 0, []⟩ _ _ rfl rfl
/-- `Lang` with an assertion that holds: `a\b` matches "a" before a space, not before "b" -/
example : Lang (.cat (.atom [(97, 97)] false) (.assert .wordBoundary)) [] [97] [32] :=
  Matches.cat _ _ [] [97] [] [32] (Matches.atom _ _ 97 _ _ (by decide)) (Matches.assert _ _ _ (by decide))
example : assertFree (.rep (.alt (.atom [(97, 97)] false) .eps) 2 (some 5)) = true ∧
    wellFormed (.rep (.alt (.atom [(97, 97)] false) .eps) 2 (some 5)) = true ∧
    lenRange (.rep (.alt (.atom [(97, 97)] false) .eps) 2 (some 5)) = (0, some 5) := by decide
example : lenRange (.rep (.atom [(97, 97)] false) 1 none) = (1, none) := by decide
example : satAdd MAXU 1 = MAXU ∧ satAdd 3 4 = 7 ∧ satAdd (2 ^ 63) (2 ^ 63) = MAXU := by decide

end Pk.Props.C18
