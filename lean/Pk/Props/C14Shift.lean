/-
  C14, second half — "parsing the same text twice gives equivalent queries".

  Two `query.Parse` calls on the same text happen at two reference times `r1`, `r2` (the wall clock
  of the call).  This file relates `parse r1 e` and `parse r2 e` for the same lexed AST `e`.

  How the model stores the reference time (Pk/Model/Query/Translate.lean, `timeParts`): a time
  condition `{sum, dur, rtf}` means `dur + Σ f·ftime + l·ltime ≥ 0` with packet times measured from
  the reference time; an absolute literal `T` with sign `±` adds `±(T - ref)` to `dur` and `∓1` to
  `rtf` (ReferenceTimeFactor).  Hence `dur - rtf·ref` is independent of `ref`, and re-parsing `d` ns
  later adds `rtf·d` to every `dur`.

  Definitions (Pk/Proofs/Query/ShiftDefs.lean, ShiftTerm.lean, ShiftParse.lean; unfolded by the
  `example`s below):
    * `shiftParsed d` — add `rtf·d` to the `dur` of every time condition of a parse result;
    * `Outcome.map f` — apply `f` to the value of an `ok` outcome, keep `err/panic/diverged`;
    * `kind o` — the outcome without its value (`ok ()`, or the same message / site);
    * `partsAbs r`, `partsVar r` — signed number of absolute literals / of packet-time variables in
      the bound `r` (a `List TimePart`);
    * `Term.TimeSafe` (ADDED hypothesis, see below), `Term.TimeAnchored`, `Term.TimeFloating`;
    * `Env.shift d ρ` — the environment whose packet times are `d` later.

  Results
    (a) `parse_outcome_kind`: ok / err(msg) / panic(site) / diverged(site) of `parse r e` does not
        depend on `r` — for EVERY expression, no hypothesis.  With `TimeSafe` also "matches
        nothing" (`Parsed.nothing`) does not depend on `r` (`parse_nothing_iff`); without it it
        does (`nothing_kind_counterexample`).
    (b) `reftime_shift_equiv`: `parse r2 e = (parse r1 e).map (shiftParsed (r2 - r1))` for every
        expression all of whose time filters are `TimeSafe` (sub-queries, variables, THEN, NOT,
        lists, relative / absolute / mixed bounds included; `Expr.Shaped` is not needed).
        The statement WITHOUT the hypothesis is false for grammar-shaped input:
        `reftime_shift_counterexample` (`ftime:@ftime@+2020-01-01 1200:` parses to "nothing"
        before 2020-01-01 12:00 and to "everything" after: `cleanTimeConditions` folds the
        constant `ref - T ≥ 0`).
    (c) `reftime_floating_equal`: no absolute times (net) in any bound ⇒ `parse r2 e = parse r1 e`;
        `reftime_anchored_invariant`: every bound denotes a point in time ⇒ the two results mean
        the same for the same packets (`evalParsed p2 ρ = evalParsed p1 (Env.shift (r2-r1) ρ)`,
        and in absolute terms `reftime_anchored_absolute`); `reftime_normal_form`: re-anchored to
        the epoch (`shiftParsed (-r)`), the result does not depend on `r` at all — this is
        "equal up to the stored reference time".
        `relative_filter_follows_clock`: for a relative filter the *same* normal form is meant
        relative to a later clock, so the set of matching streams legitimately differs.

  Not covered (outside the model): a time literal without date (`HHMM[SS]`) takes its date from the
  reference time while the AST is built (conditions.go:757-771), so for such text the lexed AST
  itself — `Civil` always carries a date — depends on the day of the reference time.
-/
import Pk.Props.C14
import Pk.Proofs.Query.ShiftParse

namespace Pk.Props.C14Shift
open Pk.Query Pk.Query.Shift

/-! ### the definitions, unfolded -/

/-- a time condition is moved by adding `rtf·d` to its duration; nothing else changes -/
example (d : Int) (c : TimeC) : shiftT d c = { sum := c.sum, dur := c.dur + c.rtf * d, rtf := c.rtf } := rfl
/-- conditions of the other kinds are not moved -/
example (d : Int) (c : NumC) : shiftC d (.num c) = .num c := rfl
example (d : Int) (c : TimeC) : shiftC d (.time c) = .time (shiftT d c) := rfl
/-- `shiftParsed` moves every condition of every conjunct; "matches nothing" stays -/
example (d : Int) (cs : CSet) : shiftParsed d (.set cs) = .set (cs.map (fun c => c.map (shiftC d))) := rfl
example (d : Int) : shiftParsed d .nothing = .nothing := rfl
/-- `Outcome.map` -/
example (f : Parsed → Parsed) (p : Parsed) : (Outcome.ok p).map f = .ok (f p) := rfl
example (f : Parsed → Parsed) (m : String) : (Outcome.err m).map f = .err m := rfl
/-- the counters of a bound: `-1h+@a:ftime@-2020-01-01 1200` has one variable and minus one absolute time -/
example : partsVar [.dur "-" 1, .var "+" ⟨"a", "ftime"⟩, .abs "-" ⟨2020, 1, 1, 12, 0, 0⟩] = 1 ∧
    partsAbs [.dur "-" 1, .var "+" ⟨"a", "ftime"⟩, .abs "-" ⟨2020, 1, 1, 12, 0, 0⟩] = -1 := by decide
/-- ADDED hypothesis of (b): no bound has both a non-zero net count of absolute times and a net
    variable count of exactly 1 -/
example (r : List TimePart) : RangeSafe r ↔ (partsAbs r = 0 ∨ partsVar r ≠ 1) := Iff.rfl
example (t : Term) (l : List (List (List TimePart))) (h : t.value = .times l) :
    t.TimeSafe ↔ ∀ e ∈ l, ∀ r ∈ e, RangeSafe r := by unfold Term.TimeSafe; rw [h]
/-- bounds that denote a point in time: one absolute time or one variable, net -/
example (t : Term) (l : List (List (List TimePart))) (h : t.value = .times l) :
    t.TimeAnchored ↔ ∀ e ∈ l, e ≠ [] ∧ ∀ r ∈ e, r ≠ [] → partsAbs r + partsVar r = 1 := by
  unfold Term.TimeAnchored; rw [h]
/-- bounds without (net) absolute times -/
example (t : Term) (l : List (List (List TimePart))) (h : t.value = .times l) :
    t.TimeFloating ↔ ∀ e ∈ l, ∀ r ∈ e, partsAbs r = 0 := by unfold Term.TimeFloating; rw [h]
/-- terms that are not time filters satisfy all three -/
example (t : Term) (names : List String) (h : t.value = .tags names) :
    t.TimeSafe ∧ t.TimeAnchored ∧ t.TimeFloating := by
  unfold Term.TimeSafe Term.TimeAnchored Term.TimeFloating; rw [h]; exact ⟨trivial, trivial, trivial⟩
/-- the shifted environment -/
example (d : Int) (ρ : Env) (sq : String) :
    (Env.shift d ρ sq).ftime = (ρ sq).ftime + d ∧ (Env.shift d ρ sq).ltime = (ρ sq).ltime + d ∧
      (Env.shift d ρ sq).cport = (ρ sq).cport := ⟨rfl, rfl, rfl⟩

/-- the added hypothesis is decidable -/
instance (r : List TimePart) : Decidable (RangeSafe r) := by unfold RangeSafe; infer_instance
instance (t : Term) : Decidable t.TimeSafe := by unfold Term.TimeSafe; split <;> infer_instance

/-! ### (a) the outcome kind -/

/-- whether `parse` succeeds, and with which error message (or at which panic / divergence site)
    it fails, does not depend on the reference time — every expression, grammar-shaped or not -/
theorem parse_outcome_kind (r1 r2 : Int) (e : Expr) : kind (parse r2 e) = kind (parse r1 e) :=
  parse_kind r1 r2 e

theorem parse_ok_iff (r1 r2 : Int) (e : Expr) : (∃ p, parse r1 e = .ok p) ↔ (∃ p, parse r2 e = .ok p) := by
  have h := parse_outcome_kind r1 r2 e
  cases h1 : parse r1 e <;> cases h2 : parse r2 e <;> rw [h1, h2] at h <;>
    simp [kind, Outcome.map] at h ⊢

theorem parse_err_iff (r1 r2 : Int) (e : Expr) (m : String) : parse r1 e = .err m ↔ parse r2 e = .err m := by
  have h := parse_outcome_kind r1 r2 e
  cases h1 : parse r1 e <;> cases h2 : parse r2 e <;> rw [h1, h2] at h <;>
    simp [kind, Outcome.map] at h ⊢
  subst h; rfl

/-! ### (b) the two normal forms differ by the shift -/

/-- `reftime_shift_equiv`: two parses of the same text at reference times `r1` and `r2` return the
    same outcome and, when ok, the same normal form up to the reference time: the second is the
    first with every time condition re-anchored by `r2 - r1`.
    -- ADDED: `TermsOf Term.TimeSafe e`.  Without it the normaliser may decide the sign of a
    -- constant that contains the reference time (`reftime_shift_counterexample`, confirmed on the
    -- Go code).  Meaningful queries satisfy it: a bound that denotes a point in time has
    -- `partsAbs + partsVar = 1` (so `partsAbs ≠ 0` excludes `partsVar = 1`), a bound that denotes
    -- an offset from now has `partsAbs + partsVar = 0` and violates it only in the form
    -- `@x:ftime@ - <absolute time>` (`partsAbs = -1`, `partsVar = 1`). -/
theorem reftime_shift_equiv (r1 r2 : Int) (e : Expr) (hs : TermsOf Term.TimeSafe e) :
    parse r2 e = (parse r1 e).map (shiftParsed (r2 - r1)) := by
  have h := parse_shift r1 (r2 - r1) e hs
  have hr : r1 + (r2 - r1) = r2 := by omega
  rwa [hr] at h

/-- the grammar-shaped witness: `ftime:@ftime@+2020-01-01 1200:` -/
def degenerate : Expr :=
  .term { sq := "", key := "ftime", conv := "",
          value := .times [[[.var "" ⟨"", "ftime"⟩, .abs "+" ⟨2020, 1, 1, 12, 0, 0⟩], []]] }

theorem degenerate_shaped : degenerate.Shaped := by
  apply TermsOf.term
  simp [Term.Shaped]

/-- 2017-07-14 02:40:00 UTC and 2020-09-13 12:26:40 UTC -/
def refBefore : Int := 1500000000000000000
def refAfter : Int := 1600000000000000000

/-- without `TimeSafe` not even "matches nothing" is independent of the reference time -/
theorem nothing_kind_counterexample :
    parse refBefore degenerate = .ok .nothing ∧ parse refAfter degenerate = .ok (.set [[]]) := by
  decide +kernel

/-- `reftime_shift_equiv` without the added hypothesis is false on grammar-shaped input -/
theorem reftime_shift_counterexample :
    ¬ (∀ (r1 r2 : Int) (e : Expr), e.Shaped → parse r2 e = (parse r1 e).map (shiftParsed (r2 - r1))) := by
  intro h
  have := h refBefore refAfter degenerate degenerate_shaped
  rw [nothing_kind_counterexample.1, nothing_kind_counterexample.2] at this
  simp [shiftParsed] at this

/-- the witness violates exactly the added hypothesis -/
theorem degenerate_not_safe : ¬ TermsOf Term.TimeSafe degenerate := by
  intro h
  cases h with
  | term ht =>
    have := ht [[.var "" ⟨"", "ftime"⟩, .abs "+" ⟨2020, 1, 1, 12, 0, 0⟩], []] List.mem_cons_self
      [.var "" ⟨"", "ftime"⟩, .abs "+" ⟨2020, 1, 1, 12, 0, 0⟩] List.mem_cons_self
    revert this
    decide

/-- (a), second part: with `TimeSafe`, "matches nothing" does not depend on the reference time -/
theorem parse_nothing_iff (r1 r2 : Int) (e : Expr) (hs : TermsOf Term.TimeSafe e) :
    parse r1 e = .ok .nothing ↔ parse r2 e = .ok .nothing := by
  rw [reftime_shift_equiv r1 r2 e hs]
  cases parse r1 e with
  | ok p => cases p <;> simp [shiftParsed]
  | err m => simp
  | panic s => simp
  | diverged s => simp

/-- re-anchored to the epoch the normal form does not depend on the reference time: the pair
    (reference time, conditions) that `Parse` returns denotes the same query both times -/
theorem reftime_normal_form (r1 r2 : Int) (e : Expr) (hs : TermsOf Term.TimeSafe e) :
    (parse r2 e).map (shiftParsed (-r2)) = (parse r1 e).map (shiftParsed (-r1)) := by
  rw [reftime_shift_equiv r1 r2 e hs]
  cases parse r1 e with
  | ok p =>
    simp only [Outcome.map_ok, shiftParsed_shiftParsed]
    have : r2 - r1 + -r2 = -r1 := by omega
    rw [this]
  | err m => rfl
  | panic s => rfl
  | diverged s => rfl

/-! ### (c) corollaries -/

/-- bounds without absolute times (relative filters `-1h:`, variables, durations): both parses
    return literally the same result -/
theorem reftime_floating_equal (r1 r2 : Int) (e : Expr) (hf : TermsOf Term.TimeFloating e) :
    parse r2 e = parse r1 e := by
  rw [reftime_shift_equiv r1 r2 e (termsOf_mono (fun _ => TimeFloating.safe) hf)]
  cases hp : parse r1 e with
  | ok p =>
    have := parse_tp tinv_floating Term.TimeFloating (fun ref t cs ht h => trTerm_floating ref t cs ht h)
      r1 e hf p hp
    simp only [Outcome.map_ok, floating_shiftParsed _ p this]
  | err m => rfl
  | panic s => rfl
  | diverged s => rfl

/-- every bound denotes a point in time (`ftime`/`ltime`/`time` given as absolute times, or as
    another stream's packet time plus a duration), or there is no time filter at all: the two
    results mean the same — `p2`, whose packet times are measured from `r2`, holds exactly when
    `p1` holds for the same packets measured from `r1` -/
theorem reftime_anchored_invariant (r1 r2 : Int) (e : Expr) (ha : TermsOf Term.TimeAnchored e)
    (p1 p2 : Parsed) (h1 : parse r1 e = .ok p1) (h2 : parse r2 e = .ok p2) (ρ : Env) :
    evalParsed p2 ρ = evalParsed p1 (Env.shift (r2 - r1) ρ) := by
  have hs := reftime_shift_equiv r1 r2 e (termsOf_mono (fun _ => TimeAnchored.safe) ha)
  rw [h1, h2, Outcome.map_ok, Outcome.ok.injEq] at hs
  subst hs
  exact evalParsed_shift _ ρ p1
    (parse_tp tinv_anchored Term.TimeAnchored (fun ref t cs ht h => trTerm_anchored ref t cs ht h) r1 e ha p1 h1)

theorem env_shift_shift (d e : Int) (ρ : Env) : Env.shift d (Env.shift e ρ) = Env.shift (e + d) ρ := by
  funext sq
  simp only [Env.shift, Stream.mk.injEq, true_and, and_true]
  omega

/-- the same in absolute terms: `α` holds the packet times as wall-clock times; the engine hands
    the query parsed at `r` the times relative to `r` -/
theorem reftime_anchored_absolute (r1 r2 : Int) (e : Expr) (ha : TermsOf Term.TimeAnchored e)
    (p1 p2 : Parsed) (h1 : parse r1 e = .ok p1) (h2 : parse r2 e = .ok p2) (α : Env) :
    evalParsed p2 (Env.shift (-r2) α) = evalParsed p1 (Env.shift (-r1) α) := by
  rw [reftime_anchored_invariant r1 r2 e ha p1 p2 h1 h2, env_shift_shift]
  have : -r2 + (r2 - r1) = -r1 := by omega
  rw [this]

/-! ### non-vacuity -/

def hour : Int := 3600000000000
def noon2020 : Civil := ⟨2020, 1, 1, 12, 0, 0⟩

/-- `ftime:-1h:2020-01-01 1200 OR ltime:2020-01-01 1200+1h:` — a relative lower bound, an absolute
    upper bound and an absolute bound with an offset -/
def mixed : Expr :=
  .or [.term { sq := "", key := "ftime", conv := "", value := .times [[[.dur "-" hour], [.abs "" noon2020]]] },
       .term { sq := "", key := "ltime", conv := "", value := .times [[[.abs "" noon2020, .dur "+" hour], []]] }]

theorem mixed_safe : TermsOf Term.TimeSafe mixed :=
  TermsOf_of_termsB (fun t => decide t.TimeSafe) (fun _ h => of_decide_eq_true h) mixed (by decide +kernel)

/-- the hypotheses of `reftime_shift_equiv` are satisfiable by a query with a relative time filter,
    and the conclusion is not trivial: the absolute bounds move by 10^17 ns, the relative one stays -/
example :
    parse refBefore mixed = .ok (.set
      [[.time { sum := [{ sq := "", f := -1, l := 0 }], dur := 77880000000000000, rtf := -1 },
        .time { sum := [{ sq := "", f := 1, l := 0 }], dur := 3600000000000, rtf := 0 }],
       [.time { sum := [{ sq := "", f := 0, l := 1 }], dur := -77883600000000000, rtf := 1 }]]) ∧
    parse refAfter mixed = .ok (.set
      [[.time { sum := [{ sq := "", f := -1, l := 0 }], dur := -22120000000000000, rtf := -1 },
        .time { sum := [{ sq := "", f := 1, l := 0 }], dur := 3600000000000, rtf := 0 }],
       [.time { sum := [{ sq := "", f := 0, l := 1 }], dur := 22116400000000000, rtf := 1 }]]) := by
  decide +kernel

example : parse refAfter mixed = (parse refBefore mixed).map (shiftParsed (refAfter - refBefore)) :=
  reftime_shift_equiv refBefore refAfter mixed mixed_safe

/-- `ftime:-1h:` -/
def lastHour : Expr :=
  .term { sq := "", key := "ftime", conv := "", value := .times [[[.dur "-" hour], []]] }

theorem lastHour_floating : TermsOf Term.TimeFloating lastHour := by
  apply TermsOf.term
  simp [Term.TimeFloating, partsAbs]

/-- a stream whose first packet is at the wall-clock time `t` -/
def streamAt (t : Int) : Env := fun _ => { unitStream with ftime := t, ltime := t }

/-- a relative filter has the same normal form at both reference times, and that normal form is
    meant relative to the clock of the parse: a stream from 30 minutes before `refBefore` matches
    the query parsed at `refBefore` and not the one parsed at `refAfter`.  This is the intended
    dependence on the reference time, not covered by `reftime_anchored_absolute`. -/
theorem relative_filter_follows_clock :
    parse refAfter lastHour = parse refBefore lastHour ∧
    ∃ p, parse refBefore lastHour = .ok p ∧
      evalParsed p (Env.shift (-refBefore) (streamAt (refBefore - 1800000000000))) = true ∧
      evalParsed p (Env.shift (-refAfter) (streamAt (refBefore - 1800000000000))) = false := by
  refine ⟨reftime_floating_equal _ _ _ lastHour_floating, _, rfl, ?_, ?_⟩ <;> decide +kernel

end Pk.Props.C14Shift
