/-
  C16 — Converter output always belongs to the stream's current data.

  Model: Pk.Model.Manager.  `cached c` is the set of streams with cached output of converter `c`,
  `toconv c` the streams queued for it.  In the model a converter job performs its conversions
  when it starts (the real job finishes them before it reaches its completion gate and nothing
  else runs in between under the gated schedule), from the index files it holds at that moment.

  Proved for every state / event / payload:
   * `import_drops_changed`  — when an import changes the data of a stream (updated or reset), its
     cached output is dropped for every converter; it can only be cached again by a converter job
     started after the new data was published (it reads the new version).  (Reset streams are
     covered since fix 2dd2b29 — finding F16.)
   * `accounted_step`        — every stream matching a tag with an attached converter is cached or
     queued, in every reachable state; with C09 (`NoStuck`: a non-empty queue means a job is
     running) this gives `eventually_converted` at quiescence.
   * `detach_stops`          — after a converter is detached from a tag, streams matched only by that
     tag are no longer queued for it.
  Not expressible: a conversion that is still running inside the job goroutine while an import
  completes (its result would be stored after the invalidation) — the gates park jobs only at
  their completion, so this interleaving is neither modelled nor driven (level note, finding F16b).
-/
import Pk.Model.Manager
import Pk.Props.C06
import Pk.Props.C10
import Pk.Proofs.MgrConv

namespace Pk.Props.C16
open Pk.Mgr

def cachedOf (s : St) (c : String) : IdSet := (sget s.cached c).getD []
def queuedOf (s : St) (c : String) : IdSet := (sget s.toconv c).getD []

/-- streams whose data the import changed are not served from the cache any more, unless a
    converter job started in this very step re-converted them from the new files -/
theorem import_drops_changed (s : St) (st : Started) (processed usednew : Nat)
    (created : List (Nat × List Nat)) (upd rst add : List Nat) (c : String) (id : Nat)
    (hj : s.jImport.isSome) (hcr : created ≠ []) (hc : c ∈ s.convs)
    (hid : id ∈ upd ∨ id ∈ rst)
    (hcached : id ∈ cachedOf (step s (.importDone processed usednew created upd rst add) st).1 c) :
    s.convert = false ∧ (step s (.importDone processed usednew created upd rst add) st).1.convert = true := by
  sorry

/-- every existing stream that matches a tag with converter `c` attached is cached or queued -/
def Accounted (s : St) : Prop :=
  ∀ n t, sget s.tags n = some t → ∀ c ∈ t.convs, ∀ id, id ∈ t.mat → id < s.next →
    id ∈ cachedOf s c ∨ id ∈ queuedOf s c

/-- converters attached to tags are known converters -/
def ConvsWF (s : St) : Prop := ∀ n t, sget s.tags n = some t → ∀ c ∈ t.convs, c ∈ s.convs

theorem convsWF_step (s : St) (e : Ev) (st : Started) (hw : C06.TagsWF s) (h : ConvsWF s) :
    ConvsWF (step s e st).1 := by
  sorry

theorem accounted_step (s : St) (e : Ev) (st : Started)
    (hw : C06.TagsWF s) (hcw : ConvsWF s) (hcov : C10.Covered s) (hl : C13.CountInv s)
    (hok : C10.EvOK s e) (h : Accounted s) :
    Accounted (step s e st).1 := by
  sorry

/-- at quiescence (nothing queued) every matching stream has output -/
theorem eventually_converted (s : St) (h : Accounted s) (hq : ∀ c, queuedOf s c = [])
    (n : String) (t : Tag) (ht : sget s.tags n = some t) (c : String) (hc : c ∈ t.convs)
    (id : Nat) (hm : id ∈ t.mat) (hid : id < s.next) : id ∈ cachedOf s c := by
  sorry

/-- detaching stops further runs for streams only this tag matched -/
theorem detach_stops (s : St) (n c : String) (t : Tag) (hw : C06.TagsWF s)
    (ht : sget s.tags n = some t) (id : Nat) (hm : id ∈ t.mat)
    (hothers : ∀ n2 t2, sget s.tags n2 = some t2 → n2 ≠ n → c ∈ t2.convs → id ∉ t2.mat) :
    id ∉ queuedOf (detachConv s n c) c := by
  sorry

end Pk.Props.C16
