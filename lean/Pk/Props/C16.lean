/-
  C16 — Converter output always belongs to the stream's current data.

  Model: Pk.Model.Manager.  `cached c` is the set of streams with cached output of converter `c`,
  `toconv c` the streams queued for it.  In the model a converter job performs its conversions
  when it starts (the real job finishes them before it reaches its completion gate and nothing
  else runs in between under the gated schedule), from the index files it holds at that moment.

  Proved for every state / event / payload:
   * `import_drops_changed`  — when an import changes the data of a stream (updated or reset), its
     cached output is dropped for every converter; it can only be cached again by a converter job
     started after the new data was published (it reads the new version).  (Reset streams are
     covered since fix 2dd2b29 — finding F16.)
   * `accounted_step`        — every stream matching a tag with an attached converter is cached or
     queued, in every reachable state; with C09 (`NoStuck`: a non-empty queue means a job is
     running) this gives `eventually_converted` at quiescence.
     (ADDED hypothesis `MatBounded`: tags match existing streams only; it is itself an invariant,
     `matInv_step`, for payloads that report existing streams only, `MatOK`.)
   * `detach_stops`          — after a converter is detached from a tag, streams matched only by that
     tag are no longer queued for it.
  History level: Pk/Props/C16Reach.lean (`cached_current_run` with ghost versions, `output_current_when_idle`,
  `detach_stops_all_runs` — the literal "detaching stops further runs", false of the code before the repair
  of finding F57).
  Not expressible in this model: a conversion that is still running inside the job goroutine while an import
  completes (its result is stored after the invalidation) — the model converts when the job starts.  That
  interleaving is driven by an oracle-only stage of the check (the deterministic converter is held, `convhold`);
  it found finding F16b (stale output kept), which is repaired in the repository (e15ceb9: streams invalidated
  while a converter job runs are invalidated again at its completion).
-/
import Pk.Model.Manager
import Pk.Props.C06
import Pk.Props.C10
import Pk.Proofs.MgrConv
import Pk.Proofs.MgrConvMat

namespace Pk.Props.C16
open Pk.Mgr

def cachedOf (s : St) (c : String) : IdSet := (sget s.cached c).getD []
def queuedOf (s : St) (c : String) : IdSet := (sget s.toconv c).getD []

/-- streams whose data the import changed are not served from the cache any more, unless a
    converter job started in this very step re-converted them from the new files -/
theorem import_drops_changed (s : St) (st : Started) (processed usednew : Nat)
    (created : List (Nat × List Nat)) (upd rst add : List Nat) (c : String) (id : Nat)
    (hj : s.jImport.isSome) (hcr : created ≠ []) (hc : c ∈ s.convs)
    (hid : id ∈ upd ∨ id ∈ rst)
    (hcached : id ∈ cachedOf (step s (.importDone processed usednew created upd rst add) st).1 c) :
    s.convert = false ∧ (step s (.importDone processed usednew created upd rst add) st).1.convert = true :=
  Pk.Proofs.MgrConv.import_drops' s st processed usednew created upd rst add c id hj hcr hc hid hcached

/-- every existing stream that matches a tag with converter `c` attached is cached or queued -/
def Accounted (s : St) : Prop :=
  ∀ n t, sget s.tags n = some t → ∀ c ∈ t.convs, ∀ id, id ∈ t.mat → id < s.next →
    id ∈ cachedOf s c ∨ id ∈ queuedOf s c

/-- converters attached to tags are known converters -/
def ConvsWF (s : St) : Prop := ∀ n t, sget s.tags n = some t → ∀ c ∈ t.convs, c ∈ s.convs

theorem convsWF_step (s : St) (e : Ev) (st : Started) (hw : C06.TagsWF s) (h : ConvsWF s) :
    ConvsWF (step s e st).1 := by
  have _ := hw
  exact (Pk.Proofs.MgrConv.step_ac (b := False) s e st ⟨h, False.elim⟩ False.elim).1

/-- the matches of every tag are existing streams -/
-- ADDED: needed by `accounted_step` (see there)
def MatBounded (s : St) : Prop := ∀ n t, sget s.tags n = some t → ∀ id ∈ t.mat, id < s.next

theorem accounted_step (s : St) (e : Ev) (st : Started)
    (hw : C06.TagsWF s) (hcw : ConvsWF s) (hcov : C10.Covered s) (hl : C13.CountInv s)
    (hok : C10.EvOK s e) (h : Accounted s)
    -- ADDED: without it the statement is false: a tag with a converter attached whose matches
    -- contain an id ≥ `next` (e.g. a mark created as `id:N` with N = next; the model's `addTag`
    -- and `tagDone` payloads are not bounded either) is vacuously accounted; the import that
    -- creates stream N raises `next` without queueing N for the converter (it is only queued
    -- when the tagging job triggered by the import completes).
    (hmb : MatBounded s) :
    Accounted (step s e st).1 := by
  have _ := hw
  refine (Pk.Proofs.MgrConv.step_ac (b := True) s e st ⟨hcw, fun _ => ⟨h, hcov⟩⟩ (fun _ => ?_)).2 trivial
  cases e with
  | importDone processed usednew created upd rst add =>
    obtain ⟨hfresh, hpay⟩ := hok
    refine ⟨hmb, ?_, ⟨hfresh.1, fun o ho => (hfresh.2 o ho).2⟩, ?_⟩
    · intro jn held hj f hf
      have h1 := hl.1 f
      have hpos : 0 < s.idx.count f := List.count_pos_iff.2 hf
      rw [h1]
      simp only [C13.holders, C13.jobHeld, hj, Option.map_some, Option.getD_some, List.count_append]
      omega
    · intro jn held hj
      obtain ⟨h1, _, h3⟩ := hpay jn held hj
      exact ⟨h1, h3⟩
  | _ => trivial

/-! ### `MatBounded` is an invariant (ADDED: so that the extra hypothesis of `accounted_step` can be
    discharged along every history whose payloads report existing streams only) -/

/-- ADDED: inductive form of `MatBounded`: also the snapshot held by the running tagging job is
    bounded (its matches are published by `tagDone`) -/
def MatInv (s : St) : Prop :=
  (∀ nt ∈ s.tags, ∀ id ∈ nt.2.mat, id < s.next) ∧
  ∀ n snap held, s.jTag = some (n, snap, held) → ∀ id ∈ snap.mat, id < s.next

/-- ADDED: payload contract: a search result and the id list of a new mark name existing streams -/
def MatOK (s : St) : Ev → Prop
  | .tagDone _ result => ∀ id ∈ result, id < s.next
  | .addTag _ _ _ f => ∀ id ∈ f.ids, id < s.next
  | _ => True

theorem matInv_bounded (s : St) (h : MatInv s) : MatBounded s :=
  fun n t ht => h.1 (n, t) (Pk.Proofs.MgrConv.sget_mem _ _ _ ht)

theorem matInv_step (s : St) (e : Ev) (st : Started) (h : MatInv s) (hok : C10.EvOK s e)
    (hm : MatOK s e) : MatInv (step s e st).1 := by
  refine Pk.Proofs.MgrConv.mi_step s e st h ?_
  cases e with
  | importDone processed usednew created upd rst add =>
    intro jn held hj
    exact Nat.le_of_eq (hok.2 jn held hj).1.symm
  | tagDone name result => exact hm
  | addTag name color defn f => exact hm
  | _ => trivial

/-- at quiescence (nothing queued) every matching stream has output -/
theorem eventually_converted (s : St) (h : Accounted s) (hq : ∀ c, queuedOf s c = [])
    (n : String) (t : Tag) (ht : sget s.tags n = some t) (c : String) (hc : c ∈ t.convs)
    (id : Nat) (hm : id ∈ t.mat) (hid : id < s.next) : id ∈ cachedOf s c := by
  rcases h n t ht c hc id hm hid with h1 | h1
  · exact h1
  · rw [hq c] at h1; simp at h1

/-- detaching stops further runs for streams only this tag matched -/
-- CHANGED (dropped): `detachConv` takes the tagging choice of the dropped-output step (`st.tag` at both call
-- sites); the statement holds for every choice (the former statement is the instance `choice := none`)
theorem detach_stops (s : St) (n c : String) (t : Tag) (hw : C06.TagsWF s)
    (ht : sget s.tags n = some t) (id : Nat) (hm : id ∈ t.mat)
    (hothers : ∀ n2 t2, sget s.tags n2 = some t2 → n2 ≠ n → c ∈ t2.convs → id ∉ t2.mat)
    (choice : Option String := none) :
    id ∉ queuedOf (detachConv s n c choice) c :=
  Pk.Proofs.MgrConv.detach_stops' s n c t hw ht id hm hothers choice

end Pk.Props.C16
