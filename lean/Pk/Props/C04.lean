/-
  C04 — Payload filters agree with plain regular-expression matching.

  Property theorems only (helper lemmas: Pk/Proofs/DataSearch.lean).  The regular expression engine is
  third-party: the theorems quantify over it.
    * a context-free expression (no empty-width assertion) is ANY leftmost-first matcher `matcherOf cands`
      whose anchored candidates `cands u` (lengths, in priority order) depend only on the bytes they
      consume (`Local`); its facts are hypotheses (`Sound`: every match has a length in [minLen,maxLen],
      starts with the prefix, ends with the suffix — establishing them is property C18);
    * an expression with assertions is ANY matcher at all, with the facts the repaired code derives for it
      (`Facts.noShortcuts`).
-/
import Pk.Model.DataSearch
import Pk.Proofs.DataSearch
import Pk.Proofs.Extra

namespace Pk.Props.C04
open Pk.DataSearch Pk.Proofs.DataSearch

/-- the shortcuts of `find` (minimum length, literal prefix skip, last-suffix cut, fixed-length sliding
    window) do not change the match when the facts are sound and the expression is context-free: same
    absolute start and end as the plain scan of the rest of the buffer (both miss together), and the
    offset is left between the old offset and the match, so no earlier match is lost. -/
theorem find_eq_plain (cands : Bytes → List Nat) (f : Facts) (hl : Local cands) (hs : Sound cands f)
    (hctx : f.ctx = false) (buf : Bytes) (off : Nat) (hoff : off ≤ buf.length) :
    sameAbs (find (matcherOf cands) f buf off) (plainFind (matcherOf cands) buf off) = true ∧
    off ≤ (find (matcherOf cands) f buf off).off :=
  find_eq_plain' cands f hl hs hctx buf off hoff

/-- expressions with empty-width assertions (fix F7): `find` is the plain scan, for every matcher, and it
    leaves the offset alone -/
theorem find_eq_plain_assertions (m : Matcher) (buf : Bytes) (off : Nat) :
    (find m Facts.noShortcuts buf off).res = (plainFind m buf off).res ∧
    (find m Facts.noShortcuts buf off).off = off :=
  find_noShortcuts' m buf off

/-- the hypothesis "context-free" of `find_eq_plain` is needed: with the facts the UNREPAIRED code derived
    for `abc\b` (prefix abc, suffix abc, length 3..3) and what the regex engine answers on the slices it is
    shown ("abc" alone: match, "abcd": no match), the shortcut scan reports a match in "abcd" (DESIGN F7,
    fixed by e4d7f3e: such expressions now get `Facts.noShortcuts`). -/
def abcB : Matcher := fun b => if b = [97, 98, 99] then some (0, 3) else none

theorem finding_F7_needs_context_free :
    (find abcB ⟨[97, 98, 99], [97, 98, 99], 3, 3, false⟩ [97, 98, 99, 100] 0).res = some (0, 3) ∧
    (plainFind abcB [97, 98, 99, 100] 0).res = none ∧
    (find abcB Facts.noShortcuts [97, 98, 99, 100] 0).res = none := by
  decide

/-- a THEN chain advances identically under the shortcut scan and under the plain scan, on every data
    source, when on each of its elements the two scans agree (`Agree`) and an empty match at the front is
    reported without moving the offset (`EmptyStays`: the engine skips the chunk-boundary rule when the
    match end RELATIVE TO THE SKIPPED BUFFER is 0).  By `agree_of_sound`/`emptyStays_of_sound` and
    `agree_of_noShortcuts`/`emptyStays_of_noShortcuts` both kinds of elements satisfy this. -/
theorem chain_eq_plainChain (s : Source) (els : List Elem) (h : ∀ e ∈ els, Agree e ∧ EmptyStays e) :
    progress s els = plainProgress s els :=
  progressWith_congr_strong' s els h (0, 0)

/-- `EmptyStays` cannot be dropped: a matcher that reports the empty match in front of the first byte 2,
    together with the (absolutely agreeing) prefix fact [2], advances a two-element chain further than the
    plain scan does -/
theorem chain_needs_emptyStays :
    ¬ (∀ (s : Source) (els : List Elem), (∀ e ∈ els, Agree e) → ∀ (offs : Nat × Nat),
        offs.1 ≤ s.client.length → offs.2 ≤ s.server.length →
        (∀ p ∈ s.sizes, p.1 ≤ s.client.length ∧ p.2 ≤ s.server.length) →
        progressWith find s els offs = progressWith (fun m _ b o => plainFind m b o) s els offs) :=
  progressWith_congr'_false

/-- context-free elements with sound facts agree -/
theorem agree_of_sound (cands : Bytes → List Nat) (f : Facts) (d : Nat) (hl : Local cands) (hs : Sound cands f)
    (hctx : f.ctx = false) : Agree ⟨d, matcherOf cands, f⟩ :=
  fun buf off hoff => (find_eq_plain' cands f hl hs hctx buf off hoff).1

/-- elements with assertions agree -/
theorem agree_of_noShortcuts (m : Matcher) (d : Nat) : Agree ⟨d, m, Facts.noShortcuts⟩ := by
  intro buf off _
  have h := find_noShortcuts' m buf off
  unfold sameAbs
  rw [h.1, h.2]
  cases hp : (plainFind m buf off).res with
  | none => rfl
  | some r =>
    have : (plainFind m buf off).off = off := by
      unfold plainFind at hp ⊢
      cases hm : m (buf.drop off) <;> simp_all
    simp [this]

theorem emptyStays_sound (cands : Bytes → List Nat) (f : Facts) (d : Nat) (hl : Local cands) (hs : Sound cands f) :
    EmptyStays ⟨d, matcherOf cands, f⟩ :=
  emptyStays_of_sound cands f d hl hs

theorem emptyStays_noShortcuts (m : Matcher) (d : Nat) : EmptyStays ⟨d, m, Facts.noShortcuts⟩ :=
  emptyStays_of_noShortcuts m d

/-- the whole data filter of a query part is the plain-scan filter -/
theorem filter_eq_plainFilter (conds : List Cond) (srcs : List Source)
    (h : ∀ c ∈ conds, ∀ e ∈ c.els, Agree e ∧ EmptyStays e) :
    filter conds srcs = plainFilter conds srcs :=
  filter_congr_strong' conds srcs h

/-- … hence the selection of a stream: every element either context-free with sound facts or an
    arbitrary matcher without shortcuts -/
theorem selected_eq_plainSelected (parts : List (List Cond)) (srcs : List Source)
    (h : ∀ p ∈ parts, ∀ c ∈ p, ∀ e ∈ c.els,
      (∃ cands, Local cands ∧ Sound cands e.facts ∧ e.facts.ctx = false ∧ e.m = matcherOf cands) ∨
      e.facts = Facts.noShortcuts) :
    selected parts srcs = plainSelected parts srcs := by
  have key : ∀ p ∈ parts, filter p srcs = plainFilter p srcs := by
    intro p hp
    apply filter_congr_strong'
    intro c hc e he
    rcases h p hp c hc e he with ⟨cands, hl, hs, hc', hm⟩ | hn
    · obtain ⟨d, m, f⟩ := e
      simp only at hm hs hc'
      subst hm
      exact ⟨fun buf off hoff => (find_eq_plain' cands f hl hs hc' buf off hoff).1,
             emptyStays_of_sound cands f d hl hs⟩
    · obtain ⟨d, m, f⟩ := e
      simp only at hn
      subst hn
      exact ⟨agree_of_noShortcuts m d, emptyStays_of_noShortcuts m d⟩
  unfold selected plainSelected
  induction parts with
  | nil => rfl
  | cons p rest ih =>
    simp only [List.any_cons]
    rw [key p (List.mem_cons_self ..), ih (fun q hq => h q (List.mem_cons_of_mem _ hq))
      (fun q hq => key q (List.mem_cons_of_mem _ hq))]

/-- the offset update implements the chunk rule of the property statement: after a match of direction `d`
    ending at absolute offset `o`, the other direction continues exactly with the data exchanged after the
    burst that holds the last matched byte ("each later element only sees data that follows the previous
    match in conversation order"); `d`'s own offset is the end of the match -/
theorem advance_matches_conversation_order (cs : Pk.Proofs.Extra.Conv) (hwf : Pk.Proofs.Extra.WF cs) (d : Nat)
    (hd : d = 0 ∨ d = 1) (offs : Nat × Nat) (e : Nat) (he : e ≠ 0)
    (hle : sel d offs + e ≤ (Pk.Proofs.Extra.dirBuf cs d).length) :
    let offs' := advance (Pk.Proofs.Extra.sizesOf cs) d offs e
    sel d offs' = sel d offs + e ∧
    (Pk.Proofs.Extra.dirBuf cs (1 - d)).drop (sel (1 - d) offs') =
      Pk.Proofs.Extra.dirBuf (cs.drop (Pk.Proofs.Extra.chunksThrough cs d (sel d offs + e))) (1 - d) :=
  Pk.Proofs.Extra.advance_matches_conversation_order' cs hwf d hd offs e he hle

/-- an empty match at the very front consumes nothing and moves nothing -/
theorem advance_zero (bl : ChunkSizes) (d : Nat) (offs : Nat × Nat) : advance bl d offs 0 = offs :=
  Pk.Proofs.Extra.advance_zero' bl d offs

/-- ∃ / ∀ over the data sources: a non-negated condition holds iff SOME evaluated source completes the
    chain; a negated condition (`a > b > !c`) holds iff there is a source and on EVERY source exactly the
    last element is missing -/
theorem sources_any_all (c : Cond) (ns : List Nat) :
    condDecision c ns =
      if c.inverted then (!ns.isEmpty && ns.all (fun n => c.els.length - n == 1))
      else ns.any (fun n => c.els.length - n == 0) :=
  condDecision_spec' c ns

/-- zero evaluated sources: exactly the negated single-element conditions hold (a negated chain
    `a then -b` needs its leading elements to match somewhere; fix F44) -/
theorem sources_none (prog : Source → List Elem → Nat) (conds : List Cond) :
    filterWith prog conds [] = conds.all (fun c => c.inverted && decide (c.els.length ≤ 1)) := by
  simp [filterWith]

/-- negating a single data filter flips the decision, for every number of data sources (zero included) -/
theorem negation_flips (prog : Source → List Elem → Nat) (e : Elem) (srcs : List Source)
    (h : ∀ s, prog s [e] ≤ 1) :
    filterWith prog [⟨[e], true⟩] srcs = !filterWith prog [⟨[e], false⟩] srcs :=
  negation_flips' prog e srcs h

/-- F42 (known): the negation of a THEN chain is NOT "no source completes the chain" once there are two
    data sources.  `-(a then b)` is normalised to `-a  or  (a then -b)`; on two sources where the chain
    stops at different elements (0 and 1 matched) both alternatives are rejected although no source
    completes the chain. -/
theorem finding_F42 (a b : Elem) :
    let ns1 := [0, 1]   -- progress of [a] on the two sources
    let ns2 := [0, 1]   -- progress of [a, b] on the two sources
    (condDecision ⟨[a], true⟩ ns1 || condDecision ⟨[a, b], true⟩ ns2) = false ∧
    (!condDecision ⟨[a, b], false⟩ ns2) = true := by
  simp [condDecision, failsOn]

/-! ### non-vacuity -/

/-- the expression that matches the empty string everywhere -/
def candsEmpty : Bytes → List Nat := fun _ => [0]
example : Local candsEmpty := ⟨by intro u n h; simp [candsEmpty] at h; omega, by intro u c; simp [candsEmpty]⟩
example : Sound candsEmpty ⟨[], [], 0, 0, false⟩ :=
  ⟨by intro u n h; simp, by intro u n h; simp [candsEmpty] at h; omega,
   by intro u n h; simp [hasPrefix], by intro u n h; simp [hasSuffix, hasPrefix]⟩

/-- the one-byte class `[ab]` -/
def candsClass : Bytes → List Nat
  | x :: _ => if x = 97 ∨ x = 98 then [1] else []
  | [] => []
example : Local candsClass := by
  constructor
  · intro u n h
    cases u with
    | nil => simp [candsClass] at h
    | cons x r => simp only [candsClass] at h; split at h <;> simp at h; simp; omega
  · intro u c
    cases u with
    | nil => simp [candsClass]
    | cons x r =>
      cases c with
      | zero => simp only [List.take_zero, candsClass]; split <;> simp
      | succ c => simp only [List.take_succ_cons, candsClass]; split <;> simp
example : Sound candsClass ⟨[], [], 1, 1, false⟩ := by
  refine ⟨?_, ?_, ?_, ?_⟩ <;> intro u n h <;> cases u with
    | nil => simp [candsClass] at h
    | cons x r => simp only [candsClass] at h; split at h <;> simp at h <;> simp [h, hasPrefix, hasSuffix]
/-- the matcher built from it is leftmost: first a or b -/
example : matcherOf candsClass [99, 100, 98, 97] = some (2, 3) := by decide
example : matcherOf candsClass [99, 100] = none := by decide
/-- find with the shortcuts agrees with the plain scan on concrete data; literal `ab` with prefix = suffix = ab -/
def candsAb : Bytes → List Nat := fun u => if hasPrefix u [97, 98] then [2] else []
example : find (matcherOf candsAb) ⟨[97, 98], [97, 98], 2, 2, false⟩ [99, 97, 98, 97, 98, 100] 0 = ⟨some (0, 2), 1⟩ := by decide
example : plainFind (matcherOf candsAb) [99, 97, 98, 97, 98, 100] 0 = ⟨some (1, 3), 0⟩ := by decide
/-- the fixed-length sliding window: `.b` (length 2, suffix b, no prefix) -/
def candsDotB : Bytes → List Nat
  | _ :: 98 :: _ => [2]
  | _ => []
example : find (matcherOf candsDotB) ⟨[], [98], 2, 2, false⟩ [98, 99, 97, 98, 100] 0 = ⟨some (0, 2), 2⟩ := by decide
example : plainFind (matcherOf candsDotB) [98, 99, 97, 98, 100] 0 = ⟨some (2, 4), 0⟩ := by decide
/-- chunk-boundary rule: client "ab" | server "x" | client "c": a match ending inside the first client burst
    moves the server offset to 0 (the server burst comes later), one ending in the last burst moves it to 1 -/
example : advance [(0, 0), (2, 0), (2, 1), (3, 1)] 0 (0, 0) 2 = (2, 0) := by decide
example : advance [(0, 0), (2, 0), (2, 1), (3, 1)] 0 (0, 0) 3 = (3, 1) := by decide
example : advance [(0, 0), (2, 0), (2, 1), (3, 1)] 1 (0, 0) 1 = (2, 1) := by decide


end Pk.Props.C04
