/-
  C01 — index files return every stored stream exactly as written.

  Property theorems over the model of internal/index/{format,writer,reader}.go
  (Pk/Model/Bytes.lean, Pk/Model/IndexFormat.lean). The model is tied to the code by the
  correspondence check (`./check C01`), on the repaired code: F8 (reader used the host-group `Start`
  as a byte offset) and F9 (`popN` popped bytes, not hosts) are fixed in the repository; their
  witnesses are corpus/C01/f8_*.ops and f9_*.ops.

  Vocabulary: `Writer.addAll w ss` = `AddStream` of every stream of `ss` in order (all accepted);
  `w.finalize` = the sections `Finalize` writes; `newReader f` = `NewReader` on such a file.
-/
import Pk.Model.IndexFormat
import Pk.Proofs.Bytes
import Pk.Proofs.IndexFormatCodec
import Pk.Proofs.IndexFormatHosts
import Pk.Proofs.IndexFormatLookup
import Pk.Proofs.IndexFormatRoundtrip
import Pk.Proofs.IndexFormatSkip
import Pk.Proofs.IndexFormatMeta
import Pk.Proofs.IndexFormatHostsRoundtrip
import Pk.Proofs.IndexFormatSearch
import Pk.Proofs.IndexFormatData

namespace Pk.Props.C01
open Pk Pk.Bytes Pk.Index

/-! ## byte level -/

/-- every fixed record of format.go survives `binary.Write` / the reader's decode -/
theorem codec_roundtrip_packet (p : PacketRec) (h : p.WF) : PacketRec.dec p.enc = p :=
  Pk.Index.codec_roundtrip_packet p h
theorem codec_roundtrip_stream (s : StreamRec) (h : s.WF) : StreamRec.dec s.enc = s :=
  Pk.Index.codec_roundtrip_stream s h
theorem codec_roundtrip_hostgroup (e : HGEntry) (h : e.WF) : HGEntry.dec e.enc = e :=
  Pk.Index.codec_roundtrip_hostgroup e h
theorem codec_roundtrip_import (e : ImportRec) (h : e.WF) : ImportRec.dec e.enc = e :=
  Pk.Index.codec_roundtrip_import e h

/-- little-endian fixed-width integers: decode ∘ encode is truncation, encode ∘ decode is the identity -/
theorem codec_roundtrip_le (k n : Nat) : val (le k n) = n % 256 ^ k := val_le k n
theorem codec_roundtrip_le_inv (bs : Bytes) : le bs.length (val bs) = bs := le_val bs

/-- the segmentation varint of the writer is read back by the reader, whatever follows it -/
theorem varint_roundtrip (n : Nat) (h : n < 2 ^ 64) (rest : Bytes) :
    decVarint (encVarint n ++ rest) = some (n, rest) := Pk.Bytes.varint_roundtrip n h rest

theorem splitAux_sum (fuel n : Nat) (h : n ≤ fuel + 65535) : (splitAux fuel n).sum = n := by
  induction fuel generalizing n with
  | zero => simp [splitAux]
  | succ f ih =>
    simp only [splitAux]
    split
    · simp
    · simp only [List.sum_cons]; rw [ih _ (by omega)]; omega

/-- a chunk of any size is split into packet records whose sizes sum to it -/
theorem split64k_sum (n : Nat) : (splitSizes n).sum = n := splitAux_sum n n (by omega)

/-- … and every record size fits the 16-bit field -/
theorem split64k_fits (n : Nat) : ∀ x ∈ splitSizes n, x ≤ 65535 := by
  have : ∀ fuel n, n ≤ fuel + 65535 → ∀ x ∈ splitAux fuel n, x ≤ 65535 := by
    intro fuel
    induction fuel with
    | zero => intro n h x hx; simp [splitAux] at hx; omega
    | succ f ih =>
      intro n h x hx
      simp only [splitAux] at hx
      split at hx
      · simp at hx; omega
      · simp at hx
        rcases hx with rfl | hx
        · omega
        · exact ih _ (by omega) x hx
  exact this n n (by omega)

/-- `skip_counters_sound`: in the packet records the writer emits for a stream (any record list: split
    chunks, payload-less runs of any length, saturation at 255) following `SkipPacketsForData` from any
    record never passes a record with payload and lands on a record of the stream — at the latest the last
    one, whose has-next flag is the only thing `clearLastHasNext` changes. -/
theorem skip_counters_sound (recs : List PacketRec) : SkipSound (clearLastHasNext (setSkips recs).1) :=
  clearLast_sound _ (setSkips_spec recs).2.1

/-- the skip pass changes no payload size -/
theorem skip_counters_keep_sizes (recs : List PacketRec) : (setSkips recs).1.map (·.size) = recs.map (·.size) :=
  (setSkips_spec recs).1

/-! ## host tables -/

/-- `hostTable_aligned`: over any sequence of accepted `AddStream` calls (including the undo of a first
    address whose partner does not fit) every host group holds a whole number of 4- or 16-byte hosts,
    at least one, at most 65 536 bytes. (The `AddIndex` paths are covered in Props/C07.) -/
theorem hostTable_aligned (ss : List StreamIn) (hss : ∀ s ∈ ss, s.AddrWF) :
    ∀ (w w' : Writer), GroupsInv w.hostGroups → w.addAll ss = some w' → GroupsInv w'.hostGroups := by
  induction ss with
  | nil => intro w w' hw h; simp [Writer.addAll] at h; subst h; exact hw
  | cons s ss ih =>
    intro w w' hw h
    simp only [Writer.addAll] at h
    split at h
    · rename_i w1 h1
      exact ih (fun x hx => hss x (by simp [hx])) w1 w' (addStream_inv w w1 s true (hss s (by simp)) hw h1) h
    · simp at h

/-- `hostgroups_decode`: for any number of host groups of either family (second and later groups
    included) the reader's host groups are exactly the writer's. -/
theorem hostgroups_decode (w : Writer) (h : GroupsInv w.hostGroups)
    (hb4 : (v4of w.hostGroups).length < 2 ^ 32) (hb6 : (v6of w.hostGroups).length < 2 ^ 32) :
    readHostGroups w.finalize.v4 w.finalize.v6 w.finalize.hostGroups = .ok (w.hostGroups.map HostGroup.toReader) :=
  hostgroups_decode' w h hb4 hb6

/-- reader host `i` of group `g` = writer host `i` of group `g` -/
theorem hostgroups_decode_host (g : HostGroup) (i : Nat) :
    g.toReader.get i = (g.hosts.drop (g.hostSize * i)).take g.hostSize := rfl

/-! ## lookups and ids -/

/-- `lookup_by_id_exact`: a stored stream is found under its id, and it is that stream … -/
theorem lookup_by_id_exact (f : FileModel) (r : Reader) (h : newReader f = .ok r)
    (hnd : (f.streams.map (·.id)).Nodup) (i : Nat) (s : StreamRec) (hs : f.streams[i]? = some s) :
    r.streamByID s.id = some (i, s) := streamByID_found f r h hnd i s hs

/-- … and nothing is found under an id that was not stored -/
theorem lookup_by_id_absent (f : FileModel) (r : Reader) (h : newReader f = .ok r) (id : Nat)
    (hid : ∀ s ∈ f.streams, s.id ≠ id) : r.streamByID id = none := streamByID_absent f r h id hid

/-- `roundtrip_ids`: the reopened file holds exactly the written ids, in the order written; Min/MaxStreamID
    bound them. -/
theorem roundtrip_ids (ss : List StreamIn) (w : Writer) (r : Reader)
    (hw : ({} : Writer).addAll ss = some w) (hr : newReader w.finalize = .ok r) :
    r.f.streams.map (·.id) = ss.map (·.id) ∧
    (∀ s ∈ ss, r.idMin ≤ s.id ∧ s.id ≤ r.idMax) := by
  have hids := addAll_ids ss {} w hw
  obtain ⟨hf, hmin, hmax, _, _⟩ := newReader_ok _ r hr
  have hst : r.f.streams = w.streams := by rw [hf]; rfl
  have hfs : w.finalize.streams = w.streams := rfl
  refine ⟨by rw [hst, hids]; simp, ?_⟩
  intro s hs
  have hmem : s.id ∈ w.streams.map (·.id) := by rw [hids]; simp; exact ⟨s, hs, rfl⟩
  rw [hmin, hmax, hfs]
  exact ⟨(minList_le _ _).2 _ hmem, (le_maxList _ _).2 _ hmem⟩

/-- with distinct ids, `StreamByID` finds every written stream and nothing else -/
theorem roundtrip_lookup (ss : List StreamIn) (w : Writer) (r : Reader)
    (hw : ({} : Writer).addAll ss = some w) (hr : newReader w.finalize = .ok r)
    (hnd : (ss.map (·.id)).Nodup) :
    (∀ s ∈ ss, ∃ i rec_, r.streamByID s.id = some (i, rec_) ∧ rec_.id = s.id) ∧
    (∀ id, id ∉ ss.map (·.id) → r.streamByID id = none) := by
  have hids := addAll_ids ss {} w hw
  have hfs : w.finalize.streams = w.streams := rfl
  have hnd' : (w.finalize.streams.map (·.id)).Nodup := by rw [hfs, hids]; simpa using hnd
  constructor
  · intro s hs
    have hmem : s.id ∈ w.streams.map (·.id) := by rw [hids]; simp; exact ⟨s, hs, rfl⟩
    obtain ⟨rec_, hrec, hid⟩ := List.mem_map.mp hmem
    obtain ⟨i, hi⟩ := List.getElem?_of_mem hrec
    refine ⟨i, rec_, ?_, hid⟩
    rw [← hid]
    exact streamByID_found _ r hr hnd' i rec_ (by rw [hfs]; exact hi)
  · intro id hid
    apply streamByID_absent _ r hr
    intro s hs heq
    apply hid
    have : s.id ∈ w.streams.map (·.id) := List.mem_map.mpr ⟨s, by rw [← hfs]; exact hs, rfl⟩
    rw [hids] at this
    simpa [heq] using this

/-- `roundtrip_meta`: for every written stream (well-formed times: this era, last ≥ first) the reopened file
    holds, at the same position, a record with its id, ports, protocol and per-direction byte counts, and
    `FirstPacket()` / `LastPacket()` return the first/last packet time exactly (ns) — whichever way the file's
    reference second moved while later streams were added. (Host addresses: `hostgroups_decode` plus the tie.) -/
theorem roundtrip_meta (ss : List StreamIn) (w : Writer) (r : Reader)
    (hw : ({} : Writer).addAll ss = some w) (hr : newReader w.finalize = .ok r) (hwf : ∀ s ∈ ss, s.TimeWF)
    (i : Nat) (s : StreamIn) (hs : ss[i]? = some s) :
    ∃ rec_, r.f.streams[i]? = some rec_ ∧ rec_.id = s.id ∧ rec_.cp = s.cport ∧ rec_.sp = s.sport ∧
      protoName rec_.flags = (if s.flags / 2 % 2 = 0 then "TCP" else "UDP") ∧
      (∃ cds, chunkDirs s.packets s.data = some cds ∧ rec_.cb = (dirBytes 0 cds).length ∧ rec_.sb = (dirBytes 1 cds).length) ∧
      ∃ p0 pl, s.packets.head? = some p0 ∧ s.packets.getLast? = some pl ∧
        r.firstPacket rec_ = p0.ts ∧ r.lastPacket rec_ = pl.ts := by
  have hinv : MetaInv ({} : Writer) [] := ⟨fun _ => rfl, Recs.nil⟩
  have hm := addAll_meta ss {} w [] hinv hwf hw
  simp only [List.nil_append] at hm
  obtain ⟨rec_, hrec, h1, h2, h3, h4, h5, p0, pl, hp0, hpl, hf, hl, hbf, hbl, _, _, _⟩ := hm.2.get i s hs
  obtain ⟨hfile, _, _, _, _⟩ := newReader_ok _ r hr
  have hst : r.f.streams = w.streams := by rw [hfile]; rfl
  have href : r.f.ref = w.ref := by rw [hfile]; rfl
  refine ⟨rec_, by rw [hst]; exact hrec, h1, h2, h3, ?_, h5, p0, pl, hp0, hpl, ?_, ?_⟩
  · rw [h4]; unfold protoFlags protoName
    by_cases hp : s.flags / 2 % 2 = 0 <;> simp [hp]
  · unfold Reader.firstPacket; rw [href, i64_small _ (by omega)]; exact hf
  · unfold Reader.lastPacket; rw [href, i64_small _ (by omega)]; exact hl

/-- `roundtrip_hosts`: for every written stream the reader resolves the record's (group, client index, server
    index) to exactly the client and server address that were written — for any number of hosts and host groups
    of either family, whatever was added before or afterwards (F8, F9). -/
theorem roundtrip_hosts (ss : List StreamIn) (w : Writer) (r : Reader)
    (hw : ({} : Writer).addAll ss = some w) (hr : newReader w.finalize = .ok r) (hwf : ∀ s ∈ ss, s.AddrWF)
    (hcap : w.hostGroups.length ≤ 65536)
    (hb4 : (v4of w.hostGroups).length < 2 ^ 32) (hb6 : (v6of w.hostGroups).length < 2 ^ 32)
    (i : Nat) (s : StreamIn) (hs : ss[i]? = some s) :
    ∃ rec_, r.f.streams[i]? = some rec_ ∧ r.hosts rec_ = .ok (s.client, s.server) := by
  have hinv0 : GroupsInv ({} : Writer).hostGroups := fun g hg => by simp at hg
  have hinv := hostTable_aligned ss hwf {} w hinv0 hw
  have hz := addAll_hosts ss {} w [] hinv0 Zip.nil hwf hw hcap
  simp only [List.nil_append] at hz
  obtain ⟨rec_, hrec, g, hg, v1, v2, e1, e2⟩ := hz.get i s hs
  obtain ⟨hfile, _, _, hrg, _⟩ := newReader_ok _ r hr
  have hst : r.f.streams = w.streams := by rw [hfile]; rfl
  rw [hostgroups_decode' w hinv hb4 hb6] at hrg
  have hgroups : r.hostGroups = w.hostGroups.map HostGroup.toReader := by
    injection hrg with h; exact h.symm
  refine ⟨rec_, by rw [hst]; exact hrec, ?_⟩
  unfold Reader.hosts
  have : r.hostGroups[rec_.hg]? = some g.toReader := by rw [hgroups]; simp [hg]
  rw [this]
  have c1 : ¬ (g.toReader.hostSize * rec_.ch + g.toReader.hostSize > g.toReader.hosts.length ∨
      g.toReader.hostSize * rec_.sh + g.toReader.hostSize > g.toReader.hosts.length) := by
    unfold HostGroup.Valid at v1 v2
    simp only [HostGroup.toReader]; omega
  simp only [c1, if_false, toReader_get, e1, e2]

/-- a finished file with at least one stream can be reopened (the hypothesis `newReader … = .ok r` of the
    round-trip theorems is satisfiable for every accepted non-empty stream set) -/
theorem reopen_succeeds (ss : List StreamIn) (w : Writer) (hw : ({} : Writer).addAll ss = some w)
    (hne : ss ≠ []) (hwf : ∀ s ∈ ss, s.AddrWF)
    (hb4 : (v4of w.hostGroups).length < 2 ^ 32) (hb6 : (v6of w.hostGroups).length < 2 ^ 32) :
    ∃ r, newReader w.finalize = .ok r := by
  have hinv0 : GroupsInv ({} : Writer).hostGroups := fun g hg => by simp at hg
  have hinv := hostTable_aligned ss hwf {} w hinv0 hw
  have hids := addAll_ids ss {} w hw
  have hst : w.streams ≠ [] := by
    intro h; rw [h] at hids; simp at hids; exact hne hids
  obtain ⟨r, hr, _⟩ := reopen_ok w hinv hst hb4 hb6
  exact ⟨r, hr⟩

/-- `roundtrip_blob` (the writer half of `roundtrip_payload`): in the reopened file the data section holds, at
    the record's `DataStart`, exactly the stream's client bytes, then its server bytes, then its segmentation
    varints — for every stream, whatever was written before and after it (chunks of any size). -/
theorem roundtrip_blob (ss : List StreamIn) (w : Writer) (r : Reader)
    (hw : ({} : Writer).addAll ss = some w) (hr : newReader w.finalize = .ok r)
    (i : Nat) (s : StreamIn) (hs : ss[i]? = some s) :
    ∃ rec_ cds, r.f.streams[i]? = some rec_ ∧ chunkDirs s.packets s.data = some cds ∧
      (r.f.data.drop rec_.dataStart).take (streamBlob cds).length =
        dirBytes 0 cds ++ dirBytes 1 cds ++ segBytes 0 (segRuns (cds.map fun c => (c.1, c.2.length))) := by
  have hinv : DataInv ({} : Writer) [] := ⟨rfl, Zip.nil⟩
  have hd := addAll_data ss {} w [] hinv hw
  simp only [List.nil_append] at hd
  obtain ⟨rec_, hrec, cds, hcd, _, hblob⟩ := hd.2.get i s hs
  obtain ⟨hfile, _, _, _, _⟩ := newReader_ok _ r hr
  have hst : r.f.streams = w.streams := by rw [hfile]; rfl
  have hdata : r.f.data = w.blobs.flatten := by rw [hfile]; rfl
  exact ⟨rec_, cds, by rw [hst]; exact hrec, hcd, by rw [hdata]; exact hblob⟩

/-! ## binary search, wrap budget -/

/-- `sortedLookup_search_correct`: `sort.Search` over a predicate that is false below `k` and true from `k` on
    returns `k` (the predicate of `StreamByFirstPacketSource` is of that shape on a lookup sorted by
    (file name, packet index)). -/
theorem sortedLookup_search_correct (f : Nat → Bool) (k n : Nat) (hk : k ≤ n)
    (hlo : ∀ i, i < k → f i = false) (hhi : ∀ i, k ≤ i → f i = true) : sortSearch f 0 n = k :=
  sortSearch_correct f k hlo hhi n 0 n rfl (Nat.zero_le _) hk

/-- `expectWraps_ge_actual`: the wrap budget `Stream.Data` derives from last − first is never smaller than the
    number of 2^32 µs wraps of the relative packet times, so no wrap goes undetected while it is non-zero -/
theorem expectWraps_ge_actual (d : Nat) (h : d < 2 ^ 62) :
    ((d / 1000 / 2 ^ 32 : Nat) : Int) ≤ (i64 d + 1000).tdiv wrapNs := expectWraps_ge_actual' d h

/-! ## full statements (decided in Pk/Props/C01Full.lean)

  Kept here exactly as first written. `RoundtripPackets` and `LookupByFirstPacketExact` are FALSE as written
  (a capture file name containing a NUL byte is cut by the reader: `roundtrip_packets_counterexample`,
  `lookup_by_first_packet_counterexample`); with the input condition `NamesWF` (no NUL in file names) they are
  proved as `roundtrip_packets'`, `lookup_by_first_packet_exact'`. `RoundtripPayload` is proved as
  `roundtrip_payload'` for streams of less than 2^64 payload bytes. The tie checks each of them on every
  generated stream set as well (observable lines `obs`/`src`, and the Go round-trip oracle). -/

/-- packets as `Stream.Packets` must return them: one entry per source reference, in the writer's order,
    time truncated to µs relative to the first packet -/
def expectedPackets (s : StreamIn) : List PacketOut :=
  match s.packets.head? with
  | none => []
  | some p0 => (s.packets.map fun p => p.pmds.map fun ref =>
      ({ file := ref.file, index := ref.index, dir := p.dir, ts := p0.ts + (p.ts - p0.ts).tdiv 1000 * 1000 } : PacketOut)).flatten

/-- non-decreasing times, consecutive gaps < 2^32 µs (after truncation), indexes < 2^64, neighbouring source
    references distinct -/
def PacketsWF (s : StreamIn) : Prop :=
  s.TimeWF ∧
  (∀ i p q, s.packets[i]? = some p → s.packets[i + 1]? = some q → p.ts ≤ q.ts ∧
      (match s.packets.head? with
       | some p0 => (q.ts - p0.ts).tdiv 1000 - (p.ts - p0.ts).tdiv 1000 < 2 ^ 32
       | none => True)) ∧
  (∀ p ∈ s.packets, p.refs ≠ [] ∧ p.dir < 2 ∧ ∀ ref ∈ p.refs, ref.index < 2 ^ 64) ∧
  (expectedPackets s).Pairwise (fun a b => (a.file, a.index) ≠ (b.file, b.index))

/-- `roundtrip_packets` (full statement) -/
def RoundtripPackets : Prop :=
  ∀ (ss : List StreamIn) (w : Writer) (r : Reader), ({} : Writer).addAll ss = some w → newReader w.finalize = .ok r →
    (∀ s ∈ ss, PacketsWF s) → ∀ (i : Nat) (s : StreamIn), ss[i]? = some s →
      ∃ rec_, r.f.streams[i]? = some rec_ ∧ r.packets rec_ = .ok (expectedPackets s)

/-- (direction, length) runs with neighbours of one direction merged and empties dropped -/
def mergedRuns : List (Nat × Nat) → List (Nat × Nat)
  | [] => []
  | (d, n) :: rest =>
    if n = 0 then mergedRuns rest else
    match mergedRuns rest with
    | (d', n') :: rs => if d = d' then (d, n + n') :: rs else (d, n) :: (d', n') :: rs
    | [] => [(d, n)]

/-- `roundtrip_payload` (full statement): per direction the returned chunks concatenate to what was written, and
    the order of direction changes is the same -/
def RoundtripPayload : Prop :=
  ∀ (ss : List StreamIn) (w : Writer) (r : Reader), ({} : Writer).addAll ss = some w → newReader w.finalize = .ok r →
    (∀ s ∈ ss, PacketsWF s ∧ (s.data.map (·.pos)).Pairwise (· < ·)) → ∀ (i : Nat) (s : StreamIn), ss[i]? = some s →
      ∃ rec_ cds ds, r.f.streams[i]? = some rec_ ∧ chunkDirs s.packets s.data = some cds ∧ r.data rec_ = .ok ds ∧
        ((ds.filter (·.dir == 0)).map (·.content)).flatten = dirBytes 0 cds ∧
        ((ds.filter (·.dir == 1)).map (·.content)).flatten = dirBytes 1 cds ∧
        mergedRuns (ds.map fun d => (d.dir, d.content.length)) = mergedRuns (cds.map fun c => (c.1, c.2.length))

/-- `lookup_by_first_packet_exact` (full statement): found iff some stored stream starts at that source packet,
    and then it is that stream -/
def LookupByFirstPacketExact : Prop :=
  ∀ (ss : List StreamIn) (w : Writer) (r : Reader), ({} : Writer).addAll ss = some w → newReader w.finalize = .ok r →
    (∀ s ∈ ss, PacketsWF s) →
    ((ss.map fun s => (expectedPackets s).head?.map fun p => (p.file, p.index)).Pairwise (· ≠ ·)) →
    ∀ (file : Bytes) (index : Nat), index < 2 ^ 64 →
      (r.streamBySource file index).map (·.2.id) =
        (ss.find? fun s => (expectedPackets s).head?.map (fun p => (p.file, p.index)) == some (file, index)).map (·.id)

/-! ## non-vacuity -/

def exA : StreamIn :=
  { id := 3, client := [10,0,0,2], server := [10,0,0,3], cport := 1, sport := 2, flags := 2,
    packets := [{ ts := 1599999999000000000, dir := 0, refs := [{ file := [98], index := 0 }] }], data := [] }
def exB : StreamIn :=
  { id := 9, client := [10,0,0,3], server := [10,0,0,3], cport := 5, sport := 6, flags := 0,
    packets := [{ ts := 1599999998000000000, dir := 1, refs := [{ file := [98], index := 4294967296 }] }], data := [] }

/-- the real writer accepts such sets: the model does, for a set whose second stream moves the reference second down -/
example : (({} : Writer).addAll [exA, exB]).isSome = true := by decide
example : exA.AddrWF ∧ exB.AddrWF := by simp [StreamIn.AddrWF, HostAddr, exA, exB]
example : exA.TimeWF := ⟨_, _, rfl, rfl, by decide, by decide, by decide⟩
example : ((([exA, exB] : List StreamIn).map (·.id))).Nodup := by decide
example : (⟨1, 2, 3, 4, 5, 1⟩ : PacketRec).WF := by simp [PacketRec.WF]
example : (⟨7, 8, 9⟩ : HGEntry).WF := by simp [HGEntry.WF]

end Pk.Props.C01
