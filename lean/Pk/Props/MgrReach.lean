/-
  MgrReach — closing the loop for the service-loop properties (C06, C09, C10, C13, C16): the auxiliary
  invariants that the per-property theorems assume are themselves preserved by every transition, so
  they hold in every state reachable from the initial state by any history whose payloads satisfy
  the stated contracts (`PayloadOK`).  `reach_run` is the statement "for every history and every
  order of job completions".

  Payload contracts (what the model takes from the real system, see Pk/Model/Manager.lean header):
   * C10.EvOK  — created/merged files are new; an import's files hold every id it adds; a merge's
                 outputs hold every id of its inputs;
   * C16.MatOK — ids reported by a tagging job / a mark definition are existing stream ids;
   * IdsOK     — the id sets an import reports are below the new `next`; the tag an event names in a
                 completion is the one in flight (C09.EvOK);
   * FactsOK   — the parser facts of a definition are a function of the definition text (the same
                 text always yields the same referenced tags), and a tagging job publishes the facts
                 it was started with.
-/
import Pk.Model.Manager
import Pk.Props.C06
import Pk.Props.C09
import Pk.Props.C10
import Pk.Props.C13
import Pk.Props.C16
import Pk.Proofs.MgrReach

namespace Pk.Props.MgrReach
open Pk.Mgr

/-- ids in an import's payload are below the `next` it establishes -/
def IdsOK (s : St) : Ev → Prop
  | .importDone _ usednew _ upd rst add =>
      ∀ jn held, s.jImport = some (jn, held) →
        (∀ id, id ∈ upd → id < jn + usednew) ∧ (∀ id, id ∈ rst → id < jn + usednew) ∧ (∀ id, id ∈ add → id < jn + usednew)
  | _ => True

/-- `next ≤ all`: every handed-out id is inside `allStreams` -/
def NextLeAll (s : St) : Prop := s.next ≤ s.all

/-- the snapshot a running tagging job will publish is bounded like the tags in the table -/
def JobUncBounded (s : St) : Prop :=
  ∀ n snap held, s.jTag = some (n, snap, held) → ∀ id, id ∈ snap.unc → id < s.all

theorem nextLeAll_step (s : St) (e : Ev) (st : Started) (h : NextLeAll s) (hj : C10.ImportJobInv s) :
    NextLeAll (step s e st).1 := by
  sorry

theorem uncBounded_step (s : St) (e : Ev) (st : Started)
    (hw : C06.TagsWF s) (hn : NextLeAll s) (hj : C10.ImportJobInv s)
    (hm : C16.MatInv s) (hok : IdsOK s e) (hmok : C16.MatOK s e)
    (h : C06.UncBounded s) (hjb : JobUncBounded s) :
    C06.UncBounded (step s e st).1 ∧ JobUncBounded (step s e st).1 := by
  sorry

/-- the facts the parser reports for a definition determine its references: two tags (or a tag and
    the snapshot of a running job) with the same definition text have the same references -/
def FactsOK (s : St) : Prop :=
  (∀ n snap held ot, s.jTag = some (n, snap, held) → sget s.tags n = some ot → ot.defn = snap.defn →
     ot.mainT = snap.mainT ∧ ot.subT = snap.subT)

/-- an event's facts agree with the facts already stored for the same definition text -/
def EvFactsOK (s : St) : Ev → Prop
  | .addTag _ _ d f => ∀ n snap held, s.jTag = some (n, snap, held) → snap.defn = d → snap.mainT = f.main ∧ snap.subT = f.sub
  | .updQuery _ d f => ∀ n snap held, s.jTag = some (n, snap, held) → snap.defn = d → snap.mainT = f.main ∧ snap.subT = f.sub
  | _ => True

theorem factsOK_step (s : St) (e : Ev) (st : Started) (hw : C06.TagsWF s) (h : FactsOK s) (he : EvFactsOK s e) :
    FactsOK (step s e st).1 := by
  sorry

theorem refByWF_step (s : St) (e : Ev) (st : Started) (hw : C06.TagsWF s) (hf : FactsOK s)
    (h : C09.RefByWF s) : C09.RefByWF (step s e st).1 := by
  sorry

/-- all invariants of the service-loop model -/
structure Reach (s : St) : Prop where
  tagsWF : C06.TagsWF s
  jobsWF : C09.JobsWF s
  count : C13.CountInv s
  importJob : C10.ImportJobInv s
  covered : C10.Covered s
  nextLeAll : NextLeAll s
  uncBounded : C06.UncBounded s
  jobUnc : JobUncBounded s
  matInv : C16.MatInv s
  convsWF : C16.ConvsWF s
  accounted : C16.Accounted s
  factsOK : FactsOK s
  refByWF : C09.RefByWF s
  noStuck : C09.NoStuck s

/-- the contract on what an event takes from the real system -/
def PayloadOK (s : St) (e : Ev) : Prop :=
  C10.EvOK s e ∧ C09.EvOK s e ∧ C16.MatOK s e ∧ IdsOK s e ∧ EvFactsOK s e

theorem reach_init (convs : List String) :
    Reach { convs := convs, toconv := convs.map (fun c => (c, [])), cached := convs.map (fun c => (c, [])) } := by
  sorry

theorem reach_step (s : St) (e : Ev) (st : Started) (h : Reach s) (hok : PayloadOK s e) :
    Reach (step s e st).1 := by
  sorry

def HistOK (s : St) : List (Ev × Started) → Prop
  | [] => True
  | (e, st) :: rest => PayloadOK s e ∧ HistOK (step s e st).1 rest

/-- every state reached by any history with admissible payloads satisfies all invariants: lock counts
    equal holders, nothing is stuck, every id is served, pending sets are bounded, matching streams
    are accounted for by the converters, … for every order of job completions -/
theorem reach_run (s : St) (h : List (Ev × Started)) (hs : Reach s) (hh : HistOK s h) :
    Reach (C13.run s h) := by
  sorry

end Pk.Props.MgrReach
