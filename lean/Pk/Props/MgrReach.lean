/-
  MgrReach — closing the loop for the service-loop properties (C06, C09, C10, C13, C16): the auxiliary
  invariants that the per-property theorems assume are themselves preserved by every transition, so
  they hold in every state reachable from the initial state by any history whose payloads satisfy
  the stated contracts (`PayloadOK`).  `reach_run` is the statement "for every history and every
  order of job completions".

  Payload contracts (what the model takes from the real system, see Pk/Model/Manager.lean header):
   * C10.EvOK  — created/merged files are new; an import's files hold every id it adds; a merge's
                 outputs hold every id of its inputs;
   * C16.MatOK — ids reported by a tagging job / a mark definition are existing stream ids;
   * IdsOK     — the id sets an import reports are below the new `next`; the tag an event names in a
                 completion is the one in flight (C09.EvOK);
   * EvFactsOK — the parser facts of a definition are a function of the definition text (the same
                 text always yields the same referenced tags: against the running job's snapshot and
                 against the table), a definition classified as an id list references no tags, and
                 (`NameOK`) `parseTagName` and the `mark/`-prefix test agree on the names involved.

  ADDED (proof phase; every change is marked `-- ADDED` with its reason / counterexample):
   * `AllLeNext` (`all ≤ next`, with `allLeNext_step`) — extra hypothesis of `uncBounded_step`, new
     field of `Reach`;
   * `JobUncBounded` also bounds the during-job masks, the converter queues and the sets of a running
     converter job (the draft was not inductive);
   * `FactsOK` extended to "facts are a function of the text" for the whole table, mark tags being
     reference-free (the draft was not inductive: rename under the name of a stale job);
     `EvFactsOK` extended accordingly;
   * `RefsExist` (no dangling references, with `refsExist_step`) — extra hypothesis of `refByWF_step`,
     new field of `Reach`.
-/
import Pk.Model.Manager
import Pk.Props.C06
import Pk.Props.C09
import Pk.Props.C10
import Pk.Props.C13
import Pk.Props.C16
import Pk.Proofs.MgrReach

namespace Pk.Props.MgrReach
open Pk.Mgr

/-- ids in an import's payload are below the `next` it establishes -/
def IdsOK (s : St) : Ev → Prop
  | .importDone _ usednew _ upd rst add =>
      ∀ jn held, s.jImport = some (jn, held) →
        (∀ id, id ∈ upd → id < jn + usednew) ∧ (∀ id, id ∈ rst → id < jn + usednew) ∧ (∀ id, id ∈ add → id < jn + usednew)
  | _ => True

/-- `next ≤ all`: every handed-out id is inside `allStreams` -/
def NextLeAll (s : St) : Prop := s.next ≤ s.all

/-- the snapshot a running tagging job will publish is bounded like the tags in the table -/
def JobUncBounded (s : St) : Prop :=
  (∀ n snap held, s.jTag = some (n, snap, held) → ∀ id, id ∈ snap.unc → id < s.all) ∧
  -- ADDED: the during-job masks are bounded: a tagging-job completion runs
  -- `invalidateTags s s.upd s.rst s.add`, which adds these ids to pending sets.  Counterexample
  -- without it: all = 0, add = [7], jTag = some (a, T, []), tags = [(a, T)], T = {defn "x", mfeat 0,
  -- sfeat 0}; `tagDone a []` leaves a.unc = [7] although all = 0.
  (∀ id, id ∈ s.upd → id < s.all) ∧ (∀ id, id ∈ s.rst → id < s.all) ∧ (∀ id, id ∈ s.add → id < s.all) ∧
  -- ADDED: the converter queues and the sets of a running converter job are bounded: a converter-job
  -- completion adds the ids of its sets to pending sets and to `upd`; the sets are taken from the
  -- queues when the job starts.  Counterexample without it: all = 0, convs = ["c"], convert = true,
  -- jConv = some ([("c", [9])], []), tags = [(a, {mfeat := 128, …})]; `convertDone` leaves a.unc = [9].
  (∀ p, p ∈ s.toconv → ∀ id, id ∈ p.2 → id < s.all) ∧
  (∀ sets held, s.jConv = some (sets, held) → ∀ p, p ∈ sets → ∀ id, id ∈ p.2 → id < s.all)

theorem nextLeAll_step (s : St) (e : Ev) (st : Started) (h : NextLeAll s) (hj : C10.ImportJobInv s) :
    NextLeAll (step s e st).1 := by
  unfold NextLeAll at *
  by_cases himp : ∃ p u c a b d, e = .importDone p u c a b d
  · obtain ⟨p, u, c, a, b, d, rfl⟩ := himp
    cases hji : s.jImport with
    | none => rw [Pk.Proofs.MgrReach.step_importDone_none' _ _ _ _ _ _ _ _ hji]; exact h
    | some q =>
      obtain ⟨jn, held⟩ := q
      obtain ⟨e1, e2⟩ := Pk.Proofs.MgrReach.step_importDone_all_next s p u c a b d st jn held hji
      have := hj jn held hji
      rw [e1, e2]
      split <;> omega
  · obtain ⟨e1, e2⟩ := Pk.Proofs.MgrReach.step_all_next_other s e st
      (fun p u c a b d h => himp ⟨p, u, c, a, b, d, h⟩)
    rw [e1, e2]; exact h

-- ADDED: `allStreams` never runs ahead of `nextStreamID` (so `all = next` with `NextLeAll`).  Needed by
-- `uncBounded_step`: an import completion sets `all := jn + usednew`; if `all` could exceed `next`
-- (= `jn`), a completion with `usednew = 0` would *shrink* `all` below pending ids (counterexample at
-- `uncBounded_step`).  It is an invariant because an import that used new ids created a file
-- (`C10.EvOK`: `usednew ≠ 0 → created ≠ []`), and then `next` is raised together with `all`.
/-- `all ≤ next`: no stream id is counted in `allStreams` before it has been handed out -/
def AllLeNext (s : St) : Prop := s.all ≤ s.next

-- ADDED (with `AllLeNext`): it is preserved by every transition
theorem allLeNext_step (s : St) (e : Ev) (st : Started) (h : AllLeNext s) (hj : C10.ImportJobInv s)
    (hok : C10.EvOK s e) : AllLeNext (step s e st).1 := by
  unfold AllLeNext at *
  by_cases himp : ∃ p u c a b d, e = .importDone p u c a b d
  · obtain ⟨p, u, c, a, b, d, rfl⟩ := himp
    cases hji : s.jImport with
    | none => rw [Pk.Proofs.MgrReach.step_importDone_none' _ _ _ _ _ _ _ _ hji]; exact h
    | some q =>
      obtain ⟨jn, held⟩ := q
      obtain ⟨e1, e2⟩ := Pk.Proofs.MgrReach.step_importDone_all_next s p u c a b d st jn held hji
      have hjn := hj jn held hji
      have hu := (hok.2 jn held hji).2.1
      rw [e1, e2]
      split
      · next hc =>
        have : u = 0 := by
          rcases Nat.eq_zero_or_pos u with h0 | h0
          · exact h0
          · exact absurd hc (hu (by omega))
        omega
      · omega
  · obtain ⟨e1, e2⟩ := Pk.Proofs.MgrReach.step_all_next_other s e st
      (fun p u c a b d h => himp ⟨p, u, c, a, b, d, h⟩)
    rw [e1, e2]; exact h

theorem uncBounded_step (s : St) (e : Ev) (st : Started)
    (hw : C06.TagsWF s) (hn : NextLeAll s) (hj : C10.ImportJobInv s)
    (hm : C16.MatInv s) (hok : IdsOK s e) (hmok : C16.MatOK s e)
    (h : C06.UncBounded s) (hjb : JobUncBounded s)
    -- ADDED: without it the statement is false: next = 0, all = 5, tags = [(a, {unc := [3], …})],
    -- jImport = some (0, []), event `importDone 1 0 [] [] [] []`: the completion sets all := 0 + 0,
    -- and 3 is no longer below `all`.  (All other hypotheses hold in that state.)
    (hal : AllLeNext s) :
    C06.UncBounded (step s e st).1 ∧ JobUncBounded (step s e st).1 := by
  open Pk.Proofs.MgrReach in
  -- everything the state mentions is below `all`
  have hpb : PB s.all s := by
    obtain ⟨j1, j2, j3, j4, j5, j6⟩ := hjb
    refine ⟨Nat.le_refl _, hn, ?_, ?_, j2, j3, j4, j5, j6⟩
    · intro nt hnt
      refine ⟨fun id hid => h nt.1 nt.2 (Pk.Proofs.MgrConv.mem_sget_of_sorted _ hw _ _ hnt) id hid, ?_⟩
      intro id hid
      exact Nat.lt_of_lt_of_le (hm.1 nt hnt id hid) hn
    · intro n snap held hjt
      exact ⟨j1 n snap held hjt, fun id hid => Nat.lt_of_lt_of_le (hm.2 n snap held hjt id hid) hn⟩
  -- the bound after the step, and the payload below it
  have key : s.all ≤ (step s e st).1.all ∧ BOK (step s e st).1.all s e := by
    cases e with
    | importDone p u c a b d =>
      cases hji : s.jImport with
      | none =>
        rw [step_importDone_none' _ _ _ _ _ _ _ _ hji]
        exact ⟨Nat.le_refl _, fun jn held hh => by rw [hji] at hh; cases hh⟩
      | some q =>
        obtain ⟨jn, held⟩ := q
        obtain ⟨e1, _⟩ := step_importDone_all_next s p u c a b d st jn held hji
        have hjn := hj jn held hji
        rw [e1]
        refine ⟨by unfold AllLeNext at hal; omega, ?_⟩
        intro jn' held' hh
        rw [hji] at hh; cases hh
        obtain ⟨b1, b2, b3⟩ := hok jn held hji
        exact ⟨Nat.le_refl _, b1, b2, b3⟩
    | tagDone name result =>
      rw [(step_all_next_other s _ st (by simp)).1]
      exact ⟨Nat.le_refl _, fun id hid => Nat.lt_of_lt_of_le (hmok id hid) hn⟩
    | addTag name color defn f =>
      rw [(step_all_next_other s _ st (by simp)).1]
      exact ⟨Nat.le_refl _, fun id hid => Nat.lt_of_lt_of_le (hmok id hid) hn⟩
    | nop => rw [(step_all_next_other s _ st (by simp)).1]; exact ⟨Nat.le_refl _, trivial⟩
    | importPcaps _ => rw [(step_all_next_other s _ st (by simp)).1]; exact ⟨Nat.le_refl _, trivial⟩
    | mergeDone _ => rw [(step_all_next_other s _ st (by simp)).1]; exact ⟨Nat.le_refl _, trivial⟩
    | convertDone => rw [(step_all_next_other s _ st (by simp)).1]; exact ⟨Nat.le_refl _, trivial⟩
    | updQuery _ _ _ => rw [(step_all_next_other s _ st (by simp)).1]; exact ⟨Nat.le_refl _, trivial⟩
    | updColor _ _ => rw [(step_all_next_other s _ st (by simp)).1]; exact ⟨Nat.le_refl _, trivial⟩
    | updName _ _ => rw [(step_all_next_other s _ st (by simp)).1]; exact ⟨Nat.le_refl _, trivial⟩
    | updConv _ _ => rw [(step_all_next_other s _ st (by simp)).1]; exact ⟨Nat.le_refl _, trivial⟩
    | markAdd _ _ => rw [(step_all_next_other s _ st (by simp)).1]; exact ⟨Nat.le_refl _, trivial⟩
    | markDel _ _ => rw [(step_all_next_other s _ st (by simp)).1]; exact ⟨Nat.le_refl _, trivial⟩
    | delTag _ => rw [(step_all_next_other s _ st (by simp)).1]; exact ⟨Nat.le_refl _, trivial⟩
    | viewOpen _ => rw [(step_all_next_other s _ st (by simp)).1]; exact ⟨Nat.le_refl _, trivial⟩
    | viewRelease _ => rw [(step_all_next_other s _ st (by simp)).1]; exact ⟨Nat.le_refl _, trivial⟩
  have hpb' := pb_step s e st (hpb.mono key.1) key.2
  refine ⟨?_, ?_, hpb'.upd, hpb'.rst, hpb'.add, hpb'.toconv, hpb'.jconv⟩
  · intro n t ht id hid
    exact (hpb'.tags (n, t) (Pk.Proofs.MgrConv.sget_mem _ _ _ ht)).1 id hid
  · intro n snap held hjt id hid
    exact (hpb'.job n snap held hjt).1 id hid

-- ADDED: the test `UpdateTag` applies to decide that a mark update / a definition restricted to id
-- lists is allowed (`strings.HasPrefix(name, "mark/") || …`)
/-- the name is that of a mark tag -/
def isMarkName (n : String) : Bool := n.startsWith "mark/" || n.startsWith "generated/"

/-- the facts the parser reports for a definition determine its references: two tags (or a tag and
    the snapshot of a running job) with the same definition text have the same references -/
def FactsOK (s : St) : Prop :=
  (∀ n snap held ot, s.jTag = some (n, snap, held) → sget s.tags n = some ot → ot.defn = snap.defn →
     ot.mainT = snap.mainT ∧ ot.subT = snap.subT) ∧
  -- ADDED: the first conjunct alone is not inductive.  Counterexample (`factsOK_step` with the draft
  -- definitions): tags = [(tag/x, {defn "D", mainT [tag/q]})], jTag = some (tag/y, {defn "D", mainT []}, _)
  -- (a job whose tag was deleted meanwhile); the event `updName tag/x tag/y` moves a tag with the
  -- job's text but other facts under the job's name.  What is inductive is "the facts are a function
  -- of the text" for the whole table; a mark update rewrites the text of a mark tag without
  -- consulting the parser, which is sound because mark tags are id lists and reference nothing:
  -- (a) mark tags reference no tags
  (∀ n t, sget s.tags n = some t → isMarkName n = true → t.mainT = [] ∧ t.subT = []) ∧
  -- (b) two other tags with the same text have the same facts
  (∀ n1 t1 n2 t2, sget s.tags n1 = some t1 → sget s.tags n2 = some t2 → isMarkName n1 = false →
     isMarkName n2 = false → t1.defn = t2.defn → t1.mainT = t2.mainT ∧ t1.subT = t2.subT) ∧
  -- (c) the same for the snapshot of the running job against the table
  (∀ n snap held, s.jTag = some (n, snap, held) → isMarkName n = true → snap.mainT = [] ∧ snap.subT = []) ∧
  (∀ n snap held, s.jTag = some (n, snap, held) → isMarkName n = false →
     ∀ m ot, sget s.tags m = some ot → isMarkName m = false → ot.defn = snap.defn →
       ot.mainT = snap.mainT ∧ ot.subT = snap.subT)

-- ADDED: `parseTagName` (used by `AddTag` to decide that the definition must be an id list, and by
-- the rename to compare tag types) and the prefix test `isMarkName` (used by `UpdateTag`) agree on
-- what a mark tag is.  This is a fact about the two string functions that holds for every string
-- (evaluated on samples in the proof phase); it is stated as a side condition on the names an event
-- carries because relating `String.splitOn` and `String.startsWith` needs lemmas core does not have.
/-- both notions of "mark tag" agree on this name -/
def NameOK (n : String) : Prop :=
  isMarkName n = true ↔ ((parseTagName n).1 = "mark" ∨ (parseTagName n).1 = "generated")

/-- an event's facts agree with the facts already stored for the same definition text -/
def EvFactsOK (s : St) : Ev → Prop
  | .addTag name _ d f =>
      (∀ n snap held, s.jTag = some (n, snap, held) → snap.defn = d → snap.mainT = f.main ∧ snap.subT = f.sub) ∧
      -- ADDED: the parser is a function of the text, also against the tags in the table
      (∀ m t, sget s.tags m = some t → t.defn = d → t.mainT = f.main ∧ t.subT = f.sub) ∧
      -- ADDED: a definition the parser classifies as an id list references no tags
      (f.idsok = true → f.main = [] ∧ f.sub = []) ∧
      NameOK name  -- ADDED: see `NameOK`
  | .updQuery _ d f =>
      (∀ n snap held, s.jTag = some (n, snap, held) → snap.defn = d → snap.mainT = f.main ∧ snap.subT = f.sub) ∧
      (∀ m t, sget s.tags m = some t → t.defn = d → t.mainT = f.main ∧ t.subT = f.sub) ∧  -- ADDED: as above
      (f.idsok = true → f.main = [] ∧ f.sub = [])  -- ADDED: as above
  | .updName name new => NameOK name ∧ NameOK new  -- ADDED: see `NameOK` (a rename keeps the tag type)
  | _ => True

private theorem fj_of (s : St) (hw : C06.TagsWF s) (h : FactsOK s) : Pk.Proofs.MgrReach.FJ s :=
  ⟨hw, ⟨h.2.1, h.2.2.1, h.2.2.2.1, h.2.2.2.2⟩⟩

theorem factsOK_step (s : St) (e : Ev) (st : Started) (hw : C06.TagsWF s) (h : FactsOK s) (he : EvFactsOK s e) :
    FactsOK (step s e st).1 := by
  have hp : Pk.Proofs.MgrReach.FPay s e := by
    cases e with
    | addTag name color d f => exact ⟨⟨he.1, he.2.1, he.2.2.1⟩, he.2.2.2⟩
    | updQuery name d f => exact ⟨he.1, he.2.1, he.2.2⟩
    | updName name new => exact he
    | _ => trivial
  have fj' := Pk.Proofs.MgrReach.fj_step s e st (fj_of s hw h) hp
  refine ⟨?_, fj'.fi.plain, fj'.fi.tc, fj'.fi.jplain, fj'.fi.jtc⟩
  intro n snap held ot hj hot hd
  have hfi := fj'.fi
  rw [hj] at hfi
  exact hfi.facts hot hd

-- ADDED: every reference of every tag exists.  `refByWF_step` is false without it: `RefByWF` says
-- nothing about a reference to a name that is not in the table, and a tag created under that name
-- starts with an empty `refBy`.
/-- no tag references a name that is not in the table -/
def RefsExist (s : St) : Prop := ∀ nt ∈ s.tags, ∀ r ∈ nt.2.refs, (sget s.tags r).isSome = true

private theorem refGraph_step (s : St) (e : Ev) (st : Started) (hw : C06.TagsWF s) (hf : FactsOK s)
    (h : C09.RefByWF s) (hre : RefsExist s) :
    C09.RefByWF (step s e st).1 ∧ RefsExist (step s e st).1 :=
  Pk.Proofs.MgrReach.props_of_G (C06.tagsWF_step s e st hw)
    (Pk.Proofs.MgrReach.g_step s e st (fj_of s hw hf) (Pk.Proofs.MgrReach.G_of_props h hre))

theorem refByWF_step (s : St) (e : Ev) (st : Started) (hw : C06.TagsWF s) (hf : FactsOK s)
    (h : C09.RefByWF s)
    -- ADDED: without it the statement is false: tags = [(tag/b, {mainT := [tag/a], …})] (tag/a does
    -- not exist, so `RefByWF` holds vacuously); the event `addTag tag/a …` creates tag/a with
    -- refBy = [] although tag/b references it.
    (hre : RefsExist s) : C09.RefByWF (step s e st).1 :=
  (refGraph_step s e st hw hf h hre).1

-- ADDED (with `RefsExist`): it is preserved by every transition
theorem refsExist_step (s : St) (e : Ev) (st : Started) (hw : C06.TagsWF s) (hf : FactsOK s)
    (h : C09.RefByWF s) (hre : RefsExist s) : RefsExist (step s e st).1 :=
  (refGraph_step s e st hw hf h hre).2

/-- all invariants of the service-loop model -/
structure Reach (s : St) : Prop where
  tagsWF : C06.TagsWF s
  jobsWF : C09.JobsWF s
  count : C13.CountInv s
  importJob : C10.ImportJobInv s
  covered : C10.Covered s
  nextLeAll : NextLeAll s
  allLeNext : AllLeNext s  -- ADDED: needed by `uncBounded_step` (see `AllLeNext`)
  uncBounded : C06.UncBounded s
  jobUnc : JobUncBounded s
  matInv : C16.MatInv s
  convsWF : C16.ConvsWF s
  accounted : C16.Accounted s
  factsOK : FactsOK s
  refByWF : C09.RefByWF s
  refsExist : RefsExist s  -- ADDED: needed by `refByWF_step` (see `RefsExist`)
  noStuck : C09.NoStuck s

/-- the contract on what an event takes from the real system -/
def PayloadOK (s : St) (e : Ev) : Prop :=
  C10.EvOK s e ∧ C09.EvOK s e ∧ C16.MatOK s e ∧ IdsOK s e ∧ EvFactsOK s e

theorem reach_init (convs : List String) :
    Reach { convs := convs, toconv := convs.map (fun c => (c, [])), cached := convs.map (fun c => (c, [])) } := by
  refine ⟨?_, C09.jobsWF_init convs, C13.count_init convs, ?_, ?_, ?_, ?_, ?_, ?_, ?_, ?_, ?_, ?_,
    C09.refByWF_init convs, ?_, C09.nostuck_init convs⟩
  · exact List.Pairwise.nil
  · intro jn held h; cases h
  · intro id h; exact absurd h (Nat.not_lt_zero _)
  · exact Nat.le_refl _
  · exact Nat.le_refl _
  · intro n t h; cases h
  · refine ⟨fun _ _ _ h => (by cases h), fun _ h => (by cases h), fun _ h => (by cases h), fun _ h => (by cases h), ?_,
      fun _ _ h => (by cases h)⟩
    intro p hp id hid
    obtain ⟨c, _, rfl⟩ := List.mem_map.1 hp
    cases hid
  · exact ⟨fun _ h => (by cases h), fun _ _ _ h => (by cases h)⟩
  · intro n t h; cases h
  · intro n t h; cases h
  · exact ⟨fun _ _ _ _ h => (by cases h), fun _ _ h => (by cases h), fun _ _ _ _ h => (by cases h),
      fun _ _ _ h => (by cases h), fun _ _ _ h => (by cases h)⟩
  · intro nt h; cases h

theorem reach_step (s : St) (e : Ev) (st : Started) (h : Reach s) (hok : PayloadOK s e) :
    Reach (step s e st).1 := by
  obtain ⟨h10, h09, h16, hids, hfacts⟩ := hok
  have h13 : C13.EvOK s e := by
    cases e with
    | importDone _ _ _ _ _ _ => exact h10.1
    | mergeDone _ => exact h10.1
    | _ => trivial
  have hunc := uncBounded_step s e st h.tagsWF h.nextLeAll h.importJob h.matInv hids h16 h.uncBounded h.jobUnc
    h.allLeNext
  exact {
    tagsWF := C06.tagsWF_step s e st h.tagsWF
    jobsWF := C09.jobsWF_step s e st h.jobsWF h09
    count := C13.count_step s e st h.count h13
    importJob := C10.importJobInv_step s e st h.importJob
    covered := C10.cover_step s e st h.covered h.count h10
    nextLeAll := nextLeAll_step s e st h.nextLeAll h.importJob
    allLeNext := allLeNext_step s e st h.allLeNext h.importJob h10
    uncBounded := hunc.1
    jobUnc := hunc.2
    matInv := C16.matInv_step s e st h.matInv h10 h16
    convsWF := C16.convsWF_step s e st h.tagsWF h.convsWF
    accounted := C16.accounted_step s e st h.tagsWF h.convsWF h.covered h.count h10 h.accounted
      (C16.matInv_bounded s h.matInv)
    factsOK := factsOK_step s e st h.tagsWF h.factsOK hfacts
    refByWF := refByWF_step s e st h.tagsWF h.factsOK h.refByWF h.refsExist
    refsExist := refsExist_step s e st h.tagsWF h.factsOK h.refByWF h.refsExist
    noStuck := C09.nostuck_step s e st h.jobsWF h.noStuck h09 h.refByWF }

def HistOK (s : St) : List (Ev × Started) → Prop
  | [] => True
  | (e, st) :: rest => PayloadOK s e ∧ HistOK (step s e st).1 rest

/-- every state reached by any history with admissible payloads satisfies all invariants: lock counts
    equal holders, nothing is stuck, every id is served, pending sets are bounded, matching streams
    are accounted for by the converters, … for every order of job completions -/
theorem reach_run (s : St) (h : List (Ev × Started)) (hs : Reach s) (hh : HistOK s h) :
    Reach (C13.run s h) := by
  induction h generalizing s with
  | nil => exact hs
  | cons a rest ih =>
    obtain ⟨e, st⟩ := a
    exact ih _ (reach_step s e st hs hh.1) hh.2

end Pk.Props.MgrReach
