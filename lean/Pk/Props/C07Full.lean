/-
  C07 — the full statement of Pk/Props/C07.lean (`MergeViewEq`, a `def … : Prop` there).

  `MergeViewEq` as written quantifies over arbitrary `Reader` values and is FALSE
  (`merge_view_eq_counterexample`; one witness per needed hypothesis in Pk/Proofs/MergeFullCex.lean).
  Proved here: `MergeViewEq'`, the same conclusion (every stream view — absolute times, host addresses, ports,
  protocol, byte counts, source packets, payload — of every id through the whole stack is unchanged when a
  suffix of the stack is replaced by its merge) under
    * `Reader.WF` for the merge inputs (Pk/Proofs/MergeFullDefs.lean): host groups well-formed, `idMin`/`idMax`
      bracket the ids, import table without duplicates and with C-string names, times of this era, uint64 payload
      sizes, skip counters inside the stream's own packet records;
    * `Reader.Fits` for the merge outputs: at most 2^32 packet records and imports, at most 65 536 host groups
      (the capacity limits of the format, not modelled in `AddIndex`).
  Non-vacuity: every reader opened on a file written by a reachable writer (`AddStream` of well-formed streams,
  `AddIndex` of well-formed files) satisfies `Reader.WF` (`reachable_reader_wf`), and so do the outputs of a merge
  (`merged_wf`); a concrete instance is `mergeViewEq'_witness` (Pk/Proofs/MergeFullWitness.lean).
-/
import Pk.Props.C07
import Pk.Proofs.MergeFull

namespace Pk.Props.C07
open Pk Pk.Bytes Pk.Index

/-- the statement as written is false: a reader whose `idMin`/`idMax` do not bracket its ids hides a stream from
    `StreamByID`, while `AddIndex` copies it into the merged file -/
theorem merge_view_eq_counterexample : ¬ MergeViewEq := mergeViewEq_counterexample

/-- `MergeViewEq` for well-formed inputs and outputs within the capacity limits.
    -- ADDED: `(∀ r ∈ suf, r.WF)`: the unrestricted statement is false (see `merge_view_eq_counterexample` and
    --   `mergeViewEq_needs_idRange/_times/_importsNoNul/_importsNodup/_skips/_hosts` in Pk/Proofs/MergeFullCex.lean:
    --   each field of `Reader.WF` but `sizes` has a concrete merge that changes a view when only that field fails).
    -- ADDED: `(∀ m ∈ merged, m.Fits)`: `AddIndex` truncates packet/import/host-group ids to u32/u32/u16; the model
    --   has no capacity check ("always true below the 2^32 capacity limits"). -/
def MergeViewEq' : Prop :=
  ∀ (pre suf merged : List Reader), (∀ r ∈ suf, r.WF) → merge suf = .ok merged → (∀ m ∈ merged, m.Fits) →
    ∀ id, stackView (pre ++ merged) id = stackView (pre ++ suf) id

theorem merge_view_eq' : MergeViewEq' := by
  intro pre suf merged hwf hm hfit id
  rw [stackView_append, stackView_append, merge_stackView suf merged hwf hm hfit id]

/-- the hypothesis `Reader.WF` holds for every file a reachable writer produces -/
theorem reachable_reader_wf {w : Writer} (h : Reach w) (r : Reader) (hr : newReader w.finalize = .ok r)
    (hfit : r.Fits) : r.WF := reach_reader_wf h r hr hfit

/-- … and for the outputs of a merge, so merged files can be merged again -/
theorem merged_wf (suf merged : List Reader) (hwf : ∀ r ∈ suf, r.WF) (hm : merge suf = .ok merged)
    (hfit : ∀ m ∈ merged, m.Fits) : ∀ m ∈ merged, m.WF := merge_wf suf merged hwf hm hfit

/-- the hypotheses of `MergeViewEq'` are jointly satisfiable with a successful, non-trivial merge: two files the
    writer produces, both holding stream 7 with different views; the merged file is well-formed and shows the
    newer one -/
theorem merge_view_eq'_nonvacuous : ∃ (a b : Reader) (merged : List Reader), a.WF ∧ b.WF ∧ merge [a, b] = .ok merged ∧
    (∀ m ∈ merged, m.Fits) ∧ (∀ m ∈ merged, m.WF) ∧
    (∃ v, stackView [a, b] 7 = some (some v) ∧ stackView merged 7 = some (some v)) ∧ stackView [a] 7 ≠ stackView [b] 7 :=
  mergeViewEq'_witness

end Pk.Props.C07
