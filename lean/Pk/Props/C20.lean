/-
  C20 — No data races on shared service state (partial by design, see DESIGN §5 C20 / §9).

  What is proved here (model: Pk/Model/Access.lean, proofs: Pk/Proofs/Access.lean):

  * `discipline_implies_race_free` — for EVERY execution of the abstract model (any number of events,
    goroutines, mutexes, posted closures) that is consistent with an access table for which the
    ownership discipline holds, no two conflicting accesses are unordered by happens-before
    (program order ∪ goroutine start ∪ send→receive of a posted closure ∪ unlock→lock).
    `discipline_races_only_excused` is the same with an exception list: every remaining race is on an
    excepted (field, context, context) triple.
  * `gen_access_ok` — the table REGENERATED from the Go sources on every run of `./check C20`
    (Pk/Gen/Access.lean, written by harness/cmd/c20extract) satisfies the discipline with the
    exception list `Expected.exceptions`, decided by the kernel.  A new unsynchronised access changes the
    table and this obligation fails.
  * `gen_race_free` — the two together: every execution of the abstract model that is consistent with
    the regenerated table is race free.
  * the per-field classification of DESIGN §5 (loop-owned / one common lock / written before the
    goroutines start) implies the pairwise discipline used here (`loop_owned_ok`, `common_lock_ok`,
    `written_before_start_ok`).
  * non-vacuity: a concrete execution satisfying all hypotheses (`hypotheses_satisfiable`), and the
    converse on a concrete witness: for an unsynchronised worker-write / loop-read pair (the shape of
    findings F17a–F17d before they were repaired) there IS an execution of the model with a race
    (`unsynchronised_pair_races`), so the discipline is not stronger than needed there.

  Assumptions of the model that are facts about the Go code and are NOT proved here (they are the
  fields of `Threads`; the race-detector runs of the check are the tie): one service-loop goroutine;
  `New` starts only watcher goroutines before it has finished initialising; at most one instance of
  each background job at a time (`serial_jobs`); whoever calls the API obtained the manager from `New`.
  Limits (why partial): the table is per field declaration — sharing of slice backing arrays, of
  pointers handed out in events and of function values stored in fields is invisible to it, and lock
  identity is per declaration, not per object; those are covered only by the race-detector stage.
-/
import Pk.Model.Access
import Pk.Proofs.Access
import Pk.Proofs.AccessF17e
import Pk.Gen.Access

namespace Pk.Props.C20
open Pk.Access

namespace Expected
/-- Exceptions of the FIELD table: none.  F17a (builder.knownPcaps/packetCount), F17b
    (updatedTagsToSignal read by the ticker), F17c (pcap-over-ip endpoint statistics) and F17d
    (converter Process.cmd/exitCode) are fixed in the repository, so the regenerated table must satisfy
    the discipline without exceptions.  The one recorded finding that is not repaired, F17e, is a race
    on the state of an os.File (not a field of a tracked struct): it is outside the table, the
    race-detector stage reports it as KNOWN-FINDING, and `finding_F17e` below is its witness. -/
def exceptions : Exceptions := []
end Expected

/-- MAIN (with exceptions): under the discipline every race of every execution is excepted. -/
theorem discipline_races_only_excused (tbl : Table) (exc : Exceptions) (h : History)
    (hd : disciplineHolds tbl exc = true) (hx : Exec tbl h) (ht : Threads h) :
    ∀ a b, Race h a b → excusedE exc a b :=
  Pk.Proofs.Access.races_only_excused tbl exc h hd hx ht

/-- MAIN: discipline ⇒ race freedom; unbounded in the number of events, goroutines and locks. -/
theorem discipline_implies_race_free (tbl : Table) (h : History)
    (hd : disciplineHolds tbl [] = true) (hx : Exec tbl h) (ht : Threads h) : RaceFree h :=
  Pk.Proofs.Access.race_free tbl h hd hx ht

/-- the regenerated access table satisfies the discipline (kernel evaluation, no native code) -/
theorem gen_access_ok : disciplineHolds Pk.Gen.Access.table Expected.exceptions = true := by
  decide +kernel

/-- every execution consistent with the regenerated table is race free -/
theorem gen_race_free (h : History) (hx : Exec Pk.Gen.Access.table h) (ht : Threads h) : RaceFree h :=
  discipline_implies_race_free Pk.Gen.Access.table h gen_access_ok hx ht

/-- `disciplineHolds` is exactly "no offending pair" (the list the check prints) -/
theorem discipline_iff_no_unsafe_pair (tbl : Table) (exc : Exceptions) :
    disciplineHolds tbl exc = true ↔ unsafePairs tbl exc = [] :=
  Pk.Proofs.Access.disciplineHolds_iff_unsafePairs tbl exc

/-! ### the per-field formulation of DESIGN §5 implies the pairwise one -/

theorem loop_owned_ok {tbl : Table} {f : Nat} (ho : loopOwned tbl f = true)
    {r1 r2 : Row} (h1 : r1 ∈ tbl) (h2 : r2 ∈ tbl) (f1 : r1.field = f) (f2 : r2.field = f) :
    safePair r1 r2 = true :=
  Pk.Proofs.Access.loopOwned_safe ho h1 h2 f1 f2

theorem common_lock_ok {tbl : Table} {f l : Nat} (hg : guardedBy tbl f l = true)
    {r1 r2 : Row} (h1 : r1 ∈ tbl) (h2 : r2 ∈ tbl) (f1 : r1.field = f) (f2 : r2.field = f)
    (hc : conflict r1 r2 = true) : safePair r1 r2 = true :=
  Pk.Proofs.Access.guardedBy_safe hg h1 h2 f1 f2 hc

theorem written_before_start_ok {tbl : Table} {f : Nat} (hw : writtenBeforeStart tbl f = true)
    {r1 r2 : Row} (h1 : r1 ∈ tbl) (h2 : r2 ∈ tbl) (f1 : r1.field = f) (f2 : r2.field = f)
    (hc : conflict r1 r2 = true) : safePair r1 r2 = true :=
  Pk.Proofs.Access.writtenBeforeStart_safe hw h1 h2 f1 f2 hc

/-! ### building blocks of happens-before that carry the main theorem -/

/-- lock order: two accesses of different goroutines under one mutex (one of them exclusive) are ordered -/
theorem lock_order {tbl : Table} {h ha hb : History} {a b : Event} (hx : Exec tbl h)
    (sa : (a :: ha) <:+ h) (sb : (b :: hb) <:+ h) (hlt : a.t < b.t) (hne : a.g ≠ b.g)
    {l : Nat} {m1 m2 : Mode} (h1 : holds ha a.g l = some m1) (h2 : holds hb b.g l = some m2)
    (hw : m1 = .w ∨ m2 = .w)
    (ka : ∀ l' m', a.kind ≠ .acq l' m' ∧ a.kind ≠ .rel l' m') : HB h a b :=
  Pk.Proofs.Access.lock_ordered hx sa sb hlt hne h1 h2 hw ka

/-- goroutine start: what `New` does before its first `go` statement happens before everything else -/
theorem start_order_pre {tbl : Table} {h : History} (hx : Exec tbl h) (ht : Threads h) {a b : Event}
    (ha : a ∈ h) (hb : b ∈ h) (ca : a.ctx = .pre) (cb : b.ctx.main = false) : HB h a b :=
  Pk.Proofs.Access.pre_before_all hx ht ha hb ca cb

/-- goroutine start: what `New` does before it starts the service loop happens before every event of
    every goroutine except the watchers -/
theorem start_order_init {tbl : Table} {h : History} (hx : Exec tbl h) (ht : Threads h) {a b : Event}
    (ha : a ∈ h) (hb : b ∈ h) (ca : a.ctx = .init) (ka : ∀ c, a.kind ≠ .spawn c)
    (cb : b.ctx.main = false) (wb : b.ctx ≠ .watcher) : HB h a b :=
  Pk.Proofs.Access.init_before_nonwatcher hx ht ha hb ca ka cb wb

/-! ### non-vacuity and the converse on a witness -/

/-- the hypotheses of the main theorem are satisfiable: a guarded worker-write / loop-read execution -/
theorem hypotheses_satisfiable :
    disciplineHolds Pk.Proofs.Access.gTable [] = true ∧
    Exec Pk.Proofs.Access.gTable Pk.Proofs.Access.gHist ∧ Threads Pk.Proofs.Access.gHist :=
  ⟨by decide, Pk.Proofs.Access.gHist_exec, Pk.Proofs.Access.gHist_threads⟩

/-- … and that execution is race free (instance of the main theorem) -/
theorem guarded_execution_race_free : RaceFree Pk.Proofs.Access.gHist :=
  discipline_implies_race_free _ _ hypotheses_satisfiable.1 hypotheses_satisfiable.2.1 hypotheses_satisfiable.2.2

/-- the shape of the repaired findings F17a–F17d (a field written by a worker goroutine and read by the
    service loop without a common lock): the discipline rejects the table … -/
theorem unsynchronised_pair_rejected : disciplineHolds Pk.Proofs.Access.wTable [] = false := by decide

/-- … and rightly so: there is an execution of the model, satisfying every hypothesis of the main
    theorem except the discipline, in which the two accesses race -/
theorem unsynchronised_pair_races :
    Exec Pk.Proofs.Access.wTable Pk.Proofs.Access.wHist ∧ Threads Pk.Proofs.Access.wHist ∧
    ¬ RaceFree Pk.Proofs.Access.wHist :=
  ⟨Pk.Proofs.Access.wHist_exec, Pk.Proofs.Access.wHist_threads,
   fun hrf => hrf _ _ Pk.Proofs.Access.wHist_race⟩

/-- FULL STATEMENT of the property for the model, kept visible: every execution of the service is race
    free.  The proved part is `gen_race_free` (all accesses to FIELDS of the tracked structs, under the
    `Threads` assumptions); the part that is false on the unchanged code is witnessed by `finding_F17e`. -/
def C20_full : Prop := ∀ (tbl : Table) (h : History), Exec tbl h → Threads h → RaceFree h

/-- finding F17e (known, not repaired): the reader goroutine of a pcap-over-IP endpoint uses the
    connection's os.File (Fd, inside pcap.OpenOfflineFile) after it started the goroutine that closes the
    file on cancellation; nothing orders the use before the close.  In the model: an execution satisfying
    `Exec` and `Threads` that is not race free — so the full statement fails and the discipline (which
    rejects this two-row table) cannot be dropped from the theorem. -/
theorem finding_F17e : ¬ C20_full := by
  intro hfull
  exact hfull Pk.Proofs.Access.eTable Pk.Proofs.Access.eHist Pk.Proofs.Access.eHist_exec
    Pk.Proofs.Access.eHist_threads _ _ Pk.Proofs.Access.eHist_race

/-- the table of that witness is rejected by the discipline -/
theorem finding_F17e_rejected : disciplineHolds Pk.Proofs.Access.eTable [] = false := by decide

/-- the exception mechanism excuses exactly the listed triples on that witness (the worker row also
    conflicts with itself: two worker goroutines) -/
example : disciplineHolds Pk.Proofs.Access.wTable [(0, .worker, .loop), (0, .worker, .worker)] = true := by decide
example : disciplineHolds Pk.Proofs.Access.wTable [(0, .worker, .loop)] = false := by decide
example : disciplineHolds Pk.Proofs.Access.wTable [(0, .worker, .api), (0, .worker, .worker)] = false := by decide

end Pk.Props.C20
