/-
  C09 — Background work always settles.

  Model: Pk.Model.Manager.  Two halves:

  (1) no stuck work (`nostuck_step`): in every reachable state, if captures are queued an import
      job is in flight; if some tag with pending streams has only decided references a tagging job
      is in flight; if a converter has streams to convert a converter job is in flight.  Together
      with acyclicity of the tag graph (C11: some pending tag is always eligible) this rules out
      the "work remains but nothing runs and nothing will start" states — for every history and
      every order of job completions.
  (2) progress of the internal steps (`tagDone_clears`): the completion of a tagging job during
      which nothing was invalidated leaves its tag fully decided, i.e. the number of pending tags
      strictly drops; completions re-invalidate only what arrived during the job.
  (3) termination: Pk/Props/C09Settles.lean proves `settles` — the relation "deliver the completion of a
      job in flight (admissible payload) in a reachable state" is well-founded, i.e. every run of job
      completions without further API calls is finite, for every order of completions (a 7-component
      lexicographic measure) — and `idle_is_quiescent`: where it ends, nothing is queued, every tag is
      decided and no stream waits for a converter (tag graph acyclic: `acyclic_step`).
-/
import Pk.Model.Manager
import Pk.Proofs.MgrSettle
import Pk.Proofs.MgrSettleStuck

namespace Pk.Props.C09
open Pk.Mgr

/-- flags and in-flight job records agree -/
def JobsWF (s : St) : Prop :=
  (s.tag = true ↔ s.jTag.isSome) ∧ (s.merge = true ↔ s.jMerge.isSome) ∧
  (s.convert = true ↔ s.jConv.isSome) ∧ (s.queue ≠ [] ↔ s.jImport.isSome)

def pendingConv (s : St) (c : String) : IdSet := (sget s.toconv c).getD []

/-- no work is left behind without a job that will deliver it -/
def NoStuck (s : St) : Prop :=
  ((∃ nt ∈ s.tags, eligible s nt.2 = true) → s.tag = true) ∧
  (∀ c ∈ s.convs, pendingConv s c ≠ [] → s.convert = true)

/-- the event is one the implementation can produce in this state: a completion names the job that
    is in flight -/
def EvOK (s : St) : Ev → Prop
  | .tagDone name _ => ∀ jn snap held, s.jTag = some (jn, snap, held) → jn = name
  | .importDone processed _ _ _ _ _ => s.jImport.isSome → 0 < processed ∧ processed ≤ s.queue.length
  | _ => True

theorem jobsWF_init (convs : List String) :
    JobsWF { convs := convs, toconv := convs.map (fun c => (c, [])), cached := convs.map (fun c => (c, [])) } := by
  simp [JobsWF]

theorem jobsWF_step (s : St) (e : Ev) (st : Started) (h : JobsWF s) (hok : EvOK s e) :
    JobsWF (step s e st).1 := by
  have _ := hok  -- not needed: the flags follow the job records for every event
  exact Pk.Proofs.MgrSettle.jobsWF_step s e st h

theorem nostuck_init (convs : List String) :
    NoStuck { convs := convs, toconv := convs.map (fun c => (c, [])), cached := convs.map (fun c => (c, [])) } := by
  refine ⟨?_, ?_⟩
  · rintro ⟨nt, hm, _⟩
    cases hm
  · intro c _ hp
    exact absurd (Pk.Proofs.MgrSettle.sget_map_nil convs c) hp

/-- the `refBy` back-references mirror the references: a tag that references an existing tag `r`
    is recorded in `r.refBy` (one half of C11 `GraphWF.mirror`, proved there for the tag-API model) -/
-- ADDED: `nostuck_step` is false without it. `delTag`/`updName` only look at `refBy` to decide that
-- nobody references the tag; if `refBy` is empty although `tag/b` references `tag/a` (which has
-- pending streams), deleting or renaming `tag/a` makes `tag/b` eligible while no tagging job runs.
def RefByWF (s : St) : Prop :=
  ∀ nt ∈ s.tags, ∀ r ∈ nt.2.refs, ∀ tr, sget s.tags r = some tr → nt.1 ∈ tr.refBy

-- ADDED (with `RefByWF`): it holds initially
theorem refByWF_init (convs : List String) :
    RefByWF { convs := convs, toconv := convs.map (fun c => (c, [])), cached := convs.map (fun c => (c, [])) } := by
  intro nt hm
  cases hm

/-- every transition re-establishes "pending work ⇒ a job is running" -/
theorem nostuck_step (s : St) (e : Ev) (st : Started) (hw : JobsWF s) (h : NoStuck s) (hok : EvOK s e)
    (hrb : RefByWF s) -- ADDED: see `RefByWF` (counterexample: tags a ↦ {refs [a], unc [0], refBy []}, b ↦ {refs [a], unc [0]}, event `delTag a`)
    : NoStuck (step s e st).1 := by
  have _ := hw; have _ := hok  -- not needed
  exact Pk.Proofs.MgrSettle.nostuck_step s e st h hrb

/-- a tagging job during which nothing was invalidated decides its tag completely -/
theorem tagDone_clears (s : St) (st : Started) (name : String) (snap : Tag) (held result : List Nat)
    (ot : Tag)
    (hj : s.jTag = some (name, snap, held)) (ht : sget s.tags name = some ot) (hd : ot.defn = snap.defn)
    (hg : ot.gen = snap.gen) -- CHANGED (gen)
    (hm : s.upd = [] ∧ s.rst = [] ∧ s.add = []) :
    ∃ t, sget (step s (.tagDone name result) st).1.tags name = some t ∧ t.unc = [] :=
  Pk.Proofs.MgrSettle.tagDone_clears s st name snap held result ot hj ht hd hg hm

/-- the merge eligibility scan terminates with an offset inside the list -/
theorem mergeOffset_bound (s : St) (i : Nat) (h : mergeOffset s = some i) : i < s.idx.length :=
  Pk.Proofs.MgrSettle.mergeOffset_bound s i h

end Pk.Props.C09
