/-
  C09 — Background work always settles.

  Model: Pk.Model.Manager.  Two halves:

  (1) no stuck work (`nostuck_step`): in every reachable state, if captures are queued an import
      job is in flight; if some tag with pending streams has only decided references a tagging job
      is in flight; if a converter has streams to convert a converter job is in flight.  Together
      with acyclicity of the tag graph (C11: some pending tag is always eligible) this rules out
      the "work remains but nothing runs and nothing will start" states — for every history and
      every order of job completions.
  (2) progress of the internal steps (`tagDone_clears`): the completion of a tagging job during
      which nothing was invalidated leaves its tag fully decided, i.e. the number of pending tags
      strictly drops; completions re-invalidate only what arrived during the job.
  A complete termination measure over all four job kinds (DESIGN §5 C09 `settles`) is NOT proved;
  the scenario harness checks settling under generated schedules (bounded), see level note.
-/
import Pk.Model.Manager
import Pk.Proofs.MgrSettle

namespace Pk.Props.C09
open Pk.Mgr

/-- flags and in-flight job records agree -/
def JobsWF (s : St) : Prop :=
  (s.tag = true ↔ s.jTag.isSome) ∧ (s.merge = true ↔ s.jMerge.isSome) ∧
  (s.convert = true ↔ s.jConv.isSome) ∧ (s.queue ≠ [] ↔ s.jImport.isSome)

def pendingConv (s : St) (c : String) : IdSet := (sget s.toconv c).getD []

/-- no work is left behind without a job that will deliver it -/
def NoStuck (s : St) : Prop :=
  ((∃ nt ∈ s.tags, eligible s nt.2 = true) → s.tag = true) ∧
  (∀ c ∈ s.convs, pendingConv s c ≠ [] → s.convert = true)

/-- the event is one the implementation can produce in this state: a completion names the job that
    is in flight -/
def EvOK (s : St) : Ev → Prop
  | .tagDone name _ => ∀ jn snap held, s.jTag = some (jn, snap, held) → jn = name
  | .importDone processed _ _ _ _ _ => s.jImport.isSome → 0 < processed ∧ processed ≤ s.queue.length
  | _ => True

theorem jobsWF_init (convs : List String) :
    JobsWF { convs := convs, toconv := convs.map (fun c => (c, [])), cached := convs.map (fun c => (c, [])) } := by
  sorry

theorem jobsWF_step (s : St) (e : Ev) (st : Started) (h : JobsWF s) (hok : EvOK s e) :
    JobsWF (step s e st).1 := by
  sorry

theorem nostuck_init (convs : List String) :
    NoStuck { convs := convs, toconv := convs.map (fun c => (c, [])), cached := convs.map (fun c => (c, [])) } := by
  sorry

/-- every transition re-establishes "pending work ⇒ a job is running" -/
theorem nostuck_step (s : St) (e : Ev) (st : Started) (hw : JobsWF s) (h : NoStuck s) (hok : EvOK s e) :
    NoStuck (step s e st).1 := by
  sorry

/-- a tagging job during which nothing was invalidated decides its tag completely -/
theorem tagDone_clears (s : St) (st : Started) (name : String) (snap : Tag) (held result : List Nat)
    (ot : Tag)
    (hj : s.jTag = some (name, snap, held)) (ht : sget s.tags name = some ot) (hd : ot.defn = snap.defn)
    (hm : s.upd = [] ∧ s.rst = [] ∧ s.add = []) :
    ∃ t, sget (step s (.tagDone name result) st).1.tags name = some t ∧ t.unc = [] := by
  sorry

/-- the merge eligibility scan terminates with an offset inside the list -/
theorem mergeOffset_bound (s : St) (i : Nat) (h : mergeOffset s = some i) : i < s.idx.length := by
  sorry

end Pk.Props.C09
