import Pk.Model.Manager
namespace Pk.Props.C09
open Pk.Mgr
theorem placeholder : (release ({} : St) []).idx = [] := rfl
end Pk.Props.C09
