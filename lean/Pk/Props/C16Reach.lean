/-
  C16Reach — "converter output always belongs to the stream's current data" (C16) over whole histories.

  `Pk/Props/C16.lean` holds the single-step facts (`import_drops_changed`, `accounted_step`, `detach_stops`).  This
  file closes the property over EVERY history of events (API calls and job completions in any order) from the
  initial state.  The model has no payload bytes, so the statement uses GHOST VERSIONS:
    `ver  : Nat → Nat`           the current version of the data of stream `id`;
    `cver : String → Nat → Nat`  the version from which the cached output of converter `c` for `id` was computed.
  The run relation moves `ver` as the contract `VerStep` allows (a promise about what the builder reports, like
  `C06Reach.TruthStep`) and updates `cver` where the model caches (`ghostNext`): the converter job that starts
  inside a step (`startConverter` runs after the event's own effect) converts from the files served at that
  moment, i.e. from the versions AFTER the event.

  Proved (hypotheses: `PayloadOK` of MgrReach and `VerStep`, nothing else):
   (1) `cached_current_step` / `cached_current_run` / `cached_current_everywhere` — in every state reached,
       `id ∈ cached c → cver c id = ver id`: cached output was computed from the current data.
   (2) `output_exists_run` — in every state reached every existing stream that matches a tag with converter `c`
       attached is cached or queued for `c`; `output_current_idle` / `output_current_when_idle` — in an idle state
       reached (no job in flight; runs of completions are finite: `C09.settles`, `completions_settle`) it IS cached,
       from its current data.
   (3) DETACHING STOPS FURTHER RUNS (second version, after the fix of `detachConverterFromTag` that this development
       triggered — CHANGED (detach); the model was patched accordingly: `detachConv` keeps queued only what the OTHER
       tags with the converter match):
       `detach_last`, `detach_last_clean` — `detachConv` for the last tag leaves `c` attached to no tag with an empty
       cache and an empty queue; `detach_event_clean` — the same for the accepted EVENT (`updConv` deselecting `c`,
       `delTag`), also while a converter job is in flight; `detach_no_new_runs_step`, `detach_no_new_runs`,
       `detach_no_runs_when_clean` — while `c` is attached to no tag nothing is added to what it holds;
       `detach_stops_all_runs` — the literal statement: after the detach from the last tag, for every later history
       that does not attach `c` again nothing is ever cached, queued or converted for `c`;
       `inflight_completion_harmless` — the completion of the job that was in flight at the detach reports a set for
       `c`, which only makes data-dependent TAGS pending: nothing is cached or queued for `c`.
       CHANGED (dropped): when the detach leaves no other tag with `c`, `detachConv` now also runs the dropped-output
       step of the service (`outputDropped`: tags that look at payload become pending for all streams, a tagging job
       may start); that step caches and queues nothing and keeps every tag's converters, so all of (3) holds
       unchanged, for every tagging choice (`detach_last`, `detach_last_clean` take the choice now).
       `detach_stale_run_now_safe`, `detach_stale_run_by_theorem` — the history on which the FIRST version of this file
       exhibited a run of a detached converter for a stale queue entry (`detach_stale_run_example`, reproduced on the
       real manager) evaluated on the patched model: the detach empties the queue, no job starts.
   `cached_current_example` — non-vacuity: import, tag, attach, convert; then an import that updates the stream: the
       output is dropped and converted again inside the same step, with the new version.

  ADDED / CHANGED with respect to the drafted statement (each with a formal counterexample):
   * `Changed` (hence `VerStep`) lets the version of an updated / reset stream move only at the completion of an
     import job IN FLIGHT that WROTE A FILE (`created ≠ []`): the model — like the service — invalidates nothing at a
     completion without files.  `changed_needs_created_counterexample`.  (`VerStep` also speaks about existing
     streams only, `id < next`: ids an import adds get their first version unconstrained.  The "increases" half of
     `VerStep` is not used by the proofs: (1) needs only "what is not reported keeps its version".)
   * `ghostNext` does not set `cver` for "every (c,id) in the cache after the step and not before" but for every
     (c,id) in the set the converter job started inside the step holds (`convertedNow`, = cache after the step minus
     cache at the moment the job starts).  With the difference of the caches BEFORE and AFTER THE STEP the statement
     is false for a reason outside the model (drop and re-conversion inside one step leave the id in both caches):
     `naive_ghost_counterexample`.
   * (3) was false on the model of the service before the fix (first version: `detach_stops_all_runs_counterexample`);
     it is proved literally now (`detach_stops_all_runs`).

  Level note (as in C16.lean): a conversion still running inside the job goroutine while an import completes is not
  expressible in this model (the model converts at job start).

  Lemmas: Pk/Proofs/MgrConvRun.lean (what one step does to the caches), MgrConvRunDetach.lean (a converter that is
  attached to no tag), MgrConvRunExample.lean and MgrConvRunStale.lean (the two concrete histories).
-/
import Pk.Props.C16
import Pk.Props.MgrReach
import Pk.Props.C09Settles
import Pk.Proofs.MgrConvRun
import Pk.Proofs.MgrConvRunExample
import Pk.Proofs.MgrConvRunDetach
import Pk.Proofs.MgrConvRunStale
import Pk.Proofs.MgrTruthFrame

namespace Pk.Props.C16Reach
open Pk.Mgr Pk.Props.MgrReach Pk.Props.C16 Pk.Proofs.MgrConvRun

/-! ## ghost state -/

/-- ghost: the current version of the data of every stream (the model has no payload bytes) -/
abbrev Ver := Nat → Nat
/-- ghost: the version of the data from which the cached output of converter `c` for stream `id` was computed -/
abbrev CVer := String → Nat → Nat

-- ADDED: the clauses "a job is in flight" and "it wrote a file" (`created ≠ []`): the model invalidates nothing
-- otherwise, see `changed_needs_created_counterexample`
/-- the event changes the data of the existing stream `id`: it is the completion of an import job in flight
    that wrote at least one file and reports `id` as updated (more packets) or reset (re-assembled).
    (An import that wrote no file changed no stream; the same convention as `C06Reach.TruthStep`.) -/
def Changed (s : St) (e : Ev) (id : Nat) : Prop :=
  match e with
  | .importDone _ _ created upd rst _ => s.jImport.isSome = true ∧ created ≠ [] ∧ (id ∈ upd ∨ id ∈ rst)
  | _ => False

/-- the contract on how the versions move at event `e` taken in state `s` (a promise about what the builder
    reports, like `C06Reach.TruthStep`): the version of every existing stream whose data the event changes
    increases, every other existing stream keeps its version.  Ids ≥ `next` (in particular the ids an import
    adds) carry no obligation: they get their first version when they come into existence. -/
def VerStep (s : St) (e : Ev) (ver ver' : Ver) : Prop :=
  ∀ id, id < s.next → (Changed s e id → ver id < ver' id) ∧ (¬ Changed s e id → ver' id = ver id)

/-- a converter job started inside this step (`startConverterJobIfNeeded` ran at the end of the event's
    closure): the flag went up; for a converter completion: the completed job was replaced by a new one -/
def jobStarted (s : St) (e : Ev) (s' : St) : Bool :=
  match e with
  | .convertDone => s.jConv.isSome && s'.convert
  | _ => !s.convert && s'.convert

-- CHANGED: not "in the cache after the step and not before" — see `naive_ghost_counterexample`
/-- the model cached output of converter `c` for stream `id` in this step: a converter job started inside the
    step and `id` is in the set the job holds for `c` (`remaining` of `startConverter`: the streams the job
    converted, i.e. requested, found in the files it holds, and not cached already) -/
def convertedNow (s : St) (e : Ev) (st : Started) (c : String) (id : Nat) : Bool :=
  jobStarted s e (step s e st).1 &&
    match (step s e st).1.jConv with
    | some (sets, _) => sets.any (fun p => p.1 == c && p.2.contains id)
    | none => false

/-- the ghost after an event: the job that starts inside the step converts from the files the service serves
    at that moment, i.e. from the versions AFTER the event; all other entries keep their version -/
def ghostNext (s : St) (e : Ev) (st : Started) (ver' : Ver) (cver : CVer) : CVer :=
  fun c id => if convertedNow s e st c id then ver' id else cver c id

/-- cached output belongs to the current data -/
def CachedCurrent (s : St) (ver : Ver) (cver : CVer) : Prop :=
  ∀ c id, id ∈ cachedOf s c → cver c id = ver id

/-- only configured converters have cached output -/
def CachedKeys (s : St) : Prop := ∀ c, c ∉ s.convs → cachedOf s c = []

/-- cached output exists for existing streams only -/
def CachedBounded (s : St) : Prop := ∀ c id, id ∈ cachedOf s c → id < s.next

/-- everything that holds in every state of a run -/
structure Good (s : St) (ver : Ver) (cver : CVer) : Prop where
  reach : Reach s
  acyclic : C09.Acyclic s
  plain : C09.ConvPlain s
  keys : CachedKeys s
  bounded : CachedBounded s
  current : CachedCurrent s ver cver

/-- the hypotheses on one event -/
structure StepOK (s : St) (ver : Ver) (e : Ev) (ver' : Ver) : Prop where
  payload : PayloadOK s e
  vers : VerStep s e ver ver'

/-! ## histories -/

/-- a history: events with the tagging choices the implementation made, annotated with the versions after
    each event -/
abbrev Hist := List (Ev × Started × Ver)

def RunOK (s : St) (ver : Ver) : Hist → Prop
  | [] => True
  | (e, st, ver') :: rest => StepOK s ver e ver' ∧ RunOK (step s e st).1 ver' rest

def runSt (s : St) : Hist → St
  | [] => s
  | (e, st, _) :: rest => runSt (step s e st).1 rest
def runV (ver : Ver) : Hist → Ver
  | [] => ver
  | (_, _, ver') :: rest => runV ver' rest
def runC (s : St) (cver : CVer) : Hist → CVer
  | [] => cver
  | (e, st, ver') :: rest => runC (step s e st).1 (ghostNext s e st ver' cver) rest

/-- the initial state of the service -/
def initSt (convs : List String) : St :=
  { convs := convs, toconv := convs.map (fun c => (c, [])), cached := convs.map (fun c => (c, [])) }

/-! ## one event -/

private theorem inSets_iff (sets : List (String × IdSet)) (c : String) (id : Nat) :
    sets.any (fun p => p.1 == c && p.2.contains id) = true ↔ inSets sets c id := by
  simp only [List.any_eq_true, Bool.and_eq_true, beq_iff_eq, List.contains_iff_mem, inSets]

/-- the three shapes of `CT` (Pk/Proofs/MgrConvRun.lean: an import completion, a converter completion, any other
    event) in one statement: from a state `a` with the caches of `s`, the step is a `CT D` with `D` containing the
    streams the event changes, and `jobStarted` says whether a converter job started -/
private theorem step_ct_cases (s : St) (e : Ev) (st : Started) :
    ∃ (D : Nat → Prop) (a : St), CT D a (step s e st).1 ∧ cachedOf a = cachedOf s ∧ a.convs = s.convs ∧
      (jobStarted s e (step s e st).1 = true ↔ (a.convert = false ∧ (step s e st).1.convert = true)) ∧
      (∀ i, Changed s e i → D i) := by
  by_cases himp : ∃ p u cr a b d, e = .importDone p u cr a b d
  · obtain ⟨p, u, cr, a, b, d, rfl⟩ := himp
    cases hji : s.jImport with
    | none =>
      refine ⟨D0, s, step_ct_importDone_void s st p u cr a b d (Or.inl hji), rfl, rfl, ?_, ?_⟩
      · simp [jobStarted]
      · intro i hi; simp [Changed, hji] at hi
    | some q =>
      obtain ⟨jn, held⟩ := q
      by_cases hcr : cr = []
      · refine ⟨D0, s, step_ct_importDone_void s st p u cr a b d (Or.inr hcr), rfl, rfl, ?_, ?_⟩
        · simp [jobStarted]
        · intro i hi; exact absurd hcr hi.2.1
      · refine ⟨_, s, step_ct_importDone s st p u cr a b d jn held hji hcr, rfl, rfl, ?_, ?_⟩
        · simp [jobStarted]
        · intro i hi; exact hi.2.2
  · by_cases hcd : e = .convertDone
    · subst hcd
      cases hjc : s.jConv with
      | none =>
        refine ⟨D0, (step s .convertDone st).1, CT.refl _, ?_, ?_, ?_, fun i hi => hi⟩
        · rw [step_convertDone_none s st hjc]
        · rw [step_convertDone_none s st hjc]
        · simp only [jobStarted, hjc, Option.isSome_none, Bool.false_and, Bool.false_eq_true, false_iff, not_and]
          intro h1 h2; rw [h1] at h2; cases h2
      | some q =>
        obtain ⟨sets, held⟩ := q
        refine ⟨D0, _, step_ct_convertDone s st sets held hjc, rfl, rfl, ?_, fun i hi => hi⟩
        simp [jobStarted, hjc]
    · refine ⟨D0, s, step_ct_other s e st (fun p u c a b d h => himp ⟨p, u, c, a, b, d, h⟩) hcd, rfl, rfl, ?_, ?_⟩
      · cases e <;> simp_all [jobStarted]
      · intro i hi
        cases e <;> simp_all [Changed]

/-- what was converted inside this step is in the cache afterwards, for a configured converter, and it is in
    the set the new converter job holds -/
theorem converted_cached (s : St) (e : Ev) (st : Started) (c : String) (id : Nat)
    (h : convertedNow s e st c id = true) :
    id ∈ cachedOf (step s e st).1 c ∧ c ∈ s.convs ∧
    ∃ sets held, (step s e st).1.jConv = some (sets, held) ∧ ∃ p ∈ sets, p.1 = c ∧ id ∈ p.2 := by
  obtain ⟨D, a, hct, hca, hcv, hjs, hD⟩ := step_ct_cases s e st
  simp only [convertedNow, Bool.and_eq_true] at h
  obtain ⟨h1, h2⟩ := h
  obtain ⟨ha, hb⟩ := hjs.1 h1
  rcases hct with hq | hb'
  · rw [hq.convert, ha] at hb; cases hb
  · obtain ⟨sets, held, hj, hin, hsub⟩ := hb'.job
    rw [hj] at h2
    have hi : inSets sets c id := (inSets_iff sets c id).1 h2
    exact ⟨(hin c id hi).1, hcv ▸ (hin c id hi).2, sets, held, hj, hi⟩

/-- what one event does to the caches, in terms of the ghost: an entry of the cache after the event was
    either converted inside this step, or it is an old entry of a stream the event did not change -/
theorem cached_step_cases (s : St) (e : Ev) (st : Started) (hk : CachedKeys s) (c : String) (id : Nat)
    (h : id ∈ cachedOf (step s e st).1 c) :
    convertedNow s e st c id = true ∨ (convertedNow s e st c id = false ∧ id ∈ cachedOf s c ∧ ¬ Changed s e id) := by
  obtain ⟨D, a, hct, hca, hcv, hjs, hD⟩ := step_ct_cases s e st
  have hold : id ∈ Pk.Proofs.MgrConv.cOf a c ∧ (c ∈ a.convs → ¬ D id) → id ∈ cachedOf s c ∧ ¬ Changed s e id := by
    rintro ⟨h1, h2⟩
    have h1' : id ∈ cachedOf s c := by rw [← hca]; exact h1
    refine ⟨h1', fun hch => ?_⟩
    by_cases hc : c ∈ s.convs
    · exact h2 (hcv ▸ hc) (hD id hch)
    · rw [hk c hc] at h1'; cases h1'
  rcases hct with hq | hb
  · right
    have hns : jobStarted s e (step s e st).1 = false := by
      cases hjs' : jobStarted s e (step s e st).1 with
      | false => rfl
      | true =>
        obtain ⟨h1, h2⟩ := hjs.1 hjs'
        rw [hq.convert, h1] at h2; cases h2
    refine ⟨by simp only [convertedNow, hns, Bool.false_and], hold (hq.sub c id h)⟩
  · obtain ⟨sets, held, hj, hin, hsub⟩ := hb.job
    have hst : jobStarted s e (step s e st).1 = true := hjs.2 ⟨hb.off, hb.on⟩
    have hcn : convertedNow s e st c id = true ↔ inSets sets c id := by
      simp only [convertedNow, hst, Bool.true_and, hj]
      exact inSets_iff sets c id
    by_cases hi : inSets sets c id
    · exact Or.inl (hcn.2 hi)
    · right
      refine ⟨by cases hx : convertedNow s e st c id with
                  | false => rfl
                  | true => exact absurd (hcn.1 hx) hi, ?_⟩
      rcases hsub c id h with h1 | h1
      · exact hold h1
      · exact absurd h1 hi

/-- the configured converters never change -/
theorem convs_step (s : St) (e : Ev) (st : Started) : (step s e st).1.convs = s.convs := by
  obtain ⟨D, a, hct, _, hcv, _, _⟩ := step_ct_cases s e st
  rcases hct with h | h
  · exact h.convs.trans hcv
  · exact h.convs.trans hcv

theorem cachedKeys_step (s : St) (e : Ev) (st : Started) (hk : CachedKeys s) : CachedKeys (step s e st).1 := by
  intro c hc
  rw [convs_step] at hc
  cases hl : cachedOf (step s e st).1 c with
  | nil => rfl
  | cons id r =>
    exfalso
    have hmem : id ∈ cachedOf (step s e st).1 c := by rw [hl]; exact List.mem_cons_self
    rcases cached_step_cases s e st hk c id hmem with h | ⟨_, h, _⟩
    · exact hc (converted_cached s e st c id h).2.1
    · rw [hk c hc] at h; cases h

theorem cachedBounded_step (s : St) (e : Ev) (st : Started) (hr : Reach s) (hok : PayloadOK s e)
    (hk : CachedKeys s) (hb : CachedBounded s) : CachedBounded (step s e st).1 := by
  have hr' := reach_step s e st hr hok
  intro c id hid
  rcases cached_step_cases s e st hk c id hid with h | ⟨_, h, _⟩
  · obtain ⟨_, _, sets, held, hj, p, hp, _, hip⟩ := converted_cached s e st c id h
    have := hr'.jobUnc.2.2.2.2.2 sets held hj p hp id hip
    exact Nat.lt_of_lt_of_le this hr'.allLeNext
  · exact Nat.lt_of_lt_of_le (hb c id h) (next_mono s e st hr.importJob)

/-- ONE EVENT (1): cached output belongs to the current data after every event whose payload is admissible
    and along which the versions move as the contract `VerStep` says -/
theorem cached_current_step (s : St) (e : Ev) (st : Started) (ver ver' : Ver) (cver : CVer)
    (hg : Good s ver cver) (hok : StepOK s ver e ver') :
    Good (step s e st).1 ver' (ghostNext s e st ver' cver) := by
  refine ⟨reach_step s e st hg.reach hok.payload, C09.acyclic_step s e st hg.reach hok.payload hg.acyclic,
    C09.convPlain_step s e st hg.reach hg.plain, cachedKeys_step s e st hg.keys,
    cachedBounded_step s e st hg.reach hok.payload hg.keys hg.bounded, ?_⟩
  intro c id hid
  unfold ghostNext
  rcases cached_step_cases s e st hg.keys c id hid with h | ⟨h1, h2, h3⟩
  · rw [if_pos h]
  · rw [h1]
    simp only [Bool.false_eq_true, if_false]
    rw [hg.current c id h2, ((hok.vers id (hg.bounded c id h2)).2 h3)]

/-! ## every history -/

theorem good_init (convs : List String) (ver : Ver) (cver : CVer) : Good (initSt convs) ver cver := by
  have hc : ∀ c, cachedOf (initSt convs) c = [] := by
    intro c
    simp only [cachedOf, initSt, sget]
    induction convs with
    | nil => rfl
    | cons a r ih =>
      simp only [List.map_cons, List.find?_cons]
      split
      · rfl
      · exact ih
  refine ⟨reach_init convs, rfl, C09.convPlain_init convs, fun c _ => hc c, ?_, ?_⟩
  · intro c id h; rw [hc] at h; cases h
  · intro c id h; rw [hc] at h; cases h

theorem good_run (s : St) (ver : Ver) (cver : CVer) (h : Hist) (hg : Good s ver cver) (hh : RunOK s ver h) :
    Good (runSt s h) (runV ver h) (runC s cver h) := by
  induction h generalizing s ver cver with
  | nil => exact hg
  | cons a rest ih =>
    obtain ⟨e, st, ver'⟩ := a
    exact ih _ _ _ (cached_current_step s e st ver ver' cver hg hh.1) hh.2

theorem runOK_prefix (s : St) (ver : Ver) (h1 h2 : Hist) (hh : RunOK s ver (h1 ++ h2)) : RunOK s ver h1 := by
  induction h1 generalizing s ver with
  | nil => trivial
  | cons a rest ih =>
    obtain ⟨e, st, ver'⟩ := a
    exact ⟨hh.1, ih _ _ hh.2⟩

/-- EVERY HISTORY (1): for every history of events (API calls and job completions in any order) from the
    initial state whose payloads are admissible and along which the versions move as `VerStep` says, in the
    state reached — and, every prefix of such a history being one, in every state on the way
    (`cached_current_everywhere`) — cached converter output was computed from the CURRENT data of its stream -/
theorem cached_current_run (convs : List String) (ver0 : Ver) (cver0 : CVer) (h : Hist)
    (hh : RunOK (initSt convs) ver0 h) :
    ∀ c id, id ∈ cachedOf (runSt (initSt convs) h) c → runC (initSt convs) cver0 h c id = runV ver0 h id :=
  (good_run _ _ _ h (good_init convs ver0 cver0) hh).current

theorem cached_current_everywhere (convs : List String) (ver0 : Ver) (cver0 : CVer) (h1 h2 : Hist)
    (hh : RunOK (initSt convs) ver0 (h1 ++ h2)) :
    ∀ c id, id ∈ cachedOf (runSt (initSt convs) h1) c → runC (initSt convs) cver0 h1 c id = runV ver0 h1 id :=
  cached_current_run convs ver0 cver0 h1 (runOK_prefix _ _ h1 h2 hh)

/-! ## (2) output exists -/

/-- EVERY HISTORY (2a): in every state reached, every existing stream that matches a tag with converter `c`
    attached is cached or queued for `c` -/
theorem output_exists_run (convs : List String) (ver0 : Ver) (h : Hist) (hh : RunOK (initSt convs) ver0 h) :
    Accounted (runSt (initSt convs) h) :=
  (good_run _ _ _ h (good_init convs ver0 (fun _ _ => 0)) hh).reach.accounted

/-- when no further API calls arrive, every run of job completions (`C09.CStep`: the completion of a job in flight
    with an admissible payload, delivered in a state satisfying `Reach` and `ConvPlain` — both part of `Good`) is
    finite; once the completion of every job in flight has been delivered, (2b) below applies -/
theorem completions_settle (s : St) : Acc C09.CStep s := C09.settles.apply s

/-- (2b) in a state that satisfies the invariants and has no job in flight, every existing stream that matches a
    tag with converter `c` attached HAS cached output of `c`, computed from its current data -/
theorem output_current_idle (s : St) (ver : Ver) (cver : CVer) (hg : Good s ver cver) (hi : C09.Idle s)
    (n : String) (t : Tag) (ht : sget s.tags n = some t) (c : String) (hc : c ∈ t.convs)
    (id : Nat) (hm : id ∈ t.mat) (hid : id < s.next) :
    id ∈ cachedOf s c ∧ cver c id = ver id := by
  have hq := (C09.idle_is_quiescent _ hg.reach hi hg.acyclic).2.2 c (hg.reach.convsWF n t ht c hc)
  have hin : id ∈ cachedOf s c := by
    rcases hg.reach.accounted n t ht c hc id hm hid with h1 | h1
    · exact h1
    · have : queuedOf s c = [] := hq
      rw [this] at h1; cases h1
  exact ⟨hin, hg.current c id hin⟩

/-- EVERY HISTORY (2b): … in particular in every idle state reached from the initial state -/
theorem output_current_when_idle (convs : List String) (ver0 : Ver) (cver0 : CVer) (h : Hist)
    (hh : RunOK (initSt convs) ver0 h) (hi : C09.Idle (runSt (initSt convs) h))
    (n : String) (t : Tag) (ht : sget (runSt (initSt convs) h).tags n = some t) (c : String) (hc : c ∈ t.convs)
    (id : Nat) (hm : id ∈ t.mat) (hid : id < (runSt (initSt convs) h).next) :
    id ∈ cachedOf (runSt (initSt convs) h) c ∧ runC (initSt convs) cver0 h c id = runV ver0 h id :=
  output_current_idle _ _ _ (good_run _ _ _ h (good_init convs ver0 cver0) hh) hi n t ht c hc id hm hid

/-! ## (3) a detached converter -/

/-- converter `c` is attached to no tag -/
def Unattached (s : St) (c : String) : Prop := ∀ n t, sget s.tags n = some t → c ∉ t.convs

/-- converter `c` holds stream `id`: output is cached, or the stream is queued for conversion -/
def Held (s : St) (c : String) (id : Nat) : Prop := id ∈ cachedOf s c ∨ id ∈ queuedOf s c

/-- the event attaches converter `c` to a tag: an ACCEPTED `updConv` call whose selection contains `c`
    (the only place where the service attaches converters) -/
def Attaches (s : St) (e : Ev) (st : Started) (c : String) : Prop :=
  match e with
  | .updConv _ cs => c ∈ cs ∧ (step s e st).2 ≠ Res.err
  | _ => False

/-- along the history no event attaches `c` -/
def NoAttach (c : String) (s : St) : Hist → Prop
  | [] => True
  | (e, st, _) :: rest => ¬ Attaches s e st c ∧ NoAttach c (step s e st).1 rest

-- CHANGED (detach): after the fix of `detachConverterFromTag` the queue of `c` is EMPTY after the detach from the last
-- tag (before: "what is still queued was queued before and is not matched by the tag" — stale entries could remain)
-- CHANGED (dropped): `detachConv` takes the tagging choice (for every choice; the dropped-output step it may run
-- caches and queues nothing)
/-- (3, the moment of the detach) `detachConv` for the LAST tag that has `c` attached: afterwards `c` is attached to
    no tag, its cache is empty and its queue is empty (only what OTHER tags with `c` match stays queued) -/
theorem detach_last (s : St) (n c : String) (t : Tag) (hw : C06.TagsWF s) (ht : sget s.tags n = some t)
    (hoth : ∀ n2 t2, sget s.tags n2 = some t2 → n2 ≠ n → c ∉ t2.convs) (choice : Option String := none) :
    Unattached (detachConv s n c choice) c ∧ cachedOf (detachConv s n c choice) c = [] ∧
      queuedOf (detachConv s n c choice) c = [] :=
  Pk.Proofs.MgrConvRun.detach_last s n c t choice hw ht hoth

-- CHANGED (detach): no hypothesis "no converter job is in flight" any more
-- CHANGED (dropped): `detachConv` takes the tagging choice
/-- … so nothing at all is held for `c` afterwards, whether or not a converter job is in flight -/
theorem detach_last_clean (s : St) (n c : String) (t : Tag) (hw : C06.TagsWF s) (ht : sget s.tags n = some t)
    (hoth : ∀ n2 t2, sget s.tags n2 = some t2 → n2 ≠ n → c ∉ t2.convs) (choice : Option String := none) :
    Unattached (detachConv s n c choice) c ∧ ∀ id, ¬ Held (detachConv s n c choice) c id := by
  obtain ⟨h1, h2, h3⟩ := detach_last s n c t hw ht hoth choice
  refine ⟨h1, fun id hh => ?_⟩
  rcases hh with h | h
  · rw [h2] at h; cases h
  · rw [h3] at h; cases h

/-- the event detaches `c` from tag `name`: an `updConv` on `name` whose selection does not contain `c`, or the
    deletion of `name` -/
def Detaches (e : Ev) (name c : String) : Prop :=
  (∃ cs, e = .updConv name cs ∧ c ∉ cs) ∨ e = .delTag name

-- CHANGED (detach): no hypothesis "no converter job is in flight" any more (and `TagsWF` instead of `Reach`)
/-- (3, the detaching EVENT) an accepted `updConv` that deselects `c` on the last tag that has it, or an accepted
    `delTag` of that tag — ALSO while a converter job is in flight: in the state after the event `c` is attached to
    no tag, nothing is cached and nothing is queued for it -/
theorem detach_event_clean (s : St) (e : Ev) (st : Started) (c name : String) (t : Tag) (hw : C06.TagsWF s)
    (he : Detaches e name c) (ht : sget s.tags name = some t) (hc : c ∈ t.convs)
    (hoth : ∀ n2 t2, sget s.tags n2 = some t2 → n2 ≠ name → c ∉ t2.convs)
    (hacc : (step s e st).2 ≠ Res.err) :
    Unattached (step s e st).1 c ∧ ∀ id, ¬ Held (step s e st).1 c id := by
  rcases he with ⟨cs, rfl, hcs⟩ | rfl
  · exact updConv_detach_clean c s st name cs t hw ht hc hcs hoth hacc
  · exact delTag_detach_clean c s st name t hw ht hc hoth hacc

/-- ONE EVENT (3): while `c` is attached to no tag, every event that does not attach it leaves it unattached and
    adds NOTHING to what `c` holds: a stream cached or queued for `c` afterwards was cached or queued before
    (entries only move between the cache and the queue — an import re-queues changed streams, a converter job
    drains the queue — or disappear); a conversion for `c` inside the step is the conversion of such an entry -/
theorem detach_no_new_runs_step (s : St) (e : Ev) (st : Started) (c : String)
    (hu : Unattached s c) (hna : ¬ Attaches s e st c) :
    Unattached (step s e st).1 c ∧ (∀ id, Held (step s e st).1 c id → Held s c id) ∧
    (∀ id, convertedNow s e st c id = true → Held s c id) := by
  have huq : UQ c s (step s e st).1 := by
    by_cases h : ∃ n cs, e = .updConv n cs ∧ c ∈ cs
    · obtain ⟨n, cs, rfl, hc⟩ := h
      have herr : (step s (.updConv n cs) st).2 = Res.err :=
        Classical.byContradiction fun hne => hna ⟨hc, hne⟩
      rw [Pk.Proofs.MgrTruth.step_rejected s _ st herr]
      exact UQ.refl _ _
    · exact step_uq c s e st (fun n cs he hc => h ⟨n, cs, he, hc⟩)
  refine ⟨huq.tags hu, huq.held hu, fun id hc => ?_⟩
  exact huq.held hu id (Or.inl (converted_cached s e st c id hc).1)

/-- EVERY HISTORY (3): from a state in which `c` is attached to no tag, along every history that does not attach it
    again: `c` stays unattached and holds, in the state reached, only streams it held at the start -/
theorem detach_no_new_runs (s : St) (c : String) (h : Hist) (hu : Unattached s c) (hna : NoAttach c s h) :
    Unattached (runSt s h) c ∧ ∀ id, Held (runSt s h) c id → Held s c id := by
  induction h generalizing s with
  | nil => exact ⟨hu, fun _ h => h⟩
  | cons a rest ih =>
    obtain ⟨e, st, ver'⟩ := a
    obtain ⟨h1, h2, _⟩ := detach_no_new_runs_step s e st c hu hna.1
    obtain ⟨h3, h4⟩ := ih _ h1 hna.2
    exact ⟨h3, fun id hh => h2 id (h4 id hh)⟩

/-- EVERY HISTORY (3, clean detach): if `c` holds nothing when it becomes unattached (`detach_last_clean`), then as
    long as it is not attached again nothing is ever cached or queued for it, and no event converts anything for
    it: there are no further runs of `c` -/
theorem detach_no_runs_when_clean (s : St) (c : String) (h : Hist) (hu : Unattached s c)
    (hclean : ∀ id, ¬ Held s c id) (hna : NoAttach c s h) :
    (∀ id, ¬ Held (runSt s h) c id) ∧
    ∀ (e : Ev) (st : Started), ¬ Attaches (runSt s h) e st c → ∀ id, convertedNow (runSt s h) e st c id = false := by
  obtain ⟨h1, h2⟩ := detach_no_new_runs s c h hu hna
  refine ⟨fun id hh => hclean id (h2 id hh), fun e st hne id => ?_⟩
  cases hx : convertedNow (runSt s h) e st c id with
  | false => rfl
  | true =>
    exact absurd (h2 id ((detach_no_new_runs_step _ e st c h1 hne).2.2 id hx)) (hclean id)

private theorem nil_of_not_mem {l : List Nat} (h : ∀ id, id ∉ l) : l = [] :=
  List.eq_nil_iff_forall_not_mem.2 h

/-- (3) DETACHING STOPS FURTHER RUNS.  After an accepted event that detaches `c` from its LAST tag (`updConv` or
    `delTag`; also when a converter job is in flight at that moment): right after the event the cache and the queue
    of `c` are empty, and for EVERY later history that does not attach `c` again: in the state reached `c` is still
    attached to no tag, nothing is cached and nothing is queued for it, and no event taken there (that does not
    attach it) converts anything for it.  (All prefixes of the later history being such histories, this holds in
    every state on the way; the completion of the job that was in flight at the detach is one of the later
    events: `inflight_completion_harmless`.) -/
theorem detach_stops_all_runs (s : St) (e : Ev) (st : Started) (c name : String) (t : Tag) (hw : C06.TagsWF s)
    (he : Detaches e name c) (ht : sget s.tags name = some t) (hc : c ∈ t.convs)
    (hoth : ∀ n2 t2, sget s.tags n2 = some t2 → n2 ≠ name → c ∉ t2.convs)
    (hacc : (step s e st).2 ≠ Res.err) :
    (cachedOf (step s e st).1 c = [] ∧ queuedOf (step s e st).1 c = []) ∧
    ∀ h : Hist, NoAttach c (step s e st).1 h →
      Unattached (runSt (step s e st).1 h) c ∧
      cachedOf (runSt (step s e st).1 h) c = [] ∧ queuedOf (runSt (step s e st).1 h) c = [] ∧
      ∀ (e' : Ev) (st' : Started), ¬ Attaches (runSt (step s e st).1 h) e' st' c →
        ∀ id, convertedNow (runSt (step s e st).1 h) e' st' c id = false := by
  obtain ⟨h1, h2⟩ := detach_event_clean s e st c name t hw he ht hc hoth hacc
  refine ⟨⟨nil_of_not_mem fun id h => h2 id (Or.inl h), nil_of_not_mem fun id h => h2 id (Or.inr h)⟩, ?_⟩
  intro h hna
  obtain ⟨h3, h4⟩ := detach_no_runs_when_clean _ c h h1 h2 hna
  exact ⟨(detach_no_new_runs _ c h h1 hna).1, nil_of_not_mem fun id hh => h3 id (Or.inl hh),
    nil_of_not_mem fun id hh => h3 id (Or.inr hh), h4⟩

/-- THE JOB THAT WAS IN FLIGHT AT THE DETACH may still complete, and its completion reports a set for `c` (the
    streams it converted for `c` before the detach).  What `convertDone` does with a reported set `(c, ids)` of a
    configured converter: tags whose definition looks at converted DATA become pending on `ids` (main query) resp.
    everywhere (sub-query), and `ids` is added to the during-job mask `upd` — tags, not converters.  It neither
    caches nor queues anything for `c`: while `c` is attached to no tag and holds nothing, after the completion it
    still holds nothing, is still attached to no tag, and the converter job that may start at the end of the
    completion converts nothing for it. -/
theorem inflight_completion_harmless (s : St) (st : Started) (c : String) (hu : Unattached s c)
    (hclean : ∀ id, ¬ Held s c id) :
    Unattached (step s .convertDone st).1 c ∧ (∀ id, ¬ Held (step s .convertDone st).1 c id) ∧
    ∀ id, convertedNow s .convertDone st c id = false := by
  obtain ⟨h1, h2, h3⟩ := detach_no_new_runs_step s .convertDone st c hu (fun h => h)
  refine ⟨h1, fun id hh => hclean id (h2 id hh), fun id => ?_⟩
  cases hx : convertedNow s .convertDone st c id with
  | false => rfl
  | true => exact absurd (h3 id hx) (hclean id)

/-! ## non-vacuity -/

section example_
open Pk.Proofs.MgrConvRunExample

/-- the versions of the example: every stream starts with version 1; the second import bumps stream 0 to 2 -/
def exV1 : Ver := fun _ => 1
def exV2 : Ver := fun id => if id = 0 then 2 else 1

/-- import a stream, tag it, attach the converter (its job starts and converts stream 0), the job completes;
    then an import that updates stream 0 (events and states: Pk/Proofs/MgrConvRunExample.lean) -/
def exHist1 : Hist :=
  [ (e1, {}, exV1), (e2, {}, exV1), (e3, { tag := some "tag/x" }, exV1), (e4, {}, exV1), (e5, {}, exV1), (e6, {}, exV1) ]
def exHist2 : Hist := [ (e7, {}, exV1), (e8, {}, exV2) ]

private theorem verStep_same (s : St) (e : Ev) (v : Ver) (h : ∀ id, id < s.next → ¬ Changed s e id) : VerStep s e v v :=
  fun id hid => ⟨fun hc => absurd hc (h id hid), fun _ => rfl⟩

private theorem ex_runOK : RunOK (initSt ["c"]) exV1 (exHist1 ++ exHist2) := by
  show RunOK s0 exV1 _
  refine ⟨⟨ok1, verStep_same _ _ _ (fun _ _ h => h)⟩, ?_⟩
  rw [step1]
  refine ⟨⟨ok2, verStep_same _ _ _ (fun id h _ => absurd h (Nat.not_lt_zero _))⟩, ?_⟩
  rw [step2]
  refine ⟨⟨ok3, verStep_same _ _ _ (fun _ _ h => h)⟩, ?_⟩
  rw [step3]
  refine ⟨⟨ok4, verStep_same _ _ _ (fun _ _ h => h)⟩, ?_⟩
  rw [step4]
  refine ⟨⟨ok5, verStep_same _ _ _ (fun _ _ h => h)⟩, ?_⟩
  rw [step5]
  refine ⟨⟨ok6, verStep_same _ _ _ (fun _ _ h => h)⟩, ?_⟩
  rw [step6]
  refine ⟨⟨ok7, verStep_same _ _ _ (fun _ _ h => h)⟩, ?_⟩
  rw [step7]
  refine ⟨⟨ok8, ?_⟩, trivial⟩
  intro id hid
  have h0 : id = 0 := by
    have : id < 1 := hid
    omega
  subst h0
  exact ⟨fun _ => by decide, fun h => absurd ⟨rfl, by simp, Or.inl (by simp)⟩ h⟩

private theorem ex_runSt1 : runSt (initSt ["c"]) exHist1 = s6 := by
  show runSt s0 exHist1 = s6
  simp only [exHist1, runSt, step1, step2, step3, step4, step5, step6]

private theorem ex_runSt2 : runSt (initSt ["c"]) (exHist1 ++ exHist2) = s8 := by
  show runSt s0 _ = s8
  simp only [exHist1, exHist2, List.cons_append, List.nil_append, runSt, step1, step2, step3, step4, step5, step6, step7, step8]

/-- NON-VACUITY: the concrete history satisfies all hypotheses of `cached_current_run`.  After the converter
    job completed (`exHist1`) stream 0 has cached output of converter "c", computed from version 1; the import
    that updates stream 0 (`exHist2`) changes its version to 2, the model drops the output and the converter job
    that starts inside the same step converts stream 0 again (`convertedNow`): the cached output now belongs to
    version 2, the current one -/
theorem cached_current_example (cver0 : CVer) :
    RunOK (initSt ["c"]) exV1 (exHist1 ++ exHist2) ∧
    (cachedOf (runSt (initSt ["c"]) exHist1) "c" = [0] ∧ runC (initSt ["c"]) cver0 exHist1 "c" 0 = 1 ∧
      runV exV1 exHist1 0 = 1) ∧
    convertedNow s7 e8 {} "c" 0 = true ∧
    (cachedOf (runSt (initSt ["c"]) (exHist1 ++ exHist2)) "c" = [0] ∧
      runC (initSt ["c"]) cver0 (exHist1 ++ exHist2) "c" 0 = 2 ∧ runV exV1 (exHist1 ++ exHist2) 0 = 2) := by
  have hc5 : convertedNow s4 e5 {} "c" 0 = true := by simp only [convertedNow, step5]; rfl
  have hc6 : convertedNow s5 e6 {} "c" 0 = false := by simp only [convertedNow, step6]; rfl
  have hc8 : convertedNow s7 e8 {} "c" 0 = true := by simp only [convertedNow, step8]; rfl
  refine ⟨ex_runOK, ⟨?_, ?_, rfl⟩, hc8, ?_, ?_, rfl⟩
  · rw [ex_runSt1]; rfl
  · show runC s0 cver0 exHist1 "c" 0 = 1
    simp only [exHist1, runC, step1, step2, step3, step4, step5, ghostNext, hc5, hc6, if_true,
      Bool.false_eq_true, if_false]
    rfl
  · rw [ex_runSt2]; rfl
  · show runC s0 cver0 (exHist1 ++ exHist2) "c" 0 = 2
    simp only [exHist1, exHist2, List.cons_append, List.nil_append, runC, step1, step2, step3, step4, step5, step6,
      step7, ghostNext, hc8, if_true]
    rfl

/-! ### why the ghost follows the converter job, and why `Changed` asks for a written file -/

/-- the NAIVE ghost: "every (c, id) that is in the cache after the step and was not before gets the current
    version" -/
def ghostNaive (s : St) (e : Ev) (st : Started) (ver' : Ver) (cver : CVer) : CVer :=
  fun c id => if (cachedOf (step s e st).1 c).contains id && !(cachedOf s c).contains id then ver' id else cver c id

private theorem ex_runOK7 : RunOK (initSt ["c"]) exV1 (exHist1 ++ [(e7, ({} : Started), exV1)]) :=
  runOK_prefix _ _ (exHist1 ++ [(e7, ({} : Started), exV1)]) [(e8, ({} : Started), exV2)] (by
    have := ex_runOK
    simpa [exHist2, List.append_assoc] using this)

private theorem ex_runSt7 : runSt (initSt ["c"]) (exHist1 ++ [(e7, ({} : Started), exV1)]) = s7 := by
  show runSt s0 _ = s7
  simp only [exHist1, List.cons_append, List.nil_append, runSt, step1, step2, step3, step4, step5, step6, step7]

private theorem ex_runC7 (cver0 : CVer) :
    runC (initSt ["c"]) cver0 (exHist1 ++ [(e7, ({} : Started), exV1)]) "c" 0 = 1 := by
  have hc5 : convertedNow s4 e5 {} "c" 0 = true := by simp only [convertedNow, step5]; rfl
  have hc6 : convertedNow s5 e6 {} "c" 0 = false := by simp only [convertedNow, step6]; rfl
  have hc7 : convertedNow s6 e7 {} "c" 0 = false := by simp only [convertedNow, step7]; rfl
  show runC s0 cver0 _ "c" 0 = 1
  simp only [exHist1, List.cons_append, List.nil_append, runC, step1, step2, step3, step4, step5, step6, ghostNext,
    hc5, hc6, hc7, if_true, Bool.false_eq_true, if_false]
  rfl

/-- with the naive ghost the step theorem is FALSE — for a reason that has nothing to do with the model: in the
    example above stream 0 is in the cache of "c" before AND after the import that updates it (the output is dropped
    and converted again inside the same step), so a ghost that only looks at the difference of the two caches keeps
    the old version.  `ghostNext` therefore follows the set the converter job holds (`convertedNow`). -/
theorem naive_ghost_counterexample :
    ¬ (∀ (s : St) (e : Ev) (st : Started) (ver ver' : Ver) (cver : CVer), Good s ver cver → StepOK s ver e ver' →
        CachedCurrent (step s e st).1 ver' (ghostNaive s e st ver' cver)) := by
  intro h
  have hg := good_run _ _ _ _ (good_init ["c"] exV1 (fun _ _ => 0)) ex_runOK7
  have hr := ex_runOK
  have hok : StepOK (runSt (initSt ["c"]) (exHist1 ++ [(e7, ({} : Started), exV1)]))
      (runV exV1 (exHist1 ++ [(e7, ({} : Started), exV1)])) e8 exV2 := by
    have : RunOK s0 exV1 (exHist1 ++ exHist2) := hr
    simp only [exHist1, exHist2, List.cons_append, List.nil_append, RunOK, step1, step2, step3, step4, step5, step6,
      step7] at this
    rw [ex_runSt7]
    exact this.2.2.2.2.2.2.2.1
  have := h _ e8 {} _ exV2 _ hg hok "c" 0
  rw [ex_runSt7] at this
  have h2 := this (by simp only [step8]; decide)
  simp only [ghostNaive, step8] at h2
  rw [ex_runC7] at h2
  revert h2
  decide

/-- `Changed` without the clause "the import wrote a file" -/
def ChangedAll (s : St) (e : Ev) (id : Nat) : Prop :=
  match e with
  | .importDone _ _ _ upd rst _ => s.jImport.isSome = true ∧ (id ∈ upd ∨ id ∈ rst)
  | _ => False
def VerStepAll (s : St) (e : Ev) (ver ver' : Ver) : Prop :=
  ∀ id, id < s.next → (ChangedAll s e id → ver id < ver' id) ∧ (¬ ChangedAll s e id → ver' id = ver id)

/-- the clause `created ≠ []` of `Changed` cannot be dropped: an import completion that wrote NO file does not
    invalidate anything in the model (nor in the service: the invalidation sits inside `if len(createdFiles) > 0`),
    so a contract that lets the versions move at such a completion is violated at once.  (Every change of a stream
    is written to a new index file, so real completions satisfy the clause.) -/
theorem changed_needs_created_counterexample :
    ¬ (∀ (s : St) (e : Ev) (st : Started) (ver ver' : Ver) (cver : CVer), Good s ver cver → PayloadOK s e →
        VerStepAll s e ver ver' → CachedCurrent (step s e st).1 ver' (ghostNext s e st ver' cver)) := by
  intro h
  have hg := good_run _ _ _ _ (good_init ["c"] exV1 (fun _ _ => 0)) ex_runOK7
  rw [ex_runSt7] at hg
  have hpay : PayloadOK s7 (.importDone 1 0 [] [0] [] []) := by
    refine ⟨⟨⟨?_, ?_⟩, ?_⟩, ?_, trivial, ?_, trivial⟩
    · simp
    · intro o ho; cases ho
    · intro jn held hj
      cases hj
      exact ⟨rfl, fun h => absurd rfl h, fun id h1 h2 => by omega⟩
    · intro _; exact ⟨by decide, by decide⟩
    · intro jn held hj
      cases hj
      refine ⟨fun id h => ?_, fun id h => (by cases h), fun id h => (by cases h)⟩
      have : id = 0 := by simpa using h
      omega
  have hver : VerStepAll s7 (.importDone 1 0 [] [0] [] []) (runV exV1 (exHist1 ++ [(e7, ({} : Started), exV1)])) exV2 := by
    intro id hid
    have h0 : id = 0 := by
      have : id < 1 := hid
      omega
    subst h0
    exact ⟨fun _ => by decide, fun hn => absurd ⟨rfl, Or.inl (by simp)⟩ hn⟩
  have := h s7 _ {} _ exV2 _ hg hpay hver "c" 0 (by decide)
  have hcn : convertedNow s7 (.importDone 1 0 [] [0] [] []) {} "c" 0 = false := by decide
  simp only [ghostNext, hcn, Bool.false_eq_true, if_false] at this
  rw [ex_runC7] at this
  revert this
  decide

end example_

/-! ## the stale-run history is safe now -/

section stale
open Pk.Proofs.MgrConvRunStale

def stV1 : Ver := fun _ => 1
def stV2 : Ver := fun id => if id = 1 then 2 else 1

/-- the history of Pk/Proofs/MgrConvRunStale.lean up to the detach of converter "c" from its last tag -/
def stHist : Hist :=
  [ (f1, {}, stV1), (f2, {}, stV1), (f3, {}, stV1), (f4, {}, stV1), (f5, {}, stV1), (f6, {}, stV1), (f7, {}, stV2),
    (f8, {}, stV2), (f9, {}, stV2) ]

/-- … and the completion of the converter job that was in flight all along -/
def stLast : Hist := [ (f10, {}, stV2) ]

private theorem st_runOK : RunOK (initSt ["c"]) stV1 (stHist ++ stLast) := by
  show RunOK t0 stV1 _
  refine ⟨⟨ok1, verStep_same _ _ _ (fun _ _ h => h)⟩, ?_⟩
  rw [step1]
  refine ⟨⟨ok2, verStep_same _ _ _ (fun id h _ => absurd h (Nat.not_lt_zero _))⟩, ?_⟩
  rw [step2]
  refine ⟨⟨ok3, verStep_same _ _ _ (fun _ _ h => h)⟩, ?_⟩
  rw [step3]
  refine ⟨⟨ok4, verStep_same _ _ _ (fun _ _ h => h)⟩, ?_⟩
  rw [step4]
  refine ⟨⟨ok5, verStep_same _ _ _ (fun _ _ h => h)⟩, ?_⟩
  rw [step5]
  refine ⟨⟨ok6, verStep_same _ _ _ (fun _ _ h => h)⟩, ?_⟩
  rw [step6]
  refine ⟨⟨ok7, ?_⟩, ?_⟩
  · intro id hid
    have h2 : id < 2 := hid
    have hch : Changed t6 f7 1 := ⟨rfl, by simp, Or.inl (by simp)⟩
    refine ⟨fun hc => ?_, fun hn => ?_⟩
    · have : id = 1 := by
        rcases hc.2.2 with h | h
        · simpa using h
        · cases h
      subst this; decide
    · have : id = 0 := by
        rcases Nat.lt_or_ge id 1 with h | h
        · omega
        · have : id = 1 := by omega
          subst this; exact absurd hch hn
      subst this; rfl
  rw [step7]
  refine ⟨⟨ok8, verStep_same _ _ _ (fun _ _ h => h)⟩, ?_⟩
  rw [step8]
  refine ⟨⟨ok9, verStep_same _ _ _ (fun _ _ h => h)⟩, ?_⟩
  rw [step9]
  exact ⟨⟨ok10, verStep_same _ _ _ (fun _ _ h => h)⟩, trivial⟩

private theorem st_runSt : runSt (initSt ["c"]) stHist = t9 := by
  show runSt t0 stHist = t9
  simp only [stHist, runSt, step1, step2, step3, step4, step5, step6, step7, step8, step9]

private theorem st_runSt' : runSt (initSt ["c"]) (stHist ++ stLast) = t10 := by
  show runSt t0 _ = t10
  simp only [stHist, stLast, List.cons_append, List.nil_append, runSt, step1, step2, step3, step4, step5, step6, step7,
    step8, step9, step10]

-- CHANGED (detach): was `detach_stale_run_example` / `detach_stops_all_runs_counterexample` — on the model of the
-- service BEFORE the fix of `detachConverterFromTag` this history ended with stream 1 still queued for the detached
-- converter "c" and the completion of the job in flight started a job that converted it (confirmed on the real
-- manager, fixed there: only what the other tags with the converter match stays queued)
/-- THE STALE-RUN HISTORY IS SAFE NOW: the history of Pk/Proofs/MgrConvRunStale.lean satisfies all contracts; stream 1
    is queued for "c" (re-queued by an import while the converter job J is in flight) and un-marked; the `updConv` that
    detaches "c" from its last tag — J still in flight — leaves "c" attached to no tag with an EMPTY cache and an
    EMPTY queue; the completion of J converts nothing for "c" and starts no converter job at all; afterwards "c"
    still holds nothing -/
theorem detach_stale_run_now_safe :
    RunOK (initSt ["c"]) stV1 (stHist ++ stLast) ∧
    -- before the detach: stream 1 queued for "c", a converter job in flight
    (queuedOf t8 "c" = [1] ∧ t8.convert = true) ∧
    -- after the detach
    Unattached (runSt (initSt ["c"]) stHist) "c" ∧
    cachedOf (runSt (initSt ["c"]) stHist) "c" = [] ∧ queuedOf (runSt (initSt ["c"]) stHist) "c" = [] ∧
    (runSt (initSt ["c"]) stHist).convert = true ∧
    -- the completion of the job in flight
    (∀ id, convertedNow (runSt (initSt ["c"]) stHist) f10 {} "c" id = false) ∧
    (runSt (initSt ["c"]) (stHist ++ stLast)).jConv = none ∧
    cachedOf (runSt (initSt ["c"]) (stHist ++ stLast)) "c" = [] ∧
    queuedOf (runSt (initSt ["c"]) (stHist ++ stLast)) "c" = [] := by
  have hu : Unattached t9 "c" := by
    intro n t ht
    have h' : sget [("mark/m", mTag "id:0" [0] [])] n = some t := ht
    rw [Pk.Proofs.MgrConv.sget_cons] at h'
    split at h'
    · cases h'; simp [mTag]
    · simp [sget] at h'
  rw [st_runSt, st_runSt']
  refine ⟨st_runOK, ⟨rfl, rfl⟩, hu, rfl, rfl, rfl, ?_, rfl, rfl, rfl⟩
  intro id
  simp only [convertedNow, step10]
  rfl

/-- … and BY THE THEOREM: the ninth event of the history is an accepted `updConv` that detaches "c" from its last tag,
    so `detach_stops_all_runs` applies to every continuation that does not attach "c" again -/
theorem detach_stale_run_by_theorem (h : Hist) (hna : NoAttach "c" t9 h) :
    Unattached (runSt t9 h) "c" ∧ cachedOf (runSt t9 h) "c" = [] ∧ queuedOf (runSt t9 h) "c" = [] := by
  have hw : C06.TagsWF t8 := by
    show List.Pairwise _ [_]
    exact List.pairwise_singleton _ _
  have hoth : ∀ n2 t2, sget t8.tags n2 = some t2 → n2 ≠ "mark/m" → "c" ∉ t2.convs := by
    intro n2 t2 h2 hne
    have h' : sget [("mark/m", mTag "id:0" [0] ["c"])] n2 = some t2 := h2
    rw [Pk.Proofs.MgrConv.sget_cons] at h'
    split at h'
    · next e => exact absurd e.symm hne
    · simp [sget] at h'
  have := (detach_stops_all_runs t8 f9 {} "c" "mark/m" (mTag "id:0" [0] ["c"]) hw
    (Or.inl ⟨[], rfl, by simp⟩) rfl (by simp [mTag]) hoth (by rw [step9]; simp)).2
  rw [step9] at this
  obtain ⟨h1, h2, h3, _⟩ := this h hna
  exact ⟨h1, h2, h3⟩

end stale

end Pk.Props.C16Reach
