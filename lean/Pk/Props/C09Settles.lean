/-
  C09 — background work always settles: the termination half.

  `Pk/Props/C09.lean` proves that nothing is stuck (work pending ⇒ the job that will deliver it is in
  flight) in every reachable state.  This file adds: when no further API calls arrive, every run of job
  completions — in whatever order the four kinds of jobs complete, with whatever admissible payloads
  (created files, search results, merge outputs, converted streams) — is FINITE, and the state in which
  no job is in flight any more has no work left.

  `CStep s' s` : `s'` is obtained from the reachable state `s` by delivering the completion of a job that is
  in flight in `s` (with a payload satisfying the contract `PayloadOK`).  `settles` says that `CStep` is
  well-founded, i.e. there is no infinite sequence of completions.  The proof exhibits a measure
  (`Pk.Proofs.MgrTermination.mu`, a lexicographic product of seven numbers, described at the top of
  Pk/Proofs/MgrTermination.lean) that every completion strictly decreases (`cstep_decreases`).

  ADDED (proof phase; each change is marked `-- ADDED` below):
   * `MergeOK` (new conjunct of `CStep`, a contract on a merge completion): a merge that hands back output
     files ran on at least two input files.  `settles` is FALSE without it: `Reach` says nothing about the
     record counter `nrec`, and with a wrong `nrec` the eligibility scan of `startMergeJobIfNeeded` picks the
     last file of the list; a one-file merge that returns one file then restarts itself forever.
     Counterexample (evaluated on the model, `step` maps A to B and B back to A):
       A: idx = [1,2], files = [(1,[0]),(2,[1])], used = [(1,1),(2,2)], next = all = 2, nrec = 100, unm = 1,
          merge = true, jMerge = some (1,[2]), everything else empty;   event `mergeDone [(3,[1])]`
       B: the same with file 3 in place of file 2;                      event `mergeDone [(2,[1])]`
     Both states satisfy every field of `Reach` and both events satisfy `PayloadOK`
     (`settles_counterexample` below, for the draft relation `CStep0`).  On the real system the
     condition holds for every merge: `nrec` is the exact number of records in the listed files, so the scan
     only picks an offset that has a non-empty file after it, i.e. the job holds ≥ 2 files.  (Proving that as
     a state invariant needs the bookkeeping invariant `nrec = Σ fileCount`, which is not part of `Reach`;
     it was not attempted here, hence the weaker condition on the completion.)
   * `ConvPlain` (new conjunct of `CStep`, a state invariant): converters are attached to reference-free
     tags only.  It is what the measure needs to order "a tagging completion queues streams for a
     converter" against "a converter completion re-runs the uncertainty sweep"; it holds initially
     (`convPlain_init`) and is preserved by every transition (`convPlain_step`), so it holds in every state
     reachable from the initial one.  (No counterexample to `settles` without it is known.)
-/
import Pk.Props.MgrReach
import Pk.Proofs.MgrTermination
import Pk.Proofs.MgrTerminationStep
import Pk.Proofs.MgrTerminationCycle
import Pk.Proofs.MgrTerminationAcyclic
import Pk.Proofs.MgrTerminationPlain
import Pk.Proofs.MgrTerminationCex

namespace Pk.Props.C09
open Pk.Mgr Pk.Props.MgrReach

def isCompletion : Ev → Bool
  | .importDone .. => true
  | .tagDone .. => true
  | .mergeDone .. => true
  | .convertDone => true
  | _ => false

/-- the completion belongs to a job that is in flight -/
def Enabled (s : St) : Ev → Prop
  | .importDone .. => s.jImport.isSome = true
  | .tagDone name _ => ∃ snap held, s.jTag = some (name, snap, held)
  | .mergeDone _ => s.jMerge.isSome = true
  | .convertDone => s.jConv.isSome = true
  | _ => False

-- ADDED: see the header.  Holds initially and is preserved by every transition (below).
/-- converters are attached to reference-free tags only (`attachConverterToTag` refuses tags with
    references, `UpdateTag` refuses to give references to a tag with converters) -/
def ConvPlain (s : St) : Prop :=
  ∀ n t, sget s.tags n = some t → t.convs ≠ [] → t.mainT = [] ∧ t.subT = []

theorem convPlain_init (convs : List String) :
    ConvPlain { convs := convs, toconv := convs.map (fun c => (c, [])), cached := convs.map (fun c => (c, [])) } := by
  intro n t h; cases h

theorem convPlain_step (s : St) (e : Ev) (st : Started) (h : Reach s) (hc : ConvPlain s) :
    ConvPlain (step s e st).1 :=
  Pk.Proofs.MgrTermination.cp_step s e st h.factsOK.1 hc

-- ADDED: see the header (counterexample there).
/-- a merge that hands back output files ran on at least two input files -/
def MergeOK (s : St) : Ev → Prop
  | .mergeDone merged => ∀ off held, s.jMerge = some (off, held) → merged ≠ [] → 2 ≤ held.length
  | _ => True

/-- one completion delivered in a reachable state -/
def CStep (s' s : St) : Prop :=
  Reach s ∧ ConvPlain s ∧  -- ADDED: `ConvPlain`
  ∃ (e : Ev) (st : Started), isCompletion e = true ∧ Enabled s e ∧ PayloadOK s e ∧
    MergeOK s e ∧  -- ADDED: `MergeOK`
    s' = (step s e st).1

open Pk.Proofs.MgrTermination in
/-- every completion strictly decreases the measure `mu` (Pk/Proofs/MgrTermination.lean) -/
theorem cstep_decreases {s' s : St} (h : CStep s' s) : LexLt (mu s') (mu s) := by
  obtain ⟨hr, hcp, e, st, hc, hen, hok, hm2, rfl⟩ := h
  have hr' := reach_step s e st hr hok
  obtain ⟨j1, j2, j3, j4⟩ := hr.jobsWF
  cases e with
  | importDone p u c a b d =>
    obtain ⟨⟨jn, held⟩, hj⟩ := Option.isSome_iff_exists.mp hen
    have hp := hok.2.1 hen
    apply lex7
    exact Or.inl (importDone_m1 s st p u c a b d jn held hj hp)
  | tagDone name result =>
    obtain ⟨snap, held, hj⟩ := hen
    refine tagDone_lt s st name result snap held hj (j1.mpr (by simp [hj])) ?_ hr.tagsWF hr'.tagsWF
      (fun ot h1 h2 => hr.factsOK.1 name snap held ot hj h1 h2) hcp hr'.jobUnc.2.2.2.2.2
    intro hcv
    cases hjc : s.jConv with
    | none => rfl
    | some q =>
      have := j3.mpr (by simp [hjc])
      rw [hcv] at this; cases this
  | mergeDone merged =>
    obtain ⟨⟨off, held⟩, hj⟩ := Option.isSome_iff_exists.mp hen
    obtain ⟨e1, e2, e3⟩ := mergeDone_rest s st merged off held hj
    have hC := mC_congr e2
    have hT := mT_congr e3
    have h7 := mergeDone_m7 s st merged off held hj (j2.mpr (by simp [hj])) (hm2 off held hj)
      ((hok.1.2 off held hj).1)
    apply lex7
    have h1 : m1 (step s (.mergeDone merged) st).1 = m1 s := by simp only [m1, e1]
    omega
  | convertDone =>
    obtain ⟨⟨sets, held⟩, hj⟩ := Option.isSome_iff_exists.mp hen
    exact convertDone_lt s st sets held hj (j3.mpr (by simp [hj])) hr.tagsWF hr'.tagsWF hr.uncBounded
      hr'.jobUnc.2.2.2.2.2
  | _ => simp [isCompletion] at hc

/-- every run of job completions is finite -/
theorem settles : WellFounded CStep :=
  Subrelation.wf (fun h => cstep_decreases h)
    (InvImage.wf Pk.Proofs.MgrTermination.mu Pk.Proofs.MgrTermination.lexLt_wf)

/-- `CStep` as drafted, without the ADDED conjuncts `ConvPlain` and `MergeOK` -/
def CStep0 (s' s : St) : Prop :=
  Reach s ∧ ∃ (e : Ev) (st : Started), isCompletion e = true ∧ Enabled s e ∧ PayloadOK s e ∧ s' = (step s e st).1

open Pk.Proofs.MgrTermination in
/-- the draft statement is false: the two states of the header's counterexample satisfy `Reach` (and,
    having no tags, `ConvPlain`), and a one-file merge completion leads from each to the other -/
theorem settles_counterexample : ¬ WellFounded CStep0 := by
  intro wf
  have hA : CStep0 (cexSt 3) (cexSt 2) :=
    ⟨cex_reach 2 (Or.inl rfl), .mergeDone [(3, [1])], {}, rfl, rfl, cex_payload 2 3 (Or.inl ⟨rfl, rfl⟩),
      cex_stepA.symm⟩
  have hB : CStep0 (cexSt 2) (cexSt 3) :=
    ⟨cex_reach 3 (Or.inr rfl), .mergeDone [(2, [1])], {}, rfl, rfl, cex_payload 3 2 (Or.inr ⟨rfl, rfl⟩),
      cex_stepB.symm⟩
  have key : ∀ x, Acc CStep0 x → x ≠ cexSt 2 ∧ x ≠ cexSt 3 := by
    intro x hx
    induction hx with
    | intro x _ ih =>
      constructor
      · rintro rfl; exact (ih _ hA).2 rfl
      · rintro rfl; exact (ih _ hB).1 rfl
  exact (key _ (wf.apply (cexSt 2))).1 rfl

/-- nothing in flight -/
def Idle (s : St) : Prop := s.jImport = none ∧ s.jTag = none ∧ s.jMerge = none ∧ s.jConv = none

/-- every tag can be resolved bottom-up (no reference cycle) -/
def Acyclic (s : St) : Prop := (cycleLoop s.tags.length s.tags []).length = s.tags.length

/-- … and where it ends nothing is left to do: no capture queued, every tag decided for every stream, no
    stream waiting for a converter -/
theorem idle_is_quiescent (s : St) (h : Reach s) (hi : Idle s) (ha : Acyclic s) :
    s.queue = [] ∧ (∀ nt ∈ s.tags, nt.2.unc = []) ∧ (∀ c ∈ s.convs, pendingConv s c = []) := by
  obtain ⟨i1, i2, i3, i4⟩ := hi
  obtain ⟨j1, j2, j3, j4⟩ := h.jobsWF
  obtain ⟨n1, n2⟩ := h.noStuck
  have htag : s.tag ≠ true := fun ht => by have := j1.mp ht; rw [i2] at this; cases this
  have hconv : s.convert ≠ true := fun ht => by have := j3.mp ht; rw [i4] at this; cases this
  refine ⟨?_, ?_, ?_⟩
  · apply Classical.byContradiction
    intro hq
    have := j4.mp hq
    rw [i1] at this; cases this
  · apply Pk.Proofs.MgrTermination.topo_all_decided s.tags h.tagsWF
      (Pk.Proofs.MgrTermination.topo_of_full s.tags s.tags.length ha)
    intro nt hnt
    cases he : Pk.Proofs.MgrSettle.eligT s.tags nt.2 with
    | false => rfl
    | true => exact absurd (n1 ⟨nt, hnt, he⟩) htag
  · intro c hc
    apply Classical.byContradiction
    intro hp
    exact hconv (n2 c hc hp)

/-- the tag graph of the service-loop model stays acyclic (API calls reject edits that would close a cycle) -/
theorem acyclic_step (s : St) (e : Ev) (st : Started) (h : Reach s) (hok : PayloadOK s e) (ha : Acyclic s) :
    Acyclic (step s e st).1 := by
  open Pk.Proofs.MgrTermination in
  have _ := hok
  have hs := h.tagsWF
  have hs' := C06.tagsWF_step s e st hs
  have ht : Topo s.tags := topo_of_full s.tags s.tags.length ha
  suffices h' : Topo (step s e st).1.tags from
    full_of_topo _ hs' _ (Nat.le_refl _) h'
  cases e with
  | nop => exact topo_of_fq hs (fq_simple s _ st trivial) ht
  | importPcaps names => exact topo_of_fq hs (fq_simple s _ st trivial) ht
  | updColor name color => exact topo_of_fq hs (fq_simple s _ st trivial) ht
  | viewOpen k => exact topo_of_fq hs (fq_simple s _ st trivial) ht
  | viewRelease k => exact topo_of_fq hs (fq_simple s _ st trivial) ht
  | importDone p u c a b d => exact topo_of_fq hs (fq_importDone s p u c a b d st) ht
  | tagDone name result => exact topo_of_fq hs (fq_tagDone s name result st h.factsOK.1) ht
  | mergeDone merged => exact topo_of_fq hs (fq_mergeDone s merged st) ht
  | convertDone => exact topo_of_fq hs (fq_convertDone s st) ht
  | updConv name convs => exact topo_of_fq hs (fq_updConv s name convs st) ht
  | markAdd name ids => exact topo_of_fq hs (fq_markAdd s name ids st) ht
  | markDel name ids => exact topo_of_fq hs (fq_markDel s name ids st) ht
  | addTag name color defn f => exact topo_addTag s name color defn f st hs ht
  | updQuery name defn f => exact topo_updQuery s name defn f st hs ht
  | updName name new => exact topo_updName s name new st hs h.refByWF h.refsExist ht
  | delTag name => exact topo_delTag s name st hs h.refByWF ht

/-- `ConvPlain` and acyclicity hold along every history with admissible payloads -/
theorem convPlain_acyclic_run (s : St) (h : List (Ev × Started)) (hs : Reach s) (hc : ConvPlain s)
    (ha : Acyclic s) (hh : HistOK s h) : ConvPlain (C13.run s h) ∧ Acyclic (C13.run s h) := by
  induction h generalizing s with
  | nil => exact ⟨hc, ha⟩
  | cons a rest ih =>
    obtain ⟨e, st⟩ := a
    exact ih _ (reach_step s e st hs hh.1) (convPlain_step s e st hs hc) (acyclic_step s e st hs hh.1 ha) hh.2

end Pk.Props.C09
