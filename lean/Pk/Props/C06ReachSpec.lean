/-
  C06ReachSpec — the contracts, the ghost and the job invariant of C06Reach (definitions only; the theorems
  `decided_correct_step`, `decided_correct_run`, `decided_correct_example` are in Pk/Props/C06Reach.lean, the
  lemmas in Pk/Proofs/MgrTruth*.lean).

  C06Reach — "decided ⇒ correct" (C06) over whole histories.

  `Pk/Props/C06.lean` proves the single-step theorems about tags under frame hypotheses that mention the
  pending sets of the post-state (`hframe` of `inv_step_stable`, `hcov` of `tagjob_publish_sound`).  C06Reach
  discharges those from the model: for EVERY history of events (API calls and job completions in any order)
  from the initial state, `C06.Inv` holds in every state reached, under hypotheses that speak only about
   (a) the event payloads: `PayloadOK` (MgrReach), `ImportAddsNew` (ADDED: a contract on the builder's
       result), `EvFeatOK` (ADDED: a clause of the facts contract — a definition that references a tag reports
       the feature bit `FeatureFilterTags`), the search-result contract `ResultOK`, and
   (b) how the ground truth may move from one state to the next: the frame contract `TruthStep`
       (per dependency class of the definitions, closed under tag references: `Dep`),
  plus ONE narrow side condition, `JobTextOK` (ADDED), which is an artefact of indexing the abstract truth by
  tag names rather than by definition texts (it constrains `updQuery` of the job's tag back to the text of the
  snapshot, and mark updates of the job's tag that leave that text in place).  None of them mentions a pending
  set or a match set of a post-state; `TruthStep` mentions the match set of the PRE-state in the two mark clauses
  (the real system computes the new definition text of a mark tag from it) and the result code of the call (a
  rejected call changes nothing).

  Second version (after two fixes of the Go service that this development triggered; the model was patched
  accordingly):
   * every tag carries the identity `gen` of the `AddTag` call that created it, and the tagging completion
     publishes only onto the same incarnation: the delete/re-create clause of `JobTextOK` and its
     counterexample are gone (the trace is now proved safe: `aba_now_safe`, `aba_decided_correct`); the state
     invariants `GenInv` (identities below the counter, pairwise different) and the job invariant `JobInv`
     follow the incarnation by its identity, also through renames;
   * `MarkRefOK` is no longer a hypothesis: it follows from the state invariant `TagFeatInv`, which is preserved
     under the facts clause `EvFeatOK` (`tagFeat_step`, `markRefOK_of_feat`); `featRefOK_counterexample` shows
     the clause is needed;
   * a converter completion makes tags with data-dependent SUB-QUERY features pending on every stream; `ConvBase`
     now says what it should.
  Third version (a third fix of the Go service, found with the converter-aware oracle): detaching a converter
  from the last tag whose matches it served (`updConv` / `delTag`) resets the converter's cache, so the truth of
  every payload tag may change; the service now makes those tags pending everywhere, sweeps, records
  `rst = all streams` and may START a tagging job (`outputDropped`).  `TruthStep` lets an accepted `updConv` /
  `delTag` in the `DropsOutput` situation change payload tags on any stream (`PayloadBase`, plus referrers via
  `Dep`); otherwise `updConv` changes nothing and `delTag m` only `m`.  A job started in the middle of such an
  event is covered by `job_started` (Pk/Proofs/MgrTruthJob.lean): later `outputDropped` calls of the same event
  only add pending streams that are justified by pending references (`inherit_sound`, `LateCov`).

  The frame contract bounds the set of (tag, stream) pairs whose truth changes by the CLOSURE of a base set
  under tag references (`Dep`, a least fixed point).  This is weaker than the one-step form "n changes only
  if its own class is hit or a tag it references changes" (which implies it on an acyclic tag graph), and it
  is exactly what the model supports: the sweep `inheritTagUncertainty` makes the whole closure pending.

  The run relation is over triples (state, current truth, ghost): the ghost remembers, while a tagging
  job is in flight, the truth function at the moment the job was started (`ghostNext`).  `JobInv` is the
  invariant that discharges `hcov` of `C06.tagjob_publish_sound` at the completion: every stream on which
  the answer the completion is going to publish (`Ans`) differs from the current truth is recorded in the
  during-job masks `upd`/`rst`/`add` in a way that makes it pending again after the completion (`Cov`), as long
  as the incarnation the job was started for still carries the definition text of the snapshot (otherwise the
  completion discards the result).

  Observation made on the way (not needed as a hypothesis, reported for the record): an import completion with
  created files but EMPTY `upd`/`rst`/`add` makes tags with sub-query features pending everywhere but leaves
  the during-job masks empty, so a running job for a tag that references such a tag publishes with `unc = []`
  while its reference is pending; the frame contract therefore lets the truth of sub-query tags change at an
  import only if the import reports some stream (`ImportBase`).
-/
import Pk.Props.C06
import Pk.Props.MgrReach
import Pk.Props.C09Settles
import Pk.Proofs.MgrTruthDep
import Pk.Proofs.MgrTruthFrame
import Pk.Proofs.MgrTruthDrop

namespace Pk.Props.C06Reach
open Pk.Mgr Pk.Props.MgrReach Pk.Proofs.MgrTruth Pk.Proofs.MgrTags

/-- the abstract ground truth: "evaluating tag `n`'s current definition on stream `id`'s current data" -/
abbrev Truth := String → Nat → Bool

/-! ## dependency classes of a definition (`query.Features()`) -/

/-- the definition looks at something besides the stream id (`MainFeatures &^ FeatureFilterID ≠ 0`) -/
def F254 (t : Tag) : Prop := t.mfeat &&& (255 - fID) ≠ 0
/-- the definition looks at data or times -/
def FDT (t : Tag) : Prop := t.mfeat &&& (fData ||| fTimeAbs ||| fTimeRel) ≠ 0

/-! ## the frame contract -/

/-- the truth of tag `n` (if it is in the table) is the same before and after, on existing streams -/
def SameAt (s : St) (T T' : Truth) (n : String) : Prop :=
  ∀ t, sget s.tags n = some t → ∀ id, id < s.next → T' n id = T n id
/-- nothing changes (tags that are not in the table and streams ≥ `next` carry no obligation) -/
def SameOn (s : St) (T T' : Truth) : Prop := ∀ n, SameAt s T T' n
/-- the truth changes only inside the closure of the base set `B` under tag references -/
def ChangesIn (s : St) (nx : Nat) (B : String → Nat → Prop) (T T' : Truth) : Prop :=
  ∀ n t, sget s.tags n = some t → ∀ id, id < s.next → T' n id ≠ T n id → Dep s.tags nx B n id

/-- what an import completion may change directly: per dependency class of the definition -/
def ImportBase (s : St) (upd rst add : List Nat) (n : String) (id : Nat) : Prop :=
  ∃ t, sget s.tags n = some t ∧
    (-- a new stream: every definition may match it (also: an id list may name it)
     id ∈ add ∨
     -- sub-query features: any stream may change (whenever the import touched any stream at all)
     (t.sfeat ≠ 0 ∧ (upd ≠ [] ∨ rst ≠ [] ∨ add ≠ [])) ∨
     -- a reset stream (packets re-assembled from scratch: addresses, ports, … may differ): everything
     -- but the id
     (id ∈ rst ∧ F254 t) ∨
     -- an updated stream (more packets of the same connection): data and times
     (id ∈ upd ∧ FDT t))

/-- what a converter completion may change directly, for a converter that is still configured: a definition
    whose MAIN query looks at stream data, on the streams the completion reports; a definition whose
    SUB-QUERY looks at stream data, on ANY stream as soon as the completion reports a non-empty set (the stream
    whose answer changes need not be the converted one) -- CHANGED (conv) -/
def ConvBase (s : St) (sets : List (String × IdSet)) (n : String) (id : Nat) : Prop :=
  ∃ t, sget s.tags n = some t ∧ ∃ p, p ∈ sets ∧ p.1 ∈ s.convs ∧
    ((t.mfeat &&& fData ≠ 0 ∧ id ∈ p.2) ∨ (t.sfeat &&& fData ≠ 0 ∧ p.2 ≠ []))

/-- what dropping converter output may change directly (an `updConv` / `delTag` that detaches a converter from the
    last tag whose matches it served: `DropsOutput`, Pk/Proofs/MgrTruthDrop.lean — the converter's cache is reset):
    every definition that looks at stream data in its main query or in a sub-query ("payload tag") also matches
    on cached converter output, so its truth may change on ANY stream -- CHANGED (dropped) -/
def PayloadBase (s : St) (n : String) (_id : Nat) : Prop :=
  ∃ t, sget s.tags n = some t ∧ Payload t

/-- how the truth may change at event `e` taken in state `s` (`T` before, `T'` after) -/
def TruthStep (s : St) (e : Ev) (T T' : Truth) : Prop :=
  -- a rejected API call changes nothing
  ((step s e {}).2 = Res.err → SameOn s T T') ∧
  ((step s e {}).2 ≠ Res.err →
    match e with
    | .importDone _ u c upd rst add =>
      match s.jImport with
      | none => SameOn s T T'               -- no import in flight: the event is void
      | some (jn, _) =>
        if c = [] then SameOn s T T'        -- an import that wrote no file changed no stream
        else ChangesIn s (jn + u) (ImportBase s upd rst add) T T'
    | .convertDone =>
      match s.jConv with
      | none => SameOn s T T'
      | some (sets, _) => ChangesIn s s.next (ConvBase s sets) T T'
    | .addTag name _ _ f =>
      -- only the new tag; an id-list definition (mark tag) is true exactly on the listed streams
      (∀ n, n ≠ name → SameAt s T T' n) ∧
      ((parseTagName name).2.2 = true → ∀ id, id < s.next → (T' name id = true ↔ id ∈ f.ids))
    | .updQuery name _ _ =>
      -- only the edited tag and its (transitive) referrers
      ChangesIn s s.next (fun n _ => n = name) T T'
    | .markAdd name ids =>
      if ids = [] then SameOn s T T' else
      ∀ t, sget s.tags name = some t →
        -- the definition is extended by the streams that are not recorded as matching yet …
        (∀ id, id < s.next → T' name id = (T name id || decide (id ∈ ids ∧ id ∉ t.mat))) ∧
        -- … and only referrers of a stream whose truth changed follow
        ChangesIn s s.next (fun n id => n = name ∧ id < s.next ∧ T' name id ≠ T name id) T T'
    | .markDel name ids =>
      if ids = [] then SameOn s T T' else
      ∀ t, sget s.tags name = some t →
        -- the definition is REWRITTEN as the id list of the remaining recorded matches
        (∀ id, id < s.next → (T' name id = true ↔ (id ∈ t.mat ∧ id ∉ ids))) ∧
        ChangesIn s s.next (fun n id => n = name ∧ id < s.next ∧ T' name id ≠ T name id) T T'
    | .updName name new =>
      if new = "" then SameOn s T T' else
      -- the tag's truth moves to the new name (a renamed tag has no referrers)
      (∀ n, n ≠ name → n ≠ new → SameAt s T T' n) ∧ (∀ id, id < s.next → T' new id = T name id)
    | .delTag name =>
      -- a deleted tag has no referrers; deleting the last tag of a converter drops the converter's output:
      -- payload tags and their (transitive) referrers -- CHANGED (dropped)
      (¬ DropsOutput s (.delTag name) → ∀ n, n ≠ name → SameAt s T T' n) ∧
      (DropsOutput s (.delTag name) → ∀ n t, n ≠ name → sget s.tags n = some t → ∀ id, id < s.next →
        T' n id ≠ T n id → Dep s.tags s.next (PayloadBase s) n id)
    | .updConv name convs =>
      -- changing the converters of a tag changes nothing, unless it detaches a converter from its last tag:
      -- then payload tags and their (transitive) referrers -- CHANGED (dropped)
      (¬ DropsOutput s (.updConv name convs) → SameOn s T T') ∧
      (DropsOutput s (.updConv name convs) → ChangesIn s s.next (PayloadBase s) T T')
    | _ => SameOn s T T')

/-! ## payload contracts -/

-- ADDED: every stream id an import hands out is reported as added.  `PayloadOK` (C10.EvOK) only says
-- that the created files hold the new ids; `invalidateTags` makes exactly the reported `add` pending.
-- Counterexample without it: one tag with `unc = []`, `next = all = 0`, `jImport = some (0, [])`, event
-- `importDone 1 1 [(0,[0])] [] [] []`: afterwards `next = 1`, the tag decides stream 0 (answer "no")
-- although nobody evaluated it (formal: `importAddsNew_counterexample`, Pk/Proofs/MgrTruthCex.lean).
/-- the new stream ids of an import are in its `add` set -/
def ImportAddsNew (s : St) : Ev → Prop
  | .importDone _ u _ _ _ add => ∀ jn held, s.jImport = some (jn, held) → ∀ id, jn ≤ id → id < jn + u → id ∈ add
  | _ => True

/-- the search-result contract: the result handed to a tagging completion is the truth AT THE TIME THE JOB
    STARTED (the ghost `g`), restricted to the streams the job was asked about -/
def ResultOK (s : St) (e : Ev) (g : Truth) : Prop :=
  match e with
  | .tagDone name result =>
    ∀ snap held, s.jTag = some (name, snap, held) → ∀ id, id ∈ result ↔ (id ∈ snap.unc ∧ g name id = true)
  | _ => True

/-! ### the facts contract on tag references (ADDED) -/

/-- `query.FeatureFilterTags`: the feature bit `query.Features()` sets for every tag condition -/
def fTags : Nat := 64

-- ADDED: a definition that references a tag in its main query reports the feature bit `FeatureFilterTags` in
-- its main features, one that references a tag in a sub-query reports it in its sub-query features.  This
-- is what makes the during-job mask `rst` effective for referrers: a mark update records the touched
-- streams in `rst` and restores the mark tag's own pending set afterwards; at the completion of a job for
-- a tag that references the mark tag DIRECTLY, `rst` is applied only if the definition looks at more than
-- ids (sub-query reference: only if it has sub-query features).  On the model, with facts that violate the
-- clause: mark/m = "id:0", tag/x with mainT = [mark/m], mfeat = 0, x's job in flight with result [0];
-- `markDel mark/m [0]`; `tagDone tag/x [0]` leaves x with mat = [0], unc = [] although stream 0 is no longer
-- in mark/m (formal: `featRefOK_counterexample`, Pk/Proofs/MgrTruthCex2.lean).
/-- the parser facts report the tag-reference feature -/
def FeatRefOK (f : Facts) : Prop :=
  (f.main ≠ [] → f.mfeat &&& fTags ≠ 0) ∧ (f.sub ≠ [] → f.sfeat &&& fTags ≠ 0)

/-- the facts contract on the events that carry parser facts -/
def EvFeatOK : Ev → Prop
  | .addTag _ _ _ f => FeatRefOK f
  | .updQuery _ _ f => FeatRefOK f
  | _ => True

/-- the same for a stored tag -/
def TagFeat (t : Tag) : Prop :=
  (t.mainT ≠ [] → t.mfeat &&& fTags ≠ 0) ∧ (t.subT ≠ [] → t.sfeat &&& fTags ≠ 0)

/-- state invariant: every tag of the table and the snapshot of the job in flight carry the tag-reference
    feature (preserved by `step` under `EvFeatOK`: `tagFeat_step`) -/
def TagFeatInv (s : St) : Prop :=
  (∀ n t, sget s.tags n = some t → TagFeat t) ∧
  (∀ jn snap held, s.jTag = some (jn, snap, held) → TagFeat snap)

/-- a tag whose job is in flight and that references a mark tag directly is subject to `rst` (no longer a
    hypothesis: it follows from `TagFeatInv`, see `markRefOK_of_feat`) -/
def MarkRefOK (s : St) (e : Ev) : Prop :=
  match e with
  | .markAdd name _ | .markDel name _ =>
    ∀ jn snap held, s.jTag = some (jn, snap, held) →
      (name ∈ snap.mainT → F254 snap) ∧ (name ∈ snap.subT → snap.sfeat ≠ 0)
  | _ => True

/-! ### the identity of tags -/

/-- state invariant: the identities (`gen`, the number of the creating `AddTag` call) in use are below the
    counter `ngen` — so a tag created later never has the identity of the snapshot of the job in flight — and
    two different names never carry the same identity (preserved by `step`: `genInv_step`) -/
def GenInv (s : St) : Prop :=
  (∀ n t, sget s.tags n = some t → t.gen < s.ngen) ∧
  (∀ jn snap held, s.jTag = some (jn, snap, held) → snap.gen < s.ngen) ∧
  (∀ n1 t1 n2 t2, sget s.tags n1 = some t1 → sget s.tags n2 = some t2 → t1.gen = t2.gen → n1 = n2)

-- The completion of a tagging job publishes its result iff the tag of that name carries the identity `gen`
-- AND the definition TEXT of the snapshot.  The identity rules out deletion and re-creation (fix of the
-- defect found as `jobTextOK_counterexample` in the first version of this file; the trace is now safe:
-- `aba_now_safe`).  What the identity cannot rule out is an edit that puts the snapshot's TEXT back on the
-- same incarnation; the abstract truth is indexed by names, not by texts, so two clauses remain:
--  * `updQuery` (of the incarnation the job was started for) back to the text of the snapshot records
--    `rst = all streams`, which covers everything provided the definition looks at more than ids or has
--    sub-query features (for a definition that looks at ids only the old answers are in fact still right —
--    same text, same id list — but the abstract truth does not know that);
--  * a mark update on the incarnation the job was started for that leaves the snapshot's text in place was a
--    no-op for that tag (it had the text before and its truth did not change).  (A mark update normally
--    changes the text; the text stays only if no listed stream was new resp. recorded.)
/-- ADDED: edits of the tag the job in flight was started for do not put the snapshot's definition text back -/
def JobTextOK (s : St) (e : Ev) (st : Started) (T T' : Truth) : Prop :=
  ∀ jn snap held, s.jTag = some (jn, snap, held) →
    match e with
    | .updQuery name d _ =>
      ∀ t, sget s.tags name = some t → t.gen = snap.gen → d = snap.defn → (step s e st).2 = Res.ok →
        (F254 snap ∨ snap.sfeat ≠ 0)
    | .markAdd name _ | .markDel name _ =>
      ∀ t, sget s.tags name = some t → t.gen = snap.gen →
        (∃ t', sget (step s e st).1.tags name = some t' ∧ t'.defn = snap.defn) →
        t.defn = snap.defn ∧ ∀ id, id < s.next → T' name id = T name id
    | _ => True

/-! ## the ghost and the job invariant -/

/-- the ghost after an event: the truth at the start of the job in flight.  A job starts at the end of an
    event during which none was in flight, or at the end of a tagging completion. -/
def ghostNext (s : St) (e : Ev) (T' g : Truth) : Truth :=
  if s.jTag.isNone then T' else
    match e with
    | .tagDone _ _ => T'
    | _ => g

def masksNE (s : St) : Prop := s.upd ≠ [] ∨ s.rst ≠ [] ∨ s.add ≠ []

/-- stream `id` is made pending by the during-job masks alone when the job's tag is published -/
def CovM (s : St) (snap : Tag) (id : Nat) : Prop :=
  id ∈ s.add ∨ (snap.sfeat ≠ 0 ∧ masksNE s) ∨ (id ∈ s.rst ∧ F254 snap) ∨ (id ∈ s.upd ∧ FDT snap)

/-- … or by the sweep that follows (it runs only if some mask is non-empty) -/
def Cov (s : St) (snap : Tag) (id : Nat) : Prop :=
  CovM s snap id ∨
  (masksNE s ∧ ((∃ r, r ∈ snap.mainT ∧ Pend s.tags r id) ∨ (∃ r, r ∈ snap.subT ∧ ∃ id', Pend s.tags r id')))

/-- the answer the completion is going to publish for stream `id` -/
def Ans (snap : Tag) (g : Nat → Bool) (id : Nat) : Bool := if id ∈ snap.unc then g id else decide (id ∈ snap.mat)

/-- while the incarnation the job in flight was started for (the tag with the identity `gen` of the snapshot,
    under whatever name it has now) carries the snapshot's text: every stream on which the answer to be
    published differs from the current truth is covered by the masks -/
def JobInv (s : St) (T g : Truth) : Prop :=
  ∀ jn snap held n ot, s.jTag = some (jn, snap, held) → sget s.tags n = some ot → ot.gen = snap.gen →
    ot.defn = snap.defn →
    (∀ id, id < s.next → CovM s snap id) ∨
    (Attrs ot = Attrs snap ∧ ∀ id, id < s.next → T n id ≠ Ans snap (g jn) id → Cov s snap id)

/-- everything that holds in every state of a run -/
structure Good (s : St) (T g : Truth) : Prop where
  reach : Reach s
  acyclic : C09.Acyclic s
  gens : GenInv s
  feats : TagFeatInv s
  inv : C06.Inv s T
  job : JobInv s T g

/-- the hypotheses on one event -/
structure StepOK (s : St) (T g : Truth) (e : Ev) (st : Started) (T' : Truth) : Prop where
  payload : PayloadOK s e
  featOK : EvFeatOK e                  -- ADDED (facts contract)
  addsNew : ImportAddsNew s e          -- ADDED (builder contract)
  truth : TruthStep s e T T'
  result : ResultOK s e g
  jobText : JobTextOK s e st T T'      -- ADDED

/-! ## histories -/

/-- a history: events with the tagging choices the implementation made, annotated with the ground truth
    after each event -/
abbrev Hist := List (Ev × Started × Truth)

/-- every event of the history satisfies the contracts in the state (and with the truth and the ghost) it is
    applied to -/
def RunOK (s : St) (T g : Truth) : Hist → Prop
  | [] => True
  | (e, st, T') :: rest => StepOK s T g e st T' ∧ RunOK (step s e st).1 T' (ghostNext s e T' g) rest

/-- the state, the truth and the ghost after a history -/
def runSt (s : St) : Hist → St
  | [] => s
  | (e, st, _) :: rest => runSt (step s e st).1 rest
def runT (T : Truth) : Hist → Truth
  | [] => T
  | (_, _, T') :: rest => runT T' rest
def runG (s : St) (g : Truth) : Hist → Truth
  | [] => g
  | (e, st, T') :: rest => runG (step s e st).1 (ghostNext s e T' g) rest

/-- the initial state of the service -/
def initSt (convs : List String) : St :=
  { convs := convs, toconv := convs.map (fun c => (c, [])), cached := convs.map (fun c => (c, [])) }

/-! ## generic lemmas -/

theorem inv_congr {s : St} {T T' : Truth} (h : C06.Inv s T) (hs : SameOn s T T') : C06.Inv s T' := by
  intro n t ht id hid hnu
  rw [hs n t ht id hid]
  exact h n t ht id hid hnu

theorem jobInv_congr {s : St} {T T' g : Truth} (h : JobInv s T g) (hs : SameOn s T T') : JobInv s T' g := by
  intro jn snap held n ot hj hot hg hd
  rcases h jn snap held n ot hj hot hg hd with h1 | ⟨h2, h4⟩
  · exact Or.inl h1
  · refine Or.inr ⟨h2, fun id hid hne => h4 id hid ?_⟩
    rw [← hs n ot hot id hid]; exact hne

end Pk.Props.C06Reach
