/-
  C05 (reassembly part) — run-level recovery theorems for the REFERENCE TCP reassembler of
  Pk/Model/Import.lean (`assembleHalf`: gopacket's AssembleWithContext on one half-connection with
  its out-of-order page queue, `checkOverlap`, `overlapExisting`, `sendToConnection`,
  `addContiguous`, `Sequence.Add/Difference`).  `Pk/Props/C05.lean` proves single steps only; here
  whole runs of one direction are proved by induction, for ALL byte strings, ALL segmentations and
  ALL admissible disturbance sequences (no bounds).

  Vocabulary (defined, with comments, in Pk/Proofs/ImportReasm*.lean; everything is decidable):
    feed dir (st, h) p      `Stream.Accept` records packet `p` of direction `dir`, then `assembleHalf`
    feedAll dir (st, h) ps  `List.foldl (feed dir)` — a run of one direction
    PlainData p             no SYN/FIN/RST, payload not empty
    InOrder s ps            consecutive segments: first at sequence number `s`, each next one at the
                            end of the previous one (`seqAdd`, modulo 2^32)
    payloadOf ps            concatenation of the payloads
    chunksFrom n ps         [(n, ps[0].payload), (n+1, ps[1].payload), …]
    DataPkt isn B p         `p` is a `PlainData` segment carrying bytes `pOff .. pEnd-1` of `B` at
                            sequence number `isn + pOff` (an original segment, a retransmission or any
                            re-segmentation of `B`)
    SegPkt isn B p          the same, but the payload may be empty (pure ACKs, keep-alives)
    RetransRun isn B c ps   every segment of `ps` is a `DataPkt` that starts at or before the offset
                            reached by the earlier ones (in-order data + retransmissions/overlaps)
    reach isn c ps          the offset reached by such a run
    Covers isn B ps         every byte of `B` is carried by some packet of `ps`
    SeqLinear isn n         `isn + n < 2^32` and `isn .. isn + n` does not stretch from the first into
                            the last quarter of the sequence space (see ADDED below)
    ChunksOk isn B n0 ps c chunks   the delivered chunks cut `B[0..c)` into consecutive pieces, each
                            attributed to a packet that carried the first byte of the piece
    Stream.after st0 dir ps chunks  `st0` with the packets `ps` recorded and `chunks` delivered

  Results:
    reasm_inorder_run_wrap, reasm_inorder_run, reasm_inorder_attribution     target (1)
    reasm_retransmit_prefix, reasm_retransmit_run                             target (2)
    reasm_slices_invariant, reasm_slices_run, reasm_reorder_run,
    reasm_reorder_retransmit_run                                              target (3) (and 2+3 mixed)
    reasm_single_conversation_partial, reasmRecovers_single_conversation_partial   target (4), partial:
                            handshake + data phase of ONE conversation through the whole `reasm`
                            (`tcpPacket`, `tcpFlush`, FSM, connection lookup); no FIN/RST teardown
    retransmit_unprimed_false                                                 why `SeqLinear` was ADDED
  Further vocabulary for (4) (Pk/Proofs/ImportReasmConv*.lean): Endpoints, isC2S/isS2C, IsSyn, IsSynAck,
    BodyPkt, pdir, dirBytes, Chunks2.
-/
import Pk.Props.C05
import Pk.Proofs.ImportReasmCor
import Pk.Proofs.ImportReasmConv5

namespace Pk.Props.C05Reasm
open Pk.Import Pk.Proofs.ImportReasm

/-! ### what "the run recovered `B`" means -/

/-- outcome of a run `ps` of direction `dir` from stream `st0` / half `h0` that recovered `B`:
    * `stream`  — nothing but `Packets`/`PacketDirections`/`Data` of the stream changed: the packets
                  of the run were recorded in arrival order, the chunks were appended to `Data`;
    * `chunks`  — the chunks cut `B` into consecutive non-empty pieces and each piece is attributed to
                  a packet of the run that carried its first byte (`ChunksOk`);
    * `half`    — the half-connection is as before except that it now expects `isn + |B|`
                  (in particular: still open, queue empty). -/
structure Recovered (isn : Nat) (B : Bytes) (dir : Bool) (st0 : Stream) (h0 : Half) (ps : List Pkt)
    (r : Stream × Half) : Prop where
  ex : ∃ chunks, r.1 = Stream.after st0 dir ps chunks ∧ ChunksOk isn B st0.npkts ps B.length chunks ∧
        r.2 = { h0 with nextSeq := some (isn + B.length) }

/-- the delivered bytes are exactly `B`, once, after what the stream held before -/
theorem Recovered.bytes {isn B dir st0 h0 ps r} (h : Recovered isn B dir st0 h0 ps r) :
    (r.1.data.map (·.2)).flatten = (st0.data.map (·.2)).flatten ++ B := by
  obtain ⟨chunks, h1, h2, _⟩ := h
  rw [h1]
  simp only [Stream.data, Stream.after, List.reverse_append, List.map_append, List.flatten_append]
  rw [h2.bytes.1, List.take_length]

/-- the packets of the run are the new packets of the stream, in arrival order, with direction `dir` -/
theorem Recovered.pkts {isn B dir st0 h0 ps r} (h : Recovered isn B dir st0 h0 ps r) :
    r.1.pkts = st0.pkts ++ ps.map (fun p => (p.ref, dir)) ∧ r.1.npkts = st0.npkts + ps.length := by
  obtain ⟨chunks, h1, _, _⟩ := h
  rw [h1]
  simp [Stream.pkts, Stream.after]

/-- the queue is empty, the half open, the next expected sequence number is `isn + |B|` -/
theorem Recovered.half {isn B dir st0 h0 ps r} (h : Recovered isn B dir st0 h0 ps r)
    (hopen : h0.closed = false) (hq : h0.queue = []) :
    r.2.queue = [] ∧ r.2.closed = false ∧ r.2.nextSeq = some (isn + B.length) := by
  obtain ⟨chunks, _, _, h3⟩ := h
  rw [h3]; exact ⟨hq, hopen, rfl⟩

/-! ### (1) undisturbed runs -/

theorem chunksFrom_bytes (n : Nat) (ps : List Pkt) : ((chunksFrom n ps).map (·.2)).flatten = payloadOf ps := by
  induction ps generalizing n with
  | nil => rfl
  | cons p rest ih => simp [chunksFrom, payloadOf, ih]

theorem chunksFrom_getElem (n : Nat) (ps : List Pkt) (i : Nat) :
    (chunksFrom n ps)[i]? = ps[i]?.map (fun p => (n + i, p.payload)) := by
  induction ps generalizing n i with
  | nil => simp [chunksFrom]
  | cons p rest ih =>
    cases i with
    | zero => simp [chunksFrom]
    | succ i => simp [chunksFrom, ih, Nat.add_assoc, Nat.add_comm 1]

/-- (1), sequence numbers modulo 2^32 (the wrap is harmless for in-order delivery): one direction
    of an established connection (open half that expects `isn`, empty queue); for every sequence `ps`
    of non-empty data segments with consecutive sequence numbers starting at `isn` — i.e. for every
    byte string `B = payloadOf ps` and every split of it — feeding `ps` delivers one chunk per
    segment, chunk `i` = payload of `ps[i]` attributed to packet number `npkts + i`, which is `ps[i]`;
    the delivered bytes are exactly `B`; the queue stays empty and `seqAdd isn |B|` is expected next. -/
theorem reasm_inorder_run_wrap (isn : Nat) (ps : List Pkt) (dir : Bool) (st0 : Stream) (h0 : Half)
    (hopen : h0.closed = false) (hnext : h0.nextSeq = some isn) (hq : h0.queue = [])
    (hisn : isn < 4294967296) (hio : InOrder isn ps) :
    let r := feedAll dir (st0, h0) ps
    (r.1.data.map (·.2)).flatten = (st0.data.map (·.2)).flatten ++ payloadOf ps ∧
    r.1.data = st0.data ++ chunksFrom st0.npkts ps ∧
    r.1.pkts = st0.pkts ++ ps.map (fun p => (p.ref, dir)) ∧
    r.1.npkts = st0.npkts + ps.length ∧
    r.2 = { h0 with nextSeq := some (seqAdd isn (payloadOf ps).length) } ∧
    r.2.queue = [] ∧ r.2.closed = false := by
  intro r
  have e : r = _ := feedAll_inorder dir ps st0 h0 isn hopen hnext hq hisn hio
  rw [e]
  refine ⟨?_, ?_, ?_, rfl, rfl, hq, hopen⟩
  · simp [Stream.data, Stream.recordAll, chunksFrom_bytes]
  · simp [Stream.data, Stream.recordAll]
  · simp [Stream.pkts, Stream.recordAll]

/-- (1) as stated: no wrap (`isn + |B| < 2^32`), `ps` any split of `B` into non-empty segments with
    consecutive sequence numbers from `isn`: exactly `B` is delivered, chunk by chunk as sent, the
    queue is empty and `nextSeq = isn + |B|`. -/
theorem reasm_inorder_run (isn : Nat) (B : Bytes) (ps : List Pkt) (dir : Bool) (st0 : Stream) (h0 : Half)
    (hopen : h0.closed = false) (hnext : h0.nextSeq = some isn) (hq : h0.queue = [])
    (hnowrap : isn + B.length < 4294967296) (hsplit : payloadOf ps = B) (hio : InOrder isn ps) :
    let r := feedAll dir (st0, h0) ps
    (r.1.data.map (·.2)).flatten = (st0.data.map (·.2)).flatten ++ B ∧
    r.1.data = st0.data ++ chunksFrom st0.npkts ps ∧
    r.1.pkts = st0.pkts ++ ps.map (fun p => (p.ref, dir)) ∧
    r.1.npkts = st0.npkts + ps.length ∧
    r.2.queue = [] ∧ r.2.nextSeq = some (isn + B.length) ∧ r.2.closed = false := by
  intro r
  obtain ⟨h1, h2, h3, h4, h5, h6, h7⟩ :=
    reasm_inorder_run_wrap isn ps dir st0 h0 hopen hnext hq (by omega) hio
  subst hsplit
  refine ⟨h1, h2, h3, h4, h6, ?_, h7⟩
  show r.2.nextSeq = _
  rw [h5]
  show some (seqAdd isn (payloadOf ps).length) = _
  unfold seqAdd
  rw [Nat.mod_eq_of_lt hnowrap]

/-- attribution in an undisturbed run: the `i`-th new chunk is the payload of `ps[i]` and carries
    the index of the `i`-th new packet, which is `ps[i]` in direction `dir` -/
theorem reasm_inorder_attribution (isn : Nat) (ps : List Pkt) (dir : Bool) (st0 : Stream) (h0 : Half)
    (hopen : h0.closed = false) (hnext : h0.nextSeq = some isn) (hq : h0.queue = [])
    (hisn : isn < 4294967296) (hio : InOrder isn ps) (hst : st0.npkts = st0.pktsRev.length)
    (i : Nat) (hi : i < ps.length) :
    let r := feedAll dir (st0, h0) ps
    r.1.data[st0.data.length + i]? = some (st0.npkts + i, ps[i].payload) ∧
    r.1.pkts[st0.npkts + i]? = some (ps[i].ref, dir) ∧
    r.1.dirOf (st0.npkts + i) = dir := by
  intro r
  obtain ⟨_, h2, h3, h4, _⟩ := reasm_inorder_run_wrap isn ps dir st0 h0 hopen hnext hq hisn hio
  have hlen : st0.pkts.length = st0.npkts := by simp [Stream.pkts, hst]
  have hp : r.1.pkts[st0.npkts + i]? = some (ps[i].ref, dir) := by
    show (feedAll dir (st0, h0) ps).1.pkts[_]? = _
    rw [h3, List.getElem?_append_right (by omega), hlen]
    simp [hi]
  refine ⟨?_, hp, ?_⟩
  · show (feedAll dir (st0, h0) ps).1.data[_]? = _
    rw [h2, List.getElem?_append_right (by omega)]
    simp [chunksFrom_getElem, hi]
  · -- `dirOf` reads the newest-first list
    have hn : r.1.npkts = st0.npkts + ps.length := h4
    have hl : r.1.pktsRev.length = r.1.npkts := by
      have := congrArg List.length h3
      simp [Stream.pkts] at this
      rw [hn, this, ← hst]
    unfold Stream.dirOf
    have hrev : r.1.pktsRev[r.1.npkts - 1 - (st0.npkts + i)]? = r.1.pkts[st0.npkts + i]? := by
      unfold Stream.pkts
      rw [List.getElem?_reverse (by omega)]
      congr 1; omega
    rw [hrev, hp]

/-! ### (3) any data segments of `B`, in any order, any number of times -/

/-- invariant of every run of segments of `B` (arbitrary slices of `B` at their sequence numbers:
    originals, duplicates, overlapping re-segmentations, packets without payload, in any order), whether or not the
    holes get filled: the half stays open and expects `isn + c`, where `B[0..c)` is exactly what has
    been delivered (chunks attributed as in `ChunksOk`); the queue holds slices of `B` strictly beyond
    `c`, ascending and disjoint (`QueueOk`); and no byte that arrived is lost — it is delivered or
    waits in the queue.
    -- ADDED: `SeqLinear isn |B|` instead of only `isn + |B| < 2^32`: gopacket's
    `Sequence.Difference` treats a number in the last quarter of the sequence space and one in the
    first quarter as lying across the wrap, so a stream of more than 2^31 bytes that starts in the
    first quarter is mis-ordered even without a wrap (`retransmit_unprimed_false`). -/
theorem reasm_slices_invariant (isn : Nat) (B : Bytes) (ps : List Pkt) (dir : Bool) (st0 : Stream) (h0 : Half)
    (hopen : h0.closed = false) (hnext : h0.nextSeq = some isn) (hq : h0.queue = [])
    (hlin : SeqLinear isn B.length) (hps : ∀ p ∈ ps, SegPkt isn B p) :
    let r := feedAll dir (st0, h0) ps
    ∃ c chunks, r.2.closed = false ∧ r.2.nextSeq = some (isn + c) ∧ c ≤ B.length ∧
      QueueOk isn B c r.2.queue ∧
      r.1 = Stream.after st0 dir ps chunks ∧ ChunksOk isn B st0.npkts ps c chunks ∧
      (r.1.data.map (·.2)).flatten = (st0.data.map (·.2)).flatten ++ B.take c ∧
      ∀ x, (∃ p ∈ ps, pOff isn p ≤ x ∧ x < pEnd isn p) → x < c ∨ Covered isn r.2.queue x := by
  intro r
  obtain ⟨c, chunks, _, ⟨i1, i2, i3, i4⟩, hst, hch, hcov⟩ := runInv_all hlin dir st0 h0 hopen hnext hq ps hps
  refine ⟨c, chunks, i1, i2, i3, i4, hst, hch, ?_, hcov⟩
  show ((feedAll dir (st0, h0) ps).1.data.map (·.2)).flatten = _
  rw [hst]
  simp only [Stream.data, Stream.after, List.reverse_append, List.map_append, List.flatten_append]
  rw [hch.bytes.1]

/-- (3), general form: if the segments of the run are data segments of `B` and together cover `B`
    (no segment is lost for good: every hole is eventually filled) then, whatever the order, the
    duplication and the overlaps, exactly `B` is delivered, in order, and the queue is empty at the
    end.  (The model has no queue limit, so no bound on the displacement is needed.) -/
theorem reasm_slices_run (isn : Nat) (B : Bytes) (ps : List Pkt) (dir : Bool) (st0 : Stream) (h0 : Half)
    (hopen : h0.closed = false) (hnext : h0.nextSeq = some isn) (hq : h0.queue = [])
    (hlin : SeqLinear isn B.length) -- ADDED (see `reasm_slices_invariant`)
    (hps : ∀ p ∈ ps, SegPkt isn B p) (hcov : Covers isn B ps) :
    Recovered isn B dir st0 h0 ps (feedAll dir (st0, h0) ps) :=
  ⟨runInv_covers hlin dir st0 h0 hopen hnext hq ps hps hcov⟩

/-- (2)+(3) mixed: `orig` is a split of `B` into consecutive non-empty segments from `isn`; `ps`
    consists of packets of `orig`, every one at least once, in any order and multiplicity -/
theorem reasm_reorder_retransmit_run (isn : Nat) (B : Bytes) (orig ps : List Pkt) (dir : Bool) (st0 : Stream) (h0 : Half)
    (hopen : h0.closed = false) (hnext : h0.nextSeq = some isn) (hq : h0.queue = [])
    (hlin : SeqLinear isn B.length) -- ADDED (see `reasm_slices_invariant`)
    (hsplit : payloadOf orig = B) (hio : InOrder isn orig)
    (hsub : ∀ p ∈ ps, p ∈ orig) (hall : ∀ p ∈ orig, p ∈ ps) :
    Recovered isn B dir st0 h0 ps (feedAll dir (st0, h0) ps) := by
  subst hsplit
  obtain ⟨h1, h2⟩ := inorder_data (isn := isn) orig [] (by simpa using hlin) (by simpa using hio)
  simp only [List.nil_append, List.length_nil] at h1 h2
  refine reasm_slices_run isn _ ps dir st0 h0 hopen hnext hq hlin (fun p hm => (h1 p (hsub p hm)).seg) ?_
  intro x hx
  obtain ⟨p, hm, hp⟩ := h2 x (Nat.zero_le _) hx
  exact ⟨p, hall p hm, hp⟩

/-- (3) as stated: the segments of a split of `B` arrive in ANY permuted order (segments ahead of a
    hole wait in the out-of-order queue; none is dropped): exactly `B` is delivered in order, the
    queue is empty at the end -/
theorem reasm_reorder_run (isn : Nat) (B : Bytes) (orig ps : List Pkt) (dir : Bool) (st0 : Stream) (h0 : Half)
    (hopen : h0.closed = false) (hnext : h0.nextSeq = some isn) (hq : h0.queue = [])
    (hlin : SeqLinear isn B.length) -- ADDED (see `reasm_slices_invariant`)
    (hsplit : payloadOf orig = B) (hio : InOrder isn orig) (hperm : ps.Perm orig) :
    Recovered isn B dir st0 h0 ps (feedAll dir (st0, h0) ps) :=
  reasm_reorder_retransmit_run isn B orig ps dir st0 h0 hopen hnext hq hlin hsplit hio
    (fun _ hm => hperm.mem_iff.mp hm) (fun _ hm => hperm.mem_iff.mpr hm)

/-! ### (2) retransmissions -/

/-- (2), general form: in-order data with retransmissions interleaved anywhere — exact
    retransmissions of earlier segments and any re-segmentation that starts in bytes already sent
    (ending before, at or beyond them), i.e. `RetransRun isn B 0 ps`.  Exactly the bytes of `B` up to
    the offset reached are delivered, once, in order; nothing is ever left in the queue. -/
theorem reasm_retransmit_prefix (isn : Nat) (B : Bytes) (ps : List Pkt) (dir : Bool) (st0 : Stream) (h0 : Half)
    (hopen : h0.closed = false) (hnext : h0.nextSeq = some isn) (hq : h0.queue = [])
    (hlin : SeqLinear isn B.length) -- ADDED (see `reasm_slices_invariant`)
    (hrun : RetransRun isn B 0 ps) :
    Recovered isn (B.take (reach isn 0 ps)) dir st0 h0 ps (feedAll dir (st0, h0) ps) := by
  obtain ⟨_, h2, h3⟩ := retransRun_covers ps 0 hrun
  have hle : (B.take (reach isn 0 ps)).length ≤ B.length := by rw [List.length_take]; omega
  refine reasm_slices_run isn _ ps dir st0 h0 hopen hnext hq (hlin.mono hle)
    (fun p hm => (h2 p hm).1.restrict (h2 p hm).2) ?_
  intro x hx
  rw [List.length_take] at hx
  exact h3 x (Nat.zero_le _) (by omega)

/-- (2) as stated: such a run that reaches the end of `B` delivers exactly `B`, once -/
theorem reasm_retransmit_run (isn : Nat) (B : Bytes) (ps : List Pkt) (dir : Bool) (st0 : Stream) (h0 : Half)
    (hopen : h0.closed = false) (hnext : h0.nextSeq = some isn) (hq : h0.queue = [])
    (hlin : SeqLinear isn B.length) -- ADDED (see `reasm_slices_invariant`)
    (hrun : RetransRun isn B 0 ps) (hend : reach isn 0 ps = B.length) :
    Recovered isn B dir st0 h0 ps (feedAll dir (st0, h0) ps) := by
  have := reasm_retransmit_prefix isn B ps dir st0 h0 hopen hnext hq hlin hrun
  rwa [hend, List.take_length] at this

/-- an undisturbed run is a `RetransRun` that reaches the end of its payload; so is every run
    obtained from it by inserting, anywhere, data segments of `B` that start at or before the offset
    reached so far (`RetransRun` is defined by exactly that condition) -/
theorem inorder_is_retransRun (isn : Nat) (ps : List Pkt) (hlin : SeqLinear isn (payloadOf ps).length)
    (hio : InOrder isn ps) : RetransRun isn (payloadOf ps) 0 ps ∧ reach isn 0 ps = (payloadOf ps).length := by
  obtain ⟨h1, _⟩ := inorder_data (isn := isn) ps [] (by simpa using hlin) (by simpa using hio)
  simp only [List.nil_append] at h1
  generalize hB : payloadOf ps = B at h1 hlin
  -- walk along `ps` with the offset reached so far
  have key : ∀ (l : List Pkt) (c : Nat), (∀ p ∈ l, DataPkt isn B p) → c + (payloadOf l).length ≤ B.length →
      InOrder (isn + c) l → RetransRun isn B c l ∧ reach isn c l = c + (payloadOf l).length := by
    intro l
    induction l with
    | nil => intro c _ _ _; simp [RetransRun, reach, payloadOf]
    | cons p rest ih =>
      intro c hd hle ⟨hs, hp, hrest⟩
      have hpl : (payloadOf (p :: rest)).length = p.payload.length + (payloadOf rest).length := by
        simp [payloadOf]
      have ho : pOff isn p = c := by unfold pOff; omega
      have he : pEnd isn p = c + p.payload.length := by unfold pEnd; omega
      have hsa : seqAdd (isn + c) p.payload.length = isn + (c + p.payload.length) := by
        rw [seqAdd_lin hlin (by omega)]; omega
      rw [hsa] at hrest
      obtain ⟨i1, i2⟩ := ih (c + p.payload.length) (fun q hm => hd q (List.mem_cons_of_mem _ hm)) (by omega) hrest
      have hmax : max c (pEnd isn p) = c + p.payload.length := by omega
      refine ⟨⟨(hd p (List.mem_cons_self ..)).seg, by omega, by rw [hmax]; exact i1⟩, ?_⟩
      simp only [reach, hmax, i2, hpl]; omega
  have := key ps 0 h1 (by simp [hB]) (by simpa using hio)
  simpa [hB] using this

/-! ### (4) the whole reassembler on a wire that holds one conversation (partial) -/

/-- the data-phase parameters of a conversation whose SYN is `p0` and whose SYN/ACK is `p1` -/
def convParams (e : Endpoints) (p0 p1 : Pkt) (Bc Bs : Bytes) (t0 : Nat) : ConvParams :=
  ⟨e, seqAdd p0.seq 1, seqAdd p1.seq 1, Bc, Bs, t0⟩

/-- `wire = p0 :: p1 :: body` holds ONE well-formed TCP conversation between the endpoints `e`
    in which the client sends `Bc` and the server `Bs`:
    * `p0` is the SYN (client → server), `p1` the SYN/ACK (server → client), both without payload;
    * every packet of `body` is a segment without SYN/FIN/RST of its direction's byte string, at its
      sequence number (first byte = ISN + 1): the ACK of the handshake and all pure ACKs (empty
      payload), original data segments, retransmissions, overlapping re-segmentations — in ANY order
      and interleaving of the two directions;
    * nothing is lost for good: the segments of each direction cover its byte string;
    * client and server endpoint differ; all packets lie within one inactivity timeout (5 min)
      after `t0`, so that no flush interferes; the sequence numbers of each direction are
      `SeqLinear` (ADDED, see `reasm_slices_invariant`). -/
structure SingleConv (e : Endpoints) (p0 p1 : Pkt) (Bc Bs : Bytes) (t0 : Nat) (body : List Pkt) : Prop where
  distinct : e.Distinct
  syn : IsSyn e p0
  synack : IsSynAck e p1
  t_syn : t0 ≤ p0.ts ∧ p0.ts ≤ t0 + timeout
  t_synack : t0 ≤ p1.ts ∧ p1.ts ≤ t0 + timeout
  linc : SeqLinear (seqAdd p0.seq 1) Bc.length
  lins : SeqLinear (seqAdd p1.seq 1) Bs.length
  segs : ∀ p ∈ body, BodyPkt (convParams e p0 p1 Bc Bs t0) p
  covc : ∀ x, x < Bc.length → ∃ p ∈ body, isC2S e p ∧ pOff (seqAdd p0.seq 1) p ≤ x ∧ x < pEnd (seqAdd p0.seq 1) p
  covs : ∀ x, x < Bs.length → ∃ p ∈ body, isS2C e p ∧ pOff (seqAdd p1.seq 1) p ≤ x ∧ x < pEnd (seqAdd p1.seq 1) p

/-- what the reassembler must produce for such a wire: ONE stream; client/server/ports from the
    SYN; every packet of the wire recorded in wire order with its direction; the chunks of `Data`
    whose packet travels client → server concatenate to exactly `Bc`, those of the other direction
    to exactly `Bs`; the chunks appear in the order in which they were delivered on the wire
    (packet numbers increase), each attributed to a packet of its own direction that carried its
    first byte (`Chunks2`) — so the order of direction changes is that of the wire -/
def SingleConvTruth (e : Endpoints) (p0 p1 : Pkt) (Bc Bs : Bytes) (t0 : Nat) (body : List Pkt)
    (streams : Array Stream) : Prop :=
  ∃ st, streams = #[st] ∧
    st.caddr = e.cip ∧ st.saddr = e.sip ∧ st.cport = e.cport ∧ st.sport = e.sport ∧ st.udp = false ∧
    st.pkts = (p0.ref, false) :: (p1.ref, true) :: body.map (fun p => (p.ref, pdir e p)) ∧
    st.npkts = 2 + body.length ∧
    dirBytes st false = Bc ∧ dirBytes st true = Bs ∧
    ∃ chunks, st.data = chunks.reverse ∧
      Chunks2 (convParams e p0 p1 Bc Bs t0) 2 body Bc.length Bs.length chunks

/-- (4), PARTIAL: `reasm` recovers a single conversation whose handshake is followed by data in both
    directions under arbitrary reordering, duplication, overlap and interleaving.
    MISSING for the full statement: the FIN/RST teardown (the conversation is still open at the end
    of the wire; `closeHalfConnection`, `Complete`), SYN/SYN-ACK that carry data or are
    retransmitted, wires longer than the inactivity timeout (flushes: `skipFlush`, time-outs) and
    several conversations on one wire (connection table, assembler pools). -/
theorem reasm_single_conversation_partial (e : Endpoints) (p0 p1 : Pkt) (Bc Bs : Bytes) (t0 : Nat) (body : List Pkt)
    (h : SingleConv e p0 p1 Bc Bs t0 body) :
    SingleConvTruth e p0 p1 Bc Bs t0 body (reasm (p0 :: p1 :: body)) := by
  obtain ⟨hd, hsyn, hsa, ⟨ts1, ts2⟩, ⟨ta1, ta2⟩, hlc, hls, hbody, hcc, hcs⟩ := h
  obtain ⟨u, hhs⟩ := handshake_state e hd p0 p1 hsyn hsa (by omega)
  have hrun := convInv_run (convParams e p0 p1 Bc Bs t0) (hsStream e p0 p1) hd rfl hlc hls body []
    _ (convInv_init e p0 p1 Bc Bs t0 u ts1) hbody
  have hfold : (p0 :: p1 :: body).foldl reasmPacket {} = body.foldl reasmPacket ([p0, p1].foldl reasmPacket {}) := by
    simp [List.foldl_cons]
  unfold reasm
  rw [hfold, hhs]
  obtain ⟨c, u', cc, cs, chunks, hr, _, hic, his, _, _, _, hch, hcovc, hcovs⟩ := hrun
  simp only [List.nil_append] at hr hch hcovc hcovs
  rw [hr]
  -- everything was delivered
  have hccB : cc = Bc.length := by
    by_cases hlt : cc < Bc.length
    · rcases hcovc cc (hcc cc hlt) with h1 | ⟨pg, hm, h1, _⟩
      · omega
      · have := (hic.q.1 pg hm).2; omega
    · have : cc ≤ Bc.length := hic.le
      omega
  have hcsB : cs = Bs.length := by
    by_cases hlt : cs < Bs.length
    · rcases hcovs cs (hcs cs hlt) with h1 | ⟨pg, hm, h1, _⟩
      · omega
      · have := (his.q.1 pg hm).2; omega
    · have : cs ≤ Bs.length := his.le
      omega
  subst hccB hcsB
  have hb := chunks2_bytes hd (convStream (convParams e p0 p1 Bc Bs t0) (hsStream e p0 p1) body chunks).dirOf
    (fun k p hk => convStream_dirOf _ _ body chunks k p hk) hch
  refine ⟨_, rfl, rfl, rfl, rfl, rfl, rfl, ?_, ?_, ?_, ?_, chunks, ?_, hch⟩
  · simp [Stream.pkts, convStream, hsStream, convParams]
  · simp [convStream, hsStream, Nat.add_comm]
  · have hb1 : _ = Bc.take Bc.length := hb.1
    rw [List.take_length] at hb1
    simpa only [dirBytes, Stream.data, convStream, hsStream, List.append_nil] using hb1
  · have hb2 : _ = Bs.take Bs.length := hb.2
    rw [List.take_length] at hb2
    simpa only [dirBytes, Stream.data, convStream, hsStream, List.append_nil] using hb2
  · simp [Stream.data, convStream, hsStream]

/-- (4) as an instance of `ReasmRecovers` (Pk/Props/C05.lean) for single-conversation wires -/
theorem reasmRecovers_single_conversation_partial :
    Pk.Props.C05.ReasmRecovers reasm
      (fun wire => ∃ e p0 p1 Bc Bs t0 body, wire = p0 :: p1 :: body ∧ SingleConv e p0 p1 Bc Bs t0 body)
      (fun wire streams => ∀ e p0 p1 Bc Bs t0 body, wire = p0 :: p1 :: body → SingleConv e p0 p1 Bc Bs t0 body →
        SingleConvTruth e p0 p1 Bc Bs t0 body streams) := by
  intro wire _ e p0 p1 Bc Bs t0 body hw hc
  subst hw
  exact reasm_single_conversation_partial e p0 p1 Bc Bs t0 body hc

/-! ### why `SeqLinear` was added -/

/-- a data packet of the examples: client → server, packet number `k` of capture "a" -/
def exPkt (k seq : Nat) (pl : Bytes) : Pkt :=
  { ts := 1000000 + k, file := "a", idx := k, udp := false, src := "c", dst := "s", sport := 40000, dport := 80,
    ack := true, seq := seq, payload := pl }

theorem slice_replicate (n a b : Nat) (h : b ≤ n) : slice (List.replicate n (0 : UInt8)) a b = List.replicate (b - a) 0 := by
  unfold slice
  rw [List.drop_replicate, List.take_replicate]
  congr 1; omega

/-- the run behind `retransmit_unprimed_false`, for every length in the critical range -/
theorem bigRun (n : Nat) (h1 : 3221225472 ≤ n) (h2 : n + 1 < 4294967295) (dir : Bool) (st0 : Stream) (h0 : Half)
    (hopen : h0.closed = false) (hnext : h0.nextSeq = some 0) (hq : h0.queue = []) :
    let B : Bytes := List.replicate (n + 1) 0
    let ps := [exPkt 0 0 [0], exPkt 1 1 (List.replicate n 0), exPkt 2 0 [0]]
    RetransRun 0 B 0 ps ∧ reach 0 0 ps = B.length ∧ (feedAll dir (st0, h0) ps).2.queue ≠ [] := by
  intro B ps
  have hn : List.replicate n (0 : UInt8) ≠ [] := by
    intro h; have := congrArg List.length h; simp at this; omega
  have d1 : DataPkt 0 B (exPkt 0 0 [0]) := by
    refine ⟨⟨rfl, rfl, rfl, by simp [exPkt]⟩, Nat.zero_le _, ?_, ?_⟩
    · simp [pEnd, exPkt, B]
    · show [0] = slice (List.replicate (n + 1) 0) (0 - 0) (0 - 0 + 1)
      rw [slice_replicate _ _ _ (by omega)]; rfl
  have d2 : DataPkt 0 B (exPkt 1 1 (List.replicate n 0)) := by
    refine ⟨⟨rfl, rfl, rfl, hn⟩, Nat.zero_le _, ?_, ?_⟩
    · simp [pEnd, exPkt, B]; omega
    · show List.replicate n 0 = slice (List.replicate (n + 1) 0) (1 - 0) (1 - 0 + (List.replicate n (0 : UInt8)).length)
      rw [List.length_replicate, slice_replicate _ _ _ (by omega)]
      congr 1; omega
  have e1 : pEnd 0 (exPkt 0 0 [0]) = 1 := rfl
  have e2 : pEnd 0 (exPkt 1 1 (List.replicate n 0)) = n + 1 := by simp [pEnd, exPkt]; omega
  have o1 : pOff 0 (exPkt 0 0 [0]) = 0 := rfl
  have o2 : pOff 0 (exPkt 1 1 (List.replicate n 0)) = 1 := rfl
  refine ⟨?_, ?_, ?_⟩
  · refine ⟨d1.seg, by omega, d2.seg, ?_, (show DataPkt 0 B (exPkt 2 0 [0]) from d1).seg, ?_, trivial⟩
    · rw [o2, e1]; omega
    · show pOff 0 (exPkt 2 0 [0]) ≤ _
      have : pOff 0 (exPkt 2 0 [0]) = 0 := rfl
      omega
  · have e3 : pEnd 0 (exPkt 2 0 [0]) = 1 := rfl
    simp only [reach, ps, e1, e2, e3, B, List.length_replicate]; omega
  · have hio : InOrder 0 [exPkt 0 0 [0], exPkt 1 1 (List.replicate n 0)] :=
      ⟨rfl, ⟨rfl, rfl, rfl, by simp [exPkt]⟩, rfl, ⟨rfl, rfl, rfl, hn⟩, trivial⟩
    have hrun := feedAll_inorder dir [exPkt 0 0 [0], exPkt 1 1 (List.replicate n 0)] st0 h0 0 hopen hnext hq (by omega) hio
    have hsplit : ps = [exPkt 0 0 [0], exPkt 1 1 (List.replicate n 0)] ++ [exPkt 2 0 [0]] := rfl
    rw [hsplit, feedAll_snoc, hrun]
    have hlen : (payloadOf [exPkt 0 0 [0], exPkt 1 1 (List.replicate n 0)]).length = n + 1 := by
      simp [payloadOf, exPkt]
    have hsa : seqAdd 0 (n + 1) = n + 1 := by unfold seqAdd; omega
    rw [hlen, hsa]
    have hd : seqDiff (n + 1) 0 > 0 := by
      unfold seqDiff
      have hM : uint32Max = 4294967295 := rfl
      rw [if_pos (by omega)]; omega
    simp [feed, assembleHalf, hopen, hq, exPkt, hd, checkOverlap, overlapWalk]

/-- COUNTEREXAMPLE for the statement of (2)/(3) with the hypothesis "no wrap" (`isn + |B| < 2^32`)
    only: `isn = 0`, `B` = 3 300 000 001 zero bytes sent as `[0]`, then the rest; when the first
    segment is retransmitted at the end, `Sequence.Difference 3300000001 0` applies the wrap
    correction, the old segment counts as "ahead" and is queued: the queue is not empty at the end
    (and those bytes would be delivered again after a flush).  Hence the ADDED hypothesis
    `SeqLinear`. -/
theorem retransmit_unprimed_false :
    ¬ (∀ (isn : Nat) (B : Bytes) (ps : List Pkt) (dir : Bool) (st0 : Stream) (h0 : Half),
        h0.closed = false → h0.nextSeq = some isn → h0.queue = [] → isn + B.length < 4294967296 →
        RetransRun isn B 0 ps → reach isn 0 ps = B.length →
        (feedAll dir (st0, h0) ps).2.queue = []) := by
  intro H
  obtain ⟨r1, r2, r3⟩ := bigRun 3300000000 (by omega) (by omega) false
    { caddr := "c", saddr := "s", cport := 40000, sport := 80, udp := false } { nextSeq := some 0 } rfl rfl rfl
  exact r3 (H 0 _ _ false _ _ rfl rfl rfl (by rw [List.length_replicate]; omega) r1 r2)

/-! ### non-vacuity: concrete byte strings, segmentations and disturbances, evaluated on the model -/

def exSt : Stream := { caddr := "c", saddr := "s", cport := 40000, sport := 80, udp := false }
def exB : Bytes := [1, 2, 3, 4, 5, 6]

/-- across the wrap, in order -/
example :
    let ps := [exPkt 0 4294967294 [1, 2], exPkt 1 0 [3, 4, 5], exPkt 2 3 [6]]
    InOrder 4294967294 ps ∧ payloadOf ps = exB ∧
    (feedAll false (exSt, { nextSeq := some 4294967294 }) ps).1.data = [(0, [1, 2]), (1, [3, 4, 5]), (2, [6])] ∧
    (feedAll false (exSt, { nextSeq := some 4294967294 }) ps).2.nextSeq = some 4 := by decide

/-- retransmissions -/
example :
    let ps := [exPkt 0 1000 [1, 2], exPkt 1 1000 [1, 2], exPkt 2 1002 [3, 4, 5], exPkt 3 1001 [2, 3, 4, 5, 6],
               exPkt 4 1002 [3, 4, 5]]
    SeqLinear 1000 exB.length ∧ RetransRun 1000 exB 0 ps ∧ reach 1000 0 ps = exB.length ∧
    (feedAll false (exSt, { nextSeq := some 1000 }) ps).1.data = [(0, [1, 2]), (2, [3, 4, 5]), (3, [6])] ∧
    (feedAll false (exSt, { nextSeq := some 1000 }) ps).2.queue = [] := by decide

/-- reordering -/
example :
    let orig := [exPkt 0 1000 [1, 2], exPkt 1 1002 [3, 4, 5], exPkt 2 1005 [6]]
    let ps := [exPkt 2 1005 [6], exPkt 1 1002 [3, 4, 5], exPkt 0 1000 [1, 2]]
    InOrder 1000 orig ∧ payloadOf orig = exB ∧ ps.Perm orig ∧
    (feedAll false (exSt, { nextSeq := some 1000 }) (ps.take 2)).2.queue.length = 2 ∧
    (feedAll false (exSt, { nextSeq := some 1000 }) ps).1.data = [(2, [1, 2, 3, 4, 5, 6])] ∧
    (feedAll false (exSt, { nextSeq := some 1000 }) ps).2.queue = [] := by decide

/-- overlapping slices out of order -/
example :
    let ps := [exPkt 0 1003 [4, 5], exPkt 1 1001 [2, 3, 4], exPkt 2 1004 [5, 6], exPkt 3 1000 [1, 2]]
    (∀ p ∈ ps, DataPkt 1000 exB p) ∧ (∀ x, x < exB.length → ∃ p ∈ ps, pOff 1000 p ≤ x ∧ x < pEnd 1000 p) ∧
    (feedAll false (exSt, { nextSeq := some 1000 }) ps).1.data = [(3, [1, 2, 3, 4, 5, 6])] ∧
    (feedAll false (exSt, { nextSeq := some 1000 }) ps).2.queue = [] := by decide

/-! non-vacuity of (4) -/

def exE : Endpoints := ⟨"c", "s", 40000, 80⟩
def exBody : List Pkt :=
  [Pk.Props.C05.f32Pkt 2 true false true 1000 [], Pk.Props.C05.f32Pkt 3 true false true 1002 [3, 4], Pk.Props.C05.f32Pkt 4 false false true 5000 [9, 8],
   Pk.Props.C05.f32Pkt 5 true false true 1000 [1, 2], Pk.Props.C05.f32Pkt 6 false false true 5002 [], Pk.Props.C05.f32Pkt 7 false false true 5001 [8, 7],
   Pk.Props.C05.f32Pkt 8 true false true 1000 [1, 2]]

/-- handshake, data in both directions with a reordered, an overlapping and a retransmitted segment
    and pure ACKs: the hypotheses of `reasm_single_conversation_partial` hold, and the model yields … -/
example :
    SingleConv exE (Pk.Props.C05.f32Pkt 0 true true false 999 []) (Pk.Props.C05.f32Pkt 1 false true true 4999 []) [1, 2, 3, 4] [9, 8, 7]
      1000000 exBody :=
  ⟨by decide, by decide, by decide, by decide, by decide, by decide, by decide, by decide, by decide, by decide⟩

example :
    (reasm (Pk.Props.C05.f32Pkt 0 true true false 999 [] :: Pk.Props.C05.f32Pkt 1 false true true 4999 [] :: exBody))[0]!.data =
      [(4, [9, 8]), (5, [1, 2, 3, 4]), (7, [7])] := by decide

end Pk.Props.C05Reasm
