/-
  Line-protocol driver shared by C01 and C07: a register machine over the index-file model
  (core Lean only).  One op per line, one output line per op; the texts are identical to
  /verif/harness/lib/idx (machine.go, file.go).

    new                       fresh writer
    add <json stream>         Writer.AddStream            -> added=.. hg=[bytes/size,..] ni= np= ns= ref=
    fin R                     Finalize + NewReader into register R
    dig R | dump R            strict stream: sections of the file (hashed / readable)
    ids R | all R             StreamIDs/Min/Max, AllStreams
    obs R ID                  StreamByID + every stream accessor
    src R INDEX FILE          StreamByFirstPacketSource
    merge D R1,R2,..          index.Merge (oldest first) into registers D, D+1, ..
    eqv R1,.. R1',..          view of the first stack (count, hash) and whether the second is equal
    close R
-/
import Lean.Data.Json
import Pk.Model.Merge
import Pk.Driver.Util

namespace Pk.Driver.Index
open Pk Pk.Bytes Pk.Index Pk.Driver Lean

structure St where
  w : Option Writer := none
  regs : List (Nat × Reader) := []

def hex2 (b : UInt8) : String :=
  let n := b.toNat
  (hexDigit (n / 16)).toString ++ (hexDigit (n % 16)).toString

def hexBytes (bs : Bytes) : String := String.join (bs.map hex2)

def unhex (s : String) : Option Bytes :=
  let rec go : List Char → Option Bytes
    | [] => some []
    | [_] => none
    | a :: b :: rest =>
      match parseHex? a.toString, parseHex? b.toString, go rest with
      | some x, some y, some r => some (UInt8.ofNat (x * 16 + y) :: r)
      | _, _, _ => none
  go s.toList

def asciiString (b : Bytes) : String := String.mk (b.map fun c => Char.ofNat c.toNat)

def genBytes (n g : Nat) : Bytes :=
  (List.range n).map fun i => UInt8.ofNat ((g + i * 131 + (i / 256) * 7) % 256)

def fnvStr (h : UInt64) (s : String) : UInt64 :=
  s.toUTF8.foldl (fun h b => (h ^^^ b.toUInt64) * 0x100000001b3) h

def hx (h : UInt64) : String := hexNat h.toNat

/-! ### JSON input -/

def optNat (j : Json) (k : String) : Nat :=
  match j.getObjVal? k with
  | .ok v => (v.getNat?.toOption).getD 0
  | .error _ => 0

def parseStream (js : String) : Option StreamIn := do
  let j ← (Json.parse js).toOption
  let id ← (j.getObjValAs? Nat "id").toOption
  let c ← unhex (← (j.getObjValAs? String "c").toOption)
  let s ← unhex (← (j.getObjValAs? String "s").toOption)
  let ps ← ((j.getObjVal? "p").toOption >>= fun v => v.getArr?.toOption)
  let packets ← ps.toList.mapM fun p => do
    let t ← (p.getObjVal? "t").toOption >>= fun v => v.getInt?.toOption
    let rs ← (p.getObjVal? "r").toOption >>= fun v => v.getArr?.toOption
    let refs ← rs.toList.mapM fun r => do
      let f ← (r.getObjValAs? String "f").toOption
      let i ← (r.getObjValAs? Nat "i").toOption
      pure ({ file := f.toUTF8.toList, index := i } : SrcRef)
    if refs.isEmpty then none
    pure ({ ts := t, dir := optNat p "d", refs } : PacketIn)
  if packets.isEmpty then none
  let ds := match j.getObjVal? "d" with
    | .ok (Json.arr a) => a.toList
    | _ => []
  let data ← ds.mapM fun d => do
    let k := optNat d "k"
    if k ≥ packets.length then none
    let bytes ← match d.getObjValAs? String "h" with
      | .ok h => unhex h
      | .error _ => some (genBytes (optNat d "n") (optNat d "g"))
    pure ({ pos := k, bytes } : ChunkIn)
  pure { id, client := c, server := s, cport := optNat j "cp", sport := optNat j "sp", flags := optNat j "fl", packets, data }

/-! ### canonical texts -/

def joinWith (sep : String) (xs : List String) : String := sep.intercalate xs

def secHash (b : Bytes) : String := s!"{b.length}:{hx (fnv fnvInit b)}"

def lookupHash (r : Reader) (k : Nat) (lk : List Nat) : UInt64 :=
  let streams := r.f.streams.toArray
  lk.foldl (fun h si =>
    match streams[si]? with
    | none => fnv h "!".toUTF8.toList
    | some s =>
      match k with
      | 0 => fnv h (le 8 s.id)
      | 1 =>
        match r.f.packets[s.pstart]? with
        | none => fnv h "!".toUTF8.toList
        | some p =>
          match r.imports[p.imp]? with
          | none => fnv h "!".toUTF8.toList
          | some im => fnv (fnv (fnv h im.1) [0]) (le 8 ((im.2 + p.idx) % 2 ^ 64))
      | 2 => fnv h (le 8 s.first)
      | _ => fnv h (le 8 s.last)) fnvInit

def digest (r : Reader) : String :=
  let f := r.f
  let secs := joinWith "," (f.secs.map fun (b, e) => s!"{b}-{e}")
  let imports := joinWith "," (r.imports.map fun (n, o) => s!"{asciiString n}@{o}")
  let hg := joinWith "," (f.hostGroups.map fun g => s!"{g.start}/{g.count}/{g.flags}")
  s!"ref={f.ref} size={f.layout.2} secs=[{secs}] data={secHash f.data} imports=[{imports}] " ++
  s!"packets={secHash (f.packets.map PacketRec.enc).flatten} v4={secHash f.v4} v6={secHash f.v6} hg=[{hg}] " ++
  s!"streams={secHash (f.streams.map StreamRec.enc).flatten} lkid={hx (lookupHash r 0 f.lkId)} lksrc={hx (lookupHash r 1 f.lkSrc)} " ++
  s!"lkft={hx (lookupHash r 2 f.lkFt)} lklt={hx (lookupHash r 3 f.lkLt)}"

def dump (r : Reader) : String :=
  let f := r.f
  let streams := joinWith "," (f.streams.map fun s =>
    s!"{s.id}/{s.first}/{s.last}/{s.dataStart}/{s.cb}/{s.sb}/{s.pstart}/{s.flags}/{s.hg}/{s.ch}/{s.sh}/{s.cp}/{s.sp}")
  let packets := joinWith "," (f.packets.map fun p => s!"{p.rel}/{p.imp}/{p.idx}/{p.size}/{p.skip}/{p.flags}")
  let key (k : Nat) (si : Nat) : String :=
    match f.streams[si]? with
    | none => "!"
    | some s =>
      match k with
      | 0 => toString s.id
      | 1 =>
        match f.packets[s.pstart]? with
        | none => "!"
        | some p => match r.imports[p.imp]? with
          | none => "!"
          | some im => s!"{asciiString im.1}/{(im.2 + p.idx) % 2 ^ 64}"
      | 2 => toString s.first
      | _ => toString s.last
  let lk (k : Nat) (l : List Nat) := joinWith "," (l.map (key k))
  s!"streams=[{streams}] packets=[{packets}] v4={hexBytes f.v4} v6={hexBytes f.v6} lkid=[{lk 0 f.lkId}] lksrc=[{lk 1 f.lkSrc}] " ++
  s!"lkft=[{lk 2 f.lkFt}] lklt=[{lk 3 f.lkLt}]"

/-- canonical text of a stream view (the `obs` line without `found`/`idx`); `none` = panic -/
def viewText (v : StreamView) : Option String :=
  let pk : Option String := match v.packets with
    | .error .panic => none
    | .error .err => some "pk=err"
    | .ok ps => some (s!"pk={ps.length}:[" ++ joinWith ";" (ps.map fun p => s!"{asciiString p.file}/{p.index}/{p.dir}/{p.ts}") ++ "]")
  let dt : Option String := match v.data with
    | .error .panic => none
    | .error .err => some "data=err"
    | .ok ds => some (s!"data={ds.length}:[" ++
        joinWith ";" (ds.map fun d => s!"{d.dir}/{d.content.length}/{hx (fnv fnvInit d.content)}/{d.ts}") ++ "]")
  match pk, dt with
  | some pk, some dt =>
    some (s!"c={hexBytes v.client}:{v.cport} s={hexBytes v.server}:{v.sport} proto={v.proto} first={v.first} last={v.last} " ++
          s!"cb={v.cb} sb={v.sb} {pk} {dt}")
  | _, _ => none

def obsText (r : Reader) (s : StreamRec) : Option String := (r.view s) >>= viewText

/-- sorted distinct ids -/
def distinctIds (r : Reader) : List Nat :=
  let sorted := (r.f.streams.map (·.id)).mergeSort (fun a b => a ≤ b)
  sorted.foldr (fun x acc => match acc with | y :: _ => if x = y then acc else x :: acc | [] => [x]) []

def opIds (r : Reader) : String :=
  let ids := distinctIds r
  let h := ids.foldl (fun h id => fnv (fnv h (le 8 id)) (le 8 ((idIndex r.f.streams id).getD 0))) fnvInit
  s!"n={ids.length} min={r.idMin} max={r.idMax} h={hx h}"

def opAll (r : Reader) : String :=
  let h := r.f.streams.foldl (fun h s => fnv h (le 8 s.id)) fnvInit
  s!"n={r.f.streams.length} h={hx h}"

def stackIds (stack : List Reader) : List Nat :=
  let all := (stack.map fun r => r.f.streams.map (·.id)).flatten.mergeSort (fun a b => a ≤ b)
  all.foldr (fun x acc => match acc with | y :: _ => if x = y then acc else x :: acc | [] => [x]) []

def stackTexts (stack : List Reader) : List (Nat × String) :=
  (stackIds stack).map fun id =>
    match stackLookup stack id with
    | some (r, _, s) => (id, (obsText r s).getD "panic")
    | none => (id, "err")

def viewHash (ts : List (Nat × String)) : UInt64 :=
  ts.foldl (fun h (id, t) => fnvStr (fnvStr (fnvStr (fnvStr h (toString id)) " ") t) "\n") fnvInit

/-! ### the machine -/

def getReg (st : St) (s : String) : Option Reader :=
  match s.toNat? with
  | some n => (st.regs.find? (fun e => e.1 == n)).map (·.2)
  | none => none

def setReg (st : St) (n : Nat) (r : Reader) : St :=
  { st with regs := (n, r) :: st.regs.filter (fun e => e.1 != n) }

def delReg (st : St) (n : Nat) : St := { st with regs := st.regs.filter (fun e => e.1 != n) }

def regList (st : St) (s : String) : Option (List Reader) :=
  if s == "-" then some [] else (s.splitOn ",").mapM (getReg st)

def failText : Fail → String
  | .err => "err"
  | .panic => "panic"

def step (st : St) (line : String) : St × String :=
  let bad := (st, "bad-op")
  let (op, rest) := match line.splitOn " " with
    | [] => ("", "")
    | o :: r => (o, " ".intercalate r)
  match op with
  | "new" => ({ st with w := some {} }, "ok")
  | "add" =>
    match st.w, parseStream rest with
    | some w, some s =>
      match w.addStream s with
      | .error e => (st, failText e)
      | .ok (w', ok) =>
        let hg := joinWith "," (w'.hostGroups.map fun g => s!"{g.hosts.length}/{g.hostSize}")
        ({ st with w := some w' },
         s!"added={if ok then 1 else 0} hg=[{hg}] ni={w'.imports.length} np={w'.packets.length} ns={w'.streams.length} ref={w'.ref}")
    | _, _ => bad
  | "fin" =>
    match st.w, rest.toNat? with
    | some w, some n =>
      if w.streams.isEmpty then bad else
      match newReader w.finalize with
      | .error e => ({ st with w := none }, failText e)
      | .ok r => (setReg { st with w := none } n r, "ok")
    | _, _ => bad
  | "close" =>
    match rest.toNat? with
    | some n => if (st.regs.find? (fun e => e.1 == n)).isSome then (delReg st n, "ok") else bad
    | none => bad
  | "dig" => match getReg st rest with | some r => (st, digest r) | none => bad
  | "dump" => match getReg st rest with | some r => (st, dump r) | none => bad
  | "ids" => match getReg st rest with | some r => (st, opIds r) | none => bad
  | "all" => match getReg st rest with | some r => (st, opAll r) | none => bad
  | "obs" =>
    match words rest with
    | [rs, ids] =>
      match getReg st rs, ids.toNat? with
      | some r, some id =>
        if id ≥ 2 ^ 64 then bad else
        match r.streamByID id with
        | none => (st, "found=0")
        | some (i, s) =>
          match obsText r s with
          | none => (st, "panic")
          | some t => (st, s!"found=1 idx={i} {t}")
      | _, _ => bad
    | _ => bad
  | "src" =>
    match words rest with
    | [rs, idx, file] =>
      match getReg st rs, idx.toNat? with
      | some r, some idx =>
        if idx ≥ 2 ^ 64 then bad else
        match r.streamBySource file.toUTF8.toList idx with
        | none => (st, "found=0")
        | some (_, s) => (st, s!"found=1 id={s.id}")
      | _, _ => bad
    | _ => bad
  | "merge" =>
    match words rest with
    | [ds, rs] =>
      match ds.toNat?, regList st rs with
      | some d, some stack =>
        if stack.isEmpty then bad else
        match merge stack with
        | .error e => (st, failText e)
        | .ok outs =>
          let st' := (outs.zipIdx).foldl (fun st (r, i) => setReg st (d + i) r) st
          (st', s!"n={outs.length}")
      | _, _ => bad
    | _ => bad
  | "eqv" =>
    match words rest with
    | [a, b] =>
      match regList st a, regList st b with
      | some sa, some sb =>
        let ta := stackTexts sa
        let tb := stackTexts sb
        (st, s!"n={ta.length} h={hx (viewHash ta)} eq={if ta == tb then 1 else 0}")
      | _, _ => bad
    | _ => bad
  | _ => bad

def main : IO Unit := runLines ({} : St) step

end Pk.Driver.Index
