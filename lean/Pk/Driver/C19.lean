/-
  Line-protocol driver for property C19 (file endpoints).  Byte strings travel as hex
  (`-` = empty string).  One op per line, one output line per op:

    facts upGuard=B upCreate=B upExcl=B upTrunc=B upRemove=B upImports=N downGuard=B   → ok
    reset V            fresh world; V = directory-flag variant 0..5 (see `variant`)          → ok
    base H | clean H | join H H ...                                                          → H
    seed H B           a complete capture named H (body id B) is already stored              → ok
    mkdir H            a directory named H exists in the capture directory                   → ok
    req M P R B F      request: method M, r.URL.Path P, r.URL.RawPath R, body id B,
                       F = `-` or number of bytes after which reading the body fails
        → up param=H code=N new=(H|-) q=(H,H..|-)     reached the upload handler
        → down param=H code=N body=(B|B:K|-)          reached the capture download handler
        → other                                       anything else (not modelled)
    wire M T P R B     the same request sent as request-target T over TCP through net/http's server
                       (harness only; the model treats it as `req M P R B -`)
    race P R B1 B2     two concurrent POSTs of the same target, bodies B1 B2; every interleaving
                       of their atomic steps is explored
        → race param=H outcomes=O|O..   O = codes:stored:queued   (sorted, distinct)
        → other
    ls                 → entries of the capture directory `H=B[:K]` / `H=dir`, sorted by the harness
                         convention (byte order of the hex), then ` q=<queue length>`
-/
import Pk.Model.Path
import Pk.Model.Upload
import Pk.Driver.Util

namespace Pk.Driver.C19
open Pk.Path Pk.Upload Pk.Driver

def hex2 (n : Nat) : String := (hexDigit (n / 16)).toString ++ (hexDigit (n % 16)).toString

def encHex (p : P) : String :=
  if p.isEmpty then "-" else String.join (p.map fun c => hex2 (c.toNat % 256))

def hexVal (c : Char) : Option Nat :=
  if '0' ≤ c ∧ c ≤ '9' then some (c.toNat - 48)
  else if 'a' ≤ c ∧ c ≤ 'f' then some (c.toNat - 87)
  else none

def decPairs : List Char → Option P
  | [] => some []
  | [_] => none
  | a :: b :: t =>
    match hexVal a, hexVal b, decPairs t with
    | some x, some y, some r => some (Char.ofNat (x * 16 + y) :: r)
    | _, _, _ => none

def decHex (s : String) : Option P :=
  if s = "-" then some [] else decPairs s.toList

structure St where
  facts : Facts := Facts.expected
  baseDir : P := "/R/base".toList
  pcapDir : P := "pcaps".toList
  world : World := ⟨[], []⟩
  nextId : Nat := 1

def St.cfg (s : St) : Cfg := ⟨s.facts, s.baseDir, s.pcapDir⟩

/-- the directory-flag variants the harness can run the router under (`/R` = its scratch root) -/
def variant (v : Nat) : P × P :=
  match v with
  | 1 => ("/R/base/".toList, "pcaps/".toList)
  | 2 => ("/R/base".toList, "./sub/../pcaps".toList)
  | 3 => ("/R/base/pcaps".toList, [])
  | 4 => ([], "/R/base/pcaps".toList)
  | 5 => ("..".toList, "pcaps".toList)
  | _ => ("/R/base".toList, "pcaps".toList)

/-- name of `full` relative to the capture directory, `ESC:` + whole path if it is not a direct child -/
def relName (c : Cfg) (full : P) : String :=
  let n := base full
  if child c.captureDir n = full ∧ '/' ∉ n then encHex n else "ESC:" ++ encHex full

def kv (s : String) : Option (String × String) :=
  match s.splitOn "=" with
  | [k, v] => some (k, v)
  | _ => none

def parseFacts (ws : List String) : Option Facts := do
  let kvs ← ws.mapM kv
  let b (k : String) : Option Bool := (kvs.lookup k).bind fun v => if v = "1" then some true else if v = "0" then some false else none
  let n (k : String) : Option Nat := (kvs.lookup k).bind String.toNat?
  some { upGuard := ← b "upGuard", upCreate := ← b "upCreate", upExcl := ← b "upExcl", upTrunc := ← b "upTrunc",
         upRemoveOnCopyFail := ← b "upRemove", upImports := ← n "upImports", downGuard := ← b "downGuard" }

def showFile (f : File) : String :=
  match f.upto with
  | none => toString f.body
  | some k => s!"{f.body}:{k}"

def commaHex (l : List P) : String := if l.isEmpty then "-" else ",".intercalate (l.map encHex)

def optNat (s : String) : Option (Option Nat) :=
  if s = "-" then some none else s.toNat?.map some

/-- outcome descriptor of a finished two-request system -/
def raceOutcome (c : Cfg) (w0 : World) (full : P) (s : Sys) : String :=
  let codes := (s.reqs.map (·.code))
  let codesSorted := if codes = [500, 200] then [200, 500] else codes
  let cs := ",".intercalate (codesSorted.map toString)
  let winners := s.reqs.filter (·.code = 200)
  let stored :=
    if s.world.disk.lookup full = w0.disk.lookup full then
      (if (w0.disk.lookup full).isNone then "none" else "same")
    else match s.world.disk.lookup full with
      | none => "none"
      | some .dir => "x"
      | some (.file f) =>
        if f.upto.isNone ∧ winners.any (fun r => r.body = f.body ∧ r.id = f.owner) then "w" else "x"
  let _ := c
  s!"{cs}:{stored}:{s.world.queue.length - w0.queue.length}"

def insertSorted (x : String) : List String → List String
  | [] => [x]
  | y :: t => if x < y then x :: y :: t else if x = y then y :: t else y :: insertSorted x t

def stepCore (st : St) (line : String) : St × String :=
  let bad := (st, "bad-op")
  match words line with
  | "facts" :: ws =>
    match parseFacts ws with
    | some f => ({ st with facts := f }, "ok")
    | none => bad
  | ["reset", v] =>
    match v.toNat? with
    | some v => let (b, p) := variant v; ({ st with baseDir := b, pcapDir := p, world := ⟨[], []⟩, nextId := 1 }, "ok")
    | none => bad
  | ["base", h] => match decHex h with
    | some p => (st, encHex (base p)) | none => bad
  | ["clean", h] => match decHex h with
    | some p => (st, encHex (clean p)) | none => bad
  | "join" :: hs => match hs.mapM decHex with
    | some ps => (st, encHex (join ps)) | none => bad
  | ["seed", h, b] =>
    match decHex h, b.toNat? with
    | some n, some b =>
      let full := child st.cfg.captureDir n
      ({ st with world := { st.world with disk := st.world.disk.insert full (.file ⟨b, none, 0⟩) } }, "ok")
    | _, _ => bad
  | ["mkdir", h] =>
    match decHex h with
    | some n =>
      let full := child st.cfg.captureDir n
      ({ st with world := { st.world with disk := st.world.disk.insert full .dir } }, "ok")
    | none => bad
  | ["req", m, p, r, b, f] =>
    match decHex p, decHex r, b.toNat?, optNat f with
    | some p, some r, some b, some f =>
      let rp := routePath p r
      let c := st.cfg
      if m = "POST" then
        match uploadParam rp with
        | some n =>
          let rq : Req := { id := st.nextId, param := n, body := b, failAt := f }
          let (w', rq') := runReq c st.world rq
          let full := c.full n
          let created := match w'.disk.lookup full with
            | some (.file fl) => if fl.owner = rq.id then relName c full else "-"
            | _ => "-"
          ({ st with world := w', nextId := st.nextId + 1 },
           s!"up param={encHex n} code={rq'.code} new={created} q={commaHex (w'.queue.drop st.world.queue.length)}")
        | none => (st, "other")
      else if m = "GET" then
        match downloadParam rp with
        | some n =>
          let (_, res) := download c st.world.disk p n
          let out := match res with
            | .code k => s!"code={k} body=-"
            | .served fl => s!"code=200 body={showFile fl}"
          (st, s!"down param={encHex n} {out}")
        | none => (st, "other")
      else (st, "other")
    | _, _, _, _ => bad
  | ["race", p, r, b1, b2] =>
    match decHex p, decHex r, b1.toNat?, b2.toNat? with
    | some p, some r, some b1, some b2 =>
      let rp := routePath p r
      let c := st.cfg
      match uploadParam rp with
      | some n =>
        let full := c.full n
        let r1 : Req := { id := st.nextId, param := n, body := b1, failAt := none }
        let r2 : Req := { id := st.nextId + 1, param := n, body := b2, failAt := none }
        let s0 : Sys := ⟨st.world, [r1, r2]⟩
        let finals := (interleavings 4 4).map (Sys.run c s0)
        let outs := finals.foldl (fun acc s => insertSorted (raceOutcome c st.world full s) acc) []
        -- the state continues from the first schedule's final world (all of them agree up to the
        -- winner's identity when the outcome set is a singleton; the harness re-seeds after a race)
        ({ st with nextId := st.nextId + 2 }, s!"race param={encHex n} outcomes={"|".intercalate outs}")
      | none => (st, "other")
    | _, _, _, _ => bad
  | ["ls"] =>
    let c := st.cfg
    let ents := st.world.disk.map fun (k, e) =>
      relName c k ++ "=" ++ (match e with | .dir => "dir" | .file f => showFile f)
    let sorted := ents.foldl (fun acc s => insertSorted s acc) []
    (st, (if sorted.isEmpty then "-" else ",".intercalate sorted) ++ s!" q={st.world.queue.length}")
  | _ => bad

def step (st : St) (line : String) : St × String :=
  match words line with
  | ["wire", m, _, p, r, b] => stepCore st s!"req {m} {p} {r} {b} -"
  | _ => stepCore st line

def main : IO Unit := runLines ({} : St) step

end Pk.Driver.C19
