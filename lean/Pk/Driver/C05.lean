/-
  Line-protocol driver for the pcap import model (properties C05 and C08).
  One JSON case per input line (format: /verif/harness/lib/importh/case.go), one canonical
  result line per case — the same text the Go harness prints from the real builder:

    <name> | N known=[..] snaps=[..] | P | I n=.. used=.. A=[..] U=[..] R=[..] X=[..] snaps=[..] known=[..] | ... | V=[..]

  stream  = id/proto/chost:cport>shost:sport/P[file#idx> ,...]/D[>len:fnv,...]
            (P as `index.Stream.Packets` returns it: consecutive records of one packet collapsed;
             D = payload as direction runs; long lists are replaced by #length:fnv)
-/
import Lean.Data.Json
import Pk.Model.Import
import Pk.Driver.Util

namespace Pk.Driver.C05
open Pk.Import Pk.Driver Lean

/-- 2020-01-01T00:00:00Z in microseconds: the harness adds it to every timestamp -/
def baseMicros : Nat := 1577836800000000

def fnv1a64 (bs : List UInt8) : UInt64 :=
  bs.foldl (fun h c => (h ^^^ c.toUInt64) * 0x100000001b3) 0xcbf29ce484222325

def hexU64 (v : UInt64) : String := hexNat v.toNat

def compact (lim : Nat) (s : String) : String :=
  if s.utf8ByteSize > lim then s!"#{s.utf8ByteSize}:{hexU64 (fnv1a64 s.toUTF8.toList)}" else s

def hexVal (c : Char) : Nat :=
  if '0' ≤ c ∧ c ≤ '9' then c.toNat - 48
  else if 'a' ≤ c ∧ c ≤ 'f' then c.toNat - 87
  else if 'A' ≤ c ∧ c ≤ 'F' then c.toNat - 55 else 0

def unhex (s : String) : List UInt8 :=
  let rec go : List Char → List UInt8 → List UInt8
    | a :: b :: rest, acc => go rest (UInt8.ofNat (hexVal a * 16 + hexVal b) :: acc)
    | _, acc => acc.reverse
  go s.toList []

def dirCh (d : Bool) : String := if d then "<" else ">"

def joinNat (xs : List Nat) : String := ",".intercalate (xs.map toString)

/-- `index.Stream.Packets`: consecutive records of the same packet are reported once -/
def dedupPkts : List (PRef × Bool) → List (PRef × Bool)
  | a :: b :: rest =>
    if a.1.file = b.1.file ∧ a.1.idx = b.1.idx then dedupPkts (a :: rest) else a :: dedupPkts (b :: rest)
  | l => l
termination_by l => l.length

/-- payload as direction runs: chunks in `Data` order, neighbours of one direction merged -/
def runsOf (s : Stream) : List (Bool × List UInt8) :=
  -- `s.dirOf i` through an array (the list lookup is linear; streams of the snapshot cases hold 50 000 packets)
  let dirs : Array Bool := (s.pkts.map (·.2)).toArray
  let chunks := s.data.filterMap (fun (c : Nat × Bytes) => if c.2.isEmpty then none else some (dirs[c.1]?.getD false, c.2))
  -- merge neighbours; build each run reversed-chunk-list first to stay linear
  let rec go : List (Bool × Bytes) → Option (Bool × List Bytes) → List (Bool × List UInt8) → List (Bool × List UInt8)
    | [], none, acc => acc.reverse
    | [], some (d, bs), acc => ((d, bs.reverse.foldr (· ++ ·) []) :: acc).reverse
    | (d, b) :: rest, none, acc => go rest (some (d, [b])) acc
    | (d, b) :: rest, some (d0, bs), acc =>
      if d = d0 then go rest (some (d0, b :: bs)) acc
      else go rest (some (d, [b])) ((d0, bs.reverse.foldr (· ++ ·) []) :: acc)
  go chunks none []

def streamStr (lim : Nat) (id : Nat) (s : Stream) : String :=
  let ps := (dedupPkts s.pkts).map (fun (pr : PRef × Bool) => s!"{pr.1.file}#{pr.1.idx}{dirCh pr.2}")
  let rs := (runsOf s).map (fun (r : Bool × List UInt8) => s!"{dirCh r.1}{r.2.length}:{hexU64 (fnv1a64 r.2)}")
  let proto := if s.udp then "udp" else "tcp"
  s!"{id}/{proto}/{s.caddr}:{s.cport}>{s.saddr}:{s.sport}/P[{compact lim (",".intercalate ps)}]/D[{compact lim (",".intercalate rs)}]"

def sortDedup (xs : List Nat) : List Nat :=
  (xs.mergeSort (fun a b => a ≤ b)).eraseDups

def insertStr (x : String × List Nat) : List (String × List Nat) → List (String × List Nat)
  | [] => [x]
  | y :: ys => if x.1 < y.1 then x :: y :: ys else y :: insertStr x ys

def snapsStr (lim : Nat) (snaps : List Snapshot) : String :=
  let one (s : Snapshot) : String :=
    let fs := (s.refs.foldr insertStr []).map (fun e => s!"{e.1}:[{compact lim (joinNat e.2)}]")
    s!"{s.ts + baseMicros}*{s.chunkCount}\{{",".intercalate fs}}"
  "[" ++ ";".intercalate (snaps.map one) ++ "]"

def knownStr (b : Builder) : String :=
  "[" ++ ",".intercalate (b.known.map (fun i => s!"{i.name}({i.count})")) ++ "]"

/-! ### JSON case -/

structure ConvJ where
  udp : Bool
  c : Nat
  s : Nat
  cp : Nat
  sp : Nat
deriving Inhabited

def getNatD (j : Json) (k : String) (d : Nat) : Nat :=
  match j.getObjVal? k with
  | .ok v => (v.getNat?).toOption.getD d
  | .error _ => d

def getStrD (j : Json) (k : String) (d : String) : String :=
  match j.getObjVal? k with
  | .ok v => (v.getStr?).toOption.getD d
  | .error _ => d

def getBoolD (j : Json) (k : String) (d : Bool) : Bool :=
  match j.getObjVal? k with
  | .ok v => (v.getBool?).toOption.getD d
  | .error _ => d

def getArrD (j : Json) (k : String) : Array Json :=
  match j.getObjVal? k with
  | .ok v => (v.getArr?).toOption.getD #[]
  | .error _ => #[]

def parseConv (j : Json) : ConvJ :=
  { udp := getStrD j "proto" "tcp" = "udp", c := getNatD j "c" 0, s := getNatD j "s" 0,
    cp := getNatD j "cp" 0, sp := getNatD j "sp" 0 }

/-- expand one JSON packet (with `rep`) into packets numbered from `idx` -/
def parsePkt (hosts : Array String) (convs : Array ConvJ) (file : String) (j : Json) (idx : Nat) : List Pkt :=
  let cv := convs[getNatD j "conv" 0]!
  let d := getNatD j "d" 0 = 1
  let ch := hosts[cv.c]!
  let sh := hosts[cv.s]!
  let (src, dst, sp, dp) := if d then (sh, ch, cv.sp, cv.cp) else (ch, sh, cv.cp, cv.sp)
  let fl := getStrD j "fl" ""
  let t := getNatD j "t" 0
  let rep := max 1 (getNatD j "rep" 1)
  let step := getNatD j "step" 0
  let pl := unhex (getStrD j "pl" "")
  (List.range rep).map (fun k =>
    { ts := t + k * step, file := file, idx := idx + k, udp := cv.udp, src := src, dst := dst, sport := sp, dport := dp,
      syn := fl.contains 'S', ack := fl.contains 'A', fin := fl.contains 'F', rst := fl.contains 'R',
      seq := getNatD j "seq" 0, payload := pl })

def parseFile (hosts : Array String) (convs : Array ConvJ) (j : Json) : Capture :=
  let name := getStrD j "name" "?"
  let pkts := (getArrD j "pkts").foldl (fun (acc : List (List Pkt) × Nat) pj =>
    let ps := parsePkt hosts convs name pj acc.2
    (ps :: acc.1, acc.2 + ps.length)) ([], 0)
  { name := name, pkts := pkts.1.reverse.foldr (· ++ ·) [] }

structure DState where
  dir : List Capture := []
  builder : Option Builder := none
  saved : List Snapshot := []
  stack : List Index := []
  out : List String := []

def strList (j : Json) (k : String) : List String :=
  (getArrD j k).toList.filterMap (fun v => v.getStr?.toOption)

def runOp (lim : Nat) (files : List Capture) (st : DState) (op : Json) : DState :=
  match getStrD op "op" "" with
  | "new" =>
    let b := Builder.new st.dir st.saved
    { st with builder := some b, out := s!"N known={knownStr b} snaps={snapsStr lim b.snapshots}" :: st.out }
  | "put" =>
    let add := (strList op "files").filterMap (fun n => files.find? (fun c => c.name = n))
    { st with dir := st.dir ++ add, out := "P" :: st.out }
  | "import" =>
    match st.builder with
    | none => { st with out := "I err" :: st.out }
    | some b =>
      let (res, b') := b.fromPcap st.dir (strList op "files") st.stack
      let idxStr := " || ".intercalate (res.created.map (fun i => ";".intercalate (i.streams.map (fun e => streamStr lim e.1 e.2))))
      let line := s!"I n={res.processed} used={res.used} A=[{joinNat (sortDedup res.added)}] U=[{joinNat (sortDedup res.updated)}] R=[{joinNat (sortDedup res.reset)}] X=[{idxStr}] snaps={snapsStr lim b'.snapshots} known={knownStr b'}{if res.unmodelled then " UNMODELLED" else ""}"
      { st with builder := some b', saved := b'.snapshots, stack := st.stack ++ res.created, out := line :: st.out }
  | _ => { st with out := "bad-op" :: st.out }

def runCase (lim : Nat) (line : String) : String :=
  match Json.parse line with
  | .error _ => "bad-case"
  | .ok j =>
    let hosts := (getArrD j "hosts").map (fun v => v.getStr?.toOption.getD "")
    let convs := (getArrD j "convs").map parseConv
    let files := (getArrD j "files").toList.map (parseFile hosts convs)
    let st := (getArrD j "plan").foldl (runOp lim files) {}
    let vis := (visible st.stack).map (fun e => streamStr lim e.1 e.2)
    let parts := getStrD j "name" "?" :: st.out.reverse ++ ["V=[" ++ ";".intercalate vis ++ "]"]
    " | ".intercalate parts

/-- `lim` = length above which a list is printed as length and digest (600 in the checks) -/
def mainWith (lim : Nat) : IO Unit := runLines () (fun _ line => ((), runCase lim line))

def main : IO Unit := mainWith 600

end Pk.Driver.C05
