/-
  Line-protocol driver for the payload filter model (property C04).
  Input: one JSON object per line, written by `harness c04 run`:
    {"sources":[{"c":"client bytes","s":"server bytes","bl":[[0,0],[2,0],..]}..],   evaluated data sources
     "regexes":[{"p":prefix,"x":suffix,"min":n,"max":n,"ctx":bool,"t":[{"b":"bytes","s":start,"e":end|-1}..]}..],
                                       facts computed by the real code + the regex engine as a table
     "parts":[[{"els":[[regex,dir]..],"inv":bool}..]..],                 data conditions of every query part
     "finds":[{"re":i,"src":j,"dir":d,"off":[o0,o1],"res":[s,e]|[],"noff":[..]}..]   REAL progressVariant.find calls
     "real":bool, "oracle":bool, "err":".."}
  Output: `find=<agree>/<total> firstbad=<index|-1> plaindiff=<n> sel=<b> plainsel=<b> same=<b> specsame=<b>`
    find      : calls on which the model `find` returns exactly what the real find returned (result and offset)
    plaindiff : calls on which the model `find` differs from the plain scan (same absolute match?)
    sel       : model decision with the shortcut scan;  same = (sel == real)
    plainsel  : model decision with the plain scan;     specsame = (plainsel == oracle)
-/
import Lean.Data.Json
import Pk.Model.DataSearch
import Pk.Driver.Util

namespace Pk.Driver.C04
open Lean Pk.DataSearch Pk.Driver

def str? (j : Json) (k : String) : Option String :=
  match j.getObjVal? k with
  | .ok v => (match v.getStr? with | .ok s => some s | .error _ => none)
  | .error _ => none
def int? (j : Json) (k : String) : Option Int :=
  match j.getObjVal? k with
  | .ok v => (match v.getInt? with | .ok n => some n | .error _ => none)
  | .error _ => none
def nat? (j : Json) (k : String) : Option Nat := (int? j k).map Int.toNat
def bool (j : Json) (k : String) : Bool :=
  match j.getObjVal? k with
  | .ok v => (match v.getBool? with | .ok b => b | .error _ => false)
  | .error _ => false
def arr (j : Json) (k : String) : List Json :=
  match j.getObjVal? k with
  | .ok v => (match v.getArr? with | .ok a => a.toList | .error _ => [])
  | .error _ => []
def natPair? (j : Json) : Option (Nat × Nat) :=
  match j.getArr? with
  | .ok a => (match a.toList with
    | [x, y] => (match x.getNat?, y.getNat? with | .ok a, .ok b => some (a, b) | _, _ => none)
    | _ => none)
  | .error _ => none

def bytesOf (s : String) : Bytes := s.toUTF8.toList.map (·.toNat)

def hexVal (c : Char) : Nat :=
  if '0' ≤ c ∧ c ≤ '9' then c.toNat - '0'.toNat
  else if 'a' ≤ c ∧ c ≤ 'f' then c.toNat - 'a'.toNat + 10
  else 0

/-- payload, table keys and literal prefix / suffix arrive as hex strings (bytes, not characters) -/
def hexBytes (s : String) : Bytes :=
  let rec go : List Char → Bytes
    | a :: b :: rest => (hexVal a * 16 + hexVal b) :: go rest
    | _ => []
  go s.toList

structure Rx where
  facts : Facts
  table : List (Bytes × Option (Nat × Nat))

def Rx.matcher (r : Rx) : Matcher := fun b =>
  match r.table.find? (fun e => e.1 == b) with
  | some e => e.2
  | none => none

def rx? (j : Json) : Option Rx := do
  let p ← str? j "p"
  let x ← str? j "x"
  let mn ← nat? j "min"
  let mx ← nat? j "max"
  let t ← (arr j "t").mapM (fun e => do
    let b ← str? e "b"
    let s ← int? e "s"
    let en ← int? e "e"
    pure (hexBytes b, if en < 0 then none else some (s.toNat, en.toNat)))
  pure { facts := { pre := hexBytes p, suf := hexBytes x, minLen := mn, maxLen := mx, ctx := bool j "ctx" }, table := t }

def src? (j : Json) : Option Source := do
  let c ← str? j "c"
  let s ← str? j "s"
  let bl ← (arr j "bl").mapM natPair?
  pure ⟨hexBytes c, hexBytes s, bl⟩

def cond? (rxs : Array Rx) (j : Json) : Option Cond := do
  let els ← (arr j "els").mapM (fun e => do
    let (i, d) ← natPair? e
    let r ← rxs[i]?
    pure ({ dir := d, m := r.matcher, facts := r.facts } : Elem))
  pure ⟨els, bool j "inv"⟩

def b01 (b : Bool) : String := if b then "1" else "0"

/-- same match in absolute positions (or both none) -/
def sameAbs (a b : Found) : Bool :=
  match a.res, b.res with
  | none, none => true
  | some (s, e), some (s', e') => a.off + s == b.off + s' && a.off + e == b.off + e'
  | _, _ => false

def runCase (j : Json) : Option String := do
  let err := (str? j "err").getD ""
  if err ≠ "" then return s!"skip {err}"
  let srcs ← (arr j "sources").mapM src?
  let rxs := (← (arr j "regexes").mapM rx?).toArray
  let parts ← (arr j "parts").mapM (fun p => match p.getArr? with
    | .ok a => a.toList.mapM (cond? rxs) | .error _ => none)
  let mut agree := 0
  let mut total := 0
  let mut firstbad : Int := -1
  let mut plaindiff := 0
  for f in arr j "finds" do
    let i ← nat? f "re"
    let si ← nat? f "src"
    let d ← nat? f "dir"
    let r ← rxs[i]?
    let s ← srcs[si]?
    let off ← (match f.getObjVal? "off" with | .ok v => natPair? v | .error _ => none)
    let noff ← (match f.getObjVal? "noff" with | .ok v => natPair? v | .error _ => none)
    let res : Option (Nat × Nat) := (match f.getObjVal? "res" with | .ok v => natPair? v | .error _ => none)
    let m := find r.matcher r.facts (s.buf d) (sel d off)
    let ok := m.res == res && m.off == sel d noff
    if ok then agree := agree + 1
    else if firstbad < 0 then firstbad := total
    if !sameAbs m (plainFind r.matcher (s.buf d) (sel d off)) then plaindiff := plaindiff + 1
    total := total + 1
  let selv := selected parts srcs
  let psel := plainSelected parts srcs
  return s!"find={agree}/{total} firstbad={firstbad} plaindiff={plaindiff} sel={b01 selv} plainsel={b01 psel} same={b01 (selv == bool j "real")} specsame={b01 (psel == bool j "oracle")}"

def step (_ : Unit) (line : String) : Unit × String :=
  match Json.parse line with
  | .ok j => ((), (runCase j).getD "bad-case")
  | .error _ => ((), "bad-case")

def main : IO Unit := runLines () step

end Pk.Driver.C04
