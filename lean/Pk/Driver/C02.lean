/-
  Line-protocol driver for the search model (property C02).
  Input: one JSON object per line, written by `harness c02 run`:
    {"keys":[{"k":"ftime","d":true}..], "limit":L, "skip":S,
     "matches":[rec..]            -- the oracle's match set (visible streams satisfying the query)
     "files":[[rec+{"q":bool}..]..]  -- every index file newest first, streams in scan order, q = query holds
     "sorted":bool                -- the scan uses the sorting lookup (early exit active)
     "res":[ids], "more":bool     -- what the REAL index.SearchStreams returned
     "err":".."}                  -- non-empty: the case was not evaluated
  Output: `valid=<b> shadow=<b> eng=[ids] engmore=<b> engvalid=<b> same=<b>`
    valid    : the REAL result satisfies the Lean spec `validPage` for the oracle's match set
    shadow   : the model's shadowing (`matchesOf files`) yields exactly the oracle's match set
    eng/engmore : result of the engine model `search` on the same files
    engvalid : the engine model's result satisfies `validPage`
    same     : engine model result = real result (ids in order, more flag)
  or `skip <err>` / `bad-case`.
-/
import Lean.Data.Json
import Pk.Model.Search
import Pk.Driver.Util

namespace Pk.Driver.C02
open Lean Pk.Search Pk.Driver

def natList? (j : Json) : Option (List Nat) :=
  match j.getArr? with
  | .ok a => a.toList.mapM (fun x => match x.getNat? with | .ok n => some n | .error _ => none)
  | .error _ => none

def getNat (j : Json) (k : String) : Option Nat :=
  match j.getObjVal? k with
  | .ok v => (match v.getNat? with | .ok n => some n | .error _ => none)
  | .error _ => none

def getBool (j : Json) (k : String) : Bool :=
  match j.getObjVal? k with
  | .ok v => (match v.getBool? with | .ok b => b | .error _ => false)
  | .error _ => false

def rec? (j : Json) : Option (Rec × Bool) := do
  let id ← getNat j "id"
  let ft ← getNat j "ft"
  let lt ← getNat j "lt"
  let cb ← getNat j "cb"
  let sb ← getNat j "sb"
  let cp ← getNat j "cp"
  let sp ← getNat j "sp"
  let ch ← (match j.getObjVal? "ch" with | .ok v => natList? v | .error _ => none)
  let sh ← (match j.getObjVal? "sh" with | .ok v => natList? v | .error _ => none)
  pure ({ id := id, ftime := ft, ltime := lt, cbytes := cb, sbytes := sb, cport := cp, sport := sp,
          chost := ch, shost := sh }, getBool j "q")

def field? : String → Option Field
  | "id" => some .id | "cbytes" => some .cbytes | "sbytes" => some .sbytes
  | "ftime" => some .ftime | "ltime" => some .ltime | "chost" => some .chost
  | "shost" => some .shost | "cport" => some .cport | "sport" => some .sport
  | _ => none

def key? (j : Json) : Option SortKey := do
  let k ← (match j.getObjVal? "k" with | .ok v => (match v.getStr? with | .ok s => some s | .error _ => none) | .error _ => none)
  let f ← field? k
  pure ⟨f, getBool j "d"⟩

def arr? (j : Json) (k : String) : Option (List Json) :=
  match j.getObjVal? k with
  | .ok v => (match v.getArr? with | .ok a => some a.toList | .error _ => if v.isNull then some [] else none)
  | .error _ => some []

def b01 (b : Bool) : String := if b then "1" else "0"

def idsStr (l : List Nat) : String := "[" ++ ",".intercalate (l.map toString) ++ "]"

def sameSet (a b : List Nat) : Bool := a.all b.contains && b.all a.contains && a.length == b.length

def runCase (j : Json) : Option String := do
  let err := (match j.getObjVal? "err" with | .ok v => (match v.getStr? with | .ok s => s | .error _ => "") | .error _ => "")
  if err ≠ "" then return s!"skip {err}"
  let keys ← (← arr? j "keys").mapM key?
  let limit ← getNat j "limit"
  let skip ← getNat j "skip"
  let ms ← (← arr? j "matches").mapM rec?
  let files ← (← arr? j "files").mapM (fun f => match f.getArr? with
    | .ok a => a.toList.mapM rec? | .error _ => none)
  let sorted := getBool j "sorted"
  let res ← (match j.getObjVal? "res" with | .ok v => (if v.isNull then some [] else natList? v) | .error _ => some [])
  let more := getBool j "more"
  let msr := ms.map (·.1)
  let valid := validPage msr keys limit skip res more
  let shadow := sameSet ((matchesOf files).map (·.id)) (msr.map (·.id))
  let eng := search keys limit skip sorted files
  let engvalid := validPage (matchesOf files) (effKeys keys) limit skip eng.1 eng.2
  let same := eng.1 == res && eng.2 == more
  return s!"valid={b01 valid} shadow={b01 shadow} eng={idsStr eng.1} engmore={b01 eng.2} engvalid={b01 engvalid} same={b01 same}"

/-- one line of the accept-table stage (`c02 accept`): the ids the REAL search returned for a hand-built
    `TagCondition` with accept mask `accept` against four streams in the states `[id, undecided, matching]`;
    `exp` = the ids `tagAcceptSpec` admits, `tab` = the ids the modelled switch `tagAccept` admits -/
def accCase (j : Json) : Option String := do
  let err := (match j.getObjVal? "err" with | .ok v => (match v.getStr? with | .ok s => s | .error _ => "") | .error _ => "")
  if err ≠ "" then return s!"acc err={err}"
  let accept ← getNat j "accept"
  let states ← (← arr? j "states").mapM natList?
  let res ← (match j.getObjVal? "res" with | .ok v => (if v.isNull then some [] else natList? v) | .error _ => some [])
  let hasU := getBool j "hasu"
  let sts ← states.mapM (fun s => match s with
    | [id, u, m, r, d] => some (id, u != 0, m != 0, r != 0, d != 0) | _ => none)
  let exp := (sts.filter (fun s => tagAcceptSpec accept s.2.1 s.2.2.1)).map (·.1)
  let tab := (sts.filter (fun s => tagAccept accept s.2.1 s.2.2.1)).map (·.1)
  -- the inlining of the tag's definition as the search performs it, on the RECORDED answers
  let inl := (sts.filter (fun s => inlinedAccept hasU accept s.2.1 s.2.2.2.1 s.2.2.2.2)).map (·.1)
  return s!"acc exp={idsStr exp} tab={idsStr tab} inl={idsStr inl} same={b01 (exp == res && tab == res && inl == res)}"

def step (_ : Unit) (line : String) : Unit × String :=
  match Json.parse line with
  | .ok j => ((), if getBool j "acc" then (accCase j).getD "bad-case" else (runCase j).getD "bad-case")
  | .error _ => ((), "bad-case")

def main : IO Unit := runLines () step

end Pk.Driver.C02
