/-
  Line-protocol driver for the bitmask register machine (property C17).
  Protocol (one op per line, one output line per op):
    mk c R LO HI | mk s R HEX | mk l R HEX*   create
    set|unset|flip K R BIT
    or|and|xor|sub K R Q                       in place  R := R op Q
    orc|andc|xorc|subc K D R Q                 copy form D := R op Q
    copy K D R | shrink K R
    inject K R BIT V | extract K R BIT
    isset K R BIT | equal K R Q | next l R BIT
  K ∈ {c,l,s}; registers 0..7 per kind.
  Output: `<repr> ones=<n> len=<n> zero=<0|1>[ ret=<..>]` for mutating ops (repr of the
  destination register), `ret=<..>` for pure observers, `bad-op` for anything else.
-/
import Pk.Model.Bits
import Pk.Driver.Util

namespace Pk.Driver.C17
open Pk.Bits Pk.Driver

structure St where
  c : Array Conn := Array.replicate 8 []
  l : Array Long := Array.replicate 8 []
  s : Array Short := Array.replicate 8 (.last 0#64)

def reprConn (c : Conn) : String :=
  "[" ++ ",".intercalate (c.map fun e => s!"{e.lo}-{e.hi}") ++ "]"
def reprWords (ws : List W) : String :=
  "[" ++ ",".intercalate (ws.map fun w => hexNat w.toNat) ++ "]"

def obsC (c : Conn) : String :=
  s!"{reprConn c} ones={c.onesCount} len={c.len} zero={if c.isZero then 1 else 0}"
def obsL (l : Long) : String :=
  s!"{reprWords l} ones={l.onesCount} len={l.len} zero={if l.isZero then 1 else 0}"
def obsS (s : Short) : String :=
  s!"{reprWords s.words} ones={s.onesCount} len={s.len} zero={if s.isZero then 1 else 0}"

def b01 (b : Bool) : String := if b then "1" else "0"

def reg? (s : String) : Option Nat := match s.toNat? with
  | some n => if n < 8 then some n else none
  | none => none

def binC (op : String) (a b : Conn) : Option Conn :=
  match op with
  | "or" => some (Conn.or a b) | "and" => some (Conn.and a b)
  | "xor" => some (Conn.xor a b) | "sub" => some (Conn.sub a b) | _ => none
def binL (op : String) (a b : Long) : Option Long :=
  match op with
  | "or" => some (Long.or a b) | "and" => some (Long.and a b)
  | "xor" => some (Long.xor a b) | "sub" => some (Long.sub a b) | _ => none
def binS (op : String) (a b : Short) : Option Short :=
  match op with
  | "or" => some (Short.or a b) | "and" => some (Short.and a b)
  | "xor" => some (Short.xor a b) | "sub" => some (Short.sub a b) | _ => none

def step (st : St) (line : String) : St × String :=
  let bad := (st, "bad-op")
  match words line with
  | ["mk", "c", r, lo, hi] =>
    match reg? r, lo.toNat?, hi.toNat? with
    | some r, some lo, some hi => let v := Conn.make lo hi; ({ st with c := st.c.set! r v }, obsC v)
    | _, _, _ => bad
  | ["mk", "s", r, m] =>
    match reg? r, parseHex? m with
    | some r, some m => let v := Short.make (BitVec.ofNat 64 m); ({ st with s := st.s.set! r v }, obsS v)
    | _, _ => bad
  | "mk" :: "l" :: r :: ws =>
    match reg? r, ws.mapM parseHex? with
    | some r, some ws => let v : Long := ws.map (BitVec.ofNat 64); ({ st with l := st.l.set! r v }, obsL v)
    | _, _ => bad
  | [op, k, r, bit] =>
    match reg? r, bit.toNat? with
    | some r, some bit =>
      match k, op with
      | "c", "set" => let v := st.c[r]!.set bit; ({ st with c := st.c.set! r v }, obsC v)
      | "c", "unset" => let v := st.c[r]!.unset bit; ({ st with c := st.c.set! r v }, obsC v)
      | "c", "flip" => let v := st.c[r]!.flip bit; ({ st with c := st.c.set! r v }, obsC v)
      | "c", "isset" => (st, s!"ret={b01 (st.c[r]!.isSet bit)}")
      | "c", "extract" => let v := st.c[r]!.extract bit; ({ st with c := st.c.set! r v.1 }, obsC v.1 ++ s!" ret={b01 v.2}")
      | "l", "set" => let v := st.l[r]!.set bit; ({ st with l := st.l.set! r v }, obsL v)
      | "l", "unset" => let v := st.l[r]!.unset bit; ({ st with l := st.l.set! r v }, obsL v)
      | "l", "flip" => let v := st.l[r]!.flip bit; ({ st with l := st.l.set! r v }, obsL v)
      | "l", "isset" => (st, s!"ret={b01 (st.l[r]!.isSet bit)}")
      | "l", "next" => (st, match st.l[r]!.next bit with | some n => s!"ret={n}" | none => "ret=none")
      | "s", "set" => let v := st.s[r]!.set bit; ({ st with s := st.s.set! r v }, obsS v)
      | "s", "unset" => let v := st.s[r]!.unset bit; ({ st with s := st.s.set! r v }, obsS v)
      | "s", "flip" => let v := st.s[r]!.flip bit; ({ st with s := st.s.set! r v }, obsS v)
      | "s", "isset" => (st, s!"ret={b01 (st.s[r]!.isSet bit)}")
      | "s", "extract" => let v := st.s[r]!.extract bit; ({ st with s := st.s.set! r v.1 }, obsS v.1 ++ s!" ret={b01 v.2}")
      | "c", "equal" => if bit < 8 then (st, s!"ret={b01 (Conn.equal st.c[r]! st.c[bit]!)}") else bad
      | "l", "equal" => if bit < 8 then (st, s!"ret={b01 (Long.equal st.l[r]! st.l[bit]!)}") else bad
      | "s", "equal" => if bit < 8 then (st, s!"ret={b01 (Short.equal st.s[r]! st.s[bit]!)}") else bad
      | "c", "copy" => if bit < 8 then let v := st.c[bit]!.copy; ({ st with c := st.c.set! r v }, obsC v) else bad
      | "l", "copy" => if bit < 8 then let v := st.l[bit]!; ({ st with l := st.l.set! r v }, obsL v) else bad
      | "s", "copy" => if bit < 8 then let v := st.s[bit]!.copy; ({ st with s := st.s.set! r v }, obsS v) else bad
      | k, op =>
        -- in-place binary ops: `op K R Q`
        if bit < 8 then
          match k with
          | "c" => match binC op st.c[r]! st.c[bit]! with
            | some v => ({ st with c := st.c.set! r v }, obsC v) | none => bad
          | "l" => match binL op st.l[r]! st.l[bit]! with
            | some v => ({ st with l := st.l.set! r v }, obsL v) | none => bad
          | "s" => match binS op st.s[r]! st.s[bit]! with
            | some v => ({ st with s := st.s.set! r v }, obsS v) | none => bad
          | _ => bad
        else bad
    | _, _ => bad
  | ["shrink", k, r] =>
    match reg? r with
    | some r =>
      match k with
      | "l" => let v := st.l[r]!.shrink; ({ st with l := st.l.set! r v }, obsL v)
      | "s" => let v := st.s[r]!.shrink; ({ st with s := st.s.set! r v }, obsS v)
      | _ => bad
    | none => bad
  | ["inject", k, r, bit, v] =>
    match reg? r, bit.toNat?, v with
    | some r, some bit, v =>
      if v ≠ "0" ∧ v ≠ "1" then bad else
      let vb := v = "1"
      match k with
      | "c" => let x := st.c[r]!.inject bit vb; ({ st with c := st.c.set! r x }, obsC x)
      | "l" => let x := st.l[r]!.inject bit vb; ({ st with l := st.l.set! r x }, obsL x)
      | "s" => let x := st.s[r]!.inject bit vb; ({ st with s := st.s.set! r x }, obsS x)
      | _ => bad
    | _, _, _ => bad
  | [op, k, d, r, q] =>
    match reg? d, reg? r, reg? q with
    | some d, some r, some q =>
      let base := if op.endsWith "c" then op.dropRight 1 else "?"
      match k with
      | "c" => match binC base st.c[r]! st.c[q]! with
        | some v => ({ st with c := st.c.set! d v }, obsC v) | none => bad
      | "l" => match binL base st.l[r]! st.l[q]! with
        | some v => ({ st with l := st.l.set! d v }, obsL v) | none => bad
      | "s" => match binS base st.s[r]! st.s[q]! with
        | some v => ({ st with s := st.s.set! d v }, obsS v) | none => bad
      | _ => bad
    | _, _, _ => bad
  | _ => bad

def main : IO Unit := runLines ({} : St) step

end Pk.Driver.C17
