/-
  `pkmodel <property>` — executable model side of the correspondence checks.
  Imports only core-only modules (no Mathlib) so it links as a `lean_exe`.
-/
import Pk.Driver.C17
import Pk.Driver.Mgr
import Pk.Driver.C15
import Pk.Driver.C03
import Pk.Driver.C14
import Pk.Driver.C20
import Pk.Driver.C02
import Pk.Driver.C04
import Pk.Driver.C01
import Pk.Driver.C07
import Pk.Driver.C12
import Pk.Driver.C18
import Pk.Driver.C05
import Pk.Driver.C08
import Pk.Driver.C11
import Pk.Driver.C19

def main (args : List String) : IO UInt32 := do
  match args with
  | ["c17"] => Pk.Driver.C17.main; return 0
  | ["c19"] => Pk.Driver.C19.main; return 0
  | ["c11"] => Pk.Driver.C11.main; return 0
  | ["c18"] => Pk.Driver.C18.main false; return 0
  | ["c18-old"] => Pk.Driver.C18.main true; return 0
  | ["c05"] => Pk.Driver.C05.main; return 0
  | ["c08"] => Pk.Driver.C08.main; return 0
  | ["c05-full"] => Pk.Driver.C05.mainWith 1000000000; return 0
  | ["c12"] => Pk.Driver.C12.main; return 0
  | ["c01"] => Pk.Driver.C01.main; return 0
  | ["c07"] => Pk.Driver.C07.main; return 0
  | ["c02"] => Pk.Driver.C02.main; return 0
  | ["c04"] => Pk.Driver.C04.main; return 0
  | ["c20"] => Pk.Driver.C20.main; return 0
  | ["c03"] => Pk.Driver.C03.main; return 0
  | ["c14"] => Pk.Driver.C14.main; return 0
  | ["c15"] => Pk.Driver.C15.main; return 0
  | "mgr" :: convs => Pk.Driver.Mgr.main convs; return 0
  | _ =>
    IO.eprintln "usage: pkmodel <c17|...>  (line protocol on stdin/stdout)"
    return 2
