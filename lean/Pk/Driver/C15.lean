/-
  Line-protocol driver for the converter cache file (property C15); the protocol is described in
  /verif/harness/cmd/c15/main.go.  One output line per op:
    `<result> || len=<n> fnv=<h|-> sum=<a>.<b> fsz=<n> free=<n> fstart=<n> infos=[id:off:size,...]`
-/
import Pk.Model.CacheFile
import Pk.Driver.Util

namespace Pk.Driver.C15
open Pk.CacheFile Pk.Driver

structure DSt where
  st : Option St := some reset         -- `none`: the model says the code returned an error
  t0s : List (Nat × Int) := []
  multi : Bool := false

def universeIds : List Nat := [0, 1, 2, 3, 4, 5, 70000, 1099511627779]

def fnv (bs : List Nat) : UInt64 :=
  bs.foldl (fun h b => (h ^^^ b.toUInt64) * 1099511628211) 14695981039346656037

def hex2 (b : Nat) : String := (hexDigit (b / 16)).toString ++ (hexDigit (b % 16)).toString

def showContent (b : List Nat) : String :=
  if b.length ≤ 24 then String.join (b.map hex2)
  else s!"#{b.length}.{hexNat (fnv b).toNat}"

def pattern (a n : Nat) : List Nat := (List.range n).map fun i => (a + 7 * i) % 256

def parseHexBytes : List Char → Option (List Nat)
  | [] => some []
  | [_] => none
  | a :: b :: rest =>
    match parseHex? (String.ofList [a, b]), parseHexBytes rest with
    | some v, some r => some (v :: r)
    | _, _ => none

def parseContent (s : String) : Option (List Nat) :=
  if s.isEmpty then some []
  else if s.front = 'r' then
    match (String.ofList (s.toList.drop 1)).splitOn "x" with
    | [a, n] => match a.toNat?, n.toNat? with
      | some a, some n => if n ≤ 67108864 then some (pattern a n) else none
      | _, _ => none
    | _ => none
  else parseHexBytes s.toList

def strBytes (s : String) : List Nat := s.toUTF8.toList.map (·.toNat)
def bytesStr (b : List Nat) : String := String.ofList (b.map Char.ofNat)

def parseChunk (tok : String) : Option Chunk :=
  match tok.splitOn ":" with
  | [d, c, t, ct] =>
    if d ≠ "c" ∧ d ≠ "s" then none else
    match parseContent c, t.toInt? with
    | some content, some time => some { dir := d = "s", content, time, ctype := strBytes ct }
    | _, _ => none
  | _ => none

def t0Of (d : DSt) (id : Nat) : Int := ((d.t0s.find? fun e => e.1 == id).map (·.2)).getD 0

def showChunk (c : Chunk) : String :=
  s!"{if c.dir then "s" else "c"}:{showContent c.content}:{c.time}:{bytesStr c.ctype}"

def showData : Option (Option ReadResult) → String
  | none => "data=err"
  | some none => "data=nil cb=0 sb=0"
  | some (some r) => s!"data=[{",".intercalate (r.chunks.map showChunk)}] cb={r.clientBytes} sb={r.serverBytes}"

def showSearch : Option (Option SearchResult) → String
  | none => "search=err"
  | some none => "search=| sizes=[] cb=0 sb=0 present=0"
  | some (some r) =>
    let sz := ",".intercalate (r.sizes.map fun e => s!"{e.1}/{e.2}")
    s!"search={showContent r.client}|{showContent r.server} sizes=[{sz}] cb={r.client.length} sb={r.server.length} present=1"

def insertSorted (e : Nat × Info) : List (Nat × Info) → List (Nat × Info)
  | [] => [e]
  | x :: xs => if e.1 ≤ x.1 then e :: x :: xs else x :: insertSorted e xs

structure Hashes where
  fnv : UInt64
  s1 : UInt64
  s2 : UInt64
  len : Nat

/-- one pass over the file: FNV-1a, sum, sum of squares, length -/
def hashAll : List Nat → UInt64 → UInt64 → UInt64 → Nat → Hashes
  | [], h, s1, s2, n => ⟨h, s1, s2, n⟩
  | b :: bs, h, s1, s2, n =>
    let x := b.toUInt64
    hashAll bs ((h ^^^ x) * 1099511628211) (s1 + x) (s2 + x * x) (n + 1)

def strict (d : DSt) : String :=
  match d.st with
  | none => "model-error"
  | some st =>
    let h := hashAll st.bytes 14695981039346656037 0 0 0
    let (s1, s2) := (h.s1, h.s2)
    let f := if d.multi then "-" else hexNat h.fnv.toNat
    let infos := (st.infos.foldr insertSorted []).map fun e => s!"{e.1}:{e.2.offset}:{e.2.size}"
    s!"len={h.len} fnv={f} sum={s1.toNat}.{s2.toNat} fsz={st.fileSize} free={st.freeSize} fstart={st.freeStart} infos=[{",".intercalate infos}]"

def dedupSorted : List Nat → List Nat
  | a :: b :: rest => if a = b then dedupSorted (b :: rest) else a :: dedupSorted (b :: rest)
  | l => l

def insertNat (e : Nat) : List Nat → List Nat
  | [] => [e]
  | x :: xs => if e ≤ x then e :: x :: xs else x :: insertNat e xs

def distinctCts (cs : List Chunk) : List (List Nat) :=
  cs.foldl (fun acc c => if c.ctype = [] ∨ c.content = [] ∨ acc.contains c.ctype then acc else c.ctype :: acc) []

def b01 (b : Bool) : String := if b then "1" else "0"

def exec (d : DSt) (line : String) : DSt × String :=
  let bad := (d, "bad-op")
  match words line with
  | ["new"] => ({ st := some reset, t0s := [], multi := false }, "open=ok")
  | "store" :: id :: t0 :: toks =>
    match d.st, id.toNat?, t0.toInt?, toks.mapM parseChunk with
    | some st, some id, some t0, some cs =>
      let multi := d.multi || (distinctCts cs).length ≥ 2
      let t0s := (id, t0) :: d.t0s.filter fun e => e.1 != id
      match setData st id t0 cs with
      | some st' => ({ st := some st', t0s, multi }, "store=ok")
      | none => ({ st := none, t0s, multi }, "store=err")
    | none, _, _, _ => (d, "closed")
    | _, _, _, _ => bad
  | "inval" :: ids =>
    match d.st, ids.mapM String.toNat? with
    | some st, some ids =>
      if ids.any (· > 1048576) then bad else
      let r := invalidate st (dedupSorted (ids.foldr insertNat []))
      ({ d with st := some r.1 }, s!"inv=[{",".intercalate (r.2.map toString)}]")
    | none, _ => (d, "closed")
    | _, _ => bad
  | ["reset"] =>
    match d.st with
    | some _ => ({ d with st := some reset, multi := false }, "reset=ok")
    | none => (d, "closed")
  | ["reopen"] =>
    match d.st with
    | some st => match openFile st.bytes with
      | some st' => ({ d with st := some st' }, "open=ok")
      | none => ({ d with st := none }, "open=fail")
    | none => (d, "closed")
  | [op, k] =>
    match d.st, k.toNat? with
    | some st, some k =>
      let n := st.bytes.length
      match op with
      | "cut" | "cutat" =>
        let p := if op = "cut" then (if k < n then n - k else 0) else k
        let file := if p < n then st.bytes.take p else st.bytes
        match openFile file with
        | some st' => ({ d with st := some st' }, "open=ok")
        | none => ({ d with st := none }, "open=fail")
      | "read" => (d, showData (data st k (t0Of d k)))
      | "search" => (d, showSearch (dataForSearch st k))
      | "contains" => (d, s!"contains={b01 (contains st k)}")
      | _ => bad
    | none, _ => (d, "closed")
    | _, _ => bad
  | ["count"] =>
    match d.st with
    | some st => (d, s!"count={streamCount st}")
    | none => (d, "closed")
  | ["obs"] =>
    match d.st with
    | some st =>
      let parts := universeIds.map fun id =>
        s!"{id}\{{b01 (contains st id)} {showData (data st id (t0Of d id))} {showSearch (dataForSearch st id)}}"
      (d, s!"obs count={streamCount st} {" ".intercalate parts}")
    | none => (d, "closed")
  | _ => bad

def step (d : DSt) (line : String) : DSt × String :=
  let r := exec d line
  (r.1, r.2 ++ " || " ++ strict r.1)

def main : IO Unit := runLines ({} : DSt) step

end Pk.Driver.C15
