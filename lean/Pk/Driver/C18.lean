/-
  Line-protocol driver for property C18 (regex length / suffix analysis).

  Input line (written by harness/cmd/c18):
    {"re":text,"ast":AST,"nosuffix":0|1,"prog":{"start":n,"inst":[[op,out,arg,[runes]],..]}|null}
  Output line:
    min=<n> max=<n> suffix=<hex|-> amin=<n|*> amax=<n|*>   — the transliterated walks run on the dumped
        program; amin/amax = `lenRange` of the AST when it is `regular`, `*` otherwise
    error      — "prog" is null (the text does not parse / compile)
    abort      — a walk ran out of fuel or indexed outside the program (Go would hang / panic)
    bad-case   — the line cannot be decoded
  `pkmodel c18-old` runs the walk as it was before the repair (see finding F23).
-/
import Lean.Data.Json
import Pk.Model.Regex
import Pk.Model.RegexProg
import Pk.Driver.Util

namespace Pk.Driver.C18
open Lean Pk.Regex Pk.RegexProg Pk.Driver

def natOf (j : Json) : Option Nat :=
  match j.getNat? with
  | .ok n => some n
  | .error _ => none

def intOf (j : Json) : Option Int :=
  match j.getInt? with
  | .ok n => some n
  | .error _ => none

def arrOf (j : Json) : Option (Array Json) :=
  match j.getArr? with
  | .ok a => some a
  | .error _ => none

def strOf (j : Json) : Option String :=
  match j.getStr? with
  | .ok a => some a
  | .error _ => none

def assertionOf : String → Option Assertion
  | "bot" | "bot2" => some .beginText
  | "eot" | "eot2" => some .endText
  | "bol" => some .beginLine
  | "eol" => some .endLine
  | "wb" => some .wordBoundary
  | "nwb" => some .noWordBoundary
  | _ => none

def swapCaseB (b : Nat) : Nat := Pk.RegexProg.swapCase b

/-- ranges of a case-folded class: the ranges plus the case-swapped image of every member -/
def foldRanges (rs : List (Nat × Nat)) : List (Nat × Nat) :=
  rs ++ ((List.range 256).filter (fun b => inRanges rs (swapCaseB b))).map fun b => (b, b)

def listToCat : List Regex → Regex
  | [] => .eps
  | [r] => r
  | r :: rs => .cat r (listToCat rs)

def listToAlt : List Regex → Regex
  | [] => .eps
  | [r] => r
  | r :: rs => .alt r (listToAlt rs)

partial def astOf (j : Json) : Option Regex := do
  let a ← arrOf j
  let k ← strOf (← a[0]?)
  match k with
  | "eps" => some .eps
  | "any" => some (.atom [(0, 255)] false)
  | "anynl" => some (.atom [(10, 10)] true)
  | "none" => some (.atom [] false)
  | "lit" =>
    let b ← natOf (← a[1]?)
    let f ← natOf (← a[2]?)
    some (.atom (if f != 0 then foldRanges [(b, b)] else [(b, b)]) false)
  | "cls" =>
    let ng ← natOf (← a[1]?)
    let f ← natOf (← a[2]?)
    let rs ← arrOf (← a[3]?)
    let rs ← rs.toList.mapM fun r => do
      let p ← arrOf r
      some ((← natOf (← p[0]?)), (← natOf (← p[1]?)))
    some (.atom (if f != 0 then foldRanges rs else rs) (ng != 0))
  | "as" => do
    let s ← strOf (← a[1]?)
    some (.assert (← assertionOf s))
  | "cat" =>
    let ss ← arrOf (← a[1]?)
    some (listToCat (← ss.toList.mapM astOf))
  | "alt" =>
    let ss ← arrOf (← a[1]?)
    some (listToAlt (← ss.toList.mapM astOf))
  | "star" => some (.rep (← astOf (← a[2]?)) 0 none)
  | "plus" => some (.rep (← astOf (← a[2]?)) 1 none)
  | "quest" => some (.rep (← astOf (← a[2]?)) 0 (some 1))
  | "rep" =>
    let mn ← natOf (← a[1]?)
    let mx ← intOf (← a[2]?)
    some (.rep (← astOf (← a[4]?)) mn (if mx < 0 then none else some mx.toNat))
  | "cap" => astOf (← a[1]?)
  | _ => none

def instOf (j : Json) : Option Inst := do
  let a ← arrOf j
  let op ← Op.ofNat? (← natOf (← a[0]?))
  let out ← natOf (← a[1]?)
  let arg ← natOf (← a[2]?)
  let rs ← arrOf (← a[3]?)
  let rs ← rs.toList.mapM natOf
  some { op := op, out := out, arg := arg, rune := rs }

def progOf (j : Json) : Option Prog := do
  let start ← natOf (← (j.getObjVal? "start").toOption)
  let insts ← arrOf (← (j.getObjVal? "inst").toOption)
  let insts ← insts.mapM instOf
  some { inst := insts, start := start }

def hex2 (n : Nat) : String :=
  (hexDigit (n / 16 % 16)).toString ++ (hexDigit (n % 16)).toString

def showHi : Option Nat → String
  | some h => toString h
  | none => toString MAXU

def step (old : Bool) (line : String) : String :=
  match Json.parse line with
  | .error _ => "bad-case"
  | .ok j =>
    match (j.getObjVal? "ast").toOption.bind astOf, (j.getObjVal? "prog").toOption,
          (j.getObjVal? "nosuffix").toOption.bind natOf with
    | some ast, some pj, some ns =>
      if pj.isNull then "error" else
      match progOf pj with
      | none => "bad-case"
      | some p =>
        let lens := if old then oldWalk p else lenWalk p
        let suf : Option String :=
          if ns != 0 then some "-" else (suffixWalk p).map fun s => String.join (s.map hex2)
        match lens, suf with
        | some (mn, mx), some s =>
          let (amin, amax) :=
            if regular ast then (toString (lenRange ast).1, showHi (lenRange ast).2) else ("*", "*")
          s!"min={mn} max={mx} suffix={s} amin={amin} amax={amax}"
        | _, _ => "abort"
    | _, _, _ => "bad-case"

def main (old : Bool) : IO Unit :=
  runLines () fun _ line => ((), step old line)

end Pk.Driver.C18
