/-
  Line-protocol driver for the tag management model (property C11).
  One JSON object per input line, one JSON object per output line.

    {"op":"new","next":N,"convs":[..]}                 fresh manager with N streams and the given converters
    {"op":"add","name":..,"color":..,"def":..,"p":F}   AddTag
    {"op":"del","name":..}                             DelTag
    {"op":"color","name":..,"color":..}                UpdateTag(UpdateColor)
    {"op":"query","name":..,"def":..,"p":F}            UpdateTag(UpdateQuery)
    {"op":"rename","name":..,"to":..}                  UpdateTag(UpdateName)
    {"op":"conv","name":..,"convs":[..]}               UpdateTag(SetConverter)
    {"op":"markadd"|"markdel","name":..,"ids":[..]}    UpdateTag(MarkAddStream/MarkDelStream)
  F = {"err":b,"grp":b,"mt":[..],"st":[..],"mf":n,"sf":n,"idsok":b,"ids":[..]}  (facts of query.Parse on "def")

  Output: {"r":"ok"|"err"|"panic"|"hang","tags":[T..]} where the tags are what ListTags (plus the strict
  accessor) shows once the service is quiet; T = {"n","d","sd","c","ref","cv","m"}; "sd"/"m" are null
  where the value depends on query evaluation.  After a panic/hang every further op of the case
  answers {"r":"dead"}; before the first "new": {"r":"no-manager"}; unparsable: {"r":"bad-op"}.
-/
import Lean.Data.Json
import Pk.Model.TagGraph
import Pk.Driver.Util

namespace Pk.Driver.C11
open Lean Pk.TagGraph Pk.Driver

inductive DSt where
  | none
  | live (st : State)
  | dead

def strs? (j : Json) (k : String) : Option (List String) :=
  match j.getObjVal? k with
  | .ok (.arr a) => a.toList.mapM fun x => match x with | .str s => some s | _ => none
  | _ => none

def nats? (j : Json) (k : String) : Option (List Nat) :=
  match j.getObjVal? k with
  | .ok (.arr a) => a.toList.mapM fun x => match x.getNat? with | .ok n => some n | _ => none
  | _ => none

def str? (j : Json) (k : String) : Option String :=
  match j.getObjValAs? String k with | .ok s => some s | _ => none
def nat? (j : Json) (k : String) : Option Nat :=
  match j.getObjValAs? Nat k with | .ok s => some s | _ => none
def bool? (j : Json) (k : String) : Option Bool :=
  match j.getObjValAs? Bool k with | .ok s => some s | _ => none

def facts? (j : Json) : Option Facts := do
  let p ← match j.getObjVal? "p" with | .ok p => some p | _ => none
  return { parseErr := ← bool? p "err", grouping := ← bool? p "grp",
           mainTags := ← strs? p "mt", subTags := ← strs? p "st",
           mainFeat := ← nat? p "mf", subFeat := ← nat? p "sf",
           idsOk := ← bool? p "idsok", ids := normNat (← nats? p "ids") }

def op? (j : Json) : Option Op := do
  let op ← str? j "op"
  let name ← str? j "name"
  match op with
  | "add" => return .add name (← str? j "color") (← str? j "def") (← facts? j)
  | "del" => return .del name
  | "color" => return .color name (← str? j "color")
  | "query" => return .query name (← str? j "def") (← facts? j)
  | "rename" => return .rename name (← str? j "to")
  | "conv" => return .converters name (← strs? j "convs")
  | "markadd" => return .markAdd name (← nats? j "ids")
  | "markdel" => return .markDel name (← nats? j "ids")
  | _ => none

def tagJson (n : String) (t : Tag) : Json :=
  let info := makeTagInfo n t
  Json.mkObj [
    ("n", .str info.name), ("d", .str info.definition),
    ("sd", if t.definition == "<unknown>" then .null else .str t.definition),
    ("c", .str info.color), ("ref", .bool info.referenced),
    ("cv", .arr (info.converters.map Json.str).toArray),
    ("m", if t.known then .arr (t.matched.map fun (x : Nat) => (x : Json)).toArray else .null)]

def obsJson (r : String) (st : State) : String :=
  let infos := listTags st
  let tags := infos.filterMap fun i => (tget st.tags i.name).map (tagJson i.name)
  (Json.mkObj [("r", .str r), ("tags", .arr tags.toArray)]).compress

def simple (r : String) : String := (Json.mkObj [("r", .str r)]).compress

def step (d : DSt) (line : String) : DSt × String :=
  match Json.parse line with
  | .error _ => (d, simple "bad-op")
  | .ok j =>
    if str? j "op" == some "new" then
      match nat? j "next", strs? j "convs" with
      | some n, some cs => (.live { nextStreamID := n, convs := cs },
                            (Json.mkObj [("r", .str "new"), ("next", (n : Json))]).compress)
      | _, _ => (d, simple "bad-op")
    else match d with
    | .none => (d, simple "no-manager")
    | .dead => (d, simple "dead")
    | .live st =>
      match op? j with
      | none => (d, simple "bad-op")
      | some op =>
        match Pk.TagGraph.step st op with
        | (.ok, st') => let s := settle st'; (.live s, obsJson "ok" s)
        | (.err, st') => let s := settle st'; (.live s, obsJson "err" s)
        | (.panic _, _) => (.dead, simple "panic")
        | (.diverged _, _) => (.dead, simple "hang")

def main : IO Unit := runLines DSt.none step

end Pk.Driver.C11
