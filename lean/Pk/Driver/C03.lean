/-
  Line-protocol driver for the query normaliser model (properties C03 and C14).

  Input, one case per line (JSON):
    {"ref": <reference time, ns since epoch>, "e": <expr>}
  expr:
    {"k":"term","sq":S,"key":S,"conv":S,"v":VALUE} | {"k":"aux"} | {"k":"not","e":E} | {"k":"grp","e":E}
    | {"k":"and"|"or"|"seq","es":[E…]}
  VALUE (already lexed, as participle hands it to conditions.go):
    {"tags":[S…]} | {"protos":[{"tok":S}|{"var":V}…]} | {"hosts":[{"host":[byte…]|null,"var":V|null,"masks":[int…]|null}…]}
    | {"nums":[[[PART…]…]…]}  PART = {"ops":S,"n":N} | {"ops":S,"var":V}
    | {"times":[[[TPART…]…]…]} TPART = {"ops":S,"dur":ns} | {"ops":S,"abs":[y,mo,d,h,mi,s]} | {"ops":S,"var":V}
    | {"data":S,"vars":[[pos,sq,name]…]}
  V = {"sub":S,"name":S}

  Output, one line per case: `err` | `panic` | `diverged` | `false` | conjuncts joined by " | ",
  conditions of a conjunct joined by " & " (`true` for the empty conjunct):
    T(sq;hex name;acc)  F(sq,…;value;mask)  H(sq.c|s,…;hex host;hex m4;hex m6;inv)
    N(sq.ty*factor,…;n)  D(sq.f.l,…;dur;rtf)  C(sq.flags.hexregex.hexconv.[pos:sq:name,…]>…;inv)  X
-/
import Lean.Data.Json
import Pk.Model.Query.Translate
import Pk.Driver.Util

namespace Pk.Driver.C03
open Lean Pk.Query Pk.Driver

def hexByte (n : Nat) : String := (hexDigit (n / 16)).toString ++ (hexDigit (n % 16)).toString
def hexStr (s : String) : String := String.join (s.toUTF8.toList.map (fun b => hexByte b.toNat))
def hexBytes (l : List Nat) : String := String.join (l.map hexByte)
def b01 (b : Bool) : String := if b then "1" else "0"

def showCond : Cond → String
  | .tag c => s!"T({c.sq};{hexStr c.name};{c.acc})"
  | .flag c => s!"F({",".intercalate c.sqs};{c.value};{c.mask})"
  | .host c =>
    let srcs := c.srcs.map (fun s => s.sq ++ "." ++ (if s.server then "s" else "c"))
    s!"H({",".intercalate srcs};{hexBytes c.host};{hexBytes c.m4};{hexBytes c.m6};{b01 c.inv})"
  | .num c =>
    let ss := c.sum.map (fun s => s!"{s.sq}.{s.ty}*{s.factor}")
    s!"N({",".intercalate ss};{c.n})"
  | .time c =>
    let ss := c.sum.map (fun s => s!"{s.sq}.{s.f}.{s.l}")
    s!"D({",".intercalate ss};{c.dur};{c.rtf})"
  | .data c =>
    let es := c.els.map (fun e =>
      let vs := e.vars.map (fun v => s!"{v.pos}:{v.sq}:{v.name}")
      s!"{e.sq}.{e.flags}.{hexStr e.regex}.{hexStr e.conv}.[{",".intercalate vs}]")
    s!"C({">".intercalate es};{b01 c.inv})"
  | .impossible => "X"

def showConj (c : Conj) : String :=
  if c.isEmpty then "true" else " & ".intercalate (c.map showCond)

def showSet (cs : CSet) : String := " | ".intercalate (cs.map showConj)

def showOutcome : Outcome Parsed → String
  | .ok .nothing => "false"
  | .ok (.set cs) => showSet cs
  | .err _ => "err"
  | .panic _ => "panic"
  | .diverged _ => "diverged"

/-! JSON decoding -/

def str (j : Json) (k : String) : Except String String := do (← j.getObjVal? k).getStr?
def arr (j : Json) (k : String) : Except String (Array Json) := do (← j.getObjVal? k).getArr?
def optField (j : Json) (k : String) : Option Json :=
  match j.getObjVal? k with
  | .ok .null => none
  | .ok v => some v
  | .error _ => none

def decVar (j : Json) : Except String Var := do
  return { sub := ← str j "sub", name := ← str j "name" }

def decNumPart (j : Json) : Except String NumPart := do
  let ops ← str j "ops"
  match optField j "var" with
  | some v => return .var ops (← decVar v)
  | none => return .num ops (← (← j.getObjVal? "n").getNat?)

def decTimePart (j : Json) : Except String TimePart := do
  let ops ← str j "ops"
  match optField j "var" with
  | some v => return .var ops (← decVar v)
  | none =>
    match optField j "abs" with
    | some a =>
      let xs ← (← a.getArr?).toList.mapM (·.getNat?)
      match xs with
      | [y, mo, d, h, mi, s] => return .abs ops { y := y, mo := mo, d := d, h := h, mi := mi, s := s }
      | _ => throw "abs needs 6 fields"
    | none => return .dur ops (← (← j.getObjVal? "dur").getInt?)

def decHostEntry (j : Json) : Except String HostEntry := do
  let var ← match optField j "var" with
    | some v => pure (some (← decVar v))
    | none => pure none
  let host ← match optField j "host" with
    | some h => (← h.getArr?).toList.mapM (·.getNat?)
    | none => pure []
  let masks ← match optField j "masks" with
    | some m => pure (some (← (← m.getArr?).toList.mapM (·.getInt?)))
    | none => pure none
  return { var := var, host := host, masks := masks }

def decProto (j : Json) : Except String ProtoEntry := do
  match optField j "var" with
  | some v => return .var (← decVar v)
  | none => return .token (← str j "tok")

def decRanges {α : Type} (dec : Json → Except String α) (j : Json) : Except String (List (List (List α))) := do
  (← j.getArr?).toList.mapM (fun e => do
    (← e.getArr?).toList.mapM (fun r => do (← r.getArr?).toList.mapM dec))

def decValue (v : Json) : Except String TermValue := do
  if let some x := optField v "tags" then
    return .tags (← (← x.getArr?).toList.mapM (·.getStr?))
  if let some x := optField v "protos" then
    return .protos (← (← x.getArr?).toList.mapM decProto)
  if let some x := optField v "hosts" then
    return .hosts (← (← x.getArr?).toList.mapM decHostEntry)
  if let some x := optField v "nums" then
    return .nums (← decRanges decNumPart x)
  if let some x := optField v "times" then
    return .times (← decRanges decTimePart x)
  if let some x := optField v "data" then
    let vars ← match optField v "vars" with
      | some vs => (← vs.getArr?).toList.mapM (fun t => do
          match (← t.getArr?).toList with
          | [p, s, n] => pure ({ pos := ← p.getNat?, sq := ← s.getStr?, name := ← n.getStr? } : DataVar)
          | _ => throw "var needs 3 fields")
      | none => pure []
    return .data (← x.getStr?) vars
  return .other

partial def decExpr (j : Json) : Except String Expr := do
  let k ← str j "k"
  match k with
  | "term" =>
    return .term { sq := ← str j "sq", key := ← str j "key", conv := ← str j "conv",
                   value := ← decValue (← j.getObjVal? "v") }
  | "aux" => return .aux
  | "not" => return .not (← decExpr (← j.getObjVal? "e"))
  | "grp" => return .grp (← decExpr (← j.getObjVal? "e"))
  | "and" => return .and (← (← arr j "es").toList.mapM decExpr)
  | "or" => return .or (← (← arr j "es").toList.mapM decExpr)
  | "seq" => return .seq (← (← arr j "es").toList.mapM decExpr)
  | _ => throw ("bad expr kind " ++ k)

def step (_ : Unit) (line : String) : Unit × String :=
  match Json.parse line with
  | .error e => ((), "bad-case " ++ e)
  | .ok j =>
    match (do
      let ref ← (← j.getObjVal? "ref").getInt?
      let e ← decExpr (← j.getObjVal? "e")
      pure (ref, e) : Except String (Int × Expr)) with
    | .error e => ((), "bad-case " ++ e)
    | .ok (ref, e) => ((), showOutcome (parse ref e))

def main : IO Unit := runLines () step

end Pk.Driver.C03
