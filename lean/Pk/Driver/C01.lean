/-
  `pkmodel c01`: model side of the C01 correspondence check (index files return every stored
  stream exactly as written). The register machine is shared with C07 (Pk/Driver/Index.lean).
-/
import Pk.Driver.Index

namespace Pk.Driver.C01
def main : IO Unit := Pk.Driver.Index.main
end Pk.Driver.C01
