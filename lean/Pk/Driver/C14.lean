/-
  Property C14 uses the same line protocol and the same model entry point as C03
  (`pkmodel c14` = `pkmodel c03`): the outcome (`ok` normal form | `err` | `panic` | `diverged`)
  of `Pk.Query.parse` is what the totality tie compares with the real `query.Parse`.
-/
import Pk.Driver.C03

namespace Pk.Driver.C14
def main : IO Unit := Pk.Driver.C03.main
end Pk.Driver.C14
