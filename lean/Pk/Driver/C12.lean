/-
  Line-protocol driver for the recovery model (property C12).
  Input : one JSON object per line: {"idx":[{"name","complete"}], "states":[{"name","saved","parsable","tags":[{name,def,color,convs}]}]}
          (what the crash copy of the data directory holds, files in name order)
  Output: {"idx":[names stacked by New, in order], "tags":[tags New loads, sorted by name],
           "next": next stream id (Pk.Recover.nextID), "view":[[id, name of the file that serves it]] (Pk.Recover.recoverView)}
-/
import Lean.Data.Json
import Pk.Model.Recover
import Pk.Model.RecoverIdx
import Pk.Driver.Util

namespace Pk.Driver.C12
open Lean Pk.Recover

def jstr (j : Json) (k : String) : String := ((j.getObjValAs? String k).toOption).getD ""
def jbool (j : Json) (k : String) : Bool := ((j.getObjValAs? Bool k).toOption).getD false
def jnat (j : Json) (k : String) : Nat := ((j.getObjValAs? Nat k).toOption).getD 0
def jarr (j : Json) (k : String) : List Json :=
  match j.getObjVal? k with
  | .ok (.arr a) => a.toList
  | _ => []
def jstrs (j : Json) (k : String) : List String := (jarr j k).filterMap (fun x => x.getStr?.toOption)
def jnats (j : Json) (k : String) : List Nat := (jarr j k).filterMap (fun x => x.getNat?.toOption)

def tagOf (j : Json) : TagRec := { name := jstr j "name", defn := jstr j "def", color := jstr j "color", convs := jstrs j "convs" }

def insertBy {α} (lt : α → α → Bool) (x : α) : List α → List α
  | [] => [x]
  | y :: ys => if lt x y then x :: y :: ys else y :: insertBy lt x ys
def sortBy {α} (lt : α → α → Bool) (l : List α) : List α := l.foldl (fun acc x => insertBy lt x acc) []

/-- the kinds of the file operations of the modelled state save (`saveOps`), in order; compared by the check with
    the order read from the source of `saveState` (create + write = createPartial … complete = close, remove) -/
def saveOrder : String :=
  let new : StateFile := { name := 2, saved := 2, parsable := true, tags := [] }
  ",".intercalate ((saveOps new (some 1)).map fun
    | .createPartial _ => "createPartial"
    | .complete _ => "complete"
    | .remove _ => "remove")

def stepLine (_ : Unit) (line : String) : Unit × String :=
  match Json.parse line with
  | .error e => ((), "{\"error\":" ++ (Json.str e).compress ++ "}")
  | .ok j =>
    if (j.getObjVal? "saveorder").isOk then ((), "{\"saveorder\":\"" ++ saveOrder ++ "\"}") else
    -- files arrive in name order; the model names them by their rank
    let idxJ := sortBy (fun a b => jstr a "name" < jstr b "name") (jarr j "idx")
    let stJ := sortBy (fun a b => jstr a "name" < jstr b "name") (jarr j "states")
    let names := idxJ.map (fun x => jstr x "name")
    let d : Disk := {
      idx := idxJ.zipIdx.map (fun (x, i) => { name := i, complete := jbool x "complete", ids := jnats x "ids" }),
      states := stJ.zipIdx.map (fun (x, i) => { name := i, saved := jnat x "saved", parsable := jbool x "parsable",
                                                tags := (jarr x "tags").map tagOf }) }
    let idx := (recoverIdx d).map (fun i => names.getD i "?")
    let tags := sortBy (fun (a b : TagRec) => a.name < b.name) (recoverTags d)
    let tj := tags.map fun t => Json.mkObj [("name", t.name), ("def", t.defn), ("color", t.color),
                                            ("convs", Json.arr (t.convs.map Json.str).toArray)]
    let view := (recoverView d.idx).map fun (id, f) => Json.arr #[(id : Json), Json.str (names.getD f "?")]
    ((), (Json.mkObj [("idx", Json.arr (idx.map Json.str).toArray), ("tags", Json.arr tj.toArray),
                      ("next", (nextID d.idx : Json)), ("view", Json.arr view.toArray)]).compress)

def main : IO Unit := Pk.Driver.runLines () stepLine

end Pk.Driver.C12
