/-
  Shared helpers for the line-protocol drivers (core Lean only).
-/
namespace Pk.Driver

def hexDigit (n : Nat) : Char :=
  if n < 10 then Char.ofNat (48 + n) else Char.ofNat (87 + n)

partial def hexNat (n : Nat) : String :=
  if n < 16 then (hexDigit n).toString else hexNat (n / 16) ++ (hexDigit (n % 16)).toString

def parseHex? (s : String) : Option Nat :=
  if s.isEmpty then none else
  s.foldl (fun acc c =>
    match acc with
    | none => none
    | some v =>
      if '0' ≤ c ∧ c ≤ '9' then some (v * 16 + (c.toNat - 48))
      else if 'a' ≤ c ∧ c ≤ 'f' then some (v * 16 + (c.toNat - 87))
      else if 'A' ≤ c ∧ c ≤ 'F' then some (v * 16 + (c.toNat - 55))
      else none) (some 0)

def words (line : String) : List String :=
  (line.splitOn " ").filter (· ≠ "")

def stripNL (line : String) : String :=
  let s := if line.endsWith "\n" then line.dropRight 1 else line
  if s.endsWith "\r" then s.dropRight 1 else s

/-- run `step` over every line of stdin, printing one output line per input line. -/
partial def lineLoop {σ : Type} (h : IO.FS.Stream) (out : IO.FS.Stream) (st : σ)
    (step : σ → String → σ × String) : IO Unit := do
  let line ← h.getLine
  if line.isEmpty then
    out.flush
    return ()
  let (st', o) := step st (stripNL line)
  out.putStrLn o
  lineLoop h out st' step

def runLines {σ : Type} (init : σ) (step : σ → String → σ × String) : IO Unit := do
  let stdin ← IO.getStdin
  let stdout ← IO.getStdout
  lineLoop stdin stdout init step

end Pk.Driver
