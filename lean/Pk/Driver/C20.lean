/-
  Line-protocol driver for the access-table discipline (property C20).
  Input lines (one output line per input line):
    row <field> <ctx> <r|w> <lock>:<r|w>,... | -     add a row (field and lock ids are numbers)        → ok
    exc <field> <ctx> <ctx>                          add an exception                                   → ok
    check            → `ok rows=<n>`  or  `unsafe <n> : <field> <ctx> <r|w> [locks] / <ctx> <r|w> [locks] ; ...`
    stale            → exceptions that excuse nothing: `stale <n> : <field> <ctx> <ctx> ; ...`
    reset            → ok
  anything else → bad-op
-/
import Pk.Model.Access
import Pk.Driver.Util

namespace Pk.Driver.C20
open Pk.Access Pk.Driver

structure St where
  tbl : Table := []
  exc : Exceptions := []

def parseLocks (s : String) : Option (List (Nat × Mode)) :=
  if s == "-" then some [] else
  (s.splitOn ",").mapM fun p =>
    match p.splitOn ":" with
    | [l, "r"] => l.toNat?.map (·, Mode.r)
    | [l, "w"] => l.toNat?.map (·, Mode.w)
    | _ => none

def showLocks (ls : List (Nat × Mode)) : String :=
  "[" ++ ",".intercalate (ls.map fun (l, m) => s!"{l}:{if m == .w then "w" else "r"}") ++ "]"

def showRow (r : Row) : String :=
  s!"{r.ctx.name} {if r.write then "w" else "r"} {showLocks r.locks}"

def step (st : St) (line : String) : St × String :=
  match words line with
  | ["row", f, c, rw, ls] =>
    match f.toNat?, Ctx.ofName? c, parseLocks ls with
    | some f, some c, some ls =>
      if rw == "r" || rw == "w" then ({ st with tbl := st.tbl ++ [⟨f, c, rw == "w", ls⟩] }, "ok") else (st, "bad-op")
    | _, _, _ => (st, "bad-op")
  | ["exc", f, c1, c2] =>
    match f.toNat?, Ctx.ofName? c1, Ctx.ofName? c2 with
    | some f, some c1, some c2 => ({ st with exc := st.exc ++ [(f, c1, c2)] }, "ok")
    | _, _, _ => (st, "bad-op")
  | ["check"] =>
    let bad := unsafePairs st.tbl st.exc
    if disciplineHolds st.tbl st.exc then (st, s!"ok rows={st.tbl.length}")
    else (st, s!"unsafe {bad.length} : " ++ " ; ".intercalate (bad.map fun (a, b) => s!"{a.field} {showRow a} / {showRow b}"))
  | ["stale"] =>
    let s := staleExceptions st.tbl st.exc
    (st, s!"stale {s.length} : " ++ " ; ".intercalate (s.map fun (f, c1, c2) => s!"{f} {c1.name} {c2.name}"))
  | ["reset"] => ({}, "ok")
  | _ => (st, "bad-op")

def main : IO Unit := runLines ({} : St) step

end Pk.Driver.C20
